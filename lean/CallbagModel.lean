import CallbagModel.Core
