import CallbagModel.Sem
/-!
# Further restrictions of the environment asked for by individual properties

`legalIn`/`legalRet` (Core.lean) define the spec-conformant peers of every theorem.  The properties C02/C03 (for `share`),
C12 and C14 quantify over a smaller class of environments; each such class is a `Restr` defined here, readable in
isolation, and appears by name in the statement of the theorem that needs it.
-/
namespace Cb
variable {St Loc α β : Type}

/-- a delivery to some sink is in progress somewhere on the stack -/
def deliveryOpen : List (Frame Loc β) → Bool
  | [] => false
  | .wait (.down _ _) _ :: _ => true
  | _ :: r => deliveryOpen r

/-- C12's quantifier ("with 2+ sinks the source does not emit from inside one of share's own deliveries"): an upstream
delivers only while no delivery by the operator to a sink is in progress. -/
def noNestedFanout : Restr St Loc α β := fun s m =>
  match m with
  | .call (.srcDown _ _) => deliveryOpen s.stack = false
  | _ => True

end Cb
