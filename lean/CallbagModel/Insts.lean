import CallbagModel.Script
import CallbagModel.Spec
import CallbagModel.Ops.Relay
import CallbagModel.Ops.Take
import CallbagModel.Ops.Merge
import CallbagModel.Ops.Concat
import CallbagModel.Ops.Combine
import CallbagModel.Ops.Flatten
import CallbagModel.Ops.Share
import CallbagModel.Ops.FromIter
import CallbagModel.Ops.ForEach
import CallbagModel.Ops.Compose
import CallbagModel.Ops.PlugOp
import CallbagModel.Ops.Plug
/-!
# Operator instances known to the driver and to the Rust harness (same names, same closures on both sides)

`map:add:K` `map:mul:K` · `filter:mod:M:R` · `scan:lin:B:SEED` (`acc ↦ (acc*B + x) mod 1000003`) · `skip:N` · `take:N` ·
`merge:N` (`merge0:N` = the code before FX2/FX3) · `concat:N` · `combine:N` · `flatten` · `share:K` (K sinks) ·
`fromiter:LEN` (items 101, 102, …; `fromiter:inf` unbounded) · `foreach` · `in:<j>/<LEN>/<n-ary>` (real from_iter as a member)
-/
namespace Cb

structure Inst where
  St : Type
  Loc : Type
  β : Type
  M : Machine St Loc Int β
  fb : β → String
  pb : String → Option β
  nSinks : Nat := 1
  /-- the operator's functional specification (Spec.lean), evaluated on a trace cut where the environment has control -/
  spec : Option (List (Ev Int β) → Bool) := none
  /-- the history class the specification is stated for (C12: no nested fan-out) -/
  specDomain : List (Ev Int β) → Bool := fun _ => true
  /-- `Namespace.constructor` of a location (coverage of the model's code by the scripts) -/
  locName : Loc → String := fun _ => "?"

def parseIntList (s : String) : Option (List Int) :=
  let inner := ((s.drop 1).dropEnd 1).toString
  if inner.isEmpty then some [] else (inner.splitOn ",").mapM String.toInt?

def mkInt {St Loc} [Repr Loc] (M : Machine St Loc Int Int) (nSinks : Nat := 1) (spec : Option (List (Ev Int Int) → Bool) := none)
    (dom : List (Ev Int Int) → Bool := fun _ => true) : Inst :=
  { St := St, Loc := Loc, β := Int, M := M, fb := fmtInt, pb := String.toInt?, nSinks := nSinks, spec := spec, specDomain := dom,
    locName := fun l => locTag (reprStr l) }

def relaySpec {σ} (k : Relay.Kind σ Int Int) : Option (List (Ev Int Int) → Bool) := some (relayOk k.xfer k.seed)

/-- no upstream delivery begins while a delivery by the operator is open (C12's quantifier) -/
def noNestedFanoutTr {α β} : List (Ev α β) → Bool
  | [] => true
  | .inp (.srcDown _ _) :: t =>
      !(openCalls t).any (fun f => match f with | some (.down _ _) => true | _ => false) && noNestedFanoutTr t
  | _ :: t => noNestedFanoutTr t

def scanLin (b : Int) (acc x : Int) : Int := (acc * b + x) % 1000003

def iterNext (len : Option Nat) (pos : Nat) : Option (Int × Nat) :=
  match len with
  | some n => if pos < n then some (101 + pos, pos + 1) else none
  | none => some (101 + pos, pos + 1)

/-- an operator over `Int` data on both sides, usable as a stage of a chain -/
structure IntStage where
  St : Type
  Loc : Type
  M : Machine St Loc Int Int
  [reprLoc : Repr Loc]

/-- stages of `chain:` instances; fields separated by `,` -/
def stageOf (name : String) : Option IntStage :=
  match name.splitOn "," with
  | ["map", "add", k] => k.toInt?.map fun k => ⟨_, _, Relay.machine (Relay.map (· + k))⟩
  | ["map", "mul", k] => k.toInt?.map fun k => ⟨_, _, Relay.machine (Relay.map (· * k))⟩
  | ["filter", "mod", m, r] => match m.toInt?, r.toInt? with
    | some m, some r => some ⟨_, _, Relay.machine (Relay.filter fun x => x % m == r)⟩
    | _, _ => none
  | ["scan", "lin", b, s] => match b.toInt?, s.toInt? with
    | some b, some s => some ⟨_, _, Relay.machine (Relay.scan (scanLin b) s)⟩
    | _, _ => none
  | ["skip", n] => n.toNat?.map fun n => ⟨_, _, Relay.machine (Relay.skip n)⟩
  | ["take", n] => n.toNat?.map fun n => ⟨_, _, Take.machine Int n⟩
  | ["merge", n] => n.toNat?.map fun n => ⟨_, _, Merge.machine Int n true⟩      -- only as the first (upstream-most) stage
  | ["concat", n] => n.toNat?.map fun n => ⟨_, _, Concat.machine Int n⟩         -- only as the first stage
  | ["flatten"] => some ⟨_, _, Flatten.machine Int⟩                             -- only as the first stage
  | _ => none

def IntStage.then (a b : IntStage) : IntStage :=
  haveI : Repr a.Loc := a.reprLoc
  haveI : Repr b.Loc := b.reprLoc
  { St := a.St × b.St, Loc := List (CFr a.Loc b.Loc), M := compose a.M b.M }

/-- `pipe!(puppets…, stage₁, stage₂, …)`: left fold of `compose` -/
def chainOf : List String → Option IntStage
  | [] => none
  | s :: rest => (stageOf s).bind fun first =>
      rest.foldl (fun acc nm => acc.bind fun a => (stageOf nm).map fun b => a.then b) (some first)

/-- `at:<j>/<stage>/<n-ary>`: the unary stage applied to member `j` of `merge,N` / `concat,N` / `combine,N` (`Ops/PlugOp.lean`) -/
def atOf (name : String) : Option Inst :=
  match (name.drop 3).toString.splitOn "/" with
  | [js, stage, nary] =>
    match js.toNat?, stageOf stage, nary.splitOn "," with
    | some j, some st, ["merge", n] => n.toNat?.map fun n =>
        haveI : Repr st.Loc := st.reprLoc
        mkInt (plugOp j st.M (Merge.machine Int n true))
    | some j, some st, ["concat", n] => n.toNat?.map fun n =>
        haveI : Repr st.Loc := st.reprLoc
        mkInt (plugOp j st.M (Concat.machine Int n))
    | some j, some st, ["combine", n] => n.toNat?.map fun n =>
        haveI : Repr st.Loc := st.reprLoc
        { St := st.St × Combine.St Int, Loc := List (CFr st.Loc (Combine.Loc Int)), β := List Int,
          M := plugOp j st.M (Combine.machine Int n), fb := fmtList, pb := parseIntList, locName := fun l => locTag (reprStr l) }
    | _, _, _ => none
  | _ => none

/-- `in:<j>/<LEN>/<n-ary>`: the REAL `from_iter` (LEN items 101, 102, …) as member `j` of `merge,N` / `concat,N` / `combine,N`, the other
members puppets (`Ops/Plug.lean`): what the n-ary operator sends to a member that has ended (known findings KF2, KF2m) meets the real
source's own end-of-life handling -/
def inOf (name : String) : Option Inst :=
  match (name.drop 3).toString.splitOn "/" with
  | [js, ls, nary] =>
    match js.toNat?, ls.toNat?, nary.splitOn "," with
    | some j, some len, ["merge", n] => n.toNat?.map fun n =>
        mkInt (plug j (FromIter.machine Int (iterNext (some len)) 0) (Merge.machine Int n true))
    | some j, some len, ["concat", n] => n.toNat?.map fun n =>
        mkInt (plug j (FromIter.machine Int (iterNext (some len)) 0) (Concat.machine Int n))
    | some j, some len, ["combine", n] => n.toNat?.map fun n =>
        { St := FromIter.St Nat Int × Combine.St Int, Loc := List (CFr FromIter.Loc (Combine.Loc Int)), β := List Int,
          M := plug j (FromIter.machine Int (iterNext (some len)) 0) (Combine.machine Int n), fb := fmtList, pb := parseIntList,
          locName := fun l => locTag (reprStr l) }
    | _, _, _ => none
  | _ => none

def instOf (name : String) : Option Inst :=
  if name.startsWith "at:" then atOf name else
  if name.startsWith "in:" then inOf name else
  if name.startsWith "chain:" then
    (chainOf ((name.drop 6).toString.splitOn "/")).map fun c => @mkInt c.St c.Loc c.reprLoc c.M 1 none (fun _ => true)
  else
  match name.splitOn ":" with
  | ["map", "add", k] => k.toInt?.map fun k => mkInt (Relay.machine (Relay.map (· + k))) 1 (relaySpec (Relay.map (· + k)))
  | ["map", "mul", k] => k.toInt?.map fun k => mkInt (Relay.machine (Relay.map (· * k))) 1 (relaySpec (Relay.map (· * k)))
  | ["filter", "mod", m, r] => match m.toInt?, r.toInt? with
    | some m, some r => some (mkInt (Relay.machine (Relay.filter fun x => x % m == r)) 1 (relaySpec (Relay.filter fun x => x % m == r)))
    | _, _ => none
  | ["scan", "lin", b, s] => match b.toInt?, s.toInt? with
    | some b, some s => some (mkInt (Relay.machine (Relay.scan (scanLin b) s)) 1 (relaySpec (Relay.scan (scanLin b) s)))
    | _, _ => none
  | ["skip", n] => n.toNat?.map fun n => mkInt (Relay.machine (Relay.skip n)) 1 (relaySpec (Relay.skip n))
  | ["take", n] => n.toNat?.map fun n => mkInt (Take.machine Int n) 1 (some (takeOk n))
  | ["take0", n] => n.toNat?.map fun n => mkInt (Take.machine Int n false) 1 (some (takeOk n))
  | ["merge", n] => n.toNat?.map fun n => mkInt (Merge.machine Int n true) 1 (some (mergeOk n))
  | ["merge0", n] => n.toNat?.map fun n => mkInt (Merge.machine Int n false) 1 (some (mergeOk n))
  | ["concat", n] => n.toNat?.map fun n => mkInt (Concat.machine Int n) 1 (some (concatOk n))
  -- beyond the domain of the properties (members that greet late): used by C17 only, to watch the defensive assertions there too
  | ["concatL", n] => n.toNat?.map fun n => mkInt { Concat.machine Int n with shape := { nSrc := n, lateGreet := true } }
  | ["flattenL"] => some (mkInt { Flatten.machine Int with shape := { nSrc := 1, relayErr := false, lateGreet := true } })
  | ["combineL", n] => n.toNat?.map fun n =>
      { St := Combine.St Int, Loc := Combine.Loc Int, β := List Int, M := { Combine.machine Int n with shape := { nSrc := n, lateGreet := true } },
        fb := fmtList, pb := parseIntList, locName := fun l => locTag (reprStr l) }
  | ["combine", n] => n.toNat?.map fun n =>
      { St := Combine.St Int, Loc := Combine.Loc Int, β := List Int, M := Combine.machine Int n, fb := fmtList, pb := parseIntList,
        spec := some (combineOk n), locName := fun l => locTag (reprStr l) }
  | ["flatten"] => some (mkInt (Flatten.machine Int) 1 (some flattenOk))
  | ["share", k] => k.toNat?.map fun k => mkInt (Share.machine Int) k (some shareOk) noNestedFanoutTr
  | ["fromiter", "inf"] => some (mkInt (FromIter.machine Int (iterNext none) 0) 1 (some (fromIterOk (iterNext none) 0)))
  | ["fromiter", n] => n.toNat?.map fun n => mkInt (FromIter.machine Int (iterNext (some n)) 0) 1 (some (fromIterOk (iterNext (some n)) 0))
  | ["foreach"] => some (mkInt (ForEach.machine Int))
  | _ => none

end Cb
