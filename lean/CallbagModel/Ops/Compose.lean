import CallbagModel.Core
/-!
# Composition of operators: `pipe!(source, op₁, op₂)` = `op₂(op₁(source))` as ONE machine

`compose M₁ M₂`: `M₁` is the upstream-side operator, `M₂` the downstream-side one; `M₁`'s sink 0 IS `M₂`'s upstream 0.  A call of
one component into the other (`M₂.subSrc 0`, `M₂.srcUp 0 u`, `M₁.greet 0`, `M₁.down 0 d`) is an INTERNAL call: it pushes a frame of
the callee on the composite's own stack of component frames and is a `tau` of the composite; every other call (`M₁` to its upstreams,
`M₂` to its sinks) is a call of the composite to the environment.  The composite's location is its stack of component frames
(innermost first), so re-entrancy across the internal boundary — `M₂` pulling from inside the delivery `M₁` is making to it — is
an ordinary execution.  All calls are synchronous, exactly as closures calling closures in the crate.
-/
namespace Cb

/-- a frame of one of the two components: `lo` = upstream-side component `M₁`, `hi` = downstream-side component `M₂` -/
inductive CFr (L1 L2 : Type) where
  | lo (l : L1) | hi (l : L2)
deriving Repr, BEq, Hashable

def compose {S1 L1 S2 L2 α β γ : Type} (M1 : Machine S1 L1 α β) (M2 : Machine S2 L2 β γ) :
    Machine (S1 × S2) (List (CFr L1 L2)) α γ where
  shape := { nSrc := M1.shape.nSrc, lateGreet := M1.shape.lateGreet, multiSink := M2.shape.multiSink,
             relayErr := M1.shape.relayErr && M2.shape.relayErr }
  init := (M1.init, M2.init)
  enter
    | .subscribe k => [.hi (M2.enter (.subscribe k))]
    | .sinkUp k u => [.hi (M2.enter (.sinkUp k u))]
    | .srcGreet i => [.lo (M1.enter (.srcGreet i))]
    | .srcDown i d => [.lo (M1.enter (.srcDown i d))]
  step st
    | [] => .ret
    | .lo l :: rest =>
      match M1.step st.1 l with
      | .tau s1 l' => .tau (s1, st.2) (.lo l' :: rest)
      | .ret => if rest.isEmpty then .ret else .tau st rest
      | .panic m => .panic m
      | .call o s1 l' =>
        match o with
        | .greet 0 => .tau (s1, st.2) (.hi (M2.enter (.srcGreet 0)) :: .lo l' :: rest)          -- M₁ greets its sink, which is M₂
        | .down 0 d => .tau (s1, st.2) (.hi (M2.enter (.srcDown 0 d)) :: .lo l' :: rest)         -- M₁ delivers to M₂
        | .subSrc i => .call (.subSrc i) (s1, st.2) (.lo l' :: rest)
        | .srcUp i u => .call (.srcUp i u) (s1, st.2) (.lo l' :: rest)
        | _ => .panic "compose: the upstream-side component has a single sink"
    | .hi l :: rest =>
      match M2.step st.2 l with
      | .tau s2 l' => .tau (st.1, s2) (.hi l' :: rest)
      | .ret => if rest.isEmpty then .ret else .tau st rest
      | .panic m => .panic m
      | .call o s2 l' =>
        match o with
        | .subSrc 0 => .tau (st.1, s2) (.lo (M1.enter (.subscribe 0)) :: .hi l' :: rest)        -- M₂ subscribes to its upstream, which is M₁
        | .srcUp 0 u => .tau (st.1, s2) (.lo (M1.enter (.sinkUp 0 u)) :: .hi l' :: rest)        -- M₂ uses the talkback M₁ gave it
        | .greet k => .call (.greet k) (st.1, s2) (.hi l' :: rest)
        | .down k d => .call (.down k d) (st.1, s2) (.hi l' :: rest)
        | .app b => .call (.app b) (st.1, s2) (.hi l' :: rest)
        | _ => .panic "compose: the downstream-side component has a single upstream"

end Cb
