/-!
# interval(period, nursery)  (src/interval.rs)

A thread-level model: per subscription one nursed task (`loop { sleep(period).await; if interval_cleared.load() { break }
let i = i.fetch_add(1); sink(Data(i)) }`) and the sink's thread, which may set `interval_cleared` at any time.  One event =
one shared-state access or one call, so a disposal may fall between the task's check and its emission — exactly the window
the real code has.  The nursery and the clock are the environment: it decides whether a spawn succeeds, and when (and in
which order across subscriptions) timers expire.
-/
namespace Cb.Interval

inductive SpawnRes where | ok | spawn | closed
deriving DecidableEq, Repr

/-- program counter of a subscription's task -/
inductive PC where
  | sleeping            -- awaiting `nursery.sleep(period)`
  | checked             -- the timer expired and `interval_cleared.load()` returned false
  | emitting (v : Nat)  -- `i.fetch_add(1)` returned `v`; about to call `sink(Data(v))`
  | exited              -- the load returned true: `break`
  | failed              -- the nursery refused the task: the sink got `Error`, no talkback was handed out
  | none                -- not subscribed yet
deriving DecidableEq, Repr

structure Sub where
  pc : PC := .none
  i : Nat := 0             -- `i: AtomicUsize`
  cleared : Bool := false  -- `interval_cleared`
deriving DecidableEq, Repr

/-- environment events (`j` = subscription index) -/
inductive Ev where
  | subscribe (j : Nat) (r : SpawnRes)  -- `source(Handshake(sink_j))`, with the nursery's answer
  | expire (j : Nat)                    -- timer of task j fires; the task performs `interval_cleared.load()`
  | bump (j : Nat)                      -- task j performs `i.fetch_add(1)`
  | deliver (j : Nat)                   -- task j calls `sink(Data(v))`
  | dispose (j : Nat)                   -- sink j sends Terminate / Error on its talkback: `interval_cleared.store(true)`
deriving DecidableEq, Repr

/-- what sink `j` receives -/
inductive Obs where
  | greet (j : Nat) | data (j : Nat) (v : Nat) | error (j : Nat) (r : SpawnRes)
deriving DecidableEq, Repr

abbrev State := List Sub

def getSub (s : State) (j : Nat) : Sub := s.getD j {}
def setSub : State → Nat → Sub → State
  | [], 0, x => [x]
  | [], j+1, x => {} :: setSub [] j x
  | _ :: r, 0, x => x :: r
  | y :: r, j+1, x => y :: setSub r j x

/-- one event; events that are not enabled leave the state unchanged and produce nothing -/
def step (s : State) : Ev → State × List Obs
  | .subscribe j r =>
    if (getSub s j).pc ≠ .none then (s, []) else
    match r with
    | .ok => (setSub s j { pc := .sleeping, i := 0, cleared := false }, [.greet j])   -- task nursed, then the sink is greeted
    | r => (setSub s j { pc := .failed }, [.error j r])                                 -- `sink(Error(err)); return`
  | .expire j =>
    let b := getSub s j
    if b.pc = .sleeping then (setSub s j { b with pc := if b.cleared then .exited else .checked }, []) else (s, [])
  | .bump j =>
    let b := getSub s j
    if b.pc = .checked then (setSub s j { b with pc := .emitting b.i, i := b.i + 1 }, []) else (s, [])
  | .deliver j =>
    let b := getSub s j
    match b.pc with
    | .emitting v => (setSub s j { b with pc := .sleeping }, [.data j v])
    | _ => (s, [])
  | .dispose j =>
    let b := getSub s j
    if b.pc = .none ∨ b.pc = .failed then (s, []) else (setSub s j { b with cleared := true }, [])

def run : State → List Ev → State × List Obs
  | s, [] => (s, [])
  | s, e :: es =>
    let (s1, o1) := step s e
    let (s2, o2) := run s1 es
    (s2, o1 ++ o2)

/-- the data values sink `j` received, in order -/
def dataOf (j : Nat) : List Obs → List Nat
  | [] => []
  | .data j' v :: r => if j' = j then v :: dataOf j r else dataOf j r
  | _ :: r => dataOf j r

end Cb.Interval
