import CallbagModel.Core
/-! # merge!(s_0, …, s_{n-1})  (src/merge.rs) -/
namespace Cb.Merge

structure St where
  slots : List Bool          -- `source_talkbacks[j]` is `Some`
  startCount : Nat := 0      -- `start_count`
  endCount : Nat := 0        -- `end_count`
  ended : Bool := false      -- `ended`
deriving Repr, BEq, Hashable

def isEnd : Up → Bool | .pull => false | _ => true

inductive Loc (α : Type) where
  | done
  | subLoop (i : Nat)            -- `for i in 0..n { if ended.load() { return; }`
  | subCall (i : Nat)            -- `call!(sources[i], Handshake(..))`
  | g0 (i : Nat)                 -- member i: `Handshake(source) =>` [`if ended.load() { source(Terminate); return }` with fx] `source_talkbacks[i].store(Some(source))`
  | g1 (i : Nat)                 -- `let start_count = start_count.fetch_add(1) + 1; if start_count == 1`
  | g2                           -- `call!(sink, Handshake(talkback))`
  | data (a : α)                 -- `Data(data) => call!(sink, Data(data))`
  | e0 (i : Nat) (e : Nat)       -- `Error(error) => ended.store(true)`
  | eLoop (i j : Nat) (e : Nat)  -- `for j in 0..n { if j != i { if let Some(tb) = source_talkbacks[j].load() { tb(Terminate) } } }`
  | eOut (e : Nat)               -- `call!(sink, Error(error))`
  | t0 (i : Nat)                 -- `Terminate => source_talkbacks[i].store(None)`
  | t1                           -- `let end_count = end_count.fetch_add(1) + 1; if end_count == n`
  | t2                           -- `call!(sink, Terminate)`
  | u0 (u : Up)                  -- from sink: `if let Error | Terminate = message { ended.store(true) }`
  | uLoop (j : Nat) (u : Up)     -- `for source_talkback in source_talkbacks.iter() { if let Some(tb) = load() { tb(message) } }`
deriving Repr, BEq, Hashable

/-- `fx = true`: the tree with FX2 (a member greeting after the end is disposed) and FX3 (the Pull broadcast stops once
ended); `fx = false`: the code as found. -/
def step {α} (n : Nat) (fx : Bool) (st : St) : Loc α → Act St (Loc α) α
  | .done => .ret
  | .subLoop i => if i < n then (if st.ended then .ret else .tau st (.subCall i)) else .ret
  | .subCall i => .call (.subSrc i) st (.subLoop (i + 1))
  | .g0 i =>
      if fx && st.ended then .call (.srcUp i .term) st .done
      else .tau { st with slots := setAt st.slots i true } (.g1 i)
  | .g1 _ => .tau { st with startCount := st.startCount + 1 } (if st.startCount + 1 == 1 then .g2 else .done)
  | .g2 => .call (.greet 0) st .done
  | .data a => .call (.down 0 (.data a)) st .done
  | .e0 i e => .tau { st with ended := true } (.eLoop i 0 e)
  | .eLoop i j e =>
      if j < n then
        if j != i && phAt st.slots j then .call (.srcUp j .term) st (.eLoop i (j + 1) e)
        else .tau st (.eLoop i (j + 1) e)
      else .tau st (.eOut e)
  | .eOut e => .call (.down 0 (.err e)) st .done
  | .t0 i => .tau { st with slots := setAt st.slots i false } .t1
  | .t1 => .tau { st with endCount := st.endCount + 1 } (if st.endCount + 1 == n then .t2 else .done)
  | .t2 => .call (.down 0 .term) st .done
  | .u0 u => if isEnd u then .tau { st with ended := true } (.uLoop 0 u) else .tau st (.uLoop 0 u)
  | .uLoop j u =>
      if j < n then
        if fx && !isEnd u && st.ended then .ret
        else if phAt st.slots j then .call (.srcUp j u) st (.uLoop (j + 1) u)
        else .tau st (.uLoop (j + 1) u)
      else .ret

def enter {α} : In α → Loc α
  | .subscribe _ => .subLoop 0
  | .sinkUp _ u => .u0 u
  | .srcGreet i => .g0 i
  | .srcDown _ (.data a) => .data a
  | .srcDown i (.err e) => .e0 i e
  | .srcDown i .term => .t0 i

def machine (α : Type) (n : Nat) (fx : Bool := true) (late : Bool := true) : Machine St (Loc α) α α :=
  { shape := { nSrc := n, lateGreet := late }, init := { slots := List.replicate n false },
    enter := enter, step := step n fx }

end Cb.Merge
