import CallbagModel.Core
/-!
# for_each  (src/for_each.rs)

A sink: it has no downstream.  `subscribe 0` stands for the application `for_each(f)(source)`; applying the user's
closure is the boundary event `app a`.
-/
namespace Cb.ForEach

structure St where
  tb : Bool := false     -- `talkback` is `Some`
deriving Repr, BEq, Hashable

inductive Loc (α : Type) where
  | done
  | sub0          -- `call!(source, Handshake(..))`
  | g0            -- `Handshake(source) => talkback.store(Some(source))`
  | pull          -- `talkback.load().expect("source talkback not set"); call!(talkback, Pull)`
  | d0 (a : α)    -- `Data(data) => f(data)`
deriving Repr, BEq, Hashable

def step {α} (st : St) : Loc α → Act St (Loc α) α
  | .done => .ret
  | .sub0 => .call (.subSrc 0) st .done
  | .g0 => .tau { st with tb := true } .pull
  | .pull => if st.tb then .call (.srcUp 0 .pull) st .done else .panic "source talkback not set"
  | .d0 a => .call (.app a) st .pull

def enter {α} : In α → Loc α
  | .subscribe _ => .sub0
  | .srcGreet _ => .g0
  | .srcDown _ (.data a) => .d0 a
  | _ => .done            -- `Error(_) => {}`, `Terminate => {}`; a sink has no talkback to be called on

def machine (α : Type) : Machine St (Loc α) α α :=
  { shape := { nSrc := 1 }, init := {}, enter := enter, step := step }

end Cb.ForEach
