import CallbagModel.Core
/-!
# map / filter / scan / skip  (src/map.rs, src/filter.rs, src/scan.rs, src/skip.rs)

The four unary pass-through operators have the same control skeleton; they differ in what a `Data` does.
That difference is the transfer function `xfer : σ → α → σ × Option β` (new private state; `some b` = deliver
`b`, `none` = drop the item and re-request by sending `Pull` upstream) and in whether the upstream talkback
is read from a slot (`filter`, `skip`: `expect("source talkback not set")`) or captured (`map`, `scan`).
-/
namespace Cb.Relay

structure Kind (σ α β : Type) where
  slotted : Bool
  seed : σ
  xfer : σ → α → σ × Option β

/-- `map(f)`: `Message::Data(data) => call!(sink, Message::Data(f(data)))` -/
def map {α β} (f : α → β) : Kind Unit α β := ⟨false, (), fun _ a => ((), some (f a))⟩
/-- `filter(condition)`: `if condition(&data) { sink(Data(data)) } else { talkback(Pull) }` -/
def filter {α} (p : α → Bool) : Kind Unit α α := ⟨true, (), fun _ a => ((), if p a then some a else none)⟩
/-- `scan(reducer, seed)`: `acc.store(reducer(acc, data)); sink(Data(acc))` -/
def scan {α β} (r : β → α → β) (seed : β) : Kind β α β := ⟨false, seed, fun acc a => (r acc a, some (r acc a))⟩
/-- `skip(max)`: `if skipped < max { skipped += 1; talkback(Pull) } else { sink(Data(data)) }` -/
def skip {α} (n : Nat) : Kind Nat α α := ⟨true, 0, fun k a => if k < n then (k + 1, none) else (k, some a)⟩

structure St (σ : Type) where
  slot : Bool        -- `talkback` slot holds the upstream talkback (slotted kinds only)
  priv : σ           -- `acc` / `skipped`
deriving Repr, BEq, Hashable

inductive Loc (α β : Type) where
  | sub0               -- `if let Message::Handshake(sink) = message { call!(source, Handshake(..)) }`
  | done               -- handler body finished
  | g0                 -- from source: `Handshake(source) => talkback.store(Some(source))` (slotted kinds)
  | g1                 -- `call!(sink, Handshake(sink_talkback))`
  | d0 (a : α)         -- from source: `Data(data) =>` evaluate condition / reducer / counter
  | emit (b : β)       -- `call!(sink, Data(..))`
  | repull             -- `talkback.load().expect("source talkback not set"); call!(talkback, Pull)`
  | fwd (d : Down β)   -- from source: `Error(e) | Terminate => call!(sink, ..)`
  | u0 (u : Up)        -- from sink: `Pull | Error(e) | Terminate => call!(source, ..)`
deriving Repr, BEq, Hashable

def step {σ α β} (k : Kind σ α β) (st : St σ) : Loc α β → Act (St σ) (Loc α β) β
  | .sub0 => .call (.subSrc 0) st .done
  | .done => .ret
  | .g0 => if k.slotted then .tau { st with slot := true } .g1 else .tau st .g1
  | .g1 => .call (.greet 0) st .done
  | .d0 a => match (k.xfer st.priv a).2 with
    | some b => .tau { st with priv := (k.xfer st.priv a).1 } (.emit b)
    | none => .tau { st with priv := (k.xfer st.priv a).1 } .repull
  | .emit b => .call (.down 0 (.data b)) st .done
  | .repull => if st.slot then .call (.srcUp 0 .pull) st .done else .panic "source talkback not set"
  | .fwd d => .call (.down 0 d) st .done
  | .u0 u => if k.slotted && !st.slot then .panic "source talkback not set" else .call (.srcUp 0 u) st .done

def enter {α β} : In α → Loc α β
  | .subscribe _ => .sub0
  | .sinkUp _ u => .u0 u
  | .srcGreet _ => .g0
  | .srcDown _ (.data a) => .d0 a
  | .srcDown _ .term => .fwd .term
  | .srcDown _ (.err e) => .fwd (.err e)

def machine {σ α β} (k : Kind σ α β) : Machine (St σ) (Loc α β) α β :=
  { shape := {}, init := { slot := false, priv := k.seed }, enter := enter, step := step k }

end Cb.Relay
