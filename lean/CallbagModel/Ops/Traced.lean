import CallbagModel.Sem
/-!
# The `tracing` build as a machine transformer (C20)

With the `tracing` feature, `call!(cb, msg, "…")` expands to `{ let message = msg; tracing::trace!("…", message); cb(message) }`:
the message expression is bound ONCE, logged, then sent; `instrument!` and `trace!` insert span bookkeeping and log lines.  None
of these touch the operator's shared state or cross the operator boundary.  `traced M` is `M` with one extra micro-step in front of
every call (the logging of the bound message) and in front of every handler (the `instrument!` / `trace!` preamble); the extra
steps are `tau`s that leave the state unchanged.
-/
namespace Cb
variable {St Loc α β : Type}

/-- program points of the traced machine: `pre l` = about to run the tracing preamble for `l`; `at l` = at `l` proper; `logged l` =
the message of the call at `l` has been bound and logged, the call itself is next -/
inductive TLoc (Loc : Type) where
  | pre (l : Loc) | at (l : Loc) | logged (l : Loc)

def traced (M : Machine St Loc α β) : Machine St (TLoc Loc) α β where
  shape := M.shape
  init := M.init
  enter i := .pre (M.enter i)                        -- `instrument!(…); trace!("from …: {message:?}")`
  step st
    | .pre l => .tau st (.at l)
    | .at l => match M.step st l with
      | .call _ _ _ => .tau st (.logged l)           -- `let message = $message; ::tracing::trace!($str, message = message)`
      | .tau st' l' => .tau st' (.at l')
      | .ret => .ret
      | .panic m => .panic m
    | .logged l => match M.step st l with
      | .call o st' l' => .call o st' (.at l')       -- `$callbag(message)`
      | .tau st' l' => .tau st' (.at l')
      | .ret => .ret
      | .panic m => .panic m

/-- forget the tracing bookkeeping of a frame -/
def eraseFrame : Frame (TLoc Loc) β → Frame Loc β
  | .run (.pre l) => .run l
  | .run (.at l) => .run l
  | .run (.logged l) => .run l
  | .wait o (.pre l) => .wait o l
  | .wait o (.at l) => .wait o l
  | .wait o (.logged l) => .wait o l

/-- forget the tracing bookkeeping of a configuration: same operator state, same ghost, same TRACE, same panic flag -/
def eraseSys (s : Sys St (TLoc Loc) α β) : Sys St Loc α β :=
  { st := s.st, stack := s.stack.map eraseFrame, g := s.g, tr := s.tr, panicked := s.panicked }

end Cb
