import CallbagModel.Core
/-! # concat!(s_0, …, s_{n-1})  (src/concat.rs) -/
namespace Cb.Concat

structure St where
  i : Nat := 0                 -- `i: AtomicUsize`
  slot : Option Nat := none    -- `source_talkback` holds the talkback of member `j`
  gotPull : Bool := false      -- `got_pull` (sticky)
deriving Repr, BEq, Hashable

inductive Loc (α : Type) where
  | done
  | next               -- `next()`: `if i.load() == n { sink(Terminate); return }  call!(sources[i.load()], Handshake(..))`
  | g0 (j : Nat)       -- member j: `Handshake(source) => source_talkback.store(Some(source))`
  | g1                 -- `if i.load() == 0 { call!(sink, Handshake(talkback)) }`
  | g2                 -- `else if got_pull.load()`
  | g3                 -- `source_talkback.load().expect(..); call!(source_talkback, Pull)`
  | fwd (d : Down α)   -- `Data(d) => sink(Data(d))`, `Error(e) => sink(Error(e))`
  | t0                 -- `Terminate => i.fetch_add(1); next()`
  | p0                 -- from sink: `Pull => got_pull.store(true)`
  | u1 (u : Up)        -- `source_talkback.load().expect(..); call!(source_talkback, ..)`
deriving Repr, BEq, Hashable

def step {α} (n : Nat) (st : St) : Loc α → Act St (Loc α) α
  | .done => .ret
  | .next => if st.i == n then .call (.down 0 .term) st .done else .call (.subSrc st.i) st .done
  | .g0 j => .tau { st with slot := some j } .g1
  | .g1 => if st.i == 0 then .call (.greet 0) st .done else .tau st .g2
  | .g2 => if st.gotPull then .tau st .g3 else .ret
  | .g3 => match st.slot with
    | some s => .call (.srcUp s .pull) st .done
    | none => .panic "source talkback not set"
  | .fwd d => .call (.down 0 d) st .done
  | .t0 => .tau { st with i := st.i + 1 } .next
  | .p0 => .tau { st with gotPull := true } (.u1 .pull)
  | .u1 u => match st.slot with
    | some s => .call (.srcUp s u) st .done
    | none => .panic "source talkback not set"

def enter {α} : In α → Loc α
  | .subscribe _ => .next
  | .sinkUp _ .pull => .p0
  | .sinkUp _ .term => .u1 .term
  | .sinkUp _ (.err e) => .u1 (.err e)
  | .srcGreet j => .g0 j
  | .srcDown _ .term => .t0
  | .srcDown _ (.data a) => .fwd (.data a)
  | .srcDown _ (.err e) => .fwd (.err e)

def machine (α : Type) (n : Nat) : Machine St (Loc α) α α :=
  { shape := { nSrc := n }, init := {}, enter := enter, step := step n }

end Cb.Concat
