import CallbagModel.Core
/-!
# flatten  (src/flatten.rs)

Upstream 0 is the outer source; every `Data` it sends carries a fresh inner source, which the model numbers
1, 2, … in order of arrival (`nextId`); the payload of the outer datum is irrelevant.
-/
namespace Cb.Flatten

structure St where
  outer : Bool := false          -- `outer_talkback` is `Some`
  inner : Option Nat := none     -- `inner_talkback` holds the talkback of inner `j`
  nextId : Nat := 1              -- number the next inner source will get
deriving Repr, BEq, Hashable

inductive Loc (α : Type) where
  | done
  | sub0               -- `call!(source, Handshake(..))`
  | og0                -- outer: `Handshake(source) => outer_talkback.store(Some(source))`
  | og1                -- `call!(sink, Handshake(talkback))`
  | od0                -- outer: `Data(inner_source) => if let Some(tb) = inner_talkback.load() { tb(Terminate) }`
  | od1                -- `call!(inner_source, Handshake(..))`
  | oe0 (e : Nat)      -- outer: `Error(error) => if let Some(tb) = inner_talkback.load() { tb(Terminate) }`
  | oe1 (e : Nat)      -- `call!(sink, Error(error))`
  | ot0                -- outer: `Terminate => if inner_talkback.load().is_none() { sink(Terminate) } else { outer_talkback.store(None) }`
  | ig0 (j : Nat)      -- inner j: `Handshake(source) => inner_talkback.store(Some(source))`
  | ig1                -- `inner_talkback.load().expect(..); call!(inner_talkback, Pull)`
  | fwd (a : α)        -- inner: `Data(data) => call!(sink, Data(data))`
  | ie0 (e : Nat)      -- inner: `Error(error) => if let Some(tb) = outer_talkback.load() { tb(Terminate) }`
  | ie1 (e : Nat)      -- `call!(sink, Error(error))`
  | it0                -- inner: `Terminate => if outer_talkback.load().is_none() { sink(Terminate) }`
  | it1                -- `else { inner_talkback.store(None)`
  | it2                -- `outer_talkback.load().expect(..); call!(outer_talkback, Pull) }`
  | p0                 -- from sink: `Pull => if let Some(tb) = inner_talkback.load() { tb(Pull) }`
  | p1                 -- `else if let Some(tb) = outer_talkback.load() { tb(Pull) }`
  | x0                 -- from sink: `Error | Terminate => if let Some(tb) = inner_talkback.load() { tb(Terminate) }`
  | x1                 -- `if let Some(tb) = outer_talkback.load() { tb(Terminate) }`
deriving Repr, BEq, Hashable

def step {α} (st : St) : Loc α → Act St (Loc α) α
  | .done => .ret
  | .sub0 => .call (.subSrc 0) st .done
  | .og0 => .tau { st with outer := true } .og1
  | .og1 => .call (.greet 0) st .done
  | .od0 => match st.inner with
    | some k => .call (.srcUp k .term) st .od1
    | none => .tau st .od1
  | .od1 => .call (.subSrc st.nextId) { st with nextId := st.nextId + 1 } .done
  | .oe0 e => match st.inner with
    | some k => .call (.srcUp k .term) st (.oe1 e)
    | none => .tau st (.oe1 e)
  | .oe1 e => .call (.down 0 (.err e)) st .done
  | .ot0 => if st.inner.isNone then .call (.down 0 .term) st .done else .tau { st with outer := false } .done
  | .ig0 j => .tau { st with inner := some j } .ig1
  | .ig1 => match st.inner with
    | some k => .call (.srcUp k .pull) st .done
    | none => .panic "inner source talkback not set"
  | .fwd a => .call (.down 0 (.data a)) st .done
  | .ie0 e => if st.outer then .call (.srcUp 0 .term) st (.ie1 e) else .tau st (.ie1 e)
  | .ie1 e => .call (.down 0 (.err e)) st .done
  | .it0 => if !st.outer then .call (.down 0 .term) st .done else .tau st .it1
  | .it1 => .tau { st with inner := none } .it2
  | .it2 => if st.outer then .call (.srcUp 0 .pull) st .done else .panic "outer source talkback not set"
  | .p0 => match st.inner with
    | some k => .call (.srcUp k .pull) st .done
    | none => .tau st .p1
  | .p1 => if st.outer then .call (.srcUp 0 .pull) st .done else .ret
  | .x0 => match st.inner with
    | some k => .call (.srcUp k .term) st .x1
    | none => .tau st .x1
  | .x1 => if st.outer then .call (.srcUp 0 .term) st .done else .ret

def enter {α} : In α → Loc α
  | .subscribe _ => .sub0
  | .sinkUp _ .pull => .p0
  | .sinkUp _ _ => .x0
  | .srcGreet 0 => .og0
  | .srcGreet (j+1) => .ig0 (j+1)
  | .srcDown 0 (.data _) => .od0
  | .srcDown 0 (.err e) => .oe0 e
  | .srcDown 0 .term => .ot0
  | .srcDown (_+1) (.data a) => .fwd a
  | .srcDown (_+1) (.err e) => .ie0 e
  | .srcDown (_+1) .term => .it0

def machine (α : Type) : Machine St (Loc α) α α :=
  { shape := { nSrc := 1, relayErr := false }, init := {}, enter := enter, step := step }

end Cb.Flatten
