import CallbagModel.Core
/-!
# from_iter  (src/from_iter.rs)

The iterator is an arbitrary state machine `next : ι → Option (α × ι)`; `it` is its current state (cloned per
subscription, hence part of the per-subscription state) and `nexts` a ghost counter of `Iterator::next` calls.
-/
namespace Cb.FromIter

structure St (ι α : Type) where
  it : ι                       -- `iter`
  res : Option α := none       -- `res`
  nexts : Nat := 0             -- ghost: calls of `iter.next()`
  inLoop : Bool := false       -- `in_loop`
  gotPull : Bool := false      -- `got_pull`
  completed : Bool := false    -- `completed`
  resDone : Bool := false      -- `res_done`

inductive Loc where
  | done
  | sub0          -- `call!(sink, Handshake(talkback))`
  | t0 (u : Up)   -- from sink: `if completed.load() { return }`
  | t1 (u : Up)   -- `match message`: `Pull => got_pull.store(true)` / `Error | Terminate => completed.store(true)`
  | pl1           -- `if !in_loop.load()`
  | pl2           -- `&& !res_done.load() { loop() }`
  | l0            -- `in_loop.store(true)`
  | w0            -- `while got_pull.load()`
  | w1            -- `&& !completed.load()`
  | w2            -- `got_pull.store(false)`
  | w3            -- `*res = iter.next(); res_done.store(res.is_none())`
  | w4            -- `if res_done.load() { sink(Terminate); break } else { sink(Data(res.take().unwrap())) }`
  | lend          -- `in_loop.store(false)`
deriving Repr, BEq, Hashable

def step {ι α} (next : ι → Option (α × ι)) (st : St ι α) : Loc → Act (St ι α) Loc α
  | .done => .ret
  | .sub0 => .call (.greet 0) st .done
  | .t0 u => if st.completed then .ret else .tau st (.t1 u)
  | .t1 .pull => .tau { st with gotPull := true } .pl1
  | .t1 _ => .tau { st with completed := true } .done
  | .pl1 => if !st.inLoop then .tau st .pl2 else .ret
  | .pl2 => if !st.resDone then .tau st .l0 else .ret
  | .l0 => .tau { st with inLoop := true } .w0
  | .w0 => if st.gotPull then .tau st .w1 else .tau st .lend
  | .w1 => if !st.completed then .tau st .w2 else .tau st .lend
  | .w2 => .tau { st with gotPull := false } .w3
  | .w3 => match next st.it with
    | some (a, it') => .tau { st with it := it', res := some a, resDone := false, nexts := st.nexts + 1 } .w4
    | none => .tau { st with res := none, resDone := true, nexts := st.nexts + 1 } .w4
  | .w4 => if st.resDone then .call (.down 0 .term) st .lend else
      match st.res with
      | some a => .call (.down 0 (.data a)) { st with res := none } .w0
      | none => .panic "called `Option::unwrap()` on a `None` value"
  | .lend => .tau { st with inLoop := false } .done

def enter {α'} : In α' → Loc
  | .subscribe _ => .sub0
  | .sinkUp _ u => .t0 u
  | _ => .done

def machine {ι α} (α' : Type) (next : ι → Option (α × ι)) (it0 : ι) : Machine (St ι α) Loc α' α :=
  { shape := { nSrc := 0 }, init := { it := it0 }, enter := enter, step := step next }

end Cb.FromIter
