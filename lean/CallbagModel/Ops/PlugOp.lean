import CallbagModel.Ops.Compose
/-!
# A unary operator in one upstream slot of an n-ary operator: `combine!(take(1)(a), b)`, `merge!(a, filter(p)(b))`, …

`plugOp j M₁ M₂`: the upstream `j` of `M₂` is the OPERATOR `M₁` applied to the external upstream `j` (`M₁`'s own upstream 0 is the
composite's upstream `j`); the other upstreams of `M₂` stay external with their indices unchanged.  Calls between the components
(`M₂.subSrc j`, `M₂.srcUp j u`, `M₁.greet 0`, `M₁.down 0 d`) are internal steps as in `compose` / `plug`; `M₁`'s calls to its upstream
and all other calls of `M₂` go to the environment.  Used for instances `at:<j>/<stage>/<n-ary>` of the correspondence (an operator as a
MEMBER of `merge!` / `concat!` / `combine!`), where the n-ary operator's treatment of a member that has ended meets the member
operator's own end-of-life handling.
-/
namespace Cb

def plugOp {S1 L1 S2 L2 β γ : Type} (j : Nat) (M1 : Machine S1 L1 β β) (M2 : Machine S2 L2 β γ) :
    Machine (S1 × S2) (List (CFr L1 L2)) β γ where
  shape := M2.shape
  init := (M1.init, M2.init)
  enter
    | .subscribe k => [.hi (M2.enter (.subscribe k))]
    | .sinkUp k u => [.hi (M2.enter (.sinkUp k u))]
    | .srcGreet i => if i == j then [.lo (M1.enter (.srcGreet 0))] else [.hi (M2.enter (.srcGreet i))]
    | .srcDown i d => if i == j then [.lo (M1.enter (.srcDown 0 d))] else [.hi (M2.enter (.srcDown i d))]
  step st
    | [] => .ret
    | .lo l :: rest =>
      match M1.step st.1 l with
      | .tau s1 l' => .tau (s1, st.2) (.lo l' :: rest)
      | .ret => if rest.isEmpty then .ret else .tau st rest
      | .panic m => .panic m
      | .call o s1 l' =>
        match o with
        | .greet 0 => .tau (s1, st.2) (.hi (M2.enter (.srcGreet j)) :: .lo l' :: rest)
        | .down 0 d => .tau (s1, st.2) (.hi (M2.enter (.srcDown j d)) :: .lo l' :: rest)
        | .subSrc 0 => .call (.subSrc j) (s1, st.2) (.lo l' :: rest)            -- M₁'s upstream is the composite's upstream j
        | .srcUp 0 u => .call (.srcUp j u) (s1, st.2) (.lo l' :: rest)
        | _ => .panic "plugOp: the member operator has a single sink and a single upstream"
    | .hi l :: rest =>
      match M2.step st.2 l with
      | .tau s2 l' => .tau (st.1, s2) (.hi l' :: rest)
      | .ret => if rest.isEmpty then .ret else .tau st rest
      | .panic m => .panic m
      | .call o s2 l' =>
        match o with
        | .subSrc i => if i == j then .tau (st.1, s2) (.lo (M1.enter (.subscribe 0)) :: .hi l' :: rest)
                       else .call (.subSrc i) (st.1, s2) (.hi l' :: rest)
        | .srcUp i u => if i == j then .tau (st.1, s2) (.lo (M1.enter (.sinkUp 0 u)) :: .hi l' :: rest)
                        else .call (.srcUp i u) (st.1, s2) (.hi l' :: rest)
        | .greet k => .call (.greet k) (st.1, s2) (.hi l' :: rest)
        | .down k d => .call (.down k d) (st.1, s2) (.hi l' :: rest)
        | .app b => .call (.app b) (st.1, s2) (.hi l' :: rest)

end Cb
