import CallbagModel.Core
/-!
# share  (src/share.rs)

The only operator with factory-level state: `sinks` and `source_talkback` live outside the `Handshake` branch.
Upstream subscriptions are numbered 0, 1, … in order (`gen`); `first[i]` is the sink whose attachment started
upstream subscription `i` (the closure handed to the source captures it and greets it).
-/
namespace Cb.Share

structure St where
  sinks : List Nat := []         -- `sinks` (copy-on-write list), in attachment order
  slot : Option Nat := none      -- `source_talkback` holds the talkback of upstream subscription `i`
  gen : Nat := 0                 -- upstream subscriptions made so far
  first : List Nat := []         -- first sink of each upstream subscription
deriving Repr, BEq, Hashable

inductive Loc (α : Type) where
  | done
  | s0 (k : Nat)                         -- `Handshake(sink) => sinks.rcu(push sink)`
  | s1 (k : Nat)                         -- `if sinks.load().len() == 1`
  | s2 (k : Nat)                         -- `call!(source, Handshake(..)); return`
  | g0 (i : Nat)                         -- upstream i: `Handshake(source) => source_talkback.store(Some(source))`
  | g1 (i : Nat)                         -- `call!(sink, Handshake(talkback))`  (the first sink)
  | f0 (d : Down α)                      -- upstream: other message: `for s in &**sinks.load()` (snapshot)
  | fLoop (rest : List Nat) (d : Down α) -- `call!(s, message.clone())`
  | fEnd (d : Down α)                    -- `if let Error | Terminate = message { sinks.store(vec![]) }`
  | p0                                   -- from sink: `Pull => source_talkback.load().expect(..); call!(tb, Pull)`
  | x0 (k : Nat)                         -- from sink k: `Error | Terminate => position + sinks.rcu(splice)`
  | x1                                   -- `if sinks.load().is_empty()`
  | x2                                   -- `source_talkback.load().expect(..); call!(tb, Terminate)`
deriving Repr, BEq, Hashable

def isEndD {α} : Down α → Bool | .data _ => false | _ => true

def step {α} (st : St) : Loc α → Act St (Loc α) α
  | .done => .ret
  | .s0 k => .tau { st with sinks := st.sinks ++ [k] } (.s1 k)
  | .s1 k => if st.sinks.length == 1 then .tau { st with gen := st.gen + 1, first := st.first ++ [k] } (.s2 k)
             else .call (.greet k) st .done
  | .s2 _ => .call (.subSrc (st.gen - 1)) st .done
  | .g0 i => .tau { st with slot := some i } (.g1 i)
  | .g1 i => .call (.greet (phAt st.first i)) st .done
  | .f0 d => .tau st (.fLoop st.sinks d)
  | .fLoop rest d => match rest with
    | [] => .tau st (.fEnd d)
    | s :: r => .call (.down s d) st (.fLoop r d)
  | .fEnd d => if isEndD d then .tau { st with sinks := [] } .done else .ret
  | .p0 => match st.slot with
    | some i => .call (.srcUp i .pull) st .done
    | none => .panic "source talkback not set"
  | .x0 k => .tau { st with sinks := st.sinks.erase k } .x1
  | .x1 => if st.sinks.isEmpty then .tau st .x2 else .ret
  | .x2 => match st.slot with
    | some i => .call (.srcUp i .term) st .done
    | none => .panic "source talkback not set"

def enter {α} : In α → Loc α
  | .subscribe k => .s0 k
  | .sinkUp _ .pull => .p0
  | .sinkUp k _ => .x0 k
  | .srcGreet i => .g0 i
  | .srcDown _ d => .f0 d

def machine (α : Type) : Machine St (Loc α) α α :=
  { shape := { nSrc := 0, multiSink := true, relayErr := false }, init := {}, enter := enter, step := step }

end Cb.Share
