import CallbagModel.Core
/-! # combine!(s_0, …, s_{n-1})  (src/combine.rs; one macro body for arities 1–12). Tuples are lists. -/
namespace Cb.Combine

structure St (α : Type) where
  nStart : Nat               -- `n_start`
  nData : Nat                -- `n_data`
  nEnd : Nat                 -- `n_end`
  vals : List (Option α)     -- `vals`
  slots : List Bool          -- `source_talkbacks.$idx` is `Some`
deriving Repr, BEq, Hashable

inductive Loc (α : Type) where
  | done
  | subLoop (i : Nat)              -- `$( call!(source_$idx, Handshake(..)) )+`
  | g0 (i : Nat)                   -- member i: `Handshake(source) => source_talkbacks.$idx.store(Some(source))`
  | g1                             -- `let n_start = n_start.fetch_sub(1) - 1; if n_start == 0`
  | g2                             -- `call!(sink, Handshake(talkback))`
  | d0 (i : Nat) (a : α)           -- `Data(data) => if vals.load().$idx.is_none()`
  | d1 (i : Nat) (a : α)           -- `n_data.fetch_sub(1) - 1`
  | d1b (i : Nat) (a : α)          -- `else n_data.load()`
  | d2 (i : Nat) (a : α) (nd : Nat)-- `vals.rcu(|vals| { vals.$idx = Some(data) })`
  | d3 (nd : Nat)                  -- `if n_data == 0`
  | d4                             -- `vals.load().clone().unwrap()`  (the tuple is read in a step of its own, before the call)
  | d5 (t : List α)                -- `call!(sink, Data(tuple))`
  | e0                             -- `Error(_) | Terminate => let n_end = n_end.fetch_sub(1) - 1; if n_end == 0`
  | e1                             -- `call!(sink, Terminate)`
  | uLoop (j : Nat) (u : Up)       -- from sink: `$( source_talkbacks.$idx.load().expect(..); call!(tb, message) )+`
deriving Repr, BEq, Hashable

def unwrapAll {α} : List (Option α) → Option (List α)
  | [] => some []
  | none :: _ => none
  | some a :: r => match unwrapAll r with
    | some l => some (a :: l)
    | none => none

def step {α} (n : Nat) (st : St α) : Loc α → Act (St α) (Loc α) (List α)
  | .done => .ret
  | .subLoop i => if i < n then .call (.subSrc i) st (.subLoop (i + 1)) else .ret
  | .g0 i => .tau { st with slots := setAt st.slots i true } .g1
  | .g1 => .tau { st with nStart := st.nStart - 1 } (if st.nStart - 1 == 0 then .g2 else .done)
  | .g2 => .call (.greet 0) st .done
  | .d0 i a => if (phAt st.vals i).isNone then .tau st (.d1 i a) else .tau st (.d1b i a)
  | .d1 i a => .tau { st with nData := st.nData - 1 } (.d2 i a (st.nData - 1))
  | .d1b i a => .tau st (.d2 i a st.nData)
  | .d2 i a nd => .tau { st with vals := setAt st.vals i (some a) } (.d3 nd)
  | .d3 nd => if nd == 0 then .tau st .d4 else .ret
  | .d4 => match unwrapAll st.vals with
    | some t => .tau st (.d5 t)
    | none => .panic "called `Option::unwrap()` on a `None` value"
  | .d5 t => .call (.down 0 (.data t)) st .done
  | .e0 => .tau { st with nEnd := st.nEnd - 1 } (if st.nEnd - 1 == 0 then .e1 else .done)
  | .e1 => .call (.down 0 .term) st .done
  | .uLoop j u =>
      if j < n then
        if phAt st.slots j then .call (.srcUp j u) st (.uLoop (j + 1) u)
        else .panic "source talkback not set"
      else .ret

def enter {α} : In α → Loc α
  | .subscribe _ => .subLoop 0
  | .sinkUp _ u => .uLoop 0 u
  | .srcGreet i => .g0 i
  | .srcDown i (.data a) => .d0 i a
  | .srcDown _ .term => .e0
  | .srcDown _ (.err _) => .e0


def machine (α : Type) (n : Nat) : Machine (St α) (Loc α) α (List α) :=
  { shape := { nSrc := n },
    init := { nStart := n, nData := n, nEnd := n, vals := List.replicate n none, slots := List.replicate n false },
    enter := enter, step := step n }

end Cb.Combine
