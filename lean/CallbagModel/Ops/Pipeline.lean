/-!
# Pull pipelines (C06): syntax, the list function they denote, and a demand-driven semantics with a count of iterator advances

`Pipe` is the applied form of `pipe!(from_iter(xs), stage₁, …, stageₙ)` (the macro is plain left-to-right application, so a
pipeline IS the nested application); `concat` takes further pipelines, `flatMap g` is `map(g)` followed by `flatten`.
Sources are finite lists here; "take over an unbounded iterator stops" is the statement that the count of iterator advances
of `take n (src xs)` does not depend on how long `xs` is beyond `n` (`Thm/C06.lean`).
-/
namespace Cb

inductive Pipe where
  | src (xs : List Int)                                   -- `from_iter(xs)`
  | map (f : Int → Int) (p : Pipe)                        -- `map(f)(p)`
  | filter (q : Int → Bool) (p : Pipe)                    -- `filter(q)(p)`
  | scan (r : Int → Int → Int) (seed : Int) (p : Pipe)    -- `scan(r, seed)(p)`
  | take (n : Nat) (p : Pipe)                             -- `take(n)(p)`
  | skip (n : Nat) (p : Pipe)                             -- `skip(n)(p)`
  | concat (p : Pipe) (q : Pipe)                          -- `concat!(p, q)` (n-ary concat is right-nested)
  | flatMap (g : Int → Pipe) (p : Pipe)                   -- `flatten(map(g)(p))`

/-- running fold without the seed -/
def scanl' (r : Int → Int → Int) : Int → List Int → List Int
  | _, [] => []
  | s, a :: as => r s a :: scanl' r (r s a) as

/-- the list function a pipeline denotes -/
def listSem : Pipe → List Int
  | .src xs => xs
  | .map f p => (listSem p).map f
  | .filter q p => (listSem p).filter q
  | .scan r s p => scanl' r s (listSem p)
  | .take n p => (listSem p).take n
  | .skip n p => (listSem p).drop n
  | .concat p q => listSem p ++ listSem q
  | .flatMap g p => (listSem p).flatMap (fun a => listSem (g a))

/-- Demand: the consumer pulls until the end (`none`), or exactly `d` times and then disposes (`some d`). -/
abbrev Demand := Option Nat

/-- how many items of `ys` must be requested so that `d` of them pass `q` (all of them if fewer pass): the compensating pulls of
`filter` -/
def needFor (q : Int → Bool) : Nat → List Int → Option Nat
  | 0, _ => some 0
  | _ + 1, [] => none
  | d + 1, y :: ys => if q y then (needFor q d ys).map (· + 1) else (needFor q (d + 1) ys).map (· + 1)

/-- `flatten` over the inner pipelines started for the outer items `rest`: delivered items, iterator advances of the inners, number
of inners started, and whether the outer was run to its end (as opposed to the demand being met first) -/
def flatGo (semG : Int → Demand → List Int × Nat) : List Int → Demand → List Int → Nat → Nat → List Int × Nat × Nat × Bool
  | _, some 0, acc, cost, started => (acc, cost, started, false)     -- the demand is met: nothing more is started
  | [], _, acc, cost, started => (acc, cost, started, true)
  | a :: rest, dem, acc, cost, started =>
    match dem with
    | some 0 => (acc, cost, started, false)
    | _ =>
      let r := semG a dem
      let dem' := dem.map (· - r.1.length)
      if dem.isSome && dem' == some 0 && r.1.length > 0 then (acc ++ r.1, cost + r.2, started + 1, false)
      else flatGo semG rest dem' (acc ++ r.1) (cost + r.2) (started + 1)

/-- items delivered and number of `Iterator::next` calls, for a given demand.  A source answers each Pull with one `next`: an
item, or — once — the discovery that it is exhausted. -/
def sem : Pipe → Demand → List Int × Nat
  | .src xs, none => (xs, xs.length + 1)
  | .src xs, some d => if d ≤ xs.length then (xs.take d, d) else (xs, xs.length + 1)
  | .map f p, dem => let r := sem p dem; (r.1.map f, r.2)
  | .filter q p, none => let r := sem p none; (r.1.filter q, r.2)
  | .filter q p, some d =>
      match needFor q d (listSem p) with
      | some k => let r := sem p (some k); (r.1.filter q, r.2)
      | none => let r := sem p none; (r.1.filter q, r.2)
  | .scan r s p, dem => let x := sem p dem; (scanl' r s x.1, x.2)
  | .take n p, none => sem p (some n)
  | .take n p, some d => sem p (some (min n d))
  | .skip n p, none => let r := sem p none; (r.1.drop n, r.2)
  | .skip n p, some d => if d = 0 then ([], 0) else let r := sem p (some (d + n)); (r.1.drop n, r.2)
  | .concat p q, none => let a := sem p none; let b := sem q none; (a.1 ++ b.1, a.2 + b.2)
  | .concat p q, some d =>
      let a := sem p (some d)
      if a.1.length < d then let b := sem q (some (d - a.1.length)); (a.1 ++ b.1, a.2 + b.2) else a
  | .flatMap g p, dem =>
      -- the outer is advanced once per inner source that is started, plus once to discover its end if the demand is not met before
      let x := flatGo (fun a d => sem (g a) d) (listSem p) dem [] 0 0
      let outerCost := (sem p (if x.2.2.2 then none else some x.2.2.1)).2
      (x.1, x.2.1 + outerCost)

end Cb
