import CallbagModel.Ops.Compose
/-!
# Plugging a closed source into one upstream slot of an n-ary operator: `concat!(pipe₁, pipe₂)`, `merge!(pipe₁, src)`, …

`plug j M₁ M₂`: the upstream `j` of `M₂` IS the machine `M₁`, a source without upstreams of its own (`from_iter(…)`, or a pipeline
headed by one — possibly itself the result of `plug`/`compose`); the other upstreams of `M₂` stay external, with their indices
unchanged.  As in `compose`, a call of one component into the other (`M₂.subSrc j`, `M₂.srcUp j u`, `M₁.greet 0`, `M₁.down 0 d`) is an
internal step that pushes a frame of the callee on the composite's stack of component frames; every other call of `M₂` goes to the
environment; `M₁` has nobody else to call.  Plugging every slot in turn (`plug 0 A (plug 1 B (Concat.machine _ 2))`) gives the closed
source `concat!(A, B)`.
-/
namespace Cb

def plug {S1 L1 S2 L2 α β γ : Type} (j : Nat) (M1 : Machine S1 L1 α β) (M2 : Machine S2 L2 β γ) :
    Machine (S1 × S2) (List (CFr L1 L2)) β γ where
  shape := M2.shape
  init := (M1.init, M2.init)
  enter
    | .subscribe k => [.hi (M2.enter (.subscribe k))]
    | .sinkUp k u => [.hi (M2.enter (.sinkUp k u))]
    | .srcGreet i => [.hi (M2.enter (.srcGreet i))]         -- the external upstreams are M₂'s
    | .srcDown i d => [.hi (M2.enter (.srcDown i d))]
  step st
    | [] => .ret
    | .lo l :: rest =>
      match M1.step st.1 l with
      | .tau s1 l' => .tau (s1, st.2) (.lo l' :: rest)
      | .ret => if rest.isEmpty then .ret else .tau st rest
      | .panic m => .panic m
      | .call o s1 l' =>
        match o with
        | .greet 0 => .tau (s1, st.2) (.hi (M2.enter (.srcGreet j)) :: .lo l' :: rest)          -- M₁ greets its sink: M₂'s upstream j
        | .down 0 d => .tau (s1, st.2) (.hi (M2.enter (.srcDown j d)) :: .lo l' :: rest)         -- M₁ delivers to M₂ as upstream j
        | _ => .panic "plug: the plugged source has a single sink and no upstream"
    | .hi l :: rest =>
      match M2.step st.2 l with
      | .tau s2 l' => .tau (st.1, s2) (.hi l' :: rest)
      | .ret => if rest.isEmpty then .ret else .tau st rest
      | .panic m => .panic m
      | .call o s2 l' =>
        match o with
        | .subSrc i => if i == j then .tau (st.1, s2) (.lo (M1.enter (.subscribe 0)) :: .hi l' :: rest)      -- M₂ subscribes to upstream j: M₁
                       else .call (.subSrc i) (st.1, s2) (.hi l' :: rest)
        | .srcUp i u => if i == j then .tau (st.1, s2) (.lo (M1.enter (.sinkUp 0 u)) :: .hi l' :: rest)      -- M₂ uses the talkback M₁ gave it
                        else .call (.srcUp i u) (st.1, s2) (.hi l' :: rest)
        | .greet k => .call (.greet k) (st.1, s2) (.hi l' :: rest)
        | .down k d => .call (.down k d) (st.1, s2) (.hi l' :: rest)
        | .app b => .call (.app b) (st.1, s2) (.hi l' :: rest)

end Cb
