import CallbagModel.Core
/-! # take(max)  (src/take.rs) -/
namespace Cb.Take

structure St where
  taken : Nat := 0      -- `taken: AtomicUsize`
  tb : Bool := false    -- `source_talkback: ArcSwapOption` is `Some`
  fin : Bool := false   -- `end: AtomicBool`
deriving Repr, BEq, Hashable

inductive Loc (α : Type) where
  | sub0                       -- `call!(source, Handshake(..))`
  | done
  | greet0                     -- `Handshake(source) => source_talkback.store(Some(source))`
  | greet1                     -- `call!(sink, Handshake(talkback))`
  | d0 (a : α)                 -- `Data(data) => if let Ok(taken) = taken.fetch_update(|t| (t < max).then(|| t + 1))` (one atomic step)
  | d1 (a : α)                 -- only before fix 6a5bc56: `if taken.load() < max` was `d0`, `taken.fetch_add(1) + 1` was `d1`
  | d2 (a : α) (t : Nat)       -- `call!(sink, Data(data))`
  | d3 (t : Nat)               -- `if taken == max`
  | d3b                        -- `&& !end.load()`
  | d4                         -- `end.store(true)`
  | d5                         -- `source_talkback.load().expect(..); call!(source_talkback, Terminate)`
  | d6                         -- `call!(sink, Terminate)`
  | fwd (d : Down α)           -- `Error(e) | Terminate => call!(sink, ..)`
  | p0                         -- from sink: `Pull => if taken.load() < max`
  | p1                         -- `source_talkback.load().expect(..); call!(source_talkback, Pull)`
  | x0 (u : Up)                -- from sink: `Error | Terminate => end.store(true)`
  | x1 (u : Up)                -- `source_talkback.load().expect(..); call!(source_talkback, ..)`
deriving Repr, BEq, Hashable

/-- `fx = true` is the current tree (the slot is claimed by one atomic read-modify-write, commit 6a5bc56); `fx = false` the
code as found (`load`, then `fetch_add`). The two differ only in access granularity, hence only under thread interleaving
(`Par/Take.lean`). -/
def step {α} (max : Nat) (fx : Bool) (st : St) : Loc α → Act St (Loc α) α
  | .sub0 => .call (.subSrc 0) st .done
  | .done => .ret
  | .greet0 => .tau { st with tb := true } .greet1
  | .greet1 => .call (.greet 0) st .done
  | .d0 a => if st.taken < max then (if fx then .tau { st with taken := st.taken + 1 } (.d2 a (st.taken + 1)) else .tau st (.d1 a)) else .ret
  | .d1 a => .tau { st with taken := st.taken + 1 } (.d2 a (st.taken + 1))
  | .d2 a t => .call (.down 0 (.data a)) st (.d3 t)
  | .d3 t => if t = max then .tau st .d3b else .ret
  | .d3b => if st.fin then .ret else .tau st .d4
  | .d4 => .tau { st with fin := true } .d5
  | .d5 => if st.tb then .call (.srcUp 0 .term) st .d6 else .panic "source talkback not set"
  | .d6 => .call (.down 0 .term) st .done
  | .fwd d => .call (.down 0 d) st .done
  | .p0 => if st.taken < max then .tau st .p1 else .ret
  | .p1 => if st.tb then .call (.srcUp 0 .pull) st .done else .panic "source talkback not set"
  | .x0 u => .tau { st with fin := true } (.x1 u)
  | .x1 u => if st.tb then .call (.srcUp 0 u) st .done else .panic "source talkback not set"

def enter {α} : In α → Loc α
  | .subscribe _ => .sub0
  | .sinkUp _ .pull => .p0
  | .sinkUp _ .term => .x0 .term
  | .sinkUp _ (.err e) => .x0 (.err e)
  | .srcGreet _ => .greet0
  | .srcDown _ (.data a) => .d0 a
  | .srcDown _ .term => .fwd .term
  | .srcDown _ (.err e) => .fwd (.err e)

def machine (α : Type) (max : Nat) (fx : Bool := true) : Machine St (Loc α) α α :=
  { shape := {}, init := {}, enter := enter, step := step max fx }

end Cb.Take
