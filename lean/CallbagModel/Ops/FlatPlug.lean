import CallbagModel.Ops.Flatten
import CallbagModel.Ops.Compose
/-!
# `flatten(map(g)(outer))` as a network: inner sources created per outer datum

`flatPlug Mo Mi initOf`: the outer source of `flatten` is the closed source `Mo`; every datum `a` it delivers stands for the inner source
`g a`, an instance of the machine `Mi` started in state `initOf a` (all inner sources of one program have the same machine and differ
in their initial state only — e.g. `from_iter(a .. a+k)`, or `take(k)(from_iter(1 .. a % 4))`).  The `Flatten` machine of
`Ops/Flatten.lean` numbers the inner sources 1, 2, … as it subscribes to them and does not look at the outer datum; the network
remembers the datum at the interface (`pending`) and instantiates inner source `j` when flatten subscribes to upstream `j`.
All calls between the components are internal steps, as in `compose` / `plug`; only flatten's calls to its sink are external.
-/
namespace Cb

/-- a frame of one of the components of a `flatPlug` network -/
inductive FFr (Lo Lf Li : Type) where
  | outer (l : Lo) | flat (l : Lf) | inner (j : Nat) (l : Li)
deriving Repr, BEq, Hashable

structure FPSt (So Si : Type) where
  outer : So
  flat : Flatten.St
  pending : Option Int := none         -- the datum of the outer delivery in progress
  inners : List (Nat × Si) := []       -- states of the inner sources created so far, by number

def FPSt.innerSt {So Si} (st : FPSt So Si) (j : Nat) : Option Si := (st.inners.find? (·.1 == j)).map (·.2)
def FPSt.setInner {So Si} (st : FPSt So Si) (j : Nat) (s : Si) : FPSt So Si :=
  { st with inners := (j, s) :: st.inners.filter (·.1 != j) }

def flatPlug {So Lo Si Li αo αi : Type} (Mo : Machine So Lo αo Int) (Mi : Machine Si Li αi Int) (initOf : Int → Si) :
    Machine (FPSt So Si) (List (FFr Lo (Flatten.Loc Int) Li)) Int Int where
  shape := { nSrc := 0, relayErr := false }
  init := { outer := Mo.init, flat := (Flatten.machine Int).init }
  enter
    | .subscribe k => [.flat ((Flatten.machine Int).enter (.subscribe k))]
    | .sinkUp k u => [.flat ((Flatten.machine Int).enter (.sinkUp k u))]
    | .srcGreet i => [.flat ((Flatten.machine Int).enter (.srcGreet i))]       -- never legal: the network has no external upstream
    | .srcDown i d => [.flat ((Flatten.machine Int).enter (.srcDown i d))]
  step st
    | [] => .ret
    | .outer l :: rest =>
      match Mo.step st.outer l with
      | .tau s l' => .tau { st with outer := s } (.outer l' :: rest)
      | .ret => if rest.isEmpty then .ret else .tau st rest
      | .panic m => .panic m
      | .call o s l' =>
        match o with
        | .greet 0 => .tau { st with outer := s } (.flat ((Flatten.machine Int).enter (.srcGreet 0)) :: .outer l' :: rest)
        | .down 0 d =>
          let pend := match d with | .data a => some a | _ => st.pending
          .tau { st with outer := s, pending := pend } (.flat ((Flatten.machine Int).enter (.srcDown 0 d)) :: .outer l' :: rest)
        | _ => .panic "flatPlug: the outer source has a single sink and no upstream"
    | .inner j l :: rest =>
      match st.innerSt j with
      | none => .panic "flatPlug: unknown inner source"
      | some si =>
        match Mi.step si l with
        | .tau s l' => .tau (st.setInner j s) (.inner j l' :: rest)
        | .ret => if rest.isEmpty then .ret else .tau st rest
        | .panic m => .panic m
        | .call o s l' =>
          match o with
          | .greet 0 => .tau (st.setInner j s) (.flat ((Flatten.machine Int).enter (.srcGreet j)) :: .inner j l' :: rest)
          | .down 0 d => .tau (st.setInner j s) (.flat ((Flatten.machine Int).enter (.srcDown j d)) :: .inner j l' :: rest)
          | _ => .panic "flatPlug: an inner source has a single sink and no upstream"
    | .flat l :: rest =>
      match (Flatten.machine Int).step st.flat l with
      | .tau s l' => .tau { st with flat := s } (.flat l' :: rest)
      | .ret => if rest.isEmpty then .ret else .tau st rest
      | .panic m => .panic m
      | .call o s l' =>
        match o with
        | .subSrc 0 => .tau { st with flat := s } (.outer (Mo.enter (.subscribe 0)) :: .flat l' :: rest)
        | .subSrc (j+1) =>
          match st.pending with
          | some a => .tau ({ st with flat := s }.setInner (j+1) (initOf a)) (.inner (j+1) (Mi.enter (.subscribe 0)) :: .flat l' :: rest)
          | none => .panic "flatPlug: an inner source is subscribed without an outer datum"
        | .srcUp 0 u => .tau { st with flat := s } (.outer (Mo.enter (.sinkUp 0 u)) :: .flat l' :: rest)
        | .srcUp (j+1) u => .tau { st with flat := s } (.inner (j+1) (Mi.enter (.sinkUp 0 u)) :: .flat l' :: rest)
        | .greet k => .call (.greet k) { st with flat := s } (.flat l' :: rest)
        | .down k d => .call (.down k d) { st with flat := s } (.flat l' :: rest)
        | .app b => .call (.app b) { st with flat := s } (.flat l' :: rest)

end Cb
