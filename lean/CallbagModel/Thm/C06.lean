import CallbagModel.Inv.Pipeline
/-!
# C06 — iterable programming: pull pipelines compute the corresponding list function

Layer L1 of DESIGN §4: `Pipe` is the applied form of `pipe!(from_iter(xs), stages…)` (the macro is plain left-to-right application;
`./check C06` compares macro instances of length 2–6 and a nested one with the nested application on the real crate); `listSem` is the
list function (map, filter, running fold, take, drop, append, concat-map); `sem p dem` is the demand-driven semantics of the pull
protocol: the items a consumer receives and the number of `Iterator::next` calls made, when it pulls to the end (`none`) or `d`
times (`some d`).  The theorems hold for EVERY pipeline (any nesting depth), all closures, all parameters, all finite inputs.
`sem` is tied to the crate by `./check C06` (random programs run on the real operators with counting iterators: the arguments of
`for_each`'s closure, completion, and the number of iterator advances must equal `listSem` / `sem`).
NOT proved here (stated so it is not mistaken for more): that the NETWORK of the operator machines of `Ops/*.lean`, closed by
`from_iter` and `for_each`, refines `sem` (layer L2) — the tie between `sem` and the operators is the differential check only.
-/
namespace Cb.Thm

/-- f is called on exactly the elements of the corresponding list function, in order -/
theorem C06_computes_list_function (p : Pipe) : (sem p none).1 = listSem p := sem_none p

/-- laziness yields a prefix: a consumer that pulls `d` times receives the first `d` elements -/
theorem C06_prefix (p : Pipe) (d : Nat) : (sem p (some d)).1 = (listSem p).take d := sem_some p d

/-- the iterator is advanced only on demand -/
theorem C06_on_demand (p : Pipe) (d : Nat) : (sem p (some d)).2 ≤ (sem p none).2 := cost_mono p d
theorem C06_no_pull_no_advance (p : Pipe) : (sem p (some 0)).2 = 0 := cost_zero p

/-- … once per element delivered plus once to discover exhaustion -/
theorem C06_source_cost (xs : List Int) : (sem (.src xs) none).2 = xs.length + 1 := cost_src xs
theorem C06_source_cost_partial_demand (xs : List Int) (d : Nat) (h : d ≤ xs.length) : (sem (.src xs) (some d)).2 = d :=
  cost_src_some xs d h

/-- take over an arbitrarily long (in the limit: unbounded) iterator stops after exactly `n` advances, whatever follows -/
theorem C06_take_stops (n : Nat) (xs ys : List Int) (h : n ≤ xs.length) :
    sem (.take n (.src (xs ++ ys))) none = sem (.take n (.src xs)) none ∧ (sem (.take n (.src xs)) none).2 = n :=
  take_stops n xs ys h

/-- non-vacuity: a nested program with every kind of stage -/
example : (sem (.take 4 (.flatMap (fun a => .skip 1 (.src [a, a + 1, a + 2])) (.filter (· % 2 == 1) (.concat (.src [1, 2]) (.map (· * 3) (.src [1, 4])))))) none)
    = ([2, 3, 4, 5], 11) := by decide

end Cb.Thm
