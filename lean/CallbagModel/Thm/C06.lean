import CallbagModel.Inv.Pipeline
import CallbagModel.Closed.RelayPipe
import CallbagModel.Closed.TakePipe
import CallbagModel.Inv.ComposeClosed
import CallbagModel.Inv.ComposeComplete
import CallbagModel.Closed.Linear
import CallbagModel.Closed.Prog
import CallbagModel.Closed.Prog2
import CallbagModel.Closed.ProgTerm
import CallbagModel.Inv.ConcatN
import CallbagModel.Closed.Prog3
import CallbagModel.Closed.LinearInf
import CallbagModel.Closed.LinearCost
import CallbagModel.Closed.LinearInfCost
import CallbagModel.Closed.Prog3Cost
import CallbagModel.Closed.Prog3CostTake
import CallbagModel.Closed.Prog3CostFlat
import CallbagModel.Closed.Prog3Wide
/-!
# C06 — iterable programming: pull pipelines compute the corresponding list function

Layer L1 of DESIGN §4: `Pipe` is the applied form of `pipe!(from_iter(xs), stages…)` (the macro is plain left-to-right application;
`./check C06` compares macro instances of length 2–6 and a nested one with the nested application on the real crate); `listSem` is the
list function (map, filter, running fold, take, drop, append, concat-map); `sem p dem` is the demand-driven semantics of the pull
protocol: the items a consumer receives and the number of `Iterator::next` calls made, when it pulls to the end (`none`) or `d`
times (`some d`).  The theorems hold for EVERY pipeline (any nesting depth), all closures, all parameters, all finite inputs.
`sem` is tied to the crate by `./check C06` (random programs run on the real operators with counting iterators: the arguments of
`for_each`'s closure, completion, and the number of iterator advances must equal `listSem` / `sem`).
Layer L2 (the NETWORK of the operator machines of `Ops/*.lean`, closed by `from_iter` and `for_each`, built with `compose`) is proved
for the one-stage closed pipelines `pipe!(from_iter(it), op, for_each(f))`, `op` any relay (map / filter / scan / skip) or `take(n)`:
section "the network of operator machines" below.  For longer and nested programs the tie between `sem` and the operator machines is
the differential check only (`./check C06` also runs every LINEAR program of its random stream on the composed machines,
`Closed/Exec.lean`, and compares with `sem` and with the crate).
-/
namespace Cb.Thm
open Cb.ComposeComplete

/-- f is called on exactly the elements of the corresponding list function, in order -/
theorem C06_computes_list_function (p : Pipe) : (sem p none).1 = listSem p := sem_none p

/-- laziness yields a prefix: a consumer that pulls `d` times receives the first `d` elements -/
theorem C06_prefix (p : Pipe) (d : Nat) : (sem p (some d)).1 = (listSem p).take d := sem_some p d

/-- the iterator is advanced only on demand -/
theorem C06_on_demand (p : Pipe) (d : Nat) : (sem p (some d)).2 ≤ (sem p none).2 := cost_mono p d
theorem C06_no_pull_no_advance (p : Pipe) : (sem p (some 0)).2 = 0 := cost_zero p

/-- … once per element delivered plus once to discover exhaustion -/
theorem C06_source_cost (xs : List Int) : (sem (.src xs) none).2 = xs.length + 1 := cost_src xs
theorem C06_source_cost_partial_demand (xs : List Int) (d : Nat) (h : d ≤ xs.length) : (sem (.src xs) (some d)).2 = d :=
  cost_src_some xs d h

/-- take over an arbitrarily long (in the limit: unbounded) iterator stops after exactly `n` advances, whatever follows -/
theorem C06_take_stops (n : Nat) (xs ys : List Int) (h : n ≤ xs.length) :
    sem (.take n (.src (xs ++ ys))) none = sem (.take n (.src xs)) none ∧ (sem (.take n (.src xs)) none).2 = n :=
  take_stops n xs ys h

/-- non-vacuity: a nested program with every kind of stage -/
example : (sem (.take 4 (.flatMap (fun a => .skip 1 (.src [a, a + 1, a + 2])) (.filter (· % 2 == 1) (.concat (.src [1, 2]) (.map (· * 3) (.src [1, 4])))))) none)
    = ([2, 3, 4, 5], 11) := by decide

/-! ## the network of operator machines (layer L2, one-stage closed pipelines)

`Closed.relayPipe next it0 k` = `compose (compose (FromIter.machine …) (Relay.machine k)) (ForEach.machine …)`: the three operator
machines wired by `compose` (internal synchronous calls), closed: the only environment moves are the application
`for_each(f)(source)` and the returns of the closure calls (`Closed.env_moves`).  `Closed.apps tr` are the arguments of the closure
calls in order; `nexts` is from_iter's ghost counter of `Iterator::next` calls.  The iterator is an arbitrary state machine. -/

/-- `f` is only ever applied to a prefix of the list function, in order; no `expect`/`unwrap` fires -/
theorem C06_machines_relay_prefix {ι σ α β : Type} (next : ι → Option (α × ι)) (it0 : ι) (k : Relay.Kind σ α β) (xs : List α)
    (hk : k.slotted = false → ∀ s a, (k.xfer s a).2 ≠ none) (hx : Closed.Unfolds next it0 xs) :
    ∀ s, SReach (Closed.relayPipe next it0 k) s →
      s.panicked = none ∧ ∃ m, Closed.apps s.tr = (xferOut k.xfer k.seed xs).take m :=
  Closed.relayPipe_prefix next it0 k xs hk hx

/-- when the application has returned, `f` has been applied to exactly the list function and the iterator was advanced once per
element plus once to discover exhaustion -/
theorem C06_machines_relay_complete {ι σ α β : Type} (next : ι → Option (α × ι)) (it0 : ι) (k : Relay.Kind σ α β) (xs : List α)
    (hk : k.slotted = false → ∀ s a, (k.xfer s a).2 ≠ none) (hx : Closed.Unfolds next it0 xs) :
    ∀ s, SReach (Closed.relayPipe next it0 k) s → s.stack = [] → s.tr ≠ [] →
      Closed.apps s.tr = xferOut k.xfer k.seed xs ∧ s.st.1.1.nexts = xs.length + 1 :=
  Closed.relayPipe_complete next it0 k xs hk hx

/-- the pipeline never diverges between two closure calls (a filter may drop arbitrarily many items in a row) -/
theorem C06_machines_relay_progress {ι σ α β : Type} (next : ι → Option (α × ι)) (it0 : ι) (k : Relay.Kind σ α β) (xs : List α)
    (hk : k.slotted = false → ∀ s a, (k.xfer s a).2 ≠ none) (hx : Closed.Unfolds next it0 xs) :
    ∀ s, SReach (Closed.relayPipe next it0 k) s → ∃ n, EnvTurn (advance (Closed.relayPipe next it0 k) n s) :=
  Closed.relayPipe_progress next it0 k xs hk hx

/-- laziness, on the machines: `pipe!(from_iter(it), take(max), for_each(f))` with an iterator that yields at least `max` items —
possibly infinitely many — applies `f` to the first `max` and advances the iterator exactly `max` times (no read-ahead) -/
theorem C06_machines_take_lazy {ι α : Type} (next : ι → Option (α × ι)) (it0 : ι) (max : Nat) (xs : List α)
    (hy : Closed.TakeP.Yields next it0 xs) (hl : xs.length = max) :
    (∀ s, SReach (Closed.TakeP.takePipe next it0 max) s →
      s.panicked = none ∧ (∃ m, Closed.TakeP.apps s.tr = xs.take m) ∧ s.st.1.1.nexts ≤ max) ∧
    (∀ s, SReach (Closed.TakeP.takePipe next it0 max) s → s.stack = [] → s.tr ≠ [] →
      Closed.TakeP.apps s.tr = xs ∧ s.st.1.1.nexts = max) :=
  Closed.TakeP.takePipe_lazy next it0 max xs hy hl

/-- … and with a shorter iterator: all of it, `length + 1` advances -/
theorem C06_machines_take_short {ι α : Type} (next : ι → Option (α × ι)) (it0 : ι) (max : Nat) (xs : List α)
    (hx : Closed.TakeP.Unfolds next it0 xs) (hl : xs.length < max) :
    (∀ s, SReach (Closed.TakeP.takePipe next it0 max) s →
      s.panicked = none ∧ (∃ m, Closed.TakeP.apps s.tr = xs.take m) ∧ s.st.1.1.nexts ≤ xs.length + 1) ∧
    (∀ s, SReach (Closed.TakeP.takePipe next it0 max) s → s.stack = [] → s.tr ≠ [] →
      Closed.TakeP.apps s.tr = xs ∧ s.st.1.1.nexts = xs.length + 1) :=
  Closed.TakeP.takePipe_short next it0 max xs hx hl

/-- it terminates whatever the iterator (even infinite), never panics, and applies `f` at most `max` times -/
theorem C06_machines_take_progress {ι α : Type} (next : ι → Option (α × ι)) (it0 : ι) (max : Nat) :
    ∀ s, SReach (Closed.TakeP.takePipe next it0 max) s →
      s.panicked = none ∧ (Closed.TakeP.apps s.tr).length ≤ max ∧ ∃ n, EnvTurn (advance (Closed.TakeP.takePipe next it0 max) n s) :=
  Closed.TakeP.takePipe_progress next it0 max

/-! ## closed pull pipelines of ANY length (safety half of layer L2)

`pipe!(from_iter(it), stage₁, …, stageₙ, for_each(f))` as nested `compose`s of the operator machines.  At EVERY reachable configuration
no interface records a protocol violation, nothing panics, and `f` has been applied to a PREFIX of `F xs`, in order, where `xs` are the
iterator's items and `F` the composition of the stages' list functions (`MonoStage`: a pipeable stage with a prefix-monotone list
function; closed under `compose`).  For infinite iterators: `closed_pipeline_gen` (the closure has been applied to exactly `F` of some
finite unfolding).  The completeness half — everything has been applied when the application returns — follows below. -/

theorem C06_closed_pipeline_prefix {S1 L1 S2 L2 α β γ : Type} {Msrc : Machine S1 L1 α β} {Mmid : Machine S2 L2 β γ}
    {xs : List β} {F : List β → List γ} (hsrc : UpSide Msrc) (hspec : SrcSpec Msrc xs) (hmid : MonoStage Mmid F) :
    ∀ s, SReach (compose (compose Msrc Mmid) (ForEach.machine γ)) s → BasicSafe s ∧ applied s.tr <+: F xs :=
  closed_pipeline_prefix_all hsrc hspec hmid

/-- worked instance: `pipe!(from_iter(it), filter(p), map(f), take(n), for_each(g))` -/
theorem C06_closed_filter_map_take {ι α β : Type} (next : ι → Option (α × ι)) (it0 : ι) (xs : List α)
    (hx : Closed.Unfolds next it0 xs) (p : α → Bool) (f : α → β) (n : Nat) :
    ∀ s, SReach (compose (compose (FromIter.machine Unit next it0)
        (compose (compose (Relay.machine (Relay.filter p)) (Relay.machine (Relay.map f))) (Take.machine β n)))
        (ForEach.machine β)) s → BasicSafe s ∧ applied s.tr <+: ((xs.filter p).map f).take n :=
  fromIter_filter_map_take_forEach next it0 xs hx p f n

/-! ## closed pull pipelines of ANY length: completeness (layer L2 for linear programs)

`DemandStage M F` (`Inv/ComposeComplete.lean`): a monotone stage which, at its top level, keeps its upstream live while its sink is
live, has forwarded an unserved Pull of its sink (`aP → bP`: if the last event at the sink interface is a Pull, the last event at the
upstream interface is a Pull), and ends its sink only when its output is final.  Closed under `compose`; instances: every relay
(map, filter, scan, skip) and `take(max)` with `0 < max`.  With `from_iter` as the head (`HeadOk`: a Pull is served before control
returns; the terminal comes only after exhaustion) and `for_each` as the tail (it owes no Pull only when its upstream has ended), at
the pipeline's top level after the application the upstream of `for_each` has ended, hence everything has been applied.
NOT proved for arbitrary length: that the application returns (termination of the drain; proved for one stage above:
`C06_machines_relay_progress`, `C06_machines_take_progress`), and the number of iterator advances. -/

theorem C06_closed_pipeline_correct {ι α α' β S L : Type} (next : ι → Option (α × ι)) (it0 : ι) (xs : List α)
    (hx : Closed.Unfolds next it0 xs) {Mmid : Machine S L α β} {F : List α → List β} (hmid : DemandStage Mmid F) :
    ∀ s, SReach (compose (compose (FromIter.machine α' next it0) Mmid) (ForEach.machine β)) s →
      BasicSafe s ∧ applied s.tr <+: F xs ∧ (s.stack = [] → s.tr ≠ [] → applied s.tr = F xs) :=
  closed_pipeline_correct next it0 xs hx hmid

/-- the stages, and their closure under composition -/
theorem C06_demand_stages {α β : Type} (f : α → β) (p : α → Bool) (r : β → α → β) (seed : β) (n max : Nat) (hmax : 0 < max) :
    DemandStage (Relay.machine (Relay.map f)) (List.map f) ∧ DemandStage (Relay.machine (Relay.filter p)) (List.filter p) ∧
    DemandStage (Relay.machine (Relay.scan r seed)) (scanF r seed) ∧ DemandStage (Relay.machine (Relay.skip (α := α) n)) (List.drop n) ∧
    DemandStage (Take.machine α max) (List.take max) :=
  ⟨Relay.map_demandStage f, Relay.filter_demandStage p, Relay.scan_demandStage r seed, Relay.skip_demandStage n, Take.demandStage max hmax⟩

theorem C06_demand_stage_compose {S1 L1 S2 L2 α β γ : Type} {M1 : Machine S1 L1 α β} {M2 : Machine S2 L2 β γ}
    {F1 : List α → List β} {F2 : List β → List γ} (d1 : DemandStage M1 F1) (d2 : DemandStage M2 F2) :
    DemandStage (compose M1 M2) (F2 ∘ F1) := d1.compose d2

/-- worked instance: `pipe!(from_iter(it), filter(p), map(f), take(n), for_each(g))`, `n ≥ 1` -/
theorem C06_closed_filter_map_take_correct {ι α β : Type} (next : ι → Option (α × ι)) (it0 : ι) (xs : List α)
    (hx : Closed.Unfolds next it0 xs) (p : α → Bool) (f : α → β) (n : Nat) (hn : 0 < n) :
    ∀ s, SReach (compose (compose (FromIter.machine Unit next it0)
        (compose (compose (Relay.machine (Relay.filter p)) (Relay.machine (Relay.map f))) (Take.machine β n))) (ForEach.machine β)) s →
      BasicSafe s ∧ applied s.tr <+: ((xs.filter p).map f).take n ∧
        (s.stack = [] → s.tr ≠ [] → applied s.tr = ((xs.filter p).map f).take n) :=
  fromIter_filter_map_take_forEach_complete next it0 xs hx p f n hn

/-! ## every linear program, quantified over the program SYNTAX, for exactly the machines the differential check runs

`Closed.chainM xs ss` is the term `cbdrv pipe` builds from a program text (`Closed/LinearDef.lean` is shared by the driver and by this
theorem); `chainPipe xs ss : Pipe` is the same program as syntax of `Ops/Pipeline.lean`, so `listSem` here is the `listSem` of the L1
theorems above. -/

theorem C06_every_linear_program (xs : List Int) (ss : List Closed.Stg) (hpos : ∀ n, Closed.Stg.take n ∈ ss → 0 < n) :
    ∀ s, SReach (Closed.thenM (Closed.chainM xs ss) Closed.forEachM).M s →
      BasicSafe s ∧ applied s.tr <+: listSem (Closed.chainPipe xs ss) ∧
      (s.stack = [] → s.tr ≠ [] → applied s.tr = listSem (Closed.chainPipe xs ss)) :=
  Closed.linear_correct xs ss hpos

/-! ## every program of sources, unary stages and `concat!` — quantified over the syntax, for the machines the check runs

`Closed.Prog` (`Closed/ProgDef.lean`, shared with the driver): `src xs | stage s p | concat p q`; `Prog.toM`: stages composed, the two
members of a `concat!` PLUGGED into the slots of the binary concat machine (`Ops/Plug.lean`).  The proof (`Inv/PlugSafe.lean`,
`Inv/PlugConcat.lean`) is the assume–guarantee projection for `plug` with traces, four small-step invariants of `concat`, and a head
specification strengthened to every environment turn and to "no Error" (`HeadOkT`: plain `HeadOk` does not compose through `concat!` —
a member may still be inside its own terminal delivery when the next member starts, and a head that ends with an Error makes
`concat!` skip the rest).  n-ary `concat!` as ONE machine (n ≥ 3) and `flatten` are not covered by a theorem (comparison only). -/

theorem C06_every_program_with_concat (p : Closed.Prog) (hpos : p.takesPos) :
    ∀ s, SReach (Closed.thenM p.toM Closed.forEachM).M s →
      BasicSafe s ∧ applied s.tr <+: listSem p.toPipe ∧ (s.stack = [] → s.tr ≠ [] → applied s.tr = listSem p.toPipe) :=
  Closed.prog_correct p hpos

/-- … and it is fully safe (both monitor layers: C04, C05) -/
theorem C06_every_program_with_concat_safe (p : Closed.Prog) (hpos : p.takesPos) :
    ∀ s, SReach (Closed.thenM p.toM Closed.forEachM).M s → Safe s ∧ SafeFor 4 s ∧ SafeFor 5 s :=
  Closed.prog_safe p hpos

/-! ## … and `flatten(map(…))`

`Closed.Prog2 = src | stage | concat | flatRep k p` (`flatRep k p` = `flatten(map(|a| from_iter(a .. a+k))(p))`); `Prog2.toM` builds the
network `flatPlug` of `Ops/FlatPlug.lean`: the outer source, the `Flatten` machine, and one `from_iter` machine per outer datum, created
when flatten subscribes to it.  Side condition `Prog2.ok`: `take n` with `n ≥ 1`, and the argument of every `flatRep` is LINEAR — it then
delivers data only when pulled (`PullOnly`), so flatten never switches away from a live inner source.  Without that the statement is
FALSE against lazy sinks (execution in `Inv/FlatPlugSafe.lean`: `flatten` over `concat!(take(1)(…), …)`: concat's `got_pull` is sticky,
the unrequested datum makes flatten drop a live inner — observation O7 of DESIGN §9.4); closed with the eager `for_each` such programs are
covered by the differential comparison only, as are `flatRep` over `flatRep`, the `tri` family and n-ary `concat!` as one machine. -/

theorem C06_every_program (p : Closed.Prog2) (hok : p.ok) :
    ∀ s, SReach (Closed.thenM p.toM Closed.forEachM).M s →
      BasicSafe s ∧ applied s.tr <+: listSem p.toPipe ∧ (s.stack = [] → s.tr ≠ [] → applied s.tr = listSem p.toPipe) :=
  Closed.prog2_correct p hok

theorem C06_every_program_safe (p : Closed.Prog2) (hok : p.ok) :
    ∀ s, SReach (Closed.thenM p.toM Closed.forEachM).M s → Safe s ∧ SafeFor 4 s ∧ SafeFor 5 s :=
  Closed.prog2_safe p hok

/-! ## "… and then completes without stalling"

`Inv/ComposeTerm.lean`: syntactic POTENTIALS — a machine has a potential if every micro-step of every handler decreases a measure
(`Ψ` of the state + `ρ` of the running location / `ω` of a waiting one) by more than what the callee of each call may spend; potentials
compose through `compose`, `plug` and `flatPlug` (the callee's `ω` is charged at its entry location), `from_iter` pays for its loop with
the length of the remaining list, all other handlers are loop-free.  With no panic (from the correctness theorems) this gives, for
EVERY program: from every reachable configuration the network runs into an environment turn (no divergence between two closure
calls), and if the closures keep returning the application returns (`Drain`: operator steps and environment RETURNS only) — so the last
clause of `C06_every_program` is never vacuous. -/

theorem C06_every_program_completes (p : Closed.Prog2) (hok : p.ok) :
    (∀ s, SReach (Closed.thenM p.toM Closed.forEachM).M s → ∃ n, EnvTurn (advance (Closed.thenM p.toM Closed.forEachM).M n s)) ∧
    (∀ s, SReach (Closed.thenM p.toM Closed.forEachM).M s → ∃ t, SReach (Closed.thenM p.toM Closed.forEachM).M t ∧ t.stack = [] ∧
      (s.tr ≠ [] → t.tr ≠ []) ∧ ComposeTerm.Drain (Closed.thenM p.toM Closed.forEachM).M s t) ∧
    (∃ s, SReach (Closed.thenM p.toM Closed.forEachM).M s ∧ s.stack = [] ∧ s.tr ≠ [] ∧ applied s.tr = listSem p.toPipe) :=
  ⟨Closed.prog2_progress p hok, Closed.prog2_returns p hok, Closed.prog2_nonvacuous p hok⟩

/-! ## n-ary `concat!` as ONE machine

For n ≥ 3 the driver plugs every member into the n-ary concat machine (`Closed.concatM`: a fold of `plugM` over the members, slot 0
innermost).  `Inv/ConcatN.lean` proves the head specification for exactly that term, by induction on the number of plugged slots
(a PARTIALLY plugged concat machine projects onto the concat machine alone; each plugged member is summarised by what that machine's
trace says at its index), hence: -/

theorem C06_nary_concat (As : List Closed.AnyM) (hne : 0 < As.length) (ys : Nat → List Int)
    (h : ∀ i (hi : i < As.length), PlugConcat.HeadOkT As[i].M (ys i) ∧ ComposeFull.NoUpstream As[i].M) :
    ∀ s, SReach (Closed.thenM (Closed.concatM As) Closed.forEachM).M s →
      BasicSafe s ∧ applied s.tr <+: ConcatN.catN ys As.length ∧
      (s.stack = [] → s.tr ≠ [] → applied s.tr = ConcatN.catN ys As.length) :=
  ConcatN.concatN_correct As hne ys h

/-! ## all of it over one syntax: `Prog3 = src | stage | concat2 | concatN | flatRep`

`Prog3.toM` builds exactly the terms of the driver (binary `concat!`: both slots of the binary machine plugged; three or more members:
`concatM`).  This is the theorem the C06 comparison stream is run against: every program of the stream that does not use the `tri`
family is `(toProg3 text).toM`. -/

theorem C06_every_program_nary (p : Closed.Prog3) (hok : p.ok) :
    (∀ s, SReach (Closed.thenM p.toM Closed.forEachM).M s →
      BasicSafe s ∧ applied s.tr <+: listSem p.toPipe ∧ (s.stack = [] → s.tr ≠ [] → applied s.tr = listSem p.toPipe)) ∧
    (∀ s, SReach (Closed.thenM p.toM Closed.forEachM).M s → Safe s ∧ SafeFor 4 s ∧ SafeFor 5 s) ∧
    (∀ s, SReach (Closed.thenM p.toM Closed.forEachM).M s → ∃ n, EnvTurn (advance (Closed.thenM p.toM Closed.forEachM).M n s)) ∧
    (∃ s, SReach (Closed.thenM p.toM Closed.forEachM).M s ∧ s.stack = [] ∧ s.tr ≠ [] ∧ applied s.tr = listSem p.toPipe) :=
  ⟨Closed.prog3_correct p hok, Closed.prog3_safe p hok, Closed.prog3_progress p hok, Closed.prog3_nonvacuous p hok⟩

/-! ## "… so `take` over an UNBOUNDED iterator stops" — for chains of any length

`Closed.chainIM next it0 ss`: the linear network over an ARBITRARY iterator `next : ι → Option (Int × ι)` (a state machine, possibly
infinite; `srcM xs` is the instance `listNextI`).  If the chain contains a `take n` and the stages ABOVE it never drop (map, scan —
a `filter` rejecting everything over an unbounded source really diverges, and the property excludes it), every reachable configuration
runs into an environment turn and the application returns if the closures do.  The potential of `from_iter` here is length-free: an
iteration of its loop is paid by the Pull that set `got_pull`; the circle "a delivery pays the next Pull pays the next iteration pays the
next delivery" is broken by `take`'s budget `(max − taken)·R` (`Inv/TakeTerm.lean`).  The stages below `take` are unrestricted.
Safety (both layers) holds for every chain over every iterator. -/

theorem C06_take_over_unbounded_stops {ι : Type} (next : ι → Option (Int × ι)) (it0 : ι) (pre post : List Closed.Stg) (n : Nat)
    (hpre : ∀ s ∈ pre, s.keeps) :
    (∀ s, SReach (Closed.thenM (Closed.chainIM next it0 (pre ++ .take n :: post)) Closed.forEachM).M s →
      ∃ k, EnvTurn (advance (Closed.thenM (Closed.chainIM next it0 (pre ++ .take n :: post)) Closed.forEachM).M k s)) ∧
    (∀ s, SReach (Closed.thenM (Closed.chainIM next it0 (pre ++ .take n :: post)) Closed.forEachM).M s →
      ∃ t, SReach (Closed.thenM (Closed.chainIM next it0 (pre ++ .take n :: post)) Closed.forEachM).M t ∧ t.stack = [] ∧
        (s.tr ≠ [] → t.tr ≠ []) ∧
        ComposeTerm.Drain (Closed.thenM (Closed.chainIM next it0 (pre ++ .take n :: post)) Closed.forEachM).M s t) :=
  ⟨Closed.linearInf_progress next it0 pre post n hpre, Closed.linearInf_returns next it0 pre post n hpre⟩

theorem C06_unbounded_safe {ι : Type} (next : ι → Option (Int × ι)) (it0 : ι) (ss : List Closed.Stg) :
    ∀ s, SReach (Closed.thenM (Closed.chainIM next it0 ss) Closed.forEachM).M s → Safe s ∧ SafeFor 4 s ∧ SafeFor 5 s :=
  Closed.linearInf_safe next it0 ss

/-! ## "The iterator is advanced only on demand": the cost, on the machines, for every linear program

`nexts` is from_iter's ghost counter of `Iterator::next` calls inside the network; `(sem p none).2` is the cost of the demand semantics
(the L1 theorems at the top of this file are about it).  `Inv/ComposeCost.lean`: a demand transformer per stage mirroring `sem`
(`Stg.up`: map/scan keep the demand; `filter q`: `needFor q d ys`; `skip n`: `d + n`; `take n`: `min n d`), an upper bound conditional on
the sink's demand (`HeadUp`: each stage pulls upstream only while it still wants items) and a lower bound at rest (`HeadLow`), both
composed through `compose` by the projection with traces. -/

/-- never more advances than the demand semantics says, and exactly that many when the application has returned -/
theorem C06_linear_cost (xs : List Int) (ss : List Closed.Stg) (hpos : ∀ n, Closed.Stg.take n ∈ ss → 0 < n) :
    ∀ s, SReach (Closed.thenM (Closed.chainM xs ss) Closed.forEachM).M s →
      (Closed.thenM (Closed.chainM xs ss) Closed.forEachM).nexts s.st ≤ (sem (Closed.chainPipe xs ss) none).2 ∧
      (s.stack = [] → s.tr ≠ [] →
        (Closed.thenM (Closed.chainM xs ss) Closed.forEachM).nexts s.st = (sem (Closed.chainPipe xs ss) none).2) :=
  Closed.linear_cost xs ss hpos

/-- laziness: below a `take n` whose upstream stages never drop, the iterator is advanced at most `n` times — whatever follows the
take and however long the input is -/
theorem C06_linear_cost_take (xs : List Int) (pre post : List Closed.Stg) (n : Nat) (hpre : ∀ s ∈ pre, s.keeps')
    (hpos : ∀ m, Closed.Stg.take m ∈ pre ++ .take n :: post → 0 < m) :
    ∀ s, SReach (Closed.thenM (Closed.chainM xs (pre ++ .take n :: post)) Closed.forEachM).M s →
      (Closed.thenM (Closed.chainM xs (pre ++ .take n :: post)) Closed.forEachM).nexts s.st ≤ n ∧
      (n ≤ xs.length → (Closed.thenM (Closed.chainM xs (pre ++ .take n :: post)) Closed.forEachM).nexts s.st < xs.length + 1) :=
  Closed.linear_cost_take xs pre post n hpre hpos

/-- … and with arbitrary stages above the take: at most the cost of producing `n` outputs of the upper part -/
theorem C06_linear_cost_take_gen (xs : List Int) (pre post : List Closed.Stg) (n : Nat)
    (hpos : ∀ m, Closed.Stg.take m ∈ pre ++ .take n :: post → 0 < m) :
    ∀ s, SReach (Closed.thenM (Closed.chainM xs (pre ++ .take n :: post)) Closed.forEachM).M s →
      (Closed.thenM (Closed.chainM xs (pre ++ .take n :: post)) Closed.forEachM).nexts s.st ≤ (sem (Closed.chainPipe xs pre) (some n)).2 :=
  Closed.linear_cost_take_gen xs pre post n hpos

/-- over an ARBITRARY (possibly infinite) iterator: below a `take n` whose upstream stages never drop the iterator is advanced at most
`n` times — with `C06_take_over_unbounded_stops`: take over an unbounded iterator stops, having advanced it at most `n` times -/
theorem C06_unbounded_cost_take {ι : Type} (next : ι → Option (Int × ι)) (it0 : ι) (pre post : List Closed.Stg) (n : Nat)
    (hpre : ∀ s ∈ pre, s.keeps) :
    ∀ s, SReach (Closed.thenM (Closed.chainIM next it0 (pre ++ .take n :: post)) Closed.forEachM).M s →
      (Closed.thenM (Closed.chainIM next it0 (pre ++ .take n :: post)) Closed.forEachM).nexts s.st ≤ n :=
  Closed.linearInf_cost_take next it0 pre post n hpre

/-- the cost of programs with `concat!` and `flatten(map(…))`, when no `take` sits over a join (`Prog3.eager`): the SUM of the advances of
all member / inner sources is at most `(sem p none).2` everywhere and equal to it at return.  For a `take` over a join the natural demand
rule is FALSE against lazy sinks (again `concat`'s sticky `got_pull`: execution in the header of `Closed/Prog3Cost.lean`); closed with
`for_each` it is covered by the comparison only. -/
theorem C06_program_cost (p : Closed.Prog3) (hok : p.ok) (he : p.eager) :
    ∀ s, SReach (Closed.thenM p.toM Closed.forEachM).M s →
      (Closed.thenM p.toM Closed.forEachM).nexts s.st ≤ (sem p.toPipe none).2 ∧
      (s.stack = [] → s.tr ≠ [] → (Closed.thenM p.toM Closed.forEachM).nexts s.st = (sem p.toPipe none).2) :=
  Closed.prog3_cost p hok he

/-- … and with a `take` OVER a `concat!` whose members are take-free (they end only when pulled: `Prog3.lazy`, which contains
`Prog3.eager`): e.g. `take 4 (concat!(src [1,2,3], filter even (src [4,5,6,7]), src [8,9]))` advances the iterators at most 5 times and
never touches the third member (`Inv/JoinDemand.lean`: end-only-on-Pull, the demand invariant of the concat machine).  `flatRep` under a
`take` is not covered (the comparison only). -/
theorem C06_program_cost_take (p : Closed.Prog3) (hok : p.ok) (he : p.lazy) :
    ∀ s, SReach (Closed.thenM p.toM Closed.forEachM).M s →
      (Closed.thenM p.toM Closed.forEachM).nexts s.st ≤ (sem p.toPipe none).2 ∧
      (s.stack = [] → s.tr ≠ [] → (Closed.thenM p.toM Closed.forEachM).nexts s.st = (sem p.toPipe none).2) :=
  Closed.prog3_cost_take p hok he

/-- … and with `flatten(map(…))` under a `take` (and as a member of a `concat!` under a `take`): `Prog3.lazy2` ⊇ `Prog3.lazy` ⊇
`Prog3.eager` (`Inv/FlatDemand.lean`, `Inv/FlatDemandCost.lean`: the two demand invariants of the flatten machine — at most one upstream
is being pulled, inner `j` only while the sink wants more than the first `j − 1` inners deliver, the outer only while the inners created
so far have not met the demand).  Example: `take 4 (concat!(flatRep 2 (map (·*10) (src [1,5])), src [7]))` advances the iterators exactly
7 times and never touches `src [7]`.  Still outside: a `take` over a join one of whose members ends by itself (contains a `take`) — the
refuted rule (`Closed/Prog3Cost.lean`). -/
theorem C06_program_cost_flat (p : Closed.Prog3) (hok : p.ok) (he : p.lazy2) :
    ∀ s, SReach (Closed.thenM p.toM Closed.forEachM).M s →
      (Closed.thenM p.toM Closed.forEachM).nexts s.st ≤ (sem p.toPipe none).2 ∧
      (s.stack = [] → s.tr ≠ [] → (Closed.thenM p.toM Closed.forEachM).nexts s.st = (sem p.toPipe none).2) :=
  Closed.prog3_cost_flat p hok he

/-! ## the widest domain: `Prog3.ok2`

The argument of a `flatRep` may be linear OR take-free (`tf2`: sources, non-`take` stages, `concat!`, nested `flatRep`): such programs
deliver and end only when pulled, which is all `flatten` needs (`PullOnly` from the join machinery).  Still excluded, for the recorded
reason (observation O7): `flatRep` over a program in which a member ends by `take`. -/

theorem C06_every_program_wide (p : Closed.Prog3) (hok : p.ok2) :
    (∀ s, SReach (Closed.thenM p.toM Closed.forEachM).M s →
      BasicSafe s ∧ applied s.tr <+: listSem p.toPipe ∧ (s.stack = [] → s.tr ≠ [] → applied s.tr = listSem p.toPipe)) ∧
    (∀ s, SReach (Closed.thenM p.toM Closed.forEachM).M s → Safe s ∧ SafeFor 4 s ∧ SafeFor 5 s) :=
  ⟨Closed.prog3_correct2 p hok, Closed.prog3_safe2 p hok⟩

theorem C06_program_cost_wide (p : Closed.Prog3) (hok : p.ok2) (he : p.lazy2) :
    ∀ s, SReach (Closed.thenM p.toM Closed.forEachM).M s →
      (Closed.thenM p.toM Closed.forEachM).nexts s.st ≤ (sem p.toPipe none).2 ∧
      (s.stack = [] → s.tr ≠ [] → (Closed.thenM p.toM Closed.forEachM).nexts s.st = (sem p.toPipe none).2) :=
  Closed.prog3_cost_wide p hok he

end Cb.Thm
