import CallbagModel.Sem
import CallbagModel.Ops.Combine
import CallbagModel.Ops.Share
import CallbagModel.Ops.Merge
/-!
# Counterexamples: the known deviations of the crate are reachable violations in the models

Each theorem is a kernel-checked witness `∃ s, SReach M s ∧ v ∈ s.g.viols`: a concrete script of a conformant environment
(`legalIn`/`legalRet`) is replayed on the model by `runFuel` (= `runMoves` with a small explicit fuel, so that the kernel
can evaluate it), `runFuel_reach` turns the replay into a reachability proof, and the violation is read off the ghost
monitor of the final configuration by evaluation.

Script notation (header of `Script.lean`): `S<k>` subscribe · `U<k>p|t|e<id>` sink talkback · `G<i>` upstream greets ·
`D<i>d<v>|t|e<id>` upstream delivers · `R` return.
-/
namespace Cb.Thm

/-! ## Toolbox -/

section toolbox
variable {St Loc α β : Type}

/-- `runMoves` with an explicit fuel for the operator runs between two environment moves -/
def runFuel (M : Machine St Loc α β) (fuel : Nat) : Sys St Loc α β → List (Move α) → Option (Sys St Loc α β)
  | s, [] => some s
  | s, m :: ms => match envMove M s m with
    | none => none
    | some s1 => runFuel M fuel (advance M fuel s1) ms

/-- `advance` only makes operator steps (and stops by itself when there is none) -/
theorem advance_reach (M : Machine St Loc α β) (n : Nat) {s : Sys St Loc α β} (h : SReach M s) : SReach M (advance M n s) := by
  induction n generalizing s with
  | zero => exact h
  | succ n ih =>
    simp only [advance]
    cases ho : opStep M s with
    | none => exact h
    | some s' => exact ih (.step h (.op ho))

/-- a successful replay ends in a reachable configuration -/
theorem runFuel_reach (M : Machine St Loc α β) (fuel : Nat) {s s' : Sys St Loc α β} {ms : List (Move α)}
    (hs : SReach M s) (h : runFuel M fuel s ms = some s') : SReach M s' := by
  induction ms generalizing s with
  | nil => simp only [runFuel, Option.some.injEq] at h; exact h ▸ hs
  | cons m ms ih =>
    simp only [runFuel] at h
    cases he : envMove M s m with
    | none => simp [he] at h
    | some s1 =>
      rw [he] at h
      exact ih (advance_reach M fuel (.step hs (.env ((envMove_iff M m s s1).1 he) trivial))) h

/-- replay from the initial configuration -/
def runInit (M : Machine St Loc α β) (fuel : Nat) (ms : List (Move α)) : Option (Sys St Loc α β) :=
  runFuel M fuel (Sys.init M) ms

/-- a script whose final configuration passes a boolean test is a reachability witness -/
theorem witness_of_script (M : Machine St Loc α β) (fuel : Nat) (ms : List (Move α)) (p : Sys St Loc α β → Bool)
    (h : (runInit M fuel ms).map p = some true) : ∃ s, SReach M s ∧ p s = true := by
  cases hr : runInit M fuel ms with
  | none => simp [hr] at h
  | some s => exact ⟨s, runFuel_reach M fuel .init hr, by simpa [hr] using h⟩

end toolbox

/-! ## Script tokens (data type `Nat`), scripts -/

namespace CE

abbrev S (k : Nat) : Move Nat := .call (.subscribe k)
abbrev G (i : Nat) : Move Nat := .call (.srcGreet i)
abbrev Dd (i v : Nat) : Move Nat := .call (.srcDown i (.data v))
abbrev Dt (i : Nat) : Move Nat := .call (.srcDown i .term)
abbrev De (i e : Nat) : Move Nat := .call (.srcDown i (.err e))
abbrev Up (k : Nat) : Move Nat := .call (.sinkUp k .pull)
abbrev Ut (k : Nat) : Move Nat := .call (.sinkUp k .term)
abbrev Ue (k e : Nat) : Move Nat := .call (.sinkUp k (.err e))
abbrev R : Move Nat := .ret

/-- fuel for the operator between two environment moves: no handler in the scripts below runs longer -/
abbrev fuel : Nat := 16

/-- KF1: `S0 G0 R G1 R R D0e10` (then the handler returns) -/
def kf1 : List (Move Nat) := [S 0, G 0, R, G 1, R, R, De 0 10]
/-- KF2: `S0 G0 R G1 R R D0t U0p` -/
def kf2 : List (Move Nat) := [S 0, G 0, R, G 1, R, R, Dt 0, Up 0]
/-- KF3: `S0 G0 R G1 R R D0d1 D1d2 R U0p D0d3 U0t R R R R` -/
def kf3 : List (Move Nat) := [S 0, G 0, R, G 1, R, R, Dd 0 1, Dd 1 2, R, Up 0, Dd 0 3, Ut 0, R, R, R, R]
/-- KF5a: `S0 G0 R R S2 U2p D0d1 U0p D0d2 U0e20 R R D0e10 R R R` -/
def kf5a : List (Move Nat) := [S 0, G 0, R, R, S 2, Up 2, Dd 0 1, Up 0, Dd 0 2, Ue 0 20, R, R, De 0 10, R, R, R]
/-- KF5b: `S1 G0 R R S0 R D0d1 U1p D0d2 R U0e20 R R R` -/
def kf5b : List (Move Nat) := [S 1, G 0, R, R, S 0, R, Dd 0 1, Up 1, Dd 0 2, R, Ue 0 20, R, R, R]
/-- merge, late greeting after the sink disposed: `S0 G0 R R R U0t R G1` (then the handler returns to top level) -/
def lateGreet : List (Move Nat) := [S 0, G 0, R, R, R, Ut 0, R, G 1]
/-- merge, an upstream `Error` arrives inside the `Pull` broadcast: `S0 G0 R R G1 R U0p D0e10 R R R` -/
def pullAfterTerm : List (Move Nat) := [S 0, G 0, R, R, G 1, R, Up 0, De 0 10, R, R, R]

end CE
open CE

/-! ## combine -/

/-- KF1 (C05, combine): an upstream `Error` is counted as a completion: the live sink never receives it
(`errLost 10 0`), and the other upstream is still live when the handler has returned (`errSibling 10 1`). -/
theorem C05_combine_counterexample :
    ∃ s, SReach (Combine.machine Nat 2) s ∧ Viol.errLost 10 0 ∈ s.g.viols ∧ Viol.errSibling 10 1 ∈ s.g.viols := by
  obtain ⟨s, hr, hp⟩ := witness_of_script (Combine.machine Nat 2) fuel kf1
    (fun s => decide (Viol.errLost 10 0 ∈ s.g.viols ∧ Viol.errSibling 10 1 ∈ s.g.viols)) (by decide)
  exact ⟨s, hr, by simpa using hp⟩

/-- KF2 (C04, combine): the sink's `Pull` is broadcast to an upstream that has already terminated. -/
theorem C04_combine_counterexample_ended :
    ∃ s, SReach (Combine.machine Nat 2) s ∧ Viol.upNotLive 0 .ended ∈ s.g.viols := by
  obtain ⟨s, hr, hp⟩ := witness_of_script (Combine.machine Nat 2) fuel kf2
    (fun s => decide (Viol.upNotLive 0 .ended ∈ s.g.viols)) (by decide)
  exact ⟨s, hr, by simpa using hp⟩

/-- KF3 (C04, combine): a `Terminate` sent by the sink from inside a delivery that is nested in a `Pull` broadcast
disposes every upstream; the outer broadcast then resumes and pulls upstream 1, which is disposed. -/
theorem C04_combine_counterexample_disposed :
    ∃ s, SReach (Combine.machine Nat 2) s ∧ Viol.upNotLive 1 .disposed ∈ s.g.viols := by
  obtain ⟨s, hr, hp⟩ := witness_of_script (Combine.machine Nat 2) fuel kf3
    (fun s => decide (Viol.upNotLive 1 .disposed ∈ s.g.viols)) (by decide)
  exact ⟨s, hr, by simpa using hp⟩

/-! ## share -/

/-- KF5a (C02, share): the fan-out loop iterates over a snapshot of the sinks: sink 2 receives the terminal of a nested
delivery and then the datum of the outer loop, after its terminal. -/
theorem C02_share_counterexample :
    ∃ s, SReach (Share.machine Nat) s ∧ Viol.afterTerm 2 ∈ s.g.viols := by
  obtain ⟨s, hr, hp⟩ := witness_of_script (Share.machine Nat) fuel kf5a
    (fun s => decide (Viol.afterTerm 2 ∈ s.g.viols)) (by decide)
  exact ⟨s, hr, by simpa using hp⟩

/-- KF5b (C03, share): sink 0 disposes while an outer fan-out loop still holds it in its snapshot, and is delivered to
after it disposed. -/
theorem C03_share_counterexample :
    ∃ s, SReach (Share.machine Nat) s ∧ Viol.afterDispose 0 ∈ s.g.viols := by
  obtain ⟨s, hr, hp⟩ := witness_of_script (Share.machine Nat) fuel kf5b
    (fun s => decide (Viol.afterDispose 0 ∈ s.g.viols)) (by decide)
  exact ⟨s, hr, by simpa using hp⟩

/-! ## merge: the code before the fixes (`fx = false`) against the current code (`fx = true`) -/

/-- C04, merge before fix 39e2d74: a member that greets after the sink disposed is stored and never disposed. -/
theorem C04_merge_legacy_orphan :
    ∃ s, SReach (Merge.machine Nat 2 false) s ∧ Viol.orphan 1 ∈ s.g.viols := by
  obtain ⟨s, hr, hp⟩ := witness_of_script (Merge.machine Nat 2 false) fuel lateGreet
    (fun s => decide (Viol.orphan 1 ∈ s.g.viols)) (by decide)
  exact ⟨s, hr, by simpa using hp⟩

/-- … and when that member then delivers (`D1d1`), the disposed sink receives the datum (C03). -/
theorem C04_merge_legacy_orphan_delivers :
    ∃ s, SReach (Merge.machine Nat 2 false) s ∧ Viol.orphan 1 ∈ s.g.viols ∧ Viol.afterDispose 0 ∈ s.g.viols := by
  obtain ⟨s, hr, hp⟩ := witness_of_script (Merge.machine Nat 2 false) fuel (lateGreet ++ [Dd 1 1])
    (fun s => decide (Viol.orphan 1 ∈ s.g.viols ∧ Viol.afterDispose 0 ∈ s.g.viols)) (by decide)
  exact ⟨s, hr, by simpa using hp⟩

/-- the current code on the same script (the late member is disposed at once, inside its greeting): no violation, neither
while that `Terminate` is open nor after it returned to top level -/
theorem C04_merge_fixed_orphan :
    (runInit (Merge.machine Nat 2 true) fuel lateGreet).map (·.g.viols) = some [] ∧
    (runInit (Merge.machine Nat 2 true) fuel (lateGreet ++ [R])).map (·.g.viols) = some [] := by
  decide

/-- C04, merge before fix eb7070b: an upstream `Error` arriving inside the `Pull` broadcast disposes the other member;
the broadcast resumes and pulls that disposed member. -/
theorem C04_merge_legacy_pull_after_terminate :
    ∃ s, SReach (Merge.machine Nat 2 false) s ∧ Viol.upNotLive 1 .disposed ∈ s.g.viols := by
  obtain ⟨s, hr, hp⟩ := witness_of_script (Merge.machine Nat 2 false) fuel pullAfterTerm
    (fun s => decide (Viol.upNotLive 1 .disposed ∈ s.g.viols)) (by decide)
  exact ⟨s, hr, by simpa using hp⟩

/-- the current code on the same script: no violation -/
theorem C04_merge_fixed_pull_after_terminate :
    (runInit (Merge.machine Nat 2 true) fuel pullAfterTerm).map (·.g.viols) = some [] := by
  decide

end Cb.Thm
#print axioms Cb.Thm.runFuel_reach
#print axioms Cb.Thm.witness_of_script
#print axioms Cb.Thm.C05_combine_counterexample
#print axioms Cb.Thm.C04_combine_counterexample_ended
#print axioms Cb.Thm.C04_combine_counterexample_disposed
#print axioms Cb.Thm.C02_share_counterexample
#print axioms Cb.Thm.C03_share_counterexample
#print axioms Cb.Thm.C04_merge_legacy_orphan
#print axioms Cb.Thm.C04_merge_legacy_orphan_delivers
#print axioms Cb.Thm.C04_merge_fixed_orphan
#print axioms Cb.Thm.C04_merge_legacy_pull_after_terminate
#print axioms Cb.Thm.C04_merge_fixed_pull_after_terminate
