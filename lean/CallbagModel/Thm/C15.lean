import CallbagModel.Fun.FromIter
/-!
# C15 — from_iter: lazy, ordered, one item per Pull, never re-entrant

Against an ARBITRARY conformant sink (pulling / disposing from inside its greeting handler, from inside any data handler, or at top
level) and for every iterator (`next : ι → Option (α × ι)`: empty, finite, unbounded): `fromIterOk` (Spec.lean) — the sink receives the
iterator's items in order; items + completion never exceed the Pulls sent; no delivery begins while an earlier delivery to the same
sink is still in progress (delivery depth ≤ 1); at most one `Terminate`, and only when the iterator is exhausted — and, about the
operator state: the iterator is advanced exactly once per item delivered plus once to discover exhaustion, never more often than it
has been pulled; the operator's part of the call stack has at most 2 frames, whatever the number of items (the model-level content of
"stack depth does not grow"; the bytes per frame are the suite's stack test's business).  Silence after disposal is C03.
-/
namespace Cb.Thm

theorem C15_from_iter {ι α α' : Type} [DecidableEq α] (next : ι → Option (α × ι)) (it0 : ι) :
    ∀ s, SReach (FromIter.machine α' next it0) s → EnvTurn s →
      fromIterOk next it0 s.tr = true
      ∧ s.st.nexts = (recvData 0 s.tr).length + finalsTo 0 s.tr
      ∧ s.st.nexts ≤ pullsIn 0 s.tr
      ∧ s.stack.length ≤ 2 :=
  FromIterFun.fromIter_spec next it0

end Cb.Thm
