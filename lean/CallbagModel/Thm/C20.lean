import CallbagModel.Inv.Traced
/-!
# C20 — the tracing feature is observationally inert

`traced M` (Ops/Traced.lean) is the machine `M` with the extra micro-steps of the `tracing` build: the `instrument!`/`trace!`
preamble in front of every handler and, in front of every call, binding the message once and logging it.  The theorems are
generic in `M`: for every operator model, the traced machine reaches exactly the configurations of the original one as far as
operator state, ghost monitor, boundary trace (every message, every value, in order) and panic flag are concerned.
What the `tracing` crate itself does when a subscriber is installed is outside the model; `./check C20` replays every script on
three builds of the real crate (default; `tracing` without / with a subscriber) and compares the recordings event for event,
including how often `map`'s closure — which sits inside a message expression of `call!` — is invoked.
-/
namespace Cb.Thm
variable {St Loc α β : Type}

theorem C20_traced_refines (M : Machine St Loc α β) : ∀ s, SReach (traced M) s → SReach M (eraseSys s) :=
  traced_refines M

theorem C20_traced_complete (M : Machine St Loc α β) : ∀ s, SReach M s → ∃ s', SReach (traced M) s' ∧ eraseSys s' = s :=
  traced_complete M

/-- every peer sees exactly the same sequence of messages and values: any property of (state, ghost, trace, panic flag) holds of
one machine iff it holds of the other -/
theorem C20_same_observations (M : Machine St Loc α β) (P : St → G → List (Ev α β) → Option String → Prop) :
    (∀ s, SReach (traced M) s → P s.st s.g s.tr s.panicked) ↔ (∀ s, SReach M s → P s.st s.g s.tr s.panicked) :=
  traced_transfer_iff M P

/-- each message expression is evaluated exactly once -/
theorem C20_message_evaluated_once (M : Machine St Loc α β) (st : St) (l : Loc) (o : Out β) (st' : St) (l' : Loc)
    (h : M.step st l = .call o st' l') :
    (traced M).step st (.at l) = .tau st (.logged l) ∧ (traced M).step st (.logged l) = .call o st' (.at l') :=
  traced_call_once M st l o st' l' h

end Cb.Thm
