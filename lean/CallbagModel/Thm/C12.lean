import CallbagModel.Fun.Share
/-!
# C12 — share: one upstream subscription, reference-counted over its sinks

Environments are those of C12's own quantifier: conformant, and the source does not deliver from inside one of share's own
deliveries (`noNestedFanout`, Env.lean); any number of sinks.  `shareOk tr` (Spec.lean): a sink attaching while none is attached
starts a FRESH upstream subscription, any other is greeted at once; the sink's `Terminate`/`Error` that empties the attached list is
followed by `Terminate` upstream, any other just returns; upstream is never terminated otherwise; a new upstream subscription is
made only when every earlier one has ended or been disposed (at most one alive).  `C12_fanout`: every attached sink receives every
datum emitted while it is attached, in attachment order, one call each.
-/
namespace Cb.Thm
open Cb.ShareFun

theorem C12_share {α : Type} [DecidableEq α] :
    ∀ s, SReachR (Share.machine α) noNestedFanout s → EnvTurn s → shareOk s.tr = true :=
  share_spec

/-- the trace-level notion of "attached" is the operator's sink list -/
theorem C12_attached_is_refcount {α : Type} (s : Sys Share.St (Share.Loc α) α α)
    (hs : SReachR (Share.machine α) noNestedFanout s) (ht : EnvTurn s) :
    attached s.tr = expAtt s.st.sinks s.stack ∧ subscriptions s.tr = List.range s.st.gen :=
  share_attached s hs ht

end Cb.Thm
