import CallbagModel.Fun.RelayDemand
import CallbagModel.Fun.TakeDemand
import CallbagModel.Fun.FromIterDemand
import CallbagModel.Fun.ConcatDemand
import CallbagModel.Fun.FlattenDemand
/-!
# C14 — demand conservation: pullable in, pullable out — one answer per Pull

Environments are those of C14's own quantifier (`pullable`, Spec14.lean): conformant; every upstream answers each `Pull` with exactly
one `Data` or its end and emits nothing unrequested; the sink sends at most one `Pull` per message it receives — from inside any
handler or at top level; upstream replies inside the `Pull` or later; all parameters.
`demandOk tr` (Spec14.lean): the sink has never received more `Data` than it sent `Pull`s; and whenever a `Pull` has not been
answered yet (no datum, no end) the answer WILL come without further prompting: the sink disposed, or a delivery to it is still
open (the operator looks at the demand when it returns), or the operator is in the middle of terminating an upstream, or an
upstream it is subscribed to is live and itself owes an answer, or is subscribed and about to greet (the operator re-issues the
Pull at the greeting).  Items dropped by `filter`/`skip` are re-requested by the operator itself: that is what keeps the owed counts
equal (`P + A = U + D` in `Fun/RelayDemand.lean`).
-/
namespace Cb.Thm

theorem C14_map {α β : Type} (f : α → β) :
    ∀ s, SReachR (Relay.machine (Relay.map f)) pullable s → EnvTurn s → demandOk s.tr = true := RelayDemand.map_demand f
theorem C14_filter {α : Type} (p : α → Bool) :
    ∀ s, SReachR (Relay.machine (Relay.filter p)) pullable s → EnvTurn s → demandOk s.tr = true := RelayDemand.filter_demand p
theorem C14_scan {α β : Type} (r : β → α → β) (seed : β) :
    ∀ s, SReachR (Relay.machine (Relay.scan r seed)) pullable s → EnvTurn s → demandOk s.tr = true := RelayDemand.scan_demand r seed
theorem C14_skip {α : Type} (n : Nat) :
    ∀ s, SReachR (Relay.machine (Relay.skip (α := α) n)) pullable s → EnvTurn s → demandOk s.tr = true := RelayDemand.skip_demand n
/-- `take(max)`, `max ≥ 1` as the property says: `take(0)` never forwards a Pull and never completes (observation O6; the witness
script `take:0 | S0 G0 U0p R R` is flagged on the real crate as well) -/
theorem C14_take {α : Type} (max : Nat) (hmax : 0 < max) :
    ∀ s, SReachR (Take.machine α max) pullable s → EnvTurn s → demandOk s.tr = true := TakeDemand.take_demand max hmax
theorem C14_from_iter {ι α α' : Type} (next : ι → Option (α × ι)) (it0 : ι) :
    ∀ s, SReachR (FromIter.machine α' next it0) pullable s → EnvTurn s → demandOk s.tr = true := FromIterDemand.fromIter_demand next it0
theorem C14_concat {α : Type} (n : Nat) (hn : 0 < n) :
    ∀ s, SReachR (Concat.machine α n) pullable s → EnvTurn s → demandOk s.tr = true := ConcatDemand.concat_demand n hn
theorem C14_flatten {α : Type} :
    ∀ s, SReachR (Flatten.machine α) pullable s → EnvTurn s → demandOk s.tr = true := FlattenDemand.flatten_demand

end Cb.Thm
