import CallbagModel.Inv.XViols
import CallbagModel.Inv.Combine
import CallbagModel.Inv.ComposeFull
import CallbagModel.Inv.ComposeInst
import CallbagModel.Inv.ConcatFull
import CallbagModel.Inv.FlatPlugSafe
import CallbagModel.Inv.FlattenFull
import CallbagModel.Inv.ForEachFull
import CallbagModel.Inv.FromIterFull
import CallbagModel.Inv.MergeFull
import CallbagModel.Inv.MonSound
import CallbagModel.Inv.RelayFull
import CallbagModel.Inv.ShareCS
import CallbagModel.Inv.ShareFull
import CallbagModel.Inv.ShareWeak
import CallbagModel.Inv.TakeFull
/-!
# C04 — no orphaned or doubly-terminated upstream: operators are conformant sinks: property theorems (statements only; the invariants are in `Inv/*Full.lean`)

`SafeFor 4 s`: no violation of C04 has been recorded: no upstream subscribed twice or after the output is over, no Pull / Terminate / Error sent to an
upstream that is not live, the sink's `Error(e)` relayed as `Error(e)` by pass-through operators, no upstream left live once the
output is over and control is back at top level.
`SReach M s`: `s` is reachable from the initial configuration of `M` by operator micro-steps and moves of a conformant
environment (`legalIn`/`legalRet`, DESIGN §1.2) — every history, every nesting depth, every data value, every closure.
-/
namespace Cb.Thm

theorem C04_map {α β : Type} (f : α → β) :
    ∀ s, SReach (Relay.machine (Relay.map f)) s → SafeFor 4 s :=
  fun s hs => (RelayFull.map_safe f s hs).safeFor 4

theorem C04_filter {α : Type} (p : α → Bool) :
    ∀ s, SReach (Relay.machine (Relay.filter p)) s → SafeFor 4 s :=
  fun s hs => (RelayFull.filter_safe p s hs).safeFor 4

theorem C04_scan {α β : Type} (r : β → α → β) (seed : β) :
    ∀ s, SReach (Relay.machine (Relay.scan r seed)) s → SafeFor 4 s :=
  fun s hs => (RelayFull.scan_safe r seed s hs).safeFor 4

theorem C04_skip {α : Type} (n : Nat) :
    ∀ s, SReach (Relay.machine (Relay.skip (α := α) n)) s → SafeFor 4 s :=
  fun s hs => (RelayFull.skip_safe n s hs).safeFor 4

theorem C04_take {α : Type} (max : Nat) :
    ∀ s, SReach (Take.machine α max) s → SafeFor 4 s :=
  fun s hs => (TakeFull.take_safe max s hs).safeFor 4

theorem C04_from_iter {ι α α' : Type} (next : ι → Option (α × ι)) (it0 : ι) :
    ∀ s, SReach (FromIter.machine α' next it0) s → SafeFor 4 s :=
  fun s hs => (FromIterFull.fromIter_safe next it0 s hs).safeFor 4

theorem C04_for_each {α : Type} :
    ∀ s, SReach (ForEach.machine α) s → SafeFor 4 s :=
  fun s hs => (ForEachFull.forEach_safe s hs).safeFor 4

theorem C04_concat {α : Type} (n : Nat) (hn : 0 < n) :
    ∀ s, SReach (Concat.machine α n) s → SafeFor 4 s :=
  fun s hs => (ConcatFull.concat_safe n hn s hs).safeFor 4

theorem C04_flatten {α : Type} :
    ∀ s, SReach (Flatten.machine α) s → SafeFor 4 s :=
  fun s hs => (FlattenFull.flatten_safe s hs).safeFor 4

theorem C04_merge {α : Type} (n : Nat) :
    ∀ s, SReach (Merge.machine α n) s → SafeFor 4 s :=
  fun s hs => (MergeFull.merge_safe n s hs).safeFor 4

/-- `share`: proved for environments in which the source does not deliver from inside one of share's own deliveries
(`noNestedFanout`, the restriction C12 makes in its own quantifier). -/
theorem C04_share_partial {α : Type} :
    ∀ s, SReachR (Share.machine α) noNestedFanout s → SafeFor 4 s :=
  fun s hs => (ShareFull.share_safe_partial s hs).safeFor 4
/-- `share`, EVERY conformant environment (nested fan-out included): the protocol part of C04 holds — no upstream is subscribed twice or
after the output is over, no Pull / Terminate is sent to an upstream that is not live: the only phase-level violations are late
deliveries (C02/C03). -/
theorem C04_share_protocol {α : Type} :
    ∀ s, SReach (Share.machine α) s → ∀ v ∈ s.g.ph.viols, (∃ k, v = Viol.afterTerm k) ∨ (∃ k, v = Viol.afterDispose k) :=
  fun s hs => (ShareWeak.share_safe_weak s hs).1

/-- pipelines `pipe!(source, op₁, …, opₙ)` of map / filter / scan / skip / take of ANY length, as operators against every conformant
upstream and sink — C04 in FULL (both monitor layers).  `FullStage` (Inv/ComposeFull.lean): pipeable, one upstream and one sink, no
orphan at top level, and DIRECT error paths (an `Error` arriving at either end is passed on by the handler that receives it, with
nothing in between); closed under `compose`.  A general "Safe M₁ → Safe M₂ → Safe (compose M₁ M₂)" is FALSE (two executions at the
end of Inv/ComposeFull.lean: a stage that delivers one more datum before relaying an upstream Error, over a `take` that completes on
it; a stage that pulls before relaying its sink's Error, under a `take` that completes on the answer). -/
theorem C04_pipeline {S1 L1 S2 L2 α β γ : Type} {M1 : Machine S1 L1 α β} {M2 : Machine S2 L2 β γ}
    (h1 : ComposeFull.FullStage M1) (h2 : ComposeFull.FullStage M2) : ∀ s, SReach (compose M1 M2) s → SafeFor 4 s :=
  fun s hs => (ComposeFull.compose_safe h1 h2 s hs).1.safeFor 4

/-- the stages (and every composition of stages: `FullStage.compose`) -/
theorem C04_full_stages {σ α β : Type} (k : Relay.Kind σ α β) (hk : k.slotted = false → ∀ s a, (k.xfer s a).2 ≠ none) (max : Nat) :
    ComposeFull.FullStage (Relay.machine k) ∧ ComposeFull.FullStage (Take.machine α max) :=
  ⟨ComposeFull.Relay.fullStage k hk, ComposeFull.Take.fullStage max⟩

/-- closed pipelines `pipe!(head, stages…, for_each(f))`, head = from_iter / concat! / flatten: C04 in full -/
theorem C04_closed_pipeline {S1 L1 S2 L2 α β γ : Type} {Msrc : Machine S1 L1 α β} {Mmid : Machine S2 L2 β γ}
    (hsrc : UpSide Msrc) (hmid : Pipeable Mmid) :
    ∀ s, SReach (compose (compose Msrc Mmid) (ForEach.machine γ)) s → SafeFor 4 s :=
  fun s hs => (ComposeFull.closed_pipeline_full hsrc hmid s hs).1.safeFor 4

/-- `flatten(map(g)(outer))` as a network (`Ops/FlatPlug.lean`: the outer source and every dynamically created inner source are closed
head-capable sources), alone or heading a closed pipeline: C04 in full -/
theorem C04_flatten_network {So Lo Si Li αo αi : Type} {Mo : Machine So Lo αo Int} {Mi : Machine Si Li αi Int} {initOf : Int → Si}
    (H : FlatPlugSafe.HypF Mo Mi initOf) : ∀ s, SReach (flatPlug Mo Mi initOf) s → SafeFor 4 s :=
  fun s hs => (FlatPlugSafe.flatPlug_safe H s hs).1.safeFor 4

/-- `pipe!(from_iter(it), stages…)` as a source, against every conformant sink: C04 in full -/
theorem C04_fromIter_pipeline {ι α α' β S L : Type} (next : ι → Option (α × ι)) (it0 : ι) {Mmid : Machine S L α β}
    (hmid : Pipeable Mmid) : ∀ s, SReach (compose (FromIter.machine α' next it0) Mmid) s → SafeFor 4 s :=
  fun s hs => (ComposeFull.fromIter_pipeline_full next it0 hmid s hs).1.safeFor 4

/-- the oracle that judges traces recorded from the real crate IS the monitor of these theorems: on every model execution the
machine-free monitor `monRun` (Mon.lean), folded over the boundary trace alone, computes exactly the ghost carried by the configuration
(`Inv/MonSound.lean`: `monRun_sound`), so `SafeFor 4` can be read off the trace -/
theorem C04_oracle_is_the_monitor {St Loc α β : Type} (M : Machine St Loc α β) :
    ∀ s, SReach M s →
      (SafeFor 4 s ↔ (∀ v ∈ (monRun M.shape s.tr.reverse).g.viols, v.prop ≠ 4) ∧
        (4 = 17 → (monRun M.shape s.tr.reverse).panicked = false)) :=
  safeFor_iff_monRun M 4

/-- `share` under the wider cross-sink environment (`SemCS.lean`): the ONLY C04 deviation is a message to an upstream that has ended, and that
message is always a Pull — share never sends `Terminate`/`Error` to an upstream that is not live (known finding KF5d is exactly this
Pull; `Inv/ShareCS.lean`). -/
theorem C04_share_cross_sink_partial {α : Type} :
    (∀ s, CSReach (Share.machine α) s → (∀ v ∈ s.g.viols, v.prop = 4 → ∃ i, v = Viol.upNotLive i .ended)) ∧
    (∀ s s', CSReach (Share.machine α) s → opStep (Share.machine α) s = some s' →
      ∀ i u, s'.tr = .out (.srcUp i u) :: s.tr → u = .pull ∨ s.g.ph.srcPh i = .live) := by
  refine ⟨?_, ShareCS.share_cs_stray_is_pull⟩
  intro s hs v hm h4
  obtain ⟨hv, hx, _⟩ := ShareCS.share_safe_cs s hs
  unfold G.viols at hm
  rw [hx, List.nil_append] at hm
  rcases hv v hm with ⟨k, rfl⟩ | ⟨k, rfl⟩ | ⟨i, rfl⟩
  · simp [Viol.prop] at h4
  · simp [Viol.prop] at h4
  · exact ⟨i, rfl⟩

/-- `combine!`: the full statement is FALSE (known findings KF2, KF3: the sink's Pull / Terminate / Error are also sent to members that
have ended, and a Pull broadcast continues after a nested disposal; witnesses in `Thm/Counterexamples.lean`). What is proved: those
messages to non-live members are the ONLY phase-level violations — every member is subscribed exactly once and never after the output
is over. -/
theorem C04_combine_partial {α : Type} (n : Nat) :
    ∀ s, SReach (Combine.machine α n) s → ∀ v ∈ s.g.ph.viols, ∃ i p, v = Viol.upNotLive i p :=
  fun s hs => (Combine.combine_safe_partial n s hs).1

end Cb.Thm
