import CallbagModel.Fun.Relay
import CallbagModel.Fun.Take
/-!
# C07 — reactive programming: unary operators are incremental list functions

`relayOk xfer seed tr` / `takeOk max tr` (Spec.lean) are the executable specifications: at every point where the environment has
control, the data the sink has received equals the list function of the data upstream has sent so far; every output is produced
immediately after the input that caused it (nothing in between: inside that delivery); `map`/`filter`/`scan`/`skip` complete exactly
when upstream does, with the same error; `take(max ≥ 1)` terminates upstream and completes the sink right after the `max`-th item's
delivery returns.  Every emitted sequence and timing (bursts inside the greeting included), every sink reaction policy, every
`n` / predicate / reducer / seed / closure.
-/
namespace Cb.Thm

theorem C07_map {α β : Type} [DecidableEq β] (f : α → β) :
    ∀ s, SReach (Relay.machine (Relay.map f)) s → EnvTurn s →
      relayOk (Relay.map f).xfer () s.tr = true ∧ recvData 0 s.tr = (sentData 0 s.tr).map f :=
  RelayFun.map_spec f

theorem C07_filter {α : Type} [DecidableEq α] (p : α → Bool) :
    ∀ s, SReach (Relay.machine (Relay.filter p)) s → EnvTurn s →
      relayOk (Relay.filter p).xfer () s.tr = true ∧ recvData 0 s.tr = (sentData 0 s.tr).filter p :=
  RelayFun.filter_spec p

theorem C07_scan {α β : Type} [DecidableEq β] (r : β → α → β) (seed : β) :
    ∀ s, SReach (Relay.machine (Relay.scan r seed)) s → EnvTurn s →
      relayOk (Relay.scan r seed).xfer seed s.tr = true ∧ recvData 0 s.tr = scanF r seed (sentData 0 s.tr) :=
  RelayFun.scan_spec r seed

theorem C07_skip {α : Type} [DecidableEq α] (n : Nat) :
    ∀ s, SReach (Relay.machine (Relay.skip (α := α) n)) s → EnvTurn s →
      relayOk (Relay.skip (α := α) n).xfer 0 s.tr = true ∧ recvData 0 s.tr = (sentData 0 s.tr).drop n :=
  RelayFun.skip_spec n

theorem C07_take {α : Type} [DecidableEq α] (max : Nat) :
    ∀ s, SReach (Take.machine α max) s → EnvTurn s → takeOk max s.tr = true :=
  TakeFun.take_spec max

end Cb.Thm
