import CallbagModel.Fun.Relay
import CallbagModel.Fun.Take
import CallbagModel.Inv.Fuse
import CallbagModel.Inv.ComposeFun
/-!
# C07 — reactive programming: unary operators are incremental list functions

`relayOk xfer seed tr` / `takeOk max tr` (Spec.lean) are the executable specifications: at every point where the environment has
control, the data the sink has received equals the list function of the data upstream has sent so far; every output is produced
immediately after the input that caused it (nothing in between: inside that delivery); `map`/`filter`/`scan`/`skip` complete exactly
when upstream does, with the same error; `take(max ≥ 1)` terminates upstream and completes the sink right after the `max`-th item's
delivery returns.  Every emitted sequence and timing (bursts inside the greeting included), every sink reaction policy, every
`n` / predicate / reducer / seed / closure.
-/
namespace Cb.Thm

theorem C07_map {α β : Type} [DecidableEq β] (f : α → β) :
    ∀ s, SReach (Relay.machine (Relay.map f)) s → EnvTurn s →
      relayOk (Relay.map f).xfer () s.tr = true ∧ recvData 0 s.tr = (sentData 0 s.tr).map f :=
  RelayFun.map_spec f

theorem C07_filter {α : Type} [DecidableEq α] (p : α → Bool) :
    ∀ s, SReach (Relay.machine (Relay.filter p)) s → EnvTurn s →
      relayOk (Relay.filter p).xfer () s.tr = true ∧ recvData 0 s.tr = (sentData 0 s.tr).filter p :=
  RelayFun.filter_spec p

theorem C07_scan {α β : Type} [DecidableEq β] (r : β → α → β) (seed : β) :
    ∀ s, SReach (Relay.machine (Relay.scan r seed)) s → EnvTurn s →
      relayOk (Relay.scan r seed).xfer seed s.tr = true ∧ recvData 0 s.tr = scanF r seed (sentData 0 s.tr) :=
  RelayFun.scan_spec r seed

theorem C07_skip {α : Type} [DecidableEq α] (n : Nat) :
    ∀ s, SReach (Relay.machine (Relay.skip (α := α) n)) s → EnvTurn s →
      relayOk (Relay.skip (α := α) n).xfer 0 s.tr = true ∧ recvData 0 s.tr = (sentData 0 s.tr).drop n :=
  RelayFun.skip_spec n

theorem C07_take {α : Type} [DecidableEq α] (max : Nat) :
    ∀ s, SReach (Take.machine α max) s → EnvTurn s → takeOk max s.tr = true :=
  TakeFun.take_spec max

/-! ## pipelines: `pipe!(source, op₁, op₂)` of two relays

`compose M₁ M₂` (Ops/Compose.lean) is the pipeline as ONE machine (validated against the crate by `./check`, chain instances);
`Fuse.compose_relay_refines`: at its boundary it is a reachable configuration of the single relay with the fused transfer function
(same trace, same monitor state).  Hence the incremental-list-function statement holds of two-stage pipelines with the composed
function, and, since the fused kind is again a relay kind, of chains of any length by iteration. -/

theorem C07_pipe_of_two_relays {σ₁ σ₂ α β γ : Type} [DecidableEq γ] (k₁ : Relay.Kind σ₁ α β) (k₂ : Relay.Kind σ₂ β γ)
    (h₁ : k₁.slotted = false → ∀ s a, (k₁.xfer s a).2 ≠ none) (h₂ : k₂.slotted = false → ∀ s b, (k₂.xfer s b).2 ≠ none) :
    ∀ s, SReach (compose (Relay.machine k₁) (Relay.machine k₂)) s → EnvTurn s →
      relayOk (Fuse.fuse k₁ k₂).xfer (k₁.seed, k₂.seed) s.tr = true := by
  intro s hs ht
  obtain ⟨s', hr, ht', htr, _⟩ := Fuse.compose_relay_refines k₁ k₂ h₁ h₂ s hs ht
  rw [← htr]
  exact RelayFun.relay_spec (Fuse.fuse k₁ k₂) (Fuse.fuse_side k₁ k₂ h₁ h₂) s' hr ht'

/-- worked instance: `pipe!(source, map(f), filter(p))` delivers `(xs.map f).filter p` -/
theorem C07_pipe_map_filter {α β : Type} (f : α → β) (p : β → Bool) :
    ∀ s, SReach (compose (Relay.machine (Relay.map f)) (Relay.machine (Relay.filter p))) s → EnvTurn s →
      recvData 0 s.tr = ((sentData 0 s.tr).map f).filter p := by
  intro s hs ht
  have h₁ : (Relay.map f).slotted = false → ∀ s a, ((Relay.map f).xfer s a).2 ≠ none := fun _ _ _ => by simp [Relay.map]
  have h₂ : (Relay.filter p).slotted = false → ∀ s b, ((Relay.filter p).xfer s b).2 ≠ none := fun h => by simp [Relay.filter] at h
  obtain ⟨s', hr, ht', htr, _⟩ := Fuse.compose_relay_refines _ _ h₁ h₂ s hs ht
  rw [← htr, RelayFun.relay_io _ (Fuse.fuse_side _ _ h₁ h₂) s' hr ht']
  generalize sentData 0 s'.tr = xs
  have : ∀ (st : Unit × Unit), xferOut (Fuse.fuse (Relay.map f) (Relay.filter p)).xfer st xs = (xs.map f).filter p := by
    induction xs with
    | nil => intro st; rfl
    | cons a t ih =>
      intro st
      have := ih ((), ())
      simp only [xferOut, Fuse.fuse, Relay.map, Relay.filter, List.map_cons, List.filter_cons] at this ⊢
      by_cases hp : p (f a) = true <;> simp [hp, this]
  exact this _

/-! ## pipelines of ANY length: the list function of a pipeline is the composition of the list functions of its stages

`Inv/ComposeFun.lean` strengthens the assume–guarantee projection of `Inv/ComposeSafe.lean` with the TRACES: every reachable
configuration of `compose M₁ M₂` projects onto reachable configurations of `M₁` and `M₂` whose sink-side / source-side events are the
pipeline's, and whose events on the internal interface mirror each other; at the pipeline's environment turns both components are at
environment turns of their own.  `Stage M F`: `M` is pipeable and at every environment turn `recvData 0 tr = F (sentData 0 tr)`. -/

theorem C07_pipeline {S1 L1 S2 L2 α β γ : Type} {M1 : Machine S1 L1 α β} {M2 : Machine S2 L2 β γ}
    {F1 : List α → List β} {F2 : List β → List γ} (h1 : Stage M1 F1) (h2 : Stage M2 F2) :
    (∀ s, SReach (compose M1 M2) s → BasicSafe s) ∧
    (∀ s, SReach (compose M1 M2) s → EnvTurn s → recvData 0 s.tr = (F2 ∘ F1) (sentData 0 s.tr)) :=
  (h1.compose h2).spec

/-- the stages: map, filter, scan, skip, take (and every composition of stages, by `Stage.compose`) -/
theorem C07_stages {α β : Type} (f : α → β) (p : α → Bool) (r : β → α → β) (seed : β) (n : Nat) :
    Stage (Relay.machine (Relay.map f)) (List.map f) ∧ Stage (Relay.machine (Relay.filter p)) (List.filter p) ∧
    Stage (Relay.machine (Relay.scan r seed)) (scanF r seed) ∧ Stage (Relay.machine (Relay.skip (α := α) n)) (List.drop n) ∧
    Stage (Take.machine α n) (List.take n) :=
  ⟨Relay.map_stage f, Relay.filter_stage p, Relay.scan_stage r seed, Relay.skip_stage n, Take.stage n⟩

/-- worked instance, three stages -/
theorem C07_pipe_map_filter_take {α β : Type} (f : α → β) (p : β → Bool) (n : Nat) :
    ∀ s, SReach (compose (compose (Relay.machine (Relay.map f)) (Relay.machine (Relay.filter p))) (Take.machine β n)) s →
      EnvTurn s → recvData 0 s.tr = (((sentData 0 s.tr).map f).filter p).take n :=
  (map_filter_take f p n).2

end Cb.Thm
