import CallbagModel.Par.Take
/-!
# C19 — take(n) never over-delivers, even when upstream deliveries race

`PReach M s0 s` (Par.lean): `s` is reachable from `s0` by ANY sequence of single micro-steps of ANY threads (`pstep`) — every
schedule, any length; one micro-step = one shared-state access, or the begin / end of a call to the passive environment.
`Take.start ths`: sink and source greeted, nothing taken; `Take.DataOnly ths`: every thread only delivers `Data` from upstream 0
(any number of threads, any number of items each). A thread checks, in a step of its own, whether upstream has been disposed
before each delivery (`pstep`, start step), as a conformant source does.
-/
namespace Cb.Thm
open Cb.Take

/-- For every `max`, every number of threads, all scripts and every schedule: at most `max` data reach the sink, upstream and
sink are terminated at most once, nothing panics, and the sink is completed only once all `max` slots have been claimed. -/
theorem C19_take_all_schedules {α : Type} (max : Nat) (ths : List (Thread (Loc α) α α)) (h : DataOnly ths) :
    ∀ s, PReach (machine α max) (start ths) s →
      s.obs.datas.length ≤ max ∧ s.obs.upTerms ≤ 1 ∧ s.obs.terms ≤ 1 ∧ s.obs.errs = 0 ∧ s.obs.panics = 0 ∧
      (s.obs.terms = 1 → s.st.taken = max) :=
  take_par_safe max ths h

/-- … exactly once each: when no thread can move any more and `max ≥ 1` items were delivered, upstream and sink have each been
terminated exactly once. -/
theorem C19_take_exactly_once {α : Type} (max : Nat) (hmax : 0 < max) (ths : List (Thread (Loc α) α α)) (h : DataOnly ths) :
    ∀ s, PReach (machine α max) (start ths) s → (∀ t, pstep (machine α max) s t = none) →
      s.obs.datas.length = max → s.obs.upTerms = 1 ∧ s.obs.terms = 1 :=
  take_par_complete max hmax ths h

/-- The code before fix 6a5bc56 (`load`, then `fetch_add`) violates the property: `take(1)` delivers 2 items. -/
theorem C19_legacy_counterexample :
    ∃ s, PReach (machine Nat 1 false) (start [⟨[.srcDown 0 (.data 1)], none⟩, ⟨[.srcDown 0 (.data 2)], none⟩]) s ∧ s.obs.datas.length = 2 :=
  take_par_legacy_overdelivers

/-- non-vacuity: the hypotheses are satisfiable by a non-trivial configuration, and the bound is attained -/
example : DataOnly (α := Nat) [⟨[.srcDown 0 (.data 1), .srcDown 0 (.data 2)], none⟩, ⟨[.srcDown 0 (.data 3)], none⟩] := by
  intro th hth
  simp only [List.mem_cons, List.not_mem_nil, or_false] at hth
  rcases hth with rfl | rfl <;> simp

end Cb.Thm
