import CallbagModel.Inv.XViols
import CallbagModel.Inv.Combine
import CallbagModel.Inv.ComposeInst
import CallbagModel.Inv.ComposeSafe
import CallbagModel.Inv.Concat
import CallbagModel.Inv.FlatPlugSafe
import CallbagModel.Inv.Flatten
import CallbagModel.Inv.ForEach
import CallbagModel.Inv.FromIter
import CallbagModel.Inv.Fuse
import CallbagModel.Inv.LateMember
import CallbagModel.Inv.Merge
import CallbagModel.Inv.MonSound
import CallbagModel.Inv.PlugOpSafe
import CallbagModel.Inv.PlugSafe
import CallbagModel.Inv.Readable
import CallbagModel.Inv.Relay
import CallbagModel.Inv.Share
import CallbagModel.Inv.ShareCS
import CallbagModel.Inv.ShareWeak
import CallbagModel.Inv.Take
/-!
# C01 — greet first, greet once: property theorems (statements only; the invariants are in `Inv/`)

`SafeFor 1 s`: the monitor (`Core.lean`, `Ph.onOut` / `G.onOut` / `G.onRetO`) has recorded no violation belonging to C01 in
configuration `s`.
`SReach M s`: `s` is reachable from the initial configuration of `M` by operator micro-steps and moves of a conformant
environment (`legalIn`/`legalRet`, DESIGN §1.2) — every history, every nesting depth, every data value, every closure.
Theorems whose name ends in `_partial` carry an explicit extra hypothesis or a weaker conclusion; the reason is stated
beside them and in DESIGN.md §5 (known findings).
-/
namespace Cb.Thm

theorem C01_map {α β : Type} (f : α → β) :
    ∀ s, SReach (Relay.machine (Relay.map f)) s → SafeFor 1 s :=
  fun s hs => safeFor_of_basicSafe _ s hs (Relay.map_basicSafe f s hs) 1 (by decide)

theorem C01_filter {α : Type} (p : α → Bool) :
    ∀ s, SReach (Relay.machine (Relay.filter p)) s → SafeFor 1 s :=
  fun s hs => safeFor_of_basicSafe _ s hs (Relay.filter_basicSafe p s hs) 1 (by decide)

theorem C01_scan {α β : Type} (r : β → α → β) (seed : β) :
    ∀ s, SReach (Relay.machine (Relay.scan r seed)) s → SafeFor 1 s :=
  fun s hs => safeFor_of_basicSafe _ s hs (Relay.scan_basicSafe r seed s hs) 1 (by decide)

theorem C01_skip {α : Type} (n : Nat) :
    ∀ s, SReach (Relay.machine (Relay.skip (α := α) n)) s → SafeFor 1 s :=
  fun s hs => safeFor_of_basicSafe _ s hs (Relay.skip_basicSafe n s hs) 1 (by decide)

theorem C01_take {α : Type} (max : Nat) :
    ∀ s, SReach (Take.machine α max) s → SafeFor 1 s :=
  fun s hs => safeFor_of_basicSafe _ s hs (Take.take_basicSafe max s hs) 1 (by decide)

theorem C01_from_iter {ι α α' : Type} (next : ι → Option (α × ι)) (it0 : ι) :
    ∀ s, SReach (FromIter.machine α' next it0) s → SafeFor 1 s :=
  fun s hs => safeFor_of_basicSafe _ s hs (FromIter.fromIter_basicSafe next it0 s hs) 1 (by decide)

theorem C01_for_each {α : Type} :
    ∀ s, SReach (ForEach.machine α) s → SafeFor 1 s :=
  fun s hs => safeFor_of_basicSafe _ s hs (ForEach.forEach_basicSafe s hs) 1 (by decide)

theorem C01_concat {α : Type} (n : Nat) (hn : 0 < n) :
    ∀ s, SReach (Concat.machine α n) s → SafeFor 1 s :=
  fun s hs => safeFor_of_basicSafe _ s hs (Concat.concat_basicSafe n hn s hs) 1 (by decide)

theorem C01_merge {α : Type} (n : Nat) :
    ∀ s, SReach (Merge.machine α n) s → SafeFor 1 s :=
  fun s hs => safeFor_of_basicSafe _ s hs (Merge.merge_basicSafe n s hs) 1 (by decide)

theorem C01_flatten {α : Type} :
    ∀ s, SReach (Flatten.machine α) s → SafeFor 1 s :=
  fun s hs => safeFor_of_basicSafe _ s hs (Flatten.flatten_basicSafe s hs) 1 (by decide)

theorem C01_pipe_of_two_relays {σ₁ σ₂ α β γ : Type} (k₁ : Relay.Kind σ₁ α β) (k₂ : Relay.Kind σ₂ β γ)
    (h₁ : k₁.slotted = false → ∀ s a, (k₁.xfer s a).2 ≠ none) (h₂ : k₂.slotted = false → ∀ s b, (k₂.xfer s b).2 ≠ none) :
    ∀ s, SReach (compose (Relay.machine k₁) (Relay.machine k₂)) s → SafeFor 1 s :=
  fun s hs => safeFor_of_basicSafe _ s hs (Fuse.compose_relay_basicSafe k₁ k₂ h₁ h₂ s hs) 1 (by decide)

theorem C01_pipeline {S1 L1 S2 L2 α β γ : Type} {M1 : Machine S1 L1 α β} {M2 : Machine S2 L2 β γ} (P1 : Pipeable M1) (P2 : Pipeable M2) :
    ∀ s, SReach (compose M1 M2) s → SafeFor 1 s :=
  fun s hs => safeFor_of_basicSafe _ s hs ((P1.compose P2).safe s hs) 1 (by decide)

theorem C01_closed_pipeline {S1 L1 S2 L2 α β γ : Type} {Msrc : Machine S1 L1 α β} {Mmid : Machine S2 L2 β γ} (hsrc : UpSide Msrc) (hmid : Pipeable Mmid) :
    ∀ s, SReach (compose (compose Msrc Mmid) (ForEach.machine γ)) s → SafeFor 1 s :=
  fun s hs => safeFor_of_basicSafe _ s hs (closed_pipeline_safe hsrc hmid s hs) 1 (by decide)

theorem C01_plugged {S1 L1 S2 L2 α β γ : Type} {M1 : Machine S1 L1 α β} {M2 : Machine S2 L2 β γ} (H : PlugSafe.HypP M1 M2) (j : Nat) :
    ∀ s, SReach (plug j M1 M2) s → SafeFor 1 s :=
  fun s hs => safeFor_of_basicSafe _ s hs (PlugSafe.plug_basicSafe H j s hs) 1 (by decide)

theorem C01_flatten_network {So Lo Si Li αo αi : Type} {Mo : Machine So Lo αo Int} {Mi : Machine Si Li αi Int} {initOf : Int → Si}
    (H : FlatPlugSafe.HypF Mo Mi initOf) :
    ∀ s, SReach (flatPlug Mo Mi initOf) s → SafeFor 1 s :=
  fun s hs => safeFor_of_basicSafe _ s hs (FlatPlugSafe.flatPlug_basicSafe H s hs) 1 (by decide)

theorem C01_member_of_concat {S1 L1 β : Type} {M1 : Machine S1 L1 β β} (h1 : Pipeable M1) (n : Nat) (hn : 0 < n) (j : Nat) :
    ∀ s, SReach (plugOp j M1 (Concat.machine β n)) s → SafeFor 1 s :=
  fun s hs => safeFor_of_basicSafe _ s hs (PlugOpSafe.plugOp_concat_basicSafe h1 n hn j s hs) 1 (by decide)

theorem C01_take_member_of_merge {α : Type} (max n j : Nat) :
    ∀ s, SReach (plugOp j (Take.machine α max) (Merge.machine α n true)) s → SafeFor 1 s :=
  fun s hs => safeFor_of_basicSafe _ s hs (LateMember.plugOp_take_merge_basicSafe max n j s hs) 1 (by decide)

theorem C01_relay_member_of_merge {σ α : Type} (kd : Relay.Kind σ α α) (hk : kd.slotted = false → ∀ s a, (kd.xfer s a).2 ≠ none) (n j : Nat) :
    ∀ s, SReach (plugOp j (Relay.machine kd) (Merge.machine α n true)) s → SafeFor 1 s :=
  fun s hs => safeFor_of_basicSafe _ s hs (LateMember.plugOp_relay_merge_basicSafe kd hk n j s hs) 1 (by decide)


/-- `share`, EVERY conformant environment (nested fan-out included): the only phase-level violations share can commit are deliveries
to sinks that are already done (C02/C03, known findings KF5a/KF5b), hence C01 holds in full. -/
theorem C01_share {α : Type} :
    ∀ s, SReach (Share.machine α) s → SafeFor 1 s :=
  fun s hs => safeFor_of_onlyLateDelivery _ s hs (ShareWeak.share_safe_weak s hs).1 (ShareWeak.share_safe_weak s hs).2 1 (by decide)

/-- `share` under the WIDER cross-sink environment (`SemCS.lean`: while share is delivering to one sink any live sink may pull or dispose —
`merge!(s, s)` over a shared `s`): its only deviations are late deliveries (C02/C03: KF5a–KF5c) and a Pull forwarded to an upstream
that has just ended (C04: KF5d); hence C01 holds on those histories too (`Inv/ShareCS.lean`). -/
theorem C01_share_cross_sink {α : Type} :
    ∀ s, CSReach (Share.machine α) s → SafeFor 1 s := by
  intro s hs
  obtain ⟨hv, hx, hp⟩ := ShareCS.share_safe_cs s hs
  refine ⟨?_, fun _ => hp⟩
  intro v hm
  unfold G.viols at hm
  rw [hx, List.nil_append] at hm
  rcases hv v hm with ⟨k, rfl⟩ | ⟨k, rfl⟩ | ⟨i, rfl⟩ <;> simp [Viol.prop]
/-- `combine!`: the full phase-level safety statement is false (known findings KF2, KF3: messages to members that are not
live, a C04 matter); what is proved is that those are the ONLY phase-level violations, hence C01 holds in full. -/
theorem C01_combine {α : Type} (n : Nat) :
    ∀ s, SReach (Combine.machine α n) s → SafeFor 1 s :=
  fun s hs => safeFor_of_onlyUpNotLive _ s hs (Combine.combine_safe_partial n s hs).1 (Combine.combine_safe_partial n s hs).2 1 (by decide)

/-- `share`: proved for environments in which the source does not deliver from inside one of share's own deliveries
(`noNestedFanout`, the restriction C12 makes in its own quantifier). Without it C02 and C03 are false for 2+ sinks (known
findings KF5a, KF5b; see `Thm/Counterexamples.lean`). -/
theorem C01_share_partial {α : Type} :
    ∀ s, SReachR (Share.machine α) noNestedFanout s → SafeFor 1 s :=
  fun s hs => safeFor_of_basicSafe _ s hs.weaken (Share.share_basicSafe_partial s hs) 1 (by decide)

end Cb.Thm
