import CallbagModel.Inv.XViols
import CallbagModel.Inv.Combine
import CallbagModel.Inv.ComposeInst
import CallbagModel.Inv.ConcatFull
import CallbagModel.Inv.FlattenFull
import CallbagModel.Inv.ForEachFull
import CallbagModel.Inv.FromIterFull
import CallbagModel.Inv.MergeFull
import CallbagModel.Inv.RelayFull
import CallbagModel.Inv.ShareFull
import CallbagModel.Inv.ShareWeak
import CallbagModel.Inv.TakeFull
/-!
# C05 — errors are not lost: property theorems (statements only; the invariants are in `Inv/*Full.lean`)

`SafeFor 5 s`: no violation of C05 has been recorded: whenever an upstream delivered `Error(e)` while some sink was live, every such sink had
received exactly `Error(e)` (and no other terminal) and no upstream was live any more when the handler of that error returned.
`SReach M s`: `s` is reachable from the initial configuration of `M` by operator micro-steps and moves of a conformant
environment (`legalIn`/`legalRet`, DESIGN §1.2) — every history, every nesting depth, every data value, every closure.
-/
namespace Cb.Thm

theorem C05_map {α β : Type} (f : α → β) :
    ∀ s, SReach (Relay.machine (Relay.map f)) s → SafeFor 5 s :=
  fun s hs => (RelayFull.map_safe f s hs).safeFor 5

theorem C05_filter {α : Type} (p : α → Bool) :
    ∀ s, SReach (Relay.machine (Relay.filter p)) s → SafeFor 5 s :=
  fun s hs => (RelayFull.filter_safe p s hs).safeFor 5

theorem C05_scan {α β : Type} (r : β → α → β) (seed : β) :
    ∀ s, SReach (Relay.machine (Relay.scan r seed)) s → SafeFor 5 s :=
  fun s hs => (RelayFull.scan_safe r seed s hs).safeFor 5

theorem C05_skip {α : Type} (n : Nat) :
    ∀ s, SReach (Relay.machine (Relay.skip (α := α) n)) s → SafeFor 5 s :=
  fun s hs => (RelayFull.skip_safe n s hs).safeFor 5

theorem C05_take {α : Type} (max : Nat) :
    ∀ s, SReach (Take.machine α max) s → SafeFor 5 s :=
  fun s hs => (TakeFull.take_safe max s hs).safeFor 5

theorem C05_from_iter {ι α α' : Type} (next : ι → Option (α × ι)) (it0 : ι) :
    ∀ s, SReach (FromIter.machine α' next it0) s → SafeFor 5 s :=
  fun s hs => (FromIterFull.fromIter_safe next it0 s hs).safeFor 5

theorem C05_for_each {α : Type} :
    ∀ s, SReach (ForEach.machine α) s → SafeFor 5 s :=
  fun s hs => (ForEachFull.forEach_safe s hs).safeFor 5

theorem C05_concat {α : Type} (n : Nat) (hn : 0 < n) :
    ∀ s, SReach (Concat.machine α n) s → SafeFor 5 s :=
  fun s hs => (ConcatFull.concat_safe n hn s hs).safeFor 5

theorem C05_flatten {α : Type} :
    ∀ s, SReach (Flatten.machine α) s → SafeFor 5 s :=
  fun s hs => (FlattenFull.flatten_safe s hs).safeFor 5

theorem C05_merge {α : Type} (n : Nat) :
    ∀ s, SReach (Merge.machine α n) s → SafeFor 5 s :=
  fun s hs => (MergeFull.merge_safe n s hs).safeFor 5

/-- `share`: proved for environments in which the source does not deliver from inside one of share's own deliveries
(`noNestedFanout`, the restriction C12 makes in its own quantifier). -/
theorem C05_share_partial {α : Type} :
    ∀ s, SReachR (Share.machine α) noNestedFanout s → SafeFor 5 s :=
  fun s hs => (ShareFull.share_safe_partial s hs).safeFor 5
/- `combine!`: C05 is FALSE for this operator (known finding KF1: an upstream `Error` is counted as a completion; the sink never
receives it). There is no history class on which the property says anything and holds, hence no `_partial` theorem; the witness is
`C05_combine_counterexample` in `Thm/Counterexamples.lean`. -/

end Cb.Thm
