import CallbagModel.Inv.XViols
import CallbagModel.Inv.Combine
import CallbagModel.Inv.ComposeFull
import CallbagModel.Inv.ComposeInst
import CallbagModel.Inv.ConcatFull
import CallbagModel.Inv.FlatPlugSafe
import CallbagModel.Inv.FlattenFull
import CallbagModel.Inv.ForEachFull
import CallbagModel.Inv.FromIterFull
import CallbagModel.Inv.MergeFull
import CallbagModel.Inv.MonSound
import CallbagModel.Inv.RelayFull
import CallbagModel.Inv.ShareCS
import CallbagModel.Inv.ShareFull
import CallbagModel.Inv.ShareWeak
import CallbagModel.Inv.TakeFull
/-!
# C05 — errors are not lost: property theorems (statements only; the invariants are in `Inv/*Full.lean`)

`SafeFor 5 s`: no violation of C05 has been recorded: whenever an upstream delivered `Error(e)` while some sink was live, every such sink had
received exactly `Error(e)` (and no other terminal) and no upstream was live any more when the handler of that error returned.
`SReach M s`: `s` is reachable from the initial configuration of `M` by operator micro-steps and moves of a conformant
environment (`legalIn`/`legalRet`, DESIGN §1.2) — every history, every nesting depth, every data value, every closure.
-/
namespace Cb.Thm

theorem C05_map {α β : Type} (f : α → β) :
    ∀ s, SReach (Relay.machine (Relay.map f)) s → SafeFor 5 s :=
  fun s hs => (RelayFull.map_safe f s hs).safeFor 5

theorem C05_filter {α : Type} (p : α → Bool) :
    ∀ s, SReach (Relay.machine (Relay.filter p)) s → SafeFor 5 s :=
  fun s hs => (RelayFull.filter_safe p s hs).safeFor 5

theorem C05_scan {α β : Type} (r : β → α → β) (seed : β) :
    ∀ s, SReach (Relay.machine (Relay.scan r seed)) s → SafeFor 5 s :=
  fun s hs => (RelayFull.scan_safe r seed s hs).safeFor 5

theorem C05_skip {α : Type} (n : Nat) :
    ∀ s, SReach (Relay.machine (Relay.skip (α := α) n)) s → SafeFor 5 s :=
  fun s hs => (RelayFull.skip_safe n s hs).safeFor 5

theorem C05_take {α : Type} (max : Nat) :
    ∀ s, SReach (Take.machine α max) s → SafeFor 5 s :=
  fun s hs => (TakeFull.take_safe max s hs).safeFor 5

theorem C05_from_iter {ι α α' : Type} (next : ι → Option (α × ι)) (it0 : ι) :
    ∀ s, SReach (FromIter.machine α' next it0) s → SafeFor 5 s :=
  fun s hs => (FromIterFull.fromIter_safe next it0 s hs).safeFor 5

theorem C05_for_each {α : Type} :
    ∀ s, SReach (ForEach.machine α) s → SafeFor 5 s :=
  fun s hs => (ForEachFull.forEach_safe s hs).safeFor 5

theorem C05_concat {α : Type} (n : Nat) (hn : 0 < n) :
    ∀ s, SReach (Concat.machine α n) s → SafeFor 5 s :=
  fun s hs => (ConcatFull.concat_safe n hn s hs).safeFor 5

theorem C05_flatten {α : Type} :
    ∀ s, SReach (Flatten.machine α) s → SafeFor 5 s :=
  fun s hs => (FlattenFull.flatten_safe s hs).safeFor 5

theorem C05_merge {α : Type} (n : Nat) :
    ∀ s, SReach (Merge.machine α n) s → SafeFor 5 s :=
  fun s hs => (MergeFull.merge_safe n s hs).safeFor 5

/-- `share`: proved for environments in which the source does not deliver from inside one of share's own deliveries
(`noNestedFanout`, the restriction C12 makes in its own quantifier). -/
theorem C05_share_partial {α : Type} :
    ∀ s, SReachR (Share.machine α) noNestedFanout s → SafeFor 5 s :=
  fun s hs => (ShareFull.share_safe_partial s hs).safeFor 5
/-- pipelines `pipe!(source, op₁, …, opₙ)` of map / filter / scan / skip / take of ANY length, as operators against every conformant
upstream and sink — C05 in FULL (both monitor layers).  `FullStage` (Inv/ComposeFull.lean): pipeable, one upstream and one sink, no
orphan at top level, and DIRECT error paths (an `Error` arriving at either end is passed on by the handler that receives it, with
nothing in between); closed under `compose`.  A general "Safe M₁ → Safe M₂ → Safe (compose M₁ M₂)" is FALSE (two executions at the
end of Inv/ComposeFull.lean: a stage that delivers one more datum before relaying an upstream Error, over a `take` that completes on
it; a stage that pulls before relaying its sink's Error, under a `take` that completes on the answer). -/
theorem C05_pipeline {S1 L1 S2 L2 α β γ : Type} {M1 : Machine S1 L1 α β} {M2 : Machine S2 L2 β γ}
    (h1 : ComposeFull.FullStage M1) (h2 : ComposeFull.FullStage M2) : ∀ s, SReach (compose M1 M2) s → SafeFor 5 s :=
  fun s hs => (ComposeFull.compose_safe h1 h2 s hs).1.safeFor 5

/-- the stages (and every composition of stages: `FullStage.compose`) -/
theorem C05_full_stages {σ α β : Type} (k : Relay.Kind σ α β) (hk : k.slotted = false → ∀ s a, (k.xfer s a).2 ≠ none) (max : Nat) :
    ComposeFull.FullStage (Relay.machine k) ∧ ComposeFull.FullStage (Take.machine α max) :=
  ⟨ComposeFull.Relay.fullStage k hk, ComposeFull.Take.fullStage max⟩

/-- closed pipelines `pipe!(head, stages…, for_each(f))`, head = from_iter / concat! / flatten: C05 in full -/
theorem C05_closed_pipeline {S1 L1 S2 L2 α β γ : Type} {Msrc : Machine S1 L1 α β} {Mmid : Machine S2 L2 β γ}
    (hsrc : UpSide Msrc) (hmid : Pipeable Mmid) :
    ∀ s, SReach (compose (compose Msrc Mmid) (ForEach.machine γ)) s → SafeFor 5 s :=
  fun s hs => (ComposeFull.closed_pipeline_full hsrc hmid s hs).1.safeFor 5

/-- `flatten(map(g)(outer))` as a network (`Ops/FlatPlug.lean`: the outer source and every dynamically created inner source are closed
head-capable sources), alone or heading a closed pipeline: C05 in full -/
theorem C05_flatten_network {So Lo Si Li αo αi : Type} {Mo : Machine So Lo αo Int} {Mi : Machine Si Li αi Int} {initOf : Int → Si}
    (H : FlatPlugSafe.HypF Mo Mi initOf) : ∀ s, SReach (flatPlug Mo Mi initOf) s → SafeFor 5 s :=
  fun s hs => (FlatPlugSafe.flatPlug_safe H s hs).1.safeFor 5

/-- `pipe!(from_iter(it), stages…)` as a source, against every conformant sink: C05 in full -/
theorem C05_fromIter_pipeline {ι α α' β S L : Type} (next : ι → Option (α × ι)) (it0 : ι) {Mmid : Machine S L α β}
    (hmid : Pipeable Mmid) : ∀ s, SReach (compose (FromIter.machine α' next it0) Mmid) s → SafeFor 5 s :=
  fun s hs => (ComposeFull.fromIter_pipeline_full next it0 hmid s hs).1.safeFor 5

/-- the oracle that judges traces recorded from the real crate IS the monitor of these theorems: on every model execution the
machine-free monitor `monRun` (Mon.lean), folded over the boundary trace alone, computes exactly the ghost carried by the configuration
(`Inv/MonSound.lean`: `monRun_sound`), so `SafeFor 5` can be read off the trace -/
theorem C05_oracle_is_the_monitor {St Loc α β : Type} (M : Machine St Loc α β) :
    ∀ s, SReach M s →
      (SafeFor 5 s ↔ (∀ v ∈ (monRun M.shape s.tr.reverse).g.viols, v.prop ≠ 5) ∧
        (5 = 17 → (monRun M.shape s.tr.reverse).panicked = false)) :=
  safeFor_iff_monRun M 5

/-- `share` under the wider cross-sink environment: C05 holds — every sink that is still attached receives the upstream's Error
(`Inv/ShareCS.lean`) -/
theorem C05_share_cross_sink {α : Type} : ∀ s, CSReach (Share.machine α) s → SafeFor 5 s := by
  intro s hs
  obtain ⟨hv, hx, hp⟩ := ShareCS.share_safe_cs s hs
  refine ⟨?_, fun h => absurd h (by decide)⟩
  intro v hm
  unfold G.viols at hm
  rw [hx, List.nil_append] at hm
  rcases hv v hm with ⟨k, rfl⟩ | ⟨k, rfl⟩ | ⟨i, rfl⟩ <;> simp [Viol.prop]

/- `combine!`: C05 is FALSE for this operator (known finding KF1: an upstream `Error` is counted as a completion; the sink never
receives it). There is no history class on which the property says anything and holds, hence no `_partial` theorem; the witness is
`C05_combine_counterexample` in `Thm/Counterexamples.lean`. -/

end Cb.Thm
