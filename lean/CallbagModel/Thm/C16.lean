import CallbagModel.Inv.Interval
/-!
# C16 — interval: 0,1,2,… one per period per subscription, silent after disposal

The model (`Ops/Interval.lean`) has one nursed task per subscription and the sink's thread; one event is one shared-state access
or one call, so a disposal may fall between the task's check of `interval_cleared` and its emission. `run s es` executes any
sequence of environment events (subscriptions with the nursery's answer, timer expiries in any order across subscriptions,
the task's micro-steps, disposals): every number of subscriptions, every order, no bound.
What the model cannot exhibit (and the theorems therefore do not cover): real executors and timers — that `sleep(period)`
completes once per period, thread hand-off latencies, and an executor that polls the task before the subscribing call has
greeted the sink (observation O1 in DESIGN.md).
-/
namespace Cb.Thm
open Cb.Interval

/-- every subscription receives exactly 0, 1, …, k-1 -/
theorem C16_counts_from_zero (es : List Ev) (j : Nat) : ∃ k, dataOf j (run [] es).2 = List.range k :=
  data_is_range es j

/-- … one number per processed expiry -/
theorem C16_one_per_expiry (es : List Ev) (j : Nat) :
    (dataOf j (run [] es).2).length + (match (getSub (run [] es).1 j).pc with | .emitting _ => 1 | _ => 0) = (getSub (run [] es).1 j).i :=
  data_count es j

/-- … independently of every other subscription -/
theorem C16_independent (es : List Ev) (j : Nat) :
    dataOf j (run [] es).2 = dataOf j (run [] (es.filter (about j))).2 :=
  independent es j

/-- nothing is received from the first tick at which the disposal is visible -/
theorem C16_silent_after_disposal_visible (s : State) (es : List Ev) (j : Nat) (h : (getSub s j).pc = .exited) :
    dataOf j (run s es).2 = [] ∧ (getSub (run s es).1 j).pc = .exited :=
  silent_after_exit s es j h

/-- … and from the moment the disposal is requested, at most the one emission already past its check can still arrive -/
theorem C16_at_most_one_in_flight (es0 es : List Ev) (j : Nat) (h : (getSub (run [] es0).1 j).cleared = true) :
    (dataOf j (run (run [] es0).1 es).2).length ≤ (match (getSub (run [] es0).1 j).pc with | .checked => 1 | .emitting _ => 1 | _ => 0) :=
  at_most_one_after_dispose_reachable es0 es j h

/-- if the task cannot be spawned, the sink receives exactly one Error and nothing else, ever -/
theorem C16_spawn_failure (s : State) (es : List Ev) (j : Nat) (r : SpawnRes) (hr : r ≠ .ok) (h : (getSub s j).pc = .none) :
    obsOf j (run s (.subscribe j r :: es)).2 = [.error j r] :=
  spawn_failure s es j r hr h

/-- C01 for interval: greeted at most once and before any datum; the one sanctioned exception is the single Error -/
theorem C16_greet_first (es : List Ev) (j : Nat) :
    obsOf j (run [] es).2 = [] ∨ (∃ r, r ≠ SpawnRes.ok ∧ obsOf j (run [] es).2 = [.error j r]) ∨
    (∃ vs : List Nat, obsOf j (run [] es).2 = .greet j :: vs.map (Obs.data j)) :=
  greet_first es j

/-- non-vacuity: two subscriptions counting independently, one disposed between its check and its emission -/
example : dataOf 0 (run [] [.subscribe 0 .ok, .subscribe 1 .ok, .expire 0, .bump 0, .deliver 0, .expire 1, .expire 0, .dispose 0,
    .bump 0, .deliver 0, .expire 0, .bump 1, .deliver 1]).2 = [0, 1] := by decide

end Cb.Thm
