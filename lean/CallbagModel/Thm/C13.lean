import CallbagModel.Dual
import CallbagModel.Insts
/-!
# C13 — subscriptions are independent: every output is a reusable, cold source

`DReach M a b` (Dual.lean): `a` and `b` are the configurations of two subscriptions to the same operator value after ANY
interleaving of their steps. The theorems are generic in the machine: they hold for every operator model except `share`, which is
the exception the property makes and whose model keeps its state across subscriptions inside one configuration.
Because these theorems are true by the shape of the model (per-subscription state only), the tie to the code carries the weight:
`./check C13` runs two overlapping subscriptions of ONE operator value on the real crate, with interleaved and nested moves, and
compares each projection with the solo run — state hoisted out of the `Handshake` branch shows up as a difference.
-/
namespace Cb.Thm
variable {St Loc α β : Type}

theorem C13_independent (M : Machine St Loc α β) {a b : Sys St Loc α β} (h : DReach M a b) : SReach M a ∧ SReach M b :=
  dual_independent M h

theorem C13_every_pair_of_solo_runs_interleaves (M : Machine St Loc α β) {a b : Sys St Loc α β} (ha : SReach M a) (hb : SReach M b) :
    DReach M a b :=
  dual_complete M ha hb

theorem C13_properties_transfer (M : Machine St Loc α β) (P : Sys St Loc α β → Prop) (h : ∀ s, SReach M s → P s)
    {a b : Sys St Loc α β} (hd : DReach M a b) : P a ∧ P b :=
  dual_transfer M P h hd

/-- instantiation: e.g. two overlapping subscriptions to `take(max)(source)` each count on their own -/
example (max : Nat) {a b : Sys Take.St (Take.Loc Nat) Nat Nat} (h : DReach (Take.machine Nat max) a b) :
    SReach (Take.machine Nat max) a ∧ SReach (Take.machine Nat max) b := C13_independent _ h

end Cb.Thm
