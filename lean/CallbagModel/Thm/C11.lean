import CallbagModel.Fun.Flatten
/-!
# C11 — flatten: switch semantics, only the latest inner source speaks

`flattenOk tr` (Spec.lean): every outer datum is followed by the disposal of the previously active inner (if any) and the subscription
of the new one; a new inner is pulled once on greeting; every datum delivered to the sink is the datum just received from the ACTIVE
inner, and the sink's data are exactly the inners' data in arrival order; the output completes exactly when the outer completes with
no inner active, or the active inner completes after the outer has; a Pull goes to the active inner, else to the outer if alive.
(That a disposed inner sends nothing more is the conformance of the environment, S3; that it is disposed exactly once is C04.)
-/
namespace Cb.Thm

theorem C11_flatten {α : Type} [DecidableEq α] :
    ∀ s, SReach (Flatten.machine α) s → EnvTurn s → flattenOk s.tr = true :=
  FlattenFun.flatten_spec

end Cb.Thm
