import CallbagModel.Fun.Concat
/-!
# C09 — concat!: members run strictly one after another, demand carried across

`concatOk n tr` (Spec.lean): members are subscribed in order 0, 1, 2, …, each once; member `k+1` is subscribed only from the
handling of member `k`'s `Terminate` (so after an `Error` or a disposal no later member is ever subscribed: a disposed member sends
no `Terminate`); the sink receives all data in arrival order, which is member order; at member `k+1`'s greeting a `Pull` is re-issued
iff the sink has pulled before, otherwise nothing happens; the sink completes right after the last member's `Terminate`.
Every member count `n ≥ 1`, every member behaviour (pullable, listenable, empty, failing), every sink policy.
-/
namespace Cb.Thm

theorem C09_concat {α : Type} [DecidableEq α] (n : Nat) (hn : 0 < n) :
    ∀ s, SReach (Concat.machine α n) s → EnvTurn s → concatOk n s.tr = true :=
  ConcatFun.concat_spec n hn

end Cb.Thm
