import CallbagModel.Fun.Merge
/-!
# C08 — merge!: arrival-order union of all members, complete when all are

`mergeOk n tr` (Spec.lean) is the executable specification: every datum of every member is relayed exactly once, in arrival order,
inside the delivery that caused it; the sink is greeted inside the first member greeting; a member greeting after the output is
over is disposed at once; the sink's `Terminate` comes right after the `Terminate` of the member at which all `n` members have
completed, and then at once.  Every member count, late greeters allowed, every conformant re-entrant environment.
The forwarding of a sink `Pull` to exactly the live members is the `upNotLive`-freedom of C04 (`Thm/C04.lean`, `C04_merge`) together
with the loop lemma `Merge.uLoop_scan` (Inv/Merge.lean): from the loop head the operator calls the first remaining member whose slot
is set, and `slot j ↔ member j is live` while the output is open.
-/
namespace Cb.Thm

theorem C08_merge {α : Type} [DecidableEq α] (n : Nat) :
    ∀ s, SReach (Merge.machine α n true true) s → EnvTurn s → mergeOk n s.tr = true :=
  MergeFun.merge_spec n

end Cb.Thm
