import CallbagModel.Fun.Combine
/-!
# C10 — combine!: every tuple holds each member's latest value, none before all have one

`combineOk n tr` (Spec.lean): the tuples the sink has received are exactly `combineRef` of the arrivals so far — nothing until every
member has produced, then one tuple per member datum holding that datum and the latest value of every other member, in member order —
each emitted inside the delivery that caused it; the sink is greeted right after the greeting that completes the set of greeted
members; it is completed exactly once, right after the end that completes the set of ended members (errors count as ends here: that
deviation is judged under C05, known finding KF1).  EVERY arity `n` (the crate instantiates 1–12 from one macro body; the
correspondence exercises 1, 2, 3), every interleaving of member events, every sink policy.
That every sink Pull reaches every member is `Combine.step`'s `uLoop` (no test on the members' state); that it also reaches ended
members is the C04 finding KF2.
-/
namespace Cb.Thm

theorem C10_combine {α : Type} [DecidableEq α] (n : Nat) :
    ∀ s, SReach (Combine.machine α n) s → EnvTurn s → combineOk n s.tr = true :=
  CombineFun.combine_spec n

end Cb.Thm
