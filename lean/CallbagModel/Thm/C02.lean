import CallbagModel.Inv.XViols
import CallbagModel.Inv.Combine
import CallbagModel.Inv.ComposeInst
import CallbagModel.Inv.ComposeSafe
import CallbagModel.Inv.Concat
import CallbagModel.Inv.FlatPlugSafe
import CallbagModel.Inv.Flatten
import CallbagModel.Inv.ForEach
import CallbagModel.Inv.FromIter
import CallbagModel.Inv.Fuse
import CallbagModel.Inv.LateMember
import CallbagModel.Inv.Merge
import CallbagModel.Inv.MonSound
import CallbagModel.Inv.PlugOpSafe
import CallbagModel.Inv.PlugSafe
import CallbagModel.Inv.Readable
import CallbagModel.Inv.Relay
import CallbagModel.Inv.Share
import CallbagModel.Inv.ShareCS
import CallbagModel.Inv.ShareWeak
import CallbagModel.Inv.Take
/-!
# C02 — termination is final: property theorems (statements only; the invariants are in `Inv/`)

`SafeFor 2 s`: the monitor (`Core.lean`, `Ph.onOut` / `G.onOut` / `G.onRetO`) has recorded no violation belonging to C02 in
configuration `s`.
`SReach M s`: `s` is reachable from the initial configuration of `M` by operator micro-steps and moves of a conformant
environment (`legalIn`/`legalRet`, DESIGN §1.2) — every history, every nesting depth, every data value, every closure.
Theorems whose name ends in `_partial` carry an explicit extra hypothesis or a weaker conclusion; the reason is stated
beside them and in DESIGN.md §5 (known findings).
-/
namespace Cb.Thm

theorem C02_map {α β : Type} (f : α → β) :
    ∀ s, SReach (Relay.machine (Relay.map f)) s → SafeFor 2 s :=
  fun s hs => safeFor_of_basicSafe _ s hs (Relay.map_basicSafe f s hs) 2 (by decide)

theorem C02_filter {α : Type} (p : α → Bool) :
    ∀ s, SReach (Relay.machine (Relay.filter p)) s → SafeFor 2 s :=
  fun s hs => safeFor_of_basicSafe _ s hs (Relay.filter_basicSafe p s hs) 2 (by decide)

theorem C02_scan {α β : Type} (r : β → α → β) (seed : β) :
    ∀ s, SReach (Relay.machine (Relay.scan r seed)) s → SafeFor 2 s :=
  fun s hs => safeFor_of_basicSafe _ s hs (Relay.scan_basicSafe r seed s hs) 2 (by decide)

theorem C02_skip {α : Type} (n : Nat) :
    ∀ s, SReach (Relay.machine (Relay.skip (α := α) n)) s → SafeFor 2 s :=
  fun s hs => safeFor_of_basicSafe _ s hs (Relay.skip_basicSafe n s hs) 2 (by decide)

theorem C02_take {α : Type} (max : Nat) :
    ∀ s, SReach (Take.machine α max) s → SafeFor 2 s :=
  fun s hs => safeFor_of_basicSafe _ s hs (Take.take_basicSafe max s hs) 2 (by decide)

theorem C02_from_iter {ι α α' : Type} (next : ι → Option (α × ι)) (it0 : ι) :
    ∀ s, SReach (FromIter.machine α' next it0) s → SafeFor 2 s :=
  fun s hs => safeFor_of_basicSafe _ s hs (FromIter.fromIter_basicSafe next it0 s hs) 2 (by decide)

theorem C02_for_each {α : Type} :
    ∀ s, SReach (ForEach.machine α) s → SafeFor 2 s :=
  fun s hs => safeFor_of_basicSafe _ s hs (ForEach.forEach_basicSafe s hs) 2 (by decide)

theorem C02_concat {α : Type} (n : Nat) (hn : 0 < n) :
    ∀ s, SReach (Concat.machine α n) s → SafeFor 2 s :=
  fun s hs => safeFor_of_basicSafe _ s hs (Concat.concat_basicSafe n hn s hs) 2 (by decide)

theorem C02_merge {α : Type} (n : Nat) :
    ∀ s, SReach (Merge.machine α n) s → SafeFor 2 s :=
  fun s hs => safeFor_of_basicSafe _ s hs (Merge.merge_basicSafe n s hs) 2 (by decide)

theorem C02_flatten {α : Type} :
    ∀ s, SReach (Flatten.machine α) s → SafeFor 2 s :=
  fun s hs => safeFor_of_basicSafe _ s hs (Flatten.flatten_basicSafe s hs) 2 (by decide)

theorem C02_pipe_of_two_relays {σ₁ σ₂ α β γ : Type} (k₁ : Relay.Kind σ₁ α β) (k₂ : Relay.Kind σ₂ β γ)
    (h₁ : k₁.slotted = false → ∀ s a, (k₁.xfer s a).2 ≠ none) (h₂ : k₂.slotted = false → ∀ s b, (k₂.xfer s b).2 ≠ none) :
    ∀ s, SReach (compose (Relay.machine k₁) (Relay.machine k₂)) s → SafeFor 2 s :=
  fun s hs => safeFor_of_basicSafe _ s hs (Fuse.compose_relay_basicSafe k₁ k₂ h₁ h₂ s hs) 2 (by decide)

theorem C02_pipeline {S1 L1 S2 L2 α β γ : Type} {M1 : Machine S1 L1 α β} {M2 : Machine S2 L2 β γ} (P1 : Pipeable M1) (P2 : Pipeable M2) :
    ∀ s, SReach (compose M1 M2) s → SafeFor 2 s :=
  fun s hs => safeFor_of_basicSafe _ s hs ((P1.compose P2).safe s hs) 2 (by decide)

theorem C02_closed_pipeline {S1 L1 S2 L2 α β γ : Type} {Msrc : Machine S1 L1 α β} {Mmid : Machine S2 L2 β γ} (hsrc : UpSide Msrc) (hmid : Pipeable Mmid) :
    ∀ s, SReach (compose (compose Msrc Mmid) (ForEach.machine γ)) s → SafeFor 2 s :=
  fun s hs => safeFor_of_basicSafe _ s hs (closed_pipeline_safe hsrc hmid s hs) 2 (by decide)

theorem C02_plugged {S1 L1 S2 L2 α β γ : Type} {M1 : Machine S1 L1 α β} {M2 : Machine S2 L2 β γ} (H : PlugSafe.HypP M1 M2) (j : Nat) :
    ∀ s, SReach (plug j M1 M2) s → SafeFor 2 s :=
  fun s hs => safeFor_of_basicSafe _ s hs (PlugSafe.plug_basicSafe H j s hs) 2 (by decide)

theorem C02_flatten_network {So Lo Si Li αo αi : Type} {Mo : Machine So Lo αo Int} {Mi : Machine Si Li αi Int} {initOf : Int → Si}
    (H : FlatPlugSafe.HypF Mo Mi initOf) :
    ∀ s, SReach (flatPlug Mo Mi initOf) s → SafeFor 2 s :=
  fun s hs => safeFor_of_basicSafe _ s hs (FlatPlugSafe.flatPlug_basicSafe H s hs) 2 (by decide)

theorem C02_member_of_concat {S1 L1 β : Type} {M1 : Machine S1 L1 β β} (h1 : Pipeable M1) (n : Nat) (hn : 0 < n) (j : Nat) :
    ∀ s, SReach (plugOp j M1 (Concat.machine β n)) s → SafeFor 2 s :=
  fun s hs => safeFor_of_basicSafe _ s hs (PlugOpSafe.plugOp_concat_basicSafe h1 n hn j s hs) 2 (by decide)

theorem C02_take_member_of_merge {α : Type} (max n j : Nat) :
    ∀ s, SReach (plugOp j (Take.machine α max) (Merge.machine α n true)) s → SafeFor 2 s :=
  fun s hs => safeFor_of_basicSafe _ s hs (LateMember.plugOp_take_merge_basicSafe max n j s hs) 2 (by decide)

theorem C02_relay_member_of_merge {σ α : Type} (kd : Relay.Kind σ α α) (hk : kd.slotted = false → ∀ s a, (kd.xfer s a).2 ≠ none) (n j : Nat) :
    ∀ s, SReach (plugOp j (Relay.machine kd) (Merge.machine α n true)) s → SafeFor 2 s :=
  fun s hs => safeFor_of_basicSafe _ s hs (LateMember.plugOp_relay_merge_basicSafe kd hk n j s hs) 2 (by decide)


/-! ## What the monitor verdict means, in terms of the trace alone

`SafeFor 2` is a statement about the ghost monitor. The theorem below reads it back as a statement about positions in the
boundary trace `s.tr` (newest first; `chronAt tr p` is the `p`-th event in chronological order) that does not mention the
monitor — for EVERY machine, so that the monitor itself is not part of what has to be believed. -/

/-- C02, readable form: after a terminal message to a sink nothing else is delivered to it. All three of C01, C02, C03 are needed: the monitor files a delivery under the property of the phase the sink is in (`Rd.terminalFinal_needs_C01`, `Rd.terminalFinal_needs_C03` are kernel-checked counterexamples with only one of them missing). -/
theorem C02_readable {St Loc α β : Type} (M : Machine St Loc α β) (s : Sys St Loc α β) (hs : SReach M s)
    (h1 : SafeFor 1 s) (h2 : SafeFor 2 s) (h3 : SafeFor 3 s) (k : Nat) : TerminalFinal k s.tr :=
  terminalFinal_of_clean hs (fun v hv => ⟨h1.1 v (by unfold G.viols; exact List.mem_append_right _ hv), h2.1 v (by unfold G.viols; exact List.mem_append_right _ hv), h3.1 v (by unfold G.viols; exact List.mem_append_right _ hv)⟩) k

theorem C02_map_readable {α β : Type} (f : α → β) :
    ∀ s, SReach (Relay.machine (Relay.map f)) s → ∀ k, TerminalFinal k s.tr :=
  fun s hs k => (readable_of_noViols hs (Relay.map_basicSafe f s hs).1 k).2.1

theorem C02_filter_readable {α : Type} (p : α → Bool) :
    ∀ s, SReach (Relay.machine (Relay.filter p)) s → ∀ k, TerminalFinal k s.tr :=
  fun s hs k => (readable_of_noViols hs (Relay.filter_basicSafe p s hs).1 k).2.1

theorem C02_scan_readable {α β : Type} (r : β → α → β) (seed : β) :
    ∀ s, SReach (Relay.machine (Relay.scan r seed)) s → ∀ k, TerminalFinal k s.tr :=
  fun s hs k => (readable_of_noViols hs (Relay.scan_basicSafe r seed s hs).1 k).2.1

theorem C02_skip_readable {α : Type} (n : Nat) :
    ∀ s, SReach (Relay.machine (Relay.skip (α := α) n)) s → ∀ k, TerminalFinal k s.tr :=
  fun s hs k => (readable_of_noViols hs (Relay.skip_basicSafe n s hs).1 k).2.1

theorem C02_take_readable {α : Type} (max : Nat) :
    ∀ s, SReach (Take.machine α max) s → ∀ k, TerminalFinal k s.tr :=
  fun s hs k => (readable_of_noViols hs (Take.take_basicSafe max s hs).1 k).2.1

theorem C02_from_iter_readable {ι α α' : Type} (next : ι → Option (α × ι)) (it0 : ι) :
    ∀ s, SReach (FromIter.machine α' next it0) s → ∀ k, TerminalFinal k s.tr :=
  fun s hs k => (readable_of_noViols hs (FromIter.fromIter_basicSafe next it0 s hs).1 k).2.1

theorem C02_for_each_readable {α : Type} :
    ∀ s, SReach (ForEach.machine α) s → ∀ k, TerminalFinal k s.tr :=
  fun s hs k => (readable_of_noViols hs (ForEach.forEach_basicSafe s hs).1 k).2.1

theorem C02_concat_readable {α : Type} (n : Nat) (hn : 0 < n) :
    ∀ s, SReach (Concat.machine α n) s → ∀ k, TerminalFinal k s.tr :=
  fun s hs k => (readable_of_noViols hs (Concat.concat_basicSafe n hn s hs).1 k).2.1

theorem C02_merge_readable {α : Type} (n : Nat) :
    ∀ s, SReach (Merge.machine α n) s → ∀ k, TerminalFinal k s.tr :=
  fun s hs k => (readable_of_noViols hs (Merge.merge_basicSafe n s hs).1 k).2.1

theorem C02_flatten_readable {α : Type} :
    ∀ s, SReach (Flatten.machine α) s → ∀ k, TerminalFinal k s.tr :=
  fun s hs k => (readable_of_noViols hs (Flatten.flatten_basicSafe s hs).1 k).2.1

theorem C02_pipe_of_two_relays_readable {σ₁ σ₂ α β γ : Type} (k₁ : Relay.Kind σ₁ α β) (k₂ : Relay.Kind σ₂ β γ)
    (h₁ : k₁.slotted = false → ∀ s a, (k₁.xfer s a).2 ≠ none) (h₂ : k₂.slotted = false → ∀ s b, (k₂.xfer s b).2 ≠ none) :
    ∀ s, SReach (compose (Relay.machine k₁) (Relay.machine k₂)) s → ∀ k, TerminalFinal k s.tr :=
  fun s hs k => (readable_of_noViols hs (Fuse.compose_relay_basicSafe k₁ k₂ h₁ h₂ s hs).1 k).2.1

theorem C02_pipeline_readable {S1 L1 S2 L2 α β γ : Type} {M1 : Machine S1 L1 α β} {M2 : Machine S2 L2 β γ} (P1 : Pipeable M1) (P2 : Pipeable M2) :
    ∀ s, SReach (compose M1 M2) s → ∀ k, TerminalFinal k s.tr :=
  fun s hs k => (readable_of_noViols hs ((P1.compose P2).safe s hs).1 k).2.1

theorem C02_closed_pipeline_readable {S1 L1 S2 L2 α β γ : Type} {Msrc : Machine S1 L1 α β} {Mmid : Machine S2 L2 β γ} (hsrc : UpSide Msrc) (hmid : Pipeable Mmid) :
    ∀ s, SReach (compose (compose Msrc Mmid) (ForEach.machine γ)) s → ∀ k, TerminalFinal k s.tr :=
  fun s hs k => (readable_of_noViols hs (closed_pipeline_safe hsrc hmid s hs).1 k).2.1

theorem C02_plugged_readable {S1 L1 S2 L2 α β γ : Type} {M1 : Machine S1 L1 α β} {M2 : Machine S2 L2 β γ} (H : PlugSafe.HypP M1 M2) (j : Nat) :
    ∀ s, SReach (plug j M1 M2) s → ∀ k, TerminalFinal k s.tr :=
  fun s hs k => (readable_of_noViols hs (PlugSafe.plug_basicSafe H j s hs).1 k).2.1

theorem C02_flatten_network_readable {So Lo Si Li αo αi : Type} {Mo : Machine So Lo αo Int} {Mi : Machine Si Li αi Int} {initOf : Int → Si}
    (H : FlatPlugSafe.HypF Mo Mi initOf) :
    ∀ s, SReach (flatPlug Mo Mi initOf) s → ∀ k, TerminalFinal k s.tr :=
  fun s hs k => (readable_of_noViols hs (FlatPlugSafe.flatPlug_basicSafe H s hs).1 k).2.1

theorem C02_member_of_concat_readable {S1 L1 β : Type} {M1 : Machine S1 L1 β β} (h1 : Pipeable M1) (n : Nat) (hn : 0 < n) (j : Nat) :
    ∀ s, SReach (plugOp j M1 (Concat.machine β n)) s → ∀ k, TerminalFinal k s.tr :=
  fun s hs k => (readable_of_noViols hs (PlugOpSafe.plugOp_concat_basicSafe h1 n hn j s hs).1 k).2.1

theorem C02_take_member_of_merge_readable {α : Type} (max n j : Nat) :
    ∀ s, SReach (plugOp j (Take.machine α max) (Merge.machine α n true)) s → ∀ k, TerminalFinal k s.tr :=
  fun s hs k => (readable_of_noViols hs (LateMember.plugOp_take_merge_basicSafe max n j s hs).1 k).2.1

theorem C02_relay_member_of_merge_readable {σ α : Type} (kd : Relay.Kind σ α α) (hk : kd.slotted = false → ∀ s a, (kd.xfer s a).2 ≠ none) (n j : Nat) :
    ∀ s, SReach (plugOp j (Relay.machine kd) (Merge.machine α n true)) s → ∀ k, TerminalFinal k s.tr :=
  fun s hs k => (readable_of_noViols hs (LateMember.plugOp_relay_merge_basicSafe kd hk n j s hs).1 k).2.1

/-- the oracle that judges traces recorded from the real crate IS the monitor of these theorems: on every model execution the
machine-free monitor `monRun` (Mon.lean), folded over the boundary trace alone, computes exactly the ghost carried by the configuration
(`Inv/MonSound.lean`: `monRun_sound`), so `SafeFor 2` can be read off the trace -/
theorem C02_oracle_is_the_monitor {St Loc α β : Type} (M : Machine St Loc α β) :
    ∀ s, SReach M s →
      (SafeFor 2 s ↔ (∀ v ∈ (monRun M.shape s.tr.reverse).g.viols, v.prop ≠ 2) ∧
        (2 = 17 → (monRun M.shape s.tr.reverse).panicked = false)) :=
  safeFor_iff_monRun M 2
/-- `combine!`: the full phase-level safety statement is false (known findings KF2, KF3: messages to members that are not
live, a C04 matter); what is proved is that those are the ONLY phase-level violations, hence C02 holds in full. -/
theorem C02_combine {α : Type} (n : Nat) :
    ∀ s, SReach (Combine.machine α n) s → SafeFor 2 s :=
  fun s hs => safeFor_of_onlyUpNotLive _ s hs (Combine.combine_safe_partial n s hs).1 (Combine.combine_safe_partial n s hs).2 2 (by decide)

/-- `share`: proved for environments in which the source does not deliver from inside one of share's own deliveries
(`noNestedFanout`, the restriction C12 makes in its own quantifier). Without it C02 and C03 are false for 2+ sinks (known
findings KF5a, KF5b; see `Thm/Counterexamples.lean`). -/
theorem C02_share_partial {α : Type} :
    ∀ s, SReachR (Share.machine α) noNestedFanout s → SafeFor 2 s :=
  fun s hs => safeFor_of_basicSafe _ s hs.weaken (Share.share_basicSafe_partial s hs) 2 (by decide)

end Cb.Thm
