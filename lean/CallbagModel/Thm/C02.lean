import CallbagModel.Inv.XViols
import CallbagModel.Inv.Take
/-!
# C02 — property theorems (statements only; the invariants are in `Inv/`)

`SafeFor 2 s`: the monitor has recorded no violation belonging to C02 in configuration `s`.
`SReach M s`: `s` is reachable from the initial configuration of `M` by operator micro-steps and moves of a conformant
environment (`legalIn`/`legalRet`, DESIGN §1.2) — every history, every nesting depth, every data value.
-/
namespace Cb.Thm
variable {α : Type}

theorem C02_take (max : Nat) : ∀ s, SReach (Take.machine α max) s → SafeFor 2 s :=
  fun s hs => safeFor_of_basicSafe _ s hs (Take.take_basicSafe max s hs) 2 (by decide)

end Cb.Thm
