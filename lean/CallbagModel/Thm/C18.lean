import CallbagModel.Par.Merge
import CallbagModel.Par.Combine
/-!
# C18 — fan-in is exactly-once under every thread interleaving (merge!, combine!)

`PReach M s0 s` (Par.lean): `s` is reachable from `s0` by ANY sequence of single micro-steps of ANY threads — every schedule, any
length; a micro-step is one shared-state access, or the begin / end of a call to the passive recording environment.
Thread `i` plays member `i`: it greets, delivers any number of data, then possibly ends or fails (`MemberScript`); the race
starts when the sink has subscribed and every member has been subscribed (`start`). Every member count `n`, all scripts.

Observations proved beside the theorems (not covered by the property's text, recorded in DESIGN.md §5): under a race the sink can
receive `Data` before its `Handshake` (`MergePar.merge_par_data_before_greet`), and with a failing member a data delivery already in
flight can reach the sink after the `Error` (`MergePar.merge_par_data_after_error`).
-/
namespace Cb.Thm

/-- merge!, at most one member failing: the sink is greeted at most once, receives at most one terminal message, nothing panics -/
theorem C18_merge_exactly_once {α : Type} (n : Nat) (fails : Bool) (ths : List (Thread (Merge.Loc α) α α))
    (h : MergePar.Members n fails ths) (h1 : MergePar.nFail ths ≤ 1) :
    ∀ s, PReach (Merge.machine α n) (MergePar.start n ths) s →
      s.obs.greets ≤ 1 ∧ s.obs.terms + s.obs.errs ≤ 1 ∧ s.obs.panics = 0 ∧ (fails = false → s.obs.errs = 0) :=
  MergePar.merge_par_safe_one n fails ths h h1

/-- merge!, no failing member: completion is delivered only after every data delivery has returned, nothing follows it, and no
member is ever told to stop -/
theorem C18_merge_completion_after_data {α : Type} (n : Nat) (ths : List (Thread (Merge.Loc α) α α)) (h : MergePar.Members n false ths) :
    ∀ s, PReach (Merge.machine α n) (MergePar.start n ths) s →
      s.obs.termWhileData = false ∧ s.obs.afterTerm = 0 ∧ s.obs.upTerms = 0 :=
  MergePar.merge_par_order n ths h

/-- merge!, no failing member: when every thread has finished, every datum handed to merge has been delivered exactly once (count
form: the sink has received as many data as the scripts contain) -/
theorem C18_merge_every_datum_once {α : Type} (n : Nat) (ths : List (Thread (Merge.Loc α) α α)) (h : MergePar.Members n false ths) :
    ∀ s, PReach (Merge.machine α n) (MergePar.start n ths) s → (∀ th ∈ s.threads, th.script = [] ∧ th.frame = none) →
      s.obs.datas.length = MergePar.nDataAll ths :=
  MergePar.merge_par_data_done n ths h

/-- combine!, the part that holds for every arity, all scripts and every schedule: greeted at most once, completed at most once,
never an `Error` -/
theorem C18_combine_counts_partial {α : Type} (n : Nat) (ths : List (Thread (Combine.Loc α) α (List α))) (h : CombinePar.Members n ths) :
    ∀ s, PReach (Combine.machine α n) (CombinePar.start n ths) s → s.obs.greets ≤ 1 ∧ s.obs.terms ≤ 1 ∧ s.obs.errs = 0 :=
  CombinePar.combine_par_counts_partial n ths h

/-- combine!, the part that FAILS (known finding KF4): "only complete tuples, nothing panics" is false — when two members' first
data race, `unwrap()` is reached on an incomplete tuple. Kernel-checked witness schedule. -/
theorem C18_combine_panic_counterexample :
    ∃ s, PReach (Combine.machine Nat 2)
        (CombinePar.start 2 [⟨[.srcGreet 0, .srcDown 0 (.data 1)], none⟩, ⟨[.srcGreet 1, .srcDown 1 (.data 2)], none⟩]) s ∧
      s.obs.panics = 1 :=
  CombinePar.combine_par_panics

end Cb.Thm
