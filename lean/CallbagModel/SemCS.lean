import CallbagModel.Sem
import CallbagModel.EnvX
/-!
# Reachability under the cross-sink environment

`Sem.lean` quantifies over the conformant environments of `legalIn`.  `EnvX.lean` defines a wider, executable environment for the
differential tests; its JUDGED part is `envMoveCS`: `legalIn` plus the cross-sink calls (`crossSink`: while a multi-sink operator is
delivering — greeting, data or terminal — to one of its sinks, any sink that is live may pull or dispose).  This file is the
relational counterpart, with the same shape as `Sem.lean`:

* `legalInCS`, `EnvStepCS` (= `envMoveCS`, `envMoveCS_iff`), `CSStep`, `CSReachR` / `CSReach`;
* `CSReach.of_sreach`: every configuration reachable under `legalIn` environments is reachable under cross-sink environments;
* the macro-step rule re-proved for `CSReach` (`cs_reach_of_macro_inv`, `cs_reach_runs_into_inv`) — the proofs do not depend on the
  legality predicate;
* `cs_reach_decomp`: every reachable configuration is an invariant one, or lies on the deterministic run of the operator that
  follows one environment move made from an invariant configuration; `cs_reach_inv_of_envTurn`: a reachable configuration in which
  the environment has control IS an invariant one; `cs_reach_waitBelow`: below the top of the stack there are only `wait` frames
  (used to prove facts about configurations in which the OPERATOR has control by plain induction on reachability, e.g. "whenever
  `share` is about to send `Terminate` upstream, that upstream is live").
-/
namespace Cb

variable {St Loc α β : Type}

/-- legality of an environment call in the cross-sink environment -/
def legalInCS (sh : Shape) (g : Ph) (c : Ctx β) (i : In α) : Bool := legalIn sh g c i || crossSink sh g c i

theorem legalInCS_of_legalIn {sh : Shape} {g : Ph} {c : Ctx β} {i : In α} (h : legalIn sh g c i = true) :
    legalInCS sh g c i = true := by simp [legalInCS, h]

/-- environment moves of the cross-sink environment (exactly `envMoveCS`, as a relation): `EnvStep` with `legalInCS` for calls -/
inductive EnvStepCS (M : Machine St Loc α β) : Move α → Sys St Loc α β → Sys St Loc α β → Prop where
  | call {st stk g tr c} (i : In α) : ctxOf stk = some c → legalInCS M.shape g.ph c i = true →
      EnvStepCS M (.call i) ⟨st, stk, g, tr, none⟩ ⟨st, .run (M.enter i) :: stk, g.onIn stk.length i, .inp i :: tr, none⟩
  | ret {st stk g tr o l} : legalRet M.shape g.ph (.inCall o : Ctx β) = true →
      EnvStepCS M .ret ⟨st, .wait o l :: stk, g, tr, none⟩ ⟨st, .run l :: stk, g, .retE :: tr, none⟩

theorem EnvStep.toCS {M : Machine St Loc α β} {m : Move α} {a b : Sys St Loc α β} (h : EnvStep M m a b) : EnvStepCS M m a b := by
  cases h with
  | call i hc hl => exact .call i hc (legalInCS_of_legalIn hl)
  | ret hl => exact .ret hl

/-- a cross-sink step is a `legalIn` step or a genuinely cross-sink call -/
theorem EnvStepCS.cases_legal {M : Machine St Loc α β} {m : Move α} {a b : Sys St Loc α β} (h : EnvStepCS M m a b) :
    EnvStep M m a b ∨ ∃ i c, m = .call i ∧ ctxOf a.stack = some c ∧ crossSink M.shape a.g.ph c i = true := by
  cases h with
  | @call st stk g tr c i hc hl =>
    simp only [legalInCS, Bool.or_eq_true] at hl
    rcases hl with hl | hl
    · exact Or.inl (.call i hc hl)
    · exact Or.inr ⟨i, c, rfl, hc, hl⟩
  | ret hl => exact Or.inl (.ret hl)

/-- `envMoveCS` and `EnvStepCS` are the same thing -/
theorem envMoveCS_iff (M : Machine St Loc α β) (m : Move α) (s s' : Sys St Loc α β) :
    envMoveCS M s m = some s' ↔ EnvStepCS M m s s' := by
  constructor
  · intro h
    cases m with
    | call i =>
      obtain ⟨st, stk, g, tr, p⟩ := s
      simp only [envMoveCS, envMoveL] at h
      cases p with
      | some _ => simp at h
      | none =>
        simp only [Option.isSome_none, Bool.false_eq_true, ↓reduceIte] at h
        cases hc : ctxOf stk with
        | none => simp [hc] at h
        | some c =>
          simp only [hc] at h
          by_cases hl : legalInCS M.shape g.ph c i = true
          · have hl' := hl
            simp only [legalInCS] at hl'
            simp only [hl', ↓reduceIte, Option.some.injEq] at h; subst h; exact EnvStepCS.call i hc hl
          · have hl' := hl
            simp only [legalInCS] at hl'
            simp [hl'] at h
    | ret =>
      have h' : envMove M s .ret = some s' := h
      exact ((envMove_iff M .ret s s').1 h').toCS
  · intro h
    cases h with
    | call i hc hl =>
      simp only [legalInCS] at hl
      simp [envMoveCS, envMoveL, hc, hl]
    | ret hl => simp [envMoveCS, envMoveL, envMove, hl]

inductive CSStep (M : Machine St Loc α β) (R : Restr St Loc α β) : Sys St Loc α β → Sys St Loc α β → Prop where
  | op {a b} : opStep M a = some b → CSStep M R a b
  | env {a b m} : EnvStepCS M m a b → R a m → CSStep M R a b

/-- reachable under cross-sink environments that also respect `R` -/
inductive CSReachR (M : Machine St Loc α β) (R : Restr St Loc α β) : Sys St Loc α β → Prop where
  | init : CSReachR M R (Sys.init M)
  | step {a b} : CSReachR M R a → CSStep M R a b → CSReachR M R b

/-- reachable under every cross-sink environment: operator micro-steps, `legalIn` moves, and cross-sink calls -/
abbrev CSReach (M : Machine St Loc α β) : Sys St Loc α β → Prop := CSReachR M anyEnv

theorem CSReachR.weaken {M : Machine St Loc α β} {R : Restr St Loc α β} {s : Sys St Loc α β} (h : CSReachR M R s) : CSReach M s := by
  induction h with
  | init => exact .init
  | step _ hab ih =>
    cases hab with
    | op h => exact .step ih (.op h)
    | env h _ => exact .step ih (.env h trivial)

/-- the conformant environments of `Sem.lean` are cross-sink environments -/
theorem CSReachR.of_sreachR {M : Machine St Loc α β} {R : Restr St Loc α β} {s : Sys St Loc α β} (h : SReachR M R s) :
    CSReachR M R s := by
  induction h with
  | init => exact .init
  | step _ hab ih =>
    cases hab with
    | op h => exact .step ih (.op h)
    | env h hr => exact .step ih (.env h.toCS hr)

theorem CSReach.of_sreach {M : Machine St Loc α β} {s : Sys St Loc α β} (h : SReach M s) : CSReach M s :=
  CSReachR.of_sreachR h

theorem envTurn_of_envStepCS {M : Machine St Loc α β} {m : Move α} {a b : Sys St Loc α β} (h : EnvStepCS M m a b) : EnvTurn a := by
  cases h with
  | call i hc hl => simp [EnvTurn, hc]
  | ret hl => simp [EnvTurn, ctxOf]

/-! ### `advance` -/

theorem advance_fix' (M : Machine St Loc α β) (s : Sys St Loc α β) (h : opStep M s = none) (n : Nat) : advance M n s = s := by
  cases n with
  | zero => rfl
  | succ n => simp [advance, h]

theorem advance_add' (M : Machine St Loc α β) (a b : Nat) (s : Sys St Loc α β) :
    advance M (a + b) s = advance M b (advance M a s) := by
  induction a generalizing s with
  | zero => simp [advance]
  | succ a ih =>
    rw [Nat.add_right_comm]
    simp only [advance]
    cases h : opStep M s with
    | none => simp [advance_fix' M s h]
    | some s' => simp [ih]

/-- two environment turns on the same deterministic run coincide -/
theorem advance_envTurn_unique (M : Machine St Loc α β) (s : Sys St Loc α β) (n1 n2 : Nat)
    (e1 : EnvTurn (advance M n1 s)) (e2 : EnvTurn (advance M n2 s)) : advance M n1 s = advance M n2 s := by
  have a := advance_add' M n1 n2 s
  have b := advance_add' M n2 n1 s
  rw [advance_of_envTurn e1] at a
  rw [advance_of_envTurn e2, Nat.add_comm] at b
  exact a.symm.trans b

/-! ### the macro-step rule -/

/-- Every configuration reachable by small steps runs, within finitely many operator steps, into an invariant one. -/
theorem cs_reach_runs_into_inv (M : Machine St Loc α β) (R : Restr St Loc α β) (Inv : Sys St Loc α β → Prop)
    (hinit : Inv (Sys.init M)) (hturn : ∀ s, Inv s → EnvTurn s)
    (hstep : ∀ s s' m, Inv s → EnvStepCS M m s s' → R s m → ∃ n, Inv (advance M n s')) :
    ∀ s, CSReachR M R s → ∃ n, Inv (advance M n s) := by
  intro s hs
  induction hs with
  | init => exact ⟨0, hinit⟩
  | @step a b ha hab ih =>
    obtain ⟨n, hn⟩ := ih
    cases hab with
    | op h =>
      cases n with
      | zero =>
        have := opStep_none_of_envTurn (M := M) (hturn _ hn)
        simp [advance] at this hn; rw [this] at h; cases h
      | succ n => refine ⟨n, ?_⟩; simpa [advance, h] using hn
    | env h hr =>
      rw [advance_of_envTurn (envTurn_of_envStepCS h)] at hn
      exact hstep _ _ _ hn h hr

/-- The macro-step proof rule over the cross-sink environment, for an arbitrary sticky notion of safety `P`. -/
theorem cs_reach_of_macro_inv (M : Machine St Loc α β) (R : Restr St Loc α β) (P : Sys St Loc α β → Prop) (Inv : Sys St Loc α β → Prop)
    (hinit : Inv (Sys.init M)) (hturn : ∀ s, Inv s → EnvTurn s ∧ P s)
    (hstep : ∀ s s' m, Inv s → EnvStepCS M m s s' → R s m → ∃ n, Inv (advance M n s'))
    (hmono : ∀ s s', opStep M s = some s' → P s' → P s) :
    ∀ s, CSReachR M R s → P s := by
  intro s hs
  obtain ⟨n, hn⟩ := cs_reach_runs_into_inv M R Inv hinit (fun s h => (hturn s h).1) hstep s hs
  have hsafe := (hturn _ hn).2
  clear hs
  induction n generalizing s with
  | zero => exact hsafe
  | succ n ih =>
    simp only [advance] at hn hsafe
    cases h : opStep M s with
    | none => simpa [h] using hsafe
    | some s' =>
      rw [h] at hn hsafe
      exact hmono _ _ h (ih _ hn hsafe)

/-- The macro-step rule specialised to `BasicSafe`. -/
theorem cs_basicSafe_of_macro_inv (M : Machine St Loc α β) (Inv : Sys St Loc α β → Prop)
    (hinit : Inv (Sys.init M)) (hturn : ∀ s, Inv s → EnvTurn s ∧ BasicSafe s)
    (hstep : ∀ s s' m, Inv s → EnvStepCS M m s s' → ∃ n, Inv (advance M n s')) :
    ∀ s, CSReach M s → BasicSafe s :=
  cs_reach_of_macro_inv M anyEnv BasicSafe Inv hinit hturn (fun s s' m hi he _ => hstep s s' m hi he) (basicSafe_mono M)

/-- The macro-step rule specialised to `Safe`. -/
theorem cs_safe_of_macro_inv (M : Machine St Loc α β) (Inv : Sys St Loc α β → Prop)
    (hinit : Inv (Sys.init M)) (hturn : ∀ s, Inv s → EnvTurn s ∧ Safe s)
    (hstep : ∀ s s' m, Inv s → EnvStepCS M m s s' → ∃ n, Inv (advance M n s')) :
    ∀ s, CSReach M s → Safe s :=
  cs_reach_of_macro_inv M anyEnv Safe Inv hinit hturn (fun s s' m hi he _ => hstep s s' m hi he) (safe_mono M)

/-- Every reachable configuration is an invariant one, or lies on the run of the operator (`k` micro-steps) that follows one
environment move `m` made from an invariant configuration `s0`. -/
theorem cs_reach_decomp (M : Machine St Loc α β) (R : Restr St Loc α β) (Inv : Sys St Loc α β → Prop)
    (hinit : Inv (Sys.init M)) (hturn : ∀ s, Inv s → EnvTurn s)
    (hstep : ∀ s s' m, Inv s → EnvStepCS M m s s' → R s m → ∃ n, Inv (advance M n s')) :
    ∀ s, CSReachR M R s →
      Inv s ∨ ∃ s0 m s1 k, Inv s0 ∧ EnvStepCS M m s0 s1 ∧ R s0 m ∧ advance M k s1 = s := by
  intro s hs
  induction hs with
  | init => exact Or.inl hinit
  | @step a b ha hab ih =>
    cases hab with
    | op h =>
      rcases ih with hi | ⟨s0, m, s1, k, hi, he, hr, hk⟩
      · have := opStep_none_of_envTurn (M := M) (hturn _ hi)
        rw [this] at h; cases h
      · refine Or.inr ⟨s0, m, s1, k + 1, hi, he, hr, ?_⟩
        rw [advance_add', hk]
        simp [advance, h]
    | @env m' h hr' =>
      have hia : Inv a := by
        rcases ih with hi | ⟨s0, m, s1, k, hi, he, hr, hk⟩
        · exact hi
        · obtain ⟨n, hn⟩ := hstep _ _ _ hi he hr
          have e2 : EnvTurn (advance M k s1) := by rw [hk]; exact envTurn_of_envStepCS h
          rw [advance_envTurn_unique M s1 n k (hturn _ hn) e2, hk] at hn
          exact hn
      exact Or.inr ⟨a, m', b, 0, hia, h, hr', rfl⟩

/-- a reachable configuration in which the environment has control is an invariant one -/
theorem cs_reach_inv_of_envTurn (M : Machine St Loc α β) (R : Restr St Loc α β) (Inv : Sys St Loc α β → Prop)
    (hinit : Inv (Sys.init M)) (hturn : ∀ s, Inv s → EnvTurn s)
    (hstep : ∀ s s' m, Inv s → EnvStepCS M m s s' → R s m → ∃ n, Inv (advance M n s')) :
    ∀ s, CSReachR M R s → EnvTurn s → Inv s := by
  intro s hs ht
  obtain ⟨n, hn⟩ := cs_reach_runs_into_inv M R Inv hinit hturn hstep s hs
  rwa [advance_of_envTurn ht] at hn

/-- at every reachable configuration all frames below the top of the stack are `wait` frames -/
theorem cs_reach_waitBelow (M : Machine St Loc α β) (R : Restr St Loc α β) :
    ∀ s, CSReachR M R s → ∀ f ∈ s.stack.tail, ∃ o l, f = Frame.wait o l := by
  intro s hs
  induction hs with
  | init => intro f hf; simp [Sys.init] at hf
  | @step a b ha hab ih =>
    cases hab with
    | op h =>
      unfold opStep at h
      split at h
      · cases h
      · split at h
        · rename_i l stk heq
          rw [heq] at ih
          simp only [List.tail_cons] at ih
          split at h
          all_goals (simp only [Option.some.injEq] at h; subst h)
          · exact ih
          · exact ih
          · exact fun f hf => ih f (List.mem_of_mem_tail hf)
          · exact fun f hf => ih f (List.mem_of_mem_tail hf)
        · cases h
    | env h _ =>
      cases h with
      | @call st stk g tr c i hc hl =>
        simp only [List.tail_cons] at ih ⊢
        intro f hf
        cases stk with
        | nil => cases hf
        | cons f0 r =>
          rcases List.mem_cons.1 hf with rfl | hf
          · cases f with
            | run l => simp [ctxOf] at hc
            | wait o l => exact ⟨o, l, rfl⟩
          · exact ih f hf
      | ret hl => exact ih

end Cb

#print axioms Cb.cs_reach_of_macro_inv
#print axioms Cb.cs_reach_runs_into_inv
#print axioms Cb.cs_reach_decomp
#print axioms Cb.envMoveCS_iff
#print axioms Cb.CSReach.of_sreach
#print axioms Cb.cs_reach_inv_of_envTurn
#print axioms Cb.cs_reach_waitBelow
