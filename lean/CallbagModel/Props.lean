import CallbagModel.Core
/-!
# Trace-level property definitions (the functional properties C07–C12, C14, C15)

Traces are `Sys.tr`: boundary events, NEWEST FIRST.  Every definition here is an executable function on traces, so the same
definition is (a) what the theorems in `Thm/` are about and (b) what the driver evaluates over traces recorded from the
real crate.  Projections return chronological lists (oldest first).
-/
namespace Cb
variable {α β : Type}

/-- data upstream `i` has delivered, oldest first -/
def sentData (i : Nat) : List (Ev α β) → List α
  | [] => []
  | .inp (.srcDown i' (.data a)) :: t => if i' = i then sentData i t ++ [a] else sentData i t
  | _ :: t => sentData i t

/-- data of all upstreams in arrival order, tagged with the upstream -/
def arrivals : List (Ev α β) → List (Nat × α)
  | [] => []
  | .inp (.srcDown i (.data a)) :: t => arrivals t ++ [(i, a)]
  | _ :: t => arrivals t

/-- data sink `k` has received, oldest first -/
def recvData (k : Nat) : List (Ev α β) → List β
  | [] => []
  | .out (.down k' (.data b)) :: t => if k' = k then recvData k t ++ [b] else recvData k t
  | _ :: t => recvData k t

/-- arguments the user closure was applied to (for_each), oldest first -/
def applied : List (Ev α β) → List β
  | [] => []
  | .out (.app b) :: t => applied t ++ [b]
  | _ :: t => applied t

/-- number of Pulls sink `k` has sent -/
def pullsIn (k : Nat) : List (Ev α β) → Nat
  | [] => 0
  | .inp (.sinkUp k' .pull) :: t => (if k' = k then 1 else 0) + pullsIn k t
  | _ :: t => pullsIn k t

/-- number of Pulls the operator has sent to upstream `i` -/
def pullsOut (i : Nat) : List (Ev α β) → Nat
  | [] => 0
  | .out (.srcUp i' .pull) :: t => (if i' = i then 1 else 0) + pullsOut i t
  | _ :: t => pullsOut i t

/-- terminal messages sink `k` has received (0 or 1 under C02) -/
def finalsTo (k : Nat) : List (Ev α β) → Nat
  | [] => 0
  | .out (.down k' .term) :: t => (if k' = k then 1 else 0) + finalsTo k t
  | .out (.down k' (.err _)) :: t => (if k' = k then 1 else 0) + finalsTo k t
  | _ :: t => finalsTo k t

/-- upstream subscriptions made, oldest first -/
def subscriptions : List (Ev α β) → List Nat
  | [] => []
  | .out (.subSrc i) :: t => subscriptions t ++ [i]
  | _ :: t => subscriptions t

/-- the events of a trace in chronological order -/
def chron (tr : List (Ev α β)) : List (Ev α β) := tr.reverse

/-- `e1` is immediately followed (in time) by `e2` at every occurrence of `e1` selected by `p` — "the output is produced inside
the delivery of the input that caused it, with nothing in between" -/
def eachFollowedBy (p : Ev α β → Bool) (q : Ev α β → Ev α β → Bool) : List (Ev α β) → Bool
  | [] => true
  | [e] => !p e                       -- the newest event is a selected one and nothing follows yet: only allowed mid-step
  | e2 :: e1 :: t => (if p e1 then q e1 e2 else true) && eachFollowedBy p q (e1 :: t)

/-- every event selected by `p` is immediately preceded (in time) by one related to it by `q` -/
def eachPrecededBy (p : Ev α β → Bool) (q : Ev α β → Ev α β → Bool) : List (Ev α β) → Bool
  | [] => true
  | [e] => !p e
  | e2 :: e1 :: t => (if p e2 then q e1 e2 else true) && eachPrecededBy p q (e1 :: t)

def isDataOut (k : Nat) : Ev α β → Bool
  | .out (.down k' (.data _)) => k' == k
  | _ => false
def isDataIn (i : Nat) : Ev α β → Bool
  | .inp (.srcDown i' (.data _)) => i' == i
  | _ => false
def isFinalOut (k : Nat) : Ev α β → Bool
  | .out (.down k' .term) => k' == k
  | .out (.down k' (.err _)) => k' == k
  | _ => false

/-! ## Reference functions -/

/-- running fold without the seed: `scanF r s [a₁,a₂,…] = [r s a₁, r (r s a₁) a₂, …]` -/
def scanF {σ} (r : σ → α → σ) : σ → List α → List σ
  | _, [] => []
  | s, a :: as => r s a :: scanF r (r s a) as

/-- the latest value of every member after the arrivals `as` (member-indexed), `none` where a member has not produced yet -/
def latest (n : Nat) (as : List (Nat × α)) : List (Option α) :=
  as.foldl (fun acc (ia : Nat × α) => if ia.1 < n then acc.set ia.1 (some ia.2) else acc) (List.replicate n none)

end Cb

namespace Cb
variable {α β : Type}

/-- Terminate / Error messages the operator has sent to upstream `i` -/
def upFinals (i : Nat) : List (Ev α β) → Nat
  | [] => 0
  | .out (.srcUp i' .term) :: t => (if i' = i then 1 else 0) + upFinals i t
  | .out (.srcUp i' (.err _)) :: t => (if i' = i then 1 else 0) + upFinals i t
  | _ :: t => upFinals i t

/-- sink `k` has sent Terminate / Error on its talkback -/
def sinkDisposed (k : Nat) : List (Ev α β) → Bool
  | [] => false
  | .inp (.sinkUp k' .term) :: t => k' == k || sinkDisposed k t
  | .inp (.sinkUp k' (.err _)) :: t => k' == k || sinkDisposed k t
  | _ :: t => sinkDisposed k t

/-- upstream `i` has ended by itself (Terminate or Error) -/
def srcEnded (i : Nat) : List (Ev α β) → Bool
  | [] => false
  | .inp (.srcDown i' .term) :: t => i' == i || srcEnded i t
  | .inp (.srcDown i' (.err _)) :: t => i' == i || srcEnded i t
  | _ :: t => srcEnded i t

/-- upstream `i` has completed normally -/
def srcCompleted (i : Nat) : List (Ev α β) → Bool
  | [] => false
  | .inp (.srcDown i' .term) :: t => i' == i || srcCompleted i t
  | _ :: t => srcCompleted i t

/-- upstream `i` has greeted -/
def srcGreeted (i : Nat) : List (Ev α β) → Bool
  | [] => false
  | .inp (.srcGreet i') :: t => i' == i || srcGreeted i t
  | _ :: t => srcGreeted i t

/-- number of events, a position in the trace: `tr.length` is "now" -/
def before (n : Nat) (tr : List (Ev α β)) : List (Ev α β) := tr.drop (tr.length - n)

/-- the calls of the operator into the environment that are open (innermost first), and the number of open handlers -/
def openCalls : List (Ev α β) → List (Option (Out β))
  | [] => []
  | .inp _ :: t => none :: openCalls t                     -- a handler frame
  | .out o :: t => some o :: openCalls t                   -- a call frame on top of its handler
  | .retE :: t => (openCalls t).tail                       -- pops the call frame
  | .retO :: t => (openCalls t).tail                       -- pops the handler frame
  | .panic :: t => openCalls t

/-- no delivery to sink `k` begins while another delivery to the same sink is still in progress -/
def noNestedDelivery (k : Nat) : List (Ev α β) → Bool
  | [] => true
  | .out (.down k' d) :: t =>
      (if k' = k then !(openCalls t).any (fun f => match f with | some (.down k'' _) => k'' == k | _ => false) else true)
        && noNestedDelivery k t
  | _ :: t => noNestedDelivery k t

/-- number of delivery frames to sink `k` that are open: the depth of re-entrancy of the operator's deliveries -/
def deliveryDepth (k : Nat) (tr : List (Ev α β)) : Nat :=
  (openCalls tr).countP (fun f => match f with | some (.down k' _) => k' == k | _ => false)

end Cb
