import CallbagModel.Core
/-!
# A wider environment for the differential layer: cross-peer calls

`legalIn` (Core.lean) ties every peer to its own handlers: sink `k` uses its talkback at top level and inside deliveries TO SINK `k`;
source `i` delivers at top level, inside the call that subscribes it and inside a Pull sent to it (S2, K1 of DESIGN §1.2 — the reading
the property texts give).  The callbag specification itself does not say WHEN a peer may act, and in a real program the peers are
parts of one program: `merge!(s, s)` over `s = share(src)` disposes its second subscription from inside the handler of the first; a
subject is fed from inside the data handler of the sink it eventually reaches; a sink told that the source has ended subscribes a new
sink to the same shared source.  `legalInX` keeps the PHASE conditions of `legalIn` and drops the context conditions: any peer whose
protocol state allows it may act whenever the environment has control.  It is used by the `genx`/`randx` script generators, by every
model replay and by the monitor that judges recorded traces (`Script.lean`, `Mon.lean`), so that the crate and the model are COMPARED
on such histories and the monitor judges them; the theorems of `Thm/` quantify over `legalIn` environments (`SReach`), a subclass — see
DESIGN §9.9 and the known findings of class `cross-peer`.
-/
namespace Cb

/-- the phase conditions of `legalIn`, in any context in which the environment has control -/
def crossPeer {α β} (sh : Shape) (g : Ph) (_c : Ctx β) : In α → Bool
  | .subscribe k => g.sinkPh k == .idle && (k == 0 || sh.multiSink)
  | .sinkUp k _ => g.sinkPh k == .live
  | .srcGreet i => g.srcPh i == .subscribed && sh.lateGreet
  | .srcDown i _ => g.srcPh i == .live

def inDelivery {β} : Ctx β → Bool
  | .inCall (.greet _) => true
  | .inCall (.down _ _) => true
  | _ => false

/-- the cross-SINK part: a multi-sink operator (`share`) is delivering to one of its sinks and another live sink pulls or disposes.
Histories whose only cross-peer calls are of this kind are also JUDGED by the monitor (known findings KF5c, KF5d); the other
cross-peer histories are used for the model-versus-crate comparison only (DESIGN §9.9). -/
def crossSink {α β} (sh : Shape) (g : Ph) (c : Ctx β) : In α → Bool
  | .sinkUp k _ => sh.multiSink && g.sinkPh k == .live && inDelivery c
  | _ => false

def legalInX {α β} (sh : Shape) (g : Ph) (c : Ctx β) (i : In α) : Bool := legalIn sh g c i || crossPeer sh g c i

/-- is this call legal ONLY in the wider environment? (used to classify histories) -/
def isCross {α β} (sh : Shape) (g : Ph) (c : Ctx β) (i : In α) : Bool := !legalIn sh g c i && crossPeer sh g c i

/-- … and not even as a cross-sink call -/
def isWide {α β} (sh : Shape) (g : Ph) (c : Ctx β) (i : In α) : Bool := isCross sh g c i && !crossSink sh g c i

/-- `envMove` with another legality predicate for environment calls -/
def envMoveL {St Loc α β} (leg : Shape → Ph → Ctx β → In α → Bool) (M : Machine St Loc α β) (s : Sys St Loc α β) :
    Move α → Option (Sys St Loc α β)
  | .call i =>
    if s.panicked.isSome then none else
    match ctxOf s.stack with
    | some c => if leg M.shape s.g.ph c i then
        some { s with stack := .run (M.enter i) :: s.stack, g := s.g.onIn s.stack.length i, tr := .inp i :: s.tr } else none
    | none => none
  | .ret => envMove M s .ret

/-- `envMove` over the cross-peer environment; identical to `envMove` wherever that is defined -/
def envMoveX {St Loc α β} (M : Machine St Loc α β) (s : Sys St Loc α β) (m : Move α) : Option (Sys St Loc α β) :=
  envMoveL legalInX M s m

/-- … over `legalIn` plus cross-sink calls only (the judged part of the wider environment) -/
def envMoveCS {St Loc α β} (M : Machine St Loc α β) (s : Sys St Loc α β) (m : Move α) : Option (Sys St Loc α β) :=
  envMoveL (fun sh g c i => legalIn sh g c i || crossSink sh g c i) M s m

theorem envMoveX_of_envMove {St Loc α β} (M : Machine St Loc α β) (s s' : Sys St Loc α β) (m : Move α)
    (h : envMove M s m = some s') : envMoveX M s m = some s' := by
  cases m with
  | ret => exact h
  | call i =>
    simp only [envMove] at h
    simp only [envMoveX, envMoveL]
    cases hp : s.panicked.isSome <;> simp only [hp, Bool.false_eq_true, ↓reduceIte] at h ⊢
    · cases hc : ctxOf s.stack with
      | none => simp [hc] at h
      | some c =>
        simp only [hc] at h ⊢
        by_cases hl : legalIn M.shape s.g.ph c i = true
        · simpa [legalInX, hl] using h
        · simp [hl] at h
    · simp at h

end Cb
