import CallbagModel.Core
/-!
# A wider environment for the differential layer: cross-sink calls (multi-sink operators, i.e. `share`)

`legalIn` (Core.lean) lets sink `k` use its talkback at top level and inside deliveries TO SINK `k`.  The sinks of a shared source are
parts of one program, though: `merge!(s, s)` over `s = share(src)` disposes its second subscription from inside the handler of the
first.  `legalInX` adds exactly that: while the operator is delivering (greeting, data or a terminal message) to ANY of its sinks, any
sink that is live may pull or dispose.  It is used by the script generators, the model replay and the monitor that judges recorded
traces (`Script.lean`, `Mon.lean`), so that the crate and the model are COMPARED on such histories; the theorems of `Thm/` quantify
over `legalIn` environments (`SReach`), a subclass — see DESIGN §9.9 and known finding KF5c.
-/
namespace Cb

def inDelivery {β} : Ctx β → Bool
  | .inCall (.greet _) => true
  | .inCall (.down _ _) => true
  | _ => false

/-- the cross-sink part: only for multi-sink operators, only talkback calls of a live sink, only while a delivery is open -/
def crossSink {α β} (sh : Shape) (g : Ph) (c : Ctx β) : In α → Bool
  | .sinkUp k _ => sh.multiSink && g.sinkPh k == .live && inDelivery c
  | _ => false

def legalInX {α β} (sh : Shape) (g : Ph) (c : Ctx β) (i : In α) : Bool := legalIn sh g c i || crossSink sh g c i

/-- is this call legal ONLY by the cross-sink clause? (used to classify histories) -/
def isCross {α β} (sh : Shape) (g : Ph) (c : Ctx β) (i : In α) : Bool := !legalIn sh g c i && crossSink sh g c i

/-- `envMove` over the wider environment; identical to `envMove` wherever that is defined -/
def envMoveX {St Loc α β} (M : Machine St Loc α β) (s : Sys St Loc α β) : Move α → Option (Sys St Loc α β)
  | .call i =>
    if s.panicked.isSome then none else
    match ctxOf s.stack with
    | some c => if legalInX M.shape s.g.ph c i then
        some { s with stack := .run (M.enter i) :: s.stack, g := s.g.onIn s.stack.length i, tr := .inp i :: s.tr } else none
    | none => none
  | .ret => envMove M s .ret

theorem envMoveX_of_envMove {St Loc α β} (M : Machine St Loc α β) (s s' : Sys St Loc α β) (m : Move α)
    (h : envMove M s m = some s') : envMoveX M s m = some s' := by
  cases m with
  | ret => exact h
  | call i =>
    simp only [envMove] at h
    simp only [envMoveX]
    cases hp : s.panicked.isSome <;> simp only [hp, Bool.false_eq_true, ↓reduceIte] at h ⊢
    · cases hc : ctxOf s.stack with
      | none => simp [hc] at h
      | some c =>
        simp only [hc] at h ⊢
        by_cases hl : legalIn M.shape s.g.ph c i = true
        · simpa [legalInX, hl] using h
        · simp [hl] at h
    · simp at h

end Cb
