import CallbagModel.Core
/-!
# Reachability, safety, and the macro-step proof rule

`SReach M s`: `s` is reachable by operator micro-steps and *legal* environment moves — every history, every nesting
depth.  Invariants are stated only at configurations where the environment has control (`EnvTurn`); between two
environment moves the operator is deterministic, and `safe_of_macro_inv` lifts an invariant of that kind to every
small-step reachable configuration.
-/
namespace Cb

variable {St Loc α β : Type}

/-- environment moves from an environment-turn configuration (exactly `envMove`, as a relation) -/
inductive EnvStep (M : Machine St Loc α β) : Move α → Sys St Loc α β → Sys St Loc α β → Prop where
  | call {st stk g tr c} (i : In α) : ctxOf stk = some c → legalIn M.shape g.ph c i = true →
      EnvStep M (.call i) ⟨st, stk, g, tr, none⟩ ⟨st, .run (M.enter i) :: stk, g.onIn stk.length i, .inp i :: tr, none⟩
  | ret {st stk g tr o l} : legalRet M.shape g.ph (.inCall o : Ctx β) = true →
      EnvStep M .ret ⟨st, .wait o l :: stk, g, tr, none⟩ ⟨st, .run l :: stk, g, .retE :: tr, none⟩

/-- a further restriction of the environment, for the properties whose quantifier asks for one (C12, C14):
`R s m` says move `m` is allowed in configuration `s` -/
abbrev Restr (St Loc α β : Type) := Sys St Loc α β → Move α → Prop

/-- no further restriction: every conformant environment -/
def anyEnv : Restr St Loc α β := fun _ _ => True

inductive SStep (M : Machine St Loc α β) (R : Restr St Loc α β) : Sys St Loc α β → Sys St Loc α β → Prop where
  | op {a b} : opStep M a = some b → SStep M R a b
  | env {a b m} : EnvStep M m a b → R a m → SStep M R a b

/-- reachable under conformant environments that also respect `R` -/
inductive SReachR (M : Machine St Loc α β) (R : Restr St Loc α β) : Sys St Loc α β → Prop where
  | init : SReachR M R (Sys.init M)
  | step {a b} : SReachR M R a → SStep M R a b → SReachR M R b

/-- reachable under every conformant environment -/
abbrev SReach (M : Machine St Loc α β) : Sys St Loc α β → Prop := SReachR M anyEnv

theorem SReachR.weaken {M : Machine St Loc α β} {R : Restr St Loc α β} {s : Sys St Loc α β} (h : SReachR M R s) : SReach M s := by
  induction h with
  | init => exact .init
  | step _ hab ih =>
    cases hab with
    | op h => exact .step ih (.op h)
    | env h _ => exact .step ih (.env h trivial)

/-- `envMove` and `EnvStep` are the same thing -/
theorem envMove_iff (M : Machine St Loc α β) (m : Move α) (s s' : Sys St Loc α β) :
    envMove M s m = some s' ↔ EnvStep M m s s' := by
  constructor
  · intro h
    obtain ⟨st, stk, g, tr, p⟩ := s
    cases m with
    | call i =>
      simp only [envMove] at h
      cases p with
      | some _ => simp at h
      | none =>
        simp only [Option.isSome_none, Bool.false_eq_true, ↓reduceIte] at h
        cases hc : ctxOf stk with
        | none => simp [hc] at h
        | some c =>
          simp only [hc] at h
          by_cases hl : legalIn M.shape g.ph c i = true
          · simp only [hl, ↓reduceIte, Option.some.injEq] at h; subst h; exact EnvStep.call i hc hl
          · simp [hl] at h
    | ret =>
      simp only [envMove] at h
      cases p with
      | some _ => simp at h
      | none =>
        simp only [Option.isSome_none, Bool.false_eq_true, ↓reduceIte] at h
        cases stk with
        | nil => simp at h
        | cons f r =>
          cases f with
          | run l => simp at h
          | wait o l =>
            simp only at h
            by_cases hl : legalRet M.shape g.ph (.inCall o : Ctx β) = true
            · simp only [hl, ↓reduceIte, Option.some.injEq] at h; subst h; exact EnvStep.ret hl
            · simp [hl] at h
  · intro h
    cases h with
    | call i hc hl => simp [envMove, hc, hl]
    | ret hl => simp [envMove, hl]

/-- no violation recorded, no panic -/
def Safe (s : Sys St Loc α β) : Prop := s.g.viols = [] ∧ s.panicked = none

/-- no phase-level violation recorded (C01, C02, C03, protocol part of C04), no panic (C17) -/
def BasicSafe (s : Sys St Loc α β) : Prop := s.g.ph.viols = [] ∧ s.panicked = none

/-- no violation of property number `p` recorded (and no panic, for `p = 17`) -/
def SafeFor (p : Nat) (s : Sys St Loc α β) : Prop := (∀ v ∈ s.g.viols, v.prop ≠ p) ∧ (p = 17 → s.panicked = none)

theorem Safe.safeFor {s : Sys St Loc α β} (h : Safe s) (p : Nat) : SafeFor p s := by
  refine ⟨?_, fun _ => h.2⟩
  rw [h.1]; intro v hv; cases hv

theorem Safe.basic {s : Sys St Loc α β} (h : Safe s) : BasicSafe s := by
  refine ⟨?_, h.2⟩
  have := h.1; unfold G.viols at this
  exact (List.append_eq_nil_iff.1 this).2

def EnvTurn (s : Sys St Loc α β) : Prop := s.panicked = none ∧ (ctxOf s.stack).isSome

theorem opStep_none_of_envTurn {M : Machine St Loc α β} {s : Sys St Loc α β} (h : EnvTurn s) : opStep M s = none := by
  obtain ⟨hp, hc⟩ := h
  unfold opStep
  simp only [hp]
  cases hs : s.stack with
  | nil => simp
  | cons f stk => cases f with
    | run l => simp [hs, ctxOf] at hc
    | wait o l => simp

theorem advance_of_envTurn {M : Machine St Loc α β} {s : Sys St Loc α β} (h : EnvTurn s) (n : Nat) : advance M n s = s := by
  cases n with
  | zero => rfl
  | succ n => simp [advance, opStep_none_of_envTurn (M := M) h]

theorem envTurn_of_envStep {M : Machine St Loc α β} {m : Move α} {a b : Sys St Loc α β} (h : EnvStep M m a b) : EnvTurn a := by
  cases h with
  | call i hc hl => simp [EnvTurn, hc]
  | ret hl => simp [EnvTurn, ctxOf]

/-- The macro-step proof rule, for an arbitrary sticky notion of safety `P`. -/
theorem reach_of_macro_inv (M : Machine St Loc α β) (R : Restr St Loc α β) (P : Sys St Loc α β → Prop) (Inv : Sys St Loc α β → Prop)
    (hinit : Inv (Sys.init M)) (hturn : ∀ s, Inv s → EnvTurn s ∧ P s)
    (hstep : ∀ s s' m, Inv s → EnvStep M m s s' → R s m → ∃ n, Inv (advance M n s'))
    (hmono : ∀ s s', opStep M s = some s' → P s' → P s) :
    ∀ s, SReachR M R s → P s := by
  have key : ∀ s, SReachR M R s → ∃ n, Inv (advance M n s) := by
    intro s hs
    induction hs with
    | init => exact ⟨0, hinit⟩
    | @step a b ha hab ih =>
      obtain ⟨n, hn⟩ := ih
      cases hab with
      | op h =>
        cases n with
        | zero =>
          have := opStep_none_of_envTurn (M := M) (hturn _ hn).1
          simp [advance] at this hn; rw [this] at h; cases h
        | succ n => refine ⟨n, ?_⟩; simpa [advance, h] using hn
      | env h hr =>
        rw [advance_of_envTurn (envTurn_of_envStep h)] at hn
        exact hstep _ _ _ hn h hr
  intro s hs
  obtain ⟨n, hn⟩ := key s hs
  have hsafe := (hturn _ hn).2
  clear hs
  induction n generalizing s with
  | zero => exact hsafe
  | succ n ih =>
    simp only [advance] at hn hsafe
    cases h : opStep M s with
    | none => simpa [h] using hsafe
    | some s' =>
      rw [h] at hn hsafe
      exact hmono _ _ h (ih _ hn hsafe)

/-- Every configuration reachable by small steps runs, within finitely many operator steps, into an invariant one. -/
theorem reach_runs_into_inv (M : Machine St Loc α β) (R : Restr St Loc α β) (Inv : Sys St Loc α β → Prop)
    (hinit : Inv (Sys.init M)) (hturn : ∀ s, Inv s → EnvTurn s)
    (hstep : ∀ s s' m, Inv s → EnvStep M m s s' → R s m → ∃ n, Inv (advance M n s')) :
    ∀ s, SReachR M R s → ∃ n, Inv (advance M n s) := by
  intro s hs
  induction hs with
  | init => exact ⟨0, hinit⟩
  | @step a b ha hab ih =>
    obtain ⟨n, hn⟩ := ih
    cases hab with
    | op h =>
      cases n with
      | zero =>
        have := opStep_none_of_envTurn (M := M) (hturn _ hn)
        simp [advance] at this hn; rw [this] at h; cases h
      | succ n => refine ⟨n, ?_⟩; simpa [advance, h] using hn
    | env h hr =>
      rw [advance_of_envTurn (envTurn_of_envStep h)] at hn
      exact hstep _ _ _ hn h hr

/-! ### stickiness of the monitor -/

/-- the phase-level violation list only grows along `onOut` -/
theorem ph_onOut_viols_suffix (g : Ph) (o : Out β) : ∃ l, (g.onOut o).viols = l ++ g.viols := by
  cases o with
  | greet k => simp only [Ph.onOut]; split; exact ⟨[], rfl⟩; exact ⟨[_], rfl⟩
  | down k d =>
    simp only [Ph.onOut]
    split
    · split <;> exact ⟨[], rfl⟩
    all_goals exact ⟨[_], rfl⟩
  | subSrc i =>
    simp only [Ph.onOut]
    split
    · exact ⟨[_], rfl⟩
    · split
      · exact ⟨[_], rfl⟩
      · exact ⟨[], rfl⟩
  | srcUp i u =>
    cases u <;> (simp only [Ph.onOut]; split; exact ⟨[], rfl⟩; exact ⟨[_], rfl⟩)
  | app b => exact ⟨[], rfl⟩

theorem onOut_ph (sh : Shape) (g : G) (o : Out β) : (g.onOut sh o).ph = g.ph.onOut o := by
  unfold G.onOut
  cases o with
  | down k d => simp only; split; split <;> rfl; rfl
  | srcUp i u =>
    cases u with
    | pull => rfl
    | term => simp only; split <;> rfl
    | err e => simp only; split; split <;> rfl; rfl
  | _ => rfl

theorem onOut_xviols_suffix (sh : Shape) (g : G) (o : Out β) : ∃ l, (g.onOut sh o).xviols = l ++ g.xviols := by
  unfold G.onOut
  cases o with
  | down k d => simp only; split; split <;> exact ⟨[], rfl⟩; exact ⟨[], rfl⟩
  | srcUp i u =>
    cases u with
    | pull => exact ⟨[], rfl⟩
    | term => simp only; split; exact ⟨[_], rfl⟩; exact ⟨[], rfl⟩
    | err e => simp only; split; split; exact ⟨[_], rfl⟩; exact ⟨[], rfl⟩; exact ⟨[], rfl⟩
  | _ => exact ⟨[], rfl⟩

theorem onRetO_ph (g : G) (h : Nat) : (g.onRetO h).ph = g.ph := by
  have h0 : ∀ g' : G, (g'.clearSinkErr h).ph = g'.ph := by
    intro g'; unfold G.clearSinkErr; split
    · split <;> rfl
    · rfl
  have h1 : ∀ g' : G, (g'.checkPend h).ph = g'.ph := by
    intro g'; unfold G.checkPend; split
    · split <;> rfl
    · rfl
  have h2 : ∀ g' : G, (g'.checkOrphans h).ph = g'.ph := by
    intro g'; unfold G.checkOrphans; split <;> rfl
  unfold G.onRetO; rw [h2, h1, h0]

theorem onRetO_xviols_suffix (g : G) (h : Nat) : ∃ l, (g.onRetO h).xviols = l ++ g.xviols := by
  have h0 : (g.clearSinkErr h).xviols = g.xviols := by
    unfold G.clearSinkErr; split
    · split <;> rfl
    · rfl
  have h1 : ∀ g' : G, ∃ l, (g'.checkPend h).xviols = l ++ g'.xviols := by
    intro g'; unfold G.checkPend; split
    · split
      · exact ⟨_, rfl⟩
      · exact ⟨[], rfl⟩
    · exact ⟨[], rfl⟩
  have h2 : ∀ g' : G, ∃ l, (g'.checkOrphans h).xviols = l ++ g'.xviols := by
    intro g'; unfold G.checkOrphans; split
    · exact ⟨_, rfl⟩
    · exact ⟨[], rfl⟩
  obtain ⟨l1, hl1⟩ := h1 (g.clearSinkErr h)
  obtain ⟨l2, hl2⟩ := h2 ((g.clearSinkErr h).checkPend h)
  exact ⟨l2 ++ l1, by unfold G.onRetO; rw [hl2, hl1, h0]; simp⟩

/-- both violation lists only grow along operator steps; a panic is never undone -/
theorem opStep_viols_suffix (M : Machine St Loc α β) (a b : Sys St Loc α β) (h : opStep M a = some b) :
    (∃ l, b.g.ph.viols = l ++ a.g.ph.viols) ∧ (∃ l, b.g.xviols = l ++ a.g.xviols) ∧ (b.panicked = none → a.panicked = none) := by
  unfold opStep at h
  cases hp : a.panicked with
  | some m => simp [hp] at h
  | none =>
    simp only [hp, Option.isSome_none, Bool.false_eq_true, ↓reduceIte] at h
    cases hstk : a.stack with
    | nil => simp [hstk] at h
    | cons f r =>
      cases f with
      | wait o l => simp [hstk] at h
      | run l =>
        simp only [hstk] at h
        cases hst : M.step a.st l with
        | ret =>
          simp only [hst, Option.some.injEq] at h; subst h
          exact ⟨⟨[], by simp [onRetO_ph]⟩, onRetO_xviols_suffix _ _, fun _ => rfl⟩
        | tau s' l' => simp only [hst, Option.some.injEq] at h; subst h; exact ⟨⟨[], rfl⟩, ⟨[], rfl⟩, fun _ => rfl⟩
        | call o s' l' =>
          simp only [hst, Option.some.injEq] at h; subst h
          exact ⟨by simp only [onOut_ph]; exact ph_onOut_viols_suffix _ _, onOut_xviols_suffix _ _ _, fun _ => rfl⟩
        | panic m => simp only [hst, Option.some.injEq] at h; subst h; exact ⟨⟨[], rfl⟩, ⟨[], rfl⟩, fun _ => rfl⟩

theorem basicSafe_mono (M : Machine St Loc α β) (a b : Sys St Loc α β) (h : opStep M a = some b) (hs : BasicSafe b) :
    BasicSafe a := by
  obtain ⟨⟨l, hl⟩, _, hp⟩ := opStep_viols_suffix M a b h
  refine ⟨?_, hp hs.2⟩
  have := hs.1; rw [hl] at this
  exact (List.append_eq_nil_iff.1 this).2

theorem safe_mono (M : Machine St Loc α β) (a b : Sys St Loc α β) (h : opStep M a = some b) (hs : Safe b) : Safe a := by
  obtain ⟨⟨l, hl⟩, ⟨l', hl'⟩, hp⟩ := opStep_viols_suffix M a b h
  refine ⟨?_, hp hs.2⟩
  have := hs.1; unfold G.viols at this ⊢; rw [hl, hl'] at this
  have h1 := List.append_eq_nil_iff.1 this
  rw [(List.append_eq_nil_iff.1 h1.1).2, (List.append_eq_nil_iff.1 h1.2).2]; rfl

theorem safeFor_mono (p : Nat) (M : Machine St Loc α β) (a b : Sys St Loc α β) (h : opStep M a = some b) (hs : SafeFor p b) :
    SafeFor p a := by
  obtain ⟨⟨l, hl⟩, ⟨l', hl'⟩, hp⟩ := opStep_viols_suffix M a b h
  refine ⟨fun v hv => hs.1 v ?_, fun h17 => hp (hs.2 h17)⟩
  unfold G.viols at hv ⊢; rw [hl, hl']
  rcases List.mem_append.1 hv with hv | hv
  · exact List.mem_append_left _ (List.mem_append_right _ hv)
  · exact List.mem_append_right _ (List.mem_append_right _ hv)

/-- The macro-step rule specialised to `BasicSafe`. -/
theorem basicSafe_of_macro_inv (M : Machine St Loc α β) (Inv : Sys St Loc α β → Prop)
    (hinit : Inv (Sys.init M)) (hturn : ∀ s, Inv s → EnvTurn s ∧ BasicSafe s)
    (hstep : ∀ s s' m, Inv s → EnvStep M m s s' → ∃ n, Inv (advance M n s')) :
    ∀ s, SReach M s → BasicSafe s :=
  reach_of_macro_inv M anyEnv BasicSafe Inv hinit hturn (fun s s' m hi he _ => hstep s s' m hi he) (basicSafe_mono M)

/-- The macro-step rule specialised to `Safe`. -/
theorem safe_of_macro_inv (M : Machine St Loc α β) (Inv : Sys St Loc α β → Prop)
    (hinit : Inv (Sys.init M)) (hturn : ∀ s, Inv s → EnvTurn s ∧ Safe s)
    (hstep : ∀ s s' m, Inv s → EnvStep M m s s' → ∃ n, Inv (advance M n s')) :
    ∀ s, SReach M s → Safe s :=
  reach_of_macro_inv M anyEnv Safe Inv hinit hturn (fun s s' m hi he _ => hstep s s' m hi he) (safe_mono M)

end Cb
