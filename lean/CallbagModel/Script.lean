import CallbagModel.EnvX
/-!
# Environment scripts: text protocol, enumeration of conformant scripts, replay on a machine

A *script* is a flat list of environment moves (`Move`); nesting is determined by the `ret`s.  The trace of a
script is the full sequence of boundary events, in one canonical text form shared with the Rust harness:

  environment: `S<k>` subscribe · `U<k>p|t|e<id>` sink→talkback · `G<i>` upstream greets · `D<i>d<v>|t|e<id>` upstream
               delivers · `R` return from the innermost call made by the operator
  operator:    `>G<k>` greet · `>D<k>d<v>|t|e<id>` deliver · `>S<i>` subscribe upstream · `>U<i>p|t|e<id>` talkback ·
               `>F<v>` apply closure · `<` handler returns · `!` panic
-/
namespace Cb

def Up.txt : Up → String | .pull => "p" | .term => "t" | .err e => s!"e{e}"
def Down.txt {β} (f : β → String) : Down β → String | .data v => s!"d{f v}" | .term => "t" | .err e => s!"e{e}"
def In.txt {α} (f : α → String) : In α → String
  | .subscribe k => s!"S{k}"
  | .sinkUp k u => s!"U{k}{u.txt}"
  | .srcGreet i => s!"G{i}"
  | .srcDown i d => s!"D{i}{d.txt f}"
def Move.txt {α} (f : α → String) : Move α → String
  | .ret => "R"
  | .call i => i.txt f
def Out.txt {β} (f : β → String) : Out β → String
  | .greet k => s!">G{k}"
  | .down k d => s!">D{k}{d.txt f}"
  | .subSrc i => s!">S{i}"
  | .srcUp i u => s!">U{i}{u.txt}"
  | .app b => s!">F{f b}"
def Ev.txt {α β} (fa : α → String) (fb : β → String) : Ev α β → String
  | .inp i => i.txt fa
  | .out o => o.txt fb
  | .retE => "R"
  | .retO => "<"
  | .panic => "!"

def fmtInt (i : Int) : String := toString i
def fmtList (l : List Int) : String := "[" ++ ",".intercalate (l.map toString) ++ "]"

/-- run the operator until the environment's turn (bounded only to keep the function total) -/
def settle {St Loc α β} (M : Machine St Loc α β) (s : Sys St Loc α β) : Sys St Loc α β := advance M 100000 s

/-- `Namespace.constructor` of the first location mentioned in the `Repr` of a location (for composites: of the innermost frame) -/
def locTag (r : String) : String :=
  match r.splitOn "Loc." with
  | pre :: post :: _ =>
    let ns := ((pre.splitOn ".").filter (· != "")).getLast?.getD "?"
    let ns := String.ofList (ns.toList.reverse.takeWhile (fun c => c.isAlphanum)).reverse
    ns ++ "." ++ String.ofList (post.toList.takeWhile (fun c => c.isAlphanum || c == '_'))
  | _ => "?"

/-- `settle`, recording which locations of the model are executed (coverage of the model's code by the scripts) -/
def settleCov {St Loc α β} (M : Machine St Loc α β) (tag : Loc → String) : Nat → Sys St Loc α β → List String → Sys St Loc α β × List String
  | 0, s, acc => (s, acc)
  | n+1, s, acc =>
    let acc := match s.stack with
      | .run l :: _ => let t := tag l; if acc.contains t then acc else t :: acc
      | _ => acc
    match opStep M s with
    | none => (s, acc)
    | some s' => settleCov M tag n s' acc

def runMovesCov {St Loc α β} (M : Machine St Loc α β) (tag : Loc → String) :
    Sys St Loc α β → List (Move α) → List String → Option (Sys St Loc α β) × List String
  | s, [], acc => (some s, acc)
  | s, m :: ms, acc => match envMoveX M s m with
    | none => (none, acc)
    | some s1 => let (s2, acc) := settleCov M tag 100000 s1 acc; runMovesCov M tag s2 ms acc

/-- replay a script; `none` if some move is not legal where it stands -/
def runMoves {St Loc α β} (M : Machine St Loc α β) : Sys St Loc α β → List (Move α) → Option (Sys St Loc α β)
  | s, [] => some s
  | s, m :: ms => match envMoveX M s m with
    | none => none
    | some s1 => runMoves M (settle M s1) ms

/-- number of `Data` deliveries by upstreams so far: the next datum is numbered from it, so data are distinct -/
def dataSent {α β} : List (Ev α β) → Nat
  | [] => 0
  | .inp (.srcDown _ (.data _)) :: t => dataSent t + 1
  | _ :: t => dataSent t

/-- candidate moves at an environment turn (a superset of the legal ones) -/
def candMoves (sh : Shape) (g : Ph) (nSinks : Nat) (next : Int) : List (Move Int) :=
  let ks := List.range (if sh.multiSink then nSinks else 1)
  let is := List.range (max sh.nSrc g.src.length)
  (ks.map fun k => Move.call (.subscribe k)) ++
  (ks.flatMap fun k => [Move.call (.sinkUp k .pull), .call (.sinkUp k .term), .call (.sinkUp k (.err (20 + k)))]) ++
  (is.map fun i => Move.call (.srcGreet i)) ++
  (is.flatMap fun i => [Move.call (.srcDown i (.data next)), .call (.srcDown i .term), .call (.srcDown i (.err (10 + i)))]) ++
  [Move.ret]

/-- an additional, executable restriction of the environment (C14: the pullable discipline): `R trace move` -/
abbrev MoveFilter (β : Type) := List (Ev Int β) → Move Int → Bool
def noFilter {β} : MoveFilter β := fun _ _ => true

def legalMoves {St Loc β} (M : Machine St Loc Int β) (nSinks : Nat) (s : Sys St Loc Int β) (R : MoveFilter β := noFilter)
    (wide : Nat := 0) : List (Move Int × Sys St Loc Int β) :=
  ((candMoves M.shape s.g.ph nSinks (dataSent s.tr + 1)).filter (R s.tr)).filterMap fun m =>
    -- `wide`: 0 = the conformance automaton `legalIn` of the theorems; 1 = plus cross-sink calls; 2 = the cross-peer environment (EnvX.lean)
    match (if wide == 0 then envMove M s m else if wide == 1 then envMoveCS M s m else envMoveX M s m) with
    | some s1 => some (m, settle M s1)
    | none => none

/-- all maximal conformant scripts of at most `depth` moves (every history of that length, no state de-duplication) -/
partial def leaves {St Loc β} (M : Machine St Loc Int β) (nSinks depth : Nat) (s : Sys St Loc Int β) (path : List (Move Int))
    (acc : Array (List (Move Int))) (R : MoveFilter β := noFilter) (wide : Nat := 0) : Array (List (Move Int)) := Id.run do
  let mut acc := acc
  let nexts := if depth > 0 then legalMoves M nSinks s R wide else []
  if nexts.isEmpty then return acc.push path.reverse
  for (m, s2) in nexts do
    acc := leaves M nSinks (depth - 1) s2 (m :: path) acc R wide
  return acc

/-- xorshift64* -/
def rngNext (x : UInt64) : UInt64 :=
  let x := x ^^^ (x >>> 12)
  let x := x ^^^ (x <<< 25)
  let x := x ^^^ (x >>> 27)
  x * 2685821657736338717

/-- one seeded random walk of at most `len` moves; nested reactions (moves made while a call is open) are favoured -/
partial def randomWalk {St Loc β} (M : Machine St Loc Int β) (nSinks len : Nat) (seed : UInt64) (R : MoveFilter β := noFilter)
    (wide : Nat := 0) : List (Move Int) := Id.run do
  let mut s := Sys.init M
  let mut r := if seed == 0 then 88172645463325252 else seed
  let mut path : List (Move Int) := []
  for _ in [0:len] do
    let nexts := legalMoves M nSinks s R wide
    if nexts.isEmpty then break
    -- weight: a `ret` gets weight 2, anything else 3 when nested (keeps handlers open longer), 2 at top level
    let ws := nexts.map fun (m, _) => match m with | .ret => 2 | _ => if s.stack.isEmpty then 2 else 3
    let total := ws.foldl (· + ·) 0
    r := rngNext r
    let mut pick := (r >>> 11).toNat % total
    let mut chosen : Option (Move Int × Sys St Loc Int β) := none
    for ((m, s2), w) in nexts.zip ws do
      if chosen.isNone then
        if pick < w then chosen := some (m, s2) else pick := pick - w
    match chosen with
    | some (m, s2) => path := m :: path; s := s2
    | none => break
  return path.reverse

/-- LONG deterministic walks (counts in the hundreds: counters that wrap or saturate are out of reach of short scripts).
`mode 0` "pump": greet whatever waits to greet, return from whatever is open, and at top level alternately pull and let the first live
upstream deliver, for `rounds` rounds, then end the upstreams.  `mode 1` "nested pulls": as 0, but inside every data delivery the sink
first pulls `burst` times before returning (a sink like `for_each` re-pulling, or many sinks of a shared source pulling in turn).
`mode 2` "pullable members": the sink pulls at top level; every Pull that reaches an upstream is answered INSIDE the Pull, with a datum
the first `burst` times and with the end after that (so that the hand-over to the next member happens on Pull number `burst + 1`). -/
partial def longWalk {St Loc β} (M : Machine St Loc Int β) (nSinks rounds burst mode : Nat) : List (Move Int) := Id.run do
  let mut s := Sys.init M
  let mut path : List (Move Int) := []
  let mut round := 0
  let mut inBurst := 0
  let mut wantPull := true
  for _ in [0:(rounds * (burst + 8) + 50)] do
    let nexts := legalMoves M nSinks s
    if nexts.isEmpty then break
    let find (p : Move Int → Bool) := nexts.find? (fun (m, _) => p m)
    let isGreet : Move Int → Bool := fun m => match m with | .call (.srcGreet _) => true | _ => false
    let isSub : Move Int → Bool := fun m => match m with | .call (.subscribe 0) => true | _ => false
    let isPull : Move Int → Bool := fun m => match m with | .call (.sinkUp 0 .pull) => true | _ => false
    let isData : Move Int → Bool := fun m => match m with | .call (.srcDown _ (.data _)) => true | _ => false
    let isTerm : Move Int → Bool := fun m => match m with | .call (.srcDown _ .term) => true | _ => false
    let isRet : Move Int → Bool := fun m => match m with | .ret => true | _ => false
    let inData := match s.stack with | .wait (.down _ (.data _)) _ :: _ => true | _ => false
    let inPullOf : Option Nat := match s.stack with | .wait (.srcUp i .pull) _ :: _ => some i | _ => none
    if mode == 2 then
      -- answered data per upstream are counted in the trace
      let choice2 :=
        if let some c := find isGreet then some c
        else match inPullOf with
          | some i =>
            let answered := match s.tr with | Ev.retO :: _ => true | _ => false    -- the operator has returned from our answer
            if answered then find isRet else
            let cnt := (s.tr.filter fun (e : Ev Int β) => match e with | Ev.inp (In.srcDown j (Down.data _)) => j == i | _ => false).length
            if cnt < burst then find (fun m => match m with | .call (.srcDown j (.data _)) => j == i | _ => false)
            else find (fun m => match m with | .call (.srcDown j .term) => j == i | _ => false)
          | none =>
            if let some c := find isRet then some c
            else if let some c := find isSub then some c
            else if round ≥ rounds then none else find isPull
      match choice2 with
      | none => break
      | some (m, s2) =>
        if s.stack.isEmpty && isPull m then round := round + 1
        path := m :: path
        s := s2
        continue
    let choice :=
      if let some c := find isGreet then some c
      else if mode == 1 && inData && inBurst < burst then
        match find isPull with | some c => some c | none => find isRet
      else if let some c := find isRet then some c
      else if let some c := find isSub then some c
      else if round ≥ rounds then find isTerm
      else if wantPull then (match find isPull with | some c => some c | none => find isData)
      else (match find isData with | some c => some c | none => find isPull)
    match choice with
    | none => break
    | some (m, s2) =>
      if isPull m && inData then inBurst := inBurst + 1
      if isRet m && inData then inBurst := 0
      if s.stack.isEmpty && (isPull m || isData m) then
        wantPull := !wantPull
        round := round + 1
      path := m :: path
      s := s2
  return path.reverse

/-- trace (oldest first) of a script on the model, as text -/
def traceTxt {St Loc β} (M : Machine St Loc Int β) (fb : β → String) (ms : List (Move Int)) : String :=
  match runMoves M (Sys.init M) ms with
  | some s => " ".intercalate (s.tr.reverse.map (Ev.txt fmtInt fb))
  | none => "?illegal"

def traceTxtCov {St Loc β} (M : Machine St Loc Int β) (fb : β → String) (tag : Loc → String) (ms : List (Move Int)) (acc : List String) :
    String × List String :=
  match runMovesCov M tag (Sys.init M) ms acc with
  | (some s, acc) => (" ".intercalate (s.tr.reverse.map (Ev.txt fmtInt fb)), acc)
  | (none, acc) => ("?illegal", acc)

def scriptTxt (ms : List (Move Int)) : String := " ".intercalate (ms.map (Move.txt fmtInt))

/-! ## parsing -/

def parseUp (s : String) : Option Up :=
  match s.toList with
  | ['p'] => some .pull
  | ['t'] => some .term
  | 'e' :: r => (String.ofList r).toNat?.map Up.err
  | _ => none

def parseDown {β} (pv : String → Option β) (s : String) : Option (Down β) :=
  match s.toList with
  | ['t'] => some .term
  | 'e' :: r => (String.ofList r).toNat?.map Down.err
  | 'd' :: r => (pv (String.ofList r)).map Down.data
  | _ => none

/-- split a leading decimal index off a list of characters -/
def splitIdx (cs : List Char) : Option (Nat × List Char) :=
  let ds := cs.takeWhile Char.isDigit
  if ds.isEmpty then none else (String.ofList ds).toNat?.map fun n => (n, cs.dropWhile Char.isDigit)

def parseIn {α} (pv : String → Option α) (s : String) : Option (In α) :=
  match s.toList with
  | 'S' :: r => (String.ofList r).toNat?.map In.subscribe
  | 'G' :: r => (String.ofList r).toNat?.map In.srcGreet
  | 'U' :: r => match splitIdx r with
    | some (k, rest) => (parseUp (String.ofList rest)).map (In.sinkUp k)
    | none => none
  | 'D' :: r => match splitIdx r with
    | some (i, rest) => (parseDown pv (String.ofList rest)).map (In.srcDown i)
    | none => none
  | _ => none

def parseOut {β} (pv : String → Option β) (s : String) : Option (Out β) :=
  match s.toList with
  | '>' :: 'G' :: r => (String.ofList r).toNat?.map Out.greet
  | '>' :: 'S' :: r => (String.ofList r).toNat?.map Out.subSrc
  | '>' :: 'U' :: r => match splitIdx r with
    | some (i, rest) => (parseUp (String.ofList rest)).map (Out.srcUp i)
    | none => none
  | '>' :: 'D' :: r => match splitIdx r with
    | some (k, rest) => (parseDown pv (String.ofList rest)).map (Out.down k)
    | none => none
  | '>' :: 'F' :: r => (pv (String.ofList r)).map Out.app
  | _ => none

def parseEv {α β} (pa : String → Option α) (pb : String → Option β) (s : String) : Option (Ev α β) :=
  if s == "R" then some .retE
  else if s == "<" then some .retO
  else if s.startsWith "!" then some .panic
  else if s.startsWith ">" then (parseOut pb s).map Ev.out
  else (parseIn pa s).map Ev.inp

def parseMove (s : String) : Option (Move Int) :=
  if s == "R" then some .ret else (parseIn String.toInt? s).map Move.call

def words (s : String) : List String := (s.splitOn " ").filter (· ≠ "")

end Cb
