import CallbagModel.Closed.Prog2
import CallbagModel.Inv.ComposeCost
/-!
# The cost of linear programs: the iterator is advanced only on demand

`linear_cost`: for the machine the driver builds from `pipe!(from_iter(xs), ss…, for_each(f))` (`0 < n` in every `take n`), at EVERY
reachable configuration under every conformant environment the ghost counter of `Iterator::next` calls is at most the cost of the demand
semantics, `(sem (chainPipe xs ss) none).2` (`Ops/Pipeline.lean`); and it is exactly that once the application has returned.

`linear_cost_take`: laziness — if the chain is `pre ++ take n :: post` with `pre` non-dropping (`map`, `scan`) and `n ≤ xs.length`, the
iterator is advanced at most `n` times, however long `xs` is.

The stage rules (`Stg.up`, mirroring `sem`; `Stg.stageDem`, `Stg.stageLow`) instantiate `Inv/ComposeCost.lean`.
-/
namespace Cb.Closed
open Cb ComposeSafe ComposeFun ComposeComplete PlugConcat FlatPlugFun ComposeCost

/-! ## the demand a stage passes on (as in `sem`) -/

def Stg.up : Stg → List Int → Demand → Demand
  | .map _, _, dem => dem
  | .scan _ _, _, dem => dem
  | .filter _, _, none => none
  | .filter q, ys, some d => needFor q d ys
  | .take n, _, dem => takeUp n dem
  | .skip _, _, none => none
  | .skip n, _, some d => if d = 0 then some 0 else some (d + n)

theorem sem_stage_cost (s : Stg) (p : Pipe) (dem : Demand) : (sem (s.toPipe p) dem).2 = (sem p (s.up (listSem p) dem)).2 := by
  cases s with
  | map f => simp [Stg.toPipe, Stg.up, sem]
  | scan r seed => simp [Stg.toPipe, Stg.up, sem]
  | filter q =>
    cases dem with
    | none => simp [Stg.toPipe, Stg.up, sem]
    | some d => simp only [Stg.toPipe, Stg.up]; rw [sem_filter_some]
  | take n => cases dem <;> simp [Stg.toPipe, Stg.up, sem, takeUp]
  | skip n =>
    cases dem with
    | none => simp [Stg.toPipe, Stg.up, sem]
    | some d =>
      simp only [Stg.toPipe, Stg.up, sem]
      split
      · simp [cost_zero]
      · rfl

/-! ## `needFor` against prefixes -/

theorem needFor_lt (q : Int → Bool) : ∀ (d : Nat) (ys : List Int) (m : Nat) (ins : List Int),
    needFor q d ys = some m → ins <+: ys → (ins.filter q).length < d → ins.length < m
  | 0, _, _, _, _, _, h => by omega
  | d + 1, [], m, ins, h, _, _ => by simp [needFor] at h
  | d + 1, y :: ys, m, ins, h, hp, hl => by
    cases ins with
    | nil =>
      simp only [needFor] at h
      split at h <;> (simp only [Option.map_eq_some_iff] at h; obtain ⟨k, _, rfl⟩ := h; simp)
    | cons x ins' =>
      obtain ⟨rfl, hp'⟩ := List.cons_prefix_cons.1 hp
      simp only [needFor] at h
      by_cases hq : q x = true
      · simp only [hq, if_true, Option.map_eq_some_iff] at h
        obtain ⟨k, hk, rfl⟩ := h
        have := needFor_lt q d ys k ins' hk hp' (by simpa [hq] using hl)
        simp; omega
      · have hq' : q x = false := by simpa using hq
        simp only [hq', Bool.false_eq_true, if_false, Option.map_eq_some_iff] at h
        obtain ⟨k, hk, rfl⟩ := h
        have := needFor_lt q (d + 1) ys k ins' hk hp' (by simpa [hq'] using hl)
        simp; omega

theorem needFor_le_prefix (q : Int → Bool) : ∀ (ins ys : List Int), ins <+: ys →
    Dle (needFor q (ins.filter q).length ys) (some ins.length)
  | [], ys, _ => by simp [needFor, Dle]
  | x :: ins', ys, hp => by
    cases ys with
    | nil => simp at hp
    | cons y ys' =>
      obtain ⟨rfl, hp'⟩ := List.cons_prefix_cons.1 hp
      have ih := needFor_le_prefix q ins' ys' hp'
      by_cases hq : q x = true
      · simp only [List.filter_cons, hq, if_true, List.length_cons, needFor]
        have := Dle.map_succ ih
        simpa using this
      · have hq' : q x = false := by simpa using hq
        simp only [List.filter_cons, hq', Bool.false_eq_true, if_false, List.length_cons]
        cases hk : (ins'.filter q).length with
        | zero => simp [needFor, Dle]
        | succ k =>
          rw [hk] at ih
          simp only [needFor, hq', Bool.false_eq_true, if_false]
          have := Dle.map_succ ih
          simpa using this

theorem scanF_length {σ α : Type} (r : σ → α → σ) : ∀ (s : σ) (l : List α), (scanF r s l).length = l.length
  | _, [] => rfl
  | s, a :: as => by simp [scanF, scanF_length r (r s a) as]

/-! ## the stage rules -/

theorem Stg.stageDem (s : Stg) (ys : List Int) : StageDem s.toM.M (s.up ys) ys := by
  cases s with
  | map f =>
    refine Relay.stageDem (Relay.map f) (fun _ _ _ => by simp [Relay.map]) _ ys rfl (fun d ins _ h => ?_)
    rw [RelayFun.xferOut_map] at h
    simpa [Stg.up, wants] using h
  | scan r seed =>
    refine Relay.stageDem (Relay.scan r seed) (fun _ _ _ => by simp [Relay.scan]) _ ys rfl (fun d ins _ h => ?_)
    rw [show (Relay.scan r seed).seed = seed from rfl, RelayFun.xferOut_scan, scanF_length] at h
    simpa [Stg.up, wants] using h
  | filter q =>
    refine Relay.stageDem (Relay.filter q) (fun h => by simp [Relay.filter] at h) _ ys rfl (fun d ins hp h => ?_)
    rw [RelayFun.xferOut_filter] at h
    simp only [Stg.up]
    cases hn : needFor q d ys with
    | none => trivial
    | some m => exact needFor_lt q d ys m ins hn hp h
  | take n => exact Take.stageDem n ys
  | skip n =>
    refine Relay.stageDem (Relay.skip n) (fun h => by simp [Relay.skip] at h) _ ys rfl (fun d ins _ h => ?_)
    rw [show (Relay.skip (α := Int) n).seed = 0 from rfl, RelayFun.xferOut_skip] at h
    simp only [Stg.up]
    simp only [List.length_drop] at h
    split
    · omega
    · simp only [wants]; omega

theorem Stg.stageLow (s : Stg) (ys : List Int) : StageLow s.toM.M (s.up ys) ys := by
  cases s with
  | map f =>
    refine Relay.stageLow (Relay.map f) (fun _ _ _ => by simp [Relay.map]) _ ys (fun ins _ => ?_)
    rw [RelayFun.xferOut_map]; simp [Stg.up, Dle]
  | scan r seed =>
    refine Relay.stageLow (Relay.scan r seed) (fun _ _ _ => by simp [Relay.scan]) _ ys (fun ins _ => ?_)
    rw [show (Relay.scan r seed).seed = seed from rfl, RelayFun.xferOut_scan, scanF_length]; simp [Stg.up, Dle]
  | filter q =>
    refine Relay.stageLow (Relay.filter q) (fun h => by simp [Relay.filter] at h) _ ys (fun ins hp => ?_)
    rw [RelayFun.xferOut_filter]
    exact needFor_le_prefix q ins ys hp
  | take n => exact Take.stageLow n ys
  | skip n =>
    refine Relay.stageLow (Relay.skip n) (fun h => by simp [Relay.skip] at h) _ ys (fun ins _ => ?_)
    rw [show (Relay.skip (α := Int) n).seed = 0 from rfl, RelayFun.xferOut_skip]
    simp only [Stg.up, List.length_drop]
    split
    · exact Dle.zero _
    · simp only [Dle]; omega

theorem Stg.nexts_zero (s : Stg) (x : s.toM.St) : s.toM.nexts x = 0 := by cases s <;> rfl

/-! ## heads -/

/-- everything the induction over the stages carries -/
structure HeadCost (A : AnyM) (p : Pipe) : Prop where
  ok : HeadOk A.M (listSem p)
  pull : PullOnly A.M
  up : HeadUp A.M A.nexts (fun dem => (sem p dem).2)
  low : HeadLow A.M A.nexts (fun dem => (sem p dem).2)

theorem srcM_headCost (xs : List Int) : HeadCost (srcM xs) (Pipe.src xs) := by
  have hx : Unfolds listNextI xs xs := by
    induction xs with
    | nil => exact .nil rfl
    | cons a as ih => exact .cons rfl ih
  exact ⟨srcM_headOk xs, FromIter.pullOnly _ _, FromIter.headUp listNextI xs xs hx, FromIter.headLow listNextI xs xs hx⟩

theorem HeadCost.stage {A : AnyM} {p : Pipe} (h : HeadCost A p) (s : Stg) (hpos : ∀ n, s = .take n → 0 < n) :
    HeadCost (thenM A s.toM) (s.toPipe p) := by
  have hd := s.demandStage hpos
  have H := hyp_of_roles h.ok.up hd.mono.stage.pipe.downSide
  refine ⟨?_, PullOnly.compose h.pull (Stg.stagePull s) H, ?_, ?_⟩
  · rw [← Stg.fn_listSem]; exact h.ok.compose hd
  · have := HeadUp.compose h.up H h.ok.spec h.pull (s.stageDem (listSem p))
    intro dem st hs hD
    have h1 := this dem st hs hD
    show A.nexts st.st.1 + s.toM.nexts st.st.2 ≤ (sem (s.toPipe p) dem).2
    rw [Stg.nexts_zero, sem_stage_cost]; exact h1
  · have := HeadLow.compose h.low (cost_mono' p) H h.ok.spec (s.stageLow (listSem p))
    intro st hs hstk
    obtain ⟨h1, h2⟩ := this st hs hstk
    refine ⟨?_, fun hd' => ?_⟩
    · show (sem (s.toPipe p) _).2 ≤ A.nexts st.st.1 + s.toM.nexts st.st.2
      rw [Stg.nexts_zero, sem_stage_cost]; exact h1
    · show (sem (s.toPipe p) _).2 ≤ A.nexts st.st.1 + s.toM.nexts st.st.2
      rw [Stg.nexts_zero, sem_stage_cost]; exact h2 hd'

theorem fold_headCost (ss : List Stg) (hpos : ∀ n, Stg.take n ∈ ss → 0 < n) (A : AnyM) (p : Pipe) (h : HeadCost A p) :
    HeadCost (ss.foldl (fun A s => thenM A s.toM) A) (ss.foldl (fun p s => s.toPipe p) p) := by
  induction ss generalizing A p with
  | nil => exact h
  | cons s ss ih =>
    exact ih (fun n hn => hpos n (List.mem_cons_of_mem _ hn)) _ _ (h.stage s (fun n hn => hpos n (hn ▸ List.mem_cons_self)))

theorem chain_headCost (xs : List Int) (ss : List Stg) (hpos : ∀ n, Stg.take n ∈ ss → 0 < n) :
    HeadCost (chainM xs ss) (chainPipe xs ss) :=
  fold_headCost ss hpos _ _ (srcM_headCost xs)

/-- a head with its cost bounds, closed with `for_each` -/
theorem head_forEach_cost {A : AnyM} {p : Pipe} (h : HeadCost A p) :
    ∀ s, SReach (thenM A forEachM).M s →
      (thenM A forEachM).nexts s.st ≤ (sem p none).2 ∧
      (s.stack = [] → s.tr ≠ [] → (thenM A forEachM).nexts s.st = (sem p none).2) := by
  intro s hs
  have H : Hyp A.M (ForEach.machine Int) := hyp_of_roles h.ok.up ForEach.downSide
  have hnx : (thenM A forEachM).nexts s.st = A.nexts s.st.1 := by simp [thenM, forEachM]
  have hle : A.nexts s.st.1 ≤ (sem p none).2 := by
    obtain ⟨s1, s2, hr1, hr2, hm, ht⟩ := compose_inv_tr H s hs
    have hst : s.st = (s1.st, s2.st) := hm.st
    rw [hst]
    exact h.up none s1 hr1 (demOk_none _)
  rw [hnx]
  refine ⟨hle, fun hstk hne => Nat.le_antisymm hle ?_⟩
  obtain ⟨s1, s2, hr1, hr2, hk1, hk2, ht1, ht2, hgh, htr, hp⟩ := proj_top H hs hstk
  have hst : s.st = (s1.st, s2.st) := hp.m.st
  rw [hst]
  obtain ⟨_, _, hoth, hoths, hm⟩ := inv_at_turn (ForEach.machine Int) ForEach.Inv ForEach.inv_init
    (fun s hi => (ForEach.inv_turn s hi).1) ForEach.inv_step hr2 ht2
  cases hm with
  | m1 h1 _ _ =>
    exfalso
    apply hne
    apply idle_tr _ s hs
    intro k
    rw [hgh.sink k]
    by_cases hk : k = 0
    · subst hk; exact h1
    · exact hoths k hk
  | m2 _ _ h5 => rw [hk2] at h5; cases h5
  | m3 _ h2 _ _ =>
    exfalso
    have hb := ForEach.owes s2 hr2 hk2 ht2.1 h2
    have hl1 : s1.g.ph.sinkPh 0 = .live := toSrc_live.1 (hgh.ifc ▸ h2)
    have ha1 : aP s1.tr = true := by simpa [aP, bP, lastPull_dual, htr.ifc] using hb
    rw [h.ok.served s1 hr1 hk1 hl1] at ha1; cases ha1
  | m3a _ _ _ h5 => obtain ⟨a, r, h5, _⟩ := h5; rw [hk2] at h5; cases h5
  | m4 _ h2 _ => exact (h.low s1 hr1 hk1).2 (toSrc_ended.1 (hgh.ifc ▸ h2))

/-! ## the theorems -/

/-- **the cost of every linear program**: never more advances of the iterator than the demand semantics says — at every reachable
configuration, under every conformant environment — and exactly that many when the application has returned -/
theorem linear_cost (xs : List Int) (ss : List Stg) (hpos : ∀ n, Stg.take n ∈ ss → 0 < n) :
    ∀ s, SReach (thenM (chainM xs ss) forEachM).M s →
      (thenM (chainM xs ss) forEachM).nexts s.st ≤ (sem (chainPipe xs ss) none).2 ∧
      (s.stack = [] → s.tr ≠ [] → (thenM (chainM xs ss) forEachM).nexts s.st = (sem (chainPipe xs ss) none).2) :=
  head_forEach_cost (chain_headCost xs ss hpos)

/-! ## consequences at the level of `sem`, transported to the machine -/

/-- non-dropping stages (`map`, `scan`) -/
def Stg.keeps' : Stg → Prop
  | .map _ => True
  | .scan _ _ => True
  | _ => False

/-- every stage but `take` -/
def Stg.noTake : Stg → Prop
  | .take _ => False
  | _ => True

theorem sem_fold_demand (ss : List Stg) : ∀ (q : Pipe) (dem : Demand),
    ∃ dem', (sem (ss.foldl (fun p s => s.toPipe p) q) dem).2 = (sem q dem').2 := by
  induction ss with
  | nil => exact fun q dem => ⟨dem, rfl⟩
  | cons s ss ih =>
    intro q dem
    obtain ⟨dem', h⟩ := ih (s.toPipe q) dem
    exact ⟨s.up (listSem q) dem', by rw [List.foldl_cons, h, sem_stage_cost]⟩

theorem sem_fold_keeps (ss : List Stg) (hss : ∀ s ∈ ss, s.keeps') : ∀ (q : Pipe) (dem : Demand),
    (sem (ss.foldl (fun p s => s.toPipe p) q) dem).2 = (sem q dem).2 := by
  induction ss with
  | nil => exact fun q dem => rfl
  | cons s ss ih =>
    intro q dem
    rw [List.foldl_cons, ih (fun s' hs' => hss s' (List.mem_cons_of_mem _ hs')), sem_stage_cost]
    have := hss s List.mem_cons_self
    cases s <;> first | rfl | exact this.elim

theorem sem_fold_noTake (ss : List Stg) (hss : ∀ s ∈ ss, s.noTake) : ∀ (q : Pipe),
    (sem (ss.foldl (fun p s => s.toPipe p) q) none).2 = (sem q none).2 := by
  induction ss with
  | nil => exact fun q => rfl
  | cons s ss ih =>
    intro q
    rw [List.foldl_cons, ih (fun s' hs' => hss s' (List.mem_cons_of_mem _ hs')), sem_stage_cost]
    have := hss s List.mem_cons_self
    cases s <;> first | rfl | exact this.elim

theorem dle_takeUp (n : Nat) : ∀ dem : Demand, Dle (takeUp n dem) (some n)
  | none => Nat.le_refl _
  | some _ => Nat.min_le_left _ _

theorem cost_src_le (xs : List Int) (d : Nat) : (sem (.src xs) (some d)).2 ≤ d := by
  simp only [sem]; split <;> simp <;> omega

/-- whatever follows a `take n`, the part of the chain before it is asked for at most `n` items -/
theorem sem_take_cost (pre post : List Stg) (n : Nat) (xs : List Int) :
    (sem (chainPipe xs (pre ++ .take n :: post)) none).2 ≤ (sem (chainPipe xs pre) (some n)).2 := by
  unfold chainPipe
  rw [List.foldl_append, List.foldl_cons]
  obtain ⟨dem', h⟩ := sem_fold_demand post (Stg.toPipe (.take n) (pre.foldl (fun p s => s.toPipe p) (.src xs))) none
  rw [h, sem_stage_cost]
  exact cost_mono' _ _ _ (dle_takeUp n dem')

/-- (1) the cheap fragment: without `take`, the whole list and the discovery of its end -/
theorem linear_cost_noTake (xs : List Int) (ss : List Stg) (hss : ∀ s ∈ ss, s.noTake) :
    ∀ s, SReach (thenM (chainM xs ss) forEachM).M s →
      (thenM (chainM xs ss) forEachM).nexts s.st ≤ xs.length + 1 ∧
      (s.stack = [] → s.tr ≠ [] → (thenM (chainM xs ss) forEachM).nexts s.st = xs.length + 1) := by
  have h := linear_cost xs ss (fun n hn => (hss _ hn).elim)
  have hc : (sem (chainPipe xs ss) none).2 = xs.length + 1 := by
    unfold chainPipe; rw [sem_fold_noTake ss hss, cost_src]
  rw [hc] at h; exact h

/-- (2) **laziness**: `take n` below non-dropping stages stops the iterator after `n` advances, however long the list is and whatever
follows the `take` -/
theorem linear_cost_take (xs : List Int) (pre post : List Stg) (n : Nat) (hpre : ∀ s ∈ pre, s.keeps')
    (hpos : ∀ m, Stg.take m ∈ pre ++ .take n :: post → 0 < m) :
    ∀ s, SReach (thenM (chainM xs (pre ++ .take n :: post)) forEachM).M s →
      (thenM (chainM xs (pre ++ .take n :: post)) forEachM).nexts s.st ≤ n ∧
      (n ≤ xs.length → (thenM (chainM xs (pre ++ .take n :: post)) forEachM).nexts s.st < xs.length + 1) := by
  intro s hs
  have h := (linear_cost xs _ hpos s hs).1
  have h1 := sem_take_cost pre post n xs
  have h2 : (sem (chainPipe xs pre) (some n)).2 ≤ n := by
    unfold chainPipe; rw [sem_fold_keeps pre hpre]; exact cost_src_le xs n
  exact ⟨by omega, fun _ => by omega⟩

/-- (3) the same in general: the iterator is advanced at most as often as the part before `take n` needs to produce `n` items -/
theorem linear_cost_take_gen (xs : List Int) (pre post : List Stg) (n : Nat)
    (hpos : ∀ m, Stg.take m ∈ pre ++ .take n :: post → 0 < m) :
    ∀ s, SReach (thenM (chainM xs (pre ++ .take n :: post)) forEachM).M s →
      (thenM (chainM xs (pre ++ .take n :: post)) forEachM).nexts s.st ≤ (sem (chainPipe xs pre) (some n)).2 :=
  fun s hs => Nat.le_trans (linear_cost xs _ hpos s hs).1 (sem_take_cost pre post n xs)

end Cb.Closed

#print axioms Cb.Closed.linear_cost
#print axioms Cb.Closed.linear_cost_noTake
#print axioms Cb.Closed.linear_cost_take
#print axioms Cb.Closed.linear_cost_take_gen
