import CallbagModel.Closed.ProgDef
import CallbagModel.Ops.FlatPlug
/-!
# Programs with `concat!` and `flatten(map(…))`: syntax, the machine, the syntax of `Ops/Pipeline.lean` — definitions only

`Prog2` = `Prog` + `flatRep k p` = `flatten(map(|a| from_iter(a .. a+k))(p))`.  `Prog2.toM` builds the machine with the constructors of
`Closed/Exec.lean` and `flatM` (below: the network `flatPlug` of `Ops/FlatPlug.lean`, every inner source an instance of the `from_iter`
machine started with the list `rangeFrom a k`), so that the compiled driver can build the same term; `Closed/Prog2.lean` (the proofs)
is not imported here.
-/
namespace Cb.Closed
open Cb

/-- `[a, a+1, …, a+n-1]` (the definition of `Driver/PipeDrv.lean`) -/
def rangeFrom (a : Int) (n : Nat) : List Int := (List.range n).map (fun (i : Nat) => a + Int.ofNat i)

inductive Prog2 where
  | src (xs : List Int)
  | stage (s : Stg) (p : Prog2)
  | concat (p q : Prog2)
  | flatRep (k : Nat) (p : Prog2)

/-- `flatten(map(|a| from_iter(a .. a+k))(A))`: the outer source `A`, flatten, and one `from_iter` machine per outer datum.
`nexts` = the outer's + the sum over the inner sources created so far. -/
def flatM (k : Nat) (A : AnyM) : AnyM :=
  { St := FPSt A.St (srcM []).St
    Loc := List (FFr A.Loc (Flatten.Loc Int) (srcM []).Loc)
    M := flatPlug A.M (srcM []).M (fun a => { (srcM []).M.init with it := rangeFrom a k })
    nexts := fun s => A.nexts s.outer + (s.inners.map (fun p => (srcM []).nexts p.2)).sum }

/-- the machine of a program -/
def Prog2.toM : Prog2 → AnyM
  | .src xs => srcM xs
  | .stage s p => thenM p.toM s.toM
  | .concat p q => plugM 0 p.toM (plugM 1 q.toM concat2M)
  | .flatRep k p => flatM k p.toM

/-- the program as syntax of `Ops/Pipeline.lean` -/
def Prog2.toPipe : Prog2 → Pipe
  | .src xs => Pipe.src xs
  | .stage s p => s.toPipe p.toPipe
  | .concat p q => Pipe.concat p.toPipe q.toPipe
  | .flatRep k p => Pipe.flatMap (fun a => Pipe.src (rangeFrom a k)) p.toPipe

/-- `from_iter(xs)` followed by unary stages -/
def Prog2.linear : Prog2 → Prop
  | .src _ => True
  | .stage _ p => p.linear
  | .concat _ _ => False
  | .flatRep _ _ => False

/-- the side condition of `prog2_correct`: every `take n` has `0 < n`, and the argument of every `flatRep` is linear (hence delivers data
only when pulled) -/
def Prog2.ok : Prog2 → Prop
  | .src _ => True
  | .stage s p => (∀ n, s = .take n → 0 < n) ∧ p.ok
  | .concat p q => p.ok ∧ q.ok
  | .flatRep _ p => p.linear ∧ p.ok

end Cb.Closed
