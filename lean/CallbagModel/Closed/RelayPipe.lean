import CallbagModel.Sem
import CallbagModel.Ops.Compose
import CallbagModel.Ops.FromIter
import CallbagModel.Ops.Relay
import CallbagModel.Ops.ForEach
import CallbagModel.Spec
import CallbagModel.Fun.Relay
/-!
# The closed pull pipeline `pipe!(from_iter(it), op, for_each(f))`, end to end

`relayPipe next it0 k` = `compose (compose from_iter relay) for_each`: the three operator machines as ONE machine whose only boundary
events are the application `for_each(f)(source)` (`inp (subscribe 0)`), the closure calls (`out (app b)`) and their returns.
The environment can do nothing else (`env_moves`): nothing is ever greeted or subscribed at the boundary.

* `relayPipe_prefix`   — at every small-step reachable configuration: no panic, and `f` has been applied to a prefix of the list function
* `relayPipe_complete` — back at top level: all of it, and `Iterator::next` was called `xs.length + 1` times
* `relayPipe_progress` — from every reachable configuration the pipeline runs into an environment turn (no divergence)
* `relayPipe_finishes` — the hypotheses of `relayPipe_complete` are satisfiable
* `map_pipe`, `filter_pipe`, `scan_pipe`, `skip_pipe` — the list functions spelled out

Proof: the environment-turn configurations are (A) initial, (B) inside a closure call — stack `[wait (app b) WB]`, from_iter in its
`while` loop with `got_pull = false` — and (C) finished.  All micro-steps between two boundary events are internal (`tau`), so the
ghost and the trace are untouched; the segments are evaluated exactly (`pull_seg`, `iter_emit`, `iter_drop`, `iter_end`, `init_seg`)
and glued by `loop_runs`, an induction on the remaining items of the iterator (a slotted relay may drop arbitrarily many in a row:
its re-`Pull` re-enters from_iter, which only sets `got_pull` because `in_loop`, and returns into the loop).
-/
namespace Cb.Closed
open Cb

/-- the payloads of the closure applications in a boundary trace (traces are newest-first), in chronological order -/
def apps {α β : Type} (tr : List (Ev α β)) : List β :=
  tr.reverse.filterMap (fun e => match e with | .out (.app b) => some b | _ => none)

/-- the iterator `next, it` yields exactly `xs` and is then exhausted -/
inductive Unfolds {ι α : Type} (next : ι → Option (α × ι)) : ι → List α → Prop
  | nil {it} : next it = none → Unfolds next it []
  | cons {it a it' xs} : next it = some (a, it') → Unfolds next it' xs → Unfolds next it (a :: xs)

abbrev relayPipe {ι σ α β : Type} (next : ι → Option (α × ι)) (it0 : ι) (k : Relay.Kind σ α β) :=
  compose (compose (FromIter.machine Unit next it0) (Relay.machine k)) (ForEach.machine β)

variable {ι σ α β : Type}

abbrev PSt (ι σ α : Type) := (FromIter.St ι α × Relay.St σ) × ForEach.St
abbrev ILoc (α β : Type) := List (CFr FromIter.Loc (Relay.Loc α β))
abbrev PLoc (α β : Type) := List (CFr (ILoc α β) (ForEach.Loc β))
abbrev PSys (ι σ α β : Type) := Sys (PSt ι σ α) (PLoc α β) Unit β

/-- the continuation of the original `subscribe`: for_each `sub0`'s, the relay's greeting/`sub0`, from_iter `sub0`'s -/
def K : PLoc α β := [.hi .done, .lo [.hi .done, .lo .done, .hi .done], .hi .done]
/-- control is at the head of from_iter's `while` loop, which runs inside the first `Pull` of for_each -/
def Lw : PLoc α β := .lo [.lo .w0, .hi .done] :: K
/-- the continuation of a closure call -/
def WB : PLoc α β := .hi .pull :: .lo [.hi .done, .lo .w0, .hi .done] :: K

def loopSt (it : ι) (c : Nat) (sl : Bool) (priv : σ) : PSt ι σ α :=
  ((⟨it, none, c, true, true, false, false⟩, ⟨sl, priv⟩), ⟨true⟩)
def waitSt (it : ι) (c : Nat) (sl : Bool) (priv : σ) : PSt ι σ α :=
  ((⟨it, none, c, true, false, false, false⟩, ⟨sl, priv⟩), ⟨true⟩)
def endSt (it : ι) (c : Nat) (sl : Bool) (priv : σ) : PSt ι σ α :=
  ((⟨it, none, c, false, false, false, true⟩, ⟨sl, priv⟩), ⟨true⟩)

macro "ev" : tactic =>
  `(tactic| simp [advance, opStep, relayPipe, compose, FromIter.machine, Relay.machine, ForEach.machine,
      FromIter.enter, Relay.enter, ForEach.enter, FromIter.step, Relay.step, ForEach.step, K, Lw, WB, loopSt, waitSt, endSt, Sys.init, *])

variable (next : ι → Option (α × ι)) (it0 : ι) (k : Relay.Kind σ α β)

theorem pull_seg (it : ι) (c : Nat) (priv : σ) (g : G) (tr : List (Ev Unit β)) :
    advance (relayPipe next it0 k) 8 ⟨waitSt it c k.slotted priv, [.run WB], g, tr, none⟩
      = ⟨loopSt it c k.slotted priv, [.run Lw], g, tr, none⟩ := by
  ev

theorem iter_emit (it it' : ι) (a : α) (b : β) (c : Nat) (sl : Bool) (priv : σ) (g : G) (tr : List (Ev Unit β))
    (hn : next it = some (a, it')) (hx : (k.xfer priv a).2 = some b) :
    advance (relayPipe next it0 k) 8 ⟨loopSt it c sl priv, [.run Lw], g, tr, none⟩
      = ⟨waitSt it' (c + 1) sl (k.xfer priv a).1, [.wait (.app b) WB],
          g.onOut (relayPipe next it0 k).shape (.app b), .out (.app b) :: tr, none⟩ := by
  ev

theorem iter_drop (it it' : ι) (a : α) (c : Nat) (priv : σ) (g : G) (tr : List (Ev Unit β))
    (hn : next it = some (a, it')) (hx : (k.xfer priv a).2 = none) :
    advance (relayPipe next it0 k) 11 ⟨loopSt it c true priv, [.run Lw], g, tr, none⟩
      = ⟨loopSt it' (c + 1) true (k.xfer priv a).1, [.run Lw], g, tr, none⟩ := by
  ev

theorem iter_end (it : ι) (c : Nat) (sl : Bool) (priv : σ) (g : G) (tr : List (Ev Unit β))
    (hn : next it = none) :
    advance (relayPipe next it0 k) 16 ⟨loopSt it c sl priv, [.run Lw], g, tr, none⟩
      = ⟨endSt it (c + 1) sl priv, [], g.onRetO 0, .retO :: tr, none⟩ := by
  ev

theorem init_seg (g : G) (tr : List (Ev Unit β)) :
    advance (relayPipe next it0 k) 13 ⟨(relayPipe next it0 k).init, [.run ((relayPipe next it0 k).enter (.subscribe 0))], g, tr, none⟩
      = ⟨loopSt it0 0 k.slotted k.seed, [.run Lw], g, tr, none⟩ := by
  cases hk : k.slotted <;> ev

/-! ## generalities -/

theorem advance_add {St Loc α β : Type} (M : Machine St Loc α β) (n m : Nat) (s : Sys St Loc α β) :
    advance M (n + m) s = advance M m (advance M n s) := by
  induction n generalizing s with
  | zero => simp [advance]
  | succ n ih =>
    rw [Nat.succ_add]
    simp only [advance]
    cases h : opStep M s with
    | none =>
      cases m with
      | zero => rfl
      | succ m => simp [advance, h]
    | some s' => exact ih s'

@[simp] theorem apps_nil : apps ([] : List (Ev Unit β)) = [] := rfl
@[simp] theorem apps_app (b : β) (tr : List (Ev Unit β)) : apps (.out (.app b) :: tr) = apps tr ++ [b] := by
  simp [apps]
@[simp] theorem apps_inp (i : In Unit) (tr : List (Ev Unit β)) : apps (.inp i :: tr) = apps tr := by simp [apps]
@[simp] theorem apps_retE (tr : List (Ev Unit β)) : apps (.retE :: tr) = apps tr := by simp [apps]
@[simp] theorem apps_retO (tr : List (Ev Unit β)) : apps (.retO :: tr) = apps tr := by simp [apps]
@[simp] theorem apps_panic (tr : List (Ev Unit β)) : apps (.panic :: tr) = apps tr := by simp [apps]

/-- along one event the applications grow at the end, if at all -/
theorem apps_cons_prefix (e : Ev Unit β) (tr : List (Ev Unit β)) : apps tr <+: apps (e :: tr) := by
  simp only [apps, List.reverse_cons, List.filterMap_append]
  exact List.prefix_append _ _

/-! ## the loop of from_iter: from the head of the `while` to the next closure call, or to the end -/

theorem loop_runs (hk : k.slotted = false → ∀ s a, (k.xfer s a).2 ≠ none) (it : ι) (rest : List α) (hu : Unfolds next it rest) :
    ∀ (c : Nat) (priv : σ) (g : G) (tr : List (Ev Unit β)),
    ∃ n g', g'.ph = g.ph ∧
      ((∃ b it' rest' c' priv',
          advance (relayPipe next it0 k) n ⟨loopSt it c k.slotted priv, [.run Lw], g, tr, none⟩
            = ⟨waitSt it' c' k.slotted priv', [.wait (.app b) WB], g', .out (.app b) :: tr, none⟩ ∧
          Unfolds next it' rest' ∧ xferOut k.xfer priv rest = b :: xferOut k.xfer priv' rest' ∧
          c' + rest'.length = c + rest.length ∧ c < c') ∨
       (∃ st, advance (relayPipe next it0 k) n ⟨loopSt it c k.slotted priv, [.run Lw], g, tr, none⟩
            = ⟨st, [], g', .retO :: tr, none⟩ ∧
          xferOut k.xfer priv rest = [] ∧ st.1.1.nexts = c + rest.length + 1)) := by
  induction hu with
  | @nil it hn =>
    intro c priv g tr
    exact ⟨16, _, onRetO_ph g 0, Or.inr ⟨_, iter_end next it0 k it c _ priv g tr hn, by simp [xferOut], by simp [endSt]⟩⟩
  | @cons it a it' rest hn hu' ih =>
    intro c priv g tr
    cases hx : (k.xfer priv a).2 with
    | some b =>
      refine ⟨8, _, onOut_ph _ g (.app b), Or.inl ⟨b, it', rest, c + 1, _, iter_emit next it0 k it it' a b c _ priv g tr hn hx, hu', ?_, ?_, ?_⟩⟩
      · simp [xferOut, hx]
      · simp; omega
      · omega
    | none =>
      have hs : k.slotted = true := by
        cases h : k.slotted with
        | true => rfl
        | false => exact absurd hx (hk h _ _)
      obtain ⟨n, g', hg', h⟩ := ih (c + 1) (k.xfer priv a).1 g tr
      refine ⟨11 + n, g', hg', ?_⟩
      rw [advance_add]
      have hd := iter_drop next it0 k it it' a c priv g tr hn hx
      rw [hs] at h ⊢
      rw [hd]
      rcases h with ⟨b, it'', rest', c', priv', h1, h2, h3, h4, h5⟩ | ⟨st, h1, h2, h3⟩
      · exact Or.inl ⟨b, it'', rest', c', priv', h1, h2, by simp [xferOut, hx, h3], by simp at h4 ⊢; omega, by omega⟩
      · exact Or.inr ⟨st, h1, by simp [xferOut, hx, h2], by simp at h3 ⊢; omega⟩

/-! ## the invariant at the environment turns -/

theorem default_sinkPh : (default : SinkPh) = .idle := rfl
theorem default_srcPh : (default : SrcPh) = .idle := rfl

/-- the ghost phases once `for_each(f)(source)` has been applied: nothing at the boundary is ever greeted or subscribed -/
def ph1 : Ph := ⟨[.subscribed], [], []⟩

variable (xs : List α)

/-- (A) nothing has happened yet -/
def InvA (s : PSys ι σ α β) : Prop :=
  s.st = (relayPipe next it0 k).init ∧ s.stack = [] ∧ s.g.ph = {} ∧ s.tr = []

/-- (B) inside a closure call: what `f` has seen so far, followed by what the rest of the iterator will produce, is the list function -/
def InvB (s : PSys ι σ α β) : Prop :=
  ∃ it c priv b rest, s.st = waitSt it c k.slotted priv ∧ s.stack = [.wait (.app b) WB] ∧ s.g.ph = ph1 ∧
    Unfolds next it rest ∧ apps s.tr ++ xferOut k.xfer priv rest = xferOut k.xfer k.seed xs ∧ c + rest.length = xs.length

/-- (C) the application `for_each(f)(source)` has returned -/
def InvC (s : PSys ι σ α β) : Prop :=
  s.stack = [] ∧ s.g.ph = ph1 ∧ apps s.tr = xferOut k.xfer k.seed xs ∧ s.st.1.1.nexts = xs.length + 1 ∧ s.tr ≠ []

def Inv (s : PSys ι σ α β) : Prop :=
  s.panicked = none ∧ (InvA next it0 k s ∨ InvB next k xs s ∨ InvC k xs s)

theorem inv_init : Inv next it0 k xs (Sys.init (relayPipe next it0 k)) :=
  ⟨rfl, Or.inl ⟨rfl, rfl, rfl, rfl⟩⟩

theorem inv_turn (s : PSys ι σ α β) (h : Inv next it0 k xs s) : EnvTurn s := by
  obtain ⟨hp, h | ⟨_, _, _, _, _, _, h, _⟩ | h⟩ := h
  · exact ⟨hp, by rw [h.2.1]; rfl⟩
  · exact ⟨hp, by rw [h]; rfl⟩
  · exact ⟨hp, by rw [h.1]; rfl⟩

/-- from the head of the loop the pipeline runs into (B) or (C) -/
theorem inv_of_loop (hk : k.slotted = false → ∀ s a, (k.xfer s a).2 ≠ none)
    (it : ι) (rest : List α) (c : Nat) (priv : σ) (g : G) (tr : List (Ev Unit β))
    (hg : g.ph = ph1) (hu : Unfolds next it rest)
    (happ : apps tr ++ xferOut k.xfer priv rest = xferOut k.xfer k.seed xs) (hc : c + rest.length = xs.length) :
    ∃ n, Inv next it0 k xs (advance (relayPipe next it0 k) n ⟨loopSt it c k.slotted priv, [.run Lw], g, tr, none⟩) := by
  obtain ⟨n, g', hg', h⟩ := loop_runs next it0 k hk it rest hu c priv g tr
  refine ⟨n, ?_⟩
  rcases h with ⟨b, it', rest', c', priv', h1, h2, h3, h4, _⟩ | ⟨st, h1, h2, h3⟩
  · rw [h1]
    refine ⟨rfl, Or.inr (Or.inl ⟨it', c', priv', b, rest', rfl, rfl, hg'.trans hg, h2, ?_, by omega⟩)⟩
    rw [← happ, h3]; simp
  · rw [h1]
    refine ⟨rfl, Or.inr (Or.inr ⟨rfl, hg'.trans hg, ?_, by simp only; omega, by simp⟩)⟩
    rw [← happ, h2]; simp

/-- the environment of the closed pipeline can only apply `for_each(f)(source)`, once, and return from the closure calls -/
theorem env_moves (s s' : PSys ι σ α β) (m : Move Unit) (hi : Inv next it0 k xs s) (he : EnvStep (relayPipe next it0 k) m s s') :
    (m = .call (.subscribe 0) ∧ InvA next it0 k s) ∨ (m = .ret ∧ InvB next k xs s) := by
  cases he with
  | @call st stk g tr c i hc hl =>
    obtain ⟨_, ⟨hst, hstk, hg, htr⟩ | ⟨it, c', priv, b, rest, hst, hstk, hg, _⟩ | ⟨hstk, hg, _⟩⟩ := hi
    · simp only at hstk hg
      subst hstk
      simp only [ctxOf, Option.some.injEq] at hc
      subst hc
      cases i with
      | subscribe j =>
        have hj : j = 0 := by
          simpa [legalIn, isTop, hg, Ph.sinkPh, phAt, default_sinkPh, compose, ForEach.machine] using hl
        subst hj
        exact Or.inl ⟨rfl, hst, rfl, hg, htr⟩
      | sinkUp j u => simp [legalIn, hg, Ph.sinkPh, phAt, default_sinkPh] at hl
      | srcGreet j => simp [legalIn, hg, Ph.srcPh, phAt, default_srcPh] at hl
      | srcDown j d => simp [legalIn, hg, Ph.srcPh, phAt, default_srcPh] at hl
    · simp only at hstk hg
      subst hstk
      simp only [ctxOf, Option.some.injEq] at hc
      subst hc
      cases i with
      | subscribe j => simp [legalIn, isTop] at hl
      | sinkUp j u => cases j <;> simp [legalIn, hg, ph1, Ph.sinkPh, phAt, default_sinkPh] at hl
      | srcGreet j => simp [legalIn, hg, ph1, Ph.srcPh, phAt, default_srcPh] at hl
      | srcDown j d => simp [legalIn, hg, ph1, Ph.srcPh, phAt, default_srcPh] at hl
    · simp only at hstk hg
      subst hstk
      simp only [ctxOf, Option.some.injEq] at hc
      subst hc
      cases i with
      | subscribe j => cases j <;> simp [legalIn, isTop, hg, ph1, Ph.sinkPh, phAt, default_sinkPh, compose, ForEach.machine] at hl
      | sinkUp j u => cases j <;> simp [legalIn, hg, ph1, Ph.sinkPh, phAt, default_sinkPh] at hl
      | srcGreet j => simp [legalIn, hg, ph1, Ph.srcPh, phAt, default_srcPh] at hl
      | srcDown j d => simp [legalIn, hg, ph1, Ph.srcPh, phAt, default_srcPh] at hl
  | @ret st stk g tr o l hl =>
    obtain ⟨_, ⟨_, hstk, _⟩ | hb | ⟨hstk, _⟩⟩ := hi
    · simp at hstk
    · exact Or.inr ⟨rfl, hb⟩
    · simp at hstk

theorem inv_step (hk : k.slotted = false → ∀ s a, (k.xfer s a).2 ≠ none) (hx : Unfolds next it0 xs)
    (s s' : PSys ι σ α β) (m : Move Unit) (hi : Inv next it0 k xs s) (he : EnvStep (relayPipe next it0 k) m s s') :
    ∃ n, Inv next it0 k xs (advance (relayPipe next it0 k) n s') := by
  cases he with
  | @call st stk g tr c i hc hl =>
    obtain ⟨_, ⟨hst, hstk, hg, htr⟩ | ⟨it, c', priv, b, rest, hst, hstk, hg, _⟩ | ⟨hstk, hg, _⟩⟩ := hi
    · simp only at hst hstk hg htr
      subst hstk htr hst
      simp only [ctxOf, Option.some.injEq] at hc
      subst hc
      cases i with
      | subscribe j =>
        have hj : j = 0 := by
          simpa [legalIn, isTop, hg, Ph.sinkPh, phAt, default_sinkPh, compose, ForEach.machine] using hl
        subst hj
        obtain ⟨n, hn⟩ := inv_of_loop next it0 k xs hk it0 xs 0 k.seed (g.onIn 0 (.subscribe 0)) [.inp (.subscribe 0)]
          (by simp [G.onIn, hg, Ph.onIn, Ph.setSink, setAt, ph1]) hx (by simp) (by simp)
        refine ⟨13 + n, ?_⟩
        rw [advance_add]
        have := init_seg next it0 k (g.onIn 0 (.subscribe 0 : In Unit)) [.inp (.subscribe 0)]
        simp only [List.length_nil] at this ⊢
        rw [this]; exact hn
      | sinkUp j u => simp [legalIn, hg, Ph.sinkPh, phAt, default_sinkPh] at hl
      | srcGreet j => simp [legalIn, hg, Ph.srcPh, phAt, default_srcPh] at hl
      | srcDown j d => simp [legalIn, hg, Ph.srcPh, phAt, default_srcPh] at hl
    · simp only at hstk hg
      subst hstk
      simp only [ctxOf, Option.some.injEq] at hc
      subst hc
      cases i with
      | subscribe j => simp [legalIn, isTop] at hl
      | sinkUp j u => cases j <;> simp [legalIn, hg, ph1, Ph.sinkPh, phAt, default_sinkPh] at hl
      | srcGreet j => simp [legalIn, hg, ph1, Ph.srcPh, phAt, default_srcPh] at hl
      | srcDown j d => simp [legalIn, hg, ph1, Ph.srcPh, phAt, default_srcPh] at hl
    · simp only at hstk hg
      subst hstk
      simp only [ctxOf, Option.some.injEq] at hc
      subst hc
      cases i with
      | subscribe j => cases j <;> simp [legalIn, isTop, hg, ph1, Ph.sinkPh, phAt, default_sinkPh, compose, ForEach.machine] at hl
      | sinkUp j u => cases j <;> simp [legalIn, hg, ph1, Ph.sinkPh, phAt, default_sinkPh] at hl
      | srcGreet j => simp [legalIn, hg, ph1, Ph.srcPh, phAt, default_srcPh] at hl
      | srcDown j d => simp [legalIn, hg, ph1, Ph.srcPh, phAt, default_srcPh] at hl
  | @ret st stk g tr o l hl =>
    obtain ⟨_, ⟨_, hstk, _⟩ | ⟨it, c, priv, b, rest, hst, hstk, hg, hu, happ, hc⟩ | ⟨hstk, _⟩⟩ := hi
    · simp at hstk
    · simp only at hst hstk hg happ
      simp only [List.cons.injEq, Frame.wait.injEq] at hstk
      obtain ⟨⟨ho, hl'⟩, hstk⟩ := hstk
      subst ho hl' hstk hst
      obtain ⟨n, hn⟩ := inv_of_loop next it0 k xs hk it rest c priv g (.retE :: tr) hg hu (by simpa using happ) hc
      refine ⟨8 + n, ?_⟩
      rw [advance_add, pull_seg]; exact hn
    · simp at hstk

/-! ## lifting to every small-step reachable configuration -/

/-- an operator step adds at most one event to the trace and never un-panics -/
theorem opStep_tr {St Loc α β : Type} (M : Machine St Loc α β) (a b : Sys St Loc α β) (h : opStep M a = some b) :
    b.tr = a.tr ∨ ∃ e, b.tr = e :: a.tr := by
  unfold opStep at h
  cases hp : a.panicked with
  | some m => simp [hp] at h
  | none =>
    simp only [hp, Option.isSome_none, Bool.false_eq_true, ↓reduceIte] at h
    cases hstk : a.stack with
    | nil => simp [hstk] at h
    | cons f r =>
      cases f with
      | wait o l => simp [hstk] at h
      | run l =>
        simp only [hstk] at h
        cases hst : M.step a.st l with
        | ret => simp only [hst, Option.some.injEq] at h; subst h; exact Or.inr ⟨_, rfl⟩
        | tau s' l' => simp only [hst, Option.some.injEq] at h; subst h; exact Or.inl rfl
        | call o s' l' => simp only [hst, Option.some.injEq] at h; subst h; exact Or.inr ⟨_, rfl⟩
        | panic m => simp only [hst, Option.some.injEq] at h; subst h; exact Or.inr ⟨_, rfl⟩

/-- what is claimed of every configuration: no panic, and `f` has been applied to a prefix of the list function -/
def Good (s : PSys ι σ α β) : Prop := s.panicked = none ∧ apps s.tr <+: xferOut k.xfer k.seed xs

theorem good_of_inv (s : PSys ι σ α β) (h : Inv next it0 k xs s) : Good k xs s := by
  obtain ⟨hp, ⟨_, _, _, htr⟩ | ⟨_, _, _, _, _, _, _, _, _, happ, _⟩ | ⟨_, _, happ, _⟩⟩ := h
  · exact ⟨hp, by rw [htr]; exact List.nil_prefix⟩
  · exact ⟨hp, ⟨_, happ⟩⟩
  · exact ⟨hp, by rw [happ]; exact List.prefix_refl _⟩

theorem good_mono (a b : PSys ι σ α β) (h : opStep (relayPipe next it0 k) a = some b) (hb : Good k xs b) : Good k xs a := by
  refine ⟨(opStep_viols_suffix _ a b h).2.2 hb.1, ?_⟩
  rcases opStep_tr _ a b h with ht | ⟨e, ht⟩
  · rw [← ht]; exact hb.2
  · exact List.IsPrefix.trans (by rw [ht]; exact apps_cons_prefix e a.tr) hb.2

theorem relayPipe_good (hk : k.slotted = false → ∀ s a, (k.xfer s a).2 ≠ none) (hx : Unfolds next it0 xs) :
    ∀ s, SReach (relayPipe next it0 k) s → Good k xs s :=
  reach_of_macro_inv (relayPipe next it0 k) anyEnv (Good k xs) (Inv next it0 k xs) (inv_init next it0 k xs)
    (fun s hi => ⟨inv_turn next it0 k xs s hi, good_of_inv next it0 k xs s hi⟩)
    (fun s s' m hi he _ => inv_step next it0 k xs hk hx s s' m hi he)
    (good_mono next it0 k xs)

theorem relayPipe_runs_into_inv (hk : k.slotted = false → ∀ s a, (k.xfer s a).2 ≠ none) (hx : Unfolds next it0 xs) :
    ∀ s, SReach (relayPipe next it0 k) s → ∃ n, Inv next it0 k xs (advance (relayPipe next it0 k) n s) :=
  reach_runs_into_inv (relayPipe next it0 k) anyEnv (Inv next it0 k xs) (inv_init next it0 k xs)
    (inv_turn next it0 k xs) (fun s s' m hi he _ => inv_step next it0 k xs hk hx s s' m hi he)

/-! ## the end-to-end theorems -/

/-- `f` is only ever applied to a prefix of the list function, in order, and nothing panics (in particular for_each's
`expect("source talkback not set")`, the relay's, and from_iter's `unwrap` never fire) -/
theorem relayPipe_prefix (hk : k.slotted = false → ∀ s a, (k.xfer s a).2 ≠ none) (hx : Unfolds next it0 xs) :
    ∀ s, SReach (relayPipe next it0 k) s →
      s.panicked = none ∧ ∃ m, apps s.tr = (xferOut k.xfer k.seed xs).take m := by
  intro s hs
  obtain ⟨hp, hpre⟩ := relayPipe_good next it0 k xs hk hx s hs
  exact ⟨hp, _, List.prefix_iff_eq_take.1 hpre⟩

/-- when control is back at top level after the application `for_each(f)(source)`, everything has been delivered and the iterator was
advanced exactly `xs.length + 1` times -/
theorem relayPipe_complete (hk : k.slotted = false → ∀ s a, (k.xfer s a).2 ≠ none) (hx : Unfolds next it0 xs) :
    ∀ s, SReach (relayPipe next it0 k) s → s.stack = [] → s.tr ≠ [] →
      apps s.tr = xferOut k.xfer k.seed xs ∧ s.st.1.1.nexts = xs.length + 1 := by
  intro s hs hstk htr
  have hp := (relayPipe_good next it0 k xs hk hx s hs).1
  have ht : EnvTurn s := ⟨hp, by rw [hstk]; rfl⟩
  obtain ⟨n, hn⟩ := relayPipe_runs_into_inv next it0 k xs hk hx s hs
  rw [advance_of_envTurn ht] at hn
  obtain ⟨_, ⟨_, _, _, h⟩ | ⟨_, _, _, _, _, _, h, _⟩ | ⟨_, _, h1, h2, _⟩⟩ := hn
  · exact absurd h htr
  · rw [hstk] at h; cases h
  · exact ⟨h1, h2⟩

/-- the pipeline never diverges between two closure calls -/
theorem relayPipe_progress (hk : k.slotted = false → ∀ s a, (k.xfer s a).2 ≠ none) (hx : Unfolds next it0 xs) :
    ∀ s, SReach (relayPipe next it0 k) s → ∃ n, EnvTurn (advance (relayPipe next it0 k) n s) := by
  intro s hs
  obtain ⟨n, hn⟩ := relayPipe_runs_into_inv next it0 k xs hk hx s hs
  exact ⟨n, inv_turn next it0 k xs _ hn⟩

theorem sReach_advance {St Loc α β : Type} (M : Machine St Loc α β) (n : Nat) (s : Sys St Loc α β) (h : SReach M s) :
    SReach M (advance M n s) := by
  induction n generalizing s with
  | zero => exact h
  | succ n ih =>
    simp only [advance]
    cases ho : opStep M s with
    | none => exact h
    | some s' => exact ih s' (.step h (.op ho))

/-- the hypotheses of `relayPipe_complete` are satisfiable: if the closure returns every time, the application returns -/
theorem relayPipe_finishes (hk : k.slotted = false → ∀ s a, (k.xfer s a).2 ≠ none) (hx : Unfolds next it0 xs) :
    ∃ s, SReach (relayPipe next it0 k) s ∧ s.stack = [] ∧ s.tr ≠ [] := by
  have key : ∀ (N : Nat) (it : ι) (rest : List α) (c : Nat) (priv : σ) (g : G) (tr : List (Ev Unit β)),
      rest.length ≤ N → Unfolds next it rest →
      SReach (relayPipe next it0 k) ⟨loopSt it c k.slotted priv, [.run Lw], g, tr, none⟩ →
      ∃ s, SReach (relayPipe next it0 k) s ∧ s.stack = [] ∧ s.tr ≠ [] := by
    intro N
    induction N with
    | zero =>
      intro it rest c priv g tr hN hu hr
      obtain ⟨n, g', _, h⟩ := loop_runs next it0 k hk it rest hu c priv g tr
      have hr' := sReach_advance _ n _ hr
      rcases h with ⟨b, it', rest', c', priv', h1, h2, h3, h4, h5⟩ | ⟨st, h1, _, _⟩
      · omega
      · rw [h1] at hr'; exact ⟨_, hr', rfl, by simp⟩
    | succ N ih =>
      intro it rest c priv g tr hN hu hr
      obtain ⟨n, g', _, h⟩ := loop_runs next it0 k hk it rest hu c priv g tr
      have hr' := sReach_advance _ n _ hr
      rcases h with ⟨b, it', rest', c', priv', h1, h2, h3, h4, h5⟩ | ⟨st, h1, _, _⟩
      · rw [h1] at hr'
        have hr2 := sReach_advance _ 8 _ (SReachR.step hr' (.env (EnvStep.ret (by rfl)) trivial))
        rw [pull_seg] at hr2
        exact ih it' rest' c' priv' _ _ (by omega) h2 hr2
      · rw [h1] at hr'; exact ⟨_, hr', rfl, by simp⟩
  have h0 : SReach (relayPipe next it0 k) (Sys.init (relayPipe next it0 k)) := .init
  have h1 := sReach_advance _ 13 _ (SReachR.step h0 (.env (EnvStep.call (c := .top) (.subscribe 0) rfl
    (by simp [legalIn, isTop, Ph.sinkPh, phAt, default_sinkPh])) trivial))
  have h2 := init_seg next it0 k (({} : G).onIn 0 (.subscribe 0 : In Unit)) [.inp (.subscribe 0)]
  simp only [List.length_nil] at h1
  rw [h2] at h1
  exact key xs.length it0 xs 0 k.seed _ _ (Nat.le_refl _) hx h1

/-- the three statements together, relative to a list `out` known to be the list function -/
theorem relayPipe_all (hk : k.slotted = false → ∀ s a, (k.xfer s a).2 ≠ none) (hx : Unfolds next it0 xs)
    (out : List β) (hout : xferOut k.xfer k.seed xs = out) :
    ∀ s, SReach (relayPipe next it0 k) s →
      s.panicked = none ∧ (∃ m, apps s.tr = out.take m) ∧
      (s.stack = [] → s.tr ≠ [] → apps s.tr = out ∧ s.st.1.1.nexts = xs.length + 1) ∧
      ∃ n, EnvTurn (advance (relayPipe next it0 k) n s) := by
  intro s hs
  subst hout
  exact ⟨(relayPipe_prefix next it0 k xs hk hx s hs).1, (relayPipe_prefix next it0 k xs hk hx s hs).2,
    relayPipe_complete next it0 k xs hk hx s hs, relayPipe_progress next it0 k xs hk hx s hs⟩

/-! ## the four operators -/

/-- `pipe!(from_iter(xs), map(f), for_each(g))`: `g` is applied to `xs.map f` -/
theorem map_pipe {β : Type} (f : α → β) (hx : Unfolds next it0 xs) :
    ∀ s, SReach (relayPipe next it0 (Relay.map f)) s →
      s.panicked = none ∧ (∃ m, apps s.tr = (xs.map f).take m) ∧
      (s.stack = [] → s.tr ≠ [] → apps s.tr = xs.map f ∧ s.st.1.1.nexts = xs.length + 1) ∧
      ∃ n, EnvTurn (advance (relayPipe next it0 (Relay.map f)) n s) :=
  relayPipe_all next it0 (Relay.map f) xs (by intro _ s a; simp [Relay.map]) hx _ (RelayFun.xferOut_map f _ xs)

/-- `pipe!(from_iter(xs), filter(p), for_each(g))`: `g` is applied to `xs.filter p` -/
theorem filter_pipe (p : α → Bool) (hx : Unfolds next it0 xs) :
    ∀ s, SReach (relayPipe next it0 (Relay.filter p)) s →
      s.panicked = none ∧ (∃ m, apps s.tr = (xs.filter p).take m) ∧
      (s.stack = [] → s.tr ≠ [] → apps s.tr = xs.filter p ∧ s.st.1.1.nexts = xs.length + 1) ∧
      ∃ n, EnvTurn (advance (relayPipe next it0 (Relay.filter p)) n s) :=
  relayPipe_all next it0 (Relay.filter p) xs (by intro h; simp [Relay.filter] at h) hx _ (RelayFun.xferOut_filter p _ xs)

/-- `pipe!(from_iter(xs), scan(r, seed), for_each(g))`: `g` is applied to the running fold `scanF r seed xs` -/
theorem scan_pipe {β : Type} (r : β → α → β) (seed : β) (hx : Unfolds next it0 xs) :
    ∀ s, SReach (relayPipe next it0 (Relay.scan r seed)) s →
      s.panicked = none ∧ (∃ m, apps s.tr = (scanF r seed xs).take m) ∧
      (s.stack = [] → s.tr ≠ [] → apps s.tr = scanF r seed xs ∧ s.st.1.1.nexts = xs.length + 1) ∧
      ∃ n, EnvTurn (advance (relayPipe next it0 (Relay.scan r seed)) n s) :=
  relayPipe_all next it0 (Relay.scan r seed) xs (by intro _ s a; simp [Relay.scan]) hx _ (RelayFun.xferOut_scan r seed seed xs)

/-- `pipe!(from_iter(xs), skip(n), for_each(g))`: `g` is applied to `xs.drop n` -/
theorem skip_pipe (n : Nat) (hx : Unfolds next it0 xs) :
    ∀ s, SReach (relayPipe next it0 (Relay.skip (α := α) n)) s →
      s.panicked = none ∧ (∃ m, apps s.tr = (xs.drop n).take m) ∧
      (s.stack = [] → s.tr ≠ [] → apps s.tr = xs.drop n ∧ s.st.1.1.nexts = xs.length + 1) ∧
      ∃ m, EnvTurn (advance (relayPipe next it0 (Relay.skip (α := α) n)) m s) :=
  relayPipe_all next it0 (Relay.skip n) xs (by intro h; simp [Relay.skip] at h) hx _
    (by have := RelayFun.xferOut_skip n 0 xs; simpa [Relay.skip] using this)

/-! ## non-vacuity -/

/-- the iterator of a list -/
def listNext {α : Type} : List α → Option (α × List α)
  | [] => none
  | a :: as => some (a, as)

theorem unfolds_list {α : Type} (xs : List α) : Unfolds listNext xs xs := by
  induction xs with
  | nil => exact .nil rfl
  | cons a as ih => exact .cons rfl ih

example : Unfolds listNext [1, 2, 3] [1, 2, 3] := unfolds_list _

/-- an iterator that is not a list: counting down -/
example : Unfolds (fun n : Nat => if n = 0 then none else some (10 * n, n - 1)) 3 [30, 20, 10] :=
  .cons rfl (.cons rfl (.cons rfl (.nil rfl)))

/-- `pipe!(from_iter([1,2,3,4,5]), filter(even), for_each(f))`: once the application has returned, `f` was applied to `2` and `4`, in
this order, and `next` was called six times -/
example (s) (hs : SReach (relayPipe listNext [1, 2, 3, 4, 5] (Relay.filter (fun n => n % 2 == 0))) s) (h : s.stack = [])
    (h' : s.tr ≠ []) : apps s.tr = [2, 4] ∧ s.st.1.1.nexts = 6 :=
  ((filter_pipe listNext [1, 2, 3, 4, 5] [1, 2, 3, 4, 5] _ (unfolds_list _) s hs).2.2.1 h h')

/-- … and such a configuration exists: the theorem is not about an empty set of runs -/
example : ∃ s, SReach (relayPipe listNext [1, 2, 3] (Relay.map (· + 1))) s ∧ s.stack = [] ∧ apps s.tr = [2, 3, 4] := by
  obtain ⟨s, hs, h, h'⟩ := relayPipe_finishes listNext [1, 2, 3] (Relay.map (· + 1)) [1, 2, 3] (by intro _ s a; simp [Relay.map])
    (unfolds_list _)
  exact ⟨s, hs, h, ((map_pipe listNext [1, 2, 3] [1, 2, 3] _ (unfolds_list _) s hs).2.2.1 h h').1⟩

end Cb.Closed

#print axioms Cb.Closed.relayPipe_prefix
#print axioms Cb.Closed.relayPipe_complete
#print axioms Cb.Closed.relayPipe_progress
#print axioms Cb.Closed.relayPipe_finishes
#print axioms Cb.Closed.env_moves
#print axioms Cb.Closed.map_pipe
#print axioms Cb.Closed.filter_pipe
#print axioms Cb.Closed.scan_pipe
#print axioms Cb.Closed.skip_pipe
