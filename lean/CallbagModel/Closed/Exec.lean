import CallbagModel.Script
import CallbagModel.Ops.Compose
import CallbagModel.Ops.Plug
import CallbagModel.Ops.Concat
import CallbagModel.Ops.FromIter
import CallbagModel.Ops.Relay
import CallbagModel.Ops.Take
import CallbagModel.Ops.ForEach
/-!
# Closed pipelines as ONE machine, executable

`pipe!(from_iter(xs), op₁, …, opₙ, for_each(f))` built with `compose` from the operator machines of `Ops/`.  The number of nested
`compose`s depends on the program, so the machine is packaged with its state and location types (`AnyM`).  `runClosed` plays the only
environment there is — it makes the application (`subscribe 0`) and returns from every closure call — and reports the arguments of the
closure calls, the number of iterator advances, whether the application returned, and whether anything panicked or the monitor
flagged a violation at the (trivial) external boundary.

Used by the driver (`cbdrv pipe`) to compare, on every LINEAR program of the C06 stream, the network of operator machines with the
demand semantics `sem` and with the real crate (DESIGN §9.8); the theorems about such networks are in `Closed/RelayPipe.lean` and
`Closed/TakePipe.lean`.
-/
namespace Cb.Closed

/-- a machine over `Int` data together with its types and a reader for the ghost counter of iterator advances -/
structure AnyM where
  St : Type
  Loc : Type
  M : Machine St Loc Int Int
  nexts : St → Nat

def listNextI : List Int → Option (Int × List Int)
  | [] => none
  | a :: t => some (a, t)

def srcM (xs : List Int) : AnyM :=
  { St := FromIter.St (List Int) Int, Loc := FromIter.Loc, M := FromIter.machine Int listNextI xs, nexts := fun s => s.nexts }

def thenM (A B : AnyM) : AnyM :=
  { St := A.St × B.St, Loc := List (CFr A.Loc B.Loc), M := compose A.M B.M, nexts := fun s => A.nexts s.1 + B.nexts s.2 }

def relayM {σ : Type} (k : Relay.Kind σ Int Int) : AnyM :=
  { St := Relay.St σ, Loc := Relay.Loc Int Int, M := Relay.machine k, nexts := fun _ => 0 }

def takeM (n : Nat) : AnyM := { St := Take.St, Loc := Take.Loc Int, M := Take.machine Int n, nexts := fun _ => 0 }

/-- `B` with its upstream `j` plugged by the closed source `A` -/
def plugM (j : Nat) (A B : AnyM) : AnyM :=
  { St := A.St × B.St, Loc := List (CFr A.Loc B.Loc), M := plug j A.M B.M, nexts := fun s => A.nexts s.1 + B.nexts s.2 }

/-- `concat!(A₀, …, Aₙ₋₁)` of closed sources: every slot of the n-ary `concat` machine plugged -/
def concatM (members : List AnyM) : AnyM :=
  let base : AnyM := { St := Concat.St, Loc := Concat.Loc Int, M := Concat.machine Int members.length, nexts := fun _ => 0 }
  (members.zipIdx.foldl (fun acc (A, j) => plugM j A acc) base)

def forEachM : AnyM := { St := ForEach.St, Loc := ForEach.Loc Int, M := ForEach.machine Int, nexts := fun _ => 0 }

structure Result where
  apps : List Int
  nexts : Nat
  returned : Bool
  panicked : Bool
  viols : Nat
deriving Repr

/-- drive a closed machine: apply, then return from every closure call until control is back at top level (or fuel runs out) -/
def runClosed (A : AnyM) (fuel : Nat := 100000) : Result :=
  match envMove A.M (Sys.init A.M) (.call (.subscribe 0)) with
  | none => { apps := [], nexts := 0, returned := false, panicked := false, viols := 1 }
  | some s0 =>
    let rec go : Nat → Sys A.St A.Loc Int Int → Sys A.St A.Loc Int Int
      | 0, s => s
      | n+1, s =>
        let s := settle A.M s
        if s.panicked.isSome then s else
        match s.stack with
        | [] => s
        | _ => match envMove A.M s .ret with
          | some s' => go n s'
          | none => s
    let s := go fuel s0
    { apps := s.tr.reverse.filterMap (fun e => match e with | .out (.app b) => some b | _ => none),
      nexts := A.nexts s.st, returned := s.stack.isEmpty && s.panicked.isNone, panicked := s.panicked.isSome,
      viols := s.g.viols.length }

end Cb.Closed
