import CallbagModel.Closed.Prog2Def
import CallbagModel.Closed.Prog
import CallbagModel.Inv.FlatPlugFun
/-!
# Programs with `concat!` and `flatten(map(…))`: the machine the driver builds computes the list function of the program

`prog2_correct`: for every program built from `from_iter(xs)`, the unary stages, binary `concat!` and
`flatRep k p = flatten(map(|a| from_iter(a .. a+k))(p))` with `Prog2.ok p` (every `take n` has `0 < n`; the argument of every `flatRep` is
LINEAR: `from_iter` followed by stages), closed with `for_each(f)`: at every reachable configuration under every conformant environment
the machine `thenM p.toM forEachM` is phase-level safe and has not panicked; `f` has been applied, in order, to a prefix of
`listSem p.toPipe`; and to exactly `listSem p.toPipe` once the application has returned.

Structural induction with `HeadOkT p.toM.M (listSem p.toPipe)`, "no upstream" and — for linear programs — `PullOnly` as the invariant:
`FromIter.headOkT` / `FromIter.pullOnly`, `HeadOkT.compose` / `PullOnly.compose` with `Stg.stageT` / `Stg.stagePull`, `concat2_headOkT`,
`flat_headOkT`.

`flatRep` over a `concat!` or over another `flatRep` is NOT covered: `flat_headOkT` needs an outer source that delivers data only when
pulled; `concat!` is not such a source in general (refuted in `Inv/FlatPlugSafe.lean`), and flatten itself re-pulls the outer source
when an inner source ends, so its output answers a `Pull` only if the inner sources end only when pulled.
-/
namespace Cb.Closed
open Cb ComposeSafe ComposeFun ComposeComplete PlugSafe PlugConcat FlatPlugSafe FlatPlugFun

/-- every stage machine passes data on only in answer to a `Pull` -/
theorem Stg.stagePull (s : Stg) : StagePull s.toM.M := by
  cases s with
  | map f => exact Relay.stagePull (Relay.map f) (fun _ _ _ => by simp [Relay.map])
  | filter q => exact Relay.stagePull (Relay.filter q) (fun h => by simp [Relay.filter] at h)
  | scan r seed => exact Relay.stagePull (Relay.scan r seed) (fun _ _ _ => by simp [Relay.scan])
  | take n => exact Take.stagePull n
  | skip n => exact Relay.stagePull (Relay.skip n) (fun h => by simp [Relay.skip] at h)


/-- a `PullOnly` head followed by any number of stages is `PullOnly` -/
theorem fold_pullOnly (ss : List Stg) (hpos : ∀ n, Stg.take n ∈ ss → 0 < n) (A : AnyM) (ys : List Int) (h : HeadOk A.M ys)
    (hp : PullOnly A.M) : PullOnly (ss.foldl (fun A s => thenM A s.toM) A).M := by
  induction ss generalizing A ys with
  | nil => exact hp
  | cons s ss ih =>
    simp only [List.foldl_cons]
    have hd := s.demandStage (fun n hn => hpos n (hn ▸ List.mem_cons_self))
    refine ih (fun n hn => hpos n (List.mem_cons_of_mem _ hn)) (thenM A s.toM) (s.fn ys) (h.compose hd) ?_
    exact PullOnly.compose hp (Stg.stagePull s) (hyp_of_roles h.up hd.mono.stage.pipe.downSide)

/-- **every linear head** `pipe!(from_iter(xs), ss…)` delivers data only in answer to a `Pull` -/
theorem chain_pullOnly (xs : List Int) (ss : List Stg) (hpos : ∀ n, Stg.take n ∈ ss → 0 < n) : PullOnly (chainM xs ss).M :=
  fold_pullOnly ss hpos (srcM xs) xs (srcM_headOk xs) (FromIter.pullOnly _ _)

/-- the inner sources of `flatRep k`: `from_iter(a .. a+k)` -/
theorem inner_headOkT (k : Nat) (a : Int) :
    HeadOkT (atInit (srcM []).M ({ (srcM []).M.init with it := rangeFrom a k } : (srcM []).St)) (rangeFrom a k) :=
  srcM_headOkT (rangeFrom a k)

theorem inner_noUpstream (k : Nat) (a : Int) :
    ComposeFull.NoUpstream (atInit (srcM []).M ({ (srcM []).M.init with it := rangeFrom a k } : (srcM []).St)) :=
  ComposeFull.FromIter.noUpstream (α' := Int) listNextI (rangeFrom a k)

/-- the invariant of the structural induction -/
theorem prog2_headOkT (p : Prog2) (hok : p.ok) :
    HeadOkT p.toM.M (listSem p.toPipe) ∧ ComposeFull.NoUpstream p.toM.M ∧ (p.linear → PullOnly p.toM.M) := by
  induction p with
  | src xs => exact ⟨srcM_headOkT xs, ComposeFull.FromIter.noUpstream _ _, fun _ => FromIter.pullOnly _ _⟩
  | stage s p ih =>
    obtain ⟨h1, h2, h3⟩ := ih hok.2
    have hs := Stg.stageT s hok.1
    have H := hyp_of_roles h1.head.up hs.stage.mono.stage.pipe.downSide
    refine ⟨?_, ComposeFull.NoUpstream.compose h2 H, fun hl => PullOnly.compose (h3 hl) (Stg.stagePull s) H⟩
    show HeadOkT (compose p.toM.M s.toM.M) (listSem (s.toPipe p.toPipe))
    rw [← Stg.fn_listSem]
    exact h1.compose hs
  | concat p q ihp ihq =>
    obtain ⟨hp1, hp2, _⟩ := ihp hok.1
    obtain ⟨hq1, hq2, _⟩ := ihq hok.2
    obtain ⟨h1, h2⟩ := concat2_headOkT hp1 hp2 hq1 hq2
    exact ⟨h1, h2, fun hl => hl.elim⟩
  | flatRep k p ih =>
    obtain ⟨h1, h2, h3⟩ := ih hok.2
    obtain ⟨h4, h5⟩ := flat_headOkT (Mi := (srcM []).M) (initOf := fun a => { (srcM []).M.init with it := rangeFrom a k })
      (g := fun a => rangeFrom a k) h1 h2 (h3 hok.1) (inner_headOkT k) (inner_noUpstream k)
    exact ⟨h4, h5, fun hl => hl.elim⟩

/-- **every program with `concat!` and `flatRep`** (with `Prog2.ok`) -/
theorem prog2_correct (p : Prog2) (hok : p.ok) :
    ∀ s, SReach (thenM p.toM forEachM).M s →
      BasicSafe s ∧ applied s.tr <+: listSem p.toPipe ∧ (s.stack = [] → s.tr ≠ [] → applied s.tr = listSem p.toPipe) :=
  head_forEach_correct (prog2_headOkT p hok).1.head

/-- … and in full: C01–C05, C17 -/
theorem prog2_safe (p : Prog2) (hok : p.ok) :
    ∀ s, SReach (thenM p.toM forEachM).M s → Safe s ∧ SafeFor 4 s ∧ SafeFor 5 s :=
  ComposeFull.closed_pipeline_full₀ (prog2_headOkT p hok).1.head.up

/-- `pipe!(concat!(flatten(map(|a| from_iter(a..a+2))(pipe!(from_iter([1,5]), map(·*10)))), from_iter([7])), take(4), for_each(f))`:
`f` is applied to 10, 11, 50, 51 -/
example : ∀ s, SReach (thenM (Prog2.stage (.take 4)
      (.concat (.flatRep 2 (.stage (.map (· * 10)) (.src [1, 5]))) (.src [7]))).toM forEachM).M s →
      BasicSafe s ∧ applied s.tr <+: [10, 11, 50, 51] ∧ (s.stack = [] → s.tr ≠ [] → applied s.tr = [10, 11, 50, 51]) :=
  prog2_correct _ ⟨fun n hn => (by cases hn; decide), ⟨⟨trivial, ⟨fun n hn => (by cases hn), trivial⟩⟩, trivial⟩⟩

end Cb.Closed

#print axioms Cb.Closed.chain_pullOnly
#print axioms Cb.Closed.prog2_headOkT
#print axioms Cb.Closed.prog2_correct
#print axioms Cb.Closed.prog2_safe
