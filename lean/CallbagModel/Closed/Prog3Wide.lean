import CallbagModel.Closed.Prog3CostFlat
/-!
# `flatRep` over take-free programs: correctness, safety, completion and cost for a wider class

`Prog3.ok` asks that the argument of every `flatRep` be LINEAR — that was the only way to know that it delivers data only when pulled,
which `flatten` needs of its outer source.  Since `Inv/JoinDemand.lean` / `Inv/FlatDemandCost.lean` the take-free programs (`Prog3.tf2`:
sources, stages other than `take`, `concat2`, `concatN`, `flatRep` of take-free programs) are known to deliver and end only when pulled.
`Prog3.ok2`: every `take n` has `0 < n`, every `concatN` has a member, and the argument of every `flatRep` is linear OR take-free — so
`flatRep` over `flatRep`, and `flatRep` over a `concat!` of take-free members, are allowed.  `Prog3.ok p → Prog3.ok2 p`.

`prog3_joinHeadW` (the take-free programs under `ok2`: `JoinHead`), `prog3_headOkT2`, and from it `prog3_correct2`, `prog3_safe2`,
`prog3_completes2`; `prog3_cost_wide`: the cost theorem under `ok2 ∧ lazy2`.
-/
namespace Cb.Closed
open Cb ComposeSafe ComposeFun ComposeComplete PlugSafe PlugConcat FlatPlugSafe FlatPlugFun ConcatN ComposeCost PlugCost JoinDemand FlatDemand
  ComposeTerm

mutual
/-- every `take n` has `0 < n`, every `concatN` has a member, the argument of every `flatRep` is linear or take-free -/
def Prog3.ok2 : Prog3 → Prop
  | .src _ => True
  | .stage s p => (∀ n, s = .take n → 0 < n) ∧ p.ok2
  | .concat2 p q => p.ok2 ∧ q.ok2
  | .concatN ps => ps ≠ [] ∧ Prog3.oks2 ps
  | .flatRep _ p => (p.linear ∨ p.tf2) ∧ p.ok2
def Prog3.oks2 : List Prog3 → Prop
  | [] => True
  | p :: ps => p.ok2 ∧ Prog3.oks2 ps
end

mutual
theorem Prog3.ok2_of_ok : (p : Prog3) → p.ok → p.ok2
  | .src _, _ => trivial
  | .stage _ p, h => ⟨h.1, Prog3.ok2_of_ok p h.2⟩
  | .concat2 p q, h => ⟨Prog3.ok2_of_ok p h.1, Prog3.ok2_of_ok q h.2⟩
  | .concatN ps, h => ⟨h.1, Prog3.oks2_of_oks ps h.2⟩
  | .flatRep _ p, h => ⟨.inl h.1, Prog3.ok2_of_ok p h.2⟩
theorem Prog3.oks2_of_oks : (ps : List Prog3) → Prog3.oks ps → Prog3.oks2 ps
  | [], _ => trivial
  | p :: ps, h => ⟨Prog3.ok2_of_ok p h.1, Prog3.oks2_of_oks ps h.2⟩
end

mutual
/-- take-free programs under `ok2`: everything, under every demand -/
theorem prog3_joinHeadW : (p : Prog3) → p.ok2 → p.tf2 → JoinHead p.toM (listSem p.toPipe) (fun dem => (sem p.toPipe dem).2)
  | .src xs, _, _ =>
    have h := srcM_headCost xs
    ⟨srcM_headOkT xs, ComposeFull.FromIter.noUpstream _ _, h.pull, FromIter.endOnPull _ _, h.up, h.low, cost_mono' _⟩
  | .stage s p, hok, ht => by
    have ih := prog3_joinHeadW p hok.2 ht.2
    have hc := (headCost_of_join ih).stage s hok.1
    have hs := Stg.stageT s hok.1
    have H := hyp_of_roles ih.ok.head.up hs.stage.mono.stage.pipe.downSide
    have h1 : HeadOkT (thenM p.toM s.toM).M (listSem (s.toPipe p.toPipe)) := by
      show HeadOkT (compose p.toM.M s.toM.M) (listSem (s.toPipe p.toPipe))
      rw [← Stg.fn_listSem]; exact ih.ok.compose hs
    exact ⟨h1, ComposeFull.NoUpstream.compose ih.nu H, hc.pull, EndOnPull.compose ih.eop ih.pull (s.stageEnd ht.1) H, hc.up, hc.low,
      cost_mono' _⟩
  | .concat2 p q, hok, ht => by
    have := concat2_join (prog3_joinHeadW p hok.1 ht.1) (prog3_joinHeadW q hok.2 ht.2)
    have hc : (fun dem => (sem (Prog3.concat2 p q).toPipe dem).2) =
        fun dem => (sem p.toPipe dem).2 + (sem q.toPipe (dsub dem (listSem p.toPipe).length)).2 :=
      funext (fun dem => cost_concat _ _ dem)
    rw [hc]; exact this
  | .concatN ps, hok, ht => by
    have hne : 0 < (Prog3.toMs ps).length := by
      rw [Prog3.toMs_length]; exact List.length_pos_iff.2 hok.1
    have hl : (ps.map (fun p => listSem p.toPipe)).length = (Prog3.toMs ps).length := by rw [List.length_map, Prog3.toMs_length]
    have := concatM_join (Prog3.toMs ps) hne (fun i => (ps.map (fun p dem => (sem p.toPipe dem).2)).getD i (fun _ => 0))
      (ps.map (fun p => listSem p.toPipe)) hl (prog3s_joinHeadW ps hok.2 ht)
    have hc : (fun dem => (sem (Prog3.concatN ps).toPipe dem).2) =
        costJ (fun i => (ps.map (fun p dem => (sem p.toPipe dem).2)).getD i (fun _ => 0))
          (fun i => (ps.map (fun p => listSem p.toPipe)).getD i []) (downFrom (Prog3.toMs ps).length) := by
      funext dem
      have e1 := costJ_termsL (ps.map (fun p dem => (sem p.toPipe dem).2)) (ps.map (fun p => listSem p.toPipe)) dem (by simp)
      rw [List.length_map] at e1
      rw [Prog3.toMs_length, e1]
      exact cost_toPipes_dem ps dem (by exact hok.1)
    show JoinHead (concatM (Prog3.toMs ps)) (listSem (Prog3.toPipes ps)) _
    rw [hc, listSem_toPipes]; exact this
  | .flatRep k p, hok, ht => by
    have ih := prog3_joinHeadW p hok.2 ht
    have hc := (headCost_of_join ih).flat k ih.ok ih.nu
    obtain ⟨h4, h5⟩ := flat_headOkT (Mi := (srcM []).M) (initOf := fun a => { (srcM []).M.init with it := rangeFrom a k })
      (g := fun a => rangeFrom a k) ih.ok ih.nu ih.pull (inner_headOkT k) (inner_noUpstream k)
    exact ⟨h4, h5, hc.pull, flat_endOnPull (flatHyp_of k ih.ok ih.nu ih.pull) ih.eop, hc.up, hc.low, cost_mono' _⟩
theorem prog3s_joinHeadW : (ps : List Prog3) → Prog3.oks2 ps → Prog3.tfs2 ps → ∀ i (hi : i < (Prog3.toMs ps).length),
    JoinHead (Prog3.toMs ps)[i] ((ps.map (fun p => listSem p.toPipe)).getD i [])
      ((ps.map (fun p dem => (sem p.toPipe dem).2)).getD i (fun _ => 0))
  | [], _, _ => fun i hi => absurd hi (Nat.not_lt_zero _)
  | p :: ps, hok, ht => fun i hi => by
    cases i with
    | zero => exact prog3_joinHeadW p hok.1 ht.1
    | succ i => exact prog3s_joinHeadW ps hok.2 ht.2 i (by simpa [Prog3.toMs] using hi)
end

mutual
/-- the invariant of the structural induction, under `ok2` -/
theorem prog3_headOkT2 : (p : Prog3) → p.ok2 →
    HeadOkT p.toM.M (listSem p.toPipe) ∧ ComposeFull.NoUpstream p.toM.M ∧ (p.linear → PullOnly p.toM.M)
  | .src xs, _ => ⟨srcM_headOkT xs, ComposeFull.FromIter.noUpstream _ _, fun _ => FromIter.pullOnly _ _⟩
  | .stage s p, hok => by
    obtain ⟨h1, h2, h3⟩ := prog3_headOkT2 p hok.2
    have hs := Stg.stageT s hok.1
    have H := hyp_of_roles h1.head.up hs.stage.mono.stage.pipe.downSide
    refine ⟨?_, ComposeFull.NoUpstream.compose h2 H, fun hl => PullOnly.compose (h3 hl) (Stg.stagePull s) H⟩
    show HeadOkT (compose p.toM.M s.toM.M) (listSem (s.toPipe p.toPipe))
    rw [← Stg.fn_listSem]
    exact h1.compose hs
  | .concat2 p q, hok => by
    obtain ⟨hp1, hp2, _⟩ := prog3_headOkT2 p hok.1
    obtain ⟨hq1, hq2, _⟩ := prog3_headOkT2 q hok.2
    obtain ⟨h1, h2⟩ := concat2_headOkT hp1 hp2 hq1 hq2
    exact ⟨h1, h2, fun hl => hl.elim⟩
  | .concatN ps, hok => by
    have hne : 0 < (Prog3.toMs ps).length := by
      rw [Prog3.toMs_length]; exact List.length_pos_iff.2 hok.1
    obtain ⟨h1, h2⟩ := concatN_headOkT' (Prog3.toMs ps) hne (ps.map (fun p => listSem p.toPipe))
      (by rw [List.length_map, Prog3.toMs_length]) (prog3s_headOkT2 ps hok.2)
    refine ⟨?_, h2, fun hl => hl.elim⟩
    show HeadOkT (concatM (Prog3.toMs ps)).M (listSem (Prog3.toPipes ps))
    rw [listSem_toPipes]; exact h1
  | .flatRep k p, hok => by
    obtain ⟨h1, h2, h3⟩ := prog3_headOkT2 p hok.2
    have hpull : PullOnly p.toM.M := by
      rcases hok.1 with hl | ht
      · exact h3 hl
      · exact (prog3_joinHeadW p hok.2 ht).pull
    obtain ⟨h4, h5⟩ := flat_headOkT (Mi := (srcM []).M) (initOf := fun a => { (srcM []).M.init with it := rangeFrom a k })
      (g := fun a => rangeFrom a k) h1 h2 hpull (inner_headOkT k) (inner_noUpstream k)
    exact ⟨h4, h5, fun hl => hl.elim⟩
theorem prog3s_headOkT2 : (ps : List Prog3) → Prog3.oks2 ps → ∀ i (hi : i < (Prog3.toMs ps).length),
    HeadOkT (Prog3.toMs ps)[i].M ((ps.map (fun p => listSem p.toPipe)).getD i []) ∧ ComposeFull.NoUpstream (Prog3.toMs ps)[i].M
  | [], _ => fun i hi => absurd hi (Nat.not_lt_zero _)
  | p :: ps, hok => fun i hi => by
    cases i with
    | zero => exact ⟨(prog3_headOkT2 p hok.1).1, (prog3_headOkT2 p hok.1).2.1⟩
    | succ i => exact prog3s_headOkT2 ps hok.2 i (by simpa [Prog3.toMs] using hi)
end

/-- what `flatten` needs of the argument of `flatRep` -/
theorem prog3_pullOnly2 (p : Prog3) (hok : p.ok2) (h : p.linear ∨ p.tf2) : PullOnly p.toM.M := by
  rcases h with hl | ht
  · exact (prog3_headOkT2 p hok).2.2 hl
  · exact (prog3_joinHeadW p hok ht).pull

/-- **correctness**, under `ok2` -/
theorem prog3_correct2 (p : Prog3) (hok : p.ok2) :
    ∀ s, SReach (thenM p.toM forEachM).M s →
      BasicSafe s ∧ applied s.tr <+: listSem p.toPipe ∧ (s.stack = [] → s.tr ≠ [] → applied s.tr = listSem p.toPipe) :=
  head_forEach_correct (prog3_headOkT2 p hok).1.head

/-- … and in full: C01–C05, C17 -/
theorem prog3_safe2 (p : Prog3) (hok : p.ok2) :
    ∀ s, SReach (thenM p.toM forEachM).M s → Safe s ∧ SafeFor 4 s ∧ SafeFor 5 s :=
  ComposeFull.closed_pipeline_full₀ (prog3_headOkT2 p hok).1.head.up

/-- **"… and then completes without stalling"**: progress, return, non-vacuity -/
theorem prog3_completes2 (p : Prog3) (hok : p.ok2) :
    (∀ s, SReach (thenM p.toM forEachM).M s → ∃ n, EnvTurn (advance (thenM p.toM forEachM).M n s)) ∧
    (∀ s, SReach (thenM p.toM forEachM).M s → ∃ t, SReach (thenM p.toM forEachM).M t ∧ t.stack = [] ∧
      (s.tr ≠ [] → t.tr ≠ []) ∧ Drain (thenM p.toM forEachM).M s t) ∧
    (∃ s, SReach (thenM p.toM forEachM).M s ∧ s.stack = [] ∧ s.tr ≠ [] ∧ applied s.tr = listSem p.toPipe) :=
  ⟨(head_forEach_term (prog3_headOkT2 p hok).1.head (prog3_headOkT2 p hok).2.1 (prog3_headPot p)).1,
   (head_forEach_term (prog3_headOkT2 p hok).1.head (prog3_headOkT2 p hok).2.1 (prog3_headPot p)).2,
   head_forEach_nonvacuous (prog3_headOkT2 p hok).1.head (prog3_headOkT2 p hok).2.1 (prog3_headPot p)⟩

/-! ## the cost, under `ok2` -/

/-- the programs of class `hc2`: the cost under every demand -/
theorem prog3_headCostW : (p : Prog3) → p.ok2 → p.hc2 → HeadCost p.toM p.toPipe
  | .src xs, _, _ => srcM_headCost xs
  | .stage s p, hok, hh => (prog3_headCostW p hok.2 hh).stage s hok.1
  | .concat2 p q, hok, hh => headCost_of_join (prog3_joinHeadW (.concat2 p q) hok hh)
  | .concatN ps, hok, hh => headCost_of_join (prog3_joinHeadW (.concatN ps) hok hh)
  | .flatRep k p, hok, hh =>
    (prog3_headCostW p hok.2 hh).flat k (prog3_headOkT2 p hok.2).1 (prog3_headOkT2 p hok.2).2.1

mutual
theorem prog3_costW : (p : Prog3) → p.ok2 → p.lazy2 → CostN p.toM.M p.toM.nexts (sem p.toPipe none).2
  | .src xs, _, _ => (srcM_headCost xs).costN
  | .stage s p, hok, he => by
    rcases he.1 with hl | hnt
    · exact (prog3_headCostW (.stage s p) hok hl).costN
    · have := CostN.stage (prog3_headOkT2 p hok.2).1.head (prog3_costW p hok.2 he.2) s hnt
      show CostN (thenM p.toM s.toM).M (thenM p.toM s.toM).nexts (sem (s.toPipe p.toPipe) none).2
      rw [sem_stage_cost, Stg.up_none_of_noTake s hnt]; exact this
  | .concat2 p q, hok, he => by
    obtain ⟨hp1, hp2, _⟩ := prog3_headOkT2 p hok.1
    obtain ⟨hq1, hq2, _⟩ := prog3_headOkT2 q hok.2
    have := concat2_cost hp1 hp2 (prog3_costW p hok.1 he.1) hq1 hq2 (prog3_costW q hok.2 he.2)
    show CostN _ _ (sem (Pipe.concat p.toPipe q.toPipe) none).2
    simp only [sem]; exact this
  | .concatN ps, hok, he => by
    have hne : 0 < (Prog3.toMs ps).length := by
      rw [Prog3.toMs_length]; exact List.length_pos_iff.2 hok.1
    have := concatM_cost (Prog3.toMs ps) hne (ps.map (fun p => (sem p.toPipe none).2)) (prog3s_costW ps hok.2 he)
      (by rw [List.length_map, Prog3.toMs_length])
    show CostN (concatM (Prog3.toMs ps)).M (concatM (Prog3.toMs ps)).nexts (sem (Prog3.toPipes ps) none).2
    rw [cost_toPipes ps hok.1]; exact this
  | .flatRep k p, hok, he => by
    obtain ⟨h1, h2, _⟩ := prog3_headOkT2 p hok.2
    have kI : ∀ a, CostN (atInit (srcM []).M ({ (srcM []).M.init with it := rangeFrom a k } : (srcM []).St)) (srcM []).nexts (k + 1) := by
      intro a
      have := (srcM_headCost (rangeFrom a k)).costN
      rw [cost_src, length_rangeFrom] at this
      exact this
    have := flat_cost (Mi := (srcM []).M) (initOf := fun a => { (srcM []).M.init with it := rangeFrom a k })
      (g := fun a => rangeFrom a k) (nxO := p.toM.nexts) (nxI := (srcM []).nexts) h1 h2 (prog3_pullOnly2 p hok.2 hok.1)
      (inner_headOkT k) (inner_noUpstream k) (prog3_costW p hok.2 he) kI
    show CostN (flatM k p.toM).M (flatM k p.toM).nexts (sem (Pipe.flatMap (fun a => Pipe.src (rangeFrom a k)) p.toPipe) none).2
    rw [cost_flatRep]; exact this
theorem prog3s_costW : (ps : List Prog3) → Prog3.oks2 ps → Prog3.lazys2 ps → ∀ i (hi : i < (Prog3.toMs ps).length),
    ∃ ys, HeadOkT (Prog3.toMs ps)[i].M ys ∧ ComposeFull.NoUpstream (Prog3.toMs ps)[i].M ∧
      CostN (Prog3.toMs ps)[i].M (Prog3.toMs ps)[i].nexts ((ps.map (fun p => (sem p.toPipe none).2)).getD i 0)
  | [], _, _ => fun i hi => absurd hi (Nat.not_lt_zero _)
  | p :: ps, hok, he => fun i hi => by
    cases i with
    | zero => exact ⟨_, (prog3_headOkT2 p hok.1).1, (prog3_headOkT2 p hok.1).2.1, prog3_costW p hok.1 he.1⟩
    | succ i => exact prog3s_costW ps hok.2 he.2 i (by simpa [Prog3.toMs] using hi)
end

/-- **the cost**, under `ok2` and `lazy2` -/
theorem prog3_cost_wide (p : Prog3) (hok : p.ok2) (he : p.lazy2) :
    ∀ s, SReach (thenM p.toM forEachM).M s →
      (thenM p.toM forEachM).nexts s.st ≤ (sem p.toPipe none).2 ∧
      (s.stack = [] → s.tr ≠ [] → (thenM p.toM forEachM).nexts s.st = (sem p.toPipe none).2) :=
  head_forEach_costN (prog3_headOkT2 p hok).1.head (prog3_costW p hok he)

/-- `pipe!(flatten(map(|a| from_iter(a..a+2))(concat!(from_iter([1]), flatten(map(|a| from_iter(a..a+2))(from_iter([5])))))), take(3),
for_each(f))` — `flatRep` over a `concat!` with a nested `flatRep`: `f` is applied to 1, 2, 5; the iterators are advanced 8 times
(`sem`: the inner sources of the top `flatten` 3 + 1, its outer source — the `concat!` asked for two items — 2 + (1 + 1)) -/
example : ∀ s, SReach (thenM (Prog3.stage (.take 3) (.flatRep 2 (.concat2 (.src [1]) (.flatRep 2 (.src [5]))))).toM forEachM).M s →
      (BasicSafe s ∧ applied s.tr <+: [1, 2, 5] ∧ (s.stack = [] → s.tr ≠ [] → applied s.tr = [1, 2, 5])) ∧
      (thenM (Prog3.stage (.take 3) (.flatRep 2 (.concat2 (.src [1]) (.flatRep 2 (.src [5]))))).toM forEachM).nexts s.st ≤ 8 :=
  fun s hs =>
    ⟨prog3_correct2 (Prog3.stage (.take 3) (.flatRep 2 (.concat2 (.src [1]) (.flatRep 2 (.src [5])))))
        ⟨fun n hn => (by cases hn; decide), .inr ⟨trivial, trivial⟩, trivial, .inl trivial, trivial⟩ s hs,
     (prog3_cost_wide (Prog3.stage (.take 3) (.flatRep 2 (.concat2 (.src [1]) (.flatRep 2 (.src [5])))))
        ⟨fun n hn => (by cases hn; decide), .inr ⟨trivial, trivial⟩, trivial, .inl trivial, trivial⟩
        ⟨.inl ⟨trivial, trivial⟩, trivial, trivial⟩ s hs).1⟩

end Cb.Closed

#print axioms Cb.Closed.prog3_joinHeadW
#print axioms Cb.Closed.prog3_headOkT2
#print axioms Cb.Closed.prog3_correct2
#print axioms Cb.Closed.prog3_safe2
#print axioms Cb.Closed.prog3_completes2
#print axioms Cb.Closed.prog3_cost_wide
