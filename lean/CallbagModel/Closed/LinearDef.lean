import CallbagModel.Closed.Exec
import CallbagModel.Ops.Pipeline
import CallbagModel.Props
/-!
# Linear programs: syntax, list function and THE machine — definitions shared by the driver and the theorem

`pipe!(from_iter(xs), stage₁, …, stageₙ, for_each(f))` with unary stages.  `cbdrv pipe` (Driver/PipeDrv.lean) parses a program text into
`xs : List Int` and `ss : List Stg` and runs `thenM (chainM xs ss) forEachM` against the real crate; `Closed/Linear.lean` proves
`linear_correct` about the same term, for every `xs` and `ss`.
-/
namespace Cb.Closed
open Cb

/-- a unary stage of a linear program -/
inductive Stg where
  | map (f : Int → Int)
  | filter (q : Int → Bool)
  | scan (r : Int → Int → Int) (seed : Int)
  | take (n : Nat)
  | skip (n : Nat)

/-- the list function of a stage -/
def Stg.fn : Stg → List Int → List Int
  | .map f => List.map f
  | .filter q => List.filter q
  | .scan r seed => scanF r seed
  | .take n => List.take n
  | .skip n => List.drop n

/-- the operator machine of a stage, as `toAnyM` (Driver/PipeDrv.lean) builds it -/
def Stg.toM : Stg → AnyM
  | .map f => relayM (Relay.map f)
  | .filter q => relayM (Relay.filter q)
  | .scan r seed => relayM (Relay.scan r seed)
  | .take n => takeM n
  | .skip n => relayM (Relay.skip n)

/-- the machine of `pipe!(from_iter(xs), ss…)`: left-nested, as the driver builds it -/
def chainM (xs : List Int) (ss : List Stg) : AnyM := ss.foldl (fun A s => thenM A s.toM) (srcM xs)

/-- the list function of the stages `ss`, applied to the input -/
def chainFn (ss : List Stg) (xs : List Int) : List Int := ss.foldl (fun l s => s.fn l) xs

/-- the syntax (`Ops/Pipeline.lean`) of a stage applied to a pipeline -/
def Stg.toPipe : Stg → Pipe → Pipe
  | .map f => Pipe.map f
  | .filter q => Pipe.filter q
  | .scan r seed => Pipe.scan r seed
  | .take n => Pipe.take n
  | .skip n => Pipe.skip n

/-- the program `pipe!(from_iter(xs), ss…)` as syntax -/
def chainPipe (xs : List Int) (ss : List Stg) : Pipe := ss.foldl (fun p s => s.toPipe p) (Pipe.src xs)

end Cb.Closed
