import CallbagModel.Closed.LinearDef
/-!
# Programs with `concat!`: syntax, the machine, the syntax of `Ops/Pipeline.lean` — definitions only

`Prog` = `from_iter(xs)` | a unary stage applied to a program | `concat!(p, q)` of two programs.  `Prog.toM` builds the machine with
exactly the constructors of `Closed/Exec.lean` (`srcM`, `thenM`, `plugM`), so that the compiled driver can build the same term;
`Closed/Prog.lean` (the proofs) is not imported here.
-/
namespace Cb.Closed
open Cb

inductive Prog where
  | src (xs : List Int)
  | stage (s : Stg) (p : Prog)
  | concat (p q : Prog)

/-- the binary `concat` machine over `Int`, as an `AnyM` -/
def concat2M : AnyM := { St := Concat.St, Loc := Concat.Loc Int, M := Concat.machine Int 2, nexts := fun _ => 0 }

/-- the machine of a program: `concat!(p, q)` is the binary `concat` machine with both slots plugged -/
def Prog.toM : Prog → AnyM
  | .src xs => srcM xs
  | .stage s p => thenM p.toM s.toM
  | .concat p q => plugM 0 p.toM (plugM 1 q.toM concat2M)

/-- the program as syntax of `Ops/Pipeline.lean` -/
def Prog.toPipe : Prog → Pipe
  | .src xs => Pipe.src xs
  | .stage s p => s.toPipe p.toPipe
  | .concat p q => Pipe.concat p.toPipe q.toPipe

/-- every `take n` in the program has `0 < n` -/
def Prog.takesPos : Prog → Prop
  | .src _ => True
  | .stage s p => (∀ n, s = .take n → 0 < n) ∧ p.takesPos
  | .concat p q => p.takesPos ∧ q.takesPos

end Cb.Closed
