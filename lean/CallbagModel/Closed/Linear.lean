import CallbagModel.Closed.LinearDef
import CallbagModel.Inv.ComposeComplete
import CallbagModel.Ops.Pipeline
/-!
# Every linear program: the network of operator machines computes the list function

A LINEAR program is `pipe!(from_iter(xs), stage₁, …, stageₙ, for_each(f))` with unary stages `map`, `filter`, `scan`, `take`, `skip`.
For every such program — quantified over the program SYNTAX (`List Stg`), any number of stages, any closures, any finite input —
and for exactly the machine the executable differential check builds from the program text (`Driver/PipeDrv.lean` parses the
text into `xs`, `ss` and runs `thenM (chainM xs ss) forEachM` — the definitions are in `Closed/LinearDef.lean`, shared with the driver), at EVERY reachable configuration under every
conformant environment:

* no interface of the network records a protocol violation and nothing panics (`BasicSafe`);
* the closure of `for_each` has been applied, in order, to a prefix of `listSem` of the program;
* once the application has returned, to exactly `listSem` of the program.

`take(0)` is excluded: `take(0)` never completes a pulling sink (a documented observation about the crate).

The proof is the induction over the syntax that `Inv/ComposeComplete.lean` prepared: `srcM xs` is a head (`FromIter.headOk`), a head
followed by a demand stage is a head (`HeadOk.compose`), and a head closed with `for_each` is correct (`closed_complete`,
`head_forEach_prefix` below).

Import note: `Closed/Exec.lean` and `Closed/RelayPipe.lean` must not both define `Cb.Closed.listNext` (this file imports both,
the latter through `Inv/ComposeComplete.lean`).  `srcM_headOk` does not name the list iterator of `srcM`: it unfolds by computation.
-/
namespace Cb.Closed
open Cb ComposeSafe ComposeFun ComposeComplete

/-! ## the list function is `listSem` of the syntax -/

/-- the running fold of `Props.lean` is the running fold of `Ops/Pipeline.lean` -/
theorem scanF_eq_scanl' (r : Int → Int → Int) (s : Int) (l : List Int) : scanF r s l = scanl' r s l := by
  induction l generalizing s with
  | nil => rfl
  | cons a as ih => simp only [scanF, scanl', ih]

theorem Stg.fn_listSem (s : Stg) (p : Pipe) : s.fn (listSem p) = listSem (s.toPipe p) := by
  cases s with
  | map f => rfl
  | filter q => rfl
  | scan r seed => exact scanF_eq_scanl' r seed _
  | take n => rfl
  | skip n => rfl

theorem foldFn_listSem (ss : List Stg) (p : Pipe) :
    ss.foldl (fun l s => s.fn l) (listSem p) = listSem (ss.foldl (fun p s => s.toPipe p) p) := by
  induction ss generalizing p with
  | nil => rfl
  | cons s ss ih => simp only [List.foldl_cons, Stg.fn_listSem, ih]

theorem chainFn_eq_listSem (xs : List Int) (ss : List Stg) : chainFn ss xs = listSem (chainPipe xs ss) :=
  foldFn_listSem ss (Pipe.src xs)

/-! ## the machines: a head, followed by demand stages -/

/-- the iterator of `srcM xs` unfolds to `xs` (whatever the list iterator is called: by computation) -/
theorem srcM_headOk (xs : List Int) : HeadOk (srcM xs).M xs := by
  show HeadOk (FromIter.machine Int _ xs) xs
  refine FromIter.headOk _ xs xs ?_
  induction xs with
  | nil => exact .nil rfl
  | cons a as ih => exact .cons rfl ih

/-- every stage machine is a demand stage for its list function (`take n` for `0 < n`) -/
theorem Stg.demandStage (s : Stg) (hpos : ∀ n, s = .take n → 0 < n) : DemandStage s.toM.M s.fn := by
  cases s with
  | map f => exact Relay.map_demandStage f
  | filter q => exact Relay.filter_demandStage q
  | scan r seed => exact Relay.scan_demandStage r seed
  | take n => exact Take.demandStage n (hpos n rfl)
  | skip n => exact Relay.skip_demandStage n

/-- a head followed by any number of stages is a head -/
theorem fold_headOk (ss : List Stg) (hpos : ∀ n, Stg.take n ∈ ss → 0 < n) (A : AnyM) (ys : List Int) (h : HeadOk A.M ys) :
    HeadOk (ss.foldl (fun A s => thenM A s.toM) A).M (ss.foldl (fun l s => s.fn l) ys) := by
  induction ss generalizing A ys with
  | nil => exact h
  | cons s ss ih =>
    simp only [List.foldl_cons]
    refine ih (fun n hn => hpos n (List.mem_cons_of_mem _ hn)) (thenM A s.toM) (s.fn ys) ?_
    exact h.compose (s.demandStage (fun n hn => hpos n (hn ▸ List.mem_cons_self)))

theorem chain_headOk (xs : List Int) (ss : List Stg) (hpos : ∀ n, Stg.take n ∈ ss → 0 < n) :
    HeadOk (chainM xs ss).M (chainFn ss xs) :=
  fold_headOk ss hpos (srcM xs) xs (srcM_headOk xs)

/-! ## a head closed with `for_each` -/

/-- safety and the prefix, at every reachable configuration -/
theorem head_forEach_prefix {S L α β : Type} {M : Machine S L α β} {ys : List β} (h : HeadOk M ys) :
    ∀ s, SReach (compose M (ForEach.machine β)) s → BasicSafe s ∧ applied s.tr <+: ys := by
  intro s hs
  refine ⟨closed_pipeline_safe₀ h.up s hs, ?_⟩
  obtain ⟨t, hrt, htt, he⟩ := applied_at_turn _ s hs
  obtain ⟨s1, s2, hr1, hr2, hp⟩ := compose_proj (hyp_of_roles h.up ForEach.downSide) t hrt
  obtain ⟨ht1, ht2⟩ := hp.turn htt
  rw [he, hp.app, ForEach.applied_eq_sent s2 hr2 ht2, ← hp.ifc 0]
  exact h.spec s1 hr1 ht1

/-- safety, prefix and completeness of a head closed with `for_each` -/
theorem head_forEach_correct {S L α β : Type} {M : Machine S L α β} {ys : List β} (h : HeadOk M ys) :
    ∀ s, SReach (compose M (ForEach.machine β)) s →
      BasicSafe s ∧ applied s.tr <+: ys ∧ (s.stack = [] → s.tr ≠ [] → applied s.tr = ys) := fun s hs =>
  ⟨(head_forEach_prefix h s hs).1, (head_forEach_prefix h s hs).2, closed_complete h s hs⟩

/-! ## the theorem -/

/-- **every linear program**: for the machine the executable check builds from the program text, at every reachable configuration
under every conformant environment: phase-level safe and no panic; the closure of `for_each` applied, in order, to a prefix of the
list function of the program; and to exactly the list function once the application has returned -/
theorem linear_correct (xs : List Int) (ss : List Stg) (hpos : ∀ n, Stg.take n ∈ ss → 0 < n) :
    ∀ s, SReach (thenM (chainM xs ss) forEachM).M s →
      BasicSafe s ∧ applied s.tr <+: listSem (chainPipe xs ss) ∧
      (s.stack = [] → s.tr ≠ [] → applied s.tr = listSem (chainPipe xs ss)) := by
  rw [← chainFn_eq_listSem]
  exact head_forEach_correct (chain_headOk xs ss hpos)

/-- `pipe!(from_iter([1, …, 6]), filter(odd), scan(+, 0), take(2), for_each(f))`: `f` is applied to `1`, then `4`, and nothing else -/
example : ∀ s, SReach (thenM (thenM (thenM (thenM (srcM [1, 2, 3, 4, 5, 6])
        (relayM (Relay.filter (fun x => x % 2 == 1)))) (relayM (Relay.scan (· + ·) 0))) (takeM 2)) forEachM).M s →
      BasicSafe s ∧ applied s.tr <+: [1, 4] ∧ (s.stack = [] → s.tr ≠ [] → applied s.tr = [1, 4]) :=
  linear_correct [1, 2, 3, 4, 5, 6] [.filter (fun x => x % 2 == 1), .scan (· + ·) 0, .take 2]
    (by intro n hn; simp at hn; omega)

end Cb.Closed

#print axioms Cb.Closed.chainFn_eq_listSem
#print axioms Cb.Closed.linear_correct
