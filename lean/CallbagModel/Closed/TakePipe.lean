import CallbagModel.Sem
import CallbagModel.Ops.Compose
import CallbagModel.Ops.FromIter
import CallbagModel.Ops.Take
import CallbagModel.Ops.ForEach
import CallbagModel.Inv.Ghost
/-!
# End-to-end laziness of the closed pull pipeline `pipe!(from_iter(it), take(max), for_each(f))`

The three operator machines are composed (`compose`) into ONE closed machine whose only boundary events are the application
`for_each(f)(source)` (`subscribe 0`), the applications of the closure `f` (`app b`) and the closure returning.  Theorems:
`f` is applied exactly to the first `max` items, in order, and the iterator is advanced exactly `max` times (no read-ahead) when it
has at least `max` items — it may be infinite — and `length + 1` times when it ends early; the pipeline never panics and always
runs into an environment turn (it terminates).
-/
namespace Cb.Closed.TakeP
open Cb

/-- the payloads of the closure applications in a boundary trace (traces are newest-first), in chronological order -/
def apps {α β : Type} (tr : List (Ev α β)) : List β :=
  tr.reverse.filterMap (fun e => match e with | .out (.app b) => some b | _ => none)

/-- the iterator `next, it` yields at least the items `xs` (and possibly more: it may be infinite) -/
inductive Yields {ι α : Type} (next : ι → Option (α × ι)) : ι → List α → Prop
  | nil {it} : Yields next it []
  | cons {it a it' xs} : next it = some (a, it') → Yields next it' xs → Yields next it (a :: xs)
/-- … exactly `xs`, then exhausted -/
inductive Unfolds {ι α : Type} (next : ι → Option (α × ι)) : ι → List α → Prop
  | nil {it} : next it = none → Unfolds next it []
  | cons {it a it' xs} : next it = some (a, it') → Unfolds next it' xs → Unfolds next it (a :: xs)

abbrev takePipe {ι α : Type} (next : ι → Option (α × ι)) (it0 : ι) (max : Nat) :=
  compose (compose (FromIter.machine Unit next it0) (Take.machine α max)) (ForEach.machine α)

/-! ## `apps` -/

@[simp] theorem apps_nil {α β : Type} : apps ([] : List (Ev α β)) = [] := rfl
@[simp] theorem apps_app {α β : Type} (b : β) (tr : List (Ev α β)) : apps (.out (.app b) :: tr) = apps tr ++ [b] := by
  simp [apps, List.filterMap_append]
@[simp] theorem apps_inp {α β : Type} (i : In α) (tr : List (Ev α β)) : apps (.inp i :: tr) = apps tr := by
  simp [apps, List.filterMap_append]
@[simp] theorem apps_retE {α β : Type} (tr : List (Ev α β)) : apps (.retE :: tr) = apps tr := by
  simp [apps, List.filterMap_append]
@[simp] theorem apps_retO {α β : Type} (tr : List (Ev α β)) : apps (.retO :: tr) = apps tr := by
  simp [apps, List.filterMap_append]
@[simp] theorem apps_panic {α β : Type} (tr : List (Ev α β)) : apps (.panic :: tr) = apps tr := by
  simp [apps, List.filterMap_append]

/-- one more event adds at most one application at the end -/
theorem apps_cons {α β : Type} (e : Ev α β) (tr : List (Ev α β)) : apps (e :: tr) = apps tr ∨ ∃ b, apps (e :: tr) = apps tr ++ [b] := by
  cases e with
  | out o => cases o <;> first | exact Or.inr ⟨_, apps_app _ _⟩ | (left; simp [apps, List.filterMap_append])
  | _ => left; simp

theorem Unfolds.yields {ι α : Type} {next : ι → Option (α × ι)} {it : ι} {xs : List α} (h : Unfolds next it xs) : Yields next it xs := by
  induction h with
  | nil _ => exact .nil
  | cons h _ ih => exact .cons h ih

theorem Unfolds.tail {ι α : Type} {next : ι → Option (α × ι)} {it it' : ι} {a a' : α} {xs : List α}
    (h : Unfolds next it (a :: xs)) (hn : next it = some (a', it')) : Unfolds next it' xs := by
  cases h with
  | cons h1 h2 => rw [hn] at h1; cases h1; exact h2

/-! ## the configurations in which the environment has control -/

abbrev PSt (ι α : Type) := (FromIter.St ι α × Take.St) × ForEach.St
abbrev ILoc (α : Type) := List (CFr FromIter.Loc (Take.Loc α))
abbrev PLoc (α : Type) := List (CFr (ILoc α) (ForEach.Loc α))

/-- the component frames below a closure call: for_each's `Pull` after `f` returns; take's test after its delivery, from_iter's loop,
the rest of take's `Pull` handler; the rest of for_each's greeting handler; and the three handshakes -/
def midFrames {α : Type} (j : Nat) : PLoc α :=
  [.hi .pull, .lo [.hi (.d3 j), .lo .w0, .hi .done], .hi .done, .lo [.hi .done, .lo .done, .hi .done], .hi .done]

/-- the monitor's phases once the pipeline has been started: the composite's only sink slot is `for_each`'s, which is never greeted -/
def ph1 : Ph := { sink := [.subscribed] }

variable {ι α : Type}

/-- the environment-turn configurations of the pipeline: before the start; inside the application of `f` to the `j`-th item; finished -/
inductive Inv (next : ι → Option (α × ι)) (it0 : ι) (max : Nat) (xs : List α) : Sys (PSt ι α) (PLoc α) Unit α → Prop
  | init : Inv next it0 max xs (Sys.init (takePipe next it0 max))
  | mid (j : Nat) (pre rest : List α) (it : ι) (b : α) (g : G) (tr : List (Ev Unit α)) :
      pre.length = j → g.ph = ph1 → apps tr = pre → xs = pre ++ rest → Yields next it rest → (xs.length < max → Unfolds next it rest) →
      Inv next it0 max xs
        ⟨(({ it := it, res := none, nexts := j, inLoop := true, gotPull := false, completed := false, resDone := false },
           { taken := j, tb := true, fin := false }), { tb := true }),
         [.wait (.app b) (midFrames j)], g, tr, none⟩
  | fin (st : PSt ι α) (g : G) (tr : List (Ev Unit α)) :
      g.ph = ph1 → tr ≠ [] → apps tr = xs → st.1.1.nexts = min max (xs.length + 1) →
      Inv next it0 max xs ⟨st, [], g, tr, none⟩

theorem inv_turn {next : ι → Option (α × ι)} {it0 : ι} {max : Nat} {xs : List α} {s} (h : Inv next it0 max xs s) : EnvTurn s := by
  cases h <;> simp [EnvTurn, ctxOf, Sys.init]

theorem ph1_sink (k : Nat) : ph1.sinkPh k ≠ .live := by
  cases k with
  | zero => simp [ph1, Ph.sinkPh, phAt]
  | succ k => simp [ph1, Ph.sinkPh, phAt]; decide

theorem ph1_src (i : Nat) : ph1.srcPh i = .idle := by simp [ph1, Ph.srcPh]; rfl

macro "exec" n:num : tactic =>
  `(tactic| (refine ⟨$n, ?_⟩; simp [advance, opStep, takePipe, compose, FromIter.machine, FromIter.enter, FromIter.step,
      Take.machine, Take.enter, Take.step, ForEach.machine, ForEach.enter, ForEach.step, midFrames, *]))

theorem inv_step (next : ι → Option (α × ι)) (it0 : ι) (max : Nat) (xs : List α)
    (hy : Yields next it0 xs) (hle : xs.length ≤ max) (hu : xs.length < max → Unfolds next it0 xs)
    (s s' : Sys (PSt ι α) (PLoc α) Unit α) (m : Move Unit) (hi : Inv next it0 max xs s) (he : EnvStep (takePipe next it0 max) m s s') :
    ∃ n, Inv next it0 max xs (advance (takePipe next it0 max) n s') := by
  cases hi with
  | init =>
    cases he with
    | call i hc hl =>
      cases i with
      | subscribe k =>
        have hk : k = 0 := by
          simp [legalIn, takePipe, compose, ForEach.machine] at hl
          exact hl.2
        subst hk
        clear hl hc
        by_cases hmax : max = 0
        · subst hmax
          have hx : xs = [] := by cases xs with | nil => rfl | cons a r => simp at hle
          subst hx
          exec 13
          exact Inv.fin _ _ _ (by simp [onRetO_ph, Ph.onIn, ph1, Ph.setSink, setAt]) (by simp) (by simp) (by simp)
        · have hmax' : 0 < max := Nat.pos_of_ne_zero hmax
          cases hy with
          | nil =>
            have hn := hu hmax'
            cases hn with
            | nil hn =>
              exec 30
              exact Inv.fin _ _ _ (by simp [onRetO_ph, Ph.onIn, ph1, Ph.setSink, setAt]) (by simp) (by simp) (by simp; omega)
          | @cons _ a it' rest hnx hyr =>
            exec 22
            exact Inv.mid 1 [a] rest it' a _ _ rfl (by simp [onOut_ph, Ph.onOut, Ph.onIn, ph1, Ph.setSink, setAt]) (by simp) (by simp) hyr
              (fun h => (hu h).tail hnx)
      | sinkUp k u => simp [legalIn] at hl
      | srcGreet i => simp [legalIn] at hl
      | srcDown i d => simp [legalIn] at hl
  | mid j pre rest it b g tr hpl hg htr hxs hyr hur =>
    subst hpl
    cases he with
    | call i hc hl =>
      have hk := ph1_sink
      have hi := ph1_src
      simp only [ctxOf, Option.some.injEq] at hc
      subst hc
      have h0 : ph1.sinkPh 0 = .subscribed := by simp [ph1, Ph.sinkPh, phAt]
      cases i <;> simp [legalIn, isTop, hg, hk, hi, takePipe, compose, ForEach.machine] at hl
      all_goals (simp [hl.2, h0] at hl)
    | ret hl =>
      clear hl
      have hlen : pre.length + rest.length ≤ max := by rw [hxs, List.length_append] at hle; exact hle
      by_cases hj : pre.length < max
      · cases hyr with
        | nil =>
          have hn : next it = none := by
            have h := hur (by rw [hxs]; simpa using hj)
            cases h with | nil h => exact h
          have hne : pre.length ≠ max := Nat.ne_of_lt hj
          exec 25
          exact Inv.fin _ _ _ (by simp [onRetO_ph, hg]) (by simp) (by simp [htr]) (by simp; omega)
        | @cons _ a it' rest' hnx hyr' =>
          have hne : pre.length ≠ max := Nat.ne_of_lt hj
          exec 17
          exact Inv.mid _ (pre ++ [a]) rest' it' a _ _ (by simp) (by simp [onOut_ph, Ph.onOut, hg]) (by simp [htr]) (by simp) hyr'
            (fun h => (hur (by simpa [hxs] using h)).tail hnx)
      · have hj' : pre.length = max := by omega
        have hr : rest = [] := by cases rest with | nil => rfl | cons a r => simp at hlen; omega
        subst hr
        exec 22
        exact Inv.fin _ _ _ (by simp [onRetO_ph, hg]) (by simp) (by simp [htr]) (by simp; omega)
  | fin st g tr hg htr hap hn =>
    cases he with
    | call i hc hl =>
      have hk := ph1_sink
      have hi := ph1_src
      simp only [ctxOf, Option.some.injEq] at hc
      subst hc
      have h0 : ph1.sinkPh 0 = .subscribed := by simp [ph1, Ph.sinkPh, phAt]
      cases i <;> simp [legalIn, isTop, hg, hk, hi, takePipe, compose, ForEach.machine] at hl
      all_goals (simp [hl.2, h0] at hl)

theorem inv_init (next : ι → Option (α × ι)) (it0 : ι) (max : Nat) (xs : List α) :
    Inv next it0 max xs (Sys.init (takePipe next it0 max)) := .init

/-- every reachable configuration runs, within finitely many operator micro-steps, into one of the three kinds of configurations -/
theorem reach_inv (next : ι → Option (α × ι)) (it0 : ι) (max : Nat) (xs : List α)
    (hy : Yields next it0 xs) (hle : xs.length ≤ max) (hu : xs.length < max → Unfolds next it0 xs) :
    ∀ s, SReach (takePipe next it0 max) s → ∃ n, Inv next it0 max xs (advance (takePipe next it0 max) n s) :=
  reach_runs_into_inv (takePipe next it0 max) anyEnv (Inv next it0 max xs) .init (fun _ h => inv_turn h)
    (fun s s' m hi he _ => inv_step next it0 max xs hy hle hu s s' m hi he)

/-! ## between environment turns: what operator micro-steps can change -/

/-- the state after an action is related to the state before -/
def ActRel {St Loc β : Type} (R : St → St → Prop) (st : St) : Act St Loc β → Prop
  | .tau s' _ => R st s'
  | .call _ s' _ => R st s'
  | _ => True

theorem compose_actRel {S1 L1 S2 L2 α β γ : Type} (M1 : Machine S1 L1 α β) (M2 : Machine S2 L2 β γ)
    (R1 : S1 → S1 → Prop) (R2 : S2 → S2 → Prop) (r1 : ∀ s, R1 s s) (r2 : ∀ s, R2 s s)
    (h1 : ∀ st l, ActRel R1 st (M1.step st l)) (h2 : ∀ st l, ActRel R2 st (M2.step st l)) :
    ∀ st l, ActRel (fun a b => R1 a.1 b.1 ∧ R2 a.2 b.2) st ((compose M1 M2).step st l) := by
  intro st l
  cases l with
  | nil => simp [compose, ActRel]
  | cons f rest =>
    cases f with
    | lo l =>
      have h := h1 st.1 l
      simp only [compose]
      cases hs : M1.step st.1 l with
      | ret => simp only; split <;> simp [ActRel, r1, r2]
      | tau s' l' => rw [hs] at h; exact ⟨h, r2 _⟩
      | panic m => simp [ActRel]
      | call o s' l' =>
        rw [hs] at h
        simp only
        split <;> first | exact ⟨h, r2 _⟩ | simp [ActRel]
    | hi l =>
      have h := h2 st.2 l
      simp only [compose]
      cases hs : M2.step st.2 l with
      | ret => simp only; split <;> simp [ActRel, r1, r2]
      | tau s' l' => rw [hs] at h; exact ⟨r1 _, h⟩
      | panic m => simp [ActRel]
      | call o s' l' =>
        rw [hs] at h
        simp only
        split <;> first | exact ⟨r1 _, h⟩ | simp [ActRel]

/-- what one operator micro-step does to the state and to the trace -/
theorem opStep_rel {St Loc α β : Type} (M : Machine St Loc α β) (R : St → St → Prop) (r : ∀ s, R s s)
    (h : ∀ st l, ActRel R st (M.step st l)) (a b : Sys St Loc α β) (hab : opStep M a = some b) :
    R a.st b.st ∧ (b.tr = a.tr ∨ ∃ e, b.tr = e :: a.tr) := by
  unfold opStep at hab
  cases hp : a.panicked with
  | some m => simp [hp] at hab
  | none =>
    simp only [hp, Option.isSome_none, Bool.false_eq_true, ↓reduceIte] at hab
    cases hstk : a.stack with
    | nil => simp [hstk] at hab
    | cons f rest =>
      cases f with
      | wait o l => simp [hstk] at hab
      | run l =>
        simp only [hstk] at hab
        have h' := h a.st l
        cases hst : M.step a.st l with
        | ret => simp only [hst, Option.some.injEq] at hab; subst hab; exact ⟨r _, Or.inr ⟨_, rfl⟩⟩
        | tau s' l' => rw [hst] at h'; simp only [hst, Option.some.injEq] at hab; subst hab; exact ⟨h', Or.inl rfl⟩
        | call o s' l' => rw [hst] at h'; simp only [hst, Option.some.injEq] at hab; subst hab; exact ⟨h', Or.inr ⟨_, rfl⟩⟩
        | panic m => simp only [hst, Option.some.injEq] at hab; subst hab; exact ⟨r _, Or.inr ⟨_, rfl⟩⟩

/-- the ghost counter of `Iterator::next` calls only grows -/
theorem fromIter_nexts_mono (next : ι → Option (α × ι)) (st : FromIter.St ι α) (l : FromIter.Loc) :
    ActRel (Loc := FromIter.Loc) (β := α) (fun a b : FromIter.St ι α => a.nexts ≤ b.nexts) st (FromIter.step next st l) := by
  cases l with
  | t1 u => cases u <;> simp [FromIter.step, ActRel]
  | w4 =>
    simp only [FromIter.step]
    split
    · simp [ActRel]
    · split <;> simp [ActRel]
  | _ => simp only [FromIter.step] <;> (try split) <;> simp [ActRel]

theorem takePipe_nexts_mono (next : ι → Option (α × ι)) (it0 : ι) (max : Nat)
    (a b : Sys (PSt ι α) (PLoc α) Unit α) (hab : opStep (takePipe next it0 max) a = some b) :
    a.st.1.1.nexts ≤ b.st.1.1.nexts ∧ (b.tr = a.tr ∨ ∃ e, b.tr = e :: a.tr) := by
  have h := opStep_rel (takePipe next it0 max) (fun a b => ((a.1.1.nexts ≤ b.1.1.nexts ∧ True) ∧ True)) (by simp)
    (compose_actRel _ _ _ (fun _ _ => True) (by simp) (by simp)
      (compose_actRel _ _ (fun a b : FromIter.St ι α => a.nexts ≤ b.nexts) (fun _ _ => True) (by simp) (by simp)
        (fun st l => fromIter_nexts_mono next st l)
        (fun st l => by cases h : (Take.machine α max).step st l <;> simp [ActRel]))
      (fun st l => by cases h : (ForEach.machine α).step st l <;> simp [ActRel])) a b hab
  exact ⟨h.1.1.1, h.2⟩

theorem prefix_of_snoc {β : Type} (xs l : List β) (b : β) (h : ∃ m, l ++ [b] = xs.take m) : ∃ m, l = xs.take m := by
  obtain ⟨m, hm⟩ := h
  refine ⟨min l.length m, ?_⟩
  rw [← List.take_take, ← hm]; simp

/-- what holds of EVERY reachable configuration (also in the middle of the operators' handlers) -/
def Always (max : Nat) (xs : List α) (s : Sys (PSt ι α) (PLoc α) Unit α) : Prop :=
  s.panicked = none ∧ (∃ m, apps s.tr = xs.take m) ∧ s.st.1.1.nexts ≤ min max (xs.length + 1)

theorem always_of_inv {next : ι → Option (α × ι)} {it0 : ι} {max : Nat} {xs : List α} (hle : xs.length ≤ max) {s}
    (h : Inv next it0 max xs s) : Always max xs s := by
  cases h with
  | init => exact ⟨rfl, ⟨0, by simp [Sys.init]⟩, by simp [Sys.init, takePipe, compose, FromIter.machine]⟩
  | mid j pre rest it b g tr hpl hg htr hxs hyr hur =>
    subst hpl
    refine ⟨rfl, ⟨pre.length, by simp [htr, hxs]⟩, ?_⟩
    have : pre.length ≤ xs.length := by rw [hxs]; simp
    simp only; omega
  | fin st g tr hg htr hap hn => exact ⟨rfl, ⟨xs.length, by simp [hap]⟩, by simp only [hn]; omega⟩

theorem always_mono (next : ι → Option (α × ι)) (it0 : ι) (max : Nat) (xs : List α)
    (a b : Sys (PSt ι α) (PLoc α) Unit α) (hab : opStep (takePipe next it0 max) a = some b) (hb : Always max xs b) :
    Always max xs a := by
  obtain ⟨hn, htr⟩ := takePipe_nexts_mono next it0 max a b hab
  obtain ⟨hp, hm, hx⟩ := hb
  refine ⟨(opStep_viols_suffix _ a b hab).2.2 hp, ?_, Nat.le_trans hn hx⟩
  rcases htr with htr | ⟨e, htr⟩
  · rw [htr] at hm; exact hm
  · rw [htr] at hm
    rcases apps_cons e a.tr with h | ⟨b', h⟩
    · rw [h] at hm; exact hm
    · rw [h] at hm; exact prefix_of_snoc _ _ _ hm

theorem reach_always (next : ι → Option (α × ι)) (it0 : ι) (max : Nat) (xs : List α)
    (hy : Yields next it0 xs) (hle : xs.length ≤ max) (hu : xs.length < max → Unfolds next it0 xs) :
    ∀ s, SReach (takePipe next it0 max) s → Always max xs s :=
  reach_of_macro_inv (takePipe next it0 max) anyEnv (Always max xs) (Inv next it0 max xs) .init
    (fun _ h => ⟨inv_turn h, always_of_inv hle h⟩)
    (fun s s' m hi he _ => inv_step next it0 max xs hy hle hu s s' m hi he)
    (always_mono next it0 max xs)

/-- at top level after the start: finished -/
theorem reach_top (next : ι → Option (α × ι)) (it0 : ι) (max : Nat) (xs : List α)
    (hy : Yields next it0 xs) (hle : xs.length ≤ max) (hu : xs.length < max → Unfolds next it0 xs) :
    ∀ s, SReach (takePipe next it0 max) s → s.stack = [] → s.tr ≠ [] →
      apps s.tr = xs ∧ s.st.1.1.nexts = min max (xs.length + 1) := by
  intro s hs hstk htr
  have hp := (reach_always next it0 max xs hy hle hu s hs).1
  obtain ⟨n, hn⟩ := reach_inv next it0 max xs hy hle hu s hs
  rw [advance_of_envTurn ⟨hp, by simp [hstk, ctxOf]⟩] at hn
  cases hn with
  | init => simp [Sys.init] at htr
  | mid j pre rest it b g tr hpl hg htr hxs hyr hur => simp at hstk
  | fin st g tr hg htr hap hn => exact ⟨hap, hn⟩

/-! ## the theorems -/

/-- LAZINESS. The iterator has at least `max` items (possibly infinitely many), `xs` are its first `max` items.  Then in every
reachable configuration — every micro-step of every handler — nothing has panicked, the closure `f` has been applied to a prefix of
`xs` in order, and the iterator has been advanced at most `max` times; and whenever control is back at top level after the
application `for_each(f)(source)`, `f` has been applied to exactly `xs` and the iterator has been advanced EXACTLY `max` times: the item
after the `max`-th is never requested. -/
theorem takePipe_lazy (next : ι → Option (α × ι)) (it0 : ι) (max : Nat) (xs : List α)
    (hy : Yields next it0 xs) (hl : xs.length = max) :
    (∀ s, SReach (takePipe next it0 max) s →
      s.panicked = none ∧ (∃ m, apps s.tr = xs.take m) ∧ s.st.1.1.nexts ≤ max) ∧
    (∀ s, SReach (takePipe next it0 max) s → s.stack = [] → s.tr ≠ [] → apps s.tr = xs ∧ s.st.1.1.nexts = max) := by
  have hle : xs.length ≤ max := by omega
  have hu : xs.length < max → Unfolds next it0 xs := fun h => by omega
  refine ⟨fun s hs => ?_, fun s hs h1 h2 => ?_⟩
  · obtain ⟨hp, hm, hn⟩ := reach_always next it0 max xs hy hle hu s hs
    exact ⟨hp, hm, by omega⟩
  · obtain ⟨ha, hn⟩ := reach_top next it0 max xs hy hle hu s hs h1 h2
    exact ⟨ha, by omega⟩

/-- The iterator ends early: it has exactly the items `xs`, fewer than `max`.  `f` is applied to exactly `xs`, and the iterator is
advanced `xs.length + 1` times (the last call returns `None`); no panic anywhere. -/
theorem takePipe_short (next : ι → Option (α × ι)) (it0 : ι) (max : Nat) (xs : List α)
    (hx : Unfolds next it0 xs) (hl : xs.length < max) :
    (∀ s, SReach (takePipe next it0 max) s →
      s.panicked = none ∧ (∃ m, apps s.tr = xs.take m) ∧ s.st.1.1.nexts ≤ xs.length + 1) ∧
    (∀ s, SReach (takePipe next it0 max) s → s.stack = [] → s.tr ≠ [] →
      apps s.tr = xs ∧ s.st.1.1.nexts = xs.length + 1) := by
  have hle : xs.length ≤ max := by omega
  refine ⟨fun s hs => ?_, fun s hs h1 h2 => ?_⟩
  · obtain ⟨hp, hm, hn⟩ := reach_always next it0 max xs hx.yields hle (fun _ => hx) s hs
    exact ⟨hp, hm, by omega⟩
  · obtain ⟨ha, hn⟩ := reach_top next it0 max xs hx.yields hle (fun _ => hx) s hs h1 h2
    exact ⟨ha, by omega⟩

/-- every iterator either has at least `max` items or ends before -/
theorem yields_or_unfolds (next : ι → Option (α × ι)) (max : Nat) (it0 : ι) :
    ∃ xs, (Yields next it0 xs ∧ xs.length = max) ∨ (Unfolds next it0 xs ∧ xs.length < max) := by
  induction max generalizing it0 with
  | zero => exact ⟨[], Or.inl ⟨.nil, rfl⟩⟩
  | succ n ih =>
    cases h : next it0 with
    | none => exact ⟨[], Or.inr ⟨.nil h, by simp⟩⟩
    | some p =>
      obtain ⟨a, it'⟩ := p
      obtain ⟨xs, hxs | hxs⟩ := ih it'
      · exact ⟨a :: xs, Or.inl ⟨.cons h hxs.1, by simp [hxs.2]⟩⟩
      · exact ⟨a :: xs, Or.inr ⟨.cons h hxs.1, by simp; omega⟩⟩

/-- PROGRESS, for EVERY iterator (finite or infinite) and every `max`: the pipeline never panics and every reachable configuration
runs, within finitely many operator micro-steps, into a configuration where the environment has control (inside an application of
`f`, or finished at top level); at most `max` applications of `f` happen.  So the pipeline terminates although the iterator may be
infinite. -/
theorem takePipe_progress (next : ι → Option (α × ι)) (it0 : ι) (max : Nat) :
    ∀ s, SReach (takePipe next it0 max) s →
      s.panicked = none ∧ (apps s.tr).length ≤ max ∧ ∃ n, EnvTurn (advance (takePipe next it0 max) n s) := by
  intro s hs
  obtain ⟨xs, hxs⟩ := yields_or_unfolds next max it0
  have hy : Yields next it0 xs := by rcases hxs with h | h; exact h.1; exact h.1.yields
  have hle : xs.length ≤ max := by rcases hxs with h | h <;> omega
  have hu : xs.length < max → Unfolds next it0 xs := by
    rcases hxs with h | h
    · intro h'; omega
    · exact fun _ => h.1
  obtain ⟨hp, ⟨m, hm⟩, _⟩ := reach_always next it0 max xs hy hle hu s hs
  obtain ⟨n, hn⟩ := reach_inv next it0 max xs hy hle hu s hs
  refine ⟨hp, ?_, n, inv_turn hn⟩
  rw [hm, List.length_take]; omega

/-! ## non-vacuity: an INFINITE iterator, `max = 2` -/

theorem sReach_advance {St Loc α β : Type} (M : Machine St Loc α β) (n : Nat) (s : Sys St Loc α β) (h : SReach M s) :
    SReach M (advance M n s) := by
  induction n generalizing s with
  | zero => exact h
  | succ n ih =>
    simp only [advance]
    cases ho : opStep M s with
    | none => exact h
    | some s' => exact ih s' (.step h (.op ho))

/-- play a script of environment moves, each followed by (at most) the given number of operator micro-steps -/
def play {St Loc α β : Type} (M : Machine St Loc α β) : List (Move α × Nat) → Sys St Loc α β → Sys St Loc α β
  | [], s => s
  | (m, n) :: ms, s => match envMove M s m with
    | some s' => play M ms (advance M n s')
    | none => s

theorem sReach_play {St Loc α β : Type} (M : Machine St Loc α β) (ms : List (Move α × Nat)) (s : Sys St Loc α β)
    (h : SReach M s) : SReach M (play M ms s) := by
  induction ms generalizing s with
  | nil => exact h
  | cons p ms ih =>
    obtain ⟨m, n⟩ := p
    simp only [play]
    cases he : envMove M s m with
    | none => exact h
    | some s' => exact ih _ (sReach_advance M n s' (.step h (.env ((envMove_iff M m s s').1 he) trivial)))

/-- the natural numbers from `n` on: an iterator that never ends -/
def nats (n : Nat) : Option (Nat × Nat) := some (n, n + 1)

/-- the hypotheses of `takePipe_lazy` are satisfiable by an infinite iterator -/
example : Yields nats 0 [0, 1] ∧ [0, 1].length = 2 := ⟨.cons rfl (.cons rfl .nil), rfl⟩

/-- … and the run `for_each(f)(take(2)(from_iter(0..)))`, `f(0)` returns, `f(1)` returns exists: the configuration at the end is reachable,
`f` has been applied to `0` and `1`, and the iterator stands at `2`, having been advanced twice -/
example : ∃ s, SReach (takePipe nats 0 2) s ∧ s.stack = [] ∧ s.tr ≠ [] ∧ apps s.tr = [0, 1] ∧
    s.st.1.1.nexts = 2 ∧ s.st.1.1.it = 2 ∧ s.panicked = none :=
  ⟨play (takePipe nats 0 2) [(.call (.subscribe 0), 22), (.ret, 17), (.ret, 22)] (Sys.init _),
    sReach_play _ _ _ .init, rfl, List.cons_ne_nil _ _, rfl, rfl, rfl, rfl⟩

/-- inside the second application of `f` the iterator has been advanced twice, not three times -/
example : ∃ s, SReach (takePipe nats 0 2) s ∧ (∃ l, s.stack = [.wait (.app 1) l]) ∧ apps s.tr = [0, 1] ∧ s.st.1.1.nexts = 2 :=
  ⟨play (takePipe nats 0 2) [(.call (.subscribe 0), 22), (.ret, 17)] (Sys.init _),
    sReach_play _ _ _ .init, ⟨_, rfl⟩, rfl, rfl⟩

/-- a one-item iterator under `take(3)`: `f(0)`, then the iterator is asked once more and says `None`: two advances -/
def one (n : Nat) : Option (Nat × Nat) := if n < 1 then some (n, n + 1) else none

example : Unfolds one 0 [0] ∧ [0].length < 3 := ⟨.cons rfl (.nil rfl), by decide⟩

example : ∃ s, SReach (takePipe one 0 3) s ∧ s.stack = [] ∧ s.tr ≠ [] ∧ apps s.tr = [0] ∧ s.st.1.1.nexts = 2 ∧ s.panicked = none :=
  ⟨play (takePipe one 0 3) [(.call (.subscribe 0), 22), (.ret, 25)] (Sys.init _),
    sReach_play _ _ _ .init, rfl, List.cons_ne_nil _ _, rfl, rfl, rfl⟩

end Cb.Closed.TakeP

#print axioms Cb.Closed.TakeP.takePipe_lazy
#print axioms Cb.Closed.TakeP.takePipe_short
#print axioms Cb.Closed.TakeP.takePipe_progress
