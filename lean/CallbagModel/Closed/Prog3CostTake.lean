import CallbagModel.Closed.Prog3Cost
import CallbagModel.Inv.JoinDemand
/-!
# The cost of programs with a `take` over `concat!`

Three syntactic classes of `Prog3`:

* `Prog3.tf` (take-free): sources, stages other than `take`, `concat2`, `concatN` of take-free programs.  These programs deliver AND END only
  in answer to a `Pull` (`prog3_joinHead`: `JoinHead` of `Inv/JoinDemand.lean`), and their cost is known under every demand.
* `Prog3.hc`: any stages — `take` included — over a source or over a `concat2`/`concatN` whose members are take-free.  For these the cost
  is known under EVERY demand (`prog3_headCostH : HeadCost p.toM p.toPipe`), so a further `take` may follow.
* `Prog3.lazy`: like `Prog3.eager` (`Closed/Prog3Cost.lean`) with "`p.linear`" replaced by "`p.hc`": a `take` may be applied to a program
  of class `hc`; any other stage, `concat2`, `concatN`, `flatRep` may be applied to programs of class `lazy`.  `Prog3.eager` is a
  subclass (`Prog3.lazy_of_eager`).

`prog3_cost_take`: for `p.ok`, `p.lazy`, at every reachable configuration of `thenM p.toM forEachM` under every conformant environment
the ghost counter of `Iterator::next` calls is at most `(sem p.toPipe none).2`, and equal to it once the application has returned.

So a `take` over a `concat!` is covered when every member of that `concat!` is take-free (the refutation in `Closed/Prog3Cost.lean` is why
this is needed).  NOT covered: a `take` over `flatRep` (the demand rule of `flatten` is not proved), `flatRep` as a member of a `concat!`
under a `take`.
-/
namespace Cb.Closed
open Cb ComposeSafe ComposeFun ComposeComplete PlugSafe PlugConcat FlatPlugSafe FlatPlugFun ConcatN ComposeCost PlugCost JoinDemand

/-! ## `sem` of `concat!` under a demand -/

theorem cost_concat (p q : Pipe) (dem : Demand) :
    (sem (Pipe.concat p q) dem).2 = (sem p dem).2 + (sem q (dsub dem (listSem p).length)).2 := by
  cases dem with
  | none => simp [sem, dsub]
  | some d =>
    simp only [sem, dsub]
    have hl := length_sem_some p d
    by_cases h : (listSem p).length < d
    · have : (sem p (some d)).1.length = (listSem p).length := by rw [hl]; omega
      rw [this, if_pos h]
    · have : (sem p (some d)).1.length = d := by rw [hl]; omega
      rw [this, if_neg (Nat.lt_irrefl _)]
      have : d - (listSem p).length = 0 := by omega
      rw [this, cost_zero, Nat.add_zero]

/-- the costs of the members, each under what is left of the demand after the members before it -/
def termsL : List (Demand → Nat) → List (List Int) → Demand → List Nat
  | c :: cs, y :: ys, dem => c dem :: termsL cs ys (dsub dem y.length)
  | _, _, _ => []

theorem termsL_length : ∀ (cs : List (Demand → Nat)) (ys : List (List Int)) (dem : Demand), ys.length = cs.length →
    (termsL cs ys dem).length = cs.length
  | [], [], _, _ => rfl
  | [], _ :: _, _, h => by simp at h
  | _ :: _, [], _, h => by simp at h
  | c :: cs, y :: ys, dem, h => by simp [termsL, termsL_length cs ys _ (by simpa using h)]

theorem catN_shift {X : Type} (f : Nat → List X) : ∀ j, catN f (j + 1) = f 0 ++ catN (fun i => f (i + 1)) j
  | 0 => by simp [catN]
  | j + 1 => by rw [catN, catN_shift f j, catN, List.append_assoc]

theorem termsL_getD : ∀ (cs : List (Demand → Nat)) (ys : List (List Int)) (dem : Demand) (j : Nat), ys.length = cs.length → j < cs.length →
    (termsL cs ys dem).getD j 0 = (cs.getD j (fun _ => 0)) (dsub dem (offY (fun i => ys.getD i []) j))
  | [], _, _, _, _, h => by simp at h
  | _ :: _, [], _, _, h, _ => by simp at h
  | c :: cs, y :: ys, dem, 0, _, _ => by simp [termsL, offY, catN, dsub_zero]
  | c :: cs, y :: ys, dem, j + 1, h, hj => by
    have ih := termsL_getD cs ys (dsub dem y.length) j (by simpa using h) (by simpa using hj)
    simp only [termsL, List.getD_cons_succ, ih, dsub_dsub]
    congr 2
    unfold offY
    rw [catN_shift, List.length_append]
    simp

theorem costJ_termsL (cs : List (Demand → Nat)) (ys : List (List Int)) (dem : Demand) (h : ys.length = cs.length) :
    costJ (fun i => cs.getD i (fun _ => 0)) (fun i => ys.getD i []) (downFrom cs.length) dem = (termsL cs ys dem).sum := by
  unfold costJ
  rw [List.map_congr_left (g := fun j => (termsL cs ys dem).getD j 0)
    (fun j hj => (termsL_getD cs ys dem j h (mem_downFrom.1 hj)).symm)]
  have := sum_downFrom_getD (termsL cs ys dem)
  rw [termsL_length cs ys dem h] at this
  exact this

theorem cost_toPipes_dem : ∀ (ps : List Prog3) (dem : Demand), ps ≠ [] →
    (sem (Prog3.toPipes ps) dem).2 =
      (termsL (ps.map (fun p dem => (sem p.toPipe dem).2)) (ps.map (fun p => listSem p.toPipe)) dem).sum
  | [], _, h => absurd rfl h
  | [p], dem, _ => by simp [Prog3.toPipes, termsL]
  | p :: q :: ps, dem, _ => by
    have ih := cost_toPipes_dem (q :: ps) (dsub dem (listSem p.toPipe).length) (by simp)
    rw [Prog3.toPipes, cost_concat, ih]
    simp [termsL]

/-! ## the syntactic classes -/

mutual
/-- take-free: sources, stages other than `take`, `concat!` — these programs END ONLY WHEN PULLED -/
def Prog3.tf : Prog3 → Prop
  | .src _ => True
  | .stage s p => s.noTake ∧ p.tf
  | .concat2 p q => p.tf ∧ q.tf
  | .concatN ps => Prog3.tfs ps
  | .flatRep _ _ => False
def Prog3.tfs : List Prog3 → Prop
  | [] => True
  | p :: ps => p.tf ∧ Prog3.tfs ps
end

/-- the programs whose cost is known under EVERY demand: any stages (`take` included) over a source or over a `concat!` of take-free
members -/
def Prog3.hc : Prog3 → Prop
  | .src _ => True
  | .stage _ p => p.hc
  | .concat2 p q => p.tf ∧ q.tf
  | .concatN ps => Prog3.tfs ps
  | .flatRep _ _ => False

mutual
/-- the class of `prog3_cost_take`: a `take` may be applied to a program of class `hc`; everything else as in `Prog3.eager` -/
def Prog3.lazy : Prog3 → Prop
  | .src _ => True
  | .stage s p => (p.hc ∨ s.noTake) ∧ p.lazy
  | .concat2 p q => p.lazy ∧ q.lazy
  | .concatN ps => Prog3.lazys ps
  | .flatRep _ p => p.lazy
def Prog3.lazys : List Prog3 → Prop
  | [] => True
  | p :: ps => p.lazy ∧ Prog3.lazys ps
end

theorem Prog3.hc_of_linear : (p : Prog3) → p.linear → p.hc
  | .src _, _ => trivial
  | .stage _ p, h => Prog3.hc_of_linear p h
  | .concat2 _ _, h => h.elim
  | .concatN _, h => h.elim
  | .flatRep _ _, h => h.elim

mutual
/-- `Prog3.eager` is a subclass -/
theorem Prog3.lazy_of_eager : (p : Prog3) → p.eager → p.lazy
  | .src _, _ => trivial
  | .stage _ p, h => ⟨h.1.imp (Prog3.hc_of_linear p) id, Prog3.lazy_of_eager p h.2⟩
  | .concat2 p q, h => ⟨Prog3.lazy_of_eager p h.1, Prog3.lazy_of_eager q h.2⟩
  | .concatN ps, h => Prog3.lazys_of_eagers ps h
  | .flatRep _ p, h => Prog3.lazy_of_eager p h
theorem Prog3.lazys_of_eagers : (ps : List Prog3) → Prog3.eagers ps → Prog3.lazys ps
  | [], _ => trivial
  | p :: ps, h => ⟨Prog3.lazy_of_eager p h.1, Prog3.lazys_of_eagers ps h.2⟩
end

/-! ## heads -/

theorem Stg.stageEnd (s : Stg) (hs : s.noTake) : StageEnd s.toM.M := by
  cases s with
  | map f => exact Relay.stageEnd (Relay.map f) (fun _ _ _ => by simp [Relay.map])
  | filter q => exact Relay.stageEnd (Relay.filter q) (fun h => by simp [Relay.filter] at h)
  | scan r seed => exact Relay.stageEnd (Relay.scan r seed) (fun _ _ _ => by simp [Relay.scan])
  | take _ => exact hs.elim
  | skip n => exact Relay.stageEnd (Relay.skip n) (fun h => by simp [Relay.skip] at h)

theorem headCost_of_join {A : AnyM} {p : Pipe} (h : JoinHead A (listSem p) (fun dem => (sem p dem).2)) : HeadCost A p :=
  ⟨h.ok.head, h.pull, h.up, h.low⟩

mutual
/-- take-free programs: everything, under every demand -/
theorem prog3_joinHead : (p : Prog3) → p.ok → p.tf → JoinHead p.toM (listSem p.toPipe) (fun dem => (sem p.toPipe dem).2)
  | .src xs, _, _ =>
    have h := srcM_headCost xs
    ⟨srcM_headOkT xs, ComposeFull.FromIter.noUpstream _ _, h.pull, FromIter.endOnPull _ _, h.up, h.low, cost_mono' _⟩
  | .stage s p, hok, ht => by
    have ih := prog3_joinHead p hok.2 ht.2
    have hc := (headCost_of_join ih).stage s hok.1
    obtain ⟨h1, h2, _⟩ := prog3_headOkT (.stage s p) hok
    have H := hyp_of_roles ih.ok.head.up (s.demandStage hok.1).mono.stage.pipe.downSide
    exact ⟨h1, h2, hc.pull, EndOnPull.compose ih.eop ih.pull (s.stageEnd ht.1) H, hc.up, hc.low, cost_mono' _⟩
  | .concat2 p q, hok, ht => by
    have := concat2_join (prog3_joinHead p hok.1 ht.1) (prog3_joinHead q hok.2 ht.2)
    have hc : (fun dem => (sem (Prog3.concat2 p q).toPipe dem).2) =
        fun dem => (sem p.toPipe dem).2 + (sem q.toPipe (dsub dem (listSem p.toPipe).length)).2 :=
      funext (fun dem => cost_concat _ _ dem)
    rw [hc]; exact this
  | .concatN ps, hok, ht => by
    have hne : 0 < (Prog3.toMs ps).length := by
      rw [Prog3.toMs_length]; exact List.length_pos_iff.2 hok.1
    have hl : (ps.map (fun p => listSem p.toPipe)).length = (Prog3.toMs ps).length := by rw [List.length_map, Prog3.toMs_length]
    have := concatM_join (Prog3.toMs ps) hne (fun i => (ps.map (fun p dem => (sem p.toPipe dem).2)).getD i (fun _ => 0))
      (ps.map (fun p => listSem p.toPipe)) hl (prog3s_joinHead ps hok.2 ht)
    have hc : (fun dem => (sem (Prog3.concatN ps).toPipe dem).2) =
        costJ (fun i => (ps.map (fun p dem => (sem p.toPipe dem).2)).getD i (fun _ => 0))
          (fun i => (ps.map (fun p => listSem p.toPipe)).getD i []) (downFrom (Prog3.toMs ps).length) := by
      funext dem
      have e1 := costJ_termsL (ps.map (fun p dem => (sem p.toPipe dem).2)) (ps.map (fun p => listSem p.toPipe)) dem (by simp)
      rw [List.length_map] at e1
      rw [Prog3.toMs_length, e1]
      exact cost_toPipes_dem ps dem hok.1
    show JoinHead (concatM (Prog3.toMs ps)) (listSem (Prog3.toPipes ps)) _
    rw [hc, listSem_toPipes]; exact this
  | .flatRep _ _, _, ht => ht.elim
theorem prog3s_joinHead : (ps : List Prog3) → Prog3.oks ps → Prog3.tfs ps → ∀ i (hi : i < (Prog3.toMs ps).length),
    JoinHead (Prog3.toMs ps)[i] ((ps.map (fun p => listSem p.toPipe)).getD i [])
      ((ps.map (fun p dem => (sem p.toPipe dem).2)).getD i (fun _ => 0))
  | [], _, _ => fun i hi => absurd hi (Nat.not_lt_zero _)
  | p :: ps, hok, ht => fun i hi => by
    cases i with
    | zero => exact prog3_joinHead p hok.1 ht.1
    | succ i => exact prog3s_joinHead ps hok.2 ht.2 i (by simpa [Prog3.toMs] using hi)
end

/-- the programs of class `hc`: the cost under every demand -/
theorem prog3_headCostH : (p : Prog3) → p.ok → p.hc → HeadCost p.toM p.toPipe
  | .src xs, _, _ => srcM_headCost xs
  | .stage s p, hok, hh => (prog3_headCostH p hok.2 hh).stage s hok.1
  | .concat2 p q, hok, hh => headCost_of_join (prog3_joinHead (.concat2 p q) hok hh)
  | .concatN ps, hok, hh => headCost_of_join (prog3_joinHead (.concatN ps) hok hh)
  | .flatRep _ _, _, hh => hh.elim

mutual
/-- the invariant of the structural induction -/
theorem prog3_costL : (p : Prog3) → p.ok → p.lazy → CostN p.toM.M p.toM.nexts (sem p.toPipe none).2
  | .src xs, _, _ => (srcM_headCost xs).costN
  | .stage s p, hok, he => by
    rcases he.1 with hl | hnt
    · exact (prog3_headCostH (.stage s p) hok hl).costN
    · have := CostN.stage (prog3_headOkT p hok.2).1.head (prog3_costL p hok.2 he.2) s hnt
      show CostN (thenM p.toM s.toM).M (thenM p.toM s.toM).nexts (sem (s.toPipe p.toPipe) none).2
      rw [sem_stage_cost, Stg.up_none_of_noTake s hnt]; exact this
  | .concat2 p q, hok, he => by
    obtain ⟨hp1, hp2, _⟩ := prog3_headOkT p hok.1
    obtain ⟨hq1, hq2, _⟩ := prog3_headOkT q hok.2
    have := concat2_cost hp1 hp2 (prog3_costL p hok.1 he.1) hq1 hq2 (prog3_costL q hok.2 he.2)
    show CostN _ _ (sem (Pipe.concat p.toPipe q.toPipe) none).2
    simp only [sem]; exact this
  | .concatN ps, hok, he => by
    have hne : 0 < (Prog3.toMs ps).length := by
      rw [Prog3.toMs_length]; exact List.length_pos_iff.2 hok.1
    have := concatM_cost (Prog3.toMs ps) hne (ps.map (fun p => (sem p.toPipe none).2)) (prog3s_costL ps hok.2 he)
      (by rw [List.length_map, Prog3.toMs_length])
    show CostN (concatM (Prog3.toMs ps)).M (concatM (Prog3.toMs ps)).nexts (sem (Prog3.toPipes ps) none).2
    rw [cost_toPipes ps hok.1]; exact this
  | .flatRep k p, hok, he => by
    obtain ⟨h1, h2, h3⟩ := prog3_headOkT p hok.2
    have kI : ∀ a, CostN (atInit (srcM []).M ({ (srcM []).M.init with it := rangeFrom a k } : (srcM []).St)) (srcM []).nexts (k + 1) := by
      intro a
      have := (srcM_headCost (rangeFrom a k)).costN
      rw [cost_src, length_rangeFrom] at this
      exact this
    have := flat_cost (Mi := (srcM []).M) (initOf := fun a => { (srcM []).M.init with it := rangeFrom a k })
      (g := fun a => rangeFrom a k) (nxO := p.toM.nexts) (nxI := (srcM []).nexts) h1 h2 (h3 hok.1) (inner_headOkT k) (inner_noUpstream k)
      (prog3_costL p hok.2 he) kI
    show CostN (flatM k p.toM).M (flatM k p.toM).nexts (sem (Pipe.flatMap (fun a => Pipe.src (rangeFrom a k)) p.toPipe) none).2
    rw [cost_flatRep]; exact this
theorem prog3s_costL : (ps : List Prog3) → Prog3.oks ps → Prog3.lazys ps → ∀ i (hi : i < (Prog3.toMs ps).length),
    ∃ ys, HeadOkT (Prog3.toMs ps)[i].M ys ∧ ComposeFull.NoUpstream (Prog3.toMs ps)[i].M ∧
      CostN (Prog3.toMs ps)[i].M (Prog3.toMs ps)[i].nexts ((ps.map (fun p => (sem p.toPipe none).2)).getD i 0)
  | [], _, _ => fun i hi => absurd hi (Nat.not_lt_zero _)
  | p :: ps, hok, he => fun i hi => by
    cases i with
    | zero => exact ⟨_, (prog3_headOkT p hok.1).1, (prog3_headOkT p hok.1).2.1, prog3_costL p hok.1 he.1⟩
    | succ i => exact prog3s_costL ps hok.2 he.2 i (by simpa [Prog3.toMs] using hi)
end

/-- **the cost of every program of class `Prog3.lazy`** — in particular with a `take` over a `concat!` whose members are take-free -/
theorem prog3_cost_take (p : Prog3) (hok : p.ok) (he : p.lazy) :
    ∀ s, SReach (thenM p.toM forEachM).M s →
      (thenM p.toM forEachM).nexts s.st ≤ (sem p.toPipe none).2 ∧
      (s.stack = [] → s.tr ≠ [] → (thenM p.toM forEachM).nexts s.st = (sem p.toPipe none).2) :=
  head_forEach_costN (prog3_headOkT p hok).1.head (prog3_costL p hok he)

/-- `pipe!(concat!(from_iter([1,2,3]), pipe!(from_iter([4,5,6,7]), filter(even)), from_iter([8,9])), take(4), for_each(f))`: the first
member is run to its end (4 advances), the second is asked for one item and needs two advances (4 is even), the third is never pulled -/
example : ∀ s, SReach (thenM (Prog3.stage (.take 4) (.concatN [.src [1, 2, 3], .stage (.filter (fun x => x % 2 == 0)) (.src [4, 5, 6, 7]),
        .src [8, 9]])).toM forEachM).M s →
      (thenM (Prog3.stage (.take 4) (.concatN [.src [1, 2, 3], .stage (.filter (fun x => x % 2 == 0)) (.src [4, 5, 6, 7]),
        .src [8, 9]])).toM forEachM).nexts s.st ≤ 5 :=
  fun s hs => (prog3_cost_take
    (Prog3.stage (.take 4) (.concatN [.src [1, 2, 3], .stage (.filter (fun x => x % 2 == 0)) (.src [4, 5, 6, 7]), .src [8, 9]]))
    ⟨fun n hn => (by cases hn; decide), by simp, trivial, ⟨fun n hn => (by cases hn), trivial⟩, trivial, trivial⟩
    ⟨.inl ⟨trivial, ⟨trivial, trivial⟩, trivial, trivial⟩, trivial, ⟨.inl trivial, trivial⟩, trivial, trivial⟩ s hs).1

end Cb.Closed

#print axioms Cb.Closed.prog3_joinHead
#print axioms Cb.Closed.prog3_costL
#print axioms Cb.Closed.prog3_cost_take
