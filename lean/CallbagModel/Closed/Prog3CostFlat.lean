import CallbagModel.Closed.Prog3CostTake
import CallbagModel.Inv.FlatDemandCost
/-!
# The cost of programs with a `take` over `concat!` and `flatRep`

`Closed/Prog3CostTake.lean` with `flatRep` added to the classes:

* `Prog3.tf2` (take-free): sources, stages other than `take`, `concat2`, `concatN`, `flatRep` of take-free programs.  These programs
  deliver AND END only in answer to a `Pull` (`prog3_joinHead2`), and their cost is known under every demand.
* `Prog3.hc2`: any stages — `take` included — over a source, over a `concat2`/`concatN` whose members are take-free, or over `flatRep`
  of a program of class `hc2` (`flatRep`'s argument is linear by `Prog3.ok`, so it is a chain of stages over a source: a `take` INSIDE
  the argument of `flatRep` is allowed).  For these the cost is known under EVERY demand (`prog3_headCostH2`).
* `Prog3.lazy2`: like `Prog3.lazy` with `hc2`: a `take` may be applied to a program of class `hc2`; any other stage, `concat2`,
  `concatN`, `flatRep` to programs of class `lazy2`.  `Prog3.lazy` (hence `Prog3.eager`) is a subclass (`Prog3.lazy2_of_lazy`).

`prog3_cost_flat`: for `p.ok`, `p.lazy2`, at every reachable configuration of `thenM p.toM forEachM` under every conformant environment
the ghost counter of `Iterator::next` calls is at most `(sem p.toPipe none).2`, and equal to it once the application has returned.

What remains outside: a `take` over a `concat!` one of whose members contains a `take` (the refutation in `Closed/Prog3Cost.lean`:
for those the rule in the style of `Inv/ComposeCost.lean` is false and the statement needs a restricted environment).
-/
namespace Cb.Closed
open Cb ComposeSafe ComposeFun ComposeComplete PlugSafe PlugConcat FlatPlugSafe FlatPlugFun ConcatN ComposeCost PlugCost JoinDemand FlatDemand

/-! ## `sem` of `flatRep` under a demand -/

theorem cost_flatRep_dem (k : Nat) (p : Pipe) (dem : Demand) :
    (sem (Pipe.flatMap (fun a => Pipe.src (rangeFrom a k)) p) dem).2 =
      flatC (fun d => (sem p d).2) (fun a d => (sem (Pipe.src (rangeFrom a k)) d).2) (fun a => rangeFrom a k) (listSem p) dem := by
  rw [sem_flatMap_cost]
  exact (flatC_eq_flatCost (fun a d => sem (Pipe.src (rangeFrom a k)) d) (fun d => (sem p d).2) (fun a => rangeFrom a k)
    (fun a d => length_sem_some _ d) (fun a => cost_zero _) (listSem p) dem).symm

/-! ## `flatRep k` over a head of known cost -/

/-- the hypotheses of `Inv/FlatDemandCost.lean` for `flatM k A` -/
theorem flatHyp_of {A : AnyM} {ys : List Int} (k : Nat) (hO : HeadOkT A.M ys) (NO : ComposeFull.NoUpstream A.M) (PO : PullOnly A.M) :
    FlatHyp A.M (srcM []).M (fun a => ({ (srcM []).M.init with it := rangeFrom a k } : (srcM []).St)) ys (fun a => rangeFrom a k) :=
  ⟨hO, NO, PO, inner_headOkT k, inner_noUpstream k,
    fun a => FromIter.pullOnly (α' := Int) listNextI (rangeFrom a k), fun a => FromIter.endOnPull (α' := Int) listNextI (rangeFrom a k)⟩

/-- `flatRep k` over a head whose cost is known under every demand -/
theorem HeadCost.flat {A : AnyM} {p : Pipe} (k : Nat) (hO : HeadOkT A.M (listSem p)) (NO : ComposeFull.NoUpstream A.M) (h : HeadCost A p) :
    HeadCost (flatM k A) (Pipe.flatMap (fun a => Pipe.src (rangeFrom a k)) p) := by
  have F := flatHyp_of k hO NO h.pull
  have hc : (fun dem => (sem (Pipe.flatMap (fun a => Pipe.src (rangeFrom a k)) p) dem).2) =
      flatC (fun d => (sem p d).2) (fun a d => (sem (Pipe.src (rangeFrom a k)) d).2) (fun a => rangeFrom a k) (listSem p) :=
    funext (cost_flatRep_dem k p)
  obtain ⟨h4, _⟩ := flat_headOkT (Mi := (srcM []).M) (initOf := fun a => { (srcM []).M.init with it := rangeFrom a k })
    (g := fun a => rangeFrom a k) hO NO h.pull (inner_headOkT k) (inner_noUpstream k)
  refine ⟨h4.head, flatPlug_pullOnly F.hO F.NO F.PO F.hI F.NI F.PI F.EI, ?_, ?_⟩
  · rw [hc]
    exact flat_headUp F (nxO := A.nexts) (nxI := (srcM []).nexts) h.up (fun a => (srcM_headCost (rangeFrom a k)).up)
  · rw [hc]
    exact flat_headLow F (nxO := A.nexts) (nxI := (srcM []).nexts) h.low (fun a => (srcM_headCost (rangeFrom a k)).low)
      (cost_mono' p) (fun a => cost_mono' _) (fun a => cost_zero _)

/-! ## the syntactic classes, with `flatRep` -/

mutual
/-- take-free, `flatRep` included: these programs deliver and end only when pulled -/
def Prog3.tf2 : Prog3 → Prop
  | .src _ => True
  | .stage s p => s.noTake ∧ p.tf2
  | .concat2 p q => p.tf2 ∧ q.tf2
  | .concatN ps => Prog3.tfs2 ps
  | .flatRep _ p => p.tf2
def Prog3.tfs2 : List Prog3 → Prop
  | [] => True
  | p :: ps => p.tf2 ∧ Prog3.tfs2 ps
end

/-- the programs whose cost is known under EVERY demand: any stages (`take` included) over a source, over a `concat!` of take-free
members, or over `flatRep` of such a program -/
def Prog3.hc2 : Prog3 → Prop
  | .src _ => True
  | .stage _ p => p.hc2
  | .concat2 p q => p.tf2 ∧ q.tf2
  | .concatN ps => Prog3.tfs2 ps
  | .flatRep _ p => p.hc2

mutual
/-- the class of `prog3_cost_flat`: a `take` may be applied to a program of class `hc2`; everything else as in `Prog3.eager` -/
def Prog3.lazy2 : Prog3 → Prop
  | .src _ => True
  | .stage s p => (p.hc2 ∨ s.noTake) ∧ p.lazy2
  | .concat2 p q => p.lazy2 ∧ q.lazy2
  | .concatN ps => Prog3.lazys2 ps
  | .flatRep _ p => p.lazy2
def Prog3.lazys2 : List Prog3 → Prop
  | [] => True
  | p :: ps => p.lazy2 ∧ Prog3.lazys2 ps
end

mutual
theorem Prog3.tf2_of_tf : (p : Prog3) → p.tf → p.tf2
  | .src _, _ => trivial
  | .stage _ p, h => ⟨h.1, Prog3.tf2_of_tf p h.2⟩
  | .concat2 p q, h => ⟨Prog3.tf2_of_tf p h.1, Prog3.tf2_of_tf q h.2⟩
  | .concatN ps, h => Prog3.tfs2_of_tfs ps h
  | .flatRep _ _, h => h.elim
theorem Prog3.tfs2_of_tfs : (ps : List Prog3) → Prog3.tfs ps → Prog3.tfs2 ps
  | [], _ => trivial
  | p :: ps, h => ⟨Prog3.tf2_of_tf p h.1, Prog3.tfs2_of_tfs ps h.2⟩
end

theorem Prog3.hc2_of_hc : (p : Prog3) → p.hc → p.hc2
  | .src _, _ => trivial
  | .stage _ p, h => Prog3.hc2_of_hc p h
  | .concat2 p q, h => ⟨Prog3.tf2_of_tf p h.1, Prog3.tf2_of_tf q h.2⟩
  | .concatN ps, h => Prog3.tfs2_of_tfs ps h
  | .flatRep _ _, h => h.elim

mutual
/-- `Prog3.lazy` (hence `Prog3.eager`) is a subclass -/
theorem Prog3.lazy2_of_lazy : (p : Prog3) → p.lazy → p.lazy2
  | .src _, _ => trivial
  | .stage _ p, h => ⟨h.1.imp (Prog3.hc2_of_hc p) id, Prog3.lazy2_of_lazy p h.2⟩
  | .concat2 p q, h => ⟨Prog3.lazy2_of_lazy p h.1, Prog3.lazy2_of_lazy q h.2⟩
  | .concatN ps, h => Prog3.lazys2_of_lazys ps h
  | .flatRep _ p, h => Prog3.lazy2_of_lazy p h
theorem Prog3.lazys2_of_lazys : (ps : List Prog3) → Prog3.lazys ps → Prog3.lazys2 ps
  | [], _ => trivial
  | p :: ps, h => ⟨Prog3.lazy2_of_lazy p h.1, Prog3.lazys2_of_lazys ps h.2⟩
end

/-! ## heads -/

mutual
/-- take-free programs, `flatRep` included: everything, under every demand -/
theorem prog3_joinHead2 : (p : Prog3) → p.ok → p.tf2 → JoinHead p.toM (listSem p.toPipe) (fun dem => (sem p.toPipe dem).2)
  | .src xs, _, _ =>
    have h := srcM_headCost xs
    ⟨srcM_headOkT xs, ComposeFull.FromIter.noUpstream _ _, h.pull, FromIter.endOnPull _ _, h.up, h.low, cost_mono' _⟩
  | .stage s p, hok, ht => by
    have ih := prog3_joinHead2 p hok.2 ht.2
    have hc := (headCost_of_join ih).stage s hok.1
    obtain ⟨h1, h2, _⟩ := prog3_headOkT (.stage s p) hok
    have H := hyp_of_roles ih.ok.head.up (s.demandStage hok.1).mono.stage.pipe.downSide
    exact ⟨h1, h2, hc.pull, EndOnPull.compose ih.eop ih.pull (s.stageEnd ht.1) H, hc.up, hc.low, cost_mono' _⟩
  | .concat2 p q, hok, ht => by
    have := concat2_join (prog3_joinHead2 p hok.1 ht.1) (prog3_joinHead2 q hok.2 ht.2)
    have hc : (fun dem => (sem (Prog3.concat2 p q).toPipe dem).2) =
        fun dem => (sem p.toPipe dem).2 + (sem q.toPipe (dsub dem (listSem p.toPipe).length)).2 :=
      funext (fun dem => cost_concat _ _ dem)
    rw [hc]; exact this
  | .concatN ps, hok, ht => by
    have hne : 0 < (Prog3.toMs ps).length := by
      rw [Prog3.toMs_length]; exact List.length_pos_iff.2 hok.1
    have hl : (ps.map (fun p => listSem p.toPipe)).length = (Prog3.toMs ps).length := by rw [List.length_map, Prog3.toMs_length]
    have := concatM_join (Prog3.toMs ps) hne (fun i => (ps.map (fun p dem => (sem p.toPipe dem).2)).getD i (fun _ => 0))
      (ps.map (fun p => listSem p.toPipe)) hl (prog3s_joinHead2 ps hok.2 ht)
    have hc : (fun dem => (sem (Prog3.concatN ps).toPipe dem).2) =
        costJ (fun i => (ps.map (fun p dem => (sem p.toPipe dem).2)).getD i (fun _ => 0))
          (fun i => (ps.map (fun p => listSem p.toPipe)).getD i []) (downFrom (Prog3.toMs ps).length) := by
      funext dem
      have e1 := costJ_termsL (ps.map (fun p dem => (sem p.toPipe dem).2)) (ps.map (fun p => listSem p.toPipe)) dem (by simp)
      rw [List.length_map] at e1
      rw [Prog3.toMs_length, e1]
      exact cost_toPipes_dem ps dem hok.1
    show JoinHead (concatM (Prog3.toMs ps)) (listSem (Prog3.toPipes ps)) _
    rw [hc, listSem_toPipes]; exact this
  | .flatRep k p, hok, ht => by
    have ih := prog3_joinHead2 p hok.2 ht
    have hc := (headCost_of_join ih).flat k ih.ok ih.nu
    obtain ⟨h1, h2, _⟩ := prog3_headOkT (.flatRep k p) hok
    exact ⟨h1, h2, hc.pull, flat_endOnPull (flatHyp_of k ih.ok ih.nu ih.pull) ih.eop, hc.up, hc.low, cost_mono' _⟩
theorem prog3s_joinHead2 : (ps : List Prog3) → Prog3.oks ps → Prog3.tfs2 ps → ∀ i (hi : i < (Prog3.toMs ps).length),
    JoinHead (Prog3.toMs ps)[i] ((ps.map (fun p => listSem p.toPipe)).getD i [])
      ((ps.map (fun p dem => (sem p.toPipe dem).2)).getD i (fun _ => 0))
  | [], _, _ => fun i hi => absurd hi (Nat.not_lt_zero _)
  | p :: ps, hok, ht => fun i hi => by
    cases i with
    | zero => exact prog3_joinHead2 p hok.1 ht.1
    | succ i => exact prog3s_joinHead2 ps hok.2 ht.2 i (by simpa [Prog3.toMs] using hi)
end

/-- the programs of class `hc2`: the cost under every demand -/
theorem prog3_headCostH2 : (p : Prog3) → p.ok → p.hc2 → HeadCost p.toM p.toPipe
  | .src xs, _, _ => srcM_headCost xs
  | .stage s p, hok, hh => (prog3_headCostH2 p hok.2 hh).stage s hok.1
  | .concat2 p q, hok, hh => headCost_of_join (prog3_joinHead2 (.concat2 p q) hok hh)
  | .concatN ps, hok, hh => headCost_of_join (prog3_joinHead2 (.concatN ps) hok hh)
  | .flatRep k p, hok, hh =>
    (prog3_headCostH2 p hok.2 hh).flat k (prog3_headOkT p hok.2).1 (prog3_headOkT p hok.2).2.1

mutual
/-- the invariant of the structural induction -/
theorem prog3_costL2 : (p : Prog3) → p.ok → p.lazy2 → CostN p.toM.M p.toM.nexts (sem p.toPipe none).2
  | .src xs, _, _ => (srcM_headCost xs).costN
  | .stage s p, hok, he => by
    rcases he.1 with hl | hnt
    · exact (prog3_headCostH2 (.stage s p) hok hl).costN
    · have := CostN.stage (prog3_headOkT p hok.2).1.head (prog3_costL2 p hok.2 he.2) s hnt
      show CostN (thenM p.toM s.toM).M (thenM p.toM s.toM).nexts (sem (s.toPipe p.toPipe) none).2
      rw [sem_stage_cost, Stg.up_none_of_noTake s hnt]; exact this
  | .concat2 p q, hok, he => by
    obtain ⟨hp1, hp2, _⟩ := prog3_headOkT p hok.1
    obtain ⟨hq1, hq2, _⟩ := prog3_headOkT q hok.2
    have := concat2_cost hp1 hp2 (prog3_costL2 p hok.1 he.1) hq1 hq2 (prog3_costL2 q hok.2 he.2)
    show CostN _ _ (sem (Pipe.concat p.toPipe q.toPipe) none).2
    simp only [sem]; exact this
  | .concatN ps, hok, he => by
    have hne : 0 < (Prog3.toMs ps).length := by
      rw [Prog3.toMs_length]; exact List.length_pos_iff.2 hok.1
    have := concatM_cost (Prog3.toMs ps) hne (ps.map (fun p => (sem p.toPipe none).2)) (prog3s_costL2 ps hok.2 he)
      (by rw [List.length_map, Prog3.toMs_length])
    show CostN (concatM (Prog3.toMs ps)).M (concatM (Prog3.toMs ps)).nexts (sem (Prog3.toPipes ps) none).2
    rw [cost_toPipes ps hok.1]; exact this
  | .flatRep k p, hok, he => by
    obtain ⟨h1, h2, h3⟩ := prog3_headOkT p hok.2
    have kI : ∀ a, CostN (atInit (srcM []).M ({ (srcM []).M.init with it := rangeFrom a k } : (srcM []).St)) (srcM []).nexts (k + 1) := by
      intro a
      have := (srcM_headCost (rangeFrom a k)).costN
      rw [cost_src, length_rangeFrom] at this
      exact this
    have := flat_cost (Mi := (srcM []).M) (initOf := fun a => { (srcM []).M.init with it := rangeFrom a k })
      (g := fun a => rangeFrom a k) (nxO := p.toM.nexts) (nxI := (srcM []).nexts) h1 h2 (h3 hok.1) (inner_headOkT k) (inner_noUpstream k)
      (prog3_costL2 p hok.2 he) kI
    show CostN (flatM k p.toM).M (flatM k p.toM).nexts (sem (Pipe.flatMap (fun a => Pipe.src (rangeFrom a k)) p.toPipe) none).2
    rw [cost_flatRep]; exact this
theorem prog3s_costL2 : (ps : List Prog3) → Prog3.oks ps → Prog3.lazys2 ps → ∀ i (hi : i < (Prog3.toMs ps).length),
    ∃ ys, HeadOkT (Prog3.toMs ps)[i].M ys ∧ ComposeFull.NoUpstream (Prog3.toMs ps)[i].M ∧
      CostN (Prog3.toMs ps)[i].M (Prog3.toMs ps)[i].nexts ((ps.map (fun p => (sem p.toPipe none).2)).getD i 0)
  | [], _, _ => fun i hi => absurd hi (Nat.not_lt_zero _)
  | p :: ps, hok, he => fun i hi => by
    cases i with
    | zero => exact ⟨_, (prog3_headOkT p hok.1).1, (prog3_headOkT p hok.1).2.1, prog3_costL2 p hok.1 he.1⟩
    | succ i => exact prog3s_costL2 ps hok.2 he.2 i (by simpa [Prog3.toMs] using hi)
end

/-- **the cost of every program of class `Prog3.lazy2`** — a `take` over `concat!` and `flatRep` whose members are take-free -/
theorem prog3_cost_flat (p : Prog3) (hok : p.ok) (he : p.lazy2) :
    ∀ s, SReach (thenM p.toM forEachM).M s →
      (thenM p.toM forEachM).nexts s.st ≤ (sem p.toPipe none).2 ∧
      (s.stack = [] → s.tr ≠ [] → (thenM p.toM forEachM).nexts s.st = (sem p.toPipe none).2) :=
  head_forEach_costN (prog3_headOkT p hok).1.head (prog3_costL2 p hok he)

/-- `pipe!(concat!(flatten(map(|a| from_iter(a..a+2))(pipe!(from_iter([1,5]), map(·*10)))), from_iter([7])), take(4), for_each(f))` (the
example of `prog2_correct`): 3 advances for the inner source of 10 (two items and its end), 2 for the inner source of 50 (`take(4)` is
then satisfied), 2 for the outer source (it is asked for two items), none for `from_iter([7])` -/
example : ∀ s, SReach (thenM (Prog3.stage (.take 4)
      (.concat2 (.flatRep 2 (.stage (.map (· * 10)) (.src [1, 5]))) (.src [7]))).toM forEachM).M s →
      (thenM (Prog3.stage (.take 4) (.concat2 (.flatRep 2 (.stage (.map (· * 10)) (.src [1, 5]))) (.src [7]))).toM forEachM).nexts s.st ≤ 7 ∧
      (s.stack = [] → s.tr ≠ [] →
        (thenM (Prog3.stage (.take 4) (.concat2 (.flatRep 2 (.stage (.map (· * 10)) (.src [1, 5]))) (.src [7]))).toM forEachM).nexts s.st = 7) :=
  prog3_cost_flat (Prog3.stage (.take 4) (.concat2 (.flatRep 2 (.stage (.map (· * 10)) (.src [1, 5]))) (.src [7])))
    ⟨fun n hn => (by cases hn; decide), ⟨trivial, ⟨fun n hn => (by cases hn), trivial⟩⟩, trivial⟩
    ⟨.inl ⟨⟨trivial, trivial⟩, trivial⟩, ⟨.inl trivial, trivial⟩, trivial⟩

end Cb.Closed

#print axioms Cb.Closed.prog3_joinHead2
#print axioms Cb.Closed.prog3_headCostH2
#print axioms Cb.Closed.prog3_cost_flat
