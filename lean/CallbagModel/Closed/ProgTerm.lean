import CallbagModel.Closed.Prog2
import CallbagModel.Inv.ComposeTerm
import CallbagModel.Inv.FlatPlugTerm
/-!
# The application returns: "… and then completes without stalling", at machine level

For the machine the driver builds from a program text, closed with `for_each(f)`:

* `…_progress`: from every reachable configuration the machine runs — by operator steps alone — into an environment turn
  (no divergence between two boundary events);
* `…_returns`: from every reachable configuration, operator steps and environment RETURNS (the closure calls returning) lead back to
  top level (`Drain`): whatever has happened, if the closures keep returning, the application returns;
* `…_nonvacuous`: hence there IS a reachable configuration with `s.stack = [] ∧ s.tr ≠ []`, at which the last clause of
  `linear_correct` says `applied s.tr = listSem …`.

Method (`Inv/ComposeTerm.lean`): a potential for every operator, asked of every state and location (no invariants), composed
syntactically; `from_iter`'s loop is paid for by the length of the remaining list.  Safety (no panic) comes from `linear_correct`.
-/
namespace Cb.Closed
open Cb ComposeSafe ComposeFun ComposeComplete PlugSafe PlugConcat ComposeTerm

theorem listNextI_len : ∀ (it : List Int) (a : Int) (it' : List Int), listNextI it = some (a, it') → it'.length < it.length := by
  intro it a it' h
  cases it with
  | nil => simp [listNextI] at h
  | cons x t => simp [listNextI] at h; obtain ⟨_, rfl⟩ := h; simp

theorem srcM_headPot (xs : List Int) : HeadPot (srcM xs).M :=
  HeadPot.fromIter Int listNextI xs List.length listNextI_len

theorem Stg.headPot (s : Stg) {A : AnyM} (h : HeadPot A.M) : HeadPot (thenM A s.toM).M := by
  cases s with
  | map f => exact h.relay (Relay.map f)
  | filter q => exact h.relay (Relay.filter q)
  | scan r seed => exact h.relay (Relay.scan r seed)
  | take n => exact h.take n
  | skip n => exact h.relay (Relay.skip n)

theorem fold_headPot (ss : List Stg) (A : AnyM) (h : HeadPot A.M) : HeadPot (ss.foldl (fun A s => thenM A s.toM) A).M := by
  induction ss generalizing A with
  | nil => exact h
  | cons s ss ih => exact ih _ (s.headPot h)

/-- every linear head has a potential, for every cost of its sink -/
theorem chain_headPot (xs : List Int) (ss : List Stg) : HeadPot (chainM xs ss).M := fold_headPot ss _ (srcM_headPot xs)

theorem fold_noUpstream (ss : List Stg) (hpos : ∀ n, Stg.take n ∈ ss → 0 < n) (A : AnyM) (ys : List Int) (h : HeadOk A.M ys)
    (hn : ComposeFull.NoUpstream A.M) : ComposeFull.NoUpstream (ss.foldl (fun A s => thenM A s.toM) A).M := by
  induction ss generalizing A ys with
  | nil => exact hn
  | cons s ss ih =>
    simp only [List.foldl_cons]
    have hd := s.demandStage (fun n hn => hpos n (hn ▸ List.mem_cons_self))
    exact ih (fun n hn => hpos n (List.mem_cons_of_mem _ hn)) (thenM A s.toM) (s.fn ys) (h.compose hd)
      (ComposeFull.NoUpstream.compose hn (hyp_of_roles h.up hd.mono.stage.pipe.downSide))

theorem chain_noUpstream (xs : List Int) (ss : List Stg) (hpos : ∀ n, Stg.take n ∈ ss → 0 < n) :
    ComposeFull.NoUpstream (chainM xs ss).M :=
  fold_noUpstream ss hpos (srcM xs) xs (srcM_headOk xs) (ComposeFull.FromIter.noUpstream _ _)

/-- a closed head, closed with `for_each`: progress and return -/
theorem head_forEach_term {S L : Type} {M : Machine S L Int Int} {ys : List Int} (h : HeadOk M ys) (hn : ComposeFull.NoUpstream M)
    (hp : HeadPot M) :
    (∀ s, SReach (compose M (ForEach.machine Int)) s → ∃ n, EnvTurn (advance (compose M (ForEach.machine Int)) n s)) ∧
    (∀ s, SReach (compose M (ForEach.machine Int)) s → ∃ t, SReach (compose M (ForEach.machine Int)) t ∧ t.stack = [] ∧
      (s.tr ≠ [] → t.tr ≠ []) ∧ Drain (compose M (ForEach.machine Int)) s t) := by
  obtain ⟨P, hg⟩ := hp.closed
  have hsafe : ∀ s, SReach (compose M (ForEach.machine Int)) s → BasicSafe s := fun s hs => (head_forEach_correct h s hs).1
  have hno := ComposeFull.NoUpstream.compose hn (hyp_of_roles h.up ForEach.downSide)
  refine ⟨progress_of_pot P hg hsafe, fun s hs => ?_⟩
  obtain ⟨t, h1, h2, h3, _, h5⟩ := returns_of_pot P hg hsafe hno s hs
  exact ⟨t, h2, h3, h5, h1⟩

/-- after the application `for_each(f)(source)` — the only move of the environment at top level — the trace is not empty -/
theorem head_forEach_nonvacuous {S L : Type} {M : Machine S L Int Int} {ys : List Int} (h : HeadOk M ys) (hn : ComposeFull.NoUpstream M)
    (hp : HeadPot M) : ∃ s, SReach (compose M (ForEach.machine Int)) s ∧ s.stack = [] ∧ s.tr ≠ [] ∧ applied s.tr = ys := by
  have he := EnvStep.call (M := compose M (ForEach.machine Int)) (st := (compose M (ForEach.machine Int)).init) (stk := [])
    (g := {}) (tr := []) (.subscribe 0) rfl (by simp [legalIn, isTop])
  have hr := reach_env (SReachR.init (M := compose M (ForEach.machine Int)) (R := anyEnv)) he
  obtain ⟨t, h1, h2, h3, _⟩ := (head_forEach_term h hn hp).2 _ hr
  exact ⟨t, h1, h2, h3 (by simp), (head_forEach_correct h t h1).2.2 h2 (h3 (by simp))⟩

/-! ## linear programs -/

/-- **no divergence** -/
theorem linear_progress (xs : List Int) (ss : List Stg) (hpos : ∀ n, Stg.take n ∈ ss → 0 < n) :
    ∀ s, SReach (thenM (chainM xs ss) forEachM).M s → ∃ n, EnvTurn (advance (thenM (chainM xs ss) forEachM).M n s) :=
  (head_forEach_term (chain_headOk xs ss hpos) (chain_noUpstream xs ss hpos) (chain_headPot xs ss)).1

/-- **the application returns** -/
theorem linear_returns (xs : List Int) (ss : List Stg) (hpos : ∀ n, Stg.take n ∈ ss → 0 < n) :
    ∀ s, SReach (thenM (chainM xs ss) forEachM).M s → ∃ t, SReach (thenM (chainM xs ss) forEachM).M t ∧ t.stack = [] ∧
      (s.tr ≠ [] → t.tr ≠ []) ∧ Drain (thenM (chainM xs ss) forEachM).M s t :=
  (head_forEach_term (chain_headOk xs ss hpos) (chain_noUpstream xs ss hpos) (chain_headPot xs ss)).2

/-- the last clause of `linear_correct` is not vacuous -/
theorem linear_nonvacuous (xs : List Int) (ss : List Stg) (hpos : ∀ n, Stg.take n ∈ ss → 0 < n) :
    ∃ s, SReach (thenM (chainM xs ss) forEachM).M s ∧ s.stack = [] ∧ s.tr ≠ [] ∧ applied s.tr = listSem (chainPipe xs ss) := by
  rw [← chainFn_eq_listSem]
  exact head_forEach_nonvacuous (chain_headOk xs ss hpos) (chain_noUpstream xs ss hpos) (chain_headPot xs ss)


/-! ## programs with `concat!` -/

theorem prog_headPot (p : Prog) : HeadPot p.toM.M := by
  induction p with
  | src xs => exact srcM_headPot xs
  | stage s p ih => exact s.headPot ih
  | concat p q ihp ihq => exact HeadPot.concat2 ihp ihq

/-- **no divergence** -/
theorem prog_progress (p : Prog) (hpos : p.takesPos) :
    ∀ s, SReach (thenM p.toM forEachM).M s → ∃ n, EnvTurn (advance (thenM p.toM forEachM).M n s) :=
  (head_forEach_term (prog_headOkT p hpos).1.head (prog_headOkT p hpos).2 (prog_headPot p)).1

/-- **the application returns** -/
theorem prog_returns (p : Prog) (hpos : p.takesPos) :
    ∀ s, SReach (thenM p.toM forEachM).M s → ∃ t, SReach (thenM p.toM forEachM).M t ∧ t.stack = [] ∧
      (s.tr ≠ [] → t.tr ≠ []) ∧ Drain (thenM p.toM forEachM).M s t :=
  (head_forEach_term (prog_headOkT p hpos).1.head (prog_headOkT p hpos).2 (prog_headPot p)).2

/-- the last clause of `prog_correct` is not vacuous -/
theorem prog_nonvacuous (p : Prog) (hpos : p.takesPos) :
    ∃ s, SReach (thenM p.toM forEachM).M s ∧ s.stack = [] ∧ s.tr ≠ [] ∧ applied s.tr = listSem p.toPipe :=
  head_forEach_nonvacuous (prog_headOkT p hpos).1.head (prog_headOkT p hpos).2 (prog_headPot p)


/-! ## programs with `concat!` and `flatRep` -/

theorem rangeFrom_length (a : Int) (k : Nat) : (rangeFrom a k).length = k := by simp [rangeFrom]

/-- the inner sources of `flatRep k` -/
theorem inner_headPotW (k : Nat) :
    HeadPotW (srcM []).M (fun a => ({ (srcM []).M.init with it := rangeFrom a k } : (srcM []).St)) :=
  HeadPotW.fromIter Int listNextI [] List.length listNextI_len _ k (fun a => Nat.le_of_eq (rangeFrom_length a k))

theorem prog2_headPot (p : Prog2) : HeadPot p.toM.M := by
  induction p with
  | src xs => exact srcM_headPot xs
  | stage s p ih => exact s.headPot ih
  | concat p q ihp ihq => exact HeadPot.concat2 ihp ihq
  | flatRep k p ih => exact HeadPot.flat _ ih (inner_headPotW k)

/-- **no divergence** -/
theorem prog2_progress (p : Prog2) (hok : p.ok) :
    ∀ s, SReach (thenM p.toM forEachM).M s → ∃ n, EnvTurn (advance (thenM p.toM forEachM).M n s) :=
  (head_forEach_term (prog2_headOkT p hok).1.head (prog2_headOkT p hok).2.1 (prog2_headPot p)).1

/-- **the application returns** -/
theorem prog2_returns (p : Prog2) (hok : p.ok) :
    ∀ s, SReach (thenM p.toM forEachM).M s → ∃ t, SReach (thenM p.toM forEachM).M t ∧ t.stack = [] ∧
      (s.tr ≠ [] → t.tr ≠ []) ∧ Drain (thenM p.toM forEachM).M s t :=
  (head_forEach_term (prog2_headOkT p hok).1.head (prog2_headOkT p hok).2.1 (prog2_headPot p)).2

/-- the last clause of `prog2_correct` is not vacuous -/
theorem prog2_nonvacuous (p : Prog2) (hok : p.ok) :
    ∃ s, SReach (thenM p.toM forEachM).M s ∧ s.stack = [] ∧ s.tr ≠ [] ∧ applied s.tr = listSem p.toPipe :=
  head_forEach_nonvacuous (prog2_headOkT p hok).1.head (prog2_headOkT p hok).2.1 (prog2_headPot p)

end Cb.Closed

#print axioms Cb.Closed.linear_progress
#print axioms Cb.Closed.linear_returns
#print axioms Cb.Closed.linear_nonvacuous
#print axioms Cb.Closed.prog_progress
#print axioms Cb.Closed.prog_returns
#print axioms Cb.Closed.prog_nonvacuous
#print axioms Cb.Closed.prog2_progress
#print axioms Cb.Closed.prog2_returns
#print axioms Cb.Closed.prog2_nonvacuous
