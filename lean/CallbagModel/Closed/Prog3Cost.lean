import CallbagModel.Closed.Prog3
import CallbagModel.Closed.LinearCost
import CallbagModel.Closed.LinearInfCost
import CallbagModel.Inv.PlugCost
/-!
# The cost of programs with joins that are run to their end

`Prog3.eager p`: no `take` is applied to the output of a join (`concat2`, `concatN`, `flatRep`) — a `take` may sit anywhere in a linear
part (in particular inside the members of a join), and any other stage may follow a join.  Then every join is asked for "everything"
(the demand `none` of `Ops/Pipeline.lean`), and

`prog3_cost`: for `p.ok`, `p.eager`, at every reachable configuration of `thenM p.toM forEachM` under every conformant environment the
ghost counter of `Iterator::next` calls (the SUM over all `from_iter` sources of the network, the inner sources of `flatten` included) is
at most `(sem p.toPipe none).2`, and equal to it once the application has returned.

NOT covered: a `take` over a join (`take n (concat!(…))`, `take n (flatten(…))`), where the join is asked for less than everything.
The rule one would write for that in the style of `Inv/ComposeCost.lean` — "under a sink that pulls only while it has received fewer than
`d` items (`DemOk (some d)`), `concat!(A, B)` advances the iterators at most `cost_A(d) + cost_B(d − |ysA|)` times" — is FALSE for a
member that ends on its own, because `got_pull` of `concat` is sticky.  Execution, `A = pipe!(from_iter([1,2]), take(1))`,
`B = from_iter([3])`, `d = 1` (`sem` says 1):
  sink: subscribe; `concat` subscribes `A`, is greeted, greets the sink.
  sink: `Pull` (0 < 1 received): `got_pull := true`; `Pull` to `A`, to its iterator: `next` (1st advance) = 1; `take`: `taken = 1`,
        `Data(1)` to `concat`, to the sink; THE SINK RETURNS without `Pull` and without `Terminate` (it obeys `DemOk (some 1)`).
  `take` (back from its delivery): `taken = max`, so `Terminate` to its source and to `concat`; `concat`: `i := 1`, subscribes `B`;
        `B` greets; `i ≠ 0` and `got_pull` is (still) true: `Pull` to `B`: `next` (2nd advance) = 3 — 2 > 1, and `Data(3)` is then
        delivered to a sink that asked for nothing.
In a closed program the demand `some d` comes from a `take(d)` below, which sends `Terminate` upstream BEFORE its delivery of the `d`-th
item returns (`d2`–`d5` of `Ops/Take.lean` run inside `concat`'s delivery), so the execution above does not occur there; but "before the
delivery returns" is not a property of the trace (returns are not events): the general statement needs reachability under a restricted
environment, or members that end only in answer to a `Pull` (take-free members), for which the rule should hold.  `flatten` pulls unconditionally
too (`it2` when an inner source ends, `ig1` when one greets); with the `from_iter` inner sources of `flatRep` that is harmless, but the
proof would need that they end only in answer to a `Pull`.
-/
namespace Cb.Closed
open Cb ComposeSafe ComposeFun ComposeComplete PlugSafe PlugConcat FlatPlugSafe FlatPlugFun ConcatN ComposeCost PlugCost

mutual
/-- no `take` over a join -/
def Prog3.eager : Prog3 → Prop
  | .src _ => True
  | .stage s p => (p.linear ∨ s.noTake) ∧ p.eager
  | .concat2 p q => p.eager ∧ q.eager
  | .concatN ps => Prog3.eagers ps
  | .flatRep _ p => p.eager
def Prog3.eagers : List Prog3 → Prop
  | [] => True
  | p :: ps => p.eager ∧ Prog3.eagers ps
end

/-! ## `sem` under the demand `none` -/

theorem Stg.up_none_of_noTake (s : Stg) (hs : s.noTake) (ys : List Int) : s.up ys none = none := by
  cases s <;> first | rfl | exact hs.elim

theorem cost_toPipes : ∀ ps : List Prog3, ps ≠ [] →
    (sem (Prog3.toPipes ps) none).2 = (ps.map (fun p => (sem p.toPipe none).2)).sum
  | [], h => absurd rfl h
  | [p], _ => by simp [Prog3.toPipes]
  | p :: q :: ps, _ => by
    have ih := cost_toPipes (q :: ps) (by simp)
    simp only [Prog3.toPipes, sem, ih, List.map_cons, List.sum_cons]

theorem flatCost_none (semG : Int → Demand → List Int × Nat) (oc : Demand → Nat) : ∀ (rest : List Int) (s : Nat),
    flatCost semG oc rest none s = (rest.map (fun a => (semG a none).2)).sum + oc none
  | [], _ => by simp [flatCost]
  | a :: rest, s => by simp only [flatCost, flatCost_none semG oc rest (s + 1), List.map_cons, List.sum_cons]; omega

theorem length_rangeFrom (a : Int) (k : Nat) : (rangeFrom a k).length = k := by simp [rangeFrom]

theorem cost_flatRep (k : Nat) (p : Pipe) :
    (sem (Pipe.flatMap (fun a => Pipe.src (rangeFrom a k)) p) none).2 = (sem p none).2 + (listSem p).length * (k + 1) := by
  rw [sem_flatMap_cost, flatCost_none]
  have : ∀ l : List Int, (l.map (fun a => (sem (Pipe.src (rangeFrom a k)) none).2)).sum = l.length * (k + 1) := by
    intro l
    induction l with
    | nil => simp
    | cons a t ih =>
      rw [List.map_cons, List.sum_cons, ih, cost_src, length_rangeFrom, List.length_cons, Nat.succ_mul]; omega
  rw [this]; omega

/-! ## heads -/

theorem HeadCost.costN {A : AnyM} {p : Pipe} (h : HeadCost A p) : CostN A.M A.nexts (sem p none).2 :=
  ⟨fun s hs => h.up none s hs (demOk_none _), fun s hs hk hd => (h.low s hs hk).2 hd⟩

/-- linear programs are the chains of `Closed/LinearCost.lean` -/
theorem prog3_linear_headCost : (p : Prog3) → p.linear → p.ok → HeadCost p.toM p.toPipe
  | .src xs, _, _ => srcM_headCost xs
  | .stage s p, hl, hok => (prog3_linear_headCost p hl hok.2).stage s hok.1
  | .concat2 _ _, hl, _ => hl.elim
  | .concatN _, hl, _ => hl.elim
  | .flatRep _ _, hl, _ => hl.elim

/-- a stage other than `take` after a head that is run to its end -/
theorem CostN.stage {A : AnyM} {ys : List Int} {c : Nat} (hA : HeadOk A.M ys) (k : CostN A.M A.nexts c) (s : Stg) (hs : s.noTake) :
    CostN (thenM A s.toM).M (thenM A s.toM).nexts c := by
  have H := hyp_of_roles hA.up s.pipeable.downSide
  refine ⟨fun st hst => ?_, fun st hst hstk hd => ?_⟩
  · have := bound_compose (nx := A.nexts) H k.ub st hst
    show A.nexts st.st.1 + s.toM.nexts st.st.2 ≤ c
    rw [Stg.nexts_zero]; exact this
  · obtain ⟨s1, s2, hr1, hr2, hk1, hk2, ht1, ht2, hgh, htr, hp⟩ := proj_top H hst hstk
    have hst' : st.st = (s1.st, s2.st) := hp.m.st
    have hpre : sentData 0 s2.tr <+: ys := by rw [← hp.ifc 0]; exact hA.spec s1 hr1 ht1
    have hd2 : s2.g.ph.sinkPh 0 = .doneBySrc := by rw [← hgh.sink 0]; exact hd
    have := (s.stageLow ys s2 hr2 hk2 hpre).2 hd2
    rw [Stg.up_none_of_noTake s hs] at this
    rcases this with he | hle
    · have := k.lb s1 hr1 hk1 (toSrc_ended.1 (hgh.ifc ▸ he))
      show c ≤ A.nexts st.st.1 + s.toM.nexts st.st.2
      rw [hst', Stg.nexts_zero]; exact this
    · exact hle.elim

mutual
/-- the invariant of the structural induction -/
theorem prog3_costN : (p : Prog3) → p.ok → p.eager → CostN p.toM.M p.toM.nexts (sem p.toPipe none).2
  | .src xs, _, _ => (srcM_headCost xs).costN
  | .stage s p, hok, he => by
    rcases he.1 with hl | hnt
    · exact (prog3_linear_headCost (.stage s p) hl hok).costN
    · have := CostN.stage (prog3_headOkT p hok.2).1.head (prog3_costN p hok.2 he.2) s hnt
      show CostN (thenM p.toM s.toM).M (thenM p.toM s.toM).nexts (sem (s.toPipe p.toPipe) none).2
      rw [sem_stage_cost, Stg.up_none_of_noTake s hnt]; exact this
  | .concat2 p q, hok, he => by
    obtain ⟨hp1, hp2, _⟩ := prog3_headOkT p hok.1
    obtain ⟨hq1, hq2, _⟩ := prog3_headOkT q hok.2
    have := concat2_cost hp1 hp2 (prog3_costN p hok.1 he.1) hq1 hq2 (prog3_costN q hok.2 he.2)
    show CostN _ _ (sem (Pipe.concat p.toPipe q.toPipe) none).2
    simp only [sem]; exact this
  | .concatN ps, hok, he => by
    have hne : 0 < (Prog3.toMs ps).length := by
      rw [Prog3.toMs_length]; exact List.length_pos_iff.2 hok.1
    have := concatM_cost (Prog3.toMs ps) hne (ps.map (fun p => (sem p.toPipe none).2)) (prog3s_costN ps hok.2 he)
      (by rw [List.length_map, Prog3.toMs_length])
    show CostN (concatM (Prog3.toMs ps)).M (concatM (Prog3.toMs ps)).nexts (sem (Prog3.toPipes ps) none).2
    rw [cost_toPipes ps hok.1]; exact this
  | .flatRep k p, hok, he => by
    obtain ⟨h1, h2, h3⟩ := prog3_headOkT p hok.2
    have kI : ∀ a, CostN (atInit (srcM []).M ({ (srcM []).M.init with it := rangeFrom a k } : (srcM []).St)) (srcM []).nexts (k + 1) := by
      intro a
      have := (srcM_headCost (rangeFrom a k)).costN
      rw [cost_src, length_rangeFrom] at this
      exact this
    have := flat_cost (Mi := (srcM []).M) (initOf := fun a => { (srcM []).M.init with it := rangeFrom a k })
      (g := fun a => rangeFrom a k) (nxO := p.toM.nexts) (nxI := (srcM []).nexts) h1 h2 (h3 hok.1) (inner_headOkT k) (inner_noUpstream k)
      (prog3_costN p hok.2 he) kI
    show CostN (flatM k p.toM).M (flatM k p.toM).nexts (sem (Pipe.flatMap (fun a => Pipe.src (rangeFrom a k)) p.toPipe) none).2
    rw [cost_flatRep]; exact this
theorem prog3s_costN : (ps : List Prog3) → Prog3.oks ps → Prog3.eagers ps → ∀ i (hi : i < (Prog3.toMs ps).length),
    ∃ ys, HeadOkT (Prog3.toMs ps)[i].M ys ∧ ComposeFull.NoUpstream (Prog3.toMs ps)[i].M ∧
      CostN (Prog3.toMs ps)[i].M (Prog3.toMs ps)[i].nexts ((ps.map (fun p => (sem p.toPipe none).2)).getD i 0)
  | [], _, _ => fun i hi => absurd hi (Nat.not_lt_zero _)
  | p :: ps, hok, he => fun i hi => by
    cases i with
    | zero => exact ⟨_, (prog3_headOkT p hok.1).1, (prog3_headOkT p hok.1).2.1, prog3_costN p hok.1 he.1⟩
    | succ i => exact prog3s_costN ps hok.2 he.2 i (by simpa [Prog3.toMs] using hi)
end

/-- a head of known cost, closed with `for_each` -/
theorem head_forEach_costN {A : AnyM} {ys : List Int} {c : Nat} (hA : HeadOk A.M ys) (k : CostN A.M A.nexts c) :
    ∀ s, SReach (thenM A forEachM).M s →
      (thenM A forEachM).nexts s.st ≤ c ∧ (s.stack = [] → s.tr ≠ [] → (thenM A forEachM).nexts s.st = c) := by
  intro s hs
  have H : Hyp A.M (ForEach.machine Int) := hyp_of_roles hA.up ForEach.downSide
  have hle := bound_forEach hA.up k.ub s hs
  refine ⟨hle, fun hstk hne => Nat.le_antisymm hle ?_⟩
  have hnx : (thenM A forEachM).nexts s.st = A.nexts s.st.1 := by simp [thenM, forEachM]
  rw [hnx]
  obtain ⟨s1, s2, hr1, hr2, hk1, hk2, ht1, ht2, hgh, htr, hp⟩ := proj_top H hs hstk
  have hst : s.st = (s1.st, s2.st) := hp.m.st
  rw [hst]
  obtain ⟨_, _, hoth, hoths, hm⟩ := inv_at_turn (ForEach.machine Int) ForEach.Inv ForEach.inv_init
    (fun s hi => (ForEach.inv_turn s hi).1) ForEach.inv_step hr2 ht2
  cases hm with
  | m1 h1 _ _ =>
    exfalso
    apply hne
    apply idle_tr _ s hs
    intro k
    rw [hgh.sink k]
    by_cases hk : k = 0
    · subst hk; exact h1
    · exact hoths k hk
  | m2 _ _ h5 => rw [hk2] at h5; cases h5
  | m3 _ h2 _ _ =>
    exfalso
    have hb := ForEach.owes s2 hr2 hk2 ht2.1 h2
    have hl1 : s1.g.ph.sinkPh 0 = .live := toSrc_live.1 (hgh.ifc ▸ h2)
    have ha1 : aP s1.tr = true := by simpa [aP, bP, lastPull_dual, htr.ifc] using hb
    rw [hA.served s1 hr1 hk1 hl1] at ha1; cases ha1
  | m3a _ _ _ h5 => obtain ⟨a, r, h5, _⟩ := h5; rw [hk2] at h5; cases h5
  | m4 _ h2 _ => exact k.lb s1 hr1 hk1 (toSrc_ended.1 (hgh.ifc ▸ h2))

/-- **the cost of every program whose joins are run to their end** -/
theorem prog3_cost (p : Prog3) (hok : p.ok) (he : p.eager) :
    ∀ s, SReach (thenM p.toM forEachM).M s →
      (thenM p.toM forEachM).nexts s.st ≤ (sem p.toPipe none).2 ∧
      (s.stack = [] → s.tr ≠ [] → (thenM p.toM forEachM).nexts s.st = (sem p.toPipe none).2) :=
  head_forEach_costN (prog3_headOkT p hok).1.head (prog3_costN p hok he)

/-- `pipe!(concat!(from_iter([1,2]), pipe!(from_iter([3,4,5]), take(2)), flatten(map(|a| from_iter(a..a+2))(from_iter([7])))), for_each(f))`:
3 advances for the first member, 2 for the second (`take(2)` stops it), 2 + 3 for the third (the outer source and its one inner source) -/
example : ∀ s, SReach (thenM (Prog3.concatN [.src [1, 2], .stage (.take 2) (.src [3, 4, 5]), .flatRep 2 (.src [7])]).toM forEachM).M s →
      (thenM (Prog3.concatN [.src [1, 2], .stage (.take 2) (.src [3, 4, 5]), .flatRep 2 (.src [7])]).toM forEachM).nexts s.st ≤ 10 ∧
      (s.stack = [] → s.tr ≠ [] →
        (thenM (Prog3.concatN [.src [1, 2], .stage (.take 2) (.src [3, 4, 5]), .flatRep 2 (.src [7])]).toM forEachM).nexts s.st = 10) :=
  prog3_cost _ ⟨by simp, trivial, ⟨fun n hn => (by cases hn; decide), trivial⟩, ⟨trivial, trivial⟩, trivial⟩
    ⟨trivial, ⟨.inl trivial, trivial⟩, trivial, trivial⟩

end Cb.Closed

#print axioms Cb.Closed.prog3_costN
#print axioms Cb.Closed.prog3_cost
