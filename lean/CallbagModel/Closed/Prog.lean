import CallbagModel.Closed.ProgDef
import CallbagModel.Closed.Linear
import CallbagModel.Inv.PlugConcat
/-!
# Programs with `concat!`: the machine the driver builds computes the list function of the program

`prog_correct`: for every program built from `from_iter(xs)`, the unary stages and binary `concat!` (with `0 < n` in every `take n`),
closed with `for_each(f)`: at every reachable configuration under every conformant environment the machine `thenM p.toM forEachM` is
phase-level safe and has not panicked; `f` has been applied, in order, to a prefix of `listSem p.toPipe`; and to exactly
`listSem p.toPipe` once the application has returned.  Structural induction with `HeadOkT p.toM.M (listSem p.toPipe)` (and "no
upstream") as the invariant: `FromIter.headOkT`, `HeadOkT.compose` with `Stg.stageT`, `concat2_headOkT`.
-/
namespace Cb.Closed
open Cb ComposeSafe ComposeFun ComposeComplete PlugSafe PlugConcat

/-- every stage machine is a stage in the strengthened sense (`take n` for `0 < n`) -/
theorem Stg.stageT (s : Stg) (hpos : ∀ n, s = .take n → 0 < n) : StageT s.toM.M s.fn := by
  cases s with
  | map f => exact (Relay.stageT (Relay.map f) (fun _ _ _ => by simp [Relay.map])).congr (fun l => RelayFun.xferOut_map f _ l)
  | filter q =>
    exact (Relay.stageT (Relay.filter q) (fun h => by simp [Relay.filter] at h)).congr (fun l => RelayFun.xferOut_filter q _ l)
  | scan r seed =>
    exact (Relay.stageT (Relay.scan r seed) (fun _ _ _ => by simp [Relay.scan])).congr (fun l => RelayFun.xferOut_scan r seed _ l)
  | take n => exact Take.stageT n (hpos n rfl)
  | skip n =>
    exact (Relay.stageT (Relay.skip n) (fun h => by simp [Relay.skip] at h)).congr
      (fun l => by have := RelayFun.xferOut_skip (α := Int) n 0 l; simpa [Relay.skip, Stg.fn] using this)

theorem srcM_headOkT (xs : List Int) : HeadOkT (srcM xs).M xs := by
  show HeadOkT (FromIter.machine Int _ xs) xs
  refine FromIter.headOkT _ xs xs ?_
  induction xs with
  | nil => exact .nil rfl
  | cons a as ih => exact .cons rfl ih

/-- the invariant of the structural induction -/
theorem prog_headOkT (p : Prog) (hpos : p.takesPos) :
    HeadOkT p.toM.M (listSem p.toPipe) ∧ ComposeFull.NoUpstream p.toM.M := by
  induction p with
  | src xs => exact ⟨srcM_headOkT xs, ComposeFull.FromIter.noUpstream _ _⟩
  | stage s p ih =>
    obtain ⟨h1, h2⟩ := ih hpos.2
    have hs := Stg.stageT s hpos.1
    refine ⟨?_, ?_⟩
    · show HeadOkT (compose p.toM.M s.toM.M) (listSem (s.toPipe p.toPipe))
      rw [← Stg.fn_listSem]
      exact h1.compose hs
    · exact ComposeFull.NoUpstream.compose h2 (hyp_of_roles h1.head.up hs.stage.mono.stage.pipe.downSide)
  | concat p q ihp ihq =>
    obtain ⟨hp1, hp2⟩ := ihp hpos.1
    obtain ⟨hq1, hq2⟩ := ihq hpos.2
    exact concat2_headOkT hp1 hp2 hq1 hq2

/-- **every program with `concat!`** -/
theorem prog_correct (p : Prog) (hpos : p.takesPos) :
    ∀ s, SReach (thenM p.toM forEachM).M s →
      BasicSafe s ∧ applied s.tr <+: listSem p.toPipe ∧ (s.stack = [] → s.tr ≠ [] → applied s.tr = listSem p.toPipe) :=
  head_forEach_correct (prog_headOkT p hpos).1.head

/-- … and in full: C01–C05, C17 -/
theorem prog_safe (p : Prog) (hpos : p.takesPos) :
    ∀ s, SReach (thenM p.toM forEachM).M s → Safe s ∧ SafeFor 4 s ∧ SafeFor 5 s :=
  ComposeFull.closed_pipeline_full₀ (prog_headOkT p hpos).1.head.up

/-- `pipe!(concat!(from_iter([1,2,3]), pipe!(from_iter([4,5,6]), map(·*10))), take(4), for_each(f))`: `f` is applied to 1, 2, 3, 40 -/
example : ∀ s, SReach (thenM (Prog.stage (.take 4) (.concat (.src [1, 2, 3]) (.stage (.map (· * 10)) (.src [4, 5, 6])))).toM forEachM).M s →
      BasicSafe s ∧ applied s.tr <+: [1, 2, 3, 40] ∧ (s.stack = [] → s.tr ≠ [] → applied s.tr = [1, 2, 3, 40]) :=
  prog_correct _ ⟨fun n hn => (by cases hn; decide), ⟨trivial, ⟨fun n hn => (by cases hn), trivial⟩⟩⟩

end Cb.Closed

#print axioms Cb.Closed.prog_headOkT
#print axioms Cb.Closed.prog_correct
#print axioms Cb.Closed.prog_safe
