import CallbagModel.Closed.Prog3Def
import CallbagModel.Closed.ProgTerm
import CallbagModel.Inv.ConcatN
import CallbagModel.Inv.ConcatNTerm
/-!
# Programs with n-ary `concat!`: correctness, safety, completion — for every term the driver builds

`Prog3` (`Closed/Prog3Def.lean`) = sources, unary stages, the binary `concat2 p q` (`plugM 0 p.toM (plugM 1 q.toM concat2M)`), the n-ary
`concatN ps` (`concatM (ps.map toM)`) and `flatRep k p`.  With `Prog3.ok p` (every `take n` has `0 < n`, the argument of every `flatRep`
is linear, every `concatN` has at least one member), for the machine `thenM p.toM forEachM`:

* `prog3_correct`: phase-level safe, no panic; `f` applied to a prefix of `listSem p.toPipe`, to all of it once the application has returned;
* `prog3_safe`: C01–C05, C17 in full;
* `prog3_progress`, `prog3_returns`, `prog3_nonvacuous` (together `prog3_completes`): no divergence; if the closures keep returning the
  application returns; and the last clause of `prog3_correct` is not vacuous.

Structural induction over the nested syntax (`prog3_headOkT` / `prog3s_headOkT`, `prog3_headPot` / `prog3s_headPot`), with
`concatN_headOkT'` (`Inv/ConcatN.lean`) and `HeadPot.concatM` (`Inv/ConcatNTerm.lean`) for the n-ary case.
-/
namespace Cb.Closed
open Cb ComposeSafe ComposeFun ComposeComplete PlugSafe PlugConcat FlatPlugSafe FlatPlugFun ComposeTerm ConcatN

theorem Prog3.toMs_length (ps : List Prog3) : (Prog3.toMs ps).length = ps.length := by
  rw [Prog3.toMs_eq_map, List.length_map]

/-- the list function of an n-ary `concat!` is the concatenation -/
theorem listSem_toPipes : ∀ ps : List Prog3, listSem (Prog3.toPipes ps) = (ps.map (fun p => listSem p.toPipe)).flatten
  | [] => rfl
  | [p] => by simp [Prog3.toPipes]
  | p :: q :: ps => by
    have ih := listSem_toPipes (q :: ps)
    simp only [Prog3.toPipes, listSem, ih, List.map_cons, List.flatten_cons]

mutual
/-- the invariant of the structural induction -/
theorem prog3_headOkT : (p : Prog3) → p.ok →
    HeadOkT p.toM.M (listSem p.toPipe) ∧ ComposeFull.NoUpstream p.toM.M ∧ (p.linear → PullOnly p.toM.M)
  | .src xs, _ => ⟨srcM_headOkT xs, ComposeFull.FromIter.noUpstream _ _, fun _ => FromIter.pullOnly _ _⟩
  | .stage s p, hok => by
    obtain ⟨h1, h2, h3⟩ := prog3_headOkT p hok.2
    have hs := Stg.stageT s hok.1
    have H := hyp_of_roles h1.head.up hs.stage.mono.stage.pipe.downSide
    refine ⟨?_, ComposeFull.NoUpstream.compose h2 H, fun hl => PullOnly.compose (h3 hl) (Stg.stagePull s) H⟩
    show HeadOkT (compose p.toM.M s.toM.M) (listSem (s.toPipe p.toPipe))
    rw [← Stg.fn_listSem]
    exact h1.compose hs
  | .concat2 p q, hok => by
    obtain ⟨hp1, hp2, _⟩ := prog3_headOkT p hok.1
    obtain ⟨hq1, hq2, _⟩ := prog3_headOkT q hok.2
    obtain ⟨h1, h2⟩ := concat2_headOkT hp1 hp2 hq1 hq2
    exact ⟨h1, h2, fun hl => hl.elim⟩
  | .concatN ps, hok => by
    have hne : 0 < (Prog3.toMs ps).length := by
      rw [Prog3.toMs_length]; exact List.length_pos_iff.2 hok.1
    obtain ⟨h1, h2⟩ := concatN_headOkT' (Prog3.toMs ps) hne (ps.map (fun p => listSem p.toPipe))
      (by rw [List.length_map, Prog3.toMs_length]) (prog3s_headOkT ps hok.2)
    refine ⟨?_, h2, fun hl => hl.elim⟩
    show HeadOkT (concatM (Prog3.toMs ps)).M (listSem (Prog3.toPipes ps))
    rw [listSem_toPipes]; exact h1
  | .flatRep k p, hok => by
    obtain ⟨h1, h2, h3⟩ := prog3_headOkT p hok.2
    obtain ⟨h4, h5⟩ := flat_headOkT (Mi := (srcM []).M) (initOf := fun a => { (srcM []).M.init with it := rangeFrom a k })
      (g := fun a => rangeFrom a k) h1 h2 (h3 hok.1) (inner_headOkT k) (inner_noUpstream k)
    exact ⟨h4, h5, fun hl => hl.elim⟩
theorem prog3s_headOkT : (ps : List Prog3) → Prog3.oks ps → ∀ i (hi : i < (Prog3.toMs ps).length),
    HeadOkT (Prog3.toMs ps)[i].M ((ps.map (fun p => listSem p.toPipe)).getD i []) ∧ ComposeFull.NoUpstream (Prog3.toMs ps)[i].M
  | [], _ => fun i hi => absurd hi (Nat.not_lt_zero _)
  | p :: ps, hok => fun i hi => by
    cases i with
    | zero => exact ⟨(prog3_headOkT p hok.1).1, (prog3_headOkT p hok.1).2.1⟩
    | succ i =>
      exact prog3s_headOkT ps hok.2 i (by simpa [Prog3.toMs] using hi)
end

mutual
theorem prog3_headPot : (p : Prog3) → HeadPot p.toM.M
  | .src xs => srcM_headPot xs
  | .stage s p => s.headPot (prog3_headPot p)
  | .concat2 p q => HeadPot.concat2 (prog3_headPot p) (prog3_headPot q)
  | .concatN ps => HeadPot.concatM _ (prog3s_headPot ps)
  | .flatRep k p => HeadPot.flat _ (prog3_headPot p) (inner_headPotW k)
theorem prog3s_headPot : (ps : List Prog3) → ∀ A ∈ Prog3.toMs ps, HeadPot A.M
  | [] => fun A hA => by cases hA
  | p :: ps => fun A hA => by
    rcases List.mem_cons.1 hA with rfl | hA
    · exact prog3_headPot p
    · exact prog3s_headPot ps A hA
end

/-- **every program with `concat!` of any arity and `flatRep`** (with `Prog3.ok`) -/
theorem prog3_correct (p : Prog3) (hok : p.ok) :
    ∀ s, SReach (thenM p.toM forEachM).M s →
      BasicSafe s ∧ applied s.tr <+: listSem p.toPipe ∧ (s.stack = [] → s.tr ≠ [] → applied s.tr = listSem p.toPipe) :=
  head_forEach_correct (prog3_headOkT p hok).1.head

/-- … and in full: C01–C05, C17 -/
theorem prog3_safe (p : Prog3) (hok : p.ok) :
    ∀ s, SReach (thenM p.toM forEachM).M s → Safe s ∧ SafeFor 4 s ∧ SafeFor 5 s :=
  ComposeFull.closed_pipeline_full₀ (prog3_headOkT p hok).1.head.up

/-- **no divergence** -/
theorem prog3_progress (p : Prog3) (hok : p.ok) :
    ∀ s, SReach (thenM p.toM forEachM).M s → ∃ n, EnvTurn (advance (thenM p.toM forEachM).M n s) :=
  (head_forEach_term (prog3_headOkT p hok).1.head (prog3_headOkT p hok).2.1 (prog3_headPot p)).1

/-- **the application returns** -/
theorem prog3_returns (p : Prog3) (hok : p.ok) :
    ∀ s, SReach (thenM p.toM forEachM).M s → ∃ t, SReach (thenM p.toM forEachM).M t ∧ t.stack = [] ∧
      (s.tr ≠ [] → t.tr ≠ []) ∧ Drain (thenM p.toM forEachM).M s t :=
  (head_forEach_term (prog3_headOkT p hok).1.head (prog3_headOkT p hok).2.1 (prog3_headPot p)).2

/-- the last clause of `prog3_correct` is not vacuous -/
theorem prog3_nonvacuous (p : Prog3) (hok : p.ok) :
    ∃ s, SReach (thenM p.toM forEachM).M s ∧ s.stack = [] ∧ s.tr ≠ [] ∧ applied s.tr = listSem p.toPipe :=
  head_forEach_nonvacuous (prog3_headOkT p hok).1.head (prog3_headOkT p hok).2.1 (prog3_headPot p)

/-- **"… and then completes without stalling"**: progress, return, non-vacuity -/
theorem prog3_completes (p : Prog3) (hok : p.ok) :
    (∀ s, SReach (thenM p.toM forEachM).M s → ∃ n, EnvTurn (advance (thenM p.toM forEachM).M n s)) ∧
    (∀ s, SReach (thenM p.toM forEachM).M s → ∃ t, SReach (thenM p.toM forEachM).M t ∧ t.stack = [] ∧
      (s.tr ≠ [] → t.tr ≠ []) ∧ Drain (thenM p.toM forEachM).M s t) ∧
    (∃ s, SReach (thenM p.toM forEachM).M s ∧ s.stack = [] ∧ s.tr ≠ [] ∧ applied s.tr = listSem p.toPipe) :=
  ⟨prog3_progress p hok, prog3_returns p hok, prog3_nonvacuous p hok⟩

/-- `pipe!(concat!(from_iter([1,2]), pipe!(from_iter([3,4,5]), take(2)), flatten(map(|a| from_iter(a..a+2))(from_iter([7])))), for_each(f))`:
three members, the machine is `concatM [_, _, _]`; `f` is applied to 1, 2, 3, 4, 7, 8 -/
example : ∀ s, SReach (thenM (Prog3.concatN [.src [1, 2], .stage (.take 2) (.src [3, 4, 5]), .flatRep 2 (.src [7])]).toM forEachM).M s →
      BasicSafe s ∧ applied s.tr <+: [1, 2, 3, 4, 7, 8] ∧ (s.stack = [] → s.tr ≠ [] → applied s.tr = [1, 2, 3, 4, 7, 8]) :=
  prog3_correct _ ⟨by simp, trivial, ⟨fun n hn => (by cases hn; decide), trivial⟩, ⟨trivial, trivial⟩, trivial⟩

end Cb.Closed

#print axioms Cb.Closed.prog3_headOkT
#print axioms Cb.Closed.prog3_headPot
#print axioms Cb.Closed.prog3_correct
#print axioms Cb.Closed.prog3_safe
#print axioms Cb.Closed.prog3_completes
