import CallbagModel.Closed.Prog
/-!
# Programs with `concat!`: the completeness clause of `prog_correct` is not vacuous — kernel-checked returned runs

`prog_correct` (`Closed/Prog.lean`) says, at every reachable configuration `s` of `thenM p.toM forEachM`,
`s.stack = [] → s.tr ≠ [] → applied s.tr = listSem p.toPipe`.  That a configuration with `s.stack = []` and `s.tr ≠ []` is REACHABLE
is proved in general only for one-stage pipelines (`relayPipe_finishes`).  Here: witnesses for representative programs (three linear
stages with an early `take`; `concat!`; nested `concat!` under `take`, with an empty member and a `skip`; the empty program).

Method: the only environment there is makes the application (`subscribe 0`) and returns from every closure call.  `replayStrict`
replays such a list of moves with `envMove` (i.e. `legalIn`/`legalRet` — the legality of `SReach`, not the superset `envMoveX` of
`Script.runMoves`), running the operator for at most `fuel` micro-steps after each move; `replayStrict_sound` turns a successful replay
into `SReach`; the kernel evaluates the replay (`by decide`).  `returned_witness` packages the five facts asked of the final
configuration into one boolean test.  To add a witness: `#eval` the replay to find the number of `ret`s (one per closure call), then
`returned_witness _ fuel n l (by decide)`.
-/
namespace Cb.Closed
open Cb

/-! ## Toolbox -/

section toolbox
variable {St Loc α β : Type}

/-- replay a list of environment moves, each one checked by `envMove` (the legality of `SReach`), the operator running for at most
`fuel` micro-steps after each (`advance` stops by itself where the environment has control); `none` if some move is not legal where
it stands -/
def replayStrict (M : Machine St Loc α β) (fuel : Nat) : Sys St Loc α β → List (Move α) → Option (Sys St Loc α β)
  | s, [] => some s
  | s, m :: ms => match envMove M s m with
    | none => none
    | some s1 => replayStrict M fuel (advance M fuel s1) ms

/-- `advance` only makes operator steps -/
theorem sReach_advance' (M : Machine St Loc α β) (n : Nat) {s : Sys St Loc α β} (h : SReach M s) : SReach M (advance M n s) := by
  induction n generalizing s with
  | zero => exact h
  | succ n ih =>
    simp only [advance]
    cases ho : opStep M s with
    | none => exact h
    | some s' => exact ih (.step h (.op ho))

/-- **soundness of the replay**: a successful replay from a reachable configuration ends in a reachable configuration -/
theorem replayStrict_sound_from (M : Machine St Loc α β) (fuel : Nat) (ms : List (Move α)) {s s' : Sys St Loc α β}
    (hs : SReach M s) (h : replayStrict M fuel s ms = some s') : SReach M s' := by
  induction ms generalizing s with
  | nil => simp only [replayStrict, Option.some.injEq] at h; exact h ▸ hs
  | cons m ms ih =>
    simp only [replayStrict] at h
    cases he : envMove M s m with
    | none => simp [he] at h
    | some s1 =>
      rw [he] at h
      exact ih (sReach_advance' M fuel (.step hs (.env ((envMove_iff M m s s1).1 he) trivial))) h

/-- … from the initial configuration -/
theorem replayStrict_sound (M : Machine St Loc α β) (fuel : Nat) (ms : List (Move α)) {s : Sys St Loc α β}
    (h : replayStrict M fuel (Sys.init M) ms = some s) : SReach M s :=
  replayStrict_sound_from M fuel ms .init h

/-- a replay whose final configuration passes a boolean test is a reachability witness -/
theorem witness_of_replay (M : Machine St Loc α β) (fuel : Nat) (ms : List (Move α)) (t : Sys St Loc α β → Bool)
    (h : (replayStrict M fuel (Sys.init M) ms).map t = some true) : ∃ s, SReach M s ∧ t s = true := by
  cases hr : replayStrict M fuel (Sys.init M) ms with
  | none => simp [hr] at h
  | some s => exact ⟨s, replayStrict_sound M fuel ms hr, by simpa [hr] using h⟩

end toolbox

/-- the moves of the only environment of a closed program: the application, then `n` returns from closure calls -/
def closedScript (n : Nat) : List (Move Int) := .call (.subscribe 0) :: List.replicate n .ret

/-- the application has returned, something has happened, nothing panicked, `f` has been applied to exactly `l` — as a boolean
(`Frame` has no `DecidableEq`, hence `isEmpty`) -/
def returnedWith {St Loc : Type} (l : List Int) (s : Sys St Loc Int Int) : Bool :=
  s.stack.isEmpty && !s.tr.isEmpty && s.panicked.isNone && decide (applied s.tr = l)

theorem returnedWith_iff {St Loc : Type} (l : List Int) (s : Sys St Loc Int Int) :
    returnedWith l s = true ↔ s.stack = [] ∧ s.tr ≠ [] ∧ s.panicked = none ∧ applied s.tr = l := by
  simp [returnedWith, and_assoc]

/-- **the witness, from a replay**: if the replay of the application followed by `n` returns ends in a configuration that passes
`returnedWith l`, then a returned configuration with `applied = l` is reachable -/
theorem returned_witness (A : AnyM) (fuel n : Nat) (l : List Int)
    (h : (replayStrict A.M fuel (Sys.init A.M) (closedScript n)).map (returnedWith l) = some true) :
    ∃ s, SReach A.M s ∧ s.stack = [] ∧ s.tr ≠ [] ∧ s.panicked = none ∧ applied s.tr = l := by
  obtain ⟨s, hr, ht⟩ := witness_of_replay A.M fuel (closedScript n) (returnedWith l) h
  exact ⟨s, hr, (returnedWith_iff l s).1 ht⟩

/-- what `prog_correct` then says about the list function: it is the list of the witness -/
theorem listSem_of_witness (p : Prog) (hpos : p.takesPos) (l : List Int)
    (h : ∃ s, SReach (thenM p.toM forEachM).M s ∧ s.stack = [] ∧ s.tr ≠ [] ∧ s.panicked = none ∧ applied s.tr = l) :
    listSem p.toPipe = l := by
  obtain ⟨s, hr, hstk, htr, _, happ⟩ := h
  rw [← happ]; exact ((prog_correct p hpos s hr).2.2 hstk htr).symm

/-- fuel for the operator between two environment moves: no run in the examples below is longer (80 suffices) -/
abbrev fuel : Nat := 200

/-! ## (a) linear, three stages: `pipe!(from_iter(1..=6), filter(odd), scan(+, 0), take(2), for_each(f))` — `f(1)`, `f(4)`, return -/

def progA : Prog := .stage (.take 2) (.stage (.scan (· + ·) 0) (.stage (.filter (· % 2 == 1)) (.src [1, 2, 3, 4, 5, 6])))

theorem progA_returns : ∃ s, SReach (thenM progA.toM forEachM).M s ∧ s.stack = [] ∧ s.tr ≠ [] ∧ s.panicked = none ∧
    applied s.tr = [1, 4] :=
  returned_witness _ fuel 2 [1, 4] (by decide)

theorem progA_takesPos : progA.takesPos := ⟨fun n hn => (by cases hn; decide), ⟨fun n hn => (by cases hn), ⟨fun n hn => (by cases hn), trivial⟩⟩⟩

/-- derived from `prog_correct` and the witness, not computed -/
theorem progA_listSem : listSem progA.toPipe = [1, 4] := listSem_of_witness progA progA_takesPos _ progA_returns

example : listSem progA.toPipe = [1, 4] := by decide

/-! ## (b) `pipe!(concat!(from_iter([1,2]), pipe!(from_iter([3,4]), map(·*10))), for_each(f))` -/

def progB : Prog := .concat (.src [1, 2]) (.stage (.map (· * 10)) (.src [3, 4]))

theorem progB_returns : ∃ s, SReach (thenM progB.toM forEachM).M s ∧ s.stack = [] ∧ s.tr ≠ [] ∧ s.panicked = none ∧
    applied s.tr = [1, 2, 30, 40] :=
  returned_witness _ fuel 4 [1, 2, 30, 40] (by decide)

theorem progB_takesPos : progB.takesPos := ⟨trivial, ⟨fun n hn => (by cases hn), trivial⟩⟩

theorem progB_listSem : listSem progB.toPipe = [1, 2, 30, 40] := listSem_of_witness progB progB_takesPos _ progB_returns

example : listSem progB.toPipe = [1, 2, 30, 40] := by decide

/-! ## (c) nested: `pipe!(concat!(concat!(from_iter([1]), from_iter([])), pipe!(from_iter([7,8,9]), skip(1))), take(3), for_each(f))` -/

def progC : Prog := .stage (.take 3) (.concat (.concat (.src [1]) (.src [])) (.stage (.skip 1) (.src [7, 8, 9])))

theorem progC_returns : ∃ s, SReach (thenM progC.toM forEachM).M s ∧ s.stack = [] ∧ s.tr ≠ [] ∧ s.panicked = none ∧
    applied s.tr = [1, 8, 9] :=
  returned_witness _ fuel 3 [1, 8, 9] (by decide)

theorem progC_takesPos : progC.takesPos :=
  ⟨fun n hn => (by cases hn; decide), ⟨⟨trivial, trivial⟩, ⟨fun n hn => (by cases hn), trivial⟩⟩⟩

theorem progC_listSem : listSem progC.toPipe = [1, 8, 9] := listSem_of_witness progC progC_takesPos _ progC_returns

example : listSem progC.toPipe = [1, 8, 9] := by decide

/-! ## (d) the empty program `pipe!(from_iter([]), for_each(f))`: `f` is never applied, and the application returns (`s.tr ≠ []`) -/

def progD : Prog := .src []

theorem progD_returns : ∃ s, SReach (thenM progD.toM forEachM).M s ∧ s.stack = [] ∧ s.tr ≠ [] ∧ s.panicked = none ∧
    applied s.tr = [] :=
  returned_witness _ fuel 0 [] (by decide)

theorem progD_listSem : listSem progD.toPipe = [] := listSem_of_witness progD trivial _ progD_returns

end Cb.Closed

#print axioms Cb.Closed.replayStrict_sound
#print axioms Cb.Closed.returned_witness
#print axioms Cb.Closed.listSem_of_witness
#print axioms Cb.Closed.progA_returns
#print axioms Cb.Closed.progB_returns
#print axioms Cb.Closed.progC_returns
#print axioms Cb.Closed.progD_returns
#print axioms Cb.Closed.progA_listSem
