import CallbagModel.Closed.Prog2Def
/-!
# Programs with n-ary `concat!`: syntax, the machine, the syntax of `Ops/Pipeline.lean` — definitions only

`Prog3` = `Prog2` + `concatN ps` (a list of members).  `Prog3.toM` builds exactly the terms of the driver (`Driver/PipeDrv.lean`):
`plugM 0 p.toM (plugM 1 q.toM concat2M)` for the binary `concat2 p q`, and `concatM (ps.map toM)` (`Closed/Exec.lean`: every member plugged
into the n-ary concat machine, slot 0 first) for `concatN ps` — `Prog3.toMs ps = ps.map Prog3.toM` (`toMs_eq_map`), and the defining
equation `(concatN ps).toM = concatM (toMs ps)` holds by `rfl`.  `Closed/Prog3.lean` (the proofs) is not imported here.
-/
namespace Cb.Closed
open Cb

inductive Prog3 where
  | src (xs : List Int)
  | stage (s : Stg) (p : Prog3)
  | concat2 (p q : Prog3)
  | concatN (ps : List Prog3)
  | flatRep (k : Nat) (p : Prog3)

mutual
/-- the machine of a program -/
def Prog3.toM : Prog3 → AnyM
  | .src xs => srcM xs
  | .stage s p => thenM p.toM s.toM
  | .concat2 p q => plugM 0 p.toM (plugM 1 q.toM concat2M)
  | .concatN ps => concatM (Prog3.toMs ps)
  | .flatRep k p => flatM k p.toM
/-- the machines of the members -/
def Prog3.toMs : List Prog3 → List AnyM
  | [] => []
  | p :: ps => p.toM :: Prog3.toMs ps
end

theorem Prog3.toMs_eq_map (ps : List Prog3) : Prog3.toMs ps = ps.map Prog3.toM := by
  induction ps with
  | nil => rfl
  | cons p ps ih => simp [Prog3.toMs, ih]

mutual
/-- the program as syntax of `Ops/Pipeline.lean`; an n-ary `concat!` is the right-nested binary one (as in the driver) -/
def Prog3.toPipe : Prog3 → Pipe
  | .src xs => Pipe.src xs
  | .stage s p => s.toPipe p.toPipe
  | .concat2 p q => Pipe.concat p.toPipe q.toPipe
  | .concatN ps => Prog3.toPipes ps
  | .flatRep k p => Pipe.flatMap (fun a => Pipe.src (rangeFrom a k)) p.toPipe
def Prog3.toPipes : List Prog3 → Pipe
  | [] => Pipe.src []
  | [p] => p.toPipe
  | p :: q :: ps => Pipe.concat p.toPipe (Prog3.toPipes (q :: ps))
end

/-- `from_iter(xs)` followed by unary stages -/
def Prog3.linear : Prog3 → Prop
  | .src _ => True
  | .stage _ p => p.linear
  | _ => False

mutual
/-- the side condition: every `take n` has `0 < n`, the argument of every `flatRep` is linear, every `concatN` has a member -/
def Prog3.ok : Prog3 → Prop
  | .src _ => True
  | .stage s p => (∀ n, s = .take n → 0 < n) ∧ p.ok
  | .concat2 p q => p.ok ∧ q.ok
  | .concatN ps => ps ≠ [] ∧ Prog3.oks ps
  | .flatRep _ p => p.linear ∧ p.ok
def Prog3.oks : List Prog3 → Prop
  | [] => True
  | p :: ps => p.ok ∧ Prog3.oks ps
end

end Cb.Closed
