import CallbagModel.Closed.LinearInf
import CallbagModel.Closed.LinearCost
/-!
# `take n` over an UNBOUNDED iterator advances it at most `n` times

`linearInf_cost_take`: for `pipe!(from_iter(it), pre…, take(n), post…, for_each(f))` over an ARBITRARY iterator
`next : ι → Option (Int × ι)` (it may never end), `pre` non-dropping (`map`, `scan`), `post` arbitrary: at EVERY reachable configuration,
under every conformant environment, the ghost counter of `Iterator::next` calls is at most `n`.  With `linearInf_returns`
(`Closed/LinearInf.lean`): take over an unbounded iterator stops, having advanced it at most `n` times.

No list, hence no `SrcSpec`: the stage rules `StageDem M up ys` of `Inv/ComposeCost.lean` are used at `ys := ` what has been sent so far
(for `map`, `scan`, `take` the demand passed on does not depend on the data).
-/
namespace Cb.Closed
open Cb ComposeSafe ComposeFun ComposeComplete FlatPlugFun ComposeCost

section Generic
variable {S1 L1 S2 L2 α β γ : Type}

/-- under a sink that obeys the demand `some d`, at most `d` advances — for heads that need not have a list -/
def HeadUpD {St Loc α β : Type} (M : Machine St Loc α β) (nx : St → Nat) : Prop :=
  ∀ d s, SReach M s → DemOk (some d) (sinkEvs s.tr) → nx s.st ≤ d

/-- one stage whose demand rule does not depend on the data -/
theorem HeadUpD.stage {M1 : Machine S1 L1 α β} {M2 : Machine S2 L2 β γ} {nx : S1 → Nat} {up : Demand → Demand}
    (h1 : HeadUpD M1 nx) (H : Hyp M1 M2) (hp : PullOnly M1) (h2 : ∀ ys, StageDem M2 up ys) (dem : Demand) (d : Nat)
    (hup : up dem = some d) :
    ∀ s, SReach (Cb.compose M1 M2) s → DemOk dem (sinkEvs s.tr) → nx s.st.1 ≤ d := by
  intro s hs hd
  obtain ⟨s1, s2, hr1, hr2, hm, ht⟩ := compose_inv_tr H s hs
  have hst : s.st = (s1.st, s2.st) := hm.st
  rw [hst]
  apply h1 d s1 hr1
  apply demOk_of_dual
  rw [ht.ifc, ← hup]
  refine h2 (sentData 0 s2.tr) dem s2 hr2 (by rw [← ht.sink]; exact hd) ?_ (List.prefix_refl _)
  rw [← ht.ifc]; exact pOkSrc_dualEvs _ (hp s1 hr1)

/-- an unconditional bound on the head survives whatever is composed below it -/
theorem bound_compose {M1 : Machine S1 L1 α β} {M2 : Machine S2 L2 β γ} {nx : S1 → Nat} {n : Nat} (H : Hyp M1 M2)
    (h : ∀ s, SReach M1 s → nx s.st ≤ n) : ∀ s, SReach (Cb.compose M1 M2) s → nx s.st.1 ≤ n := by
  intro s hs
  obtain ⟨s1, s2, hr1, hr2, hm, ht⟩ := compose_inv_tr H s hs
  have hst : s.st = (s1.st, s2.st) := hm.st
  rw [hst]; exact h s1 hr1

end Generic

theorem srcIM_headUpD {ι : Type} (next : ι → Option (Int × ι)) (it0 : ι) : HeadUpD (srcIM next it0).M (srcIM next it0).nexts := by
  intro d s hs hd
  have := (FromIterJ.K_reach next it0 d s hs hd).le
  show s.st.nexts ≤ d
  omega

/-- what the induction over the non-dropping stages carries -/
structure HeadD (A : AnyM) : Prop where
  up : UpSide A.M
  pull : PullOnly A.M
  dem : HeadUpD A.M A.nexts

theorem HeadD.stage {A : AnyM} (h : HeadD A) (s : Stg) (hs : s.keeps) : HeadD (thenM A s.toM) := by
  have H := hyp_of_roles h.up s.pipeable.downSide
  refine ⟨h.up.compose' s.pipeable, PullOnly.compose h.pull (Stg.stagePull s) H, ?_⟩
  intro d st hst hd
  have hrule : ∀ ys, StageDem s.toM.M (fun dem => dem) ys := by
    intro ys dem' s2 hr2 hD hP hpre
    have := s.stageDem ys dem' s2 hr2 hD hP hpre
    cases s with
    | map f => exact this
    | scan r seed => exact this
    | filter q => exact hs.elim
    | take n => exact hs.elim
    | skip n => exact hs.elim
  have := HeadUpD.stage h.dem H h.pull hrule (some d) d rfl st hst hd
  show A.nexts st.st.1 + s.toM.nexts st.st.2 ≤ d
  rw [Stg.nexts_zero]; exact this

theorem fold_headD (ss : List Stg) (hss : ∀ s ∈ ss, s.keeps) (A : AnyM) (h : HeadD A) :
    HeadD (ss.foldl (fun A s => thenM A s.toM) A) := by
  induction ss generalizing A with
  | nil => exact h
  | cons s ss ih => exact ih (fun t ht => hss t (List.mem_cons_of_mem _ ht)) _ (h.stage s (hss s List.mem_cons_self))

/-- below `take n`, the head has been advanced at most `n` times — whatever the sink does -/
theorem HeadD.take {A : AnyM} (h : HeadD A) (n : Nat) :
    ∀ s, SReach (thenM A (Stg.take n).toM).M s → (thenM A (Stg.take n).toM).nexts s.st ≤ n := by
  intro st hst
  have H := hyp_of_roles h.up (Stg.take n).pipeable.downSide
  have := HeadUpD.stage h.dem H h.pull (fun ys => (Stg.take n).stageDem ys) none n rfl st hst (demOk_none _)
  show A.nexts st.st.1 + (Stg.take n).toM.nexts st.st.2 ≤ n
  rw [Stg.nexts_zero]; exact this

theorem fold_bound (ss : List Stg) (n : Nat) (A : AnyM) (U : UpSide A.M) (h : ∀ s, SReach A.M s → A.nexts s.st ≤ n) :
    UpSide (ss.foldl (fun A s => thenM A s.toM) A).M ∧
    ∀ s, SReach (ss.foldl (fun A s => thenM A s.toM) A).M s → (ss.foldl (fun A s => thenM A s.toM) A).nexts s.st ≤ n := by
  induction ss generalizing A with
  | nil => exact ⟨U, h⟩
  | cons s ss ih =>
    refine ih (thenM A s.toM) (U.compose' s.pipeable) (fun st hst => ?_)
    have := bound_compose (nx := A.nexts) (hyp_of_roles U s.pipeable.downSide) h st hst
    show A.nexts st.st.1 + s.toM.nexts st.st.2 ≤ n
    rw [Stg.nexts_zero]; exact this

theorem bound_forEach {A : AnyM} {n : Nat} (U : UpSide A.M) (h : ∀ s, SReach A.M s → A.nexts s.st ≤ n) :
    ∀ s, SReach (thenM A forEachM).M s → (thenM A forEachM).nexts s.st ≤ n := by
  intro st hst
  have := bound_compose (nx := A.nexts) (hyp_of_roles U ForEach.downSide) h st hst
  show A.nexts st.st.1 + forEachM.nexts st.st.2 ≤ n
  exact this

/-- **`take n` over an unbounded iterator advances it at most `n` times** — at every reachable configuration, under every conformant
environment; `pre` non-dropping, `post` arbitrary -/
theorem linearInf_cost_take {ι : Type} (next : ι → Option (Int × ι)) (it0 : ι) (pre post : List Stg) (n : Nat)
    (hpre : ∀ s ∈ pre, s.keeps) :
    ∀ s, SReach (thenM (chainIM next it0 (pre ++ .take n :: post)) forEachM).M s →
      (thenM (chainIM next it0 (pre ++ .take n :: post)) forEachM).nexts s.st ≤ n := by
  have h0 : HeadD (srcIM next it0) := ⟨FromIter.upSide next it0, FromIter.pullOnly _ _, srcIM_headUpD next it0⟩
  have h1 := fold_headD pre hpre _ h0
  have h2 := fold_bound post n _ (h1.up.compose' (Stg.take n).pipeable) (h1.take n)
  have hc : chainIM next it0 (pre ++ .take n :: post)
      = post.foldl (fun A s => thenM A s.toM) (thenM (pre.foldl (fun A s => thenM A s.toM) (srcIM next it0)) (Stg.take n).toM) := by
    unfold chainIM; rw [List.foldl_append, List.foldl_cons]
  rw [hc]
  exact bound_forEach h2.1 h2.2

/-- the natural numbers from `a`: `pipe!(from_iter(a..), map(·*2), take(3), filter(odd), for_each(f))` advances the iterator at most
three times -/
example (a : Int) : ∀ s, SReach (thenM (chainIM (fun i : Int => some (i, i + 1)) a
      ([.map (· * 2)] ++ .take 3 :: [.filter (fun x => x % 2 == 1)])) forEachM).M s →
    (thenM (chainIM (fun i : Int => some (i, i + 1)) a
      ([.map (· * 2)] ++ .take 3 :: [.filter (fun x => x % 2 == 1)])) forEachM).nexts s.st ≤ 3 :=
  linearInf_cost_take _ a _ _ 3 (fun s hs => by simp at hs; subst hs; trivial)

end Cb.Closed

#print axioms Cb.Closed.linearInf_cost_take
