import CallbagModel.Closed.ProgTerm
import CallbagModel.Inv.TakeTerm
/-!
# Linear programs over an UNBOUNDED iterator: `take` stops the pipeline

`pipe!(from_iter(it), pre…, take(n), post…, for_each(f))` for an ARBITRARY iterator `next : ι → Option (Int × ι)` started in `it0`
(it may never end), the stages `pre` above `take` non-dropping (`map`, `scan`), the stages `post` arbitrary:

* `linearInf_progress`: from every reachable configuration the machine runs into an environment turn (no divergence);
* `linearInf_returns`: from every reachable configuration, operator steps and environment RETURNS lead back to top level — the
  application returns if the closures do.

No functional hypothesis (no `Yields`/`Unfolds`): safety comes from the role conditions (`compose_safe_of_roles`), termination from the
potentials of `Inv/TakeTerm.lean`.  The restriction on `pre` is necessary: `filter(|_| false)` above `take` over an unbounded source
never answers.  `srcM xs = srcIM listNextI xs` by `rfl`, so the list-based chains are instances.
-/
namespace Cb.Closed
open Cb ComposeSafe ComposeTerm

/-- `from_iter` over an arbitrary iterator -/
def srcIM {ι : Type} (next : ι → Option (Int × ι)) (it0 : ι) : AnyM :=
  { St := FromIter.St ι Int, Loc := FromIter.Loc, M := FromIter.machine Int next it0, nexts := fun s => s.nexts }

example (xs : List Int) : srcM xs = srcIM listNextI xs := rfl

/-- `pipe!(from_iter(it), ss…)` -/
def chainIM {ι : Type} (next : ι → Option (Int × ι)) (it0 : ι) (ss : List Stg) : AnyM :=
  ss.foldl (fun A s => thenM A s.toM) (srcIM next it0)

/-- the stages that pass every item on -/
def Stg.keeps : Stg → Prop
  | .map _ => True
  | .scan _ _ => True
  | _ => False

theorem Stg.pipeable (s : Stg) : Pipeable s.toM.M := by
  cases s with
  | map f => exact Relay.pipeable (Relay.map f) (fun _ _ _ => by simp [Relay.map])
  | filter q => exact Relay.pipeable (Relay.filter q) (fun h => by simp [Relay.filter] at h)
  | scan r seed => exact Relay.pipeable (Relay.scan r seed) (fun _ _ _ => by simp [Relay.scan])
  | take n => exact Take.pipeable n
  | skip n => exact Relay.pipeable (Relay.skip n) (fun h => by simp [Relay.skip] at h)

theorem fold_roles (ss : List Stg) (A : AnyM) (U : UpSide A.M) (N : ComposeFull.NoUpstream A.M) :
    UpSide (ss.foldl (fun A s => thenM A s.toM) A).M ∧ ComposeFull.NoUpstream (ss.foldl (fun A s => thenM A s.toM) A).M := by
  induction ss generalizing A with
  | nil => exact ⟨U, N⟩
  | cons s ss ih =>
    exact ih (thenM A s.toM) (U.compose' s.pipeable) (ComposeFull.NoUpstream.compose N (hyp_of_roles U s.pipeable.downSide))

theorem Stg.headPotI (s : Stg) (hs : s.keeps) {A : AnyM} (h : HeadPotI A.M) : HeadPotI (thenM A s.toM).M := by
  cases s with
  | map f => exact h.relayND (Relay.map f) (fun _ _ => by simp [Relay.map])
  | scan r seed => exact h.relayND (Relay.scan r seed) (fun _ _ => by simp [Relay.scan])
  | filter q => exact hs.elim
  | take n => exact hs.elim
  | skip n => exact hs.elim

theorem fold_headPotI (ss : List Stg) (hss : ∀ s ∈ ss, s.keeps) (A : AnyM) (h : HeadPotI A.M) :
    HeadPotI (ss.foldl (fun A s => thenM A s.toM) A).M := by
  induction ss generalizing A with
  | nil => exact h
  | cons s ss ih =>
    exact ih (fun t ht => hss t (List.mem_cons_of_mem _ ht)) _ (s.headPotI (hss s List.mem_cons_self) h)

/-- the head `pipe!(from_iter(it), pre…, take(n), post…)` has a potential, for every iterator -/
theorem chainI_headPot {ι : Type} (next : ι → Option (Int × ι)) (it0 : ι) (pre post : List Stg) (n : Nat)
    (hpre : ∀ s ∈ pre, s.keeps) : HeadPot (chainIM next it0 (pre ++ .take n :: post)).M := by
  unfold chainIM
  rw [List.foldl_append, List.foldl_cons]
  exact fold_headPot post _ ((fold_headPotI pre hpre _ (HeadPotI.fromIter Int next it0)).take n)

theorem chainI_roles {ι : Type} (next : ι → Option (Int × ι)) (it0 : ι) (ss : List Stg) :
    UpSide (chainIM next it0 ss).M ∧ ComposeFull.NoUpstream (chainIM next it0 ss).M :=
  fold_roles ss _ (FromIter.upSide next it0) (ComposeFull.FromIter.noUpstream next it0)

/-- **`take` over an unbounded iterator stops: no divergence** -/
theorem linearInf_progress {ι : Type} (next : ι → Option (Int × ι)) (it0 : ι) (pre post : List Stg) (n : Nat)
    (hpre : ∀ s ∈ pre, s.keeps) :
    ∀ s, SReach (thenM (chainIM next it0 (pre ++ .take n :: post)) forEachM).M s →
      ∃ k, EnvTurn (advance (thenM (chainIM next it0 (pre ++ .take n :: post)) forEachM).M k s) :=
  (upSide_forEach_term (chainI_roles next it0 _).1 (chainI_roles next it0 _).2 (chainI_headPot next it0 pre post n hpre)).1

/-- **… and the application returns** if the closures do -/
theorem linearInf_returns {ι : Type} (next : ι → Option (Int × ι)) (it0 : ι) (pre post : List Stg) (n : Nat)
    (hpre : ∀ s ∈ pre, s.keeps) :
    ∀ s, SReach (thenM (chainIM next it0 (pre ++ .take n :: post)) forEachM).M s →
      ∃ t, SReach (thenM (chainIM next it0 (pre ++ .take n :: post)) forEachM).M t ∧ t.stack = [] ∧ (s.tr ≠ [] → t.tr ≠ []) ∧
        Drain (thenM (chainIM next it0 (pre ++ .take n :: post)) forEachM).M s t :=
  (upSide_forEach_term (chainI_roles next it0 _).1 (chainI_roles next it0 _).2 (chainI_headPot next it0 pre post n hpre)).2

/-- … safety, for every iterator and every chain -/
theorem linearInf_safe {ι : Type} (next : ι → Option (Int × ι)) (it0 : ι) (ss : List Stg) :
    ∀ s, SReach (thenM (chainIM next it0 ss) forEachM).M s → Safe s ∧ SafeFor 4 s ∧ SafeFor 5 s :=
  ComposeFull.closed_pipeline_full₀ (chainI_roles next it0 ss).1

/-- the natural numbers from `a`: `pipe!(from_iter(a..), map(·*2), take(3), filter(odd), for_each(f))` returns -/
example (a : Int) : ∀ s, SReach (thenM (chainIM (fun i : Int => some (i, i + 1)) a
      ([.map (· * 2)] ++ .take 3 :: [.filter (fun x => x % 2 == 1)])) forEachM).M s →
    ∃ t, SReach (thenM (chainIM (fun i : Int => some (i, i + 1)) a
      ([.map (· * 2)] ++ .take 3 :: [.filter (fun x => x % 2 == 1)])) forEachM).M t ∧ t.stack = [] ∧ (s.tr ≠ [] → t.tr ≠ []) ∧
      Drain (thenM (chainIM (fun i : Int => some (i, i + 1)) a
        ([.map (· * 2)] ++ .take 3 :: [.filter (fun x => x % 2 == 1)])) forEachM).M s t :=
  linearInf_returns _ a _ _ 3 (fun s hs => by simp at hs; subst hs; trivial)

end Cb.Closed

#print axioms Cb.Closed.linearInf_progress
#print axioms Cb.Closed.linearInf_returns
#print axioms Cb.Closed.linearInf_safe
