import CallbagModel.Inv.Ghost2
import CallbagModel.Env
import CallbagModel.Inv.Share
/-!
# share: the FULL safety invariant (both ghost layers), any number of sinks, under `noNestedFanout`

The phase-level part (`Share.Inv`: `Mode`, `Core`, `StackOK`) is reused as is.  Because an environment-turn configuration
is a fixpoint of `advance`, the configuration reached by the basic `Share.inv_step` and the one reached by the explicit
step counts below coincide (`full_of`), so the phase-level invariant of the result comes for free and only the second ghost
layer has to be tracked here.

Second layer (`X`): no second-layer violation has been recorded, and
* either nothing is pending (`pend = none`) — with the basic `Mode` this gives `XOk` (`xok_of_mode`): in `core` no sink open
  means `sinks = []` means no upstream live; in `waiting` a sink is `subscribed`;
* or the stack top is the frame of an `Error(e)` fan-out in progress, `wait (down s (err e)) (fLoop r (err e)) :: rest`,
  and `pend = some (e, rest.length, ks)` with `ks ≠ []` and every `k ∈ ks` either already served
  (`doneBySrc`, `fin = err e`) or still in `r`.  (`XOk`'s pending clause is false here.)  When the fan-out is finished
  (`r = []`) `XOk` holds again, and the check made by the final `ret` (height `rest.length`) clears `pend`.

`share` has `relayErr = false`: `errNotRelayed` is never flagged and `sinkErr` needs no clause.
-/
namespace Cb.ShareFull
open Cb Cb.Share

variable {α : Type}

/-- side goals about fields of a structure literal, whichever way `simp` has normalised it -/
macro "fld" : tactic => `(tactic| first | rfl | assumption | exact Or.inl rfl | exact Or.inr rfl | simp)

/-! ## operational lemmas exposing the whole ghost -/

def ReachesG (s : Cfg α) (st : St) (stk : List (Fr α)) (g : G) : Prop :=
  ∃ n tr, advance (machine α) n s = ⟨st, stk, g, tr, none⟩

theorem run_done (st : St) (stk : List (Fr α)) (g : G) (tr : List (Ev α α)) :
    ReachesG ⟨st, .run .done :: stk, g, tr, none⟩ st stk (g.onRetO stk.length) :=
  ⟨1, .retO :: tr, by simp [advance, opStep, machine, step]⟩

theorem run_sub_first (k : Nat) (st : St) (stk : List (Fr α)) (g : G) (tr : List (Ev α α))
    (he : st.sinks = []) (hi : g.ph.srcPh st.gen = .idle) (ho : g.ph.anySinkOpen = true) :
    ReachesG ⟨st, .run (.s0 k) :: stk, g, tr, none⟩
      { st with sinks := [k], gen := st.gen + 1, first := st.first ++ [k] }
      (.wait (.subSrc st.gen) .done :: stk) { g with ph := g.ph.setSrc st.gen .subscribed } :=
  ⟨3, .out (.subSrc st.gen) :: tr, by simp [advance, opStep, machine, step, Ph.onOut, he, hi, ho]⟩

theorem run_sub_more (k : Nat) (st : St) (stk : List (Fr α)) (g : G) (tr : List (Ev α α))
    (he : st.sinks ≠ []) (hk : g.ph.sinkPh k = .subscribed) :
    ReachesG ⟨st, .run (.s0 k) :: stk, g, tr, none⟩
      { st with sinks := st.sinks ++ [k] } (.wait (.greet k) .done :: stk) { g with ph := g.ph.setSink k .live } := by
  obtain ⟨x, xs, hx⟩ := List.exists_cons_of_ne_nil he
  exact ⟨2, .out (.greet k) :: tr, by simp [advance, opStep, machine, step, Ph.onOut, hx, hk]⟩

theorem run_g0 (i : Nat) (st : St) (stk : List (Fr α)) (g : G) (tr : List (Ev α α))
    (hk : g.ph.sinkPh (phAt st.first i) = .subscribed) :
    ReachesG ⟨st, .run (.g0 i) :: stk, g, tr, none⟩
      { st with slot := some i } (.wait (.greet (phAt st.first i)) .done :: stk)
      { g with ph := g.ph.setSink (phAt st.first i) .live } :=
  ⟨2, .out (.greet (phAt st.first i)) :: tr, by simp [advance, opStep, machine, step, Ph.onOut, hk]⟩

theorem run_fLoop_data (s : Nat) (r : List Nat) (a : α) (st : St) (stk : List (Fr α)) (g : G) (tr : List (Ev α α))
    (hk : g.ph.sinkPh s = .live) :
    ReachesG ⟨st, .run (.fLoop (s :: r) (.data a)) :: stk, g, tr, none⟩
      st (.wait (.down s (.data a)) (.fLoop r (.data a)) :: stk) g :=
  ⟨1, .out (.down s (.data a)) :: tr, by simp [advance, opStep, machine, step, Ph.onOut, hk, isFinal]⟩

theorem run_fLoop_end (s : Nat) (r : List Nat) (d : Down α) (hd : isEndD d = true) (st : St) (stk : List (Fr α)) (g : G)
    (tr : List (Ev α α)) (hk : g.ph.sinkPh s = .live) :
    ReachesG ⟨st, .run (.fLoop (s :: r) d) :: stk, g, tr, none⟩
      st (.wait (.down s d) (.fLoop r d) :: stk)
      { g with ph := g.ph.setSink s .doneBySrc, fin := setAt g.fin s (finOfDown d) } := by
  cases d with
  | data a => simp [isEndD] at hd
  | term => exact ⟨1, .out (.down s .term) :: tr, by simp [advance, opStep, machine, step, Ph.onOut, hk, isFinal, finOfDown]⟩
  | err e => exact ⟨1, .out (.down s (.err e)) :: tr, by simp [advance, opStep, machine, step, Ph.onOut, hk, isFinal, finOfDown]⟩

theorem run_f0_data (s : Nat) (r : List Nat) (a : α) (st : St) (stk : List (Fr α)) (g : G) (tr : List (Ev α α))
    (hs : st.sinks = s :: r) (hk : g.ph.sinkPh s = .live) :
    ReachesG ⟨st, .run (.f0 (.data a)) :: stk, g, tr, none⟩
      st (.wait (.down s (.data a)) (.fLoop r (.data a)) :: stk) g :=
  ⟨2, .out (.down s (.data a)) :: tr, by simp [advance, opStep, machine, step, Ph.onOut, hk, hs, isFinal]⟩

theorem run_f0_end (s : Nat) (r : List Nat) (d : Down α) (hd : isEndD d = true) (st : St) (stk : List (Fr α)) (g : G)
    (tr : List (Ev α α)) (hs : st.sinks = s :: r) (hk : g.ph.sinkPh s = .live) :
    ReachesG ⟨st, .run (.f0 d) :: stk, g, tr, none⟩
      st (.wait (.down s d) (.fLoop r d) :: stk)
      { g with ph := g.ph.setSink s .doneBySrc, fin := setAt g.fin s (finOfDown d) } := by
  cases d with
  | data a => simp [isEndD] at hd
  | term => exact ⟨2, .out (.down s .term) :: tr, by simp [advance, opStep, machine, step, Ph.onOut, hk, hs, isFinal, finOfDown]⟩
  | err e => exact ⟨2, .out (.down s (.err e)) :: tr, by simp [advance, opStep, machine, step, Ph.onOut, hk, hs, isFinal, finOfDown]⟩

theorem run_fLoop_nil_data (a : α) (st : St) (stk : List (Fr α)) (g : G) (tr : List (Ev α α)) :
    ReachesG ⟨st, .run (.fLoop [] (.data a)) :: stk, g, tr, none⟩ st stk (g.onRetO stk.length) :=
  ⟨2, .retO :: tr, by simp [advance, opStep, machine, step, isEndD]⟩

theorem run_fLoop_nil_end (d : Down α) (hd : isEndD d = true) (st : St) (stk : List (Fr α)) (g : G) (tr : List (Ev α α)) :
    ReachesG ⟨st, .run (.fLoop [] d) :: stk, g, tr, none⟩ { st with sinks := [] } stk (g.onRetO stk.length) :=
  ⟨3, .retO :: tr, by simp [advance, opStep, machine, step, hd]⟩

theorem run_p0 (i : Nat) (st : St) (stk : List (Fr α)) (g : G) (tr : List (Ev α α))
    (hs : st.slot = some i) (hl : g.ph.srcPh i = .live) :
    ReachesG ⟨st, .run .p0 :: stk, g, tr, none⟩ st (.wait (.srcUp i .pull) .done :: stk) g :=
  ⟨1, .out (.srcUp i .pull) :: tr, by simp [advance, opStep, machine, step, Ph.onOut, hs, hl]⟩

theorem run_x0_some (k : Nat) (st : St) (stk : List (Fr α)) (g : G) (tr : List (Ev α α))
    (he : st.sinks.erase k ≠ []) :
    ReachesG ⟨st, .run (.x0 k) :: stk, g, tr, none⟩ { st with sinks := st.sinks.erase k } stk (g.onRetO stk.length) :=
  ⟨2, .retO :: tr, by simp [advance, opStep, machine, step, he]⟩

theorem run_x0_last (k i : Nat) (st : St) (stk : List (Fr α)) (g : G) (tr : List (Ev α α))
    (he : st.sinks.erase k = []) (hs : st.slot = some i) (hl : g.ph.srcPh i = .live) :
    ReachesG ⟨st, .run (.x0 k) :: stk, g, tr, none⟩ { st with sinks := [] }
      (.wait (.srcUp i .term) .done :: stk) { g with ph := g.ph.setSrc i .disposed } :=
  ⟨3, .out (.srcUp i .term) :: tr, by simp [advance, opStep, machine, step, Ph.onOut, he, hs, hl]⟩

/-! ## combining with the basic invariant: environment turns are fixpoints of `advance` -/

theorem advance_fix {St Loc α β : Type} (M : Machine St Loc α β) (s : Sys St Loc α β) (h : opStep M s = none) (n : Nat) :
    advance M n s = s := by
  cases n with
  | zero => rfl
  | succ n => simp [advance, h]

theorem advance_add {St Loc α β : Type} (M : Machine St Loc α β) (a b : Nat) (s : Sys St Loc α β) :
    advance M (a + b) s = advance M b (advance M a s) := by
  induction a generalizing s with
  | zero => simp [advance]
  | succ a ih =>
    rw [Nat.add_right_comm]
    simp only [advance]
    cases h : opStep M s with
    | none => simp [advance_fix M s h]
    | some s' => simp [ih]

/-- the second ghost layer at an environment turn -/
def X (stk : List (Fr α)) (g : G) : Prop :=
  g.xviols = [] ∧
  (g.pend = none ∨ ∃ s e r rest ks, stk = .wait (.down s (.err e)) (.fLoop r (.err e)) :: rest ∧
     g.pend = some (e, rest.length, ks) ∧ ks ≠ [] ∧
     ∀ k ∈ ks, (g.ph.sinkPh k = .doneBySrc ∧ g.finOf k = some (Fin.err e)) ∨ k ∈ r)

def Inv (s : Cfg α) : Prop := Share.Inv s ∧ X s.stack s.g

theorem X.mk_none {stk : List (Fr α)} {g : G} (h1 : g.xviols = []) (h2 : g.pend = none) : X stk g := ⟨h1, Or.inl h2⟩

theorem X.clean {stk : List (Fr α)} {g : G} (h : X stk g) : g.xviols = [] := h.1

theorem X.pend_none {stk : List (Fr α)} {g : G} (h : X stk g)
    (hs : ∀ s e r rest, stk ≠ .wait (.down s (.err e)) (.fLoop r (.err e)) :: rest) : g.pend = none := by
  rcases h.2 with h | ⟨s, e, r, rest, ks, h, _⟩
  · exact h
  · exact absurd h (hs s e r rest)

theorem full_of {s' : Cfg α} {st : St} {stk : List (Fr α)} {g : G}
    (hb : ∃ n, Share.Inv (advance (machine α) n s')) (hr : ReachesG s' st stk g) (ht : (ctxOf stk).isSome)
    (hx : Inv' st stk g.ph → X stk g) : ∃ n, Inv (advance (machine α) n s') := by
  obtain ⟨n1, h1⟩ := hb
  obtain ⟨n2, tr, h2⟩ := hr
  have e1 : EnvTurn (advance (machine α) n1 s') := (Share.inv_turn _ h1).1
  have e2 : EnvTurn (advance (machine α) n2 s') := by rw [h2]; exact ⟨rfl, ht⟩
  have heq : advance (machine α) n1 s' = advance (machine α) n2 s' := by
    have a := advance_add (machine α) n1 n2 s'
    have b := advance_add (machine α) n2 n1 s'
    rw [advance_of_envTurn e1] at a
    rw [advance_of_envTurn e2, Nat.add_comm] at b
    exact a.symm.trans b
  rw [heq, h2] at h1
  refine ⟨n2, ?_⟩
  rw [h2]
  exact ⟨h1, hx h1.2⟩

/-! ## second-layer facts that follow from the basic modes -/

theorem noOrphan_of_core {st : St} {ph : Ph} (hc : Core st ph) : NoOrphan ph := by
  intro ho i hl
  obtain ⟨_, hne⟩ := hc.live i hl
  obtain ⟨k, r, hk⟩ := List.exists_cons_of_ne_nil hne
  have := (Ph.anySinkOpen_iff ph).2 ⟨k, Or.inr ((hc.mem k).1 (by simp [hk]))⟩
  rw [ho] at this; cases this

theorem noOrphan_of_mode {st : St} {ph : Ph} {stk : List (Fr α)} (hm : Mode st ph stk) : NoOrphan ph := by
  rcases hm with ⟨hcore, _⟩ | ⟨k, _, _, _, hk, _⟩ | ⟨s, d, r, rest, _, _, _, _, _, _, hsrcs⟩
  · exact noOrphan_of_core hcore
  · exact noOrphan_of_open k (Or.inl hk)
  · exact noOrphan_of_noLive (fun i => (hsrcs i).1)

theorem xok_of_noPend {g : G} (h1 : g.xviols = []) (h2 : g.pend = none) (h3 : NoOrphan g.ph) : XOk g :=
  ⟨h1, (by intro e h ks hp; rw [h2] at hp; cases hp), h3⟩

/-- the checks made by a return pass, and clear the pending check if it was recorded at that height -/
theorem ret_clean {g : G} (hx : XOk g) (h : Nat) (hp : ∀ e h' ks, g.pend = some (e, h', ks) → h' = h) :
    (g.onRetO h).xviols = [] ∧ (g.onRetO h).pend = none := by
  refine ⟨(hx.onRetO h).clean, ?_⟩
  unfold G.onRetO
  have h1 := hx.clearSinkErr h
  have h2 := h1.checkPend h
  rw [h2.1.checkOrphans h]
  have hpe : (g.clearSinkErr h).pend = g.pend := (clearSinkErr_fields g h).2.2.1
  unfold G.checkPend
  split
  · rename_i e h' ks hq
    rw [hpe] at hq
    have := hp e h' ks hq
    subst this
    simp [G.flagAll]
  · assumption

theorem X.ret {stk : List (Fr α)} {g : G} (h1 : g.xviols = []) (h2 : g.pend = none) (h3 : NoOrphan g.ph) (h : Nat) :
    X stk (g.onRetO h) := by
  obtain ⟨a, b⟩ := ret_clean (xok_of_noPend h1 h2 h3) h (by intro e h' ks hp; rw [h2] at hp; cases hp)
  exact X.mk_none a b

theorem stackOK_not_fan {sinks : List Nat} {s : Nat} {d : Down α} {r : List Nat} {rest : List (Fr α)}
    (hd : isEndD d = true) (hs : StackOK sinks (.wait (.down s d) (.fLoop r d) :: rest)) : False := by
  rcases hs with ht | ⟨pre, s0, a, r0, post, he, hpre, _⟩
  · obtain ⟨o, ho⟩ := ht _ List.mem_cons_self
    simp at ho
  · cases pre with
    | nil => simp at he; obtain ⟨⟨⟨_, rfl⟩, _⟩, _⟩ := he; simp [isEndD] at hd
    | cons f pre => obtain ⟨i, u, rfl⟩ := hpre f (by simp); simp at he

theorem X.pend_none_core {sinks : List Nat} {stk : List (Fr α)} {g : G} (h : X stk g) (hs : StackOK sinks stk) : g.pend = none :=
  h.pend_none (by rintro s e r rest rfl; exact stackOK_not_fan rfl hs)

/-- in the `core` and `waiting` modes the common second-layer invariant `XOk` holds (in `tfan` it does not) -/
theorem xok_of_mode {st : St} {stk : List (Fr α)} {g : G} (hm : Mode st g.ph stk) (hX : X stk g)
    (hn : ∀ s d r rest, isEndD d = true → stk ≠ .wait (.down s d) (.fLoop r d) :: rest) : XOk g :=
  xok_of_noPend hX.clean (hX.pend_none (fun s e r rest => hn s (.err e) r rest rfl)) (noOrphan_of_mode hm)

theorem ctx_isSome_of_stackOK {sinks : List Nat} {stk : List (Fr α)} (hs : StackOK sinks stk) : (ctxOf stk).isSome := by
  rcases hs with ht | ⟨pre, s0, a, r, post, he, hpre, _⟩
  · exact ctx_isSome_of_tails ht
  · rw [he]
    cases pre with
    | nil => simp [ctxOf]
    | cons f pre => obtain ⟨i, u, rfl⟩ := hpre f (by simp); simp [ctxOf]

/-! ## the terminal fan-out -/

/-- one more sink served -/
theorem X.fan_step {g : G} {s s1 : Nat} {d : Down α} {r1 : List Nat} {rest : List (Fr α)} (hd : isEndD d = true)
    (hX : X (.wait (.down s d) (.fLoop (s1 :: r1) d) :: rest) g) :
    X (.wait (.down s1 d) (.fLoop r1 d) :: rest : List (Fr α))
      { g with ph := g.ph.setSink s1 .doneBySrc, fin := setAt g.fin s1 (finOfDown d) } := by
  obtain ⟨hc, hp⟩ := hX
  rcases hp with hp | ⟨s', e, r', rest', ks, he, hp, hne, hall⟩
  · exact X.mk_none hc hp
  · simp at he
    obtain ⟨⟨⟨_, rfl⟩, rfl, _⟩, rfl⟩ := he
    refine ⟨hc, Or.inr ⟨s1, e, r1, rest, ks, rfl, hp, hne, fun k hk => ?_⟩⟩
    by_cases hk1 : k = s1
    · subst hk1; left; simp [finOfDown, G.finOf, phAt_setAt]
    · rcases hall k hk with h | h
      · left; simpa [hk1, G.finOf, phAt_setAt] using h
      · right; simpa [hk1] using h

/-- all sinks served: `XOk` holds again, and the pending check is the one of the frame about to return -/
theorem X.fan_done {g : G} {s : Nat} {d : Down α} {rest : List (Fr α)}
    (hX : X (.wait (.down s d) (.fLoop [] d) :: rest) g) (hsrcs : ∀ i, g.ph.srcPh i ≠ .live) :
    XOk g ∧ ∀ e h' ks, g.pend = some (e, h', ks) → h' = rest.length := by
  obtain ⟨hc, hp⟩ := hX
  rcases hp with hp | ⟨s', e, r', rest', ks, he, hp, hne, hall⟩
  · exact ⟨xok_of_noPend hc hp (noOrphan_of_noLive hsrcs), by intro e h' ks hq; rw [hp] at hq; cases hq⟩
  · simp at he
    obtain ⟨⟨_, rfl, _⟩, rfl⟩ := he
    refine ⟨⟨hc, ?_, noOrphan_of_noLive hsrcs⟩, ?_⟩
    · intro e' h' ks' hq
      rw [hp] at hq; cases hq
      refine ⟨hne, fun k hk => ?_, hsrcs⟩
      rcases hall k hk with h | h
      · exact h
      · cases h
    · intro e' h' ks' hq
      rw [hp] at hq; cases hq; rfl

/-! ## the environment moves: the explicit result of each macro-step, and the second layer there -/

theorem inv_init : Inv (Sys.init (machine α)) := ⟨Share.inv_init, X.mk_none rfl rfl⟩

theorem inv_turn (s : Cfg α) (h : Inv s) : EnvTurn s ∧ Safe s := by
  obtain ⟨hb, hX⟩ := h
  obtain ⟨ht, hv, hp⟩ := Share.inv_turn s hb
  exact ⟨ht, by simp [G.viols, hv, hX.clean], hp⟩

theorem step_subscribe {st : St} {stk : List (Fr α)} {g : G} {tr : List (Ev α α)} {c : Ctx α} {k : Nat}
    (hI : Inv' st stk g.ph) (hX : X stk g) (hc : ctxOf stk = some c)
    (hl : legalIn (machine α).shape g.ph c (In.subscribe k : In α) = true)
    (hb : ∃ n, Share.Inv (advance (machine α) n
      ⟨st, .run (enter (In.subscribe k : In α)) :: stk, g.onIn stk.length (In.subscribe k : In α), .inp (.subscribe k) :: tr, none⟩)) :
    ∃ n, Inv (advance (machine α) n
      ⟨st, .run (enter (In.subscribe k : In α)) :: stk, g.onIn stk.length (In.subscribe k : In α), .inp (.subscribe k) :: tr, none⟩) := by
  obtain ⟨hv, hlen, hidle, hm⟩ := hI
  simp only [legalIn, Bool.and_eq_true, beq_iff_eq, machine, Bool.or_true] at hl
  obtain ⟨⟨htop, hki⟩, _⟩ := hl
  have := stk_nil_of_top hc htop; subst this
  rcases hm with ⟨hcore, hs⟩ | ⟨k0, hs, _⟩ | ⟨s, d, r, rest, hs, _⟩
  · have hpn := hX.pend_none_core hs
    by_cases he : st.sinks = []
    · exact full_of hb (run_sub_first k st [] _ _ he (by simpa [Ph.onIn] using hidle _ (Nat.le_refl _))
        ((Ph.anySinkOpen_iff _).2 ⟨k, by simp [Ph.onIn]⟩)) (by simp [ctxOf]) (fun _ => X.mk_none hX.clean hpn)
    · exact full_of hb (run_sub_more k st [] _ _ he (by simp [Ph.onIn])) (by simp [ctxOf]) (fun _ => X.mk_none hX.clean hpn)
  · simp at hs
  · simp at hs

theorem step_pull {st : St} {stk : List (Fr α)} {g : G} {tr : List (Ev α α)} {c : Ctx α} {k : Nat}
    (hI : Inv' st stk g.ph) (hX : X stk g) (hc : ctxOf stk = some c)
    (hl : legalIn (machine α).shape g.ph c (In.sinkUp k .pull : In α) = true)
    (hb : ∃ n, Share.Inv (advance (machine α) n
      ⟨st, .run (enter (In.sinkUp k .pull : In α)) :: stk, g.onIn stk.length (In.sinkUp k .pull : In α), .inp (.sinkUp k .pull) :: tr, none⟩)) :
    ∃ n, Inv (advance (machine α) n
      ⟨st, .run (enter (In.sinkUp k .pull : In α)) :: stk, g.onIn stk.length (In.sinkUp k .pull : In α), .inp (.sinkUp k .pull) :: tr, none⟩) := by
  obtain ⟨hv, hlen, hidle, hm⟩ := hI
  simp only [legalIn, Bool.and_eq_true, beq_iff_eq, Bool.or_eq_true] at hl
  obtain ⟨hlive, hctx⟩ := hl
  obtain ⟨hcore, hs⟩ := sink_has_control hm hc hlive (by simpa [or_assoc] using hctx)
  have hne : st.sinks ≠ [] := List.ne_nil_of_mem ((hcore.mem k).2 hlive)
  obtain ⟨hup, hslot⟩ := hcore.up hne
  exact full_of hb (run_p0 (st.gen - 1) st stk _ _ hslot (by simpa [Ph.onIn] using hup)) (by simp [ctxOf])
    (fun _ => X.mk_none hX.clean (hX.pend_none_core hs))

/-- sink `k` disposes (`Terminate` or `Error`): for any ghost that differs from the one before the call in the phases and
`sinkErr` only -/
theorem step_dispose_aux {st : St} {stk : List (Fr α)} {g g1 : G} {tr : List (Ev α α)} {c : Ctx α} {k : Nat}
    (hI : Inv' st stk g.ph) (hX : X stk g) (hc : ctxOf stk = some c) (hlive : g.ph.sinkPh k = .live)
    (hctx : isTop c = true ∨ inGreet k c = true ∨ inData k c = true) (hg1 : g1.ph = g.ph.setSink k .doneBySelf)
    (hg1x : g1.xviols = g.xviols) (hg1p : g1.pend = g.pend)
    (hb : ∃ n, Share.Inv (advance (machine α) n ⟨st, .run (.x0 k) :: stk, g1, tr, none⟩)) :
    ∃ n, Inv (advance (machine α) n ⟨st, .run (.x0 k) :: stk, g1, tr, none⟩) := by
  obtain ⟨hv, hlen, hidle, hm⟩ := hI
  obtain ⟨hcore, hs⟩ := sink_has_control hm hc hlive hctx
  have hk : k ∈ st.sinks := (hcore.mem k).2 hlive
  have hne : st.sinks ≠ [] := List.ne_nil_of_mem hk
  obtain ⟨hup, hslot⟩ := hcore.up hne
  have hx1 : g1.xviols = [] := hg1x.trans hX.clean
  have hp1 : g1.pend = none := hg1p.trans (hX.pend_none_core hs)
  by_cases he : st.sinks.erase k = []
  · exact full_of hb (run_x0_last k (st.gen - 1) st stk g1 tr he hslot (by simpa [hg1] using hup)) (by simp [ctxOf])
      (fun _ => X.mk_none hx1 hp1)
  · refine full_of hb (run_x0_some k st stk g1 tr he) (by rw [hc]; rfl) (fun hI' => ?_)
    have hm' := hI'.2.2.2
    rw [onRetO_ph] at hm'
    exact X.ret hx1 hp1 (noOrphan_of_mode hm') _

theorem step_greet {st : St} {stk : List (Fr α)} {g : G} {tr : List (Ev α α)} {c : Ctx α} {i : Nat}
    (hI : Inv' st stk g.ph) (hX : X stk g) (hl : legalIn (machine α).shape g.ph c (In.srcGreet i : In α) = true)
    (hb : ∃ n, Share.Inv (advance (machine α) n
      ⟨st, .run (.g0 i) :: stk, g.onIn stk.length (In.srcGreet i : In α), .inp (.srcGreet i) :: tr, none⟩)) :
    ∃ n, Inv (advance (machine α) n
      ⟨st, .run (.g0 i) :: stk, g.onIn stk.length (In.srcGreet i : In α), .inp (.srcGreet i) :: tr, none⟩) := by
  obtain ⟨hv, hlen, hidle, hm⟩ := hI
  simp only [legalIn, Bool.and_eq_true, beq_iff_eq] at hl
  obtain ⟨hsub, _⟩ := hl
  rcases hm with ⟨hcore, _⟩ | ⟨k, hs, hsinks, hfirst, hk, hoth, hsrc, hoths⟩ | ⟨s, d, r, rest, _, _, _, _, _, _, hsrcs⟩
  · exact absurd hsub (hcore.nosrcsub i)
  · have hi : i = st.gen - 1 := by
      by_cases hi : i = st.gen - 1
      · exact hi
      · exact absurd hsub (hoths i hi).2
    subst hi
    have hpn : g.pend = none := hX.pend_none (by intro s e r rest h; rw [hs] at h; simp at h)
    exact full_of hb (run_g0 (st.gen - 1) st stk _ _ (by simpa [Ph.onIn, hfirst] using hk)) (by simp [ctxOf])
      (fun _ => X.mk_none hX.clean hpn)
  · exact absurd hsub (hsrcs i).2

theorem step_down_data {st : St} {stk : List (Fr α)} {g : G} {tr : List (Ev α α)} {c : Ctx α} {i : Nat} {a : α}
    (hI : Inv' st stk g.ph) (hX : X stk g) (hl : legalIn (machine α).shape g.ph c (In.srcDown i (.data a) : In α) = true)
    (hr : deliveryOpen stk = false)
    (hb : ∃ n, Share.Inv (advance (machine α) n
      ⟨st, .run (.f0 (.data a)) :: stk, g.onIn stk.length (In.srcDown i (.data a) : In α), .inp (.srcDown i (.data a)) :: tr, none⟩)) :
    ∃ n, Inv (advance (machine α) n
      ⟨st, .run (.f0 (.data a)) :: stk, g.onIn stk.length (In.srcDown i (.data a) : In α), .inp (.srcDown i (.data a)) :: tr, none⟩) := by
  obtain ⟨hv, hlen, hidle, hm⟩ := hI
  simp only [legalIn, Bool.and_eq_true, beq_iff_eq] at hl
  obtain ⟨hlive, _⟩ := hl
  rcases hm with ⟨hcore, hs⟩ | ⟨k, _, _, _, _, _, hsrc, hoths⟩ | ⟨s, d, r, rest, _, _, _, _, _, _, hsrcs⟩
  · have hpn := hX.pend_none_core hs
    rcases hs with ht | ⟨pre, s0, a0, r, post, rfl, _⟩
    · obtain ⟨_, hne⟩ := hcore.live i hlive
      obtain ⟨s0, r, hsr⟩ := List.exists_cons_of_ne_nil hne
      have hs0 : g.ph.sinkPh s0 = .live := (hcore.mem s0).1 (by simp [hsr])
      exact full_of hb (run_f0_data s0 r a st stk _ _ hsr (by simpa [Ph.onIn] using hs0)) (by simp [ctxOf])
        (fun _ => X.mk_none hX.clean hpn)
    · rw [deliveryOpen_fan] at hr; cases hr
  · by_cases hi : i = st.gen - 1
    · subst hi; rw [hsrc] at hlive; cases hlive
    · exact absurd hlive (hoths i hi).1
  · exact absurd hlive (hsrcs i).1

/-- the upstream ends with `Terminate` or `Error(e)`: the first sink is served in the same macro-step -/
theorem step_down_end {st : St} {stk : List (Fr α)} {g : G} {tr : List (Ev α α)} {i : Nat} {d : Down α}
    (hI : Inv' st stk g.ph) (hX : X stk g) (hlive : g.ph.srcPh i = .live) (hr : deliveryOpen stk = false) (hd : isEndD d = true)
    (hb : ∃ n, Share.Inv (advance (machine α) n
      ⟨st, .run (.f0 d) :: stk, g.onIn stk.length (In.srcDown i d : In α), .inp (.srcDown i d) :: tr, none⟩)) :
    ∃ n, Inv (advance (machine α) n
      ⟨st, .run (.f0 d) :: stk, g.onIn stk.length (In.srcDown i d : In α), .inp (.srcDown i d) :: tr, none⟩) := by
  obtain ⟨hv, hlen, hidle, hm⟩ := hI
  rcases hm with ⟨hcore, hs⟩ | ⟨k, _, _, _, _, _, hsrc, hoths⟩ | ⟨s, d, r, rest, _, _, _, _, _, _, hsrcs⟩
  · have hpn := hX.pend_none_core hs
    rcases hs with ht | ⟨pre, s0, a0, r, post, rfl, _⟩
    · obtain ⟨hi, hne⟩ := hcore.live i hlive
      obtain ⟨s0, r, hsr⟩ := List.exists_cons_of_ne_nil hne
      have hs0 : g.ph.sinkPh s0 = .live := (hcore.mem s0).1 (by simp [hsr])
      cases d with
      | data a => simp [isEndD] at hd
      | term =>
        exact full_of hb (run_f0_end s0 r .term rfl st stk _ _ hsr (by simpa [Ph.onIn] using hs0)) (by simp [ctxOf])
          (fun _ => X.mk_none hX.clean hpn)
      | err e =>
        have hlv : (livesOf g.ph).isEmpty = false := by
          cases hl : livesOf g.ph with
          | nil => exact absurd hl (livesOf_ne_nil s0 hs0)
          | cons _ _ => rfl
        have hg1 : g.onIn stk.length (In.srcDown i (.err e) : In α) =
            { g with ph := g.ph.setSrc i .ended, pend := some (e, stk.length, livesOf g.ph) } := by
          rw [onIn_srcErr]; simp [hpn, hlv, Ph.onIn]
        rw [hg1] at hb ⊢
        refine full_of hb (run_f0_end s0 r (.err e) rfl st stk _ _ hsr (by simpa using hs0)) (by simp [ctxOf]) (fun _ => ?_)
        refine ⟨hX.clean, Or.inr ⟨s0, e, r, stk, livesOf g.ph, rfl, rfl, livesOf_ne_nil s0 hs0, fun k hk => ?_⟩⟩
        have hkl : k ∈ st.sinks := (hcore.mem k).2 ((mem_livesOf g.ph k).1 hk)
        rw [hsr] at hkl
        rcases List.mem_cons.1 hkl with rfl | hkr
        · left; simp [finOfDown, G.finOf, phAt_setAt]
        · exact Or.inr hkr
    · rw [deliveryOpen_fan] at hr; cases hr
  · by_cases hi : i = st.gen - 1
    · subst hi; rw [hsrc] at hlive; cases hlive
    · exact absurd hlive (hoths i hi).1
  · exact absurd hlive (hsrcs i).1

theorem step_ret {st : St} {stk : List (Fr α)} {g : G} {tr : List (Ev α α)} {o : Out α} {l : Loc α}
    (hI : Inv' st (.wait o l :: stk) g.ph) (hX : X (.wait o l :: stk) g)
    (hl : legalRet (machine α).shape g.ph (.inCall o : Ctx α) = true)
    (hb : ∃ n, Share.Inv (advance (machine α) n ⟨st, .run l :: stk, g, .retE :: tr, none⟩)) :
    ∃ n, Inv (advance (machine α) n ⟨st, .run l :: stk, g, .retE :: tr, none⟩) := by
  obtain ⟨hv, hlen, hidle, hm⟩ := hI
  have hno := noOrphan_of_mode hm
  rcases hm with ⟨hcore, hs⟩ | ⟨k, hs, _, _, _, _, hsrc, _⟩ | ⟨s, d, r, rest, hs, hd, hrest, hnd, hlv, hnosub, hsrcs⟩
  · have hpn := hX.pend_none_core hs
    rcases hs with ht | ⟨pre, s0, a, r, post, he, hpre, hpost, hnd, hr⟩
    · obtain ⟨o', ho'⟩ := ht _ List.mem_cons_self
      simp at ho'; obtain ⟨rfl, rfl⟩ := ho'
      exact full_of hb (run_done st stk g _) (ctx_isSome_of_tails (List.forall_mem_cons.1 ht).2)
        (fun _ => X.ret hX.clean hpn hno _)
    · cases pre with
      | nil =>
        simp at he; obtain ⟨⟨rfl, rfl⟩, rfl⟩ := he
        cases r with
        | nil =>
          exact full_of hb (run_fLoop_nil_data a st stk g _) (ctx_isSome_of_tails hpost) (fun _ => X.ret hX.clean hpn hno _)
        | cons s1 r1 =>
          have hs1 : g.ph.sinkPh s1 = .live := (hcore.mem s1).1 (hr s1 (by simp))
          exact full_of hb (run_fLoop_data s1 r1 a st stk g _ hs1) (by simp [ctxOf]) (fun _ => X.mk_none hX.clean hpn)
      | cons f pre =>
        obtain ⟨i, u, rfl⟩ := hpre f (by simp)
        simp at he; obtain ⟨⟨rfl, rfl⟩, rfl⟩ := he
        exact full_of hb (run_done st _ g _)
          (ctx_isSome_of_stackOK (sinks := st.sinks)
            (Or.inr ⟨pre, s0, a, r, post, rfl, (List.forall_mem_cons.1 hpre).2, hpost, hnd, hr⟩))
          (fun _ => X.ret hX.clean hpn hno _)
  · simp at hs; obtain ⟨⟨rfl, rfl⟩, rfl⟩ := hs
    simp [legalRet, machine, hsrc] at hl
  · simp at hs; obtain ⟨⟨rfl, rfl⟩, rfl⟩ := hs
    cases r with
    | nil =>
      obtain ⟨hxok, hh⟩ := hX.fan_done (fun i => (hsrcs i).1)
      obtain ⟨a, b⟩ := ret_clean hxok stk.length hh
      exact full_of hb (run_fLoop_nil_end d hd st stk g _) (ctx_isSome_of_tails hrest) (fun _ => X.mk_none a b)
    | cons s1 r1 =>
      have hs1 : g.ph.sinkPh s1 = .live := (hlv s1).2 (by simp)
      exact full_of hb (run_fLoop_end s1 r1 d hd st stk g _ hs1) (by simp [ctxOf]) (fun _ => hX.fan_step hd)

theorem inv_step (s s' : Cfg α) (m : Move α) (h : Inv s) (hs : EnvStep (machine α) m s s') (hr : noNestedFanout s m) :
    ∃ n, Inv (advance (machine α) n s') := by
  obtain ⟨hbI, hX⟩ := h
  have hb := Share.inv_step s s' m hbI hs hr
  obtain ⟨hp, hI⟩ := hbI
  cases hs with
  | @call st stk g tr c i hc hl =>
    simp only at hI hX
    cases i with
    | subscribe k => exact step_subscribe hI hX hc hl hb
    | sinkUp k u =>
      cases u with
      | pull => exact step_pull hI hX hc hl hb
      | term =>
        simp only [legalIn, Bool.and_eq_true, beq_iff_eq, Bool.or_eq_true] at hl
        exact step_dispose_aux hI hX hc hl.1 (by simpa [or_assoc] using hl.2) (by simp [Ph.onIn]) rfl rfl hb
      | err e =>
        simp only [legalIn, Bool.and_eq_true, beq_iff_eq, Bool.or_eq_true] at hl
        exact step_dispose_aux hI hX hc hl.1 (by simpa [or_assoc] using hl.2) (by simp [Ph.onIn]) rfl rfl hb
    | srcGreet i => exact step_greet hI hX hl hb
    | srcDown i d =>
      have hr' : deliveryOpen stk = false := hr
      cases d with
      | data a => exact step_down_data hI hX hl hr' hb
      | term =>
        simp only [legalIn, Bool.and_eq_true, beq_iff_eq] at hl
        exact step_down_end hI hX hl.1 hr' rfl hb
      | err e =>
        simp only [legalIn, Bool.and_eq_true, beq_iff_eq] at hl
        exact step_down_end hI hX hl.1 hr' rfl hb
  | @ret st stk g tr o l hl => exact step_ret hI hX hl hb

/-- share, any number of sinks: under every conformant environment in which no upstream delivers while one of the
operator's own deliveries to a sink is in progress, the operator never violates any clause of C01–C05 (both ghost
layers: phases, no orphaned upstream, an upstream `Error(e)` reaches every live sink exactly once, unchanged, before
its handler returns) and never panics (C17). -/
theorem share_safe_partial {α : Type} : ∀ s, SReachR (machine α) noNestedFanout s → Safe s :=
  reach_of_macro_inv (machine α) noNestedFanout Safe Inv inv_init inv_turn inv_step (safe_mono (machine α))

end Cb.ShareFull

#print axioms Cb.ShareFull.share_safe_partial
