import CallbagModel.SemCS
import CallbagModel.Inv.Ghost2
import CallbagModel.Inv.ShareWeak
import CallbagModel.Inv.ShareFull
/-!
# share under the CROSS-SINK environment (`SemCS.lean`): the known deviations are the only ones

`Inv/ShareWeak.lean`: under every `legalIn` environment the only phase-level violations of `share` are late deliveries
(`afterTerm`, `afterDispose`).  The cross-sink environment adds: while `share` is delivering (greeting, data, terminal) to one sink,
any LIVE sink may pull or dispose.  What is new:

* while a greeting or a DATA delivery is open, a cross-sink call is handled exactly like a call of the sink being served: the `core`
  mode of `ShareWeak` never relates the remaining sinks `r` of a fan-out frame to `st.sinks` or to liveness.  A cross-sink `Terminate`
  of the last listed sink makes `share` terminate its (live) upstream while the snapshot loop goes on: the later deliveries of that
  loop hit disposed sinks (`afterDispose`, KF5c);
* while a TERMINAL fan-out is open (`tfan`; under `legalIn` nobody can call there), a live sink — necessarily one not notified yet —
  may dispose: it is spliced out of `st.sinks`, which still contains the sinks already notified (they are not live, so they cannot
  dispose): the list never becomes empty and NO `Terminate` goes to the upstream that has just ended; the sink stays in the
  snapshot and gets the terminal after its disposal (`afterDispose`, KF5c).  Or it may pull: the `Pull` is forwarded to the ended
  upstream (`upNotLive j .ended`, KF5d) — new mode `tpull`, in which the environment can only return.

Results (`OnlyKnown`, `share_safe_cs`, `share_cs_term_live`):
* the only phase-level violations are `afterTerm k`, `afterDispose k`, `upNotLive i .ended`; no panic;
* the second ghost layer stays clean (`xviols = []`): no orphan, an upstream `Error(e)` reaches every sink that was live and has
  not detached by itself, unchanged, before the handler returns, and no upstream is left live;
* whenever `share` is about to send `Terminate` upstream (location `x2`, the only place where it sends anything but `Pull`), that
  upstream is live: the stray message of `upNotLive i .ended` is always a `Pull`.
-/
namespace Cb.ShareCS
open Cb Cb.Share Cb.ShareWeak

variable {α : Type}

/-- the known deviations: late deliveries (KF5a–c) and a message to the upstream that has just ended (KF5d) -/
def OnlyKnown (vs : List Viol) : Prop :=
  ∀ v ∈ vs, (∃ k, v = Viol.afterTerm k) ∨ (∃ k, v = Viol.afterDispose k) ∨ (∃ i, v = Viol.upNotLive i .ended)

/-! ## ghost lemmas -/

theorem down_viols (g : Ph) (s : Nat) (d : Down α) (hg : Greeted g s) (hv : OnlyKnown g.viols) :
    OnlyKnown (g.onOut (.down s d : Out α)).viols := by
  rcases hg with h | h | h
  · simp only [Ph.onOut, h]; split <;> simpa using hv
  · simp only [Ph.onOut, h]
    intro v hv'
    simp at hv'
    rcases hv' with rfl | hv'
    · exact Or.inl ⟨_, rfl⟩
    · exact hv v hv'
  · simp only [Ph.onOut, h]
    intro v hv'
    simp at hv'
    rcases hv' with rfl | hv'
    · exact Or.inr (Or.inl ⟨_, rfl⟩)
    · exact hv v hv'

theorem pull_ended_eq (g : Ph) (j : Nat) (hj : g.srcPh j = .ended) :
    g.onOut (.srcUp j .pull : Out α) = g.flag (.upNotLive j .ended) := by
  simp [Ph.onOut, hj]

theorem flag_ended_viols (g : Ph) (j : Nat) (hv : OnlyKnown g.viols) : OnlyKnown (g.flag (.upNotLive j .ended)).viols := by
  intro v hv'
  simp at hv'
  rcases hv' with rfl | hv'
  · exact Or.inr (Or.inr ⟨_, rfl⟩)
  · exact hv v hv'

theorem down_not_live (g : Ph) (s : Nat) (d : Down α) (x : Nat) (h : g.sinkPh x ≠ .live) :
    (g.onOut (.down s d : Out α)).sinkPh x ≠ .live := fun h' => h (down_live_back g s d x h')

/-! ## the invariant -/

/-- an open terminal fan-out with remaining sinks `r` -/
structure TFan (st : St) (g : Ph) (r : List Nat) : Prop where
  greeted : ∀ x ∈ r, Greeted g x
  lives : ∀ k, g.sinkPh k = .live → k ∈ r
  nosub : ∀ k, g.sinkPh k ≠ .subscribed
  nosrc : ∀ i, g.srcPh i ≠ .live ∧ g.srcPh i ≠ .subscribed
  /-- the talkback slot still points to the upstream that has just ended -/
  slot : ∃ j, st.slot = some j ∧ g.srcPh j = .ended
  /-- the sink list still contains a sink that has been notified: a disposal never empties it -/
  keep : ∃ x ∈ st.sinks, g.sinkPh x ≠ .live

theorem TFan.congr {st : St} {g g' : Ph} {r : List Nat} (h : TFan st g r) (hs : ∀ k, g'.sinkPh k = g.sinkPh k)
    (hr : ∀ i, g'.srcPh i = g.srcPh i) : TFan st g' r :=
  ⟨fun x hx => (h.greeted x hx).congr (hs x), fun k hk => h.lives k (by rw [← hs]; exact hk), fun k => by rw [hs]; exact h.nosub k,
    fun i => by rw [hr]; exact h.nosrc i, by obtain ⟨j, h1, h2⟩ := h.slot; exact ⟨j, h1, by rw [hr]; exact h2⟩,
    by obtain ⟨x, h1, h2⟩ := h.keep; exact ⟨x, h1, by rw [hs]; exact h2⟩⟩

/-- the fan-out serves the next sink of its snapshot -/
theorem TFan.next {st : St} {g : Ph} {s1 : Nat} {r1 : List Nat} {d : Down α} (h : TFan st g (s1 :: r1)) (hd : isEndD d = true) :
    TFan st (g.onOut (.down s1 d : Out α)) r1 := by
  refine ⟨fun x hx => down_greeted _ _ _ x (h.greeted x (by simp [hx])), fun k hk => ?_, down_nosub _ _ _ h.nosub,
    fun i => by rw [down_srcPh]; exact h.nosrc i, ?_, ?_⟩
  · have hk0 : k ≠ s1 := by rintro rfl; exact down_end_self _ _ _ hd hk
    have := h.lives k (down_live_back _ _ _ _ hk)
    simpa [hk0] using this
  · obtain ⟨j, h1, h2⟩ := h.slot; exact ⟨j, h1, by rw [down_srcPh]; exact h2⟩
  · obtain ⟨x, h1, h2⟩ := h.keep; exact ⟨x, h1, down_not_live _ _ _ _ h2⟩

inductive CMode (st : St) (g : Ph) (stk : List (Fr α)) : Prop where
  | core : Core st g → SOK g stk → CMode st g stk
  | waiting (k : Nat) : stk = [.wait (.subSrc (st.gen - 1)) .done] → st.sinks = [k] → phAt st.first (st.gen - 1) = k →
      g.sinkPh k = .subscribed → (∀ k', k' ≠ k → g.sinkPh k' ≠ .live ∧ g.sinkPh k' ≠ .subscribed) →
      g.srcPh (st.gen - 1) = .subscribed → (∀ i, i ≠ st.gen - 1 → g.srcPh i ≠ .live ∧ g.srcPh i ≠ .subscribed) →
      CMode st g stk
  | tfan (s : Nat) (d : Down α) (r : List Nat) (rest : List (Fr α)) :
      stk = .wait (.down s d) (.fLoop r d) :: rest → isEndD d = true → SOK g rest → TFan st g r → CMode st g stk
  | tpull (j s : Nat) (d : Down α) (r : List Nat) (rest : List (Fr α)) :
      stk = .wait (.srcUp j .pull) .done :: .wait (.down s d) (.fLoop r d) :: rest → isEndD d = true → SOK g rest → TFan st g r →
      CMode st g stk

def CInv' (st : St) (stk : List (Fr α)) (ph : Ph) : Prop :=
  OnlyKnown ph.viols ∧ st.first.length = st.gen ∧ (∀ i, st.gen ≤ i → ph.srcPh i = .idle) ∧ CMode st ph stk

def CInv (s : Cfg α) : Prop := s.panicked = none ∧ CInv' s.st s.stack s.g.ph

/-- the sticky phase-level property -/
def P (s : Cfg α) : Prop := OnlyKnown s.g.ph.viols ∧ s.panicked = none

theorem cinv_of_reaches {s : Cfg α} {st stk ph} (h : Reaches s st stk ph) (hi : CInv' st stk ph) :
    ∃ n, CInv (advance (machine α) n s) := by
  obtain ⟨n, h1, h2, h3, h4⟩ := h
  exact ⟨n, h4, by rw [h1, h2, h3]; exact hi⟩

/-- a `Pull` whatever the phase of the upstream in the slot -/
theorem run_p0_any (i : Nat) (st : St) (stk : List (Fr α)) (g : G) (tr : List (Ev α α)) (hs : st.slot = some i) :
    Reaches ⟨st, .run .p0 :: stk, g, tr, none⟩ st (.wait (.srcUp i .pull) .done :: stk) (g.ph.onOut (.srcUp i .pull : Out α)) :=
  ⟨1, by simp [advance, opStep, machine, step, hs]⟩

/-! ## turn, init -/

theorem inv_turn (s : Cfg α) (h : CInv s) : EnvTurn s ∧ P s := by
  obtain ⟨hp, hv, _, _, hm⟩ := h
  refine ⟨⟨hp, ?_⟩, hv, hp⟩
  cases hm with
  | core _ hs => exact ctx_isSome_of_sok hs
  | waiting k he => simp [he, ctxOf]
  | tfan s0 d r rest he => simp [he, ctxOf]
  | tpull j s0 d r rest he => simp [he, ctxOf]

theorem inv_init : CInv (Sys.init (machine α)) := by
  refine ⟨rfl, fun v hv => by simp [Sys.init] at hv, rfl, fun i _ => by simp [Sys.init], CMode.core ?_ (by simp [Sys.init]; exact SOK.nil _)⟩
  exact ⟨fun k => by simp [Sys.init, machine], fun k => by simp [Sys.init], by simp [Sys.init, machine],
    fun h => by simp [Sys.init, machine] at h, fun i h => by simp [Sys.init] at h, fun i => by simp [Sys.init]⟩

/-! ## the environment moves -/

theorem step_subscribe {st : St} {stk : List (Fr α)} {g : G} {tr : List (Ev α α)} {c : Ctx α} {k : Nat}
    (hI : CInv' st stk g.ph) (hc : ctxOf stk = some c) (hl : legalIn (machine α).shape g.ph c (In.subscribe k : In α) = true) :
    ∃ n, CInv (advance (machine α) n
      ⟨st, .run (enter (In.subscribe k : In α)) :: stk, g.onIn stk.length (In.subscribe k : In α), .inp (.subscribe k) :: tr, none⟩) := by
  obtain ⟨hv, hlen, hidle, hm⟩ := hI
  simp only [legalIn, Bool.and_eq_true, beq_iff_eq, machine, Bool.or_true] at hl
  obtain ⟨⟨htop, hki⟩, _⟩ := hl
  have := stk_nil_of_top hc htop; subst this
  rcases hm with ⟨hcore, _⟩ | ⟨k0, hs, _⟩ | ⟨s, d, r, rest, hs, _⟩ | ⟨j, s, d, r, rest, hs, _⟩
  · by_cases he : st.sinks = []
    · have hnl : ∀ k', g.ph.sinkPh k' ≠ .live := fun k' h => by
        have := (hcore.mem k').2 h; rw [he] at this; cases this
      have hnls : ∀ i, g.ph.srcPh i ≠ .live := fun i h => (hcore.live i h).2 he
      refine cinv_of_reaches (run_sub_first k st [] _ _ he (by simpa [Ph.onIn] using hidle _ (Nat.le_refl _))
        ((Ph.anySinkOpen_iff _).2 ⟨k, by simp [Ph.onIn]⟩)) ?_
      refine ⟨by simpa [Ph.onIn] using hv, by simp [hlen], fun i hi => ?_, CMode.waiting k (by simp) rfl ?_ (by simp [Ph.onIn]) ?_ (by simp) ?_⟩
      · have : i ≠ st.gen := by simp at hi; omega
        simp [Ph.onIn, this]; exact hidle i (by simp at hi; omega)
      · simp [phAt, ← hlen]
      · intro k' hk'; simp [Ph.onIn, hk']; exact ⟨hnl k', hcore.nosub k'⟩
      · intro i hi; simp at hi; simp [Ph.onIn, hi]; exact ⟨hnls i, hcore.nosrcsub i⟩
    · have hkn : k ∉ st.sinks := fun h => by have := (hcore.mem k).1 h; rw [hki] at this; cases this
      refine cinv_of_reaches (run_sub_more k st [] _ _ he (by simp [Ph.onIn])) ?_
      refine ⟨by simpa [Ph.onIn] using hv, hlen, fun i hi => by simpa [Ph.onIn] using hidle i hi,
        CMode.core ?_ ((SOK.nil _).cons_tail _)⟩
      refine ⟨fun k' => ?_, fun k' => ?_, ?_, fun _ => ?_, fun i hi => ?_, fun i => by simpa [Ph.onIn] using hcore.nosrcsub i⟩
      · by_cases hk' : k' = k
        · simp [hk']
        · simp [Ph.onIn, hk']; exact hcore.mem k'
      · by_cases hk' : k' = k
        · simp [hk']
        · simp [Ph.onIn, hk']; exact hcore.nosub k'
      · exact List.nodup_append.2 ⟨hcore.nodup, by simp, fun a ha b hb => by simp at hb; subst hb; rintro rfl; exact hkn ha⟩
      · simpa [Ph.onIn] using hcore.up he
      · have := hcore.live i (by simpa [Ph.onIn] using hi)
        exact ⟨this.1, by simp⟩
  · simp at hs
  · simp at hs
  · simp at hs

/-- a live sink calls, from its own handlers (`legalIn`) or from inside ANY delivery (`crossSink`): the mode is `core`, or a
terminal fan-out is on top of the stack (cross-sink only) -/
theorem sink_cases {st : St} {stk : List (Fr α)} {ph : Ph} {c : Ctx α} {k : Nat}
    (hm : CMode st ph stk) (hc : ctxOf stk = some c) (hlive : ph.sinkPh k = .live)
    (hctx : isTop c = true ∨ inGreet k c = true ∨ inData k c = true ∨ inDelivery c = true) :
    (Core st ph ∧ SOK ph stk) ∨
      ∃ s d r rest, stk = .wait (.down s d) (.fLoop r d) :: rest ∧ isEndD d = true ∧ SOK ph rest ∧ TFan st ph r := by
  rcases hm with ⟨hcore, hs⟩ | ⟨k0, hs, _, _, hk0, hoth, _⟩ | ⟨s, d, r, rest, hs, hd, hrest, ht⟩ | ⟨j, s, d, r, rest, hs, _⟩
  · exact Or.inl ⟨hcore, hs⟩
  · by_cases hk : k = k0
    · subst hk; rw [hk0] at hlive; cases hlive
    · exact absurd hlive (hoth k hk).1
  · exact Or.inr ⟨s, d, r, rest, hs, hd, hrest, ht⟩
  · subst hs
    simp [ctxOf] at hc; subst hc
    simp [isTop, inGreet, inData, inDelivery] at hctx

theorem step_pull {st : St} {stk : List (Fr α)} {g : G} {tr : List (Ev α α)} {c : Ctx α} {k : Nat}
    (hI : CInv' st stk g.ph) (hc : ctxOf stk = some c) (hlive : g.ph.sinkPh k = .live)
    (hctx : isTop c = true ∨ inGreet k c = true ∨ inData k c = true ∨ inDelivery c = true) :
    ∃ n, CInv (advance (machine α) n
      ⟨st, .run (enter (In.sinkUp k .pull : In α)) :: stk, g.onIn stk.length (In.sinkUp k .pull : In α), .inp (.sinkUp k .pull) :: tr, none⟩) := by
  obtain ⟨hv, hlen, hidle, hm⟩ := hI
  rcases sink_cases hm hc hlive hctx with ⟨hcore, hs⟩ | ⟨s, d, r, rest, hs, hd, hrest, ht⟩
  · have hne : st.sinks ≠ [] := List.ne_nil_of_mem ((hcore.mem k).2 hlive)
    obtain ⟨hup, hslot⟩ := hcore.up hne
    refine cinv_of_reaches (run_p0 (st.gen - 1) st stk _ _ hslot (by simpa [Ph.onIn] using hup)) ?_
    refine ⟨by simpa [Ph.onIn] using hv, hlen, by simpa [Ph.onIn] using hidle,
      CMode.core (by simpa [Ph.onIn] using hcore) (by simpa [Ph.onIn] using hs.cons_tail _)⟩
  · -- KF5d: the Pull of a sink not notified yet goes to the upstream that has just ended
    obtain ⟨j, hslot, hj⟩ := ht.slot
    refine cinv_of_reaches (run_p0_any j st stk _ _ hslot) ?_
    have hph : (g.onIn stk.length (In.sinkUp k .pull : In α)).ph = g.ph := by simp [Ph.onIn]
    rw [hph, pull_ended_eq _ _ hj]
    exact ⟨flag_ended_viols _ _ hv, hlen, fun i hi => by simpa using hidle i hi,
      CMode.tpull j s d r rest (by rw [hs]) hd (hrest.mono (fun x hx => hx.congr rfl)) (ht.congr (fun _ => rfl) (fun _ => rfl))⟩

/-- sink `k` disposes (`Terminate` or `Error`): stated for any ghost whose phases are those after the call -/
theorem step_dispose_aux {st : St} {stk : List (Fr α)} {g g1 : G} {tr : List (Ev α α)} {c : Ctx α} {k : Nat}
    (hI : CInv' st stk g.ph) (hc : ctxOf stk = some c) (hlive : g.ph.sinkPh k = .live)
    (hctx : isTop c = true ∨ inGreet k c = true ∨ inData k c = true ∨ inDelivery c = true)
    (hg1 : g1.ph = g.ph.setSink k .doneBySelf) :
    ∃ n, CInv (advance (machine α) n ⟨st, .run (.x0 k) :: stk, g1, tr, none⟩) := by
  obtain ⟨hv, hlen, hidle, hm⟩ := hI
  rcases sink_cases hm hc hlive hctx with ⟨hcore, hs⟩ | ⟨s, d, r, rest, hs, hd, hrest, ht⟩
  · have hk : k ∈ st.sinks := (hcore.mem k).2 hlive
    have hne : st.sinks ≠ [] := List.ne_nil_of_mem hk
    obtain ⟨hup, hslot⟩ := hcore.up hne
    have hs' : SOK (g.ph.setSink k .doneBySelf) stk := hs.mono (fun x hx => hx.setSink _ _ (Or.inr (Or.inr rfl)))
    have hmem : ∀ k', k' ∈ st.sinks.erase k ↔ (g.ph.setSink k .doneBySelf).sinkPh k' = .live := by
      intro k'
      by_cases hk' : k' = k
      · subst hk'; simp [hcore.nodup.mem_erase_iff]
      · simp [hk', List.mem_erase_of_ne hk']; exact hcore.mem k'
    have hnosub : ∀ k', (g.ph.setSink k .doneBySelf).sinkPh k' ≠ .subscribed := by
      intro k'
      by_cases hk' : k' = k
      · simp [hk']
      · simp [hk']; exact hcore.nosub k'
    by_cases he : st.sinks.erase k = []
    · refine cinv_of_reaches (run_x0_last k (st.gen - 1) st stk g1 tr he hslot (by simpa [hg1] using hup)) ?_
      rw [hg1]
      refine ⟨by simpa using hv, hlen, fun i hi => ?_, CMode.core ?_ ?_⟩
      · have hi' : i ≠ st.gen - 1 := by simp at hi; have := hidle (st.gen - 1); intro h; rw [← h, hidle i hi] at hup; cases hup
        simp [hi']; exact hidle i hi
      · refine ⟨fun k' => ?_, ?_, List.nodup_nil, fun h => absurd rfl h, fun i hi => ?_, fun i => ?_⟩
        · have := hmem k'; rw [he] at this; simpa using this
        · simpa using hnosub
        · exfalso
          by_cases hi' : i = st.gen - 1
          · simp [hi'] at hi
          · simp [hi'] at hi; exact hi' (hcore.live i hi).1
        · by_cases hi' : i = st.gen - 1
          · simp [hi']
          · simp [hi']; exact hcore.nosrcsub i
      · exact (hs'.mono (fun x hx => hx.congr rfl)).cons_tail _
    · refine cinv_of_reaches (run_x0_some k st stk g1 tr he) ?_
      rw [hg1]
      refine ⟨by simpa using hv, hlen, by simpa using hidle, CMode.core ?_ hs'⟩
      exact ⟨hmem, hnosub, hcore.nodup.erase k, fun _ => by simpa using hcore.up hne,
        fun i hi => ⟨(hcore.live i (by simpa using hi)).1, he⟩, fun i => by simpa using hcore.nosrcsub i⟩
  · -- KF5c during a terminal fan-out: the list keeps the sinks already notified, so no `Terminate` goes upstream
    obtain ⟨x, hx, hxl⟩ := ht.keep
    have hxk : x ≠ k := by rintro rfl; exact hxl hlive
    have hx' : x ∈ st.sinks.erase k := (List.mem_erase_of_ne hxk).2 hx
    have he : st.sinks.erase k ≠ [] := List.ne_nil_of_mem hx'
    refine cinv_of_reaches (run_x0_some k st stk g1 tr he) ?_
    rw [hg1]
    refine ⟨by simpa using hv, hlen, by simpa using hidle,
      CMode.tfan s d r rest hs hd (hrest.mono (fun y hy => hy.setSink _ _ (Or.inr (Or.inr rfl)))) ?_⟩
    refine ⟨fun y hy => (ht.greeted y hy).setSink _ _ (Or.inr (Or.inr rfl)), fun k' hk' => ?_, fun k' => ?_,
      fun i => by simpa using ht.nosrc i, ?_, ⟨x, hx', by simpa [hxk] using hxl⟩⟩
    · by_cases hkk : k' = k
      · simp [hkk] at hk'
      · exact ht.lives k' (by simpa [hkk] using hk')
    · by_cases hkk : k' = k
      · simp [hkk]
      · simp [hkk]; exact ht.nosub k'
    · obtain ⟨j, h1, h2⟩ := ht.slot; exact ⟨j, h1, by simpa using h2⟩

theorem step_greet {st : St} {stk : List (Fr α)} {g : G} {tr : List (Ev α α)} {c : Ctx α} {i : Nat}
    (hI : CInv' st stk g.ph) (hl : legalIn (machine α).shape g.ph c (In.srcGreet i : In α) = true) :
    ∃ n, CInv (advance (machine α) n
      ⟨st, .run (.g0 i) :: stk, g.onIn stk.length (In.srcGreet i : In α), .inp (.srcGreet i) :: tr, none⟩) := by
  obtain ⟨hv, hlen, hidle, hm⟩ := hI
  simp only [legalIn, Bool.and_eq_true, beq_iff_eq] at hl
  obtain ⟨hsub, _⟩ := hl
  rcases hm with ⟨hcore, _⟩ | ⟨k, hs, hsinks, hfirst, hk, hoth, hsrc, hoths⟩ | ⟨s, d, r, rest, _, _, _, ht⟩ | ⟨j, s, d, r, rest, _, _, _, ht⟩
  · exact absurd hsub (hcore.nosrcsub i)
  · have hi : i = st.gen - 1 := by
      by_cases hi : i = st.gen - 1
      · exact hi
      · exact absurd hsub (hoths i hi).2
    subst hi
    have hgen : 0 < st.gen := by
      rcases Nat.eq_zero_or_pos st.gen with h0 | h0
      · have := hidle (st.gen - 1) (by omega); rw [this] at hsrc; cases hsrc
      · exact h0
    refine cinv_of_reaches (run_g0 (st.gen - 1) st stk _ _ (by simpa [Ph.onIn, hfirst] using hk)) ?_
    rw [hfirst, hs]
    refine ⟨by simpa [Ph.onIn] using hv, hlen, fun i hi => ?_, CMode.core ?_ (((SOK.nil _).cons_tail _).cons_tail _)⟩
    · have hi' : i ≠ st.gen - 1 := by simp at hi; omega
      simp [Ph.onIn, hi']; exact hidle i hi
    · refine ⟨fun k' => ?_, fun k' => ?_, by simp [hsinks], fun _ => by simp [Ph.onIn], fun i hi => ?_, fun i => ?_⟩
      · by_cases hk' : k' = k
        · simp [hk', hsinks]
        · simp [hk', hsinks, Ph.onIn]; exact (hoth k' hk').1
      · by_cases hk' : k' = k
        · simp [hk']
        · simp [hk', Ph.onIn]; exact (hoth k' hk').2
      · refine ⟨?_, by simp [hsinks]⟩
        by_cases hi' : i = st.gen - 1
        · exact hi'
        · simp [Ph.onIn, hi'] at hi; exact absurd hi (hoths i hi').1
      · by_cases hi' : i = st.gen - 1
        · simp [Ph.onIn, hi']
        · simp [Ph.onIn, hi']; exact (hoths i hi').2
  · exact absurd hsub (ht.nosrc i).2
  · exact absurd hsub (ht.nosrc i).2

/-- an upstream that is live: the mode is `core` -/
theorem src_live_core {st : St} {stk : List (Fr α)} {ph : Ph} {i : Nat}
    (hm : CMode st ph stk) (hlive : ph.srcPh i = .live) : Core st ph ∧ SOK ph stk := by
  rcases hm with ⟨hcore, hs⟩ | ⟨k, _, _, _, _, _, hsrc, hoths⟩ | ⟨s, d, r, rest, _, _, _, ht⟩ | ⟨j, s, d, r, rest, _, _, _, ht⟩
  · exact ⟨hcore, hs⟩
  · by_cases hi : i = st.gen - 1
    · subst hi; rw [hsrc] at hlive; cases hlive
    · exact absurd hlive (hoths i hi).1
  · exact absurd hlive (ht.nosrc i).1
  · exact absurd hlive (ht.nosrc i).1

/-- upstream data, at top level or NESTED inside an open fan-out: one more data fan-out frame -/
theorem step_down_data {st : St} {stk : List (Fr α)} {g : G} {tr : List (Ev α α)} {c : Ctx α} {i : Nat} {a : α}
    (hI : CInv' st stk g.ph) (hl : legalIn (machine α).shape g.ph c (In.srcDown i (.data a) : In α) = true) :
    ∃ n, CInv (advance (machine α) n
      ⟨st, .run (.f0 (.data a)) :: stk, g.onIn stk.length (In.srcDown i (.data a) : In α), .inp (.srcDown i (.data a)) :: tr, none⟩) := by
  obtain ⟨hv, hlen, hidle, hm⟩ := hI
  simp only [legalIn, Bool.and_eq_true, beq_iff_eq] at hl
  obtain ⟨hlive, _⟩ := hl
  obtain ⟨hcore, hs⟩ := src_live_core hm hlive
  obtain ⟨_, hne⟩ := hcore.live i hlive
  obtain ⟨s0, r, hsr⟩ := List.exists_cons_of_ne_nil hne
  have hgr : ∀ x ∈ st.sinks, Greeted g.ph x := fun x hx => Or.inl ((hcore.mem x).1 hx)
  refine cinv_of_reaches (run_f0_cons s0 r (.data a) st stk _ _ hsr) ?_
  have hph : (g.onIn stk.length (In.srcDown i (.data a) : In α)).ph = g.ph := by simp [Ph.onIn]
  rw [hph]
  refine ⟨down_viols _ _ _ (hgr s0 (by simp [hsr])) hv, hlen, fun j hj => by rw [down_srcPh]; exact hidle j hj,
    CMode.core (core_congr hcore (down_data_sinkPh _ _ _) (down_srcPh _ _ _)) ?_⟩
  exact (hs.cons_fan s0 a r (fun x hx => hgr x (by simp [hsr, hx]))).mono (fun x hx => down_greeted _ _ _ x hx)

/-- upstream terminal (at top level or nested inside an open DATA fan-out): terminal fan-out on top -/
theorem step_down_end {st : St} {stk : List (Fr α)} {g g1 : G} {tr : List (Ev α α)} {i : Nat} {d : Down α}
    (hI : CInv' st stk g.ph) (hlive : g.ph.srcPh i = .live) (hd : isEndD d = true)
    (hg1 : g1.ph = g.ph.setSrc i .ended) :
    ∃ n, CInv (advance (machine α) n ⟨st, .run (.f0 d) :: stk, g1, tr, none⟩) := by
  obtain ⟨hv, hlen, hidle, hm⟩ := hI
  obtain ⟨hcore, hs⟩ := src_live_core hm hlive
  obtain ⟨hi, hne⟩ := hcore.live i hlive
  obtain ⟨_, hslot⟩ := hcore.up hne
  obtain ⟨s0, r, hsr⟩ := List.exists_cons_of_ne_nil hne
  have hgr : ∀ x ∈ st.sinks, Greeted (g.ph.setSrc i .ended) x := fun x hx => Or.inl ((hcore.mem x).1 hx)
  refine cinv_of_reaches (run_f0_cons s0 r d st stk g1 tr hsr) ?_
  rw [hg1]
  refine ⟨down_viols _ _ _ (hgr s0 (by simp [hsr])) (by simpa using hv), hlen, fun i' hi' => ?_,
    CMode.tfan s0 d r stk rfl hd ?_ ⟨fun x hx => down_greeted _ _ _ x (hgr x (by simp [hsr, hx])),
      fun k hk => ?_, fun k => down_nosub _ _ _ (fun k' => by simpa using hcore.nosub k') k, fun i' => ?_, ?_, ?_⟩⟩
  · have : i' ≠ i := by rintro rfl; rw [hidle _ hi'] at hlive; cases hlive
    rw [down_srcPh]; simp [this]; exact hidle i' hi'
  · exact hs.mono (fun x hx => down_greeted _ _ _ x (hx.congr rfl))
  · have hk0 : k ≠ s0 := by rintro rfl; exact down_end_self _ _ _ hd hk
    have := down_live_back _ _ _ _ hk
    have hmem : k ∈ st.sinks := (hcore.mem k).2 (by simpa using this)
    rw [hsr] at hmem
    simpa [hk0] using hmem
  · rw [down_srcPh]
    by_cases hi' : i' = i
    · simp [hi']
    · simp [hi']; exact ⟨fun h => hi' ((hcore.live i' h).1.trans hi.symm), hcore.nosrcsub i'⟩
  · exact ⟨i, by rw [hslot, hi], by rw [down_srcPh]; simp⟩
  · exact ⟨s0, by simp [hsr], down_end_self _ _ _ hd⟩

theorem step_ret {st : St} {stk : List (Fr α)} {g : G} {tr : List (Ev α α)} {o : Out α} {l : Loc α}
    (hI : CInv' st (.wait o l :: stk) g.ph) (hl : legalRet (machine α).shape g.ph (.inCall o : Ctx α) = true) :
    ∃ n, CInv (advance (machine α) n ⟨st, .run l :: stk, g, .retE :: tr, none⟩) := by
  obtain ⟨hv, hlen, hidle, hm⟩ := hI
  rcases hm with ⟨hcore, hs⟩ | ⟨k, hs, _, _, _, _, hsrc, _⟩ | ⟨s, d, r, rest, hs, hd, hrest, ht⟩ | ⟨j, s, d, r, rest, hs, hd, hrest, ht⟩
  · have hrest : SOK g.ph stk := hs.tail
    rcases hs _ List.mem_cons_self with ⟨o', ho'⟩ | ⟨s0, a, r, he, hr⟩
    · simp at ho'; obtain ⟨rfl, rfl⟩ := ho'
      exact cinv_of_reaches (run_done st stk g _) ⟨hv, hlen, hidle, CMode.core hcore hrest⟩
    · simp at he; obtain ⟨rfl, rfl⟩ := he
      cases r with
      | nil => exact cinv_of_reaches (run_fLoop_nil_data a st stk g _) ⟨hv, hlen, hidle, CMode.core hcore hrest⟩
      | cons s1 r1 =>
        -- the next sink of the snapshot may be done by now (nested terminal / disposal, cross-sink disposal): a late delivery
        refine cinv_of_reaches (run_fLoop_cons s1 r1 (.data a) st stk g _)
          ⟨down_viols _ _ _ (hr s1 (by simp)) hv, hlen, fun j hj => by rw [down_srcPh]; exact hidle j hj,
            CMode.core (core_congr hcore (down_data_sinkPh _ _ _) (down_srcPh _ _ _)) ?_⟩
        exact (hrest.cons_fan s1 a r1 (fun x hx => hr x (by simp [hx]))).mono (fun x hx => down_greeted _ _ _ x hx)
  · simp at hs; obtain ⟨⟨rfl, rfl⟩, rfl⟩ := hs
    simp [legalRet, machine, hsrc] at hl
  · simp at hs; obtain ⟨⟨rfl, rfl⟩, rfl⟩ := hs
    cases r with
    | nil =>
      refine cinv_of_reaches (run_fLoop_nil_end d hd st stk g _) ⟨hv, hlen, hidle, CMode.core ?_ hrest⟩
      exact ⟨fun k => ⟨fun h => (by cases h), fun h => ht.lives k h⟩, ht.nosub, List.nodup_nil, fun h => absurd rfl h,
        fun i hi => absurd hi (ht.nosrc i).1, fun i => (ht.nosrc i).2⟩
    | cons s1 r1 =>
      refine cinv_of_reaches (run_fLoop_cons s1 r1 d st stk g _)
        ⟨down_viols _ _ _ (ht.greeted s1 (by simp)) hv, hlen, fun j hj => by rw [down_srcPh]; exact hidle j hj,
          CMode.tfan s1 d r1 stk rfl hd (hrest.mono (fun x hx => down_greeted _ _ _ x hx)) (ht.next hd)⟩
  · simp at hs; obtain ⟨⟨rfl, rfl⟩, rfl⟩ := hs
    exact cinv_of_reaches (run_done st _ g _) ⟨hv, hlen, hidle, CMode.tfan s d r rest rfl hd hrest ht⟩

theorem inv_step (s s' : Cfg α) (m : Move α) (h : CInv s) (hs : EnvStepCS (machine α) m s s') :
    ∃ n, CInv (advance (machine α) n s') := by
  obtain ⟨hp, hI⟩ := h
  cases hs with
  | @call st stk g tr c i hc hl =>
    simp only at hI
    cases i with
    | subscribe k => exact step_subscribe hI hc (by simpa [legalInCS, crossSink] using hl)
    | sinkUp k u =>
      have hlc : g.ph.sinkPh k = .live ∧
          (isTop c = true ∨ inGreet k c = true ∨ inData k c = true ∨ inDelivery c = true) := by
        simp only [legalInCS, legalIn, crossSink, Bool.or_eq_true, Bool.and_eq_true, beq_iff_eq] at hl
        rcases hl with ⟨h1, (h2 | h2) | h2⟩ | ⟨⟨_, h1⟩, h2⟩
        · exact ⟨h1, Or.inl h2⟩
        · exact ⟨h1, Or.inr (Or.inl h2)⟩
        · exact ⟨h1, Or.inr (Or.inr (Or.inl h2))⟩
        · exact ⟨h1, Or.inr (Or.inr (Or.inr h2))⟩
      cases u with
      | pull => exact step_pull hI hc hlc.1 hlc.2
      | term => exact step_dispose_aux hI hc hlc.1 hlc.2 (by simp [Ph.onIn])
      | err e => exact step_dispose_aux hI hc hlc.1 hlc.2 (by simp [Ph.onIn])
    | srcGreet i => exact step_greet hI (c := c) (by simpa [legalInCS, crossSink] using hl)
    | srcDown i d =>
      have hl' : legalIn (machine α).shape g.ph c (In.srcDown i d : In α) = true := by simpa [legalInCS, crossSink] using hl
      cases d with
      | data a => exact step_down_data hI hl'
      | term =>
        simp only [legalIn, Bool.and_eq_true, beq_iff_eq] at hl'
        exact step_down_end hI hl'.1 rfl (by simp [Ph.onIn])
      | err e =>
        simp only [legalIn, Bool.and_eq_true, beq_iff_eq] at hl'
        exact step_down_end hI hl'.1 rfl (by simp [Ph.onIn])
  | @ret st stk g tr o l hl => exact step_ret hI hl

theorem P_mono (s s' : Cfg α) (h : opStep (machine α) s = some s') (hs : P s') : P s := by
  obtain ⟨⟨l, hl⟩, _, hp⟩ := opStep_viols_suffix (machine α) s s' h
  refine ⟨fun v hv => hs.1 v ?_, hp hs.2⟩
  rw [hl]; exact List.mem_append_right _ hv

/-- share, any number of sinks, every CROSS-SINK environment: the phase-level part.  The only phase-level violations are late
deliveries (`afterTerm`: KF5a; `afterDispose`: KF5b, KF5c) and messages to the upstream that has just ended (KF5d); no panic. -/
theorem share_basic_cs {α : Type} :
    ∀ s, CSReach (machine α) s → OnlyKnown s.g.ph.viols ∧ s.panicked = none :=
  cs_reach_of_macro_inv (machine α) anyEnv P CInv inv_init inv_turn
    (fun s s' m hi he _ => inv_step s s' m hi he) P_mono

/-! ## the second ghost layer

Same layering as `Inv/ShareFull.lean`: the phase-level invariant of the configuration a macro-step ends in comes from `inv_step`
(environment turns are fixpoints of `advance`), and only `xviols`, `pend`, `fin` are tracked here, through operational lemmas that
expose the whole ghost.

`X`: nothing recorded in the second layer, and either nothing is pending, or the frame of an `Error(e)` fan-out is open (on top of
the stack, or right below the frame of a stray `Pull`), `pend = some (e, height of that frame, ks)`, and every `k ∈ ks` has received
`Error(e)`, or has disposed by itself (cross-sink), or is still live and among the sinks the loop has yet to serve.  When the loop is
done the check made by its `ret` passes: the filter of `checkPend` skips the sinks that detached by themselves, and no upstream is
live.  The returns in between (from the handler of a cross-sink call) are at a greater height and check nothing. -/

def PendOK (g : G) (e : Nat) (r ks : List Nat) : Prop :=
  ∀ k ∈ ks, g.finOf k = some (Fin.err e) ∨ g.ph.sinkPh k = .doneBySelf ∨ (g.ph.sinkPh k = .live ∧ k ∈ r)

/-- an `Error(e)` fan-out frame on top of `stk`, with its pending check -/
def XP (stk : List (Fr α)) (g : G) : Prop :=
  ∃ s e r rest ks, stk = .wait (.down s (.err e)) (.fLoop r (.err e)) :: rest ∧ g.pend = some (e, rest.length, ks) ∧ PendOK g e r ks

def X (stk : List (Fr α)) (g : G) : Prop :=
  g.xviols = [] ∧ (g.pend = none ∨ XP stk g ∨ ∃ j stk', stk = .wait (.srcUp j .pull) .done :: stk' ∧ XP stk' g)

def FInv (s : Cfg α) : Prop := CInv s ∧ X s.stack s.g

theorem X.mk_none {stk : List (Fr α)} {g : G} (h1 : g.xviols = []) (h2 : g.pend = none) : X stk g := ⟨h1, Or.inl h2⟩

theorem XP.congr {stk : List (Fr α)} {g g' : G} (h : XP stk g) (hp : g'.pend = g.pend) (hf : g'.fin = g.fin)
    (hs : ∀ k, g'.ph.sinkPh k = g.ph.sinkPh k) : XP stk g' := by
  obtain ⟨s, e, r, rest, ks, h1, h2, h3⟩ := h
  refine ⟨s, e, r, rest, ks, h1, hp.trans h2, fun k hk => ?_⟩
  unfold G.finOf; rw [hf, hs]; exact h3 k hk

theorem X.pend_none_of {stk : List (Fr α)} {g : G} (hX : X stk g)
    (h1 : ∀ s e r rest, stk ≠ .wait (.down s (.err e)) (.fLoop r (.err e)) :: rest)
    (h2 : ∀ j s e r rest, stk ≠ .wait (.srcUp j .pull) .done :: .wait (.down s (.err e)) (.fLoop r (.err e)) :: rest) :
    g.pend = none := by
  rcases hX.2 with h | ⟨s, e, r, rest, ks, h, _⟩ | ⟨j, stk', h, s, e, r, rest, ks, h', _⟩
  · exact h
  · exact absurd h (h1 s e r rest)
  · subst h'; exact absurd h (h2 j s e r rest)

theorem sok_not_tfan {g : Ph} {s : Nat} {d : Down α} {r : List Nat} {rest : List (Fr α)} (hd : isEndD d = true)
    (hs : SOK g (.wait (.down s d) (.fLoop r d) :: rest)) : False := by
  rcases hs _ List.mem_cons_self with ⟨o, ho⟩ | ⟨s0, a, r0, he, _⟩
  · simp at ho
  · simp at he; obtain ⟨⟨_, rfl⟩, _⟩ := he; simp [isEndD] at hd

theorem X.pend_none_sok {stk : List (Fr α)} {g : G} {ph : Ph} (hX : X stk g) (hs : SOK ph stk) : g.pend = none :=
  hX.pend_none_of (by rintro s e r rest rfl; exact sok_not_tfan rfl hs)
    (by rintro j s e r rest rfl; exact sok_not_tfan rfl hs.tail)

theorem noOrphan_of_cmode {st : St} {ph : Ph} {stk : List (Fr α)} (hm : CMode st ph stk) : NoOrphan ph := by
  rcases hm with ⟨hcore, _⟩ | ⟨k, _, _, _, hk, _⟩ | ⟨s, d, r, rest, _, _, _, ht⟩ | ⟨j, s, d, r, rest, _, _, _, ht⟩
  · exact ShareFull.noOrphan_of_core hcore
  · exact noOrphan_of_open k (Or.inl hk)
  · exact noOrphan_of_noLive (fun i => (ht.nosrc i).1)
  · exact noOrphan_of_noLive (fun i => (ht.nosrc i).1)

/-- a return with nothing pending -/
theorem X.ret {stk : List (Fr α)} {g : G} (h1 : g.xviols = []) (h2 : g.pend = none) (h3 : NoOrphan g.ph) (h : Nat) :
    X stk (g.onRetO h) := by
  obtain ⟨a, b⟩ := ShareFull.ret_clean (ShareFull.xok_of_noPend h1 h2 h3) h (by intro e h' ks hp; rw [h2] at hp; cases hp)
  exact X.mk_none a b

/-- a return at a height that is neither the top level nor the height of the pending check: nothing is checked -/
theorem onRetO_inner (g : G) (h : Nat) (hh : h ≠ 0) (hp : ∀ e h' ks, g.pend = some (e, h', ks) → h' ≠ h) :
    (g.onRetO h).xviols = g.xviols ∧ (g.onRetO h).pend = g.pend ∧ (g.onRetO h).fin = g.fin := by
  obtain ⟨h1, h2, h3, h4, _⟩ := clearSinkErr_fields g h
  have hc : (g.clearSinkErr h).checkPend h = g.clearSinkErr h := by
    unfold G.checkPend
    split
    · rename_i e h' ks hq
      rw [h3] at hq
      have := hp e h' ks hq
      simp [this]
    · rfl
  have ho : ∀ g' : G, g'.checkOrphans h = g' := by
    intro g'; unfold G.checkOrphans; simp [hh]
  unfold G.onRetO
  rw [hc, ho]
  exact ⟨h4, h3, h2⟩

/-- the return of the handler of an upstream `Error(e)`: the pending check passes -/
theorem ret_pend_clean {g : G} {e h : Nat} {ks : List Nat} (hx : g.xviols = []) (hp : g.pend = some (e, h, ks))
    (hk : ∀ k ∈ ks, g.finOf k = some (Fin.err e) ∨ g.ph.sinkPh k = .doneBySelf) (hl : ∀ i, g.ph.srcPh i ≠ .live) :
    (g.onRetO h).xviols = [] ∧ (g.onRetO h).pend = none := by
  obtain ⟨h1, h2, h3, h4, _⟩ := clearSinkErr_fields g h
  have hf : (ks.filter (fun k => (g.clearSinkErr h).finOf k != some (Fin.err e) &&
      (g.clearSinkErr h).ph.sinkPh k != SinkPh.doneBySelf)) = [] := by
    apply List.filter_eq_nil_iff.2
    intro k hk'
    have := hk k hk'
    unfold G.finOf at this ⊢
    rw [h2, h1]
    rcases this with h | h <;> simp [h]
  have hc : (g.clearSinkErr h).checkPend h = { (g.clearSinkErr h) with pend := none } := by
    unfold G.checkPend
    split
    · rename_i e' h' ks' hq
      rw [h3, hp] at hq
      cases hq
      simp only [beq_self_eq_true, ↓reduceIte]
      rw [hf, liveSrcs_eq_nil (by rw [h1]; exact hl)]
      rfl
    · rename_i hq
      rw [h3, hp] at hq; cases hq
  have ho : ∀ g' : G, (∀ i, g'.ph.srcPh i ≠ .live) → g'.checkOrphans h = g' := by
    intro g' hl'; unfold G.checkOrphans
    split
    · rw [liveSrcs_eq_nil hl']; rfl
    · rfl
  unfold G.onRetO
  rw [hc, ho _ (by simpa [h1] using hl)]
  exact ⟨h4.trans hx, rfl⟩

/-! ### operational lemmas exposing the whole ghost, for deliveries to sinks of unknown phase -/

theorem run_fLoop_consG (s : Nat) (r : List Nat) (d : Down α) (st : St) (stk : List (Fr α)) (g : G) (tr : List (Ev α α)) :
    ShareFull.ReachesG ⟨st, .run (.fLoop (s :: r) d) :: stk, g, tr, none⟩
      st (.wait (.down s d) (.fLoop r d) :: stk) (g.onOut (machine α).shape (.down s d)) :=
  ⟨1, .out (.down s d) :: tr, by simp [advance, opStep, machine, step]⟩

theorem run_f0_consG (s : Nat) (r : List Nat) (d : Down α) (st : St) (stk : List (Fr α)) (g : G) (tr : List (Ev α α))
    (hs : st.sinks = s :: r) :
    ShareFull.ReachesG ⟨st, .run (.f0 d) :: stk, g, tr, none⟩
      st (.wait (.down s d) (.fLoop r d) :: stk) (g.onOut (machine α).shape (.down s d)) :=
  ⟨2, .out (.down s d) :: tr, by simp [advance, opStep, machine, step, hs]⟩

theorem run_p0_anyG (i : Nat) (st : St) (stk : List (Fr α)) (g : G) (tr : List (Ev α α)) (hs : st.slot = some i) :
    ShareFull.ReachesG ⟨st, .run .p0 :: stk, g, tr, none⟩ st (.wait (.srcUp i .pull) .done :: stk)
      { g with ph := g.ph.onOut (.srcUp i .pull : Out α) } :=
  ⟨1, .out (.srcUp i .pull) :: tr, by simp [advance, opStep, machine, step, hs]⟩

theorem full_of {s' : Cfg α} {st : St} {stk : List (Fr α)} {g : G}
    (hb : ∃ n, CInv (advance (machine α) n s')) (hr : ShareFull.ReachesG s' st stk g) (ht : (ctxOf stk).isSome)
    (hx : CInv' st stk g.ph → X stk g) : ∃ n, FInv (advance (machine α) n s') := by
  obtain ⟨n1, h1⟩ := hb
  obtain ⟨n2, tr, h2⟩ := hr
  have e1 : EnvTurn (advance (machine α) n1 s') := (inv_turn _ h1).1
  have e2 : EnvTurn (advance (machine α) n2 s') := by rw [h2]; exact ⟨rfl, ht⟩
  rw [advance_envTurn_unique (machine α) s' n1 n2 e1 e2, h2] at h1
  refine ⟨n2, ?_⟩
  rw [h2]
  exact ⟨h1, hx h1.2⟩

/-- a delivery to a sink never touches `xviols` or `pend` -/
theorem onOut_down_fields (g : G) (s : Nat) (d : Down α) :
    (g.onOut (machine α).shape (.down s d)).xviols = g.xviols ∧ (g.onOut (machine α).shape (.down s d)).pend = g.pend := by
  unfold G.onOut
  simp only
  split
  · split <;> exact ⟨rfl, rfl⟩
  · exact ⟨rfl, rfl⟩

/-- the error fan-out serves the next sink of its snapshot -/
theorem pendOK_down {g : G} {e s1 : Nat} {r1 ks : List Nat} (hP : PendOK g e (s1 :: r1) ks) :
    PendOK (g.onOut (machine α).shape (.down s1 (.err e) : Out α)) e r1 ks := by
  intro k hk
  by_cases hl : g.ph.sinkPh s1 = .live
  · rw [onOut_downErr]
    simp only [hl, ↓reduceIte]
    by_cases hk1 : k = s1
    · left; simp [hk1, G.finOf, phAt_setAt]
    · have hph : (g.ph.onOut (.down s1 (.err e) : Out α)).sinkPh k = g.ph.sinkPh k := down_sinkPh_ne _ _ _ _ hk1
      rcases hP k hk with h | h | ⟨h, hm⟩
      · left; simpa [hk1, G.finOf, phAt_setAt] using h
      · right; left; simpa [hph] using h
      · right; right; exact ⟨by simpa [hph] using h, by simpa [hk1] using hm⟩
  · rw [onOut_downErr]
    simp only [hl, ↓reduceIte]
    have hph : ∀ k', (g.ph.onOut (.down s1 (.err e) : Out α)).sinkPh k' = g.ph.sinkPh k' := by
      intro k'
      simp only [Ph.onOut]
      split
      · rename_i h'; exact absurd h' hl
      all_goals rfl
    rcases hP k hk with h | h | ⟨h, hm⟩
    · left; exact h
    · right; left; simpa [hph] using h
    · right; right
      have hk1 : k ≠ s1 := fun hks => hl (hks ▸ h)
      exact ⟨by simpa [hph] using h, by simpa [hk1] using hm⟩

/-! ### the environment moves -/

theorem finv_init : FInv (Sys.init (machine α)) := ⟨inv_init, X.mk_none rfl rfl⟩

/-- the sticky property, both layers -/
def PF (s : Cfg α) : Prop := OnlyKnown s.g.ph.viols ∧ s.g.xviols = [] ∧ s.panicked = none

theorem finv_turn (s : Cfg α) (h : FInv s) : EnvTurn s ∧ PF s := by
  obtain ⟨hb, hX⟩ := h
  obtain ⟨ht, hv, hp⟩ := inv_turn s hb
  exact ⟨ht, hv, hX.1, hp⟩

theorem fstep_subscribe {st : St} {stk : List (Fr α)} {g : G} {tr : List (Ev α α)} {c : Ctx α} {k : Nat}
    (hI : CInv' st stk g.ph) (hX : X stk g) (hc : ctxOf stk = some c)
    (hl : legalIn (machine α).shape g.ph c (In.subscribe k : In α) = true)
    (hb : ∃ n, CInv (advance (machine α) n
      ⟨st, .run (enter (In.subscribe k : In α)) :: stk, g.onIn stk.length (In.subscribe k : In α), .inp (.subscribe k) :: tr, none⟩)) :
    ∃ n, FInv (advance (machine α) n
      ⟨st, .run (enter (In.subscribe k : In α)) :: stk, g.onIn stk.length (In.subscribe k : In α), .inp (.subscribe k) :: tr, none⟩) := by
  obtain ⟨hv, hlen, hidle, hm⟩ := hI
  simp only [legalIn, Bool.and_eq_true, beq_iff_eq, machine, Bool.or_true] at hl
  obtain ⟨⟨htop, hki⟩, _⟩ := hl
  have := stk_nil_of_top hc htop; subst this
  have hpn : g.pend = none := hX.pend_none_of (by intro s e r rest h; cases h) (by intro j s e r rest h; cases h)
  rcases hm with ⟨hcore, hs⟩ | ⟨k0, hs, _⟩ | ⟨s, d, r, rest, hs, _⟩ | ⟨j, s, d, r, rest, hs, _⟩
  · by_cases he : st.sinks = []
    · exact full_of hb (ShareFull.run_sub_first k st [] _ _ he (by simpa [Ph.onIn] using hidle _ (Nat.le_refl _))
        ((Ph.anySinkOpen_iff _).2 ⟨k, by simp [Ph.onIn]⟩)) (by simp [ctxOf]) (fun _ => X.mk_none hX.1 hpn)
    · exact full_of hb (ShareFull.run_sub_more k st [] _ _ he (by simp [Ph.onIn])) (by simp [ctxOf]) (fun _ => X.mk_none hX.1 hpn)
  · simp at hs
  · simp at hs
  · simp at hs

theorem fstep_pull {st : St} {stk : List (Fr α)} {g : G} {tr : List (Ev α α)} {c : Ctx α} {k : Nat}
    (hI : CInv' st stk g.ph) (hX : X stk g) (hc : ctxOf stk = some c) (hlive : g.ph.sinkPh k = .live)
    (hctx : isTop c = true ∨ inGreet k c = true ∨ inData k c = true ∨ inDelivery c = true)
    (hb : ∃ n, CInv (advance (machine α) n
      ⟨st, .run (enter (In.sinkUp k .pull : In α)) :: stk, g.onIn stk.length (In.sinkUp k .pull : In α), .inp (.sinkUp k .pull) :: tr, none⟩)) :
    ∃ n, FInv (advance (machine α) n
      ⟨st, .run (enter (In.sinkUp k .pull : In α)) :: stk, g.onIn stk.length (In.sinkUp k .pull : In α), .inp (.sinkUp k .pull) :: tr, none⟩) := by
  obtain ⟨hv, hlen, hidle, hm⟩ := hI
  rcases sink_cases hm hc hlive hctx with ⟨hcore, hs⟩ | ⟨s, d, r, rest, hs, hd, hrest, ht⟩
  · have hne : st.sinks ≠ [] := List.ne_nil_of_mem ((hcore.mem k).2 hlive)
    obtain ⟨hup, hslot⟩ := hcore.up hne
    exact full_of hb (ShareFull.run_p0 (st.gen - 1) st stk _ _ hslot (by simpa [Ph.onIn] using hup)) (by simp [ctxOf])
      (fun _ => X.mk_none hX.1 (hX.pend_none_sok hs))
  · obtain ⟨j, hslot, hj⟩ := ht.slot
    refine full_of hb (run_p0_anyG j st stk _ _ hslot) (by simp [ctxOf]) (fun _ => ?_)
    refine ⟨hX.1, ?_⟩
    rcases hX.2 with h | h | ⟨j', stk', h, _⟩
    · exact Or.inl h
    · exact Or.inr (Or.inr ⟨j, stk, rfl, h.congr rfl rfl (fun k' => by simp [Ph.onIn, pull_ended_eq _ _ hj])⟩)
    · rw [hs] at h; simp at h

/-- sink `k` disposes: for any ghost that differs from the one before the call in the phases and `sinkErr` only -/
theorem fstep_dispose_aux {st : St} {stk : List (Fr α)} {g g1 : G} {tr : List (Ev α α)} {c : Ctx α} {k : Nat}
    (hI : CInv' st stk g.ph) (hX : X stk g) (hc : ctxOf stk = some c) (hlive : g.ph.sinkPh k = .live)
    (hctx : isTop c = true ∨ inGreet k c = true ∨ inData k c = true ∨ inDelivery c = true)
    (hg1 : g1.ph = g.ph.setSink k .doneBySelf) (hg1x : g1.xviols = g.xviols) (hg1p : g1.pend = g.pend) (hg1f : g1.fin = g.fin)
    (hb : ∃ n, CInv (advance (machine α) n ⟨st, .run (.x0 k) :: stk, g1, tr, none⟩)) :
    ∃ n, FInv (advance (machine α) n ⟨st, .run (.x0 k) :: stk, g1, tr, none⟩) := by
  obtain ⟨hv, hlen, hidle, hm⟩ := hI
  have hx1 : g1.xviols = [] := hg1x.trans hX.1
  rcases sink_cases hm hc hlive hctx with ⟨hcore, hs⟩ | ⟨s, d, r, rest, hs, hd, hrest, ht⟩
  · have hk : k ∈ st.sinks := (hcore.mem k).2 hlive
    have hne : st.sinks ≠ [] := List.ne_nil_of_mem hk
    obtain ⟨hup, hslot⟩ := hcore.up hne
    have hp1 : g1.pend = none := hg1p.trans (hX.pend_none_sok hs)
    by_cases he : st.sinks.erase k = []
    · exact full_of hb (ShareFull.run_x0_last k (st.gen - 1) st stk g1 tr he hslot (by simpa [hg1] using hup)) (by simp [ctxOf])
        (fun _ => X.mk_none hx1 hp1)
    · refine full_of hb (ShareFull.run_x0_some k st stk g1 tr he) (by rw [hc]; rfl) (fun hI' => ?_)
      have hm' := hI'.2.2.2
      rw [onRetO_ph] at hm'
      exact X.ret hx1 hp1 (noOrphan_of_cmode hm') _
  · obtain ⟨x, hx, hxl⟩ := ht.keep
    have hxk : x ≠ k := by rintro rfl; exact hxl hlive
    have he : st.sinks.erase k ≠ [] := List.ne_nil_of_mem ((List.mem_erase_of_ne hxk).2 hx)
    refine full_of hb (ShareFull.run_x0_some k st stk g1 tr he) (by rw [hc]; rfl) (fun _ => ?_)
    subst hs
    have hin := onRetO_inner g1 (List.length (Frame.wait (Out.down s d) (Loc.fLoop r d) :: rest)) (by simp) (by
      intro e h' ks hq
      rw [hg1p] at hq
      rcases hX.2 with h | ⟨s', e', r', rest', ks', h, h2, _⟩ | ⟨j', stk', h, _⟩
      · rw [h] at hq; cases hq
      · simp at h; obtain ⟨_, rfl⟩ := h
        rw [h2] at hq; cases hq; simp
      · simp at h)
    obtain ⟨h1, h2, h3⟩ := hin
    refine ⟨h1.trans hx1, ?_⟩
    rcases hX.2 with h | ⟨s', e', r', rest', ks', h, h4, h5⟩ | ⟨j', stk', h, _⟩
    · exact Or.inl (h2.trans (hg1p.trans h))
    · refine Or.inr (Or.inl ⟨s', e', r', rest', ks', h, h2.trans (hg1p.trans h4), fun k' hk' => ?_⟩)
      unfold G.finOf
      rw [h3, hg1f, onRetO_ph, hg1]
      by_cases hkk : k' = k
      · right; left; simp [hkk]
      · simpa [hkk, G.finOf] using h5 k' hk'
    · simp at h

theorem fstep_greet {st : St} {stk : List (Fr α)} {g : G} {tr : List (Ev α α)} {c : Ctx α} {i : Nat}
    (hI : CInv' st stk g.ph) (hX : X stk g) (hl : legalIn (machine α).shape g.ph c (In.srcGreet i : In α) = true)
    (hb : ∃ n, CInv (advance (machine α) n
      ⟨st, .run (.g0 i) :: stk, g.onIn stk.length (In.srcGreet i : In α), .inp (.srcGreet i) :: tr, none⟩)) :
    ∃ n, FInv (advance (machine α) n
      ⟨st, .run (.g0 i) :: stk, g.onIn stk.length (In.srcGreet i : In α), .inp (.srcGreet i) :: tr, none⟩) := by
  obtain ⟨hv, hlen, hidle, hm⟩ := hI
  simp only [legalIn, Bool.and_eq_true, beq_iff_eq] at hl
  obtain ⟨hsub, _⟩ := hl
  rcases hm with ⟨hcore, _⟩ | ⟨k, hs, hsinks, hfirst, hk, hoth, hsrc, hoths⟩ | ⟨s, d, r, rest, _, _, _, ht⟩ | ⟨j, s, d, r, rest, _, _, _, ht⟩
  · exact absurd hsub (hcore.nosrcsub i)
  · have hi : i = st.gen - 1 := by
      by_cases hi : i = st.gen - 1
      · exact hi
      · exact absurd hsub (hoths i hi).2
    subst hi
    have hpn : g.pend = none := hX.pend_none_of (by intro s e r rest h; rw [hs] at h; simp at h)
      (by intro j s e r rest h; rw [hs] at h; simp at h)
    exact full_of hb (ShareFull.run_g0 (st.gen - 1) st stk _ _ (by simpa [Ph.onIn, hfirst] using hk)) (by simp [ctxOf])
      (fun _ => X.mk_none hX.1 hpn)
  · exact absurd hsub (ht.nosrc i).2
  · exact absurd hsub (ht.nosrc i).2

theorem fstep_down_data {st : St} {stk : List (Fr α)} {g : G} {tr : List (Ev α α)} {c : Ctx α} {i : Nat} {a : α}
    (hI : CInv' st stk g.ph) (hX : X stk g) (hl : legalIn (machine α).shape g.ph c (In.srcDown i (.data a) : In α) = true)
    (hb : ∃ n, CInv (advance (machine α) n
      ⟨st, .run (.f0 (.data a)) :: stk, g.onIn stk.length (In.srcDown i (.data a) : In α), .inp (.srcDown i (.data a)) :: tr, none⟩)) :
    ∃ n, FInv (advance (machine α) n
      ⟨st, .run (.f0 (.data a)) :: stk, g.onIn stk.length (In.srcDown i (.data a) : In α), .inp (.srcDown i (.data a)) :: tr, none⟩) := by
  obtain ⟨hv, hlen, hidle, hm⟩ := hI
  simp only [legalIn, Bool.and_eq_true, beq_iff_eq] at hl
  obtain ⟨hlive, _⟩ := hl
  obtain ⟨hcore, hs⟩ := src_live_core hm hlive
  obtain ⟨_, hne⟩ := hcore.live i hlive
  obtain ⟨s0, r, hsr⟩ := List.exists_cons_of_ne_nil hne
  refine full_of hb (run_f0_consG s0 r (.data a) st stk _ _ hsr) (by simp [ctxOf]) (fun _ => ?_)
  obtain ⟨h1, h2⟩ := onOut_down_fields (g.onIn stk.length (In.srcDown i (.data a) : In α)) s0 (.data a)
  exact X.mk_none (h1.trans hX.1) (h2.trans (hX.pend_none_sok hs))

/-- the upstream ends with `Terminate` or `Error(e)`: the first sink (live) is served in the same macro-step -/
theorem fstep_down_end {st : St} {stk : List (Fr α)} {g : G} {tr : List (Ev α α)} {i : Nat} {d : Down α}
    (hI : CInv' st stk g.ph) (hX : X stk g) (hlive : g.ph.srcPh i = .live) (hd : isEndD d = true)
    (hb : ∃ n, CInv (advance (machine α) n
      ⟨st, .run (.f0 d) :: stk, g.onIn stk.length (In.srcDown i d : In α), .inp (.srcDown i d) :: tr, none⟩)) :
    ∃ n, FInv (advance (machine α) n
      ⟨st, .run (.f0 d) :: stk, g.onIn stk.length (In.srcDown i d : In α), .inp (.srcDown i d) :: tr, none⟩) := by
  obtain ⟨hv, hlen, hidle, hm⟩ := hI
  obtain ⟨hcore, hs⟩ := src_live_core hm hlive
  have hpn := hX.pend_none_sok hs
  obtain ⟨hi, hne⟩ := hcore.live i hlive
  obtain ⟨s0, r, hsr⟩ := List.exists_cons_of_ne_nil hne
  have hs0 : g.ph.sinkPh s0 = .live := (hcore.mem s0).1 (by simp [hsr])
  cases d with
  | data a => simp [isEndD] at hd
  | term =>
    exact full_of hb (ShareFull.run_f0_end s0 r .term rfl st stk _ _ hsr (by simpa [Ph.onIn] using hs0)) (by simp [ctxOf])
      (fun _ => X.mk_none hX.1 hpn)
  | err e =>
    have hlv : (livesOf g.ph).isEmpty = false := by
      cases hl : livesOf g.ph with
      | nil => exact absurd hl (livesOf_ne_nil s0 hs0)
      | cons _ _ => rfl
    have hg1 : g.onIn stk.length (In.srcDown i (.err e) : In α) =
        { g with ph := g.ph.setSrc i .ended, pend := some (e, stk.length, livesOf g.ph) } := by
      rw [onIn_srcErr]; simp [hpn, hlv, Ph.onIn]
    rw [hg1] at hb ⊢
    refine full_of hb (ShareFull.run_f0_end s0 r (.err e) rfl st stk _ _ hsr (by simpa using hs0)) (by simp [ctxOf]) (fun _ => ?_)
    refine ⟨hX.1, Or.inr (Or.inl ⟨s0, e, r, stk, livesOf g.ph, rfl, rfl, fun k hk => ?_⟩)⟩
    have hkl0 : g.ph.sinkPh k = .live := (mem_livesOf g.ph k).1 hk
    have hkl : k ∈ st.sinks := (hcore.mem k).2 hkl0
    rw [hsr] at hkl
    by_cases hk0 : k = s0
    · left; simp [hk0, finOfDown, G.finOf, phAt_setAt]
    · right; right
      exact ⟨by simpa [hk0] using hkl0, by simpa [hk0] using hkl⟩

theorem fstep_ret {st : St} {stk : List (Fr α)} {g : G} {tr : List (Ev α α)} {o : Out α} {l : Loc α}
    (hI : CInv' st (.wait o l :: stk) g.ph) (hX : X (.wait o l :: stk) g)
    (hl : legalRet (machine α).shape g.ph (.inCall o : Ctx α) = true)
    (hb : ∃ n, CInv (advance (machine α) n ⟨st, .run l :: stk, g, .retE :: tr, none⟩)) :
    ∃ n, FInv (advance (machine α) n ⟨st, .run l :: stk, g, .retE :: tr, none⟩) := by
  obtain ⟨hv, hlen, hidle, hm⟩ := hI
  have hno := noOrphan_of_cmode hm
  rcases hm with ⟨hcore, hs⟩ | ⟨k, hs, _, _, _, _, hsrc, _⟩ | ⟨s, d, r, rest, hs, hd, hrest, ht⟩ | ⟨j, s, d, r, rest, hs, hd, hrest, ht⟩
  · have hpn := hX.pend_none_sok hs
    have hrest : SOK g.ph stk := hs.tail
    rcases hs _ List.mem_cons_self with ⟨o', ho'⟩ | ⟨s0, a, r, he, hr⟩
    · simp at ho'; obtain ⟨rfl, rfl⟩ := ho'
      exact full_of hb (ShareFull.run_done st stk g _) (ctx_isSome_of_sok hrest) (fun _ => X.ret hX.1 hpn hno _)
    · simp at he; obtain ⟨rfl, rfl⟩ := he
      cases r with
      | nil =>
        exact full_of hb (ShareFull.run_fLoop_nil_data a st stk g _) (ctx_isSome_of_sok hrest) (fun _ => X.ret hX.1 hpn hno _)
      | cons s1 r1 =>
        refine full_of hb (run_fLoop_consG s1 r1 (.data a) st stk g _) (by simp [ctxOf]) (fun _ => ?_)
        obtain ⟨h1, h2⟩ := onOut_down_fields g s1 (.data a : Down α)
        exact X.mk_none (h1.trans hX.1) (h2.trans hpn)
  · simp at hs; obtain ⟨⟨rfl, rfl⟩, rfl⟩ := hs
    simp [legalRet, machine, hsrc] at hl
  · simp at hs; obtain ⟨⟨rfl, rfl⟩, rfl⟩ := hs
    cases r with
    | nil =>
      refine full_of hb (ShareFull.run_fLoop_nil_end d hd st stk g _) (ctx_isSome_of_sok hrest) (fun _ => ?_)
      rcases hX.2 with h | ⟨s', e', r', rest', ks', h, h4, h5⟩ | ⟨j', stk', h, _⟩
      · exact X.ret hX.1 h hno _
      · simp at h; obtain ⟨⟨_, rfl, _⟩, rfl⟩ := h
        obtain ⟨a, b⟩ := ret_pend_clean hX.1 h4 (fun k hk => by
          rcases h5 k hk with h | h | ⟨_, h⟩
          · exact Or.inl h
          · exact Or.inr h
          · cases h) (fun i => (ht.nosrc i).1)
        exact X.mk_none a b
      · simp at h
    | cons s1 r1 =>
      refine full_of hb (run_fLoop_consG s1 r1 d st stk g _) (by simp [ctxOf]) (fun _ => ?_)
      obtain ⟨h1, h2⟩ := onOut_down_fields g s1 d
      refine ⟨h1.trans hX.1, ?_⟩
      rcases hX.2 with h | ⟨s', e', r', rest', ks', h, h4, h5⟩ | ⟨j', stk', h, _⟩
      · exact Or.inl (h2.trans h)
      · simp at h; obtain ⟨⟨⟨_, rfl⟩, rfl, _⟩, rfl⟩ := h
        exact Or.inr (Or.inl ⟨s1, e', r1, stk, ks', rfl, h2.trans h4, pendOK_down h5⟩)
      · simp at h
  · simp at hs; obtain ⟨⟨rfl, rfl⟩, rfl⟩ := hs
    refine full_of hb (ShareFull.run_done st _ g _) (by simp [ctxOf]) (fun _ => ?_)
    obtain ⟨h1, h2, h3⟩ := onRetO_inner g (List.length (Frame.wait (Out.down s d) (Loc.fLoop r d) :: rest)) (by simp) (by
      intro e h' ks hq
      rcases hX.2 with h | ⟨s', e', r', rest', ks', h, _⟩ | ⟨j', stk', h, s', e', r', rest', ks', h', h4, _⟩
      · rw [h] at hq; cases hq
      · simp at h
      · simp at h; obtain ⟨_, rfl⟩ := h
        simp at h'; obtain ⟨_, rfl⟩ := h'
        rw [h4] at hq; cases hq; simp)
    refine ⟨h1.trans hX.1, ?_⟩
    rcases hX.2 with h | ⟨s', e', r', rest', ks', h, _⟩ | ⟨j', stk', h, hxp⟩
    · exact Or.inl (h2.trans h)
    · simp at h
    · simp at h; obtain ⟨_, rfl⟩ := h
      exact Or.inr (Or.inl (hxp.congr h2 h3 (fun k => by simp)))

theorem finv_step (s s' : Cfg α) (m : Move α) (h : FInv s) (hs : EnvStepCS (machine α) m s s') :
    ∃ n, FInv (advance (machine α) n s') := by
  obtain ⟨hbI, hX⟩ := h
  have hb := inv_step s s' m hbI hs
  obtain ⟨hp, hI⟩ := hbI
  cases hs with
  | @call st stk g tr c i hc hl =>
    simp only at hI hX
    cases i with
    | subscribe k => exact fstep_subscribe hI hX hc (by simpa [legalInCS, crossSink] using hl) hb
    | sinkUp k u =>
      have hlc : g.ph.sinkPh k = .live ∧
          (isTop c = true ∨ inGreet k c = true ∨ inData k c = true ∨ inDelivery c = true) := by
        simp only [legalInCS, legalIn, crossSink, Bool.or_eq_true, Bool.and_eq_true, beq_iff_eq] at hl
        rcases hl with ⟨h1, (h2 | h2) | h2⟩ | ⟨⟨_, h1⟩, h2⟩
        · exact ⟨h1, Or.inl h2⟩
        · exact ⟨h1, Or.inr (Or.inl h2)⟩
        · exact ⟨h1, Or.inr (Or.inr (Or.inl h2))⟩
        · exact ⟨h1, Or.inr (Or.inr (Or.inr h2))⟩
      cases u with
      | pull => exact fstep_pull hI hX hc hlc.1 hlc.2 hb
      | term => exact fstep_dispose_aux hI hX hc hlc.1 hlc.2 (by simp [Ph.onIn]) rfl rfl rfl hb
      | err e => exact fstep_dispose_aux hI hX hc hlc.1 hlc.2 (by simp [Ph.onIn]) rfl rfl rfl hb
    | srcGreet i => exact fstep_greet hI hX (c := c) (by simpa [legalInCS, crossSink] using hl) hb
    | srcDown i d =>
      have hl' : legalIn (machine α).shape g.ph c (In.srcDown i d : In α) = true := by simpa [legalInCS, crossSink] using hl
      cases d with
      | data a => exact fstep_down_data hI hX hl' hb
      | term =>
        simp only [legalIn, Bool.and_eq_true, beq_iff_eq] at hl'
        exact fstep_down_end hI hX hl'.1 rfl hb
      | err e =>
        simp only [legalIn, Bool.and_eq_true, beq_iff_eq] at hl'
        exact fstep_down_end hI hX hl'.1 rfl hb
  | @ret st stk g tr o l hl => exact fstep_ret hI hX hl hb

theorem PF_mono (s s' : Cfg α) (h : opStep (machine α) s = some s') (hs : PF s') : PF s := by
  obtain ⟨⟨l, hl⟩, ⟨l', hl'⟩, hp⟩ := opStep_viols_suffix (machine α) s s' h
  refine ⟨fun v hv => hs.1 v ?_, ?_, hp hs.2.2⟩
  · rw [hl]; exact List.mem_append_right _ hv
  · have := hs.2.1; rw [hl'] at this
    exact (List.append_eq_nil_iff.1 this).2

/-- **share under the cross-sink environment.**  Any number of sinks; every history made of operator steps, `legalIn` moves
(nested fan-out included) and cross-sink calls (while `share` is delivering to one sink, any live sink pulls or disposes):

* the only phase-level violations are late deliveries — `afterTerm k` (KF5a), `afterDispose k` (KF5b, KF5c) — and messages to
  the upstream that has just ended, `upNotLive i .ended` (KF5d; by `share_cs_term_live` below the message is always a `Pull`);
* the second ghost layer records NOTHING: no `errNotRelayed` (share does not relay sink errors), no `orphan`, no `errLost` /
  `errSibling` (an upstream `Error(e)` reaches every sink that was live and has not detached by itself, unchanged, before the
  handler returns, and no upstream stays live);
* `share` never panics. -/
theorem share_safe_cs {α : Type} : ∀ s, CSReach (machine α) s →
    (∀ v ∈ s.g.ph.viols, (∃ k, v = Viol.afterTerm k) ∨ (∃ k, v = Viol.afterDispose k) ∨ (∃ i, v = Viol.upNotLive i .ended)) ∧
    s.g.xviols = [] ∧ s.panicked = none :=
  cs_reach_of_macro_inv (machine α) anyEnv PF FInv finv_init finv_turn
    (fun s s' m hi he _ => finv_step s s' m hi he) PF_mono

/-! ## the stray message of KF5d is always a `Pull`

`Viol.upNotLive i p` does not record WHICH message went to the upstream that is not live.  `share` sends `Pull` at `p0` and `Terminate`
at `x2`, nothing else.  Here: whenever a reachable configuration is about to execute `x2`, the talkback slot holds an upstream that
is LIVE — so the message flagged by `upNotLive i .ended` is never a `Terminate`.  Plain induction on reachability with a small-step
invariant along the handler of a disposal (`x0 k → x1 → x2`); at the environment move that starts the handler the configuration
satisfies the macro invariant `CInv` (`cs_reach_inv_of_envTurn`): in `core` mode a non-empty sink list means a live upstream in the
slot, in `tfan` mode the list cannot become empty. -/

/-- the talkback slot holds a live upstream -/
def SlotLive (s : Cfg α) : Prop := ∃ i, s.st.slot = some i ∧ s.g.ph.srcPh i = .live

def J (s : Cfg α) : Prop :=
  (∀ stk, s.stack = .run .x2 :: stk → SlotLive s) ∧
  (∀ stk, s.stack = .run .x1 :: stk → s.st.sinks = [] → SlotLive s) ∧
  (∀ k stk, s.stack = .run (.x0 k) :: stk → s.st.sinks.erase k = [] → SlotLive s)

theorem cinv_of_envTurn {s : Cfg α} (hs : CSReach (machine α) s) (ht : EnvTurn s) : CInv s :=
  cs_reach_inv_of_envTurn (machine α) anyEnv CInv inv_init (fun s h => (inv_turn s h).1)
    (fun s s' m hi he _ => inv_step s s' m hi he) s hs ht

/-- the continuation of a frame the environment can return to is `done` or a fan-out loop -/
theorem cont_loc {st : St} {ph : Ph} {o : Out α} {l : Loc α} {stk : List (Fr α)} (hm : CMode st ph (.wait o l :: stk)) :
    l = .done ∨ ∃ r d, l = .fLoop r d := by
  rcases hm with ⟨_, hs⟩ | ⟨k, hs, _⟩ | ⟨s, d, r, rest, hs, _⟩ | ⟨j, s, d, r, rest, hs, _⟩
  · rcases hs _ List.mem_cons_self with ⟨o', ho'⟩ | ⟨s0, a, r, he, _⟩
    · simp at ho'; exact Or.inl ho'.2
    · simp at he; exact Or.inr ⟨_, _, he.2⟩
  · simp at hs; exact Or.inl hs.1.2
  · simp at hs; exact Or.inr ⟨_, _, hs.1.2⟩
  · simp at hs; exact Or.inl hs.1.2

theorem j_of_reach : ∀ s, CSReach (machine α) s → J s := by
  intro s hs
  induction hs with
  | init => exact ⟨fun stk h => by simp [Sys.init] at h, fun stk h => by simp [Sys.init] at h, fun k stk h => by simp [Sys.init] at h⟩
  | @step a b ha hab ih =>
    have wb := cs_reach_waitBelow (machine α) anyEnv a ha
    cases hab with
    | op h =>
      unfold opStep at h
      split at h
      · cases h
      · split at h
        · rename_i l stk heq
          rw [heq] at wb
          simp only [List.tail_cons] at wb
          have hnr : ∀ (l' : Loc α) stk', stk ≠ .run l' :: stk' := by
            rintro l' stk' rfl
            obtain ⟨o, l'', hf⟩ := wb _ List.mem_cons_self
            cases hf
          split at h
          all_goals (simp only [Option.some.injEq] at h; subst h)
          · -- tau
            rename_i s' l' hst
            refine ⟨fun stk' he => ?_, fun stk' he hs0 => ?_, fun k stk' he hs0 => ?_⟩
            · simp only [List.cons.injEq, Frame.run.injEq] at he
              obtain ⟨rfl, rfl⟩ := he
              cases l <;> simp only [machine, step] at hst <;> (try split at hst) <;> simp at hst
              rename_i he'
              obtain ⟨i, h1, h2⟩ := ih.2.1 stk heq (by simpa using he')
              exact ⟨i, by rw [← hst]; exact h1, h2⟩
            · simp only [List.cons.injEq, Frame.run.injEq] at he
              obtain ⟨rfl, rfl⟩ := he
              cases l <;> simp only [machine, step] at hst <;> (try split at hst) <;> simp at hst
              rename_i k
              subst hst
              obtain ⟨i, h1, h2⟩ := ih.2.2 k stk heq hs0
              exact ⟨i, h1, h2⟩
            · simp only [List.cons.injEq, Frame.run.injEq] at he
              obtain ⟨rfl, rfl⟩ := he
              cases l <;> simp only [machine, step] at hst <;> (try split at hst) <;> simp at hst
          · -- call
            exact ⟨fun stk' he => by simp at he, fun stk' he => by simp at he, fun k stk' he => by simp at he⟩
          · -- ret
            exact ⟨fun stk' he => absurd he (hnr _ _), fun stk' he => absurd he (hnr _ _), fun k stk' he => absurd he (hnr _ _)⟩
          · -- panic
            exact ⟨fun stk' he => absurd he (hnr _ _), fun stk' he => absurd he (hnr _ _), fun k stk' he => absurd he (hnr _ _)⟩
        · cases h
    | env h _ =>
      have hci := cinv_of_envTurn ha (envTurn_of_envStepCS h)
      obtain ⟨_, hI⟩ := hci
      cases h with
      | @call st stk g tr c i hc hl =>
        simp only at hI
        refine ⟨fun stk' he => ?_, fun stk' he hs0 => ?_, fun k stk' he hs0 => ?_⟩
        · simp only [List.cons.injEq, Frame.run.injEq] at he
          cases i with
          | sinkUp k u => cases u <;> simp [machine, enter] at he
          | _ => simp [machine, enter] at he
        · simp only [List.cons.injEq, Frame.run.injEq] at he
          cases i with
          | sinkUp k u => cases u <;> simp [machine, enter] at he
          | _ => simp [machine, enter] at he
        · simp only [List.cons.injEq, Frame.run.injEq] at he
          obtain ⟨he, rfl⟩ := he
          cases i with
          | sinkUp k' u =>
            have hlc : g.ph.sinkPh k' = .live ∧
                (isTop c = true ∨ inGreet k' c = true ∨ inData k' c = true ∨ inDelivery c = true) := by
              simp only [legalInCS, legalIn, crossSink, Bool.or_eq_true, Bool.and_eq_true, beq_iff_eq] at hl
              rcases hl with ⟨h1, (h2 | h2) | h2⟩ | ⟨⟨_, h1⟩, h2⟩
              · exact ⟨h1, Or.inl h2⟩
              · exact ⟨h1, Or.inr (Or.inl h2)⟩
              · exact ⟨h1, Or.inr (Or.inr (Or.inl h2))⟩
              · exact ⟨h1, Or.inr (Or.inr (Or.inr h2))⟩
            have hkk : k' = k := by cases u <;> simp [machine, enter] at he <;> exact he
            subst hkk
            have hsrc : ∀ j, (g.onIn (List.length stk) (In.sinkUp k' u : In α)).ph.srcPh j = g.ph.srcPh j := by
              intro j; cases u <;> simp [Ph.onIn]
            obtain ⟨_, _, _, hm⟩ := hI
            rcases sink_cases hm hc hlc.1 hlc.2 with ⟨hcore, _⟩ | ⟨s, d, r, rest, _, _, _, ht⟩
            · have hne : st.sinks ≠ [] := List.ne_nil_of_mem ((hcore.mem k').2 hlc.1)
              obtain ⟨hup, hslot⟩ := hcore.up hne
              exact ⟨st.gen - 1, hslot, by rw [hsrc]; exact hup⟩
            · obtain ⟨x, hx, hxl⟩ := ht.keep
              have hxk : x ≠ k' := by rintro rfl; exact hxl hlc.1
              have := (List.mem_erase_of_ne hxk).2 hx
              simp only at hs0
              rw [hs0] at this; cases this
          | _ => simp [machine, enter] at he
      | @ret st stk g tr o l hl =>
        simp only at hI
        have hl' := cont_loc hI.2.2.2
        refine ⟨fun stk' he => ?_, fun stk' he hs0 => ?_, fun k stk' he hs0 => ?_⟩
        all_goals
          simp only [List.cons.injEq, Frame.run.injEq] at he
          obtain ⟨rfl, _⟩ := he
          rcases hl' with h | ⟨_, _, h⟩ <;> cases h

/-- Whenever `share` is about to send `Terminate` upstream (`x2`), the upstream in its talkback slot is live. -/
theorem share_cs_term_live {α : Type} : ∀ s, CSReach (machine α) s → ∀ stk, s.stack = .run .x2 :: stk →
    ∃ i, s.st.slot = some i ∧ s.g.ph.srcPh i = .live :=
  fun s hs => (j_of_reach s hs).1

/-- Every message other than `Pull` that `share` sends upstream — on any cross-sink history — goes to an upstream that is live at
that moment: the stray message recorded as `upNotLive i .ended` (KF5d) is always a `Pull`. -/
theorem share_cs_stray_is_pull {α : Type} : ∀ s s', CSReach (machine α) s → opStep (machine α) s = some s' →
    ∀ i u, s'.tr = .out (.srcUp i u) :: s.tr → u = .pull ∨ s.g.ph.srcPh i = .live := by
  intro s s' hs h i u htr
  have hx2 := share_cs_term_live s hs
  unfold opStep at h
  split at h
  · cases h
  · split at h
    · rename_i l stk heq
      split at h
      all_goals (simp only [Option.some.injEq] at h; subst h)
      · exact absurd htr.symm (List.cons_ne_self _ _)
      · rename_i o s1 l1 hst
        simp only [List.cons.injEq, Ev.out.injEq, and_true] at htr
        subst htr
        cases l <;> simp only [machine, step] at hst <;> (try split at hst) <;> simp at hst
        · exact Or.inl hst.1.2.symm
        · rename_i j hslot
          obtain ⟨i', h1, h2⟩ := hx2 stk heq
          rw [hslot] at h1
          cases h1
          exact Or.inr (hst.1.1 ▸ h2)
      · simp at htr
      · simp at htr
    · cases h

end Cb.ShareCS

#print axioms Cb.ShareCS.share_basic_cs
#print axioms Cb.ShareCS.share_safe_cs
#print axioms Cb.ShareCS.share_cs_term_live
#print axioms Cb.ShareCS.share_cs_stray_is_pull
