import CallbagModel.Inv.PlugOpSafe
import CallbagModel.Inv.Merge
import CallbagModel.Thm.Counterexamples
/-!
# Relays and `take` as MEMBERS of `merge!`: safety under a late-greeting upstream, and `plugOp` into `merge`

`plugOp j M₁ M₂` has `M₂`'s shape.  For `M₂ = Merge.machine α n true` the environment may return from the call that subscribes
upstream `j` without greeting and greet later at top level — and upstream `j` of the composite is upstream 0 of the member operator
`M₁`.  So `M₁` must be safe under the shape `lateGreet := true` (`late M₁`).

* Part 1: `relay_basicSafe_late`, `take_basicSafe_late` — `Relay.Inv` / `Take.Inv` plus one mode (`m2'`: sink and upstream
  `subscribed`, the subscribing call has returned, stack `[]`); in it nothing is legal but the late greeting (the sink cannot act
  before it is greeted, K0; the upstream cannot deliver before it greets), after which the operator greets its sink at top level.
* Part 2: facts about every machine (`wait_subSrc_notIdle`, `subscribed_fresh`) and about every `plugOp` (`lo_bottom`).
* Part 3: `plugOp_basicSafe'` — the assume–guarantee theorem with `open2` of `PlugOpSafe.HypO` (FALSE for `merge`, `merge_not_open2`)
  weakened to `Open2 j M₂ ∨ SubIn1 M₁` (`SubIn1`: `M₁` subscribes its upstream only while its own sink is still `subscribed`); with
  `SubIn1` nothing is asked of `M₂` beyond its safety.
* Part 4: instances: relays and `take` in a slot of `merge!` (`plugOp_relay_merge_basicSafe`, `plugOp_take_merge_basicSafe`,
  `merge_take2_basicSafe`: `merge!(take(2)(a), b)`).
-/
namespace Cb

/-- the same operator in an environment whose upstreams may greet late -/
def late {St Loc α β : Type} (M : Machine St Loc α β) : Machine St Loc α β :=
  { M with shape := { M.shape with lateGreet := true } }

/-! ## Part 1a: map / filter / scan / skip under a late-greeting upstream -/
namespace Relay
namespace Late
variable {σ α β : Type}

inductive Mode (k : Kind σ α β) (st : St σ) (g : Ph) (stk : List (Frame (Loc α β) β)) : Prop where
  | m1 : g.sinkPh 0 = .idle → g.srcPh 0 = .idle → stk = [] → Mode k st g stk
  | m2 : g.sinkPh 0 = .subscribed → g.srcPh 0 = .subscribed → stk = [.wait (.subSrc 0) .done] → Mode k st g stk
  /-- the subscribing call has returned without a greeting -/
  | m2' : g.sinkPh 0 = .subscribed → g.srcPh 0 = .subscribed → stk = [] → Mode k st g stk
  | m3 : g.sinkPh 0 = .live → g.srcPh 0 = .live → (k.slotted = true → st.slot = true) →
         (∀ f ∈ stk, Benign f) → Mode k st g stk
  | m4 : g.sinkPh 0 = .doneBySelf → g.srcPh 0 = .disposed → (∀ f ∈ stk, Benign f) → Mode k st g stk
  | m5 : g.sinkPh 0 = .doneBySrc → g.srcPh 0 = .ended → (∀ f ∈ stk, Benign f) → Mode k st g stk

def Inv (k : Kind σ α β) (s : Sys (St σ) (Loc α β) α β) : Prop :=
  s.panicked = none ∧ s.g.ph.viols = [] ∧
  (∀ i, i ≠ 0 → s.g.ph.srcPh i = .idle) ∧ (∀ j, j ≠ 0 → s.g.ph.sinkPh j = .idle) ∧
  Mode k s.st s.g.ph s.stack

theorem inv_turn (k : Kind σ α β) (s : Sys (St σ) (Loc α β) α β) (h : Inv k s) : EnvTurn s ∧ BasicSafe s := by
  obtain ⟨hp, hb, _, _, hm⟩ := h
  refine ⟨⟨hp, ?_⟩, hb, hp⟩
  cases hm with
  | m1 _ _ h => simp [h, ctxOf]
  | m2 _ _ h => simp [h, ctxOf]
  | m2' _ _ h => simp [h, ctxOf]
  | m3 _ _ _ h => exact ctx_isSome_of_benign h
  | m4 _ _ h => exact ctx_isSome_of_benign h
  | m5 _ _ h => exact ctx_isSome_of_benign h

macro "lexec" n:num : tactic =>
  `(tactic| (refine ⟨$n, ?_⟩; simp [advance, opStep, machine, late, enter, step, Ph.onIn, Ph.onOut, Inv, isFinal, *]))

theorem inv_step (k : Kind σ α β) (hk : k.slotted = false → ∀ s a, (k.xfer s a).2 ≠ none)
    (s s' : Sys (St σ) (Loc α β) α β) (m : Move α) (h : Inv k s) (hs : EnvStep (late (machine k)) m s s') :
    ∃ n, Inv k (advance (late (machine k)) n s') := by
  obtain ⟨hp, hb, hoth, hoths, hm⟩ := h
  cases hs with
  | @call st stk g tr c i hc hl =>
    simp only at hp hb hoth hoths hm
    cases i with
    | subscribe j =>
      simp only [legalIn, Bool.and_eq_true, beq_iff_eq, machine, late, Bool.or_false] at hl
      obtain ⟨⟨hc', hidle⟩, rfl⟩ := hl
      cases hm <;> simp_all
      have hopen : (g.ph.setSink 0 .subscribed).anySinkOpen = true := (Ph.anySinkOpen_iff _).2 ⟨0, by simp⟩
      lexec 1
      refine ⟨fun i hi => by simp [hi, hoth i hi], fun j hj => by simp [hj, hoths j hj], Mode.m2 (by simp) (by simp) rfl⟩
    | sinkUp j u =>
      simp only [legalIn, Bool.and_eq_true, beq_iff_eq, Bool.or_eq_true] at hl
      obtain ⟨hlive, hctx⟩ := hl
      have hj : j = 0 := by
        by_cases hj : j = 0
        · exact hj
        · rw [hoths j hj] at hlive; cases hlive
      subst hj
      cases hm with
      | m3 h1 h2 h3 h6 =>
        have hne : (k.slotted && !st.slot) = false := by
          cases hks : k.slotted with
          | false => simp
          | true => simp [h3 hks]
        cases u with
        | pull =>
          lexec 1
          exact ⟨hoth, hoths, Mode.m3 h1 h2 h3 (List.forall_mem_cons.2 ⟨benign_done _, h6⟩)⟩
        | term =>
          lexec 1
          exact ⟨fun i hi => by simp [hi, hoth i hi], fun j hj => by simp [hj, hoths j hj],
            Mode.m4 (by simp) (by simp) (List.forall_mem_cons.2 ⟨benign_done _, h6⟩)⟩
        | err e =>
          lexec 1
          exact ⟨fun i hi => by simp [hi, hoth i hi], fun j hj => by simp [hj, hoths j hj],
            Mode.m4 (by simp) (by simp) (List.forall_mem_cons.2 ⟨benign_done _, h6⟩)⟩
      | _ => simp_all
    | srcGreet i =>
      simp only [legalIn, Bool.and_eq_true, beq_iff_eq] at hl
      obtain ⟨hsub, hin⟩ := hl
      by_cases hi : i = 0
      · subst hi
        have greet_from : ∀ stk0 : List (Frame (Loc α β) β), stk = stk0 → (∀ f ∈ stk0, Benign f) →
            g.ph.sinkPh 0 = .subscribed →
            ∃ n, Inv k (advance (late (machine k)) n
              ⟨st, .run ((late (machine k)).enter (.srcGreet 0)) :: stk, g.onIn stk.length (.srcGreet 0 : In α), .inp (.srcGreet 0) :: tr, none⟩) := by
          intro stk0 he hben h1
          subst he
          cases hks : k.slotted with
          | false =>
            lexec 2
            exact ⟨fun i hi => by simp [hi, hoth i hi], fun j hj => by simp [hj, hoths j hj],
              Mode.m3 (by simp) (by simp) (by simp [hks]) (List.forall_mem_cons.2 ⟨benign_done _, hben⟩)⟩
          | true =>
            lexec 2
            exact ⟨fun i hi => by simp [hi, hoth i hi], fun j hj => by simp [hj, hoths j hj],
              Mode.m3 (by simp) (by simp) (by simp) (List.forall_mem_cons.2 ⟨benign_done _, hben⟩)⟩
        cases hm with
        | m2 h1 h2 h5 => exact greet_from _ h5 (by simp [Benign]) h1
        | m2' h1 h2 h5 => exact greet_from _ h5 (by simp) h1
        | _ => simp_all
      · simp [hoth i hi] at hsub
    | srcDown i d =>
      simp only [legalIn, Bool.and_eq_true, beq_iff_eq, Bool.or_eq_true] at hl
      obtain ⟨hlive, hctx⟩ := hl
      by_cases hi : i = 0
      · subst hi
        cases hm with
        | m3 h1 h2 h3 h6 =>
          cases d with
          | data a =>
            cases hx : (k.xfer st.priv a).2 with
            | some b =>
              lexec 2
              exact ⟨hoth, hoths, Mode.m3 h1 h2 h3 (List.forall_mem_cons.2 ⟨benign_done _, h6⟩)⟩
            | none =>
              have hsl : st.slot = true := by
                apply h3
                cases hks : k.slotted with
                | true => rfl
                | false => exact absurd hx (hk hks _ _)
              lexec 2
              exact ⟨hoth, hoths, Mode.m3 h1 h2 (fun _ => rfl) (List.forall_mem_cons.2 ⟨benign_done _, h6⟩)⟩
          | term =>
            lexec 1
            exact ⟨fun i hi => by simp [hi, hoth i hi], fun j hj => by simp [hj, hoths j hj],
              Mode.m5 (by simp) (by simp) (List.forall_mem_cons.2 ⟨benign_done _, h6⟩)⟩
          | err e =>
            lexec 1
            exact ⟨fun i hi => by simp [hi, hoth i hi], fun j hj => by simp [hj, hoths j hj],
              Mode.m5 (by simp) (by simp) (List.forall_mem_cons.2 ⟨benign_done _, h6⟩)⟩
        | _ => simp_all
      · simp [hoth i hi] at hlive
  | @ret st stk g tr o l hl =>
    simp only at hp hb hoth hoths hm
    have hl_done : ∀ (_ : ∀ f ∈ Frame.wait o l :: stk, Benign f), l = .done ∧ ∀ f ∈ stk, Benign f := by
      intro h6
      have hben := h6 _ (List.mem_cons_self)
      refine ⟨?_, (List.forall_mem_cons.1 h6).2⟩
      cases l <;> simp_all [Benign]
    cases hm with
    | m1 _ _ h => simp at h
    | m2 h1 h2 h5 =>
      -- the late shape: the upstream may return from the subscription without having greeted
      simp at h5; obtain ⟨⟨rfl, rfl⟩, rfl⟩ := h5
      lexec 1
      exact ⟨hoth, hoths, Mode.m2' h1 h2 rfl⟩
    | m2' _ _ h => simp at h
    | m3 h1 h2 h3 h6 =>
      obtain ⟨rfl, hrest⟩ := hl_done h6
      lexec 1
      exact ⟨hoth, hoths, Mode.m3 h1 h2 h3 hrest⟩
    | m4 h1 h2 h6 =>
      obtain ⟨rfl, hrest⟩ := hl_done h6
      lexec 1
      exact ⟨hoth, hoths, Mode.m4 h1 h2 hrest⟩
    | m5 h1 h2 h6 =>
      obtain ⟨rfl, hrest⟩ := hl_done h6
      lexec 1
      exact ⟨hoth, hoths, Mode.m5 h1 h2 hrest⟩

theorem inv_init (k : Kind σ α β) : Inv k (Sys.init (late (machine k))) :=
  ⟨rfl, rfl, fun _ _ => by simp [Sys.init], fun _ _ => by simp [Sys.init],
    Mode.m1 (by simp [Sys.init]) (by simp [Sys.init]) rfl⟩

end Late

/-- The generic relay (map / filter / scan / skip) under an upstream that may greet LATE (return from the subscription without
greeting, greet afterwards at top level): never a phase-level violation, never a panic. -/
theorem relay_basicSafe_late {σ α β : Type} (k : Kind σ α β) (hk : k.slotted = false → ∀ s a, (k.xfer s a).2 ≠ none) :
    ∀ s, SReach ({ machine k with shape := { (machine k).shape with lateGreet := true } }) s → BasicSafe s :=
  basicSafe_of_macro_inv (late (machine k)) (Late.Inv k) (Late.inv_init k) (Late.inv_turn k) (Late.inv_step k hk)

end Relay

/-! ## Part 1b: take under a late-greeting upstream -/
namespace Take
namespace Late
variable {α : Type}

inductive Mode (max : Nat) (st : St) (g : Ph) (stk : List (Frame (Loc α) α)) : Prop where
  | m1 : g.sinkPh 0 = .idle → g.srcPh 0 = .idle → stk = [] → st.tb = false → st.taken = 0 → st.fin = false → Mode max st g stk
  | m2 : g.sinkPh 0 = .subscribed → g.srcPh 0 = .subscribed → st.tb = false → st.taken = 0 → st.fin = false →
         stk = [.wait (.subSrc 0) .done] → Mode max st g stk
  /-- the subscribing call has returned without a greeting -/
  | m2' : g.sinkPh 0 = .subscribed → g.srcPh 0 = .subscribed → st.tb = false → st.taken = 0 → st.fin = false →
         stk = [] → Mode max st g stk
  | m3 : g.sinkPh 0 = .live → g.srcPh 0 = .live → st.tb = true → st.fin = false →
         (0 < st.taken → st.taken = max → ∃ a rest, stk = .wait (.down 0 (.data a)) (.d3 max) :: rest) →
         (∀ f ∈ stk, Benign st.taken f) → Mode max st g stk
  | m4 : g.sinkPh 0 = .doneBySelf → g.srcPh 0 = .disposed → st.fin = true →
         (∀ f ∈ stk, Benign st.taken f) → Mode max st g stk
  | m5 : g.sinkPh 0 = .doneBySrc → g.srcPh 0 = .ended → ¬ (0 < st.taken ∧ st.taken = max) →
         (∀ f ∈ stk, Benign st.taken f) → Mode max st g stk
  | m6 : g.sinkPh 0 = .live → g.srcPh 0 = .disposed → st.fin = true → st.tb = true →
         (∃ rest, stk = .wait (.srcUp 0 .term) .d6 :: rest ∧ ∀ f ∈ rest, Benign st.taken f) → Mode max st g stk
  | m7 : g.sinkPh 0 = .doneBySrc → g.srcPh 0 = .disposed → st.fin = true →
         (∀ f ∈ stk, Benign st.taken f) → Mode max st g stk

def Inv (max : Nat) (s : Sys St (Loc α) α α) : Prop :=
  s.panicked = none ∧ s.g.ph.viols = [] ∧ s.st.taken ≤ max ∧
  (∀ i, i ≠ 0 → s.g.ph.srcPh i = .idle) ∧ (∀ k, k ≠ 0 → s.g.ph.sinkPh k = .idle) ∧
  Mode max s.st s.g.ph s.stack

theorem inv_turn (max : Nat) (s : Sys St (Loc α) α α) (h : Inv max s) : EnvTurn s ∧ BasicSafe s := by
  obtain ⟨hp, hb, _, _, _, hm⟩ := h
  refine ⟨⟨hp, ?_⟩, hb, hp⟩
  cases hm with
  | m1 _ _ h => simp [h, ctxOf]
  | m2 _ _ _ _ _ h => simp [h, ctxOf]
  | m2' _ _ _ _ _ h => simp [h, ctxOf]
  | m3 _ _ _ _ _ h => exact ctx_isSome_of_benign h
  | m4 _ _ _ h => exact ctx_isSome_of_benign h
  | m5 _ _ _ h => exact ctx_isSome_of_benign h
  | m6 _ _ _ _ h => obtain ⟨r, h, _⟩ := h; simp [h, ctxOf]
  | m7 _ _ _ h => exact ctx_isSome_of_benign h

macro "lexec" n:num : tactic =>
  `(tactic| (refine ⟨$n, ?_⟩; simp [advance, opStep, machine, late, enter, step, Ph.onIn, Ph.onOut, Inv, isFinal, *]))

theorem inv_step (max : Nat) (s s' : Sys St (Loc α) α α) (m : Move α) (h : Inv max s)
    (hs : EnvStep (late (machine α max)) m s s') : ∃ n, Inv max (advance (late (machine α max)) n s') := by
  obtain ⟨hp, hb, hle, hoth, hoths, hm⟩ := h
  cases hs with
  | @call st stk g tr c i hc hl =>
    simp only at hp hb hle hoth hoths hm
    cases i with
    | subscribe k =>
      simp only [legalIn, Bool.and_eq_true, beq_iff_eq, machine, late, Bool.or_false] at hl
      obtain ⟨⟨hc', hidle⟩, rfl⟩ := hl
      cases hm <;> simp_all
      have hopen : (g.ph.setSink 0 .subscribed).anySinkOpen = true := (Ph.anySinkOpen_iff _).2 ⟨0, by simp⟩
      lexec 2
      refine ⟨fun i hi => by simp [hi, hoth i hi], fun k hk => by simp [hk, hoths k hk], Mode.m2 (by simp) (by simp) ‹_› ‹_› ‹_› rfl⟩
    | sinkUp k u =>
      simp only [legalIn, Bool.and_eq_true, beq_iff_eq, Bool.or_eq_true] at hl
      obtain ⟨hlive, hctx⟩ := hl
      have hk : k = 0 := by
        by_cases hk : k = 0
        · exact hk
        · rw [hoths k hk] at hlive; cases hlive
      subst hk
      cases hm with
      | m3 h1 h2 h3 h4 h5 h6 =>
        cases u with
        | pull =>
          by_cases hlt : st.taken < max
          · lexec 3
            refine ⟨hoth, hoths, Mode.m3 h1 h2 h3 h4 (by omega) ?_⟩
            exact List.forall_mem_cons.2 ⟨by simp [Benign], h6⟩
          · lexec 1
            exact ⟨hoth, hoths, Mode.m3 h1 h2 h3 h4 h5 h6⟩
        | term =>
          lexec 3
          refine ⟨fun i hi => by simp [hi, hoth i hi], fun k hk => by simp [hk, hoths k hk], Mode.m4 (by simp) (by simp) rfl ?_⟩
          exact List.forall_mem_cons.2 ⟨by simp [Benign], h6⟩
        | err e =>
          lexec 3
          refine ⟨fun i hi => by simp [hi, hoth i hi], fun k hk => by simp [hk, hoths k hk], Mode.m4 (by simp) (by simp) rfl ?_⟩
          exact List.forall_mem_cons.2 ⟨by simp [Benign], h6⟩
      | m6 h1 h2 h3 h4 h5 =>
        obtain ⟨rest, rfl, _⟩ := h5
        simp [ctxOf] at hc; subst hc; simp [isTop, inGreet, inData] at hctx
      | _ => simp_all
    | srcGreet i =>
      simp only [legalIn, Bool.and_eq_true, beq_iff_eq] at hl
      obtain ⟨hsub, hin⟩ := hl
      by_cases hi : i = 0
      · subst hi
        have greet_from : ∀ stk0 : List (Frame (Loc α) α), stk = stk0 → (∀ f ∈ stk0, Benign 0 f) →
            g.ph.sinkPh 0 = .subscribed → st.tb = false → st.taken = 0 → st.fin = false →
            ∃ n, Inv max (advance (late (machine α max)) n
              ⟨st, .run ((late (machine α max)).enter (.srcGreet 0)) :: stk, g.onIn stk.length (.srcGreet 0 : In α), .inp (.srcGreet 0) :: tr, none⟩) := by
          intro stk0 he hben h1 h3 h4 h4'
          subst he
          lexec 2
          refine ⟨fun i hi => by simp [hi, hoth i hi], fun k hk => by simp [hk, hoths k hk],
            Mode.m3 (by simp) (by simp) rfl (by simp) (by simp) ?_⟩
          exact List.forall_mem_cons.2 ⟨by simp [Benign], by simpa [h4] using hben⟩
        cases hm with
        | m2 h1 h2 h3 h4 h4' h5 => exact greet_from _ h5 (by simp [Benign]) h1 h3 h4 h4'
        | m2' h1 h2 h3 h4 h4' h5 => exact greet_from _ h5 (by simp) h1 h3 h4 h4'
        | _ => simp_all
      · simp [hoth i hi] at hsub
    | srcDown i d =>
      simp only [legalIn, Bool.and_eq_true, beq_iff_eq, Bool.or_eq_true] at hl
      obtain ⟨hlive, hctx⟩ := hl
      by_cases hi : i = 0
      · subst hi
        cases hm with
        | m3 h1 h2 h3 h4 h5 h6 =>
          have hnotF : ¬ (0 < st.taken ∧ st.taken = max) := by
            rintro ⟨ha, hb⟩
            obtain ⟨a, rest, rfl⟩ := h5 ha hb
            simp [ctxOf] at hc; subst hc; simp [isTop, inSub, inPull] at hctx
          cases d with
          | data a =>
            by_cases hlt : st.taken < max
            · lexec 2
              refine ⟨by omega, hoth, hoths, Mode.m3 h1 h2 rfl rfl ?_ ?_⟩
              · intro _ he; exact ⟨a, stk, by rw [← he]⟩
              · exact List.forall_mem_cons.2 ⟨by simp [Benign], fun f hf => benign_mono (h6 f hf) (by simp)⟩
            · lexec 1
              exact ⟨hoth, hoths, Mode.m3 h1 h2 h3 h4 h5 h6⟩
          | term =>
            lexec 1
            refine ⟨fun i hi => by simp [hi, hoth i hi], fun k hk => by simp [hk, hoths k hk], Mode.m5 (by simp) (by simp) hnotF ?_⟩
            exact List.forall_mem_cons.2 ⟨by simp [Benign], h6⟩
          | err e =>
            lexec 1
            refine ⟨fun i hi => by simp [hi, hoth i hi], fun k hk => by simp [hk, hoths k hk], Mode.m5 (by simp) (by simp) hnotF ?_⟩
            exact List.forall_mem_cons.2 ⟨by simp [Benign], h6⟩
        | _ => simp_all
      · simp [hoth i hi] at hlive
  | @ret st stk g tr o l hl =>
    simp only at hp hb hle hoth hoths hm
    -- generic: resuming a benign continuation in a mode where `fin` holds or `d3 max` is impossible
    have resume_quiet : ∀ (_ : Benign st.taken (Frame.wait o l : Frame (Loc α) α))
        (_ : st.fin = true ∨ ¬ (0 < st.taken ∧ st.taken = max)),
        ∃ n g' tr', (advance (late (machine α max)) n ⟨st, .run l :: stk, g, .retE :: tr, none⟩) = ⟨st, stk, g', tr', none⟩ ∧ g'.ph = g.ph := by
      intro hben hq
      cases l with
      | done => exact ⟨1, g.onRetO stk.length, .retO :: .retE :: tr, by simp [advance, opStep, machine, late, step], by simp⟩
      | d3 t =>
        simp [Benign] at hben
        by_cases ht : t = max
        · rcases hq with hq | hq
          · exact ⟨2, g.onRetO stk.length, .retO :: .retE :: tr, by simp [advance, opStep, machine, late, step, ht, hq], by simp⟩
          · exact absurd ⟨by omega, by omega⟩ hq
        · exact ⟨1, g.onRetO stk.length, .retO :: .retE :: tr, by simp [advance, opStep, machine, late, step, ht], by simp⟩
      | _ => simp [Benign] at hben
    cases hm with
    | m1 _ _ h => simp at h
    | m2 h1 h2 h3 h4 h4' h5 =>
      -- the late shape: the upstream may return from the subscription without having greeted
      simp at h5; obtain ⟨⟨rfl, rfl⟩, rfl⟩ := h5
      lexec 1
      exact ⟨hoth, hoths, Mode.m2' h1 h2 h3 h4 h4' rfl⟩
    | m2' _ _ _ _ _ h => simp at h
    | m3 h1 h2 h3 h4 h5 h6 =>
      have hben := h6 _ (List.mem_cons_self)
      have hrest := (List.forall_mem_cons.1 h6).2
      cases l with
      | done =>
        lexec 1
        refine ⟨hoth, hoths, Mode.m3 h1 h2 h3 h4 ?_ hrest⟩
        intro ha hb; obtain ⟨a, rest, he⟩ := h5 ha hb; simp at he
      | d3 t =>
        simp [Benign] at hben
        by_cases ht : t = max
        · subst ht
          lexec 5
          exact ⟨fun i hi => by simp [hi, hoth i hi], hoths, Mode.m6 (by simp [h1]) (by simp) rfl rfl ⟨stk, rfl, hrest⟩⟩
        · lexec 1
          refine ⟨hoth, hoths, Mode.m3 h1 h2 h3 h4 ?_ hrest⟩
          intro ha hb; obtain ⟨a, rest, he⟩ := h5 ha hb; simp at he; exact absurd he.1.2 ht
      | _ => simp [Benign] at hben
    | m4 h1 h2 h3 h6 =>
      obtain ⟨n, g', tr', hn, hg⟩ := resume_quiet (h6 _ (List.mem_cons_self)) (Or.inl h3)
      exact ⟨n, by rw [hn]; exact ⟨rfl, by simp [hg, hb], hle, by simpa [hg] using hoth, by simpa [hg] using hoths,
        by simp only [hg]; exact Mode.m4 h1 h2 h3 (List.forall_mem_cons.1 h6).2⟩⟩
    | m5 h1 h2 h3 h6 =>
      obtain ⟨n, g', tr', hn, hg⟩ := resume_quiet (h6 _ (List.mem_cons_self)) (Or.inr h3)
      exact ⟨n, by rw [hn]; exact ⟨rfl, by simp [hg, hb], hle, by simpa [hg] using hoth, by simpa [hg] using hoths,
        by simp only [hg]; exact Mode.m5 h1 h2 h3 (List.forall_mem_cons.1 h6).2⟩⟩
    | m6 h1 h2 h3 h4 h5 =>
      obtain ⟨rest, he, hrest⟩ := h5
      simp at he; obtain ⟨⟨rfl, rfl⟩, rfl⟩ := he
      lexec 1
      exact ⟨hoth, fun k hk => by simp [hk, hoths k hk], Mode.m7 (by simp) h2 h3 (List.forall_mem_cons.2 ⟨by simp [Benign], hrest⟩)⟩
    | m7 h1 h2 h3 h6 =>
      obtain ⟨n, g', tr', hn, hg⟩ := resume_quiet (h6 _ (List.mem_cons_self)) (Or.inl h3)
      exact ⟨n, by rw [hn]; exact ⟨rfl, by simp [hg, hb], hle, by simpa [hg] using hoth, by simpa [hg] using hoths,
        by simp only [hg]; exact Mode.m7 h1 h2 h3 (List.forall_mem_cons.1 h6).2⟩⟩

theorem inv_init (max : Nat) : Inv max (Sys.init (late (machine α max))) :=
  ⟨rfl, rfl, Nat.zero_le _, fun _ _ => by simp [Sys.init], fun _ _ => by simp [Sys.init],
    Mode.m1 (by simp [Sys.init]) (by simp [Sys.init]) rfl rfl rfl rfl⟩

end Late

/-- take under an upstream that may greet LATE: never a phase-level violation, never a panic. -/
theorem take_basicSafe_late {α : Type} (max : Nat) :
    ∀ s, SReach ({ machine α max with shape := { (machine α max).shape with lateGreet := true } }) s → BasicSafe s :=
  basicSafe_of_macro_inv (late (machine α max)) (Late.Inv max) (Late.inv_init max) (Late.inv_turn max) (Late.inv_step max)

end Take

/-! ## Part 2: two more facts about every machine, one about every `plugOp` -/
namespace LateMember
open ComposeSafe PlugSafe PlugOpSafe

section Generic
variable {St Loc α β : Type}

theorem onOut_srcPh_notIdle {β : Type} (g : Ph) (o : Out β) (i : Nat) (h : g.srcPh i ≠ .idle) : (g.onOut o).srcPh i ≠ .idle := by
  cases o with
  | greet k => simp only [Ph.onOut]; split <;> simpa using h
  | down k d =>
    simp only [Ph.onOut]
    split
    · split <;> simpa using h
    all_goals simpa using h
  | subSrc j =>
    simp only [Ph.onOut]
    split
    · simpa using h
    · split
      · simpa using h
      · simp only [Ph.srcPh_setSrc]; split <;> simp [h]
  | srcUp j u =>
    cases u <;> simp only [Ph.onOut] <;> split <;> (try simp only [srcPh_flag, Ph.srcPh_setSrc]) <;> (try split) <;> simp [h]
  | app b => exact h

theorem onIn_srcPh_notIdle {α : Type} (g : Ph) (m : In α) (i : Nat) (h : g.srcPh i ≠ .idle) : (g.onIn m).srcPh i ≠ .idle := by
  cases m with
  | subscribe k => simpa [Ph.onIn] using h
  | sinkUp k u => cases u <;> simpa [Ph.onIn] using h
  | srcGreet j => simp only [Ph.onIn, Ph.srcPh_setSrc]; split <;> simp [h]
  | srcDown j d => cases d <;> simp only [Ph.onIn, Ph.srcPh_setSrc] <;> (try split) <;> simp [h]

theorem onIn_srcPh_subscribed {α : Type} (g : Ph) (m : In α) (i : Nat) (h : (g.onIn m).srcPh i = .subscribed) :
    g.srcPh i = .subscribed := by
  cases m with
  | subscribe k => simpa [Ph.onIn] using h
  | sinkUp k u => cases u <;> simpa [Ph.onIn] using h
  | srcGreet j =>
    simp only [Ph.onIn, Ph.srcPh_setSrc] at h
    split at h
    · cases h
    · exact h
  | srcDown j d =>
    cases d <;> simp only [Ph.onIn, Ph.srcPh_setSrc] at h
    · exact h
    all_goals (split at h; cases h; exact h)

/-- G5: an upstream the operator is (still) inside the subscription of has been subscribed to -/
theorem wait_subSrc_notIdle (M : Machine St Loc α β) {s : Sys St Loc α β} (h : SReach M s) :
    s.g.ph.viols = [] → ∀ i l, Frame.wait (.subSrc i) l ∈ s.stack → s.g.ph.srcPh i ≠ .idle := by
  induction h with
  | init => intro _ i l hm; simp [Sys.init] at hm
  | step ha hab ih =>
    cases hab with
    | op hop =>
      cases oStep_of_opStep hop with
      | tau hst => intro hv i l hm; exact ih hv i l (by simpa using hm)
      | @call st l stk g tr o s' l' hst =>
        intro hv i l0 hm
        simp only [onOut_ph] at hv ⊢
        simp only [List.mem_cons] at hm
        rcases hm with hm | hm
        · cases hm
          obtain ⟨_, _, he⟩ := onOut_subSrc_ok _ _ hv
          rw [he]; simp
        · exact onOut_srcPh_notIdle _ _ _ (ih (onOut_viols_nil _ _ hv) i l0 (by simp [hm]))
      | ret hst => intro hv i l hm; simp only [onRetO_ph] at hv ⊢; exact ih hv i l (by simp [hm])
      | panic hst => intro hv i l hm; exact ih hv i l (by simp [hm])
    | env henv _ =>
      cases henv with
      | @call st stk g tr c m hc hl =>
        intro hv i l hm
        simp only [onIn_ph, onIn_viols] at hv ⊢
        exact onIn_srcPh_notIdle _ _ _ (ih hv i l (by simpa using hm))
      | @ret st stk g tr o l hl =>
        intro hv i l0 hm
        simp only [List.mem_cons] at hm
        rcases hm with hm | hm
        · cases hm
        · exact ih hv i l0 (by simp [hm])

/-- G6: while an upstream is `subscribed` (has not greeted), a frame waiting on its subscription can only be the TOP of the stack,
and if it is, nothing has happened since that call was made — in particular a sink is open (the operator recorded no violation when
it subscribed).  For every machine, under every conformant environment, late greeters or not. -/
theorem subscribed_fresh (M : Machine St Loc α β) {s : Sys St Loc α β} (h : SReach M s) :
    s.g.ph.viols = [] → ∀ i, s.g.ph.srcPh i = .subscribed →
      (∀ f r l, s.stack = f :: r → Frame.wait (.subSrc i) l ∉ r) ∧
      (∀ l r, s.stack = .wait (.subSrc i) l :: r → s.g.ph.anySinkOpen = true) := by
  induction h with
  | init => intro _ i hi; simp [Sys.init] at hi
  | @step a b ha hab ih =>
    cases hab with
    | op hop =>
      cases oStep_of_opStep hop with
      | tau hst =>
        intro hv i hi
        refine ⟨?_, fun l r he => by simp at he⟩
        intro f r l he hm
        simp only [List.cons.injEq] at he
        obtain ⟨_, rfl⟩ := he
        exact (ih hv i hi).1 _ _ l rfl hm
      | @call st l stk g tr o s' l' hst =>
        intro hv i hi
        simp only [onOut_ph] at hv hi ⊢
        have hv0 := onOut_viols_nil _ _ hv
        rcases onOut_srcPh_subscribed _ _ _ hi with h1 | h1
        · refine ⟨?_, ?_⟩
          · intro f r l0 he hm
            simp only [List.cons.injEq] at he
            obtain ⟨_, rfl⟩ := he
            exact (ih hv0 i h1).1 _ _ l0 rfl hm
          · intro l0 r he
            simp only [List.cons.injEq, Frame.wait.injEq] at he
            obtain ⟨⟨rfl, _⟩, _⟩ := he
            obtain ⟨hidle, _, _⟩ := onOut_subSrc_ok _ _ hv
            rw [hidle] at h1; cases h1
        · subst h1
          obtain ⟨hidle, hopen, he⟩ := onOut_subSrc_ok _ _ hv
          refine ⟨?_, ?_⟩
          · intro f r l0 he' hm
            simp only [List.cons.injEq] at he'
            obtain ⟨_, rfl⟩ := he'
            exact wait_subSrc_notIdle M ha hv0 i l0 (List.mem_cons_of_mem _ hm) hidle
          · intro l0 r _
            rw [he]; exact hopen
      | @ret st l stk g tr hst =>
        intro hv i hi
        simp only [onRetO_ph] at hv hi ⊢
        have := (ih hv i hi).1
        refine ⟨?_, ?_⟩
        · intro f r l0 he hm
          have he' : stk = f :: r := he
          subst he'
          exact this _ _ l0 rfl (List.mem_cons_of_mem _ hm)
        · intro l0 r he
          have he' : stk = .wait (.subSrc i) l0 :: r := he
          subst he'
          exact absurd List.mem_cons_self (this _ _ l0 rfl)
      | @panic st l stk g tr m hst =>
        intro hv i hi
        have := (ih hv i hi).1
        refine ⟨?_, ?_⟩
        · intro f r l0 he hm
          have he' : stk = f :: r := he
          subst he'
          exact this _ _ l0 rfl (List.mem_cons_of_mem _ hm)
        · intro l0 r he
          have he' : stk = .wait (.subSrc i) l0 :: r := he
          subst he'
          exact absurd List.mem_cons_self (this _ _ l0 rfl)
    | env henv _ =>
      cases henv with
      | @call st stk g tr c m hc hl =>
        intro hv i hi
        simp only [onIn_ph, onIn_viols] at hv hi ⊢
        have hi0 := onIn_srcPh_subscribed _ _ _ hi
        obtain ⟨hA, hB⟩ := ih hv i hi0
        refine ⟨?_, fun l r he => by simp at he⟩
        intro f r l0 he hm
        simp only [List.cons.injEq] at he
        obtain ⟨_, rfl⟩ := he
        -- the frame is in `stk`, hence (IH) its top: the environment is inside `subSrc i`; nothing it may do there keeps `i` subscribed
        cases stk with
        | nil => simp at hm
        | cons f0 r0 =>
          simp only [List.mem_cons] at hm
          rcases hm with hm | hm
          · subst hm
            simp [ctxOf] at hc; subst hc
            cases m with
            | subscribe k => simp [legalIn, isTop] at hl
            | sinkUp k u => simp [legalIn, isTop, inGreet, inData] at hl
            | srcGreet j' =>
              simp only [legalIn, isTop, inSub, Bool.and_false, Bool.or_false, Bool.and_eq_true, beq_iff_eq] at hl
              obtain ⟨_, rfl⟩ := hl
              simp [Ph.onIn] at hi
            | srcDown j' d =>
              simp only [legalIn, isTop, inSub, inPull, Bool.false_or, Bool.or_false, Bool.and_eq_true, beq_iff_eq] at hl
              obtain ⟨h1, rfl⟩ := hl
              rw [hi0] at h1; cases h1
          · exact hA _ _ l0 rfl hm
      | @ret st stk g tr o l hl =>
        intro hv i hi
        refine ⟨?_, fun l r he => by simp at he⟩
        intro f r l0 he hm
        simp only [List.cons.injEq] at he
        obtain ⟨_, rfl⟩ := he
        exact (ih hv i hi).1 _ _ l0 rfl hm

end Generic

section PlugOpGeneric
variable {S1 L1 S2 L2 β γ : Type} {M1 : Machine S1 L1 β β} {M2 : Machine S2 L2 β γ} {j : Nat}

def isLo : CFr L1 L2 → Bool | .lo _ => true | .hi _ => false
def loLast : List (CFr L1 L2) → Bool
  | [] => false
  | [c] => isLo c
  | _ :: c :: r => loLast (c :: r)

theorem loLast_cons_ne (c : CFr L1 L2) (rest : List (CFr L1 L2)) (h : rest.isEmpty = false) : loLast (c :: rest) = loLast rest := by
  cases rest with
  | nil => simp at h
  | cons c' r => rfl

theorem loLast_head (c c' : CFr L1 L2) (rest : List (CFr L1 L2)) (h : isLo c = isLo c') : loLast (c :: rest) = loLast (c' :: rest) := by
  cases rest with
  | nil => simpa [loLast] using h
  | cons c'' r => rfl

theorem loLast_tau {st st' : S1 × S2} {cfs cfs' : List (CFr L1 L2)}
    (hs : (plugOp j M1 M2).step st cfs = .tau st' cfs') : loLast cfs' = loLast cfs := by
  cases cfs with
  | nil => simp [plugOp] at hs
  | cons c rest =>
    cases c with
    | lo l =>
      simp only [plugOp] at hs
      cases h1 : M1.step st.1 l with
      | tau s1 l' =>
        simp only [h1, Act.tau.injEq] at hs
        obtain ⟨_, rfl⟩ := hs
        exact loLast_head _ _ _ rfl
      | ret =>
        simp only [h1] at hs
        split at hs
        · cases hs
        · rename_i hne
          simp only [Act.tau.injEq] at hs
          obtain ⟨_, rfl⟩ := hs
          exact (loLast_cons_ne _ _ (by simpa using hne)).symm
      | panic m => simp [h1] at hs
      | call o s1 l' =>
        simp only [h1] at hs
        split at hs
        all_goals first
          | (cases hs; done)
          | (cases hs; exact loLast_head (.lo _) (.lo _) _ rfl)
    | hi l =>
      simp only [plugOp] at hs
      cases h1 : M2.step st.2 l with
      | tau s1 l' =>
        simp only [h1, Act.tau.injEq] at hs
        obtain ⟨_, rfl⟩ := hs
        exact loLast_head _ _ _ rfl
      | ret =>
        simp only [h1] at hs
        split at hs
        · cases hs
        · rename_i hne
          simp only [Act.tau.injEq] at hs
          obtain ⟨_, rfl⟩ := hs
          exact (loLast_cons_ne _ _ (by simpa using hne)).symm
      | panic m => simp [h1] at hs
      | call o s1 l' =>
        simp only [h1] at hs
        split at hs
        all_goals first
          | (cases hs; done)
          | (split at hs <;> first | (cases hs; done) | (cases hs; exact loLast_head (.hi _) (.hi _) _ rfl))

theorem loLast_call {st st' : S1 × S2} {cfs cfs' : List (CFr L1 L2)} {o : Out γ}
    (hs : (plugOp j M1 M2).step st cfs = .call o st' cfs') : loLast cfs' = loLast cfs := by
  cases cfs with
  | nil => simp [plugOp] at hs
  | cons c rest =>
    cases c with
    | lo l =>
      simp only [plugOp] at hs
      cases h1 : M1.step st.1 l with
      | tau s1 l' => simp [h1] at hs
      | ret => simp only [h1] at hs; split at hs <;> cases hs
      | panic m => simp [h1] at hs
      | call o s1 l' =>
        simp only [h1] at hs
        split at hs
        all_goals first
          | (cases hs; done)
          | (cases hs; exact loLast_head (.lo _) (.lo _) _ rfl)
    | hi l =>
      simp only [plugOp] at hs
      cases h1 : M2.step st.2 l with
      | tau s1 l' => simp [h1] at hs
      | ret => simp only [h1] at hs; split at hs <;> cases hs
      | panic m => simp [h1] at hs
      | call o s1 l' =>
        simp only [h1] at hs
        split at hs
        all_goals first
          | (cases hs; done)
          | (cases hs; exact loLast_head (.hi _) (.hi _) _ rfl)
          | (split at hs <;> first | (cases hs; done) | (cases hs; exact loLast_head (.hi _) (.hi _) _ rfl))

def frLoc {L β : Type} : Frame L β → L | .run l => l | .wait _ l => l

theorem loLast_enter {i : In β} (h : loLast ((plugOp j M1 M2).enter i) = true) : (i = .srcGreet j) ∨ (∃ d, i = .srcDown j d) := by
  cases i with
  | subscribe k => simp [plugOp, loLast, isLo] at h
  | sinkUp k u => simp [plugOp, loLast, isLo] at h
  | srcGreet i =>
    by_cases hij : i = j
    · subst hij; exact .inl rfl
    · simp [plugOp, hij, loLast, isLo] at h
  | srcDown i d =>
    by_cases hij : i = j
    · subst hij; exact .inr ⟨d, rfl⟩
    · simp [plugOp, hij, loLast, isLo] at h

/-- a frame of the composite whose bottom component frame is `M₁`'s was entered from outside by upstream `j` (greeting or delivering):
upstream `j` has been subscribed to -/
theorem lo_bottom {s : Sys (S1 × S2) (List (CFr L1 L2)) β γ} (h : SReach (plugOp j M1 M2) s) :
    ∀ f ∈ s.stack, loLast (frLoc f) = true → s.g.ph.srcPh j ≠ .idle := by
  induction h with
  | init => intro f hf; simp [Sys.init] at hf
  | step ha hab ih =>
    cases hab with
    | op hop =>
      cases oStep_of_opStep hop with
      | tau hst =>
        intro f hf hl
        simp only [List.mem_cons] at hf
        rcases hf with rfl | hf
        · exact ih _ List.mem_cons_self (by simpa [frLoc, loLast_tau hst] using hl)
        · exact ih f (List.mem_cons_of_mem _ hf) hl
      | call hst =>
        intro f hf hl
        simp only [onOut_ph]
        apply onOut_srcPh_notIdle
        simp only [List.mem_cons] at hf
        rcases hf with rfl | hf
        · exact ih _ List.mem_cons_self (by simpa [frLoc, loLast_call hst] using hl)
        · exact ih f (List.mem_cons_of_mem _ hf) hl
      | ret hst => intro f hf hl; simp only [onRetO_ph]; exact ih f (List.mem_cons_of_mem _ hf) hl
      | panic hst => intro f hf hl; exact ih f (List.mem_cons_of_mem _ hf) hl
    | env henv _ =>
      cases henv with
      | @call st stk g tr c m hc hl =>
        intro f hf hlo
        simp only [onIn_ph]
        simp only [List.mem_cons] at hf
        rcases hf with rfl | hf
        · rcases loLast_enter (by simpa [frLoc] using hlo) with rfl | ⟨d, rfl⟩
          · simp [Ph.onIn]
          · cases d <;> simp [Ph.onIn]
            exact fun h => by simp [legalIn, h] at hl
        · exact onIn_srcPh_notIdle _ _ _ (ih f hf hlo)
      | @ret st stk g tr o l hl =>
        intro f hf hlo
        simp only [List.mem_cons] at hf
        rcases hf with rfl | hf
        · exact ih (.wait o l) List.mem_cons_self hlo
        · exact ih f (List.mem_cons_of_mem _ hf) hlo

end PlugOpGeneric

/-! ## Part 3: `plugOp` without `open2`

`PlugOpSafe.HypO.open2` asks `M₂` to keep a sink open whenever slot `j` is subscribed or live and `M₁` can run.  It is used once: when
`M₁` subscribes ITS upstream (the composite's upstream `j`), the composite's monitor wants one of the composite's sinks (`M₂`'s) open.
For `merge` with late greeters it is false (members 0 and 1 subscribed, both returned without greeting; 0 greets, the sink is greeted
and terminates: member 1 is still `subscribed`, no sink is open).  But a relay subscribes its upstream only INSIDE its own subscription,
before it has greeted: `SubIn1 M₁`.  Then (`subscribed_fresh`) `M₂` is still inside the call `subSrc j` in exactly the configuration
in which it made that call, and it made it without a violation — a sink was open.  No hypothesis on `M₂` beyond its safety is needed.

The proof is `PlugOpSafe.plugOp_inv` with one case changed (`step_lo'`, `subSrc 0`); `step_hi'`, `step_env'` and the induction are
copied verbatim because they take the hypothesis record as an argument. -/
section Defs
variable {S1 L1 S2 L2 β γ : Type}

/-- `PlugOpSafe.HypO.open2` -/
def Open2 (j : Nat) (M2 : Machine S2 L2 β γ) : Prop :=
  ∀ s, SReach M2 s → s.panicked = none →
    (s.stack = [] ∨ (∃ l r, s.stack = .wait (.subSrc j) l :: r) ∨ (∃ u l r, s.stack = .wait (.srcUp j u) l :: r)) →
    (s.g.ph.srcPh j = .subscribed ∨ s.g.ph.srcPh j = .live) → s.g.ph.anySinkOpen = true

/-- `M₁` subscribes its upstream only while its own sink is still waiting for its greeting (i.e. inside its own subscription) -/
def SubIn1 (M1 : Machine S1 L1 β β) : Prop :=
  ∀ st l k1 g tr st' l', SReach M1 ⟨st, .run l :: k1, g, tr, none⟩ → M1.step st l = .call (.subSrc 0) st' l' →
    g.ph.sinkPh 0 = .subscribed

/-- the hypotheses of `plugOp_basicSafe'`: those of `PlugOpSafe.HypO` with `open2` weakened to `Open2 j M₂ ∨ SubIn1 M₁` -/
structure HypL (j : Nat) (M1 : Machine S1 L1 β β) (M2 : Machine S2 L2 β γ) : Prop where
  lg : M2.shape.lateGreet = true → M1.shape.lateGreet = true
  noApp1 : ∀ st l b st' l', M1.step st l ≠ .call (.app b) st' l'
  oneSrc1 : ∀ st l i st' l', M1.step st l ≠ .call (.subSrc (i + 1)) st' l'
  sync : M2.shape.lateGreet = true ∨ ∀ s, SReach M1 s → s.stack = [] → s.g.ph.sinkPh 0 ≠ .subscribed
  opn : Open2 j M2 ∨ SubIn1 M1
  safe1 : ∀ s, SReach M1 s → BasicSafe s
  safe2 : ∀ s, SReach M2 s → BasicSafe s

theorem HypL.of_hypO {j : Nat} {M1 : Machine S1 L1 β β} {M2 : Machine S2 L2 β γ} (H : HypO j M1 M2) : HypL j M1 M2 :=
  ⟨H.lg, H.noApp1, H.oneSrc1, H.sync, .inl H.open2, H.safe1, H.safe2⟩

end Defs

section Steps
variable {S1 L1 S2 L2 β γ : Type} {M1 : Machine S1 L1 β β} {M2 : Machine S2 L2 β γ} {j : Nat}

theorem step_lo' (H : HypL j M1 M2) {st1 : S1} {st2 : S2} {l : L1} {rest : List (CFr L1 L2)}
    {stk : List (Frame (List (CFr L1 L2)) γ)} {g : G} {tr : List (Ev β γ)}
    {k1 : List (Frame L1 β)} {k2 : List (Frame L2 γ)} {g1 g2 : G} {tr1 : List (Ev β β)} {tr2 : List (Ev β γ)}
    {b : Sys (S1 × S2) (List (CFr L1 L2)) β γ}
    (hra : SReach (plugOp j M1 M2) ⟨(st1, st2), .run (.lo l :: rest) :: stk, g, tr, none⟩)
    (hr1 : SReach M1 ⟨st1, .run l :: k1, g1, tr1, none⟩) (hr2 : SReach M2 ⟨st2, k2, g2, tr2, none⟩)
    (hrel : RelO j .lo rest stk k1 k2) (hgh : PGO j g.ph g1.ph g2.ph)
    (hup : ∀ u l, Frame.wait (.srcUp j u) l ∈ k2 → NotPre (g1.ph.sinkPh 0))
    (hop : opStep (plugOp j M1 M2) ⟨(st1, st2), .run (.lo l :: rest) :: stk, g, tr, none⟩ = some b) :
    ∃ s1 s2, SReach M1 s1 ∧ SReach M2 s2 ∧ MatchO j b s1 s2 := by
  cases hst : M1.step st1 l with
  | tau s1' l' =>
    simp [opStep, plugOp, hst] at hop
    subst hop
    exact ⟨_, _, reach_op hr1 (.tau hst), hr2, ⟨rfl, rfl, rfl, rfl, hgh, .runLo hrel, hup⟩⟩
  | panic m =>
    have := (H.safe1 _ (reach_op hr1 (.panic hst))).2
    cases this
  | ret =>
    have hr1' := reach_op hr1 (.ret hst)
    cases rest with
    | nil =>
      simp [opStep, plugOp, hst] at hop
      subst hop
      exact ⟨_, _, hr1', hr2, ⟨rfl, rfl, rfl, rfl, by simpa using hgh, .turn hrel, by simpa using hup⟩⟩
    | cons c rest' =>
      simp [opStep, plugOp, hst] at hop
      subst hop
      cases hrel with
      | @intSub l2 _ _ k2' h =>
        have h2 : M2.shape.lateGreet = true ∨ g2.ph.srcPh j ≠ .subscribed := by
          rcases H.sync with hs | hs
          · exact .inl hs
          · right
            have h1 : g1.ph.sinkPh 0 ≠ .subscribed := by simpa using hs _ hr1' rfl
            rw [hgh.ifc]; exact fun h => h1 (toSrc_subscribed.1 h)
        have he := EnvStep.ret (M := M2) (st := st2) (stk := k2') (g := g2) (tr := tr2) (o := .subSrc j) (l := l2)
          (by rcases h2 with h2 | h2 <;> simp [legalRet, h2])
        refine ⟨_, _, hr1', reach_env hr2 he, ⟨rfl, rfl, rfl, rfl, by simpa using hgh, .runHi h, ?_⟩⟩
        simp only [onRetO_ph]
        exact up_mono hup (fun f hf => by
          rcases List.mem_cons.1 hf with rfl | hf
          · exact .inl ⟨_, rfl⟩
          · exact .inr (List.mem_cons_of_mem _ hf))
      | @intUp u l2 _ _ _ k2' h =>
        have he := EnvStep.ret (M := M2) (st := st2) (stk := k2') (g := g2) (tr := tr2) (o := .srcUp j u) (l := l2)
          (by simp [legalRet])
        refine ⟨_, _, hr1', reach_env hr2 he, ⟨rfl, rfl, rfl, rfl, by simpa using hgh, .runHi h, ?_⟩⟩
        simp only [onRetO_ph]
        exact up_mono hup (fun f hf => by
          rcases List.mem_cons.1 hf with rfl | hf
          · exact .inl ⟨_, rfl⟩
          · exact .inr (List.mem_cons_of_mem _ hf))
  | call o s1' l' =>
    have hr1' := reach_op hr1 (.call hst)
    have hv := (H.safe1 _ hr1').1
    simp only [onOut_ph] at hv
    have hupOut : ∀ o' : Out β, ∀ u l, Frame.wait (.srcUp j u) l ∈ k2 → NotPre ((g1.ph.onOut o').sinkPh 0) :=
      fun o' u l hm => (hup u l hm).onOut o'
    cases o with
    | greet k =>
      obtain ⟨hsub, heq⟩ := onOut_greet_ok _ _ hv
      cases k with
      | succ k => rw [hgh.sink1 k] at hsub; cases hsub
      | zero =>
        simp [opStep, plugOp, hst] at hop
        subst hop
        have hsub2 : g2.ph.srcPh j = .subscribed := by rw [hgh.ifc, hsub]; rfl
        have hctx : ∃ c, ctxOf k2 = some c ∧ legalIn M2.shape g2.ph c (.srcGreet j : In β) = true := by
          rcases hrel.lo_k2 rfl with h | ⟨l2, r, h⟩ | ⟨u, l2, r, h⟩
          · subst h
            cases hlg : M2.shape.lateGreet with
            | true => exact ⟨_, rfl, by simp [legalIn, hsub2, isTop, hlg]⟩
            | false =>
              obtain ⟨l0, r, hk⟩ := subscribed_top M2 hlg hr2 j hsub2
              cases hk
          · subst h; exact ⟨_, rfl, by simp [legalIn, hsub2, inSub]⟩
          · subst h; exact absurd hsub (hup u l2 List.mem_cons_self).2
        obtain ⟨c, hc, hl⟩ := hctx
        have he := EnvStep.call (M := M2) (st := st2) (stk := k2) (g := g2) (tr := tr2) (.srcGreet j) hc hl
        refine ⟨_, _, hr1', reach_env hr2 he,
          ⟨rfl, rfl, rfl, rfl, ?_, .runHi (.intLo (by simp [Internal1]) hrel), ?_⟩⟩
        · simp only [onOut_ph, onIn_ph, heq]
          exact hgh.setIfc .live
        · intro u l hm
          simp only [onOut_ph, heq]
          exact ⟨by simp, by simp⟩
    | down k d =>
      obtain ⟨hlive, heq⟩ := onOut_down_ok _ _ _ hv
      cases k with
      | succ k => rw [hgh.sink1 k] at hlive; cases hlive
      | zero =>
        simp [opStep, plugOp, hst] at hop
        subst hop
        have hlive2 : g2.ph.srcPh j = .live := by rw [hgh.ifc, hlive]; rfl
        have hctx : ∃ c, ctxOf k2 = some c ∧ legalIn M2.shape g2.ph c (.srcDown j d) = true := by
          rcases hrel.lo_k2 rfl with h | ⟨l2, r, h⟩ | ⟨u, l2, r, h⟩
          · subst h; exact ⟨_, rfl, by simp [legalIn, hlive2, isTop]⟩
          · subst h; exact ⟨_, rfl, by simp [legalIn, hlive2, inSub]⟩
          · subst h
            cases u with
            | pull => exact ⟨_, rfl, by simp [legalIn, hlive2, inPull]⟩
            | term =>
              have := wait_srcUp_disposed M2 hr2 (H.safe2 _ hr2).1 j .term l2 (by simp) (by simp)
              simp only at this; rw [hlive2] at this; cases this
            | err e =>
              have := wait_srcUp_disposed M2 hr2 (H.safe2 _ hr2).1 j (.err e) l2 (by simp) (by simp)
              simp only at this; rw [hlive2] at this; cases this
        obtain ⟨c, hc, hl⟩ := hctx
        have he := EnvStep.call (M := M2) (st := st2) (stk := k2) (g := g2) (tr := tr2) (.srcDown j d) hc hl
        refine ⟨_, _, hr1', reach_env hr2 he,
          ⟨rfl, rfl, rfl, rfl, ?_, .runHi (.intLo (by simp [Internal1]) hrel), ?_⟩⟩
        · simp only [onOut_ph, onIn_ph, heq]
          cases d with
          | data x => simpa [isFinal, Ph.onIn] using hgh
          | term => simpa [isFinal, Ph.onIn, toSrc] using hgh.setIfc .doneBySrc
          | err e => simpa [isFinal, Ph.onIn, toSrc] using hgh.setIfc .doneBySrc
        · simp only [onOut_ph]
          intro u l hm
          have : NotPre (g1.ph.sinkPh 0) := ⟨by rw [hlive]; decide, by rw [hlive]; decide⟩
          exact this.onOut _
    | subSrc i =>
      obtain ⟨hidle1, hopen1, heq⟩ := onOut_subSrc_ok _ _ hv
      cases i with
      | succ i => exact absurd hst (H.oneSrc1 _ _ _ _ _)
      | zero =>
        simp [opStep, plugOp, hst] at hop
        subst hop
        have hopenC : g.ph.anySinkOpen = true := by
          have hopen2 : g2.ph.anySinkOpen = true := by
            rcases H.opn with hO | hS
            · -- as in `PlugOpSafe.step_lo`: `M₂` keeps a sink open while slot `j` is subscribed or live
              obtain ⟨k, hk⟩ := (Ph.anySinkOpen_iff _).1 hopen1
              have hk0 : k = 0 := by
                cases k with
                | zero => rfl
                | succ k => rw [hgh.sink1 k] at hk; rcases hk with hk | hk <;> cases hk
              subst hk0
              have h2 : g2.ph.srcPh j = .subscribed ∨ g2.ph.srcPh j = .live := by
                rw [hgh.ifc]; rcases hk with hk | hk <;> rw [hk] <;> simp [toSrc]
              exact hO _ hr2 rfl (hrel.lo_k2 rfl) h2
            · -- `M₁` has not greeted `M₂` yet: `M₂` is still inside the call that subscribed slot `j`, where its sink is open
              have hsub1 : g1.ph.sinkPh 0 = .subscribed := hS _ _ _ _ _ _ _ hr1 hst
              rcases hrel.lo_k2 rfl with h | ⟨l2, r, h⟩ | ⟨u, l2, r, h⟩
              · subst h
                have hrest : rest = [] := by cases hrel <;> rfl
                subst hrest
                have := lo_bottom hra _ List.mem_cons_self (by simp [frLoc, loLast, isLo])
                exact absurd (hgh.srcj.trans hidle1) this
              · subst h
                have hsub2 : g2.ph.srcPh j = .subscribed := by rw [hgh.ifc, hsub1]; rfl
                exact (subscribed_fresh M2 hr2 (H.safe2 _ hr2).1 j hsub2).2 _ _ rfl
              · subst h; exact absurd hsub1 (hup u l2 List.mem_cons_self).2
          obtain ⟨k', hk'⟩ := (Ph.anySinkOpen_iff _).1 hopen2
          exact (Ph.anySinkOpen_iff _).2 ⟨k', by rw [hgh.sink k']; exact hk'⟩
        refine ⟨_, _, hr1', hr2, ⟨rfl, rfl, rfl, rfl, ?_, .turn (.extSub hrel), fun u' l0 hm => by simp only [onOut_ph]; exact hupOut _ u' l0 hm⟩⟩
        simp only [onOut_ph, heq, onOut_subSrc_eq (hgh.srcj.trans hidle1) hopenC]
        exact hgh.setSrcJ .subscribed
    | srcUp i u =>
      obtain ⟨hlive1, heq⟩ := onOut_srcUp_ok _ _ _ hv
      cases i with
      | succ i => rw [hgh.src1 i] at hlive1; cases hlive1
      | zero =>
        simp [opStep, plugOp, hst] at hop
        subst hop
        refine ⟨_, _, hr1', hr2, ⟨rfl, rfl, rfl, rfl, ?_, .turn (.extUp hrel), fun u' l0 hm => by simp only [onOut_ph]; exact hupOut _ u' l0 hm⟩⟩
        simp only [onOut_ph, heq, onOut_srcUp_eq u (hgh.srcj.trans hlive1)]
        cases u with
        | pull => exact hgh
        | term => exact hgh.setSrcJ .disposed
        | err e => exact hgh.setSrcJ .disposed
    | app b' => exact absurd hst (H.noApp1 _ _ _ _ _)


theorem step_hi' (H : HypL j M1 M2) {st1 : S1} {st2 : S2} {l : L2} {rest : List (CFr L1 L2)}
    {stk : List (Frame (List (CFr L1 L2)) γ)} {g : G} {tr : List (Ev β γ)}
    {k1 : List (Frame L1 β)} {k2 : List (Frame L2 γ)} {g1 g2 : G} {tr1 : List (Ev β β)} {tr2 : List (Ev β γ)}
    {b : Sys (S1 × S2) (List (CFr L1 L2)) β γ}
    (hr1 : SReach M1 ⟨st1, k1, g1, tr1, none⟩) (hr2 : SReach M2 ⟨st2, .run l :: k2, g2, tr2, none⟩)
    (hrel : RelO j .hi rest stk k1 k2) (hgh : PGO j g.ph g1.ph g2.ph)
    (hup : ∀ u l', Frame.wait (.srcUp j u) l' ∈ (Frame.run l :: k2 : List (Frame L2 γ)) → NotPre (g1.ph.sinkPh 0))
    (hop : opStep (plugOp j M1 M2) ⟨(st1, st2), .run (.hi l :: rest) :: stk, g, tr, none⟩ = some b) :
    ∃ s1 s2, SReach M1 s1 ∧ SReach M2 s2 ∧ MatchO j b s1 s2 := by
  have hup2 : ∀ u l', Frame.wait (.srcUp j u) l' ∈ k2 → NotPre (g1.ph.sinkPh 0) :=
    fun u l' hm => hup u l' (List.mem_cons_of_mem _ hm)
  have hupRun : ∀ (l0 : L2) u l', Frame.wait (.srcUp j u) l' ∈ (Frame.run l0 :: k2 : List (Frame L2 γ)) → NotPre (g1.ph.sinkPh 0) := by
    intro l0 u l' hm
    rcases List.mem_cons.1 hm with he | hm
    · cases he
    · exact hup2 u l' hm
  cases hst : M2.step st2 l with
  | tau s2' l' =>
    simp [opStep, plugOp, hst] at hop
    subst hop
    exact ⟨_, _, hr1, reach_op hr2 (.tau hst), ⟨rfl, rfl, rfl, rfl, hgh, .runHi hrel, hupRun l'⟩⟩
  | panic m =>
    have := (H.safe2 _ (reach_op hr2 (.panic hst))).2
    cases this
  | ret =>
    have hr2' := reach_op hr2 (.ret hst)
    cases rest with
    | nil =>
      simp [opStep, plugOp, hst] at hop
      subst hop
      exact ⟨_, _, hr1, hr2', ⟨rfl, rfl, rfl, rfl, by simpa using hgh, .turn hrel, hup2⟩⟩
    | cons c rest' =>
      simp [opStep, plugOp, hst] at hop
      subst hop
      cases hrel with
      | @intLo o l1 _ _ k1' _ ho h =>
        have he := EnvStep.ret (M := M1) (st := st1) (stk := k1') (g := g1) (tr := tr1) (o := o) (l := l1)
          (legalRet_internal1 _ _ ho)
        exact ⟨_, _, reach_env hr1 he, hr2', ⟨rfl, rfl, rfl, rfl, by simpa using hgh, .runLo h, hup2⟩⟩
  | call o s2' l' =>
    have hr2' := reach_op hr2 (.call hst)
    have hv := (H.safe2 _ hr2').1
    simp only [onOut_ph] at hv
    have hupWait : ∀ (o' : Out γ), (∀ u, o' ≠ .srcUp j u) →
        ∀ u l0, Frame.wait (.srcUp j u) l0 ∈ (Frame.wait o' l' :: k2 : List (Frame L2 γ)) → NotPre (g1.ph.sinkPh 0) := by
      intro o' hne u l0 hm
      rcases List.mem_cons.1 hm with he | hm
      · cases he; exact absurd rfl (hne u)
      · exact hup2 u l0 hm
    cases o with
    | subSrc i =>
      obtain ⟨hidle2, hopen2, heq⟩ := onOut_subSrc_ok _ _ hv
      by_cases hij : i = j
      · subst hij
        simp [opStep, plugOp, hst] at hop
        subst hop
        have hidle1 : g1.ph.sinkPh 0 = .idle := toSrc_idle.1 (hgh.ifc ▸ hidle2)
        have hall : ∀ k, g1.ph.sinkPh k = .idle := by
          intro k; cases k with
          | zero => exact hidle1
          | succ k => exact hgh.sink1 k
        have hk1 := (idle_empty M1 hr1 hall).1
        simp only at hk1
        subst hk1
        have he := EnvStep.call (M := M1) (st := st1) (stk := []) (g := g1) (tr := tr1)
          (.subscribe 0) rfl (by simp [legalIn, isTop, hidle1])
        refine ⟨_, _, reach_env hr1 he, hr2', ⟨rfl, rfl, rfl, rfl, ?_, .runLo (.intSub hrel), ?_⟩⟩
        · simp only [onOut_ph, onIn_ph, heq]
          exact hgh.setIfc .subscribed
        · intro u l0 hm
          rcases List.mem_cons.1 hm with he | hm
          · cases he
          · exact absurd hidle1 (hup2 u l0 hm).1
      · simp [opStep, plugOp, hst, hij] at hop
        subst hop
        have hopenC : g.ph.anySinkOpen = true := by
          obtain ⟨k, hk⟩ := (Ph.anySinkOpen_iff _).1 hopen2
          exact (Ph.anySinkOpen_iff _).2 ⟨k, by rw [hgh.sink k]; exact hk⟩
        refine ⟨_, _, hr1, hr2', ⟨rfl, rfl, rfl, rfl, ?_, .turn (.extHi (by simpa [ExtOut] using hij) hrel), ?_⟩⟩
        · simp only [onOut_ph, heq, onOut_subSrc_eq ((hgh.src i hij).trans hidle2) hopenC]
          exact hgh.setSrcExt i hij .subscribed
        · exact hupWait _ (fun u h => by cases h)
    | srcUp i u =>
      obtain ⟨hlive2, heq⟩ := onOut_srcUp_ok _ _ _ hv
      by_cases hij : i = j
      · subst hij
        simp [opStep, plugOp, hst] at hop
        subst hop
        have hlive1 : g1.ph.sinkPh 0 = .live := toSrc_live.1 (hgh.ifc ▸ hlive2)
        have hctx : ∃ c, ctxOf k1 = some c ∧ legalIn M1.shape g1.ph c (.sinkUp 0 u : In β) = true := by
          rcases hrel.hi_k1 rfl with h | ⟨o, l1, r, h, ho⟩
          · subst h; exact ⟨_, rfl, by simp [legalIn, hlive1, isTop]⟩
          · subst h
            cases o with
            | greet k =>
              cases k with
              | zero => exact ⟨_, rfl, by simp [legalIn, hlive1, inGreet]⟩
              | succ k => simp [Internal1] at ho
            | down k d =>
              cases k with
              | succ k => simp [Internal1] at ho
              | zero =>
                cases d with
                | data x => exact ⟨_, rfl, by simp [legalIn, hlive1, inData]⟩
                | term =>
                  have := wait_down_done M1 hr1 (H.safe1 _ hr1).1 0 .term l1 (by simp) rfl
                  simp only at this; rw [hlive1] at this; cases this
                | err e =>
                  have := wait_down_done M1 hr1 (H.safe1 _ hr1).1 0 (.err e) l1 (by simp) rfl
                  simp only at this; rw [hlive1] at this; cases this
            | subSrc i => simp [Internal1] at ho
            | srcUp i u => simp [Internal1] at ho
            | app b => simp [Internal1] at ho
        obtain ⟨c, hc, hl⟩ := hctx
        have he := EnvStep.call (M := M1) (st := st1) (stk := k1) (g := g1) (tr := tr1) (.sinkUp 0 u) hc hl
        have hnp : NotPre (g1.ph.sinkPh 0) := ⟨by rw [hlive1]; decide, by rw [hlive1]; decide⟩
        refine ⟨_, _, reach_env hr1 he, hr2', ⟨rfl, rfl, rfl, rfl, ?_, .runLo (.intUp hrel), ?_⟩⟩
        · simp only [onOut_ph, onIn_ph, heq]
          cases u with
          | pull => simpa [Ph.onIn, afterUp] using hgh
          | term => simpa [Ph.onIn, toSrc, afterUp] using hgh.setIfc .doneBySelf
          | err e => simpa [Ph.onIn, toSrc, afterUp] using hgh.setIfc .doneBySelf
        · intro u' l0 _
          simp only [onIn_ph]
          exact hnp.onIn hl
      · simp [opStep, plugOp, hst, hij] at hop
        subst hop
        refine ⟨_, _, hr1, hr2', ⟨rfl, rfl, rfl, rfl, ?_, .turn (.extHi (by simpa [ExtOut] using hij) hrel), ?_⟩⟩
        · simp only [onOut_ph, heq, onOut_srcUp_eq u ((hgh.src i hij).trans hlive2)]
          cases u with
          | pull => exact hgh
          | term => exact hgh.setSrcExt i hij .disposed
          | err e => exact hgh.setSrcExt i hij .disposed
        · exact hupWait _ (fun u' h => by cases h; exact hij rfl)
    | greet k =>
      obtain ⟨hsub, heq⟩ := onOut_greet_ok _ _ hv
      simp [opStep, plugOp, hst] at hop
      subst hop
      refine ⟨_, _, hr1, hr2', ⟨rfl, rfl, rfl, rfl, ?_, .turn (.extHi (by simp [ExtOut]) hrel), ?_⟩⟩
      · simp only [onOut_ph, heq, onOut_greet_eq ((hgh.sink k).trans hsub)]
        exact hgh.setSinkExt k .live
      · exact hupWait _ (fun u' h => by cases h)
    | down k d =>
      obtain ⟨hlive, heq⟩ := onOut_down_ok _ _ _ hv
      simp [opStep, plugOp, hst] at hop
      subst hop
      refine ⟨_, _, hr1, hr2', ⟨rfl, rfl, rfl, rfl, ?_, .turn (.extHi (by simp [ExtOut]) hrel), ?_⟩⟩
      · simp only [onOut_ph, heq, onOut_down_eq d ((hgh.sink k).trans hlive)]
        cases hf : isFinal d with
        | true => simpa using hgh.setSinkExt k .doneBySrc
        | false => simpa using hgh
      · exact hupWait _ (fun u' h => by cases h)
    | app b' =>
      simp [opStep, plugOp, hst] at hop
      subst hop
      refine ⟨_, _, hr1, hr2', ⟨rfl, rfl, rfl, rfl, ?_, .turn (.extHi (by simp [ExtOut]) hrel), ?_⟩⟩
      · simpa [Ph.onOut] using hgh
      · exact hupWait _ (fun u' h => by cases h)

theorem step_env' (H : HypL j M1 M2) {a b : Sys (S1 × S2) (List (CFr L1 L2)) β γ} {s1 : Sys S1 L1 β β} {s2 : Sys S2 L2 β γ}
    {m : Move β} (hr1 : SReach M1 s1) (hr2 : SReach M2 s2) (hm : MatchO j a s1 s2)
    (he : EnvStep (plugOp j M1 M2) m a b) :
    ∃ s1' s2', SReach M1 s1' ∧ SReach M2 s2' ∧ MatchO j b s1' s2' := by
  obtain ⟨st1, k1, g1, tr1, p1⟩ := s1
  obtain ⟨st2, k2, g2, tr2, p2⟩ := s2
  obtain ⟨hst, _, hp1, hp2, hgh, hsm, hup⟩ := hm
  simp only at hp1 hp2
  subst hp1 hp2
  cases he with
  | @call st stk g tr c i hc hl =>
    simp only at hst hgh hsm hup
    subst hst
    have hsh : (plugOp j M1 M2).shape = M2.shape := rfl
    rw [hsh] at hl
    cases hsm with
    | runLo h => simp [ctxOf] at hc
    | runHi h => simp [ctxOf] at hc
    | turn hrel =>
      -- the four shapes of an environment turn
      cases hrel with
      | nil =>
        simp [ctxOf] at hc; subst hc
        cases i with
        | subscribe k =>
          exact env_hi hr1 hr2 .nil hgh hup rfl (by simpa [legalIn, hgh.sink k] using hl) rfl
            (by simpa [Ph.onIn] using hgh.setSinkExt k .subscribed)
        | sinkUp k u =>
          refine env_hi hr1 hr2 .nil hgh hup rfl (by simpa [legalIn, hgh.sink k] using hl) rfl ?_
          cases u with
          | pull => exact hgh
          | term => exact hgh.setSinkExt k .doneBySelf
          | err e => exact hgh.setSinkExt k .doneBySelf
        | srcGreet i =>
          by_cases hij : i = j
          · subst hij
            have hlg : M2.shape.lateGreet = true := by
              cases h : M2.shape.lateGreet with
              | true => rfl
              | false => simp [legalIn, inSub, h] at hl
            refine env_lo (.srcGreet 0) hr1 hr2 .nil hup rfl
              (by simp [legalIn, isTop, H.lg hlg, ← hgh.srcj, legal_srcGreet hl]) (by simp [plugOp]) ?_
            simpa [Ph.onIn] using hgh.setSrcJ .live
          · exact env_hi hr1 hr2 .nil hgh hup rfl (by simpa [legalIn, hgh.src i hij] using hl) (by simp [plugOp, hij])
              (by simpa [Ph.onIn] using hgh.setSrcExt i hij .live)
        | srcDown i d =>
          by_cases hij : i = j
          · subst hij
            refine env_lo (.srcDown 0 d) hr1 hr2 .nil hup rfl
              (by simp [legalIn, isTop, ← hgh.srcj, legal_srcDown hl]) (by simp [plugOp]) ?_
            cases d with
            | data x => exact hgh
            | term => exact hgh.setSrcJ .ended
            | err e => exact hgh.setSrcJ .ended
          · refine env_hi hr1 hr2 .nil hgh hup rfl (by simpa [legalIn, hgh.src i hij] using hl) (by simp [plugOp, hij]) ?_
            cases d with
            | data x => exact hgh
            | term => exact hgh.setSrcExt i hij .ended
            | err e => exact hgh.setSrcExt i hij .ended
      | @extSub l1 cfs _ k1' _ h =>
        simp [ctxOf] at hc; subst hc
        cases i with
        | subscribe k => simp [legalIn, isTop] at hl
        | sinkUp k u => simp [legalIn, isTop, inGreet, inData] at hl
        | srcGreet i =>
          have hij : i = j := by
            simp only [legalIn, inSub, isTop, Bool.and_false, Bool.or_false, Bool.and_eq_true, beq_iff_eq] at hl
            exact hl.2
          subst hij
          refine env_lo (.srcGreet 0) hr1 hr2 (.extSub h) hup rfl
            (by simp [legalIn, inSub, ← hgh.srcj, legal_srcGreet hl]) (by simp [plugOp]) ?_
          simpa [Ph.onIn] using hgh.setSrcJ .live
        | srcDown i d =>
          have hij : i = j := by
            simp only [legalIn, inSub, isTop, inPull, Bool.false_or, Bool.or_false, Bool.and_eq_true, beq_iff_eq] at hl
            exact hl.2
          subst hij
          refine env_lo (.srcDown 0 d) hr1 hr2 (.extSub h) hup rfl
            (by simp [legalIn, inSub, ← hgh.srcj, legal_srcDown hl]) (by simp [plugOp]) ?_
          cases d with
          | data x => exact hgh
          | term => exact hgh.setSrcJ .ended
          | err e => exact hgh.setSrcJ .ended
      | @extUp u l1 cfs _ k1' _ h =>
        simp [ctxOf] at hc; subst hc
        cases i with
        | subscribe k => simp [legalIn, isTop] at hl
        | sinkUp k u' => simp [legalIn, isTop, inGreet, inData] at hl
        | srcGreet i => simp [legalIn, isTop, inSub] at hl
        | srcDown i d =>
          cases u with
          | pull =>
            have hij : i = j := by
              simp only [legalIn, inSub, isTop, inPull, Bool.false_or, Bool.and_eq_true, beq_iff_eq] at hl
              exact hl.2
            subst hij
            refine env_lo (.srcDown 0 d) hr1 hr2 (.extUp h) hup rfl
              (by simp [legalIn, inPull, ← hgh.srcj, legal_srcDown hl]) (by simp [plugOp]) ?_
            cases d with
            | data x => exact hgh
            | term => exact hgh.setSrcJ .ended
            | err e => exact hgh.setSrcJ .ended
          | term => simp [legalIn, isTop, inSub, inPull] at hl
          | err e => simp [legalIn, isTop, inSub, inPull] at hl
      | @extHi o l2 cfs _ _ k2' ho h =>
        simp [ctxOf] at hc; subst hc
        have hrel' : RelO j .hi [] (Frame.wait o (CFr.hi l2 :: cfs) :: _) k1 (Frame.wait o l2 :: k2') := .extHi ho h
        cases i with
        | subscribe k => simp [legalIn, isTop] at hl
        | sinkUp k u =>
          refine env_hi hr1 hr2 hrel' hgh hup rfl (by simpa [legalIn, hgh.sink k] using hl) rfl ?_
          cases u with
          | pull => exact hgh
          | term => exact hgh.setSinkExt k .doneBySelf
          | err e => exact hgh.setSinkExt k .doneBySelf
        | srcGreet i =>
          have hij : i ≠ j := by
            rintro rfl
            cases o <;> simp [legalIn, isTop, inSub, ExtOut] at hl ho
            exact ho hl.2.symm
          exact env_hi hr1 hr2 hrel' hgh hup rfl (by simpa [legalIn, hgh.src i hij] using hl) (by simp [plugOp, hij])
            (by simpa [Ph.onIn] using hgh.setSrcExt i hij .live)
        | srcDown i d =>
          have hij : i ≠ j := by
            rintro rfl
            cases o with
            | subSrc i' => simp [legalIn, isTop, inSub, inPull, ExtOut] at hl ho; exact ho hl.2.symm
            | srcUp i' u' => cases u' <;> simp [legalIn, isTop, inSub, inPull, ExtOut] at hl ho; exact ho hl.2.symm
            | greet k => simp [legalIn, isTop, inSub, inPull] at hl
            | down k d' => simp [legalIn, isTop, inSub, inPull] at hl
            | app b' => simp [legalIn, isTop, inSub, inPull] at hl
          refine env_hi hr1 hr2 hrel' hgh hup rfl (by simpa [legalIn, hgh.src i hij] using hl) (by simp [plugOp, hij]) ?_
          cases d with
          | data x => exact hgh
          | term => exact hgh.setSrcExt i hij .ended
          | err e => exact hgh.setSrcExt i hij .ended
  | @ret st stk g tr o l hl =>
    simp only at hst hgh hsm hup
    subst hst
    have hsh : (plugOp j M1 M2).shape = M2.shape := rfl
    rw [hsh] at hl
    cases hsm with
    | turn hrel =>
      cases hrel with
      | @extSub l1 cfs _ k1' _ h =>
        have hl1 : legalRet M1.shape g1.ph (.inCall (.subSrc 0) : Ctx β) = true := by
          cases hlg : M2.shape.lateGreet with
          | true => simp [legalRet, H.lg hlg]
          | false =>
            simp only [legalRet, hlg, Bool.false_or, bne_iff_ne, ne_eq] at hl
            simp [legalRet, ← hgh.srcj, hl]
        have he1 := EnvStep.ret (M := M1) (st := st1) (stk := k1') (g := g1) (tr := tr1) (o := .subSrc 0) (l := l1) hl1
        exact ⟨_, _, reach_env hr1 he1, hr2, ⟨rfl, rfl, rfl, rfl, hgh, .runLo h, hup⟩⟩
      | @extUp u l1 cfs _ k1' _ h =>
        have he1 := EnvStep.ret (M := M1) (st := st1) (stk := k1') (g := g1) (tr := tr1) (o := .srcUp 0 u) (l := l1)
          (by simp [legalRet])
        exact ⟨_, _, reach_env hr1 he1, hr2, ⟨rfl, rfl, rfl, rfl, hgh, .runLo h, hup⟩⟩
      | @extHi _ l2 cfs _ _ k2' ho h =>
        have he2 := EnvStep.ret (M := M2) (st := st2) (stk := k2') (g := g2) (tr := tr2) (o := o) (l := l2)
          (legalRet_ext ho hgh.src hl)
        refine ⟨_, _, hr1, reach_env hr2 he2, ⟨rfl, rfl, rfl, rfl, hgh, .runHi h, ?_⟩⟩
        intro u l' hm
        rcases List.mem_cons.1 hm with he | hm
        · cases he
        · exact hup u l' (List.mem_cons_of_mem _ hm)

/-- **THE INVARIANT** for `plugOp` -/
theorem plugOp_inv' (H : HypL j M1 M2) :
    ∀ s, SReach (plugOp j M1 M2) s → ∃ s1 s2, SReach M1 s1 ∧ SReach M2 s2 ∧ MatchO j s s1 s2 := by
  intro s hs
  induction hs with
  | init =>
    refine ⟨Sys.init M1, Sys.init M2, .init, .init, ⟨rfl, rfl, rfl, rfl, ?_, .turn (sd := .hi) .nil, ?_⟩⟩
    · exact ⟨rfl, fun k => by simp [Sys.init], fun i _ => by simp [Sys.init], by simp [Sys.init], by simp [Sys.init, toSrc],
        fun i => by simp [Sys.init], fun k => by simp [Sys.init]⟩
    · intro u l hm; simp [Sys.init] at hm
  | @step a b ha hab ih =>
    obtain ⟨s1, s2, hr1, hr2, hm⟩ := ih
    cases hab with
    | env he _ => exact step_env' H hr1 hr2 hm he
    | op hop =>
      obtain ⟨st, stk, g, tr, p⟩ := a
      obtain ⟨st1, k1, g1, tr1, p1⟩ := s1
      obtain ⟨st2, k2, g2, tr2, p2⟩ := s2
      obtain ⟨hst, hp, hp1, hp2, hgh, hsm, hup⟩ := hm
      simp only at hst hp hp1 hp2 hgh hsm hup
      subst hst hp hp1 hp2
      cases hsm with
      | turn hrel =>
        have hturn : (ctxOf stk).isSome = true := by cases hrel <;> simp [ctxOf]
        have := opStep_none_of_envTurn (M := plugOp j M1 M2) (s := ⟨(st1, st2), stk, g, tr, none⟩) ⟨rfl, hturn⟩
        rw [this] at hop; cases hop
      | runLo hrel => exact step_lo' H ha hr1 hr2 hrel hgh hup hop
      | runHi hrel => exact step_hi' H hr1 hr2 hrel hgh hup hop

/-- **phase-level safety of `plugOp`** under `HypL` -/
theorem plugOp_basicSafe' (H : HypL j M1 M2) : ∀ s, SReach (plugOp j M1 M2) s → BasicSafe s := by
  intro s hs
  obtain ⟨s1, s2, _, _, hm⟩ := plugOp_inv' H s hs
  exact ⟨hm.gh.v, hm.p⟩

end Steps

/-! ## Part 4: relays and `take` in a slot of `merge!` -/
section Instances

/-- an invariant stated at environment turns holds right after every call the operator makes -/
theorem inv_after_call {St Loc α β : Type} (M : Machine St Loc α β) (Inv : Sys St Loc α β → Prop)
    (hinit : Inv (Sys.init M)) (hturn : ∀ s, Inv s → EnvTurn s)
    (hstep : ∀ s s' m, Inv s → EnvStep M m s s' → ∃ n, Inv (advance M n s'))
    {st : St} {l : Loc} {k1 : List (Frame Loc β)} {g : G} {tr : List (Ev α β)} {o : Out β} {st' : St} {l' : Loc}
    (hr : SReach M ⟨st, .run l :: k1, g, tr, none⟩) (hst : M.step st l = .call o st' l') :
    Inv ⟨st', .wait o l' :: k1, g.onOut M.shape o, .out o :: tr, none⟩ :=
  inv_at_turn M Inv hinit hturn hstep (reach_op hr (.call hst)) ⟨rfl, by simp [ctxOf]⟩

/-- relays subscribe their upstream only inside their own subscription -/
theorem relay_subIn {σ α : Type} (k : Relay.Kind σ α α) (hk : k.slotted = false → ∀ s a, (k.xfer s a).2 ≠ none) :
    SubIn1 (late (Relay.machine k)) := by
  intro st l k1 g tr st' l' hr hst
  obtain ⟨_, hv, _, _, hm⟩ := inv_after_call (late (Relay.machine k)) (Relay.Late.Inv k) (Relay.Late.inv_init k)
    (fun s hi => (Relay.Late.inv_turn k s hi).1) (Relay.Late.inv_step k hk) hr hst
  simp only [onOut_ph] at hv hm
  obtain ⟨_, _, he⟩ := onOut_subSrc_ok _ _ hv
  rw [he] at hm
  cases hm with
  | m1 _ _ h => simp at h
  | m2 h _ _ => simpa using h
  | m2' _ _ h => simp at h
  | m3 _ h _ _ => simp at h
  | m4 _ h _ => simp at h
  | m5 _ h _ => simp at h

theorem take_subIn {α : Type} (max : Nat) : SubIn1 (late (Take.machine α max)) := by
  intro st l k1 g tr st' l' hr hst
  obtain ⟨_, hv, _, _, _, hm⟩ := inv_after_call (late (Take.machine α max)) (Take.Late.Inv max) (Take.Late.inv_init max)
    (fun s hi => (Take.Late.inv_turn max s hi).1) (Take.Late.inv_step max) hr hst
  simp only [onOut_ph] at hv hm
  obtain ⟨_, _, he⟩ := onOut_subSrc_ok _ _ hv
  rw [he] at hm
  cases hm with
  | m1 _ _ h => simp at h
  | m2 h _ _ _ _ _ => simpa using h
  | m2' _ _ _ _ _ h => simp at h
  | m3 _ h _ _ _ _ => simp at h
  | m4 _ h _ _ => simp at h
  | m5 _ h _ _ => simp at h
  | m6 _ h _ _ _ => simp at h
  | m7 _ h _ _ => simp at h

/-- the hypotheses of `plugOp_basicSafe'` for a relay in slot `j` of `merge!` (late greeters admitted) -/
theorem hypL_relay_merge {σ α : Type} (k : Relay.Kind σ α α) (hk : k.slotted = false → ∀ s a, (k.xfer s a).2 ≠ none) (n j : Nat) :
    HypL j (late (Relay.machine k)) (Merge.machine α n true) :=
  ⟨fun _ => rfl, relay_noApp k, relay_oneSrc k, .inl rfl, .inr (relay_subIn k hk), Relay.relay_basicSafe_late k hk,
    Merge.merge_basicSafe n⟩

/-- the hypotheses of `plugOp_basicSafe'` for `take(max)` in slot `j` of `merge!` (late greeters admitted) -/
theorem hypL_take_merge {α : Type} (max n j : Nat) : HypL j (late (Take.machine α max)) (Merge.machine α n true) :=
  ⟨fun _ => rfl, take_noApp max, take_oneSrc max, .inl rfl, .inr (take_subIn max), Take.take_basicSafe_late max,
    Merge.merge_basicSafe n⟩

/-- **a relay (map / filter / scan / skip) as a member of `merge!`**: `merge!(…, relay(sⱼ), …)`, members may greet late -/
theorem plugOp_relay_merge_basicSafe {σ α : Type} (k : Relay.Kind σ α α) (hk : k.slotted = false → ∀ s a, (k.xfer s a).2 ≠ none)
    (n j : Nat) : ∀ s, SReach (plugOp j (late (Relay.machine k)) (Merge.machine α n true)) s → BasicSafe s :=
  plugOp_basicSafe' (hypL_relay_merge k hk n j)

/-- **`take(max)` as a member of `merge!`**: `merge!(…, take(max)(sⱼ), …)`, members may greet late -/
theorem plugOp_take_merge_basicSafe {α : Type} (max n j : Nat) :
    ∀ s, SReach (plugOp j (late (Take.machine α max)) (Merge.machine α n true)) s → BasicSafe s :=
  plugOp_basicSafe' (hypL_take_merge max n j)

/-- `merge!(take(2)(a), b)` -/
theorem merge_take2_basicSafe :
    ∀ s, SReach (plugOp 0 (late (Take.machine Int 2)) (Merge.machine Int 2 true)) s → BasicSafe s :=
  plugOp_take_merge_basicSafe 2 2 0

/-- `plugOp` does not look at the member operator's shape (the composite has `M₂`'s): `late` only records under which environment the
member must be safe -/
theorem plugOp_late {S1 L1 S2 L2 β γ : Type} (j : Nat) (M1 : Machine S1 L1 β β) (M2 : Machine S2 L2 β γ) :
    plugOp j (late M1) M2 = plugOp j M1 M2 := rfl

/-- `merge!(take(2)(a), b)`, with the member as it is defined in `Ops/Take.lean` -/
theorem merge_take2_basicSafe' :
    ∀ s, SReach (plugOp 0 (Take.machine Int 2) (Merge.machine Int 2 true)) s → BasicSafe s :=
  merge_take2_basicSafe

/-- `merge!(a, filter(p)(b))` -/
example (p : Int → Bool) :
    ∀ s, SReach (plugOp 1 (late (Relay.machine (Relay.filter p))) (Merge.machine Int 2 true)) s → BasicSafe s :=
  plugOp_relay_merge_basicSafe _ (fun h => by simp [Relay.filter] at h) 2 1

/-- `plugOp_basicSafe'` generalises `PlugOpSafe.plugOp_basicSafe` -/
example {S1 L1 S2 L2 β γ : Type} {M1 : Machine S1 L1 β β} {M2 : Machine S2 L2 β γ} {j : Nat} (H : HypO j M1 M2) :
    ∀ s, SReach (plugOp j M1 M2) s → BasicSafe s := plugOp_basicSafe' (.of_hypO H)

/-- `PlugOpSafe.HypO.open2` is FALSE for `merge` with late greeters (so `PlugOpSafe.plugOp_basicSafe` cannot be instantiated with
`M₂ = merge`): `S0 R R G0 U0t R R` — both members return from their subscription without greeting; member 0 greets at top level, the
sink is greeted and terminates inside its greeting; back at top level member 1 is still `subscribed` and no sink is open. -/
theorem merge_not_open2 : ¬ Open2 1 (Merge.machine Nat 2 true) := by
  intro h
  obtain ⟨s, hr, hp⟩ := Thm.witness_of_script (Merge.machine Nat 2 true) 16
    [.call (.subscribe 0), .ret, .ret, .call (.srcGreet 0), .call (.sinkUp 0 .term), .ret, .ret]
    (fun s => s.panicked.isNone && s.stack.isEmpty && decide (s.g.ph.srcPh 1 = .subscribed) && !s.g.ph.anySinkOpen) (by decide)
  simp only [Bool.and_eq_true, Option.isNone_iff_eq_none, List.isEmpty_iff, decide_eq_true_eq, Bool.not_eq_true'] at hp
  obtain ⟨⟨⟨h1, h2⟩, h3⟩, h4⟩ := hp
  have := h s hr h1 (.inl h2) (.inl h3)
  rw [h4] at this; cases this

end Instances

end LateMember
end Cb

/-!
## Report

Proved (no `sorry`, axioms `propext`, `Classical.choice`, `Quot.sound` at most):

* `Relay.relay_basicSafe_late`, `Take.take_basicSafe_late`: the operators of `Ops/Relay.lean`, `Ops/Take.lean` with `lateGreet := true`
  are `BasicSafe` at every reachable configuration.
* `LateMember.merge_not_open2`: `HypO.open2` (in its restricted form) is false for `Merge.machine Nat 2 true`, slot 1 — kernel-checked
  replay of `S0 R R G0 U0t R R`.  So `PlugOpSafe.plugOp_basicSafe` cannot be instantiated with `M₂ = merge` (late greeters).
* `LateMember.plugOp_basicSafe'` under `HypL` (= `HypO` with `open2` replaced by `Open2 j M₂ ∨ SubIn1 M₁`); `HypL.of_hypO`: it
  generalises `plugOp_basicSafe`.  What makes `SubIn1` sufficient:
  - `subscribed_fresh` (every machine): while upstream `i` is `subscribed`, a frame `wait (subSrc i) _` can only be the top of the
    stack, and then a sink is open (nothing has happened since the operator made that call without a violation);
  - `lo_bottom` (every `plugOp`): `M₁` running with `M₂` at top level was entered by upstream `j` itself, hence `srcPh j ≠ idle` and
    `M₁` is not about to subscribe it; while `M₂` has a message to slot `j` in flight, `M₁`'s sink has been greeted (`MatchO.up`).
* `relay_subIn`, `take_subIn`, `hypL_relay_merge`, `hypL_take_merge`: all fields of `HypL` for `M₂ = Merge.machine α n true`, every
  `n`, every slot `j`; `plugOp_relay_merge_basicSafe`, `plugOp_take_merge_basicSafe`, `merge_take2_basicSafe`.

Not done: nothing of the task is left open.  `step_hi'`, `step_env'`, `plugOp_inv'` are verbatim copies of `PlugOpSafe.step_hi`,
`step_env`, `plugOp_inv` (they take the hypothesis record as an argument); if `HypO.open2` in `PlugOpSafe.lean` is changed to
`Open2 j M₂ ∨ SubIn1 M₁` and `step_lo` gets the argument `hra` and the `subSrc 0` case of `step_lo'`, the copies can be deleted.
-/

#print axioms Cb.Relay.relay_basicSafe_late
#print axioms Cb.Take.take_basicSafe_late
#print axioms Cb.LateMember.subscribed_fresh
#print axioms Cb.LateMember.lo_bottom
#print axioms Cb.LateMember.plugOp_inv'
#print axioms Cb.LateMember.plugOp_basicSafe'
#print axioms Cb.LateMember.plugOp_relay_merge_basicSafe
#print axioms Cb.LateMember.plugOp_take_merge_basicSafe
#print axioms Cb.LateMember.merge_take2_basicSafe
#print axioms Cb.LateMember.merge_take2_basicSafe'
#print axioms Cb.LateMember.merge_not_open2
