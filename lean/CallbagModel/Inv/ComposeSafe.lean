import CallbagModel.Inv.Ghost
import CallbagModel.Ops.Compose
import CallbagModel.Inv.Relay
import CallbagModel.Inv.Take
/-!
# Assume–guarantee: a pipeline of two safe operators is safe

`compose M₁ M₂` is `pipe!(source, op₁, op₂)` as one machine.  Each component is the other's environment, and what makes that
environment conformant is the other's safety: `M₁` free of C01–C03 violations is a conformant SOURCE for `M₂`, `M₂` free of C04
violations is a conformant SINK for `M₁`.

* `compose_basicSafe`  the theorem: `BasicSafe` of both components (against every conformant environment) gives `BasicSafe` of the
  pipeline, under five side conditions (see its docstring).
* `compose_inv`        the invariant behind it, at EVERY small-step reachable configuration `s` of the pipeline:
  `∃ s₁ s₂, SReach M₁ s₁ ∧ SReach M₂ s₂ ∧ Match s s₁ s₂` — a PROJECTION onto reachable configurations of the components, each with
  its own ghost.  `Match`: operator states agree; `SM` relates the three call stacks (`Rel`: the composite's stack of component
  frames is an interleaving of the two component stacks in which an internal call puts the OTHER component on top and an external
  call can only be re-entered by the SAME component); `GhostRel`: external sinks are `M₂`'s sinks, external upstreams are `M₁`'s,
  and on the internal interface `M₂.srcPh 0 = toSrc (M₁.sinkPh 0)`.
* `step_lo`, `step_hi`, `step_env`  every micro-step of the composite is matched: a step of `M₁` (resp. `M₂`); an environment
  move of the composite is the same move on the component that owns that boundary; an INTERNAL call is an operator step of the
  caller and a LEGAL environment call on the callee; an internal return is an operator return of the callee and a legal
  environment return on the caller.
* Part 1: four facts about every machine under every conformant environment (`subscribed_top`, `idle_empty`,
  `wait_srcUp_disposed`, `wait_down_done`) — they turn "the caller recorded no violation" into "the callee's context is legal".
* `Pipeable`, `Pipeable.compose`  the side conditions are themselves preserved by `compose`, so the theorem iterates to pipelines
  of any length and bracketing; `Relay.pipeable`, `Take.pipeable` discharge them for map / filter / scan / skip / take.

Why `hopen` cannot be dropped: let `M₂`, on `Terminate` from its sink, first `Pull` its upstream and only then `Terminate` it (no
phase-level violation), and let `M₁` subscribe to a further upstream when pulled (no violation: its sink `M₂` is live).  The
pipeline then subscribes upstream after its only sink has gone: `subAfterOver`.  Neither component can see this.
-/
namespace Cb
namespace ComposeSafe

/-! ## Part 1: facts about every machine under every conformant environment -/
section Generic
variable {St Loc α β : Type}

/-- operator micro-steps as a relation on explicit configurations -/
inductive OStep (M : Machine St Loc α β) : Sys St Loc α β → Sys St Loc α β → Prop where
  | tau {st l stk g tr s' l'} : M.step st l = .tau s' l' →
      OStep M ⟨st, .run l :: stk, g, tr, none⟩ ⟨s', .run l' :: stk, g, tr, none⟩
  | call {st l stk g tr o s' l'} : M.step st l = .call o s' l' →
      OStep M ⟨st, .run l :: stk, g, tr, none⟩ ⟨s', .wait o l' :: stk, g.onOut M.shape o, .out o :: tr, none⟩
  | ret {st l stk g tr} : M.step st l = .ret →
      OStep M ⟨st, .run l :: stk, g, tr, none⟩ ⟨st, stk, g.onRetO stk.length, .retO :: tr, none⟩
  | panic {st l stk g tr m} : M.step st l = .panic m →
      OStep M ⟨st, .run l :: stk, g, tr, none⟩ ⟨st, stk, g, .panic :: tr, some m⟩

theorem oStep_of_opStep {M : Machine St Loc α β} {a b : Sys St Loc α β} (h : opStep M a = some b) : OStep M a b := by
  obtain ⟨st, stk, g, tr, p⟩ := a
  unfold opStep at h
  cases p with
  | some m => simp at h
  | none =>
    simp only [Option.isSome_none, Bool.false_eq_true, ↓reduceIte] at h
    cases stk with
    | nil => simp at h
    | cons f r =>
      cases f with
      | wait o l => simp at h
      | run l =>
        simp only at h
        cases hst : M.step st l with
        | ret => simp only [hst, Option.some.injEq] at h; subst h; exact .ret hst
        | tau s' l' => simp only [hst, Option.some.injEq] at h; subst h; exact .tau hst
        | call o s' l' => simp only [hst, Option.some.injEq] at h; subst h; exact .call hst
        | panic m => simp only [hst, Option.some.injEq] at h; subst h; exact .panic hst

theorem opStep_of_oStep {M : Machine St Loc α β} {a b : Sys St Loc α β} (h : OStep M a b) : opStep M a = some b := by
  cases h with
  | tau h => simp [opStep, h]
  | call h => simp [opStep, h]
  | ret h => simp [opStep, h]
  | panic h => simp [opStep, h]

theorem reach_op {M : Machine St Loc α β} {a b : Sys St Loc α β} (ha : SReach M a) (h : OStep M a b) : SReach M b :=
  .step ha (.op (opStep_of_oStep h))

theorem reach_env {M : Machine St Loc α β} {a b : Sys St Loc α β} {m : Move α} (ha : SReach M a) (h : EnvStep M m a b) :
    SReach M b :=
  .step ha (.env h trivial)

/-! ### phases: what `onOut` does when it records no violation -/

theorem onOut_greet_ok {β : Type} (g : Ph) (k : Nat) (h : (g.onOut (.greet k : Out β)).viols = []) :
    g.sinkPh k = .subscribed ∧ g.onOut (.greet k : Out β) = g.setSink k .live := by
  simp only [Ph.onOut] at h ⊢
  split at h
  · rename_i hs; simp [hs]
  · simp at h

theorem onOut_down_ok {β : Type} (g : Ph) (k : Nat) (d : Down β) (h : (g.onOut (.down k d)).viols = []) :
    g.sinkPh k = .live ∧ g.onOut (.down k d) = if isFinal d then g.setSink k .doneBySrc else g := by
  simp only [Ph.onOut] at h ⊢
  split at h
  · rename_i hs; simp [hs]
  all_goals simp at h

theorem onOut_subSrc_ok {β : Type} (g : Ph) (i : Nat) (h : (g.onOut (.subSrc i : Out β)).viols = []) :
    g.srcPh i = .idle ∧ g.anySinkOpen = true ∧ g.onOut (.subSrc i : Out β) = g.setSrc i .subscribed := by
  simp only [Ph.onOut] at h ⊢
  split at h
  · simp at h
  · split at h
    · simp at h
    · rename_i h1 h2
      simp only [ne_eq, Decidable.not_not] at h1
      simp only [Bool.not_eq_false] at h2
      simp [h1, h2]

/-- the phases after a (conformant) message on talkback `i` -/
def afterUp (g : Ph) (i : Nat) : Up → Ph
  | .pull => g
  | _ => g.setSrc i .disposed

theorem onOut_srcUp_ok {β : Type} (g : Ph) (i : Nat) (u : Up) (h : (g.onOut (.srcUp i u : Out β)).viols = []) :
    g.srcPh i = .live ∧ g.onOut (.srcUp i u : Out β) = afterUp g i u := by
  cases u <;> simp only [Ph.onOut, afterUp] at h ⊢ <;> split at h
  all_goals first | (simp at h; done) | (rename_i hs; simp [hs])

theorem onOut_viols_nil {β : Type} (g : Ph) (o : Out β) (h : (g.onOut o).viols = []) : g.viols = [] := by
  obtain ⟨l, hl⟩ := ph_onOut_viols_suffix g o
  rw [hl] at h; exact (List.append_eq_nil_iff.1 h).2

@[simp] theorem sinkPh_flag (g : Ph) (v : Viol) (k : Nat) : (g.flag v).sinkPh k = g.sinkPh k := rfl
@[simp] theorem srcPh_flag (g : Ph) (v : Viol) (k : Nat) : (g.flag v).srcPh k = g.srcPh k := rfl

@[simp] theorem onIn_viols {α : Type} (g : Ph) (i : In α) : (g.onIn i).viols = g.viols := by
  cases i with
  | subscribe k => rfl
  | sinkUp k u => cases u <;> rfl
  | srcGreet i => rfl
  | srcDown i d => cases d <;> rfl

/-- an operator output never changes the phase of an upstream that is `disposed`, nor of a sink that is `doneBySrc` -/
theorem onOut_srcPh_disposed {β : Type} (g : Ph) (o : Out β) (i : Nat) (h : g.srcPh i = .disposed) :
    (g.onOut o).srcPh i = .disposed := by
  cases o with
  | greet k => simp only [Ph.onOut]; split <;> simp [h]
  | down k d =>
    simp only [Ph.onOut]
    split
    · split <;> simp [h]
    all_goals simp [h]
  | subSrc j =>
    simp only [Ph.onOut]
    split
    · simp [h]
    · split
      · simp [h]
      · rename_i h1 _
        simp only [ne_eq, Decidable.not_not] at h1
        have : i ≠ j := by rintro rfl; rw [h1] at h; cases h
        simp [this, h]
  | srcUp j u =>
    cases u <;> simp only [Ph.onOut] <;> split <;> simp [h]
  | app b => exact h

theorem onOut_sinkPh_doneBySrc {β : Type} (g : Ph) (o : Out β) (k : Nat) (h : g.sinkPh k = .doneBySrc) :
    (g.onOut o).sinkPh k = .doneBySrc := by
  cases o with
  | greet j =>
    simp only [Ph.onOut]
    split
    · rename_i h1
      have : k ≠ j := by rintro rfl; rw [h1] at h; cases h
      simp [this, h]
    · simp [h]
  | down j d =>
    simp only [Ph.onOut]
    split
    · split <;> simp [h]
    all_goals simp [h]
  | subSrc j =>
    simp only [Ph.onOut]
    split
    · simp [h]
    · split <;> simp [h]
  | srcUp j u =>
    cases u <;> simp only [Ph.onOut] <;> split <;> simp [h]
  | app b => exact h

/-! ### how phases move -/

theorem onOut_srcPh_subscribed {β : Type} (g : Ph) (o : Out β) (i : Nat) (h : (g.onOut o).srcPh i = .subscribed) :
    g.srcPh i = .subscribed ∨ o = .subSrc i := by
  cases o with
  | greet k => simp only [Ph.onOut] at h; split at h <;> simp at h <;> exact .inl h
  | down k d =>
    simp only [Ph.onOut] at h
    split at h
    · split at h <;> (try simp at h) <;> exact .inl h
    all_goals simp at h; exact .inl h
  | subSrc j =>
    simp only [Ph.onOut] at h
    split at h
    · simp at h; exact .inl h
    · split at h
      · simp at h; exact .inl h
      · simp only [Ph.srcPh_setSrc] at h
        split at h
        · rename_i hij; exact .inr (by rw [hij])
        · exact .inl h
  | srcUp j u =>
    cases u <;> simp only [Ph.onOut] at h <;> split at h <;> (try simp only [srcPh_flag, Ph.srcPh_setSrc] at h) <;>
      first
      | exact .inl h
      | (split at h <;> first | cases h | exact .inl h)
  | app b => exact .inl h

theorem onOut_sinkPh_idle {β : Type} (g : Ph) (o : Out β) (k : Nat) (h : (g.onOut o).sinkPh k = .idle) : g.sinkPh k = .idle := by
  cases o with
  | greet j =>
    simp only [Ph.onOut] at h
    split at h
    · simp only [Ph.sinkPh_setSink] at h; split at h <;> first | cases h | exact h
    · exact h
  | down j d =>
    simp only [Ph.onOut] at h
    split at h
    · split at h
      · simp only [Ph.sinkPh_setSink] at h; split at h <;> first | cases h | exact h
      · exact h
    all_goals exact h
  | subSrc j =>
    simp only [Ph.onOut] at h
    split at h
    · exact h
    · split at h <;> exact h
  | srcUp j u => cases u <;> simp only [Ph.onOut] at h <;> split at h <;> exact h
  | app b => exact h

theorem onIn_srcPh_disposed {α β : Type} (sh : Shape) (g : Ph) (c : Ctx β) (m : In α) (i : Nat)
    (hl : legalIn sh g c m = true) (h : g.srcPh i = .disposed) : (g.onIn m).srcPh i = .disposed := by
  cases m with
  | subscribe k => simpa [Ph.onIn] using h
  | sinkUp k u => cases u <;> simpa [Ph.onIn] using h
  | srcGreet j =>
    simp only [legalIn, Bool.and_eq_true, beq_iff_eq] at hl
    have : i ≠ j := by rintro rfl; rw [hl.1] at h; cases h
    simp [Ph.onIn, this, h]
  | srcDown j d =>
    simp only [legalIn, Bool.and_eq_true, beq_iff_eq] at hl
    have : i ≠ j := by rintro rfl; rw [hl.1] at h; cases h
    cases d <;> simp [Ph.onIn, this, h]

theorem onIn_sinkPh_doneBySrc {α β : Type} (sh : Shape) (g : Ph) (c : Ctx β) (m : In α) (k : Nat)
    (hl : legalIn sh g c m = true) (h : g.sinkPh k = .doneBySrc) : (g.onIn m).sinkPh k = .doneBySrc := by
  cases m with
  | subscribe j =>
    simp only [legalIn, Bool.and_eq_true, beq_iff_eq] at hl
    have : k ≠ j := by rintro rfl; rw [hl.1.2] at h; cases h
    simp [Ph.onIn, this, h]
  | sinkUp j u =>
    simp only [legalIn, Bool.and_eq_true, beq_iff_eq] at hl
    have : k ≠ j := by rintro rfl; rw [hl.1] at h; cases h
    cases u <;> simp [Ph.onIn, this, h]
  | srcGreet j => simpa [Ph.onIn] using h
  | srcDown j d => cases d <;> simpa [Ph.onIn] using h

/-! ### four invariants of every machine -/

/-- G1: an upstream that has been subscribed to and has not greeted yet is the one the operator is waiting on (no late greeting) -/
theorem subscribed_top (M : Machine St Loc α β) (hlg : M.shape.lateGreet = false) {s : Sys St Loc α β} (h : SReach M s) :
    ∀ i, s.g.ph.srcPh i = .subscribed → ∃ l r, s.stack = .wait (.subSrc i) l :: r := by
  induction h with
  | init => intro i hi; simp [Sys.init] at hi
  | step ha hab ih =>
    cases hab with
    | op hop =>
      cases oStep_of_opStep hop with
      | tau hst => intro i hi; obtain ⟨_, _, he⟩ := ih i hi; simp at he
      | @call st l stk g tr o s' l' hst =>
        intro i hi
        simp only [onOut_ph] at hi
        rcases onOut_srcPh_subscribed _ _ _ hi with h1 | h1
        · obtain ⟨_, _, he⟩ := ih i h1; simp at he
        · subst h1; exact ⟨_, _, rfl⟩
      | ret hst => intro i hi; simp only [onRetO_ph] at hi; obtain ⟨_, _, he⟩ := ih i hi; simp at he
      | panic hst => intro i hi; obtain ⟨_, _, he⟩ := ih i hi; simp at he
    | env henv _ =>
      cases henv with
      | @call st stk g tr c m hc hl =>
        intro i hi
        exfalso
        simp only [onIn_ph] at hi
        simp only at ih
        cases m with
        | subscribe k =>
          simp only [Ph.onIn, Ph.srcPh_setSink] at hi
          obtain ⟨l, r, he⟩ := ih i hi
          subst he
          simp [ctxOf] at hc; subst hc
          simp [legalIn, isTop] at hl
        | sinkUp k u =>
          have hi' : g.ph.srcPh i = .subscribed := by cases u <;> simpa [Ph.onIn] using hi
          obtain ⟨l, r, he⟩ := ih i hi'
          subst he
          simp [ctxOf] at hc; subst hc
          simp [legalIn, isTop, inGreet, inData] at hl
        | srcGreet j =>
          simp only [Ph.onIn, Ph.srcPh_setSrc] at hi
          split at hi
          · cases hi
          · rename_i hij
            obtain ⟨l, r, he⟩ := ih i hi
            subst he
            simp [ctxOf] at hc; subst hc
            simp only [legalIn, hlg, Bool.false_and, Bool.or_false, Bool.and_eq_true, beq_iff_eq, inSub] at hl
            exact hij hl.2.symm
        | srcDown j d =>
          simp only [legalIn, Bool.and_eq_true, beq_iff_eq, Bool.or_eq_true] at hl
          have hi' : g.ph.srcPh i = .subscribed := by
            cases d <;> simp only [Ph.onIn, Ph.srcPh_setSrc] at hi
            · exact hi
            all_goals (split at hi; cases hi; exact hi)
          obtain ⟨l, r, he⟩ := ih i hi'
          subst he
          simp [ctxOf] at hc; subst hc
          simp only [isTop, inSub, inPull, Bool.false_eq_true, false_or, or_false, beq_iff_eq] at hl
          obtain ⟨h1, h2⟩ := hl
          subst h2; rw [hi'] at h1; cases h1
      | @ret st stk g tr o l hl =>
        intro i hi
        obtain ⟨l', r, he⟩ := ih i hi
        simp at he
        obtain ⟨⟨rfl, _⟩, _⟩ := he
        simp [legalRet, hlg, hi] at hl

/-- G2: as long as no sink has subscribed nothing has happened at all -/
theorem idle_empty (M : Machine St Loc α β) {s : Sys St Loc α β} (h : SReach M s) :
    (∀ k, s.g.ph.sinkPh k = .idle) → s.stack = [] ∧ ∀ i, s.g.ph.srcPh i = .idle := by
  induction h with
  | init => intro _; exact ⟨rfl, fun i => by simp [Sys.init]⟩
  | step ha hab ih =>
    cases hab with
    | op hop =>
      cases oStep_of_opStep hop with
      | tau hst => intro hk; have := (ih hk).1; simp at this
      | @call st l stk g tr o s' l' hst =>
        intro hk
        have := (ih (fun k => onOut_sinkPh_idle _ _ _ (by simpa using hk k))).1
        simp at this
      | ret hst => intro hk; have := (ih (by simpa using hk)).1; simp at this
      | panic hst => intro hk; have := (ih hk).1; simp at this
    | env henv _ =>
      cases henv with
      | @call st stk g tr c m hc hl =>
        intro hk
        exfalso
        simp only [onIn_ph] at hk
        simp only at ih
        cases m with
        | subscribe k => have := hk k; simp [Ph.onIn] at this
        | sinkUp k u =>
          simp only [legalIn, Bool.and_eq_true, beq_iff_eq] at hl
          cases u with
          | pull => have := hk k; simp only [Ph.onIn] at this; rw [hl.1] at this; cases this
          | term => have := hk k; simp [Ph.onIn] at this
          | err e => have := hk k; simp [Ph.onIn] at this
        | srcGreet j =>
          simp only [legalIn, Bool.and_eq_true, beq_iff_eq] at hl
          have := (ih (by simpa [Ph.onIn] using hk)).2 j
          rw [hl.1] at this; cases this
        | srcDown j d =>
          simp only [legalIn, Bool.and_eq_true, beq_iff_eq] at hl
          have hk' : ∀ k, g.ph.sinkPh k = .idle := by cases d <;> simpa [Ph.onIn] using hk
          have := (ih hk').2 j
          rw [hl.1] at this; cases this
      | @ret st stk g tr o l hl =>
        intro hk; have := (ih hk).1; simp at this

/-- G3: after `Terminate`/`Error` was sent to an upstream (without a violation) that upstream is `disposed` for good -/
theorem wait_srcUp_disposed (M : Machine St Loc α β) {s : Sys St Loc α β} (h : SReach M s) :
    s.g.ph.viols = [] → ∀ i u l, Frame.wait (.srcUp i u) l ∈ s.stack → u ≠ .pull → s.g.ph.srcPh i = .disposed := by
  induction h with
  | init => intro _ i u l hm; simp [Sys.init] at hm
  | step ha hab ih =>
    cases hab with
    | op hop =>
      cases oStep_of_opStep hop with
      | tau hst =>
        intro hv i u l hm hu
        exact ih hv i u l (by simpa using hm) hu
      | @call st l stk g tr o s' l' hst =>
        intro hv i u l0 hm hu
        simp only [onOut_ph] at hv ⊢
        simp only [List.mem_cons] at hm
        rcases hm with hm | hm
        · cases hm
          obtain ⟨_, he⟩ := onOut_srcUp_ok _ _ _ hv
          rw [he]; cases u <;> simp [afterUp] at hu ⊢
        · exact onOut_srcPh_disposed _ _ _ (ih (onOut_viols_nil _ _ hv) i u l0 (by simp [hm]) hu)
      | ret hst =>
        intro hv i u l hm hu
        simp only [onRetO_ph] at hv ⊢
        exact ih hv i u l (by simp [hm]) hu
      | panic hst =>
        intro hv i u l hm hu
        exact ih hv i u l (by simp [hm]) hu
    | env henv _ =>
      cases henv with
      | @call st stk g tr c m hc hl =>
        intro hv i u l hm hu
        simp only [onIn_ph, onIn_viols] at hv ⊢
        exact onIn_srcPh_disposed _ _ _ _ _ hl (ih hv i u l (by simpa using hm) hu)
      | @ret st stk g tr o l hl =>
        intro hv i u l0 hm hu
        simp only [List.mem_cons] at hm
        rcases hm with hm | hm
        · cases hm
        · exact ih hv i u l0 (by simp [hm]) hu

/-- G4: after a terminal was delivered to a sink (without a violation) that sink is `doneBySrc` for good -/
theorem wait_down_done (M : Machine St Loc α β) {s : Sys St Loc α β} (h : SReach M s) :
    s.g.ph.viols = [] → ∀ k d l, Frame.wait (.down k d) l ∈ s.stack → isFinal d = true → s.g.ph.sinkPh k = .doneBySrc := by
  induction h with
  | init => intro _ i u l hm; simp [Sys.init] at hm
  | step ha hab ih =>
    cases hab with
    | op hop =>
      cases oStep_of_opStep hop with
      | tau hst =>
        intro hv i u l hm hu
        exact ih hv i u l (by simpa using hm) hu
      | @call st l stk g tr o s' l' hst =>
        intro hv k d l0 hm hu
        simp only [onOut_ph] at hv ⊢
        simp only [List.mem_cons] at hm
        rcases hm with hm | hm
        · cases hm
          obtain ⟨_, he⟩ := onOut_down_ok _ _ _ hv
          rw [he]; simp [hu]
        · exact onOut_sinkPh_doneBySrc _ _ _ (ih (onOut_viols_nil _ _ hv) k d l0 (by simp [hm]) hu)
      | ret hst =>
        intro hv i u l hm hu
        simp only [onRetO_ph] at hv ⊢
        exact ih hv i u l (by simp [hm]) hu
      | panic hst =>
        intro hv i u l hm hu
        exact ih hv i u l (by simp [hm]) hu
    | env henv _ =>
      cases henv with
      | @call st stk g tr c m hc hl =>
        intro hv i u l hm hu
        simp only [onIn_ph, onIn_viols] at hv ⊢
        exact onIn_sinkPh_doneBySrc _ _ _ _ _ hl (ih hv i u l (by simpa using hm) hu)
      | @ret st stk g tr o l hl =>
        intro hv i u l0 hm hu
        simp only [List.mem_cons] at hm
        rcases hm with hm | hm
        · cases hm
        · exact ih hv i u l0 (by simp [hm]) hu

end Generic

/-! ## Part 2: the projection of a composite configuration onto its components -/
section Proj
variable {S1 L1 S2 L2 α β γ : Type}

/-- which component a frame belongs to -/
inductive Side where | lo | hi

/-- `M₁`'s calls into `M₂` -/
def Internal1 {β : Type} : Out β → Prop
  | .greet 0 => True
  | .down 0 _ => True
  | _ => False

/-- `M₂`'s calls to the external sinks -/
def SinkSide {γ : Type} : Out γ → Prop
  | .greet _ => True
  | .down _ _ => True
  | .app _ => True
  | _ => False

/-- `Rel sd cfs stk k1 k2`: the WAITING part of the composite — the component frames `cfs` that remain in the current composite
frame, then the composite frames `stk` — is the interleaving of `M₁`'s waiting stack `k1` and `M₂`'s waiting stack `k2`.  `sd` is the
component of the frame directly above.  An internal call puts a frame of the other component on top (`intLo`, `intSub`, `intUp`);
an external call can only be re-entered by the component that made it (`extSub`, `extUp`, `extHi`): that is what the conformance
of the composite's environment gives.  `M₂` subscribes to `M₁` when `M₁` has never run (`intSub`: `k1 = []`). -/
inductive Rel : Side → List (CFr L1 L2) → List (Frame (List (CFr L1 L2)) γ) → List (Frame L1 β) → List (Frame L2 γ) → Prop where
  | nil {sd} : Rel sd [] [] [] []
  | extSub {i l cfs stk k1 k2} : Rel .lo cfs stk k1 k2 →
      Rel .lo [] (.wait (.subSrc i) (.lo l :: cfs) :: stk) (.wait (.subSrc i) l :: k1) k2
  | extUp {i u l cfs stk k1 k2} : Rel .lo cfs stk k1 k2 →
      Rel .lo [] (.wait (.srcUp i u) (.lo l :: cfs) :: stk) (.wait (.srcUp i u) l :: k1) k2
  | extHi {o l cfs stk k1 k2} : SinkSide o → Rel .hi cfs stk k1 k2 →
      Rel .hi [] (.wait o (.hi l :: cfs) :: stk) k1 (.wait o l :: k2)
  | intLo {o l cfs stk k1 k2} : Internal1 o → Rel .lo cfs stk k1 k2 →
      Rel .hi (.lo l :: cfs) stk (.wait o l :: k1) k2
  | intSub {l cfs stk k2} : Rel .hi cfs stk [] k2 →
      Rel .lo (.hi l :: cfs) stk [] (.wait (.subSrc 0) l :: k2)
  | intUp {u l cfs stk k1 k2} : Rel .hi cfs stk k1 k2 →
      Rel .lo (.hi l :: cfs) stk k1 (.wait (.srcUp 0 u) l :: k2)

/-- the three shapes of a composite stack -/
inductive SM : List (Frame (List (CFr L1 L2)) γ) → List (Frame L1 β) → List (Frame L2 γ) → Prop where
  | turn {sd stk k1 k2} : Rel sd [] stk k1 k2 → SM stk k1 k2
  | runLo {l cfs stk k1 k2} : Rel .lo cfs stk k1 k2 → SM (.run (.lo l :: cfs) :: stk) (.run l :: k1) k2
  | runHi {l cfs stk k1 k2} : Rel .hi cfs stk k1 k2 → SM (.run (.hi l :: cfs) :: stk) k1 (.run l :: k2)

theorem Rel.turns {sd cfs} {stk : List (Frame (List (CFr L1 L2)) γ)} {k1 : List (Frame L1 β)} {k2 : List (Frame L2 γ)}
    (h : Rel sd cfs stk k1 k2) : (ctxOf k1).isSome = true ∧ (ctxOf k2).isSome = true := by
  induction h with
  | nil => simp [ctxOf]
  | extSub _ ih => exact ⟨by simp [ctxOf], ih.2⟩
  | extUp _ ih => exact ⟨by simp [ctxOf], ih.2⟩
  | extHi _ _ ih => exact ⟨ih.1, by simp [ctxOf]⟩
  | intLo _ _ ih => exact ⟨by simp [ctxOf], ih.2⟩
  | intSub _ ih => exact ⟨by simp [ctxOf], by simp [ctxOf]⟩
  | intUp _ ih => exact ⟨ih.1, by simp [ctxOf]⟩

/-- while `M₁` runs (or waits on one of its external calls), `M₂` is at top level or waiting on a call into `M₁` -/
theorem Rel.lo_k2 {sd cfs} {stk : List (Frame (List (CFr L1 L2)) γ)} {k1 : List (Frame L1 β)} {k2 : List (Frame L2 γ)}
    (h : Rel sd cfs stk k1 k2) : sd = .lo →
    k2 = [] ∨ (∃ l r, k2 = .wait (.subSrc 0) l :: r) ∨ (∃ u l r, k2 = .wait (.srcUp 0 u) l :: r) := by
  induction h with
  | nil => intro _; exact .inl rfl
  | extSub _ ih => exact ih
  | extUp _ ih => exact ih
  | extHi _ _ ih => intro h; cases h
  | intLo _ _ ih => intro h; cases h
  | intSub _ ih => intro _; exact .inr (.inl ⟨_, _, rfl⟩)
  | intUp _ ih => intro _; exact .inr (.inr ⟨_, _, _, rfl⟩)

/-- while `M₂` runs (or waits on one of its external calls), `M₁` is at top level or waiting on a call into `M₂` -/
theorem Rel.hi_k1 {sd cfs} {stk : List (Frame (List (CFr L1 L2)) γ)} {k1 : List (Frame L1 β)} {k2 : List (Frame L2 γ)}
    (h : Rel sd cfs stk k1 k2) : sd = .hi →
    k1 = [] ∨ (∃ o l r, k1 = .wait o l :: r ∧ Internal1 o) := by
  induction h with
  | nil => intro _; exact .inl rfl
  | extSub _ ih => intro h; cases h
  | extUp _ ih => intro h; cases h
  | extHi _ _ ih => exact ih
  | intLo ho _ ih => intro _; exact .inr ⟨_, _, _, rfl, ho⟩
  | intSub _ ih => intro h; cases h
  | intUp _ ih => intro h; cases h

/-- the interface: `M₂` seen as `M₁`'s sink 0 and `M₁` seen as `M₂`'s upstream 0 are in corresponding phases -/
def toSrc : SinkPh → SrcPh
  | .idle => .idle | .subscribed => .subscribed | .live => .live | .doneBySrc => .ended | .doneBySelf => .disposed

/-- the three ghosts: `g` of the composite (external boundary), `g1` of `M₁`, `g2` of `M₂` -/
structure GhostRel (g g1 g2 : Ph) : Prop where
  v : g.viols = []
  sink : ∀ k, g.sinkPh k = g2.sinkPh k
  src : ∀ i, g.srcPh i = g1.srcPh i
  ifc : g2.srcPh 0 = toSrc (g1.sinkPh 0)
  sink1 : ∀ k, g1.sinkPh (k + 1) = .idle
  src2 : ∀ i, g2.srcPh (i + 1) = .idle

theorem GhostRel.setIfc {g g1 g2 : Ph} (h : GhostRel g g1 g2) (p : SinkPh) :
    GhostRel g (g1.setSink 0 p) (g2.setSrc 0 (toSrc p)) :=
  ⟨h.v, fun k => by simp [h.sink], fun i => by simp [h.src], by simp, fun k => by simp [h.sink1], fun i => by simp [h.src2]⟩

theorem GhostRel.setSinkExt {g g1 g2 : Ph} (h : GhostRel g g1 g2) (k : Nat) (p : SinkPh) :
    GhostRel (g.setSink k p) g1 (g2.setSink k p) :=
  ⟨h.v, fun k' => by simp [h.sink], fun i => by simp [h.src], by simp [h.ifc], h.sink1, fun i => by simp [h.src2]⟩

theorem GhostRel.setSrcExt {g g1 g2 : Ph} (h : GhostRel g g1 g2) (i : Nat) (p : SrcPh) :
    GhostRel (g.setSrc i p) (g1.setSrc i p) g2 :=
  ⟨h.v, fun k' => by simp [h.sink], fun i' => by simp [h.src], by simp [h.ifc], fun k => by simp [h.sink1], h.src2⟩

theorem toSrc_live {p : SinkPh} : toSrc p = .live ↔ p = .live := by cases p <;> simp [toSrc]
theorem toSrc_idle {p : SinkPh} : toSrc p = .idle ↔ p = .idle := by cases p <;> simp [toSrc]
theorem toSrc_subscribed {p : SinkPh} : toSrc p = .subscribed ↔ p = .subscribed := by cases p <;> simp [toSrc]

theorem onOut_greet_eq {β : Type} {g : Ph} {k : Nat} (h : g.sinkPh k = .subscribed) :
    g.onOut (.greet k : Out β) = g.setSink k .live := by simp [Ph.onOut, h]
theorem onOut_down_eq {β : Type} {g : Ph} {k : Nat} (d : Down β) (h : g.sinkPh k = .live) :
    g.onOut (.down k d) = if isFinal d then g.setSink k .doneBySrc else g := by simp [Ph.onOut, h]
theorem onOut_subSrc_eq {β : Type} {g : Ph} {i : Nat} (h : g.srcPh i = .idle) (h' : g.anySinkOpen = true) :
    g.onOut (.subSrc i : Out β) = g.setSrc i .subscribed := by simp [Ph.onOut, h, h']
theorem onOut_srcUp_eq {β : Type} {g : Ph} {i : Nat} (u : Up) (h : g.srcPh i = .live) :
    g.onOut (.srcUp i u : Out β) = afterUp g i u := by
  cases u <;> simp [Ph.onOut, afterUp, h]

/-- a composite configuration and its two projections -/
structure Match (s : Sys (S1 × S2) (List (CFr L1 L2)) α γ) (s1 : Sys S1 L1 α β) (s2 : Sys S2 L2 β γ) : Prop where
  st : s.st = (s1.st, s2.st)
  p : s.panicked = none
  p1 : s1.panicked = none
  p2 : s2.panicked = none
  gh : GhostRel s.g.ph s1.g.ph s2.g.ph
  stk : SM s.stack s1.stack s2.stack

/-- the hypotheses of the assume–guarantee theorem -/
structure Hyp (M1 : Machine S1 L1 α β) (M2 : Machine S2 L2 β γ) : Prop where
  lg2 : M2.shape.lateGreet = false
  app1 : ∀ st l b st' l', M1.step st l ≠ .call (.app b) st' l'
  sub2 : ∀ st l i st' l', M2.step st l ≠ .call (.subSrc (i + 1)) st' l'
  sync : ∀ s, SReach M1 s → s.stack = [] → s.g.ph.sinkPh 0 ≠ .subscribed
  open2 : ∀ s, SReach M2 s → EnvTurn s → (s.g.ph.srcPh 0 = .subscribed ∨ s.g.ph.srcPh 0 = .live) → s.g.ph.anySinkOpen = true
  safe1 : ∀ s, SReach M1 s → BasicSafe s
  safe2 : ∀ s, SReach M2 s → BasicSafe s

end Proj

section Steps
variable {S1 L1 S2 L2 α β γ : Type} {M1 : Machine S1 L1 α β} {M2 : Machine S2 L2 β γ}

theorem step_lo (H : Hyp M1 M2) {st1 : S1} {st2 : S2} {l : L1} {rest : List (CFr L1 L2)}
    {stk : List (Frame (List (CFr L1 L2)) γ)} {g : G} {tr : List (Ev α γ)}
    {k1 : List (Frame L1 β)} {k2 : List (Frame L2 γ)} {g1 g2 : G} {tr1 : List (Ev α β)} {tr2 : List (Ev β γ)}
    {b : Sys (S1 × S2) (List (CFr L1 L2)) α γ}
    (hr1 : SReach M1 ⟨st1, .run l :: k1, g1, tr1, none⟩) (hr2 : SReach M2 ⟨st2, k2, g2, tr2, none⟩)
    (hrel : Rel .lo rest stk k1 k2) (hgh : GhostRel g.ph g1.ph g2.ph)
    (hop : opStep (compose M1 M2) ⟨(st1, st2), .run (.lo l :: rest) :: stk, g, tr, none⟩ = some b) :
    ∃ s1 s2, SReach M1 s1 ∧ SReach M2 s2 ∧ Match b s1 s2 := by
  have hturn2 : EnvTurn (⟨st2, k2, g2, tr2, none⟩ : Sys S2 L2 β γ) := ⟨rfl, hrel.turns.2⟩
  cases hst : M1.step st1 l with
  | tau s1' l' =>
    simp [opStep, compose, hst] at hop
    subst hop
    exact ⟨_, _, reach_op hr1 (.tau hst), hr2, ⟨rfl, rfl, rfl, rfl, hgh, .runLo hrel⟩⟩
  | panic m =>
    have := (H.safe1 _ (reach_op hr1 (.panic hst))).2
    cases this
  | ret =>
    have hr1' := reach_op hr1 (.ret hst)
    cases rest with
    | nil =>
      simp [opStep, compose, hst] at hop
      subst hop
      exact ⟨_, _, hr1', hr2, ⟨rfl, rfl, rfl, rfl, by simpa using hgh, .turn hrel⟩⟩
    | cons c rest' =>
      simp [opStep, compose, hst] at hop
      subst hop
      cases hrel with
      | @intSub l2 _ _ k2' h =>
        have h1 : g1.ph.sinkPh 0 ≠ .subscribed := by simpa using H.sync _ hr1' rfl
        have h2 : g2.ph.srcPh 0 ≠ .subscribed := by rw [hgh.ifc]; exact fun h => h1 (toSrc_subscribed.1 h)
        have he := EnvStep.ret (M := M2) (st := st2) (stk := k2') (g := g2) (tr := tr2) (o := .subSrc 0) (l := l2)
          (by simp [legalRet, h2])
        exact ⟨_, _, hr1', reach_env hr2 he, ⟨rfl, rfl, rfl, rfl, by simpa using hgh, .runHi h⟩⟩
      | @intUp u l2 _ _ _ k2' h =>
        have he := EnvStep.ret (M := M2) (st := st2) (stk := k2') (g := g2) (tr := tr2) (o := .srcUp 0 u) (l := l2)
          (by simp [legalRet])
        exact ⟨_, _, hr1', reach_env hr2 he, ⟨rfl, rfl, rfl, rfl, by simpa using hgh, .runHi h⟩⟩
  | call o s1' l' =>
    have hr1' := reach_op hr1 (.call hst)
    have hv := (H.safe1 _ hr1').1
    simp only [onOut_ph] at hv
    cases o with
    | greet k =>
      obtain ⟨hsub, heq⟩ := onOut_greet_ok _ _ hv
      cases k with
      | succ k => rw [hgh.sink1 k] at hsub; cases hsub
      | zero =>
        simp [opStep, compose, hst] at hop
        subst hop
        have hsub2 : g2.ph.srcPh 0 = .subscribed := by rw [hgh.ifc, hsub]; rfl
        obtain ⟨l2, r, hk2⟩ := subscribed_top M2 H.lg2 hr2 0 hsub2
        simp only at hk2
        subst hk2
        have he := EnvStep.call (M := M2) (st := st2) (stk := .wait (.subSrc 0) l2 :: r) (g := g2) (tr := tr2)
          (.srcGreet 0) rfl (by simp [legalIn, hsub2, inSub])
        refine ⟨_, _, hr1', reach_env hr2 he, ⟨rfl, rfl, rfl, rfl, ?_, .runHi (.intLo (by simp [Internal1]) hrel)⟩⟩
        simp only [onOut_ph, onIn_ph, heq]
        exact hgh.setIfc .live
    | down k d =>
      obtain ⟨hlive, heq⟩ := onOut_down_ok _ _ _ hv
      cases k with
      | succ k => rw [hgh.sink1 k] at hlive; cases hlive
      | zero =>
        simp [opStep, compose, hst] at hop
        subst hop
        have hlive2 : g2.ph.srcPh 0 = .live := by rw [hgh.ifc, hlive]; rfl
        have hctx : ∃ c, ctxOf k2 = some c ∧ legalIn M2.shape g2.ph c (.srcDown 0 d) = true := by
          rcases hrel.lo_k2 rfl with h | ⟨l2, r, h⟩ | ⟨u, l2, r, h⟩
          · subst h; exact ⟨_, rfl, by simp [legalIn, hlive2, isTop]⟩
          · subst h; exact ⟨_, rfl, by simp [legalIn, hlive2, inSub]⟩
          · subst h
            cases u with
            | pull => exact ⟨_, rfl, by simp [legalIn, hlive2, inPull]⟩
            | term =>
              have := wait_srcUp_disposed M2 hr2 (H.safe2 _ hr2).1 0 .term l2 (by simp) (by simp)
              simp only at this; rw [hlive2] at this; cases this
            | err e =>
              have := wait_srcUp_disposed M2 hr2 (H.safe2 _ hr2).1 0 (.err e) l2 (by simp) (by simp)
              simp only at this; rw [hlive2] at this; cases this
        obtain ⟨c, hc, hl⟩ := hctx
        have he := EnvStep.call (M := M2) (st := st2) (stk := k2) (g := g2) (tr := tr2) (.srcDown 0 d) hc hl
        refine ⟨_, _, hr1', reach_env hr2 he, ⟨rfl, rfl, rfl, rfl, ?_, .runHi (.intLo (by simp [Internal1]) hrel)⟩⟩
        simp only [onOut_ph, onIn_ph, heq]
        cases d with
        | data x => simpa [isFinal, Ph.onIn] using hgh
        | term => simpa [isFinal, Ph.onIn, toSrc] using hgh.setIfc .doneBySrc
        | err e => simpa [isFinal, Ph.onIn, toSrc] using hgh.setIfc .doneBySrc
    | subSrc i =>
      obtain ⟨hidle, hopen, heq⟩ := onOut_subSrc_ok _ _ hv
      simp [opStep, compose, hst] at hop
      subst hop
      have hopenC : g.ph.anySinkOpen = true := by
        obtain ⟨k, hk⟩ := (Ph.anySinkOpen_iff _).1 hopen
        have h2 : g2.ph.srcPh 0 = .subscribed ∨ g2.ph.srcPh 0 = .live := by
          cases k with
          | succ k => rw [hgh.sink1 k] at hk; rcases hk with hk | hk <;> cases hk
          | zero => rw [hgh.ifc]; rcases hk with hk | hk <;> rw [hk] <;> simp [toSrc]
        obtain ⟨k', hk'⟩ := (Ph.anySinkOpen_iff _).1 (H.open2 _ hr2 hturn2 h2)
        exact (Ph.anySinkOpen_iff _).2 ⟨k', by rw [hgh.sink k']; exact hk'⟩
      refine ⟨_, _, hr1', hr2, ⟨rfl, rfl, rfl, rfl, ?_, .turn (.extSub hrel)⟩⟩
      simp only [onOut_ph, heq, onOut_subSrc_eq ((hgh.src i).trans hidle) hopenC]
      exact hgh.setSrcExt i .subscribed
    | srcUp i u =>
      obtain ⟨hlive, heq⟩ := onOut_srcUp_ok _ _ _ hv
      simp [opStep, compose, hst] at hop
      subst hop
      refine ⟨_, _, hr1', hr2, ⟨rfl, rfl, rfl, rfl, ?_, .turn (.extUp hrel)⟩⟩
      simp only [onOut_ph, heq, onOut_srcUp_eq u ((hgh.src i).trans hlive)]
      cases u with
      | pull => exact hgh
      | term => exact hgh.setSrcExt i .disposed
      | err e => exact hgh.setSrcExt i .disposed
    | app b' => exact absurd hst (H.app1 _ _ _ _ _)

theorem legalRet_internal1 {β : Type} (sh : Shape) (g : Ph) {o : Out β} (ho : Internal1 o) :
    legalRet sh g (.inCall o) = true := by
  cases o with
  | greet k => simp [legalRet]
  | down k d => simp [legalRet]
  | subSrc i => simp [Internal1] at ho
  | srcUp i u => simp [Internal1] at ho
  | app b => simp [Internal1] at ho

theorem step_hi (H : Hyp M1 M2) {st1 : S1} {st2 : S2} {l : L2} {rest : List (CFr L1 L2)}
    {stk : List (Frame (List (CFr L1 L2)) γ)} {g : G} {tr : List (Ev α γ)}
    {k1 : List (Frame L1 β)} {k2 : List (Frame L2 γ)} {g1 g2 : G} {tr1 : List (Ev α β)} {tr2 : List (Ev β γ)}
    {b : Sys (S1 × S2) (List (CFr L1 L2)) α γ}
    (hr1 : SReach M1 ⟨st1, k1, g1, tr1, none⟩) (hr2 : SReach M2 ⟨st2, .run l :: k2, g2, tr2, none⟩)
    (hrel : Rel .hi rest stk k1 k2) (hgh : GhostRel g.ph g1.ph g2.ph)
    (hop : opStep (compose M1 M2) ⟨(st1, st2), .run (.hi l :: rest) :: stk, g, tr, none⟩ = some b) :
    ∃ s1 s2, SReach M1 s1 ∧ SReach M2 s2 ∧ Match b s1 s2 := by
  cases hst : M2.step st2 l with
  | tau s2' l' =>
    simp [opStep, compose, hst] at hop
    subst hop
    exact ⟨_, _, hr1, reach_op hr2 (.tau hst), ⟨rfl, rfl, rfl, rfl, hgh, .runHi hrel⟩⟩
  | panic m =>
    have := (H.safe2 _ (reach_op hr2 (.panic hst))).2
    cases this
  | ret =>
    have hr2' := reach_op hr2 (.ret hst)
    cases rest with
    | nil =>
      simp [opStep, compose, hst] at hop
      subst hop
      exact ⟨_, _, hr1, hr2', ⟨rfl, rfl, rfl, rfl, by simpa using hgh, .turn hrel⟩⟩
    | cons c rest' =>
      simp [opStep, compose, hst] at hop
      subst hop
      cases hrel with
      | @intLo o l1 _ _ k1' _ ho h =>
        have he := EnvStep.ret (M := M1) (st := st1) (stk := k1') (g := g1) (tr := tr1) (o := o) (l := l1)
          (legalRet_internal1 _ _ ho)
        exact ⟨_, _, reach_env hr1 he, hr2', ⟨rfl, rfl, rfl, rfl, by simpa using hgh, .runLo h⟩⟩
  | call o s2' l' =>
    have hr2' := reach_op hr2 (.call hst)
    have hv := (H.safe2 _ hr2').1
    simp only [onOut_ph] at hv
    cases o with
    | subSrc i =>
      obtain ⟨hidle2, hopen2, heq⟩ := onOut_subSrc_ok _ _ hv
      cases i with
      | succ i => exact absurd hst (H.sub2 _ _ _ _ _)
      | zero =>
        simp [opStep, compose, hst] at hop
        subst hop
        have hidle1 : g1.ph.sinkPh 0 = .idle := toSrc_idle.1 (hgh.ifc ▸ hidle2)
        have hall : ∀ k, g1.ph.sinkPh k = .idle := by
          intro k; cases k with
          | zero => exact hidle1
          | succ k => exact hgh.sink1 k
        have hk1 := (idle_empty M1 hr1 hall).1
        simp only at hk1
        subst hk1
        have he := EnvStep.call (M := M1) (st := st1) (stk := []) (g := g1) (tr := tr1)
          (.subscribe 0) rfl (by simp [legalIn, isTop, hidle1])
        refine ⟨_, _, reach_env hr1 he, hr2', ⟨rfl, rfl, rfl, rfl, ?_, .runLo (.intSub hrel)⟩⟩
        simp only [onOut_ph, onIn_ph, heq]
        exact hgh.setIfc .subscribed
    | srcUp i u =>
      obtain ⟨hlive2, heq⟩ := onOut_srcUp_ok _ _ _ hv
      cases i with
      | succ i => rw [hgh.src2 i] at hlive2; cases hlive2
      | zero =>
        simp [opStep, compose, hst] at hop
        subst hop
        have hlive1 : g1.ph.sinkPh 0 = .live := toSrc_live.1 (hgh.ifc ▸ hlive2)
        have hctx : ∃ c, ctxOf k1 = some c ∧ legalIn M1.shape g1.ph c (.sinkUp 0 u : In α) = true := by
          rcases hrel.hi_k1 rfl with h | ⟨o, l1, r, h, ho⟩
          · subst h; exact ⟨_, rfl, by simp [legalIn, hlive1, isTop]⟩
          · subst h
            cases o with
            | greet k =>
              cases k with
              | zero => exact ⟨_, rfl, by simp [legalIn, hlive1, inGreet]⟩
              | succ k => simp [Internal1] at ho
            | down k d =>
              cases k with
              | succ k => simp [Internal1] at ho
              | zero =>
                cases d with
                | data x => exact ⟨_, rfl, by simp [legalIn, hlive1, inData]⟩
                | term =>
                  have := wait_down_done M1 hr1 (H.safe1 _ hr1).1 0 .term l1 (by simp) rfl
                  simp only at this; rw [hlive1] at this; cases this
                | err e =>
                  have := wait_down_done M1 hr1 (H.safe1 _ hr1).1 0 (.err e) l1 (by simp) rfl
                  simp only at this; rw [hlive1] at this; cases this
            | subSrc i => simp [Internal1] at ho
            | srcUp i u => simp [Internal1] at ho
            | app b => simp [Internal1] at ho
        obtain ⟨c, hc, hl⟩ := hctx
        have he := EnvStep.call (M := M1) (st := st1) (stk := k1) (g := g1) (tr := tr1) (.sinkUp 0 u) hc hl
        refine ⟨_, _, reach_env hr1 he, hr2', ⟨rfl, rfl, rfl, rfl, ?_, .runLo (.intUp hrel)⟩⟩
        simp only [onOut_ph, onIn_ph, heq]
        cases u with
        | pull => simpa [Ph.onIn, afterUp] using hgh
        | term => simpa [Ph.onIn, toSrc, afterUp] using hgh.setIfc .doneBySelf
        | err e => simpa [Ph.onIn, toSrc, afterUp] using hgh.setIfc .doneBySelf
    | greet k =>
      obtain ⟨hsub, heq⟩ := onOut_greet_ok _ _ hv
      simp [opStep, compose, hst] at hop
      subst hop
      refine ⟨_, _, hr1, hr2', ⟨rfl, rfl, rfl, rfl, ?_, .turn (.extHi (by simp [SinkSide]) hrel)⟩⟩
      simp only [onOut_ph, heq, onOut_greet_eq ((hgh.sink k).trans hsub)]
      exact hgh.setSinkExt k .live
    | down k d =>
      obtain ⟨hlive, heq⟩ := onOut_down_ok _ _ _ hv
      simp [opStep, compose, hst] at hop
      subst hop
      refine ⟨_, _, hr1, hr2', ⟨rfl, rfl, rfl, rfl, ?_, .turn (.extHi (by simp [SinkSide]) hrel)⟩⟩
      simp only [onOut_ph, heq, onOut_down_eq d ((hgh.sink k).trans hlive)]
      cases hf : isFinal d with
      | true => simpa using hgh.setSinkExt k .doneBySrc
      | false => simpa using hgh
    | app b' =>
      simp [opStep, compose, hst] at hop
      subst hop
      refine ⟨_, _, hr1, hr2', ⟨rfl, rfl, rfl, rfl, ?_, .turn (.extHi (by simp [SinkSide]) hrel)⟩⟩
      simpa [Ph.onOut] using hgh

theorem legalRet_sinkSide {γ : Type} (sh : Shape) (g : Ph) {o : Out γ} (ho : SinkSide o) :
    legalRet sh g (.inCall o) = true := by
  cases o with
  | greet k => simp [legalRet]
  | down k d => simp [legalRet]
  | app b => simp [legalRet]
  | subSrc i => simp [SinkSide] at ho
  | srcUp i u => simp [SinkSide] at ho

theorem step_env {a b : Sys (S1 × S2) (List (CFr L1 L2)) α γ} {s1 : Sys S1 L1 α β} {s2 : Sys S2 L2 β γ}
    {m : Move α} (hr1 : SReach M1 s1) (hr2 : SReach M2 s2) (hm : Match a s1 s2) (he : EnvStep (compose M1 M2) m a b) :
    ∃ s1' s2', SReach M1 s1' ∧ SReach M2 s2' ∧ Match b s1' s2' := by
  obtain ⟨st1, k1, g1, tr1, p1⟩ := s1
  obtain ⟨st2, k2, g2, tr2, p2⟩ := s2
  obtain ⟨hst, _, hp1, hp2, hgh, hsm⟩ := hm
  simp only at hp1 hp2
  subst hp1 hp2
  cases he with
  | @call st stk g tr c i hc hl =>
    simp only at hst hgh hsm
    subst hst
    cases hsm with
    | runLo h => simp [ctxOf] at hc
    | runHi h => simp [ctxOf] at hc
    | turn hrel =>
      cases i with
      | subscribe k =>
        simp only [legalIn, Bool.and_eq_true, beq_iff_eq, Bool.or_eq_true, compose] at hl
        obtain ⟨⟨hc', hidle⟩, hk⟩ := hl
        cases hrel with
        | extSub h => simp [ctxOf] at hc; subst hc; simp [isTop] at hc'
        | extUp h => simp [ctxOf] at hc; subst hc; simp [isTop] at hc'
        | extHi ho h => simp [ctxOf] at hc; subst hc; simp [isTop] at hc'
        | nil =>
          have he2 := EnvStep.call (M := M2) (st := st2) (stk := []) (g := g2) (tr := tr2) (.subscribe k) rfl
            (by simp only [legalIn, Bool.and_eq_true, beq_iff_eq, Bool.or_eq_true]
                exact ⟨⟨rfl, (hgh.sink k).symm.trans hidle⟩, hk⟩)
          refine ⟨_, _, hr1, reach_env hr2 he2, ⟨rfl, rfl, rfl, rfl, ?_, .runHi .nil⟩⟩
          simp only [onIn_ph, Ph.onIn]
          exact hgh.setSinkExt k .subscribed
      | sinkUp k u =>
        simp only [legalIn, Bool.and_eq_true, beq_iff_eq, Bool.or_eq_true] at hl
        obtain ⟨hlive, hctx⟩ := hl
        have hlive2 : g2.ph.sinkPh k = .live := (hgh.sink k).symm.trans hlive
        have hgh' : GhostRel (g.ph.onIn (.sinkUp k u : In α)) g1.ph (g2.ph.onIn (.sinkUp k u : In β)) := by
          cases u with
          | pull => exact hgh
          | term => exact hgh.setSinkExt k .doneBySelf
          | err e => exact hgh.setSinkExt k .doneBySelf
        cases hrel with
        | extSub h => simp [ctxOf] at hc; subst hc; simp [isTop, inGreet, inData] at hctx
        | extUp h => simp [ctxOf] at hc; subst hc; simp [isTop, inGreet, inData] at hctx
        | nil =>
          have he2 := EnvStep.call (M := M2) (st := st2) (stk := []) (g := g2) (tr := tr2) (.sinkUp k u) rfl
            (by simp [legalIn, hlive2, isTop])
          refine ⟨_, _, hr1, reach_env hr2 he2, ⟨rfl, rfl, rfl, rfl, ?_, .runHi .nil⟩⟩
          simpa only [onIn_ph] using hgh'
        | @extHi o l2 cfs stk' _ k2' ho h =>
          simp [ctxOf] at hc; subst hc
          have he2 := EnvStep.call (M := M2) (st := st2) (stk := .wait o l2 :: k2') (g := g2) (tr := tr2) (.sinkUp k u) rfl
            (by simp only [legalIn, Bool.and_eq_true, beq_iff_eq, Bool.or_eq_true]; exact ⟨hlive2, hctx⟩)
          refine ⟨_, _, hr1, reach_env hr2 he2, ⟨rfl, rfl, rfl, rfl, ?_, .runHi (.extHi ho h)⟩⟩
          simpa only [onIn_ph] using hgh'
      | srcGreet i =>
        simp only [legalIn, Bool.and_eq_true, beq_iff_eq, Bool.or_eq_true, compose] at hl
        obtain ⟨hsub, hctx⟩ := hl
        have hsub1 : g1.ph.srcPh i = .subscribed := (hgh.src i).symm.trans hsub
        have hgh' : GhostRel (g.ph.onIn (.srcGreet i : In α)) (g1.ph.onIn (.srcGreet i : In α)) g2.ph :=
          hgh.setSrcExt i .live
        cases hrel with
        | @extHi o _ _ _ _ _ ho h =>
          simp [ctxOf] at hc; subst hc
          cases o <;> simp [isTop, inSub, SinkSide] at hctx ho
        | @extUp j u l1 cfs stk' k1' _ h => simp [ctxOf] at hc; subst hc; simp [isTop, inSub] at hctx
        | nil =>
          simp [ctxOf] at hc; subst hc
          have he1 := EnvStep.call (M := M1) (st := st1) (stk := []) (g := g1) (tr := tr1) (.srcGreet i) rfl
            (by simp only [legalIn, Bool.and_eq_true, beq_iff_eq, Bool.or_eq_true]; exact ⟨hsub1, by simpa [isTop, inSub, inPull] using hctx⟩)
          refine ⟨_, _, reach_env hr1 he1, hr2, ⟨rfl, rfl, rfl, rfl, ?_, .runLo .nil⟩⟩
          simpa only [onIn_ph] using hgh'
        | @extSub j l1 cfs stk' k1' _ h =>
          simp [ctxOf] at hc; subst hc
          have he1 := EnvStep.call (M := M1) (st := st1) (stk := .wait (.subSrc j) l1 :: k1') (g := g1) (tr := tr1)
            (.srcGreet i) rfl
            (by simp only [legalIn, Bool.and_eq_true, beq_iff_eq, Bool.or_eq_true]; exact ⟨hsub1, by simpa [isTop, inSub, inPull] using hctx⟩)
          refine ⟨_, _, reach_env hr1 he1, hr2, ⟨rfl, rfl, rfl, rfl, ?_, .runLo (.extSub h)⟩⟩
          simpa only [onIn_ph] using hgh'
      | srcDown i d =>
        simp only [legalIn, Bool.and_eq_true, beq_iff_eq, Bool.or_eq_true] at hl
        obtain ⟨hlive, hctx⟩ := hl
        have hlive1 : g1.ph.srcPh i = .live := (hgh.src i).symm.trans hlive
        have hgh' : GhostRel (g.ph.onIn (.srcDown i d)) (g1.ph.onIn (.srcDown i d)) g2.ph := by
          cases d with
          | data x => exact hgh
          | term => exact hgh.setSrcExt i .ended
          | err e => exact hgh.setSrcExt i .ended
        cases hrel with
        | @extHi o _ _ _ _ _ ho h =>
          simp [ctxOf] at hc; subst hc
          cases o <;> simp [isTop, inSub, inPull, SinkSide] at hctx ho
        | nil =>
          have he1 := EnvStep.call (M := M1) (st := st1) (stk := []) (g := g1) (tr := tr1) (.srcDown i d) rfl
            (by simp [legalIn, hlive1, isTop])
          refine ⟨_, _, reach_env hr1 he1, hr2, ⟨rfl, rfl, rfl, rfl, ?_, .runLo .nil⟩⟩
          simpa only [onIn_ph] using hgh'
        | @extSub j l1 cfs stk' k1' _ h =>
          simp [ctxOf] at hc; subst hc
          have he1 := EnvStep.call (M := M1) (st := st1) (stk := .wait (.subSrc j) l1 :: k1') (g := g1) (tr := tr1)
            (.srcDown i d) rfl
            (by simp only [legalIn, Bool.and_eq_true, beq_iff_eq, Bool.or_eq_true]; exact ⟨hlive1, by simpa [isTop, inSub, inPull] using hctx⟩)
          refine ⟨_, _, reach_env hr1 he1, hr2, ⟨rfl, rfl, rfl, rfl, ?_, .runLo (.extSub h)⟩⟩
          simpa only [onIn_ph] using hgh'
        | @extUp j u l1 cfs stk' k1' _ h =>
          simp [ctxOf] at hc; subst hc
          have he1 := EnvStep.call (M := M1) (st := st1) (stk := .wait (.srcUp j u) l1 :: k1') (g := g1) (tr := tr1)
            (.srcDown i d) rfl
            (by simp only [legalIn, Bool.and_eq_true, beq_iff_eq, Bool.or_eq_true]
                refine ⟨hlive1, ?_⟩
                cases u <;> simp [isTop, inSub, inPull] at hctx ⊢ <;> exact hctx)
          refine ⟨_, _, reach_env hr1 he1, hr2, ⟨rfl, rfl, rfl, rfl, ?_, .runLo (.extUp h)⟩⟩
          simpa only [onIn_ph] using hgh'
  | @ret st stk g tr o l hl =>
    simp only at hst hgh hsm
    subst hst
    cases hsm with
    | turn hrel =>
      cases hrel with
      | @extSub j l1 cfs _ k1' _ h =>
        have he1 := EnvStep.ret (M := M1) (st := st1) (stk := k1') (g := g1) (tr := tr1) (o := .subSrc j) (l := l1)
          (by simpa [legalRet, compose, hgh.src j] using hl)
        exact ⟨_, _, reach_env hr1 he1, hr2, ⟨rfl, rfl, rfl, rfl, hgh, .runLo h⟩⟩
      | @extUp j u l1 cfs _ k1' _ h =>
        have he1 := EnvStep.ret (M := M1) (st := st1) (stk := k1') (g := g1) (tr := tr1) (o := .srcUp j u) (l := l1)
          (by simp [legalRet])
        exact ⟨_, _, reach_env hr1 he1, hr2, ⟨rfl, rfl, rfl, rfl, hgh, .runLo h⟩⟩
      | @extHi _ l2 cfs _ _ k2' ho h =>
        have he2 := EnvStep.ret (M := M2) (st := st2) (stk := k2') (g := g2) (tr := tr2) (o := o) (l := l2)
          (legalRet_sinkSide _ _ ho)
        exact ⟨_, _, hr1, reach_env hr2 he2, ⟨rfl, rfl, rfl, rfl, hgh, .runHi h⟩⟩

theorem Rel.turn_stk {sd} {stk : List (Frame (List (CFr L1 L2)) γ)} {k1 : List (Frame L1 β)} {k2 : List (Frame L2 γ)}
    (h : Rel sd [] stk k1 k2) : (ctxOf stk).isSome = true := by
  cases h <;> simp [ctxOf]

/-- THE INVARIANT: every reachable configuration of the pipeline projects onto reachable configurations of its components -/
theorem compose_inv (H : Hyp M1 M2) :
    ∀ s, SReach (compose M1 M2) s → ∃ s1 s2, SReach M1 s1 ∧ SReach M2 s2 ∧ Match s s1 s2 := by
  intro s hs
  induction hs with
  | init =>
    refine ⟨Sys.init M1, Sys.init M2, .init, .init, ⟨rfl, rfl, rfl, rfl, ?_, .turn (sd := .lo) .nil⟩⟩
    exact ⟨rfl, fun k => by simp [Sys.init], fun i => by simp [Sys.init], by simp [Sys.init, toSrc],
      fun k => by simp [Sys.init], fun i => by simp [Sys.init]⟩
  | @step a b ha hab ih =>
    obtain ⟨s1, s2, hr1, hr2, hm⟩ := ih
    cases hab with
    | env he _ => exact step_env hr1 hr2 hm he
    | op hop =>
      obtain ⟨st, stk, g, tr, p⟩ := a
      obtain ⟨st1, k1, g1, tr1, p1⟩ := s1
      obtain ⟨st2, k2, g2, tr2, p2⟩ := s2
      obtain ⟨hst, hp, hp1, hp2, hgh, hsm⟩ := hm
      simp only at hst hp hp1 hp2 hgh hsm
      subst hst hp hp1 hp2
      cases hsm with
      | turn hrel =>
        have := opStep_none_of_envTurn (M := compose M1 M2)
          (s := ⟨(st1, st2), stk, g, tr, none⟩) ⟨rfl, hrel.turn_stk⟩
        rw [this] at hop; cases hop
      | runLo hrel => exact step_lo H hr1 hr2 hrel hgh hop
      | runHi hrel => exact step_hi H hr1 hr2 hrel hgh hop

end Steps

end ComposeSafe

open ComposeSafe in
/-- **Assume–guarantee for pipelines.**  If `M₁` and `M₂` are each phase-level safe against EVERY conformant environment, then so is
`pipe!(·, M₁, M₂)`, provided

* `hlg2`   `M₂` expects its upstream to greet inside the subscribing call (no late greeting), and
  `hsync`  `M₁` does greet its sink inside the subscribing call;
* `hopen`  whenever `M₂` has given up control while its upstream is subscribed or live, one of its own sinks is still open
  (otherwise an upstream subscription made by `M₁` at that moment would be a `subAfterOver` of the pipeline that neither component
  can see: `M₁` sees its sink `M₂` open, and `M₂` made no call);
* `happ`, `hsub`  (syntactic) `M₁` never applies a user closure and `M₂` has a single upstream: the panic branches of `compose`
  are dead code.  (`M₁` calling a sink other than 0, or `M₂` messaging an upstream other than 0, is already excluded by `h1`, `h2`.) -/
theorem compose_basicSafe {S1 L1 S2 L2 α β γ : Type} (M1 : Machine S1 L1 α β) (M2 : Machine S2 L2 β γ)
    (hlg2 : M2.shape.lateGreet = false)
    (happ : ∀ st l b st' l', M1.step st l ≠ .call (.app b) st' l')
    (hsub : ∀ st l i st' l', M2.step st l ≠ .call (.subSrc (i + 1)) st' l')
    (hsync : ∀ s, SReach M1 s → s.stack = [] → s.g.ph.sinkPh 0 ≠ .subscribed)
    (hopen : ∀ s, SReach M2 s → EnvTurn s → (s.g.ph.srcPh 0 = .subscribed ∨ s.g.ph.srcPh 0 = .live) →
      s.g.ph.anySinkOpen = true)
    (h1 : ∀ s, SReach M1 s → BasicSafe s) (h2 : ∀ s, SReach M2 s → BasicSafe s) :
    ∀ s, SReach (compose M1 M2) s → BasicSafe s := by
  intro s hs
  obtain ⟨s1, s2, _, _, hm⟩ := compose_inv ⟨hlg2, happ, hsub, hsync, hopen, h1, h2⟩ s hs
  exact ⟨hm.gh.v, hm.p⟩


/-! ## Instances: the side conditions hold of the unary operators -/
namespace ComposeSafe

/-- an invariant stated at environment turns holds at every reachable environment turn -/
theorem inv_at_turn {St Loc α β : Type} (M : Machine St Loc α β) (Inv : Sys St Loc α β → Prop)
    (hinit : Inv (Sys.init M)) (hturn : ∀ s, Inv s → EnvTurn s)
    (hstep : ∀ s s' m, Inv s → EnvStep M m s s' → ∃ n, Inv (advance M n s'))
    {s : Sys St Loc α β} (hs : SReach M s) (ht : EnvTurn s) : Inv s := by
  obtain ⟨n, hn⟩ := reach_runs_into_inv M anyEnv Inv hinit hturn (fun s s' m hi he _ => hstep s s' m hi he) s hs
  rwa [advance_of_envTurn ht] at hn

/-- relays (map / filter / scan / skip) greet their sink inside the subscribing call -/
theorem relay_sync {σ α β : Type} (k : Relay.Kind σ α β) (hk : k.slotted = false → ∀ s a, (k.xfer s a).2 ≠ none) :
    ∀ s, SReach (Relay.machine k) s → s.stack = [] → s.g.ph.sinkPh 0 ≠ .subscribed := by
  intro s hs hstk
  have ht : EnvTurn s := ⟨(Relay.relay_basicSafe k hk s hs).2, by simp [hstk, ctxOf]⟩
  obtain ⟨_, _, _, _, hm⟩ := inv_at_turn (Relay.machine k) (Relay.Inv k) (Relay.inv_init k)
    (fun s hi => (Relay.inv_turn k s hi).1) (Relay.inv_step k hk) hs ht
  cases hm with
  | m1 h _ _ => simp [h]
  | m2 _ _ h => simp [hstk] at h
  | m3 h _ _ _ => simp [h]
  | m4 h _ _ => simp [h]
  | m5 h _ _ => simp [h]

theorem relay_noApp {σ α β : Type} (k : Relay.Kind σ α β) :
    ∀ st l b st' l', (Relay.machine k).step st l ≠ .call (.app b) st' l' := by
  intro st l b st' l'
  cases l <;> simp only [Relay.machine, Relay.step] <;> (try split) <;> simp

/-- take: whenever it has given up control with its upstream subscribed or live, its sink is open -/
theorem take_open {α : Type} (max : Nat) :
    ∀ s, SReach (Take.machine α max) s → EnvTurn s → (s.g.ph.srcPh 0 = .subscribed ∨ s.g.ph.srcPh 0 = .live) →
      s.g.ph.anySinkOpen = true := by
  intro s hs ht h
  obtain ⟨_, _, _, _, _, hm⟩ := inv_at_turn (Take.machine α max) (Take.Inv max) (Take.inv_init max)
    (fun s hi => (Take.inv_turn max s hi).1) (Take.inv_step max) hs ht
  apply (Ph.anySinkOpen_iff _).2
  cases hm with
  | m1 _ h2 _ _ _ _ => simp [h2] at h
  | m2 h1 _ _ _ _ _ => exact ⟨0, .inl h1⟩
  | m3 h1 _ _ _ _ _ => exact ⟨0, .inr h1⟩
  | m4 _ h2 _ _ => simp [h2] at h
  | m5 _ h2 _ _ => simp [h2] at h
  | m6 _ h2 _ _ _ => simp [h2] at h
  | m7 _ h2 _ _ => simp [h2] at h

theorem take_oneSrc {α : Type} (max : Nat) :
    ∀ st l i st' l', (Take.machine α max).step st l ≠ .call (.subSrc (i + 1)) st' l' := by
  intro st l i st' l'
  cases l <;> simp only [Take.machine, Take.step] <;> (try split) <;> (try split) <;> simp

end ComposeSafe

/-- `pipe!(source, <relay>, take(max))` — e.g. `map(f)`, `filter(p)`, `scan(r, seed)`, `skip(n)` followed by `take(max)` — is
phase-level safe; all hypotheses of `compose_basicSafe` are discharged from `Inv/Relay.lean` and `Inv/Take.lean` -/
theorem compose_relay_take_basicSafe {σ α β : Type} (k : Relay.Kind σ α β)
    (hk : k.slotted = false → ∀ s a, (k.xfer s a).2 ≠ none) (max : Nat) :
    ∀ s, SReach (compose (Relay.machine k) (Take.machine β max)) s → BasicSafe s :=
  compose_basicSafe (Relay.machine k) (Take.machine β max) rfl (ComposeSafe.relay_noApp k) (ComposeSafe.take_oneSrc max)
    (ComposeSafe.relay_sync k hk) (ComposeSafe.take_open max) (Relay.relay_basicSafe k hk) (Take.take_basicSafe max)

example {α β : Type} (f : α → β) (max : Nat) :
    ∀ s, SReach (compose (Relay.machine (Relay.map f)) (Take.machine β max)) s → BasicSafe s :=
  compose_basicSafe (Relay.machine (Relay.map f)) (Take.machine β max) rfl (ComposeSafe.relay_noApp _)
    (ComposeSafe.take_oneSrc max) (ComposeSafe.relay_sync _ (fun _ _ _ => by simp [Relay.map]))
    (ComposeSafe.take_open max) (Relay.map_basicSafe f) (Take.take_basicSafe max)


/-! ## Closure under composition: pipelines of any length -/

/-- everything the assume–guarantee theorem asks of a component, in either role -/
structure Pipeable {St Loc α β : Type} (M : Machine St Loc α β) : Prop where
  lg : M.shape.lateGreet = false
  noApp : ∀ st l b st' l', M.step st l ≠ .call (.app b) st' l'
  oneSrc : ∀ st l i st' l', M.step st l ≠ .call (.subSrc (i + 1)) st' l'
  sync : ∀ s, SReach M s → s.stack = [] → s.g.ph.sinkPh 0 ≠ .subscribed
  opn : ∀ s, SReach M s → EnvTurn s → (s.g.ph.srcPh 0 = .subscribed ∨ s.g.ph.srcPh 0 = .live) → s.g.ph.anySinkOpen = true
  safe : ∀ s, SReach M s → BasicSafe s

namespace ComposeSafe
variable {S1 L1 S2 L2 α β γ : Type} {M1 : Machine S1 L1 α β} {M2 : Machine S2 L2 β γ}

theorem compose_noApp (h : ∀ st l b st' l', M2.step st l ≠ .call (.app b) st' l') :
    ∀ st l b st' l', (compose M1 M2).step st l ≠ .call (.app b) st' l' := by
  intro st l b st' l'
  cases l with
  | nil => simp [compose]
  | cons c rest =>
    cases c with
    | lo l1 =>
      simp only [compose]
      cases h1 : M1.step st.1 l1 with
      | tau => simp
      | ret => simp only []; split <;> simp
      | panic => simp
      | call o s l' =>
        cases o with
        | greet k => cases k <;> simp
        | down k d => cases k <;> simp
        | subSrc i => simp
        | srcUp i u => simp
        | app b' => simp
    | hi l2 =>
      simp only [compose]
      cases h2 : M2.step st.2 l2 with
      | tau => simp
      | ret => simp only []; split <;> simp
      | panic => simp
      | call o s l' =>
        cases o with
        | greet k => simp
        | down k d => simp
        | subSrc i => cases i <;> simp
        | srcUp i u => cases i <;> simp
        | app b' => exact absurd h2 (h _ _ _ _ _)

theorem compose_oneSrc (h : ∀ st l i st' l', M1.step st l ≠ .call (.subSrc (i + 1)) st' l') :
    ∀ st l i st' l', (compose M1 M2).step st l ≠ .call (.subSrc (i + 1)) st' l' := by
  intro st l i st' l'
  cases l with
  | nil => simp [compose]
  | cons c rest =>
    cases c with
    | lo l1 =>
      simp only [compose]
      cases h1 : M1.step st.1 l1 with
      | tau => simp
      | ret => simp only []; split <;> simp
      | panic => simp
      | call o s l' =>
        cases o with
        | greet k => cases k <;> simp
        | down k d => cases k <;> simp
        | subSrc j =>
          cases j with
          | zero => simp
          | succ j => exact absurd h1 (h _ _ _ _ _)
        | srcUp i u => simp
        | app b' => simp
    | hi l2 =>
      simp only [compose]
      cases h2 : M2.step st.2 l2 with
      | tau => simp
      | ret => simp only []; split <;> simp
      | panic => simp
      | call o s l' =>
        cases o with
        | greet k => simp
        | down k d => simp
        | subSrc i => cases i <;> simp
        | srcUp i u => cases i <;> simp
        | app b' => simp

end ComposeSafe

open ComposeSafe in
/-- a pipeline of two pipeable operators is pipeable: `compose_basicSafe` can be iterated -/
theorem Pipeable.compose {S1 L1 S2 L2 α β γ : Type} {M1 : Machine S1 L1 α β} {M2 : Machine S2 L2 β γ}
    (P1 : Pipeable M1) (P2 : Pipeable M2) : Pipeable (compose M1 M2) := by
  have H : Hyp M1 M2 := ⟨P2.lg, P1.noApp, P2.oneSrc, P1.sync, P2.opn, P1.safe, P2.safe⟩
  refine ⟨P1.lg, compose_noApp P2.noApp, compose_oneSrc P1.oneSrc, ?_, ?_, ?_⟩
  · intro s hs hstk
    obtain ⟨s1, s2, hr1, hr2, hm⟩ := compose_inv H s hs
    obtain ⟨st, stk, g, tr, p⟩ := s
    obtain ⟨st1, k1, g1, tr1, p1⟩ := s1
    obtain ⟨st2, k2, g2, tr2, p2⟩ := s2
    obtain ⟨_, _, _, _, hgh, hsm⟩ := hm
    simp only at hstk hgh hsm ⊢
    subst hstk
    rw [hgh.sink 0]
    cases hsm with
    | turn hrel =>
      cases hrel with
      | nil => exact P2.sync _ hr2 rfl
  · intro s hs ht h
    obtain ⟨s1, s2, hr1, hr2, hm⟩ := compose_inv H s hs
    obtain ⟨st, stk, g, tr, p⟩ := s
    obtain ⟨st1, k1, g1, tr1, p1⟩ := s1
    obtain ⟨st2, k2, g2, tr2, p2⟩ := s2
    obtain ⟨_, _, hp1, hp2, hgh, hsm⟩ := hm
    simp only at h hp1 hp2 hgh hsm ⊢
    have hturns : EnvTurn (⟨st1, k1, g1, tr1, p1⟩ : Sys S1 L1 α β) ∧ EnvTurn (⟨st2, k2, g2, tr2, p2⟩ : Sys S2 L2 β γ) := by
      cases hsm with
      | turn hrel => exact ⟨⟨hp1, hrel.turns.1⟩, ⟨hp2, hrel.turns.2⟩⟩
      | runLo hrel => have := ht.2; simp [ctxOf] at this
      | runHi hrel => have := ht.2; simp [ctxOf] at this
    rw [hgh.src 0] at h
    obtain ⟨k, hk⟩ := (Ph.anySinkOpen_iff _).1 (P1.opn _ hr1 hturns.1 h)
    simp only at hk
    have h2 : g2.ph.srcPh 0 = .subscribed ∨ g2.ph.srcPh 0 = .live := by
      cases k with
      | succ k => rw [hgh.sink1 k] at hk; rcases hk with hk | hk <;> cases hk
      | zero => rw [hgh.ifc]; rcases hk with hk | hk <;> rw [hk] <;> simp [toSrc]
    obtain ⟨k', hk'⟩ := (Ph.anySinkOpen_iff _).1 (P2.opn _ hr2 hturns.2 h2)
    exact (Ph.anySinkOpen_iff _).2 ⟨k', by rw [hgh.sink k']; exact hk'⟩
  · intro s hs
    obtain ⟨s1, s2, _, _, hm⟩ := compose_inv H s hs
    exact ⟨hm.gh.v, hm.p⟩

namespace ComposeSafe

theorem relay_oneSrc {σ α β : Type} (k : Relay.Kind σ α β) :
    ∀ st l i st' l', (Relay.machine k).step st l ≠ .call (.subSrc (i + 1)) st' l' := by
  intro st l i st' l'
  cases l <;> simp only [Relay.machine, Relay.step] <;> (try split) <;> simp

theorem relay_open {σ α β : Type} (k : Relay.Kind σ α β) (hk : k.slotted = false → ∀ s a, (k.xfer s a).2 ≠ none) :
    ∀ s, SReach (Relay.machine k) s → EnvTurn s → (s.g.ph.srcPh 0 = .subscribed ∨ s.g.ph.srcPh 0 = .live) →
      s.g.ph.anySinkOpen = true := by
  intro s hs ht h
  obtain ⟨_, _, _, _, hm⟩ := inv_at_turn (Relay.machine k) (Relay.Inv k) (Relay.inv_init k)
    (fun s hi => (Relay.inv_turn k s hi).1) (Relay.inv_step k hk) hs ht
  apply (Ph.anySinkOpen_iff _).2
  cases hm with
  | m1 _ h2 _ => simp [h2] at h
  | m2 h1 _ _ => exact ⟨0, .inl h1⟩
  | m3 h1 _ _ _ => exact ⟨0, .inr h1⟩
  | m4 _ h2 _ => simp [h2] at h
  | m5 _ h2 _ => simp [h2] at h

theorem take_sync {α : Type} (max : Nat) :
    ∀ s, SReach (Take.machine α max) s → s.stack = [] → s.g.ph.sinkPh 0 ≠ .subscribed := by
  intro s hs hstk
  have ht : EnvTurn s := ⟨(Take.take_basicSafe max s hs).2, by simp [hstk, ctxOf]⟩
  obtain ⟨_, _, _, _, _, hm⟩ := inv_at_turn (Take.machine α max) (Take.Inv max) (Take.inv_init max)
    (fun s hi => (Take.inv_turn max s hi).1) (Take.inv_step max) hs ht
  cases hm with
  | m1 h _ _ _ _ _ => simp [h]
  | m2 _ _ _ _ _ h => simp [hstk] at h
  | m3 h _ _ _ _ _ => simp [h]
  | m4 h _ _ _ => simp [h]
  | m5 h _ _ _ => simp [h]
  | m6 h _ _ _ _ => simp [h]
  | m7 h _ _ _ => simp [h]

theorem take_noApp {α : Type} (max : Nat) :
    ∀ st l b st' l', (Take.machine α max).step st l ≠ .call (.app b) st' l' := by
  intro st l b st' l'
  cases l <;> simp only [Take.machine, Take.step] <;> (try split) <;> (try split) <;> simp

end ComposeSafe

theorem Relay.pipeable {σ α β : Type} (k : Relay.Kind σ α β) (hk : k.slotted = false → ∀ s a, (k.xfer s a).2 ≠ none) :
    Pipeable (Relay.machine k) :=
  ⟨rfl, ComposeSafe.relay_noApp k, ComposeSafe.relay_oneSrc k, ComposeSafe.relay_sync k hk, ComposeSafe.relay_open k hk,
    Relay.relay_basicSafe k hk⟩

theorem Take.pipeable {α : Type} (max : Nat) : Pipeable (Take.machine α max) :=
  ⟨rfl, ComposeSafe.take_noApp max, ComposeSafe.take_oneSrc max, ComposeSafe.take_sync max, ComposeSafe.take_open max,
    Take.take_basicSafe max⟩

/-- a four-stage pipeline `pipe!(source, filter(p), map(f), take(n), scan(r, seed))`, bracketed both ways -/
example {α β γ : Type} (p : α → Bool) (f : α → β) (n : Nat) (r : γ → β → γ) (seed : γ) :
    (∀ s, SReach (compose (compose (compose (Relay.machine (Relay.filter p)) (Relay.machine (Relay.map f))) (Take.machine β n))
        (Relay.machine (Relay.scan r seed))) s → BasicSafe s) ∧
    (∀ s, SReach (compose (Relay.machine (Relay.filter p)) (compose (Relay.machine (Relay.map f))
        (compose (Take.machine β n) (Relay.machine (Relay.scan r seed))))) s → BasicSafe s) := by
  have hF := Relay.pipeable (Relay.filter p) (fun h => by simp [Relay.filter] at h)
  have hM := Relay.pipeable (Relay.map f) (fun _ _ _ => by simp [Relay.map])
  have hT := Take.pipeable (α := β) n
  have hS := Relay.pipeable (Relay.scan r seed) (fun _ _ _ => by simp [Relay.scan])
  exact ⟨(((hF.compose hM).compose hT).compose hS).safe, (hF.compose (hM.compose (hT.compose hS))).safe⟩

end Cb

#print axioms Cb.compose_basicSafe
#print axioms Cb.compose_relay_take_basicSafe
#print axioms Cb.Pipeable.compose
#print axioms Cb.Relay.pipeable
#print axioms Cb.Take.pipeable
