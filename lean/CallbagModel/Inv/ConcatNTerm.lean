import CallbagModel.Inv.ComposeTerm
import CallbagModel.Closed.Exec
/-!
# Termination: a potential for the n-ary `concat!` the driver builds (`Closed.concatM`)

`HeadPot.concatM`: if every member is a closed head with a potential, so is `concatM As` — a fold of `Pot.plug` over the slots, parallel to
`ConcatN.fold_partC`.  The members' cost functions are first replaced by common bounds (`headPot_common`), the costs of the `concat`
machine are resolved from them exactly as for two members (`HeadPot.concat2`), and every slot is plugged with `Pot.plug`, which leaves the
entry points (`Pot.plug_enter`) and the cost function (`costC`) of the `concat` machine unchanged.
-/
namespace Cb
namespace ComposeTerm
open ComposeSafe Closed

theorem Pot.UpLe.mono {St Loc α β : Type} {M : Machine St Loc α β} {cost : Out β → Nat} {P : Pot M cost} {a b c a' b' c' : Nat}
    (h : P.UpLe a b c) (ha : a ≤ a') (hb : b ≤ b') (hc : c ≤ c') : P.UpLe a' b' c' :=
  ⟨Nat.le_trans h.sub ha, Nat.le_trans h.pull hb, Nat.le_trans h.uterm hc, fun x => Nat.le_trans (h.uerr x) hc⟩

/-- the members of a list of heads with potentials have potentials with COMMON bounds on the costs of their entry points -/
theorem headPot_common (As : List AnyM) (h : ∀ A ∈ As, HeadPot A.M) :
    ∃ (fs : Nat → Nat → Nat) (fp : Nat → Nat) (fu : Nat), ∀ A ∈ As, ∀ g d f : Nat,
      ∃ P : Pot A.M ((⟨0, 0, 0, g, d, f, 0⟩ : Costs).of (β := Int)), P.good A.M.init ∧ P.UpLe (fs g f) (fp f) fu := by
  induction As with
  | nil => exact ⟨fun _ _ => 0, fun _ => 0, 0, fun A hA => by cases hA⟩
  | cons B t ih =>
    obtain ⟨fs, fp, fu, ht⟩ := ih (fun A hA => h A (List.mem_cons_of_mem _ hA))
    obtain ⟨fsB, fpB, fuB, hB⟩ := h B List.mem_cons_self
    refine ⟨fun g f => max (fsB g f) (fs g f), fun f => max (fpB f) (fp f), max fuB fu, fun A hA g d f => ?_⟩
    rcases List.mem_cons.1 hA with rfl | hA
    · obtain ⟨P, hg, hu⟩ := hB g d f
      exact ⟨P, hg, hu.mono (Nat.le_max_left _ _) (Nat.le_max_left _ _) (Nat.le_max_left _ _)⟩
    · obtain ⟨P, hg, hu⟩ := ht A hA g d f
      exact ⟨P, hg, hu.mono (Nat.le_max_right _ _) (Nat.le_max_right _ _) (Nat.le_max_right _ _)⟩

/-- plugging the slots `k, k+1, …` of a (partially plugged) `concat` machine keeps its potential's entry points and cost function -/
theorem fold_pot (n : Nat) (c : Costs) (gM dM fM : Nat)
    (hd : ∀ j, (Concat.pot Int n c).DownLeAt j gM dM fM) :
    ∀ (l : List AnyM) (k : Nat) (acc : AnyM), k + l.length ≤ n →
      (∃ P : Pot acc.M (costC (α := Int) n c),
        (∀ i, P.ω (acc.M.enter i) = (Concat.pot Int n c).ω ((Concat.machine Int n).enter i)) ∧ P.good acc.M.init) →
      (∀ A ∈ l, ∃ PA : Pot A.M ((⟨0, 0, 0, gM, dM, fM, 0⟩ : Costs).of (β := Int)),
        PA.good A.M.init ∧ PA.UpLe c.sub c.pull c.ufin) →
      ∃ P : Pot ((l.zipIdx k).foldl (fun acc (p : AnyM × Nat) => plugM p.2 p.1 acc) acc).M (costC (α := Int) n c),
        (∀ i, P.ω (((l.zipIdx k).foldl (fun acc (p : AnyM × Nat) => plugM p.2 p.1 acc) acc).M.enter i) =
          (Concat.pot Int n c).ω ((Concat.machine Int n).enter i)) ∧
        P.good ((l.zipIdx k).foldl (fun acc (p : AnyM × Nat) => plugM p.2 p.1 acc) acc).M.init := by
  intro l
  induction l with
  | nil => intro k acc _ h _; exact h
  | cons A t ih =>
    intro k acc hk hacc hl
    simp only [List.zipIdx_cons, List.foldl_cons]
    simp only [List.length_cons] at hk
    obtain ⟨P, hP, gP⟩ := hacc
    obtain ⟨PA, gA, uA⟩ := hl A List.mem_cons_self
    have hdk : P.DownLeAt k gM dM fM := by
      have h0 := hd k
      exact ⟨by rw [hP]; exact h0.greet, fun a => by rw [hP]; exact h0.data a, by rw [hP]; exact h0.term,
        fun x => by rw [hP]; exact h0.err x⟩
    have hs : PA.ω (A.M.enter (.subscribe 0)) ≤ costC (α := Int) n c (.subSrc k) := by
      have : k < n := by omega
      simp only [costC, this, if_true]; exact uA.sub
    have hu : ∀ u, PA.ω (A.M.enter (.sinkUp 0 u)) ≤ costC (α := Int) n c (.srcUp k u) := by
      intro u
      cases u with
      | pull => exact uA.pull
      | term => exact uA.uterm
      | err x => exact uA.uerr x
    refine ih (k + 1) (plugM k A acc) (by omega) ⟨PA.plug k P hdk hs hu, fun i => ?_, gA, gP⟩
      (fun B hB => hl B (List.mem_cons_of_mem _ hB))
    exact (Pot.plug_enter k PA P hdk hs hu i).trans (hP i)

/-- **`concatM As`** of closed heads with potentials is a closed head with a potential -/
theorem HeadPot.concatM (As : List AnyM) (h : ∀ A ∈ As, HeadPot A.M) : HeadPot (Closed.concatM As).M := by
  obtain ⟨fs, fp, fu, hAs⟩ := headPot_common As h
  refine ⟨fun g f => f + fs (g + fp (f + 4) + 7) (f + 4) + 3, fun f => fp (f + 4) + 4, fu + 3, fun g d f => ?_⟩
  let c : Costs := ⟨fs (g + fp (f + 4) + 7) (f + 4), fp (f + 4), fu, g, d, f, 0⟩
  have hd : ∀ j, (Concat.pot Int As.length c).DownLeAt j (g + fp (f + 4) + 7) (d + 3) (f + 4) :=
    fun j => Concat.pot_downLeAt Int As.length c j
  obtain ⟨P, hP, gP⟩ := fold_pot As.length c (g + fp (f + 4) + 7) (d + 3) (f + 4) hd As 0
    { St := Concat.St, Loc := Concat.Loc Int, M := Concat.machine Int As.length, nexts := fun _ => 0 } (by omega)
    ⟨Concat.pot Int As.length c, fun _ => rfl, trivial⟩
    (fun A hA => hAs A hA (g + fp (f + 4) + 7) (d + 3) (f + 4))
  have hle : ∀ o : Out Int, (⟨0, 0, 0, g, d, f, 0⟩ : Costs).of o ≤ costC (α := Int) As.length c o := by
    intro o
    cases o with
    | subSrc i => simp [Costs.of]
    | srcUp i u => cases u <;> simp [Costs.of]
    | greet k => simp [costC, Costs.of, c]
    | down k d' => cases d' <;> simp [costC, Costs.of, c]
    | app b => simp [costC, Costs.of, c]
  have h0 := Concat.pot_upLe Int As.length c
  refine ⟨P.weaken hle, gP, ?_, ?_, ?_, ?_⟩
  · rw [Pot.weaken_ω]; exact Nat.le_trans (Nat.le_of_eq (hP _)) h0.sub
  · rw [Pot.weaken_ω]; exact Nat.le_trans (Nat.le_of_eq (hP _)) h0.pull
  · rw [Pot.weaken_ω]; exact Nat.le_trans (Nat.le_of_eq (hP _)) h0.uterm
  · intro x; rw [Pot.weaken_ω]; exact Nat.le_trans (Nat.le_of_eq (hP _)) (h0.uerr x)

end ComposeTerm
end Cb

#print axioms Cb.ComposeTerm.HeadPot.concatM
