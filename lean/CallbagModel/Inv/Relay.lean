import CallbagModel.Inv.Ghost
import CallbagModel.Ops.Relay
/-!
# map / filter / scan / skip: the phase-level safety invariant

Every call of the relay machine is a tail call: each frame below the top of the stack is `wait _ .done`, which assumes
nothing when it resumes.  The only numeric fact is "in the live mode a slotted kind has its slot filled", which makes the
two `expect`s (`repull`, `u0`) unreachable.  For a generic `Kind` one more hypothesis is needed: a kind that re-pulls
(`xfer` returns `none`) must be slotted — true of all four operators.
-/
namespace Cb.Relay
open Cb

variable {σ α β : Type}

/-- continuations that may sit on the stack: only finished handler bodies -/
def Benign : Frame (Loc α β) β → Prop
  | .wait _ .done => True
  | _ => False

inductive Mode (k : Kind σ α β) (st : St σ) (g : Ph) (stk : List (Frame (Loc α β) β)) : Prop where
  | m1 : g.sinkPh 0 = .idle → g.srcPh 0 = .idle → stk = [] → Mode k st g stk
  | m2 : g.sinkPh 0 = .subscribed → g.srcPh 0 = .subscribed → stk = [.wait (.subSrc 0) .done] → Mode k st g stk
  | m3 : g.sinkPh 0 = .live → g.srcPh 0 = .live → (k.slotted = true → st.slot = true) →
         (∀ f ∈ stk, Benign f) → Mode k st g stk
  | m4 : g.sinkPh 0 = .doneBySelf → g.srcPh 0 = .disposed → (∀ f ∈ stk, Benign f) → Mode k st g stk
  | m5 : g.sinkPh 0 = .doneBySrc → g.srcPh 0 = .ended → (∀ f ∈ stk, Benign f) → Mode k st g stk

def Inv (k : Kind σ α β) (s : Sys (St σ) (Loc α β) α β) : Prop :=
  s.panicked = none ∧ s.g.ph.viols = [] ∧
  (∀ i, i ≠ 0 → s.g.ph.srcPh i = .idle) ∧ (∀ j, j ≠ 0 → s.g.ph.sinkPh j = .idle) ∧
  Mode k s.st s.g.ph s.stack

theorem ctx_isSome_of_benign {stk : List (Frame (Loc α β) β)}
    (h : ∀ f ∈ stk, Benign f) : (ctxOf stk).isSome := by
  cases stk with
  | nil => simp [ctxOf]
  | cons f r =>
    have := h f (by simp)
    cases f with
    | run l => simp [Benign] at this
    | wait o l => simp [ctxOf]

theorem inv_turn (k : Kind σ α β) (s : Sys (St σ) (Loc α β) α β) (h : Inv k s) : EnvTurn s ∧ BasicSafe s := by
  obtain ⟨hp, hb, _, _, hm⟩ := h
  refine ⟨⟨hp, ?_⟩, hb, hp⟩
  cases hm with
  | m1 _ _ h => simp [h, ctxOf]
  | m2 _ _ h => simp [h, ctxOf]
  | m3 _ _ _ h => exact ctx_isSome_of_benign h
  | m4 _ _ h => exact ctx_isSome_of_benign h
  | m5 _ _ h => exact ctx_isSome_of_benign h

theorem benign_done (o : Out β) : Benign (Frame.wait o .done : Frame (Loc α β) β) := by simp [Benign]

macro "exec" n:num : tactic =>
  `(tactic| (refine ⟨$n, ?_⟩; simp [advance, opStep, machine, enter, step, Ph.onIn, Ph.onOut, Inv, isFinal, *]))

theorem inv_step (k : Kind σ α β) (hk : k.slotted = false → ∀ s a, (k.xfer s a).2 ≠ none)
    (s s' : Sys (St σ) (Loc α β) α β) (m : Move α) (h : Inv k s) (hs : EnvStep (machine k) m s s') :
    ∃ n, Inv k (advance (machine k) n s') := by
  obtain ⟨hp, hb, hoth, hoths, hm⟩ := h
  cases hs with
  | @call st stk g tr c i hc hl =>
    simp only at hp hb hoth hoths hm
    cases i with
    | subscribe j =>
      simp only [legalIn, Bool.and_eq_true, beq_iff_eq, machine, Bool.or_false] at hl
      obtain ⟨⟨hc', hidle⟩, rfl⟩ := hl
      cases hm <;> simp_all
      have hopen : (g.ph.setSink 0 .subscribed).anySinkOpen = true := (Ph.anySinkOpen_iff _).2 ⟨0, by simp⟩
      exec 1
      refine ⟨fun i hi => by simp [hi, hoth i hi], fun j hj => by simp [hj, hoths j hj], Mode.m2 (by simp) (by simp) rfl⟩
    | sinkUp j u =>
      simp only [legalIn, Bool.and_eq_true, beq_iff_eq, Bool.or_eq_true] at hl
      obtain ⟨hlive, hctx⟩ := hl
      have hj : j = 0 := by
        by_cases hj : j = 0
        · exact hj
        · rw [hoths j hj] at hlive; cases hlive
      subst hj
      cases hm with
      | m3 h1 h2 h3 h6 =>
        have hne : (k.slotted && !st.slot) = false := by
          cases hks : k.slotted with
          | false => simp
          | true => simp [h3 hks]
        cases u with
        | pull =>
          exec 1
          exact ⟨hoth, hoths, Mode.m3 h1 h2 h3 (List.forall_mem_cons.2 ⟨benign_done _, h6⟩)⟩
        | term =>
          exec 1
          exact ⟨fun i hi => by simp [hi, hoth i hi], fun j hj => by simp [hj, hoths j hj],
            Mode.m4 (by simp) (by simp) (List.forall_mem_cons.2 ⟨benign_done _, h6⟩)⟩
        | err e =>
          exec 1
          exact ⟨fun i hi => by simp [hi, hoth i hi], fun j hj => by simp [hj, hoths j hj],
            Mode.m4 (by simp) (by simp) (List.forall_mem_cons.2 ⟨benign_done _, h6⟩)⟩
      | _ => simp_all
    | srcGreet i =>
      simp only [legalIn, Bool.and_eq_true, beq_iff_eq, machine, Bool.false_and, Bool.or_false] at hl
      obtain ⟨hsub, hin⟩ := hl
      by_cases hi : i = 0
      · subst hi
        cases hm with
        | m2 h1 h2 h5 =>
          subst h5
          cases hks : k.slotted with
          | false =>
            exec 2
            refine ⟨fun i hi => by simp [hi, hoth i hi], fun j hj => by simp [hj, hoths j hj],
              Mode.m3 (by simp) (by simp) (by simp [hks]) ?_⟩
            simp [Benign]
          | true =>
            exec 2
            refine ⟨fun i hi => by simp [hi, hoth i hi], fun j hj => by simp [hj, hoths j hj],
              Mode.m3 (by simp) (by simp) (by simp) ?_⟩
            simp [Benign]
        | _ => simp_all
      · simp [hoth i hi] at hsub
    | srcDown i d =>
      simp only [legalIn, Bool.and_eq_true, beq_iff_eq, Bool.or_eq_true] at hl
      obtain ⟨hlive, hctx⟩ := hl
      by_cases hi : i = 0
      · subst hi
        cases hm with
        | m3 h1 h2 h3 h6 =>
          cases d with
          | data a =>
            cases hx : (k.xfer st.priv a).2 with
            | some b =>
              exec 2
              exact ⟨hoth, hoths, Mode.m3 h1 h2 h3 (List.forall_mem_cons.2 ⟨benign_done _, h6⟩)⟩
            | none =>
              have hsl : st.slot = true := by
                apply h3
                cases hks : k.slotted with
                | true => rfl
                | false => exact absurd hx (hk hks _ _)
              exec 2
              exact ⟨hoth, hoths, Mode.m3 h1 h2 (fun _ => rfl) (List.forall_mem_cons.2 ⟨benign_done _, h6⟩)⟩
          | term =>
            exec 1
            exact ⟨fun i hi => by simp [hi, hoth i hi], fun j hj => by simp [hj, hoths j hj],
              Mode.m5 (by simp) (by simp) (List.forall_mem_cons.2 ⟨benign_done _, h6⟩)⟩
          | err e =>
            exec 1
            exact ⟨fun i hi => by simp [hi, hoth i hi], fun j hj => by simp [hj, hoths j hj],
              Mode.m5 (by simp) (by simp) (List.forall_mem_cons.2 ⟨benign_done _, h6⟩)⟩
        | _ => simp_all
      · simp [hoth i hi] at hlive
  | @ret st stk g tr o l hl =>
    simp only at hp hb hoth hoths hm
    have hl_done : ∀ (_ : ∀ f ∈ Frame.wait o l :: stk, Benign f), l = .done ∧ ∀ f ∈ stk, Benign f := by
      intro h6
      have hben := h6 _ (List.mem_cons_self)
      refine ⟨?_, (List.forall_mem_cons.1 h6).2⟩
      cases l <;> simp_all [Benign]
    cases hm with
    | m1 _ _ h => simp at h
    | m2 h1 h2 h5 =>
      simp at h5; obtain ⟨⟨rfl, rfl⟩, rfl⟩ := h5
      simp [legalRet, h2, machine] at hl
    | m3 h1 h2 h3 h6 =>
      obtain ⟨rfl, hrest⟩ := hl_done h6
      exec 1
      exact ⟨hoth, hoths, Mode.m3 h1 h2 h3 hrest⟩
    | m4 h1 h2 h6 =>
      obtain ⟨rfl, hrest⟩ := hl_done h6
      exec 1
      exact ⟨hoth, hoths, Mode.m4 h1 h2 hrest⟩
    | m5 h1 h2 h6 =>
      obtain ⟨rfl, hrest⟩ := hl_done h6
      exec 1
      exact ⟨hoth, hoths, Mode.m5 h1 h2 hrest⟩

theorem inv_init (k : Kind σ α β) : Inv k (Sys.init (machine k)) :=
  ⟨rfl, rfl, fun _ _ => by simp [Sys.init], fun _ _ => by simp [Sys.init],
    Mode.m1 (by simp [Sys.init]) (by simp [Sys.init]) rfl⟩

/-- The generic relay: under every conformant environment it never violates the sink- or source-side protocol and never
panics, provided a kind that drops items (and therefore re-pulls through the slot) is a slotted kind. -/
theorem relay_basicSafe (k : Kind σ α β) (hk : k.slotted = false → ∀ s a, (k.xfer s a).2 ≠ none) :
    ∀ s, SReach (machine k) s → BasicSafe s :=
  basicSafe_of_macro_inv (machine k) (Inv k) (inv_init k) (inv_turn k) (inv_step k hk)

theorem map_basicSafe {α β : Type} (f : α → β) : ∀ s, SReach (machine (map f)) s → BasicSafe s :=
  relay_basicSafe (map f) (fun _ _ _ => by simp [map])

theorem filter_basicSafe {α : Type} (p : α → Bool) : ∀ s, SReach (machine (filter p)) s → BasicSafe s :=
  relay_basicSafe (filter p) (fun h => by simp [filter] at h)

theorem scan_basicSafe {α β : Type} (r : β → α → β) (seed : β) : ∀ s, SReach (machine (scan r seed)) s → BasicSafe s :=
  relay_basicSafe (scan r seed) (fun _ _ _ => by simp [scan])

theorem skip_basicSafe {α : Type} (n : Nat) : ∀ s, SReach (machine (skip (α := α) n)) s → BasicSafe s :=
  relay_basicSafe (skip n) (fun h => by simp [skip] at h)

end Cb.Relay

#print axioms Cb.Relay.relay_basicSafe
#print axioms Cb.Relay.map_basicSafe
#print axioms Cb.Relay.filter_basicSafe
#print axioms Cb.Relay.scan_basicSafe
#print axioms Cb.Relay.skip_basicSafe
