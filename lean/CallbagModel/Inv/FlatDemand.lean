import CallbagModel.Inv.JoinDemand
/-!
# `flatten` under a demand: the pull discipline of `Flatten.machine`

Assumption `CndF dem tr` (closed under tails): the outer source delivers data only when pulled and no upstream sends an `Error`
(`FK.Cnd`); every inner source delivers AND ENDS only when pulled; the sink obeys the demand `dem`.

`KF_reach`: then, at every reachable configuration of `Flatten.machine Int`,
* `tf.pok`: the sink receives data only in answer to a `Pull` (`flatten` is then `PullOnly`);
* `tf.lp`: an upstream with an unserved `Pull` is the CURRENT one (`st.inner`, or the outer source 0 if there is none), and then the
  sink's `Pull` is unserved — in particular at most one upstream is being pulled;
* `pw : PullsWanted dem tr`: every `Pull` sent upstream (to an inner source or to the outer one — `p0`, `p1`, `ig1`, `it2`) was sent
  while the sink still wanted items;
* `q`: while an inner source is subscribed and has not greeted yet, the sink's `Pull` is unserved and no upstream is being pulled;
* `Fl`: the assertions on the running handler (`od0`/`od1`/`ig0`/`ig1`: the outer datum answered the only outstanding `Pull`;
  `it0`/`it1`/`it2`: so did the inner terminal — this is where "ends only when pulled" is used; `fwd`: so did the inner datum).

For the network: `flatPlug_pullOnly` (`flatten(map(g)(outer))` is `PullOnly` when the outer source is and the inner sources deliver and
end only when pulled — `from_iter` inner sources in particular), and `flatPlug_pullsWanted` (the invariant, for the `flatten` inside a
reachable configuration of the network, under a sink that obeys `dem`).

NOT here (increment (2) is not finished): the cost of `flatPlug` under a demand — turning `pw` into `DemOk` for every inner source
(offset: the lengths of the inner sources before it, all ended by then) and for the outer source (the data-dependent demand "as many
outer items as inner sources are needed", to be matched against `flatCost`'s `started`), the first part of `HeadLow` summed over the
inner sources, and the extension of `Prog3.tf`/`hc`/`lazy` by `flatRep`.
-/
namespace Cb
namespace FlatDemand
open ComposeSafe ComposeFun ComposeComplete PlugSafe PlugConcat FlatPlugSafe FlatPlugFun ComposeCost JoinDemand FK

/-! ## phases -/

theorem onOut_sub_back {β : Type} (ph : Ph) (o : Out β) (j : Nat) (h : (ph.onOut o).srcPh j = .subscribed) :
    ph.srcPh j = .subscribed ∨ ∃ i, o = .subSrc i ∧ j = i := by
  cases o with
  | greet k => simp only [Ph.onOut] at h; split at h <;> exact .inl (by simpa using h)
  | down k d =>
    simp only [Ph.onOut] at h
    split at h
    · split at h <;> exact .inl (by simpa using h)
    all_goals exact .inl (by simpa using h)
  | subSrc i =>
    simp only [Ph.onOut] at h
    split at h
    · exact .inl (by simpa using h)
    · split at h
      · exact .inl (by simpa using h)
      · simp only [Ph.srcPh_setSrc] at h
        split at h
        · exact .inr ⟨i, rfl, ‹_›⟩
        · exact .inl h
  | srcUp i u =>
    cases u <;> simp only [Ph.onOut] at h <;> split at h
    all_goals first
      | exact .inl h
      | (simp only [Ph.srcPh_setSrc] at h; split at h; cases h; exact .inl h)
      | exact .inl (by simpa using h)
  | app b => exact .inl h

/-! ## traces -/

/-- the upstream that may be pulled: the current inner source, else the outer one -/
def cur (st : Flatten.St) : Nat := st.inner.getD 0

def AllF (sr : List (SrcEv Int)) : Prop := ∀ j, lastPullSrc j sr = false

/-- every `Pull` sent upstream was sent while the sink wanted more -/
def PullsWanted (dem : Demand) : List (Ev Int Int) → Prop
  | [] => True
  | e :: t => ((∃ j, e = Ev.out (.srcUp j .pull)) → wants dem (recvData 0 t).length) ∧ PullsWanted dem t

structure TF (c : Nat) (sk : List (SinkEv Int)) (sr : List (SrcEv Int)) : Prop where
  pok : POk sk
  lp : ∀ j, lastPullSrc j sr = true → j = c ∧ lastPull 0 sk = true

variable {c : Nat} {sk : List (SinkEv Int)} {sr : List (SrcEv Int)}

theorem TF.sinkNeutral (h : TF c sk sr) (e : SinkEv Int) (h1 : relS 0 e = none) (h2 : isData0 e = false) : TF c (e :: sk) sr :=
  ⟨⟨fun hd => (by rw [h2] at hd; cases hd), h.pok⟩, fun j hj => ⟨(h.lp j hj).1, by simp only [lastPull, h1, Option.getD_none]; exact (h.lp j hj).2⟩⟩

theorem TF.pull0 (h : TF c sk sr) : TF c (.up 0 .pull :: sk) sr :=
  ⟨⟨fun hd => (by simp [isData0] at hd), h.pok⟩, fun j hj => ⟨(h.lp j hj).1, by simp [lastPull, relS]⟩⟩

theorem TF.srcNeutral (h : TF c sk sr) (e : SrcEv Int) (h1 : ∀ j, relSrc j e = none) : TF c sk (e :: sr) :=
  ⟨h.pok, fun j hj => h.lp j (by simpa [lastPullSrc, h1] using hj)⟩

theorem TF.srcDown (h : TF c sk sr) (k : Nat) (d : Down Int) : TF c sk (.down k d :: sr) := by
  refine ⟨h.pok, fun j hj => ?_⟩
  by_cases hk : k = j
  · subst hk; simp [lastPullSrc, relSrc] at hj
  · exact h.lp j (by simpa [lastPullSrc, relSrc, hk] using hj)

theorem TF.pullSrc (h : TF c sk sr) (ha : lastPull 0 sk = true) : TF c sk (.up c .pull :: sr) := by
  refine ⟨h.pok, fun j hj => ?_⟩
  by_cases hk : c = j
  · exact ⟨hk.symm, ha⟩
  · exact h.lp j (by simpa [lastPullSrc, relSrc, hk] using hj)

theorem TF.out (h : TF c sk sr) (d : Down Int) (ha : isData0 (SinkEv.down 0 d) = true → lastPull 0 sk = true) (hf : AllF sr) :
    TF c (.down 0 d :: sk) sr :=
  ⟨⟨ha, h.pok⟩, fun j hj => by rw [hf j] at hj; cases hj⟩

theorem TF.recur (h : TF c sk sr) (hf : AllF sr) (c' : Nat) : TF c' sk sr :=
  ⟨h.pok, fun j hj => by rw [hf j] at hj; cases hj⟩

/-- an answer from the upstream that was being pulled: nothing is being pulled any more -/
theorem allF_down (h : TF c sk sr) {k : Nat} (hk : lastPullSrc k sr = true) (d : Down Int) : AllF (.down k d :: sr) := by
  intro j
  by_cases hkj : k = j
  · subst hkj; simp [lastPullSrc, relSrc]
  · simp only [lastPullSrc, relSrc, if_neg hkj, Option.getD_none]
    cases hj : lastPullSrc j sr with
    | false => rfl
    | true => exact absurd ((h.lp k hk).1.trans (h.lp j hj).1.symm) hkj

theorem AllF.neutral (hf : AllF sr) (e : SrcEv Int) (h1 : ∀ j, relSrc j e = none) : AllF (e :: sr) :=
  fun j => by simp only [lastPullSrc, h1, Option.getD_none]; exact hf j

theorem AllF.down (hf : AllF sr) (k : Nat) (d : Down Int) : AllF (.down k d :: sr) := by
  intro j
  by_cases hkj : k = j
  · subst hkj; simp [lastPullSrc, relSrc]
  · simp only [lastPullSrc, relSrc, if_neg hkj, Option.getD_none]; exact hf j

/-! ## the assumption -/

structure CndF (dem : Demand) (tr : List (Ev Int Int)) : Prop where
  c : FK.Cnd tr
  pi : ∀ j, POkSrc (j + 1) (srcEvs tr)
  ei : ∀ j, EOkSrc (j + 1) (srcEvs tr)
  dm : DemOk dem (sinkEvs tr)

theorem CndF.tail {dem : Demand} {e : Ev Int Int} {tr : List (Ev Int Int)} (h : CndF dem (e :: tr)) : CndF dem tr :=
  ⟨h.c.tail, fun j => pOkSrc_tail_evJ (h.pi j), fun j => eOkSrc_tail_ev (h.ei j), h.dm.tail⟩

/-! ## the invariant -/

def NoSub (ph : Ph) : Prop := ∀ j, 1 ≤ j → ph.srcPh j ≠ .subscribed

def Fl (st : Flatten.St) (ph : Ph) (tr : List (Ev Int Int)) : List Fm → Prop
  | .run (.fwd _) :: _ => aP tr = true ∧ AllF (srcEvs tr) ∧ NoSub ph
  | .run .od0 :: _ => aP tr = true ∧ AllF (srcEvs tr)
  | .run .od1 :: _ => aP tr = true ∧ AllF (srcEvs tr)
  | .run (.ig0 _) :: _ => aP tr = true ∧ AllF (srcEvs tr) ∧ NoSub ph
  | .run .ig1 :: _ => aP tr = true ∧ AllF (srcEvs tr) ∧ NoSub ph
  | .run .it0 :: _ => aP tr = true ∧ AllF (srcEvs tr) ∧ NoSub ph
  | .run .it1 :: _ => aP tr = true ∧ AllF (srcEvs tr) ∧ NoSub ph
  | .run .it2 :: _ => aP tr = true ∧ AllF (srcEvs tr) ∧ NoSub ph
  | .run .ot0 :: _ => (st.inner = none → AllF (srcEvs tr)) ∧ NoSub ph
  | .run .p0 :: _ => aP tr = true ∧ NoSub ph
  | .run .p1 :: _ => aP tr = true ∧ NoSub ph
  | _ => True

theorem fl_wait {st : Flatten.St} {ph : Ph} {tr : List (Ev Int Int)} {stk : List Fm}
    (h : ∀ f ∈ stk, ∃ o l, f = Frame.wait o l) : Fl st ph tr stk := by
  cases stk with
  | nil => trivial
  | cons f r => obtain ⟨o, l, rfl⟩ := h f List.mem_cons_self; trivial

structure KF (dem : Demand) (s : FSys) : Prop where
  tf : TF (cur s.st) (sinkEvs s.tr) (srcEvs s.tr)
  pw : PullsWanted dem s.tr
  q : ∀ j, 1 ≤ j → s.g.ph.srcPh j = .subscribed → aP s.tr = true ∧ AllF (srcEvs s.tr)
  fl : Fl s.st s.g.ph s.tr s.stack

/-! ### what the modes say about subscribed inner sources -/

theorem noSub_or_wgreet {st : Flatten.St} {g : Ph} {stk : List Fm} (hm : Flatten.Mode st g stk)
    (hidle : ∀ i, st.nextId ≤ i → g.srcPh i = .idle) :
    NoSub g ∨ ∃ j0 r, g.srcPh j0 = .subscribed ∧ stk = Frame.wait (.subSrc j0) .done :: r ∧
      ∀ j, 1 ≤ j → g.srcPh j = .subscribed → j = j0 := by
  have hdead : ∀ j, g.srcPh j = .subscribed → Flatten.Dead g j → False :=
    fun j hs h => by rcases h with h | h <;> rw [h] at hs <;> cases hs
  cases hm with
  | init _ _ _ _ _ h6 => exact .inl (fun j hj hs => by rw [hidle j (by omega)] at hs; cases hs)
  | sub _ _ _ _ _ h6 => exact .inl (fun j hj hs => by rw [hidle j (by omega)] at hs; cases hs)
  | live _ _ h3 h4 _ =>
    refine .inl (fun j hj hs => ?_)
    by_cases hlt : j < st.nextId
    · by_cases hin : st.inner = some j
      · rw [(h3 j hin).2.2] at hs; cases hs
      · exact hdead j hs (h4 j (by omega) hlt hin)
    · rw [hidle j (by omega)] at hs; cases hs
  | wgreet j0 _ _ _ h4 h5 h6 h =>
    obtain ⟨r, h, _⟩ := h
    refine .inr ⟨j0, r, h5, h, fun j hj hs => ?_⟩
    rcases Nat.lt_trichotomy j j0 with hlt | heq | hgt
    · exact (hdead j hs (h6 j (by omega) hlt)).elim
    · exact heq
    · rw [hidle j (by omega)] at hs; cases hs
  | od1 k _ _ h3 _ =>
    refine .inl (fun j hj hs => ?_)
    by_cases hlt : j < st.nextId
    · exact hdead j hs (h3 j (by omega) hlt)
    · rw [hidle j (by omega)] at hs; cases hs
  | oe1 k e _ h _ => exact .inl (fun j _ hs => (h j).2 hs)
  | ie1 e _ h _ => exact .inl (fun j _ hs => (h j).2 hs)
  | x1 k _ _ h _ => exact .inl (fun j hj hs => (h j (by omega)).2 hs)
  | fin _ h _ => exact .inl (fun j _ hs => (h j).2 hs)

theorem noSub_sinkUp {st : Flatten.St} {g : Ph} {stk : List Fm} {c : Ctx Int} {k : Nat} {u : Up} (hm : Flatten.Mode st g stk)
    (hidle : ∀ i, st.nextId ≤ i → g.srcPh i = .idle) (hc : ctxOf stk = some c)
    (hl : legalIn (Flatten.machine Int).shape g c (.sinkUp k u : In Int) = true) : NoSub g := by
  rcases noSub_or_wgreet hm hidle with h | ⟨j0, r, _, he, _⟩
  · exact h
  · subst he
    simp only [ctxOf, Option.some.injEq] at hc
    subst hc
    simp [legalIn, isTop, inGreet, inData] at hl

theorem noSub_srcDown {st : Flatten.St} {g : Ph} {stk : List Fm} {c : Ctx Int} {i : Nat} {d : Down Int} (hm : Flatten.Mode st g stk)
    (hidle : ∀ i, st.nextId ≤ i → g.srcPh i = .idle) (hc : ctxOf stk = some c)
    (hl : legalIn (Flatten.machine Int).shape g c (.srcDown i d : In Int) = true) : NoSub g := by
  rcases noSub_or_wgreet hm hidle with h | ⟨j0, r, hs, he, _⟩
  · exact h
  · subst he
    simp only [ctxOf, Option.some.injEq] at hc
    subst hc
    have hlive := legal_srcDown hl
    simp only [legalIn, isTop, inSub, inPull, Bool.and_eq_true, Bool.or_eq_true, beq_iff_eq, Bool.false_eq_true, false_or, or_false] at hl
    have : i = j0 := hl.2
    subst this
    rw [hs] at hlive; cases hlive

theorem cur_some {st : Flatten.St} {k : Nat} (h : st.inner = some k) : cur st = k := by simp [cur, h]
theorem cur_none {st : Flatten.St} (h : st.inner = none) : cur st = 0 := by simp [cur, h]

theorem aP_out_src {o : Out Int} {tr : List (Ev Int Int)} (h : sinkEv (Ev.out o : Ev Int Int) = none) : aP (Ev.out o :: tr) = aP tr := by
  simp [aP, sinkEvs, h]

theorem KF_reach (dem : Demand) : ∀ s, SReach (Flatten.machine Int) s → CndF dem s.tr → KF dem s := by
  apply reach_ind
  · intro _
    exact ⟨⟨trivial, fun j h => by simp [Sys.init, srcEvs, lastPullSrc] at h⟩, trivial,
      fun j _ h => by simp [Sys.init] at h, trivial⟩
  · intro a b ha ih hstep
    cases hstep with
    | @tau st l stk g tr s' l' hst =>
      intro hC
      obtain ⟨htf, hpw, hq, hfl⟩ := ih hC
      obtain ⟨hk1, hf1, _⟩ := E1_reach _ ha hC.c
      simp only at htf hpw hq hfl hk1 hf1
      cases ftau_of hst with
      | og0 => exact ⟨htf, hpw, hq, trivial⟩
      | od0 h => exact ⟨htf, hpw, hq, hfl⟩
      | oe0 h => exact hf1.elim
      | ot0 h => exact ⟨htf, hpw, hq, trivial⟩
      | ig0 => simp only [Fl] at hfl; exact ⟨htf.recur hfl.2.1 _, hpw, hq, hfl⟩
      | ie0 h => exact hf1.elim
      | it0 h => exact ⟨htf, hpw, hq, hfl⟩
      | it1 => simp only [Fl] at hfl; exact ⟨htf.recur hfl.2.1 _, hpw, hq, hfl⟩
      | p0 h => exact ⟨htf, hpw, hq, hfl⟩
      | x0 h => exact ⟨htf, hpw, hq, trivial⟩
    | @call st l stk g tr o s' l' hst =>
      intro hC
      have hC' := hC.tail
      obtain ⟨htf, hpw, hq, hfl⟩ := ih hC'
      obtain ⟨hk1, hf1, _⟩ := E1_reach _ ha hC'.c
      simp only at htf hpw hq hfl hk1 hf1
      -- the two ways `q` is re-established
      have qkeep : ∀ (o : Out Int), (∀ i, o ≠ .subSrc i) → aP (Ev.out o :: tr) = aP tr →
          (AllF (srcEvs tr) → AllF (srcEvs (Ev.out o :: tr))) →
          ∀ j, 1 ≤ j → (G.onOut (Flatten.machine Int).shape g o).ph.srcPh j = .subscribed →
            aP (Ev.out o :: tr) = true ∧ AllF (srcEvs (Ev.out o :: tr)) := by
        intro o hno hap hall j hj hs
        simp only [onOut_ph] at hs
        rcases onOut_sub_back g.ph o j hs with h | ⟨i, h, _⟩
        · obtain ⟨h1, h2⟩ := hq j hj h
          exact ⟨hap ▸ h1, hall h2⟩
        · exact absurd h (hno i)
      have qnone : ∀ (o : Out Int), (∀ i, o ≠ .subSrc i) → NoSub g.ph →
          ∀ j, 1 ≤ j → (G.onOut (Flatten.machine Int).shape g o).ph.srcPh j = .subscribed →
            aP (Ev.out o :: tr) = true ∧ AllF (srcEvs (Ev.out o :: tr)) := by
        intro o hno hns j hj hs
        simp only [onOut_ph] at hs
        rcases onOut_sub_back g.ph o j hs with h | ⟨i, h, _⟩
        · exact absurd h (hns j hj)
        · exact absurd h (hno i)
      have hwant : aP tr = true → wants dem (recvData 0 tr).length := fun hap => by
        rw [recvData_eq]; exact wants_of_lastPull hC'.dm hap
      cases fcall_of hst with
      | sub0 =>
        refine ⟨?_, ⟨fun ⟨j, h⟩ => (by cases h), hpw⟩, fun j hj hs => ?_, trivial⟩
        · simp only [sinkEvs, sinkEv, srcEvs, srcEv, consOpt_some, consOpt_none]
          exact htf.srcNeutral _ (fun j => rfl)
        · simp only [onOut_ph] at hs
          rcases onOut_sub_back g.ph _ j hs with h | ⟨i, h, hji⟩
          · obtain ⟨h1, h2⟩ := hq j hj h
            exact ⟨by rw [aP_out_src rfl]; exact h1, by simp only [srcEvs, srcEv, consOpt_some]; exact h2.neutral _ (fun j => rfl)⟩
          · cases h; omega
      | og1 =>
        refine ⟨?_, ⟨fun ⟨j, h⟩ => (by cases h), hpw⟩, qkeep _ (fun i h => by cases h) (by simp [aP, sinkEvs, sinkEv, lastPull, relS]) (fun h => by simpa [srcEvs, srcEv] using h), trivial⟩
        simp only [sinkEvs, sinkEv, srcEvs, srcEv, consOpt_some, consOpt_none]
        exact htf.sinkNeutral _ rfl rfl
      | od0 h => simp only [Fl1] at hf1; rw [hf1.1] at h; cases h
      | od1 =>
        simp only [Fl] at hfl
        refine ⟨?_, ⟨fun ⟨j, h⟩ => (by cases h), hpw⟩, fun j _ _ => ?_, trivial⟩
        · simp only [sinkEvs, sinkEv, srcEvs, srcEv, consOpt_some, consOpt_none]
          exact htf.srcNeutral _ (fun j => rfl)
        · exact ⟨by rw [aP_out_src rfl]; exact hfl.1, by simp only [srcEvs, srcEv, consOpt_some]; exact hfl.2.neutral _ (fun j => rfl)⟩
      | oe0 h => exact hf1.elim
      | oe1 => exact hf1.elim
      | ot0 h =>
        simp only [Fl] at hfl
        refine ⟨?_, ⟨fun ⟨j, h⟩ => (by cases h), hpw⟩, qnone _ (fun i h => by cases h) hfl.2, trivial⟩
        simp only [sinkEvs, sinkEv, srcEvs, srcEv, consOpt_some, consOpt_none]
        exact htf.out _ (fun hd => by simp [isData0] at hd) (hfl.1 h)
      | ig1 h =>
        simp only [Fl] at hfl
        refine ⟨?_, ⟨fun _ => hwant hfl.1, hpw⟩, qnone _ (fun i h => by cases h) hfl.2.2, trivial⟩
        simp only [sinkEvs, sinkEv, srcEvs, srcEv, consOpt_some, consOpt_none]
        have := htf.pullSrc hfl.1
        rw [cur_some h] at this ⊢; exact this
      | fwd =>
        simp only [Fl] at hfl
        refine ⟨?_, ⟨fun ⟨j, h⟩ => (by cases h), hpw⟩, qnone _ (fun i h => by cases h) hfl.2.2, trivial⟩
        simp only [sinkEvs, sinkEv, srcEvs, srcEv, consOpt_some, consOpt_none]
        exact htf.out _ (fun _ => hfl.1) hfl.2.1
      | ie0 h => exact hf1.elim
      | ie1 => exact hf1.elim
      | it0 h =>
        simp only [Fl] at hfl
        refine ⟨?_, ⟨fun ⟨j, h⟩ => (by cases h), hpw⟩, qnone _ (fun i h => by cases h) hfl.2.2, trivial⟩
        simp only [sinkEvs, sinkEv, srcEvs, srcEv, consOpt_some, consOpt_none]
        exact htf.out _ (fun hd => by simp [isData0] at hd) hfl.2.1
      | it2 h =>
        simp only [Fl] at hfl
        simp only [Fl1] at hf1
        refine ⟨?_, ⟨fun _ => hwant hfl.1, hpw⟩, qnone _ (fun i h => by cases h) hfl.2.2, trivial⟩
        simp only [sinkEvs, sinkEv, srcEvs, srcEv, consOpt_some, consOpt_none]
        have := htf.pullSrc hfl.1
        rw [cur_none hf1.2] at this ⊢; exact this
      | p0 h =>
        simp only [Fl] at hfl
        refine ⟨?_, ⟨fun _ => hwant hfl.1, hpw⟩, qnone _ (fun i h => by cases h) hfl.2, trivial⟩
        simp only [sinkEvs, sinkEv, srcEvs, srcEv, consOpt_some, consOpt_none]
        have := htf.pullSrc hfl.1
        rw [cur_some h] at this ⊢; exact this
      | p1 h =>
        simp only [Fl] at hfl
        simp only [Fl1] at hf1
        refine ⟨?_, ⟨fun _ => hwant hfl.1, hpw⟩, qnone _ (fun i h => by cases h) hfl.2, trivial⟩
        simp only [sinkEvs, sinkEv, srcEvs, srcEv, consOpt_some, consOpt_none]
        have := htf.pullSrc hfl.1
        rw [cur_none hf1.1] at this ⊢; exact this
      | x0 h =>
        refine ⟨?_, ⟨fun ⟨j, h⟩ => (by cases h), hpw⟩, qkeep _ (fun i h => by cases h) (aP_out_src rfl)
          (fun h => by simp only [srcEvs, srcEv, consOpt_some]; exact h.neutral _ (fun j => rfl)), trivial⟩
        simp only [sinkEvs, sinkEv, srcEvs, srcEv, consOpt_some, consOpt_none]
        exact htf.srcNeutral _ (fun j => rfl)
      | x1 h =>
        refine ⟨?_, ⟨fun ⟨j, h⟩ => (by cases h), hpw⟩, qkeep _ (fun i h => by cases h) (aP_out_src rfl)
          (fun h => by simp only [srcEvs, srcEv, consOpt_some]; exact h.neutral _ (fun j => rfl)), trivial⟩
        simp only [sinkEvs, sinkEv, srcEvs, srcEv, consOpt_some, consOpt_none]
        exact htf.srcNeutral _ (fun j => rfl)
    | @ret st l stk g tr hst =>
      intro hC
      obtain ⟨htf, hpw, hq, hfl⟩ := ih hC.tail
      simp only at htf hpw hq hfl
      refine ⟨by simpa [sinkEvs, sinkEv, srcEvs, srcEv] using htf, ⟨fun ⟨j, h⟩ => (by cases h), hpw⟩, ?_, fl_wait (pop_turn _ ha)⟩
      intro j hj hs
      simp only [onRetO_ph] at hs
      obtain ⟨h1, h2⟩ := hq j hj hs
      exact ⟨by simpa [aP, sinkEvs, sinkEv] using h1, by simpa [srcEvs, srcEv] using h2⟩
    | panic hst =>
      intro hC
      obtain ⟨htf, hpw, hq, hfl⟩ := ih hC.tail
      simp only at htf hpw hq hfl
      refine ⟨by simpa [sinkEvs, sinkEv, srcEvs, srcEv] using htf, ⟨fun ⟨j, h⟩ => (by cases h), hpw⟩, ?_, fl_wait (pop_turn _ ha)⟩
      intro j hj hs
      obtain ⟨h1, h2⟩ := hq j hj hs
      exact ⟨by simpa [aP, sinkEvs, sinkEv] using h1, by simpa [srcEvs, srcEv] using h2⟩
  · intro a b m ha ih hstep
    cases hstep with
    | @call st stk g tr c i hc hl =>
      intro hC
      have hC' := hC.tail
      obtain ⟨htf, hpw, hq, hfl⟩ := ih hC'
      simp only at htf hpw hq hfl
      obtain ⟨_, _, hpos, hidle, hoths, hm⟩ := inv_turn' ha ⟨rfl, by simp [hc]⟩
      simp only at hpos hidle hoths hm
      cases i with
      | subscribe k =>
        refine ⟨?_, ⟨fun ⟨j, h⟩ => (by cases h), hpw⟩, fun j hj hs => ?_, trivial⟩
        · simp only [sinkEvs, sinkEv, srcEvs, srcEv, consOpt_some, consOpt_none]
          exact htf.sinkNeutral _ rfl rfl
        · simp only [onIn_ph, Ph.onIn, Ph.srcPh_setSink] at hs
          obtain ⟨h1, h2⟩ := hq j hj hs
          exact ⟨by simpa [aP, sinkEvs, sinkEv, lastPull, relS] using h1, by simpa [srcEvs, srcEv] using h2⟩
      | sinkUp k u =>
        have hlive := legal_sinkUp hl
        have hkz : k = 0 := by
          by_cases hk : k = 0
          · exact hk
          · rw [hoths k hk] at hlive; cases hlive
        subst hkz
        have hns := noSub_sinkUp hm hidle hc hl
        cases u with
        | pull =>
          have hap : aP (Ev.inp (In.sinkUp 0 Up.pull) :: tr) = true := by simp [aP, sinkEvs, sinkEv, lastPull, relS]
          refine ⟨?_, ⟨fun ⟨j, h⟩ => (by cases h), hpw⟩, fun j hj hs => ?_, ?_⟩
          · simp only [sinkEvs, sinkEv, srcEvs, srcEv, consOpt_some, consOpt_none]
            exact htf.pull0
          · simp only [onIn_ph, Ph.onIn] at hs
            exact absurd hs (hns j hj)
          · simp only [Flatten.machine, Flatten.enter, Fl, onIn_ph, Ph.onIn]; exact ⟨hap, hns⟩
        | term =>
          refine ⟨?_, ⟨fun ⟨j, h⟩ => (by cases h), hpw⟩, fun j hj hs => ?_, trivial⟩
          · simp only [sinkEvs, sinkEv, srcEvs, srcEv, consOpt_some, consOpt_none]
            exact htf.sinkNeutral _ rfl rfl
          · simp only [onIn_ph, Ph.onIn, Ph.srcPh_setSink] at hs
            exact absurd hs (hns j hj)
        | err e =>
          refine ⟨?_, ⟨fun ⟨j, h⟩ => (by cases h), hpw⟩, fun j hj hs => ?_, trivial⟩
          · simp only [sinkEvs, sinkEv, srcEvs, srcEv, consOpt_some, consOpt_none]
            exact htf.sinkNeutral _ rfl rfl
          · simp only [onIn_ph, Ph.onIn, Ph.srcPh_setSink] at hs
            exact absurd hs (hns j hj)
      | srcGreet i =>
        have hsub := legal_srcGreet hl
        have hq' : ∀ j, 1 ≤ j → (g.onIn stk.length (In.srcGreet i : In Int)).ph.srcPh j = .subscribed →
            j ≠ i ∧ g.ph.srcPh j = .subscribed := by
          intro j hj hs
          simp only [onIn_ph, Ph.onIn, Ph.srcPh_setSrc] at hs
          split at hs
          · cases hs
          · exact ⟨‹_›, hs⟩
        have htf' : TF (cur st) (sinkEvs (Ev.inp (In.srcGreet i) :: tr)) (srcEvs (Ev.inp (In.srcGreet i) :: tr)) := by
          simp only [sinkEvs, sinkEv, srcEvs, srcEv, consOpt_some, consOpt_none]
          exact htf.srcNeutral _ (fun j => rfl)
        have hqn : ∀ j, 1 ≤ j → (g.onIn stk.length (In.srcGreet i : In Int)).ph.srcPh j = .subscribed →
            aP (Ev.inp (In.srcGreet i) :: tr) = true ∧ AllF (srcEvs (Ev.inp (In.srcGreet i) :: tr)) := by
          intro j hj hs
          obtain ⟨h1, h2⟩ := hq j hj (hq' j hj hs).2
          exact ⟨by simpa [aP, sinkEvs, sinkEv] using h1, by simp only [srcEvs, srcEv, consOpt_some]; exact h2.neutral _ (fun j => rfl)⟩
        cases i with
        | zero => exact ⟨htf', ⟨fun ⟨j, h⟩ => (by cases h), hpw⟩, hqn, trivial⟩
        | succ i' =>
          refine ⟨htf', ⟨fun ⟨j, h⟩ => (by cases h), hpw⟩, hqn, ?_⟩
          obtain ⟨h1, h2⟩ := hq (i' + 1) (by omega) hsub
          simp only [Flatten.machine, Flatten.enter, Fl]
          refine ⟨by simpa [aP, sinkEvs, sinkEv] using h1, by simp only [srcEvs, srcEv, consOpt_some]; exact h2.neutral _ (fun j => rfl), ?_⟩
          intro j hj hs
          obtain ⟨hne, hs'⟩ := hq' j hj hs
          rcases noSub_or_wgreet hm hidle with h | ⟨j0, r, _, _, huniq⟩
          · exact h j hj hs'
          · exact hne ((huniq j hj hs').trans (huniq (i' + 1) (by omega) hsub).symm)
      | srcDown i d =>
        have hlive := legal_srcDown hl
        have hns := noSub_srcDown hm hidle hc hl
        have hns' : NoSub (g.onIn stk.length (In.srcDown i d : In Int)).ph := by
          intro j hj hs
          apply hns j hj
          cases d <;> simp only [onIn_ph, Ph.onIn, Ph.srcPh_setSrc] at hs
          · exact hs
          all_goals (split at hs; cases hs; exact hs)
        have htf' : TF (cur st) (sinkEvs (Ev.inp (In.srcDown i d) :: tr)) (srcEvs (Ev.inp (In.srcDown i d) :: tr)) := by
          simp only [sinkEvs, sinkEv, srcEvs, srcEv, consOpt_some, consOpt_none]
          exact htf.srcDown i d
        have hqn : ∀ j, 1 ≤ j → (g.onIn stk.length (In.srcDown i d : In Int)).ph.srcPh j = .subscribed →
            aP (Ev.inp (In.srcDown i d) :: tr) = true ∧ AllF (srcEvs (Ev.inp (In.srcDown i d) :: tr)) :=
          fun j hj hs => absurd hs (hns' j hj)
        have hpw' : PullsWanted dem (Ev.inp (In.srcDown i d) :: tr) := ⟨fun ⟨j, h⟩ => (by cases h), hpw⟩
        have hapn : aP (Ev.inp (In.srcDown i d) :: tr) = aP tr := by simp [aP, sinkEvs, sinkEv]
        -- an answer to the only outstanding `Pull`
        have answered : lastPullSrc i (srcEvs tr) = true →
            aP (Ev.inp (In.srcDown i d) :: tr) = true ∧ AllF (srcEvs (Ev.inp (In.srcDown i d) :: tr)) := by
          intro hb
          refine ⟨hapn ▸ (htf.lp i hb).2, ?_⟩
          simp only [srcEvs, srcEv, consOpt_some]
          exact allF_down htf hb d
        cases d with
        | err e => exact absurd ⟨i, e, by simp [srcEvs, srcEv]⟩ hC.c.2
        | data x =>
          cases i with
          | zero =>
            have hb : lastPullSrc 0 (srcEvs tr) = true := by
              have := hC.c.1; simp only [srcEvs, srcEv, consOpt_some] at this; exact this.1 (by simp [isDataJ])
            exact ⟨htf', hpw', hqn, by simp only [Flatten.machine, Flatten.enter, Fl]; exact answered hb⟩
          | succ i' =>
            have hb : lastPullSrc (i' + 1) (srcEvs tr) = true := by
              have := hC.pi i'; simp only [srcEvs, srcEv, consOpt_some] at this; exact this.1 (by simp [isDataJ])
            obtain ⟨a1, a2⟩ := answered hb
            exact ⟨htf', hpw', hqn, by simp only [Flatten.machine, Flatten.enter, Fl]; exact ⟨a1, a2, hns'⟩⟩
        | term =>
          cases i with
          | zero =>
            refine ⟨htf', hpw', hqn, ?_⟩
            simp only [Flatten.machine, Flatten.enter, Fl]
            refine ⟨fun hin j => ?_, hns'⟩
            simp only [srcEvs, srcEv, consOpt_some]
            by_cases hj : 0 = j
            · subst hj; simp [lastPullSrc, relSrc]
            · simp only [lastPullSrc, relSrc, if_neg hj, Option.getD_none]
              cases hlj : lastPullSrc j (srcEvs tr) with
              | false => rfl
              | true => exact absurd ((htf.lp j hlj).1.trans (cur_none hin)).symm hj
          | succ i' =>
            have hb : lastPullSrc (i' + 1) (srcEvs tr) = true := by
              have := hC.ei i'; simp only [srcEvs, srcEv, consOpt_some] at this; exact this.1 (by simp [isEndJ])
            obtain ⟨a1, a2⟩ := answered hb
            exact ⟨htf', hpw', hqn, by simp only [Flatten.machine, Flatten.enter, Fl]; exact ⟨a1, a2, hns'⟩⟩
    | @ret st stk g tr o l hl =>
      intro hC
      obtain ⟨htf, hpw, hq, hfl⟩ := ih hC.tail
      simp only at htf hpw hq hfl
      obtain ⟨_, _, hnw⟩ := E1_reach _ ha hC.tail.c
      refine ⟨by simpa [sinkEvs, sinkEv, srcEvs, srcEv] using htf, ⟨fun ⟨j, h⟩ => (by cases h), hpw⟩, ?_, ?_⟩
      · intro j hj hs
        obtain ⟨h1, h2⟩ := hq j hj hs
        exact ⟨by simpa [aP, sinkEvs, sinkEv] using h1, by simpa [srcEvs, srcEv] using h2⟩
      · rcases hnw o l List.mem_cons_self with rfl | rfl <;> trivial

/-! ## consequence for the network: `flatten(map(g)(outer))` delivers only when pulled -/
section Network
open ComposeFull
variable {So Lo Si Li αo αi : Type} {Mo : Machine So Lo αo Int} {Mi : Machine Si Li αi Int} {initOf : Int → Si}

/-- the assumption `CndF` holds of the `flatten` inside a network whose inner sources deliver and end only when pulled -/
theorem cndF_of_proj {s : NSys So Lo Si Li} {sO : Sys So Lo αo Int} {sF : FSys} {fam : Fam Si Li αi}
    (hp : ProjF Mo Mi initOf s sO sF fam) (PI : ∀ a, PullOnly (atInit Mi (initOf a))) (EI : ∀ a, EndOnPull (atInit Mi (initOf a)))
    {dem : Demand} (hd : DemOk dem (sinkEvs s.tr)) : CndF dem sF.tr := by
  refine ⟨hp.c, fun j => ?_, fun j => ?_, hp.t.sink ▸ hd⟩
  · apply pOkSrc_of_srcEq
    rw [hp.t.ifcI j]
    cases hf : fam (j + 1) with
    | none => trivial
    | some p =>
      obtain ⟨a, sI⟩ := p
      exact pOkSrc_dualJ (j + 1) _ (PI a sI (hp.m.inner.rI _ _ _ hf))
  · apply eOkSrc_of_srcEq
    rw [hp.t.ifcI j]
    cases hf : fam (j + 1) with
    | none => trivial
    | some p =>
      obtain ⟨a, sI⟩ := p
      exact eOkSrc_dualJ (j + 1) _ (EI a sI (hp.m.inner.rI _ _ _ hf))

/-- **`flatten(map(g)(outer))` is `PullOnly`** when the outer source is and the inner sources deliver and end only when pulled
(`from_iter`, and anything take-free over it).  Not so for inner sources that end on their own (`take`): the execution in
`Inv/FlatPlugSafe.lean`. -/
theorem flatPlug_pullOnly {ys : List Int} {g : Int → List Int} (hO : HeadOkT Mo ys) (NO : NoUpstream Mo) (PO : PullOnly Mo)
    (hI : ∀ a, HeadOkT (atInit Mi (initOf a)) (g a)) (NI : ∀ a, NoUpstream (atInit Mi (initOf a)))
    (PI : ∀ a, PullOnly (atInit Mi (initOf a))) (EI : ∀ a, EndOnPull (atInit Mi (initOf a))) :
    PullOnly (flatPlug Mo Mi initOf) := by
  have H : HypF Mo Mi initOf := ⟨hO.head.up, NO, fun a => (hI a).head.up, NI⟩
  intro s hs
  obtain ⟨sO, sF, fam, hp⟩ := projF H PO hO.noErr (fun a => (hI a).noErr) s hs
  rw [hp.t.sink]
  exact (KF_reach none sF hp.rF (cndF_of_proj hp PI EI (demOk_none _))).tf.pok

/-- under a sink that obeys `dem`, every `Pull` that the `flatten` inside the network sends to the outer source or to an inner source is
sent while the sink still wants items -/
theorem flatPlug_pullsWanted {ys : List Int} {g : Int → List Int} (hO : HeadOkT Mo ys) (NO : NoUpstream Mo) (PO : PullOnly Mo)
    (hI : ∀ a, HeadOkT (atInit Mi (initOf a)) (g a)) (NI : ∀ a, NoUpstream (atInit Mi (initOf a)))
    (PI : ∀ a, PullOnly (atInit Mi (initOf a))) (EI : ∀ a, EndOnPull (atInit Mi (initOf a))) (dem : Demand) :
    ∀ s, SReach (flatPlug Mo Mi initOf) s → DemOk dem (sinkEvs s.tr) →
      ∃ sO sF fam, ProjF Mo Mi initOf s sO sF fam ∧ KF dem sF := by
  have H : HypF Mo Mi initOf := ⟨hO.head.up, NO, fun a => (hI a).head.up, NI⟩
  intro s hs hd
  obtain ⟨sO, sF, fam, hp⟩ := projF H PO hO.noErr (fun a => (hI a).noErr) s hs
  exact ⟨sO, sF, fam, hp, KF_reach dem sF hp.rF (cndF_of_proj hp PI EI hd)⟩

end Network

end FlatDemand
end Cb

#print axioms Cb.FlatDemand.KF_reach
#print axioms Cb.FlatDemand.flatPlug_pullOnly
#print axioms Cb.FlatDemand.flatPlug_pullsWanted
