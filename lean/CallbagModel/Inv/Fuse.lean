import CallbagModel.Sem
import CallbagModel.Ops.Relay
import CallbagModel.Ops.Compose
import CallbagModel.Inv.Ghost
import CallbagModel.Inv.Relay
/-!
# Fusion: a pipeline of two relays is, at its boundary, ONE relay with the fused transfer function
-/
namespace Cb.Fuse
open Cb Cb.Relay

variable {σ₁ σ₂ α β γ : Type}

/-- the transfer function of `op₂ ∘ op₁`: feed the datum to `k₁`; if it passes, feed the result to `k₂`; a drop at either stage is a drop -/
def fuse (k₁ : Relay.Kind σ₁ α β) (k₂ : Relay.Kind σ₂ β γ) : Relay.Kind (σ₁ × σ₂) α γ where
  slotted := k₁.slotted || k₂.slotted
  seed := (k₁.seed, k₂.seed)
  xfer s a := match (k₁.xfer s.1 a).2 with
    | some b => (((k₁.xfer s.1 a).1, (k₂.xfer s.2 b).1), (k₂.xfer s.2 b).2)
    | none => (((k₁.xfer s.1 a).1, s.2), none)

abbrev CLoc (α β γ : Type) := List (CFr (Loc α β) (Loc β γ))

abbrev comp (k₁ : Relay.Kind σ₁ α β) (k₂ : Relay.Kind σ₂ β γ) := compose (Relay.machine k₁) (Relay.machine k₂)

theorem shape_eq (k₁ : Relay.Kind σ₁ α β) (k₂ : Relay.Kind σ₂ β γ) :
    (comp k₁ k₂).shape = (Relay.machine (fuse k₁ k₂)).shape := rfl

/-! ## the simulation relation -/

/-- every call of a relay is a tail call: the component frames of a waiting composite are finished handler bodies -/
def DoneFr : CFr (Loc α β) (Loc β γ) → Prop
  | .lo .done => True
  | .hi .done => True
  | _ => False

/-- the composite's stack and the fused relay's stack: the same open calls, in the same order -/
inductive StkRel : List (Frame (CLoc α β γ) γ) → List (Frame (Loc α γ) γ) → Prop where
  | nil : StkRel [] []
  | cons {o cfs r r'} : (∀ f ∈ cfs, DoneFr f) → StkRel r r' → StkRel (.wait o cfs :: r) (.wait o .done :: r')

theorem StkRel.length {r : List (Frame (CLoc α β γ) γ)} {r' : List (Frame (Loc α γ) γ)} (h : StkRel r r') :
    r.length = r'.length := by
  induction h with
  | nil => rfl
  | cons _ _ ih => simp [ih]

theorem StkRel.ctx {r : List (Frame (CLoc α β γ) γ)} {r' : List (Frame (Loc α γ) γ)} (h : StkRel r r') :
    ctxOf r = ctxOf r' := by
  cases h <;> rfl

theorem StkRel.isSome {r : List (Frame (CLoc α β γ) γ)} {r' : List (Frame (Loc α γ) γ)} (h : StkRel r r') :
    (ctxOf r).isSome = true ∧ (ctxOf r').isSome = true := by
  cases h <;> simp [ctxOf]

/-- some peer is live: only then are the talkback slots read -/
def AnyLive (ph : Ph) : Prop := (∃ k, ph.sinkPh k = .live) ∨ (∃ i, ph.srcPh i = .live)

theorem anyLive_onIn (ph : Ph) (i : In α) (h : ∀ j, i ≠ .srcGreet j) : AnyLive (ph.onIn i) → AnyLive ph := by
  unfold AnyLive
  cases i with
  | subscribe k =>
    simp only [Ph.onIn, Ph.sinkPh_setSink, Ph.srcPh_setSink]
    rintro (⟨j, hj⟩ | hj)
    · split at hj
      · cases hj
      · exact Or.inl ⟨j, hj⟩
    · exact Or.inr hj
  | sinkUp k u =>
    cases u <;> simp only [Ph.onIn, Ph.sinkPh_setSink, Ph.srcPh_setSink] <;> try exact id
    all_goals
      rintro (⟨j, hj⟩ | hj)
      · split at hj
        · cases hj
        · exact Or.inl ⟨j, hj⟩
      · exact Or.inr hj
  | srcGreet j => exact absurd rfl (h j)
  | srcDown k d =>
    cases d <;> simp only [Ph.onIn, Ph.srcPh_setSrc, Ph.sinkPh_setSrc] <;> try exact id
    all_goals
      rintro (hj | ⟨j, hj⟩)
      · exact Or.inl hj
      · split at hj
        · cases hj
        · exact Or.inr ⟨j, hj⟩

theorem sinkPh_flag (g : Ph) (v : Viol) (k : Nat) : (g.flag v).sinkPh k = g.sinkPh k := rfl
theorem srcPh_flag (g : Ph) (v : Viol) (k : Nat) : (g.flag v).srcPh k = g.srcPh k := rfl

theorem anyLive_setSink {ph : Ph} {k : Nat} {p : SinkPh} (hp : p ≠ .live) : AnyLive (ph.setSink k p) → AnyLive ph := by
  unfold AnyLive
  simp only [Ph.sinkPh_setSink, Ph.srcPh_setSink]
  rintro (⟨j, hj⟩ | hj)
  · split at hj
    · exact absurd hj hp
    · exact Or.inl ⟨j, hj⟩
  · exact Or.inr hj

theorem anyLive_setSrc {ph : Ph} {k : Nat} {p : SrcPh} (hp : p ≠ .live) : AnyLive (ph.setSrc k p) → AnyLive ph := by
  unfold AnyLive
  simp only [Ph.srcPh_setSrc, Ph.sinkPh_setSrc]
  rintro (hj | ⟨j, hj⟩)
  · exact Or.inl hj
  · split at hj
    · exact absurd hj hp
    · exact Or.inr ⟨j, hj⟩

theorem anyLive_flag {ph : Ph} {v : Viol} : AnyLive (ph.flag v) → AnyLive ph := id

theorem anyLive_onOut (ph : Ph) (o : Out γ) (h : ∀ k, o ≠ .greet k) : AnyLive (ph.onOut o) → AnyLive ph := by
  cases o with
  | greet k => exact absurd rfl (h k)
  | down k d =>
    simp only [Ph.onOut]
    split
    · split
      · exact anyLive_setSink (by decide)
      · exact id
    all_goals exact anyLive_flag
  | subSrc i =>
    simp only [Ph.onOut]
    split
    · exact anyLive_flag
    · split
      · exact anyLive_flag
      · exact anyLive_setSrc (by decide)
  | srcUp i u =>
    cases u <;> simp only [Ph.onOut] <;> split <;>
      first | exact id | exact anyLive_flag | exact anyLive_setSrc (by decide)
  | app b => exact id

/-- the `expect`s cannot fail: slotted kinds have their slot filled -/
def SlotsOK (k₁ : Relay.Kind σ₁ α β) (k₂ : Relay.Kind σ₂ β γ) (st : St σ₁ × St σ₂) (sl' : Bool) : Prop :=
  (k₁.slotted = true → st.1.slot = true) ∧ (k₂.slotted = true → st.2.slot = true) ∧
  ((k₁.slotted || k₂.slotted) = true → sl' = true)

structure Sim (k₁ : Relay.Kind σ₁ α β) (k₂ : Relay.Kind σ₂ β γ)
    (s : Sys (St σ₁ × St σ₂) (CLoc α β γ) α γ) (s' : Sys (St (σ₁ × σ₂)) (Loc α γ) α γ) : Prop where
  g : s'.g = s.g
  tr : s'.tr = s.tr
  p : s.panicked = none
  p' : s'.panicked = none
  priv : s'.st.priv = (s.st.1.priv, s.st.2.priv)
  stk : StkRel s.stack s'.stack
  slots : AnyLive s.g.ph → SlotsOK k₁ k₂ s.st s'.st.slot

theorem Sim.turn {k₁ : Relay.Kind σ₁ α β} {k₂ : Relay.Kind σ₂ β γ} {s s'} (h : Sim k₁ k₂ s s') : EnvTurn s ∧ EnvTurn s' :=
  ⟨⟨h.p, h.stk.isSome.1⟩, ⟨h.p', h.stk.isSome.2⟩⟩

/-- a continuation made of finished handler bodies returns (one micro-step per component frame) -/
theorem ret_dones (k₁ : Relay.Kind σ₁ α β) (k₂ : Relay.Kind σ₂ β γ) (cfs : CLoc α β γ) (h : ∀ f ∈ cfs, DoneFr f)
    (st : St σ₁ × St σ₂) (stk : List (Frame (CLoc α β γ) γ)) (g : G) (tr : List (Ev α γ)) :
    ∃ n, advance (comp k₁ k₂) n ⟨st, .run cfs :: stk, g, tr, none⟩ = ⟨st, stk, g.onRetO stk.length, .retO :: tr, none⟩ := by
  induction cfs with
  | nil => exact ⟨1, by simp [advance, opStep, comp, compose]⟩
  | cons f rest ih =>
    have hf := h f (by simp)
    obtain ⟨n, hn⟩ := ih (fun f' hf' => h f' (by simp [hf']))
    cases rest with
    | nil =>
      refine ⟨1, ?_⟩
      cases f with
      | lo l => cases l <;> simp [DoneFr] at hf; simp [advance, opStep, comp, compose, machine, step]
      | hi l => cases l <;> simp [DoneFr] at hf; simp [advance, opStep, comp, compose, machine, step]
    | cons f' rest' =>
      refine ⟨n + 1, ?_⟩
      cases f with
      | lo l => cases l <;> simp [DoneFr] at hf; simpa [advance, opStep, comp, compose, machine, step] using hn
      | hi l => cases l <;> simp [DoneFr] at hf; simpa [advance, opStep, comp, compose, machine, step] using hn

theorem Sim.mk' {k₁ : Relay.Kind σ₁ α β} {k₂ : Relay.Kind σ₂ β γ} {st : St σ₁ × St σ₂} {sl' : Bool} {pr : σ₁ × σ₂}
    {stk : List (Frame (CLoc α β γ) γ)} {stk' : List (Frame (Loc α γ) γ)} {g : G} {tr : List (Ev α γ)}
    (hstk : StkRel stk stk') (hpr : pr = (st.1.priv, st.2.priv)) (hslots : AnyLive g.ph → SlotsOK k₁ k₂ st sl') :
    Sim k₁ k₂ ⟨st, stk, g, tr, none⟩ ⟨⟨sl', pr⟩, stk', g, tr, none⟩ := ⟨rfl, rfl, rfl, rfl, hpr, hstk, hslots⟩

macro "run" n:num m:num : tactic =>
  `(tactic| (refine ⟨$n, $m, ?_⟩; simp [advance, opStep, comp, compose, machine, enter, step, fuse, *]))

/-- the macro-step simulation: the fused relay can make the same environment move, and after both have run to their next
environment turn the configurations are related again -/
theorem sim_step (k₁ : Relay.Kind σ₁ α β) (k₂ : Relay.Kind σ₂ β γ)
    (h₁ : k₁.slotted = false → ∀ s a, (k₁.xfer s a).2 ≠ none) (h₂ : k₂.slotted = false → ∀ s b, (k₂.xfer s b).2 ≠ none)
    (s t : Sys (St σ₁ × St σ₂) (CLoc α β γ) α γ) (s' : Sys (St (σ₁ × σ₂)) (Loc α γ) α γ) (m : Move α)
    (hs : Sim k₁ k₂ s s') (he : EnvStep (comp k₁ k₂) m s t) :
    ∃ t', EnvStep (machine (fuse k₁ k₂)) m s' t' ∧
      ∃ n n', Sim k₁ k₂ (advance (comp k₁ k₂) n t) (advance (machine (fuse k₁ k₂)) n' t') := by
  obtain ⟨⟨sl', pr'⟩, stk', g', tr', p'⟩ := s'
  cases he with
  | @call st stk g tr c i hc hl =>
    obtain ⟨⟨s1, p1⟩, ⟨s2, p2⟩⟩ := st
    obtain ⟨hg, htr, _, hp', hpriv, hstk, hslots⟩ := hs
    simp only at hg htr hp' hpriv hstk hslots
    subst hg htr hp' hpriv
    have hc' : ctxOf stk' = some c := hstk.ctx ▸ hc
    have hlen := hstk.length
    refine ⟨_, EnvStep.call i hc' hl, ?_⟩
    rw [← hlen]
    clear hlen hc hc'
    cases i with
    | subscribe k =>
      run 2 1
      refine Sim.mk' (.cons (by simp [DoneFr]) hstk) rfl ?_
      intro hl'
      simp only [onOut_ph, onIn_ph] at hl'
      exact hslots (anyLive_onIn _ _ (by simp) (anyLive_onOut _ _ (by simp) hl'))
    | sinkUp k u =>
      have hlive : AnyLive g'.ph := by
        simp only [legalIn, Bool.and_eq_true, beq_iff_eq] at hl; exact Or.inl ⟨k, hl.1⟩
      obtain ⟨hs1, hs2, hs'⟩ := hslots hlive
      simp only at hs1 hs2
      cases hk1 : k₁.slotted <;> cases hk2 : k₂.slotted <;> simp [hk1, hk2] at hs1 hs2 hs'
      all_goals
        run 2 1
        refine Sim.mk' (.cons (by simp [DoneFr]) hstk) rfl ?_
        intro _
        simp [SlotsOK, *]
    | srcGreet j =>
      cases hk1 : k₁.slotted <;> cases hk2 : k₂.slotted
      all_goals
        run 4 2
        refine Sim.mk' (.cons (by simp [DoneFr]) hstk) rfl ?_
        intro _
        simp [SlotsOK, *]
    | srcDown j d =>
      have hlive : AnyLive g'.ph := by
        simp only [legalIn, Bool.and_eq_true, beq_iff_eq] at hl; exact Or.inr ⟨j, hl.1⟩
      obtain ⟨hs1, hs2, hs'⟩ := hslots hlive
      simp only at hs1 hs2
      cases d with
      | data a =>
        cases hx1 : (k₁.xfer p1 a).2 with
        | none =>
          have hk1 : k₁.slotted = true := by
            cases hk : k₁.slotted with
            | true => rfl
            | false => exact absurd hx1 (h₁ hk _ _)
          have hs1t := hs1 hk1
          have hs't := hs' (by simp [hk1])
          run 2 2
          refine Sim.mk' (.cons (by simp [DoneFr]) hstk) rfl ?_
          intro _
          simp_all [SlotsOK]
        | some b =>
          cases hx2 : (k₂.xfer p2 b).2 with
          | none =>
            have hk2 : k₂.slotted = true := by
              cases hk : k₂.slotted with
              | true => rfl
              | false => exact absurd hx2 (h₂ hk _ _)
            have hs2t := hs2 hk2
            have hs't := hs' (by simp [hk2])
            cases hk1 : k₁.slotted <;> simp [hk1] at hs1
            all_goals
              run 5 2
              refine Sim.mk' (.cons (by simp [DoneFr]) hstk) rfl ?_
              intro _
              simp_all [SlotsOK]
          | some c' =>
            run 4 2
            refine Sim.mk' (.cons (by simp [DoneFr]) hstk) rfl ?_
            exact fun _ => ⟨hs1, hs2, hs'⟩
      | term =>
        run 2 1
        refine Sim.mk' (.cons (by simp [DoneFr]) hstk) rfl ?_
        exact fun _ => ⟨hs1, hs2, hs'⟩
      | err e =>
        run 2 1
        refine Sim.mk' (.cons (by simp [DoneFr]) hstk) rfl ?_
        exact fun _ => ⟨hs1, hs2, hs'⟩
  | @ret st stk g tr o l hl =>
    obtain ⟨hg, htr, _, hp', hpriv, hstk, hslots⟩ := hs
    simp only at hg htr hp' hpriv hstk hslots
    subst hg htr hp' hpriv
    cases hstk with
    | @cons _ _ _ r' hd hr =>
      refine ⟨_, EnvStep.ret hl, ?_⟩
      obtain ⟨n, hn⟩ := ret_dones k₁ k₂ l hd st stk g' (.retE :: tr')
      refine ⟨n, 1, ?_⟩
      rw [hn]
      simp [advance, opStep, machine, step, hr.length]
      refine Sim.mk' hr rfl ?_
      intro hl'
      simp only [onRetO_ph] at hl'
      exact hslots hl'

theorem sReach_advance {St Loc α β : Type} (M : Machine St Loc α β) (n : Nat) (s : Sys St Loc α β) (h : SReach M s) :
    SReach M (advance M n s) := by
  induction n generalizing s with
  | zero => exact h
  | succ n ih =>
    simp only [advance]
    cases ho : opStep M s with
    | none => exact h
    | some s' => exact ih s' (.step h (.op ho))

/-- the invariant of the composite at its environment turns: it is simulated by a reachable configuration of the fused relay -/
def Inv (k₁ : Relay.Kind σ₁ α β) (k₂ : Relay.Kind σ₂ β γ) (s : Sys (St σ₁ × St σ₂) (CLoc α β γ) α γ) : Prop :=
  ∃ s', SReach (machine (fuse k₁ k₂)) s' ∧ Sim k₁ k₂ s s'

theorem inv_init (k₁ : Relay.Kind σ₁ α β) (k₂ : Relay.Kind σ₂ β γ) : Inv k₁ k₂ (Sys.init (comp k₁ k₂)) :=
  ⟨Sys.init (machine (fuse k₁ k₂)), .init, ⟨rfl, rfl, rfl, rfl, rfl, .nil, by
    rintro (⟨k, hk⟩ | ⟨i, hi⟩)
    · simp [Sys.init] at hk
    · simp [Sys.init] at hi⟩⟩

theorem inv_step (k₁ : Relay.Kind σ₁ α β) (k₂ : Relay.Kind σ₂ β γ)
    (h₁ : k₁.slotted = false → ∀ s a, (k₁.xfer s a).2 ≠ none) (h₂ : k₂.slotted = false → ∀ s b, (k₂.xfer s b).2 ≠ none)
    (s t : Sys (St σ₁ × St σ₂) (CLoc α β γ) α γ) (m : Move α) (h : Inv k₁ k₂ s) (he : EnvStep (comp k₁ k₂) m s t) :
    ∃ n, Inv k₁ k₂ (advance (comp k₁ k₂) n t) := by
  obtain ⟨s', hr, hsim⟩ := h
  obtain ⟨t', he', n, n', hsim'⟩ := sim_step k₁ k₂ h₁ h₂ s t s' m hsim he
  exact ⟨n, _, sReach_advance _ n' t' (.step hr (.env he' trivial)), hsim'⟩

/-- every configuration of the two-stage pipeline in which the environment has control has the same boundary trace, the same ghost
monitor state and the same panic flag as a reachable configuration of the fused relay -/
theorem compose_relay_refines {σ₁ σ₂ α β γ : Type} (k₁ : Relay.Kind σ₁ α β) (k₂ : Relay.Kind σ₂ β γ)
    (h₁ : k₁.slotted = false → ∀ s a, (k₁.xfer s a).2 ≠ none) (h₂ : k₂.slotted = false → ∀ s b, (k₂.xfer s b).2 ≠ none) :
    ∀ s, SReach (compose (Relay.machine k₁) (Relay.machine k₂)) s → EnvTurn s →
      ∃ s', SReach (Relay.machine (fuse k₁ k₂)) s' ∧ EnvTurn s' ∧ s'.tr = s.tr ∧ s'.g = s.g ∧ s'.panicked = s.panicked ∧
        s'.st.priv = (s.st.1.priv, s.st.2.priv) := by
  intro s hs ht
  obtain ⟨n, hn⟩ := reach_runs_into_inv (comp k₁ k₂) anyEnv (Inv k₁ k₂) (inv_init k₁ k₂)
    (fun s hi => by obtain ⟨s', _, hsim⟩ := hi; exact hsim.turn.1)
    (fun s t m hi he _ => inv_step k₁ k₂ h₁ h₂ s t m hi he) s hs
  rw [advance_of_envTurn ht] at hn
  obtain ⟨s', hr, hsim⟩ := hn
  exact ⟨s', hr, hsim.turn.2, hsim.tr, hsim.g, by rw [hsim.p, hsim.p'], hsim.priv⟩

/-- consequence: the composite never panics and is never stuck in the middle of a macro-step — from every reachable configuration
it runs into an environment turn -/
theorem compose_relay_runs_to_turn (k₁ : Relay.Kind σ₁ α β) (k₂ : Relay.Kind σ₂ β γ)
    (h₁ : k₁.slotted = false → ∀ s a, (k₁.xfer s a).2 ≠ none) (h₂ : k₂.slotted = false → ∀ s b, (k₂.xfer s b).2 ≠ none) :
    ∀ s, SReach (comp k₁ k₂) s → ∃ n, EnvTurn (advance (comp k₁ k₂) n s) := by
  intro s hs
  obtain ⟨n, s', _, hsim⟩ := reach_runs_into_inv (comp k₁ k₂) anyEnv (Inv k₁ k₂) (inv_init k₁ k₂)
    (fun s hi => by obtain ⟨s', _, hsim⟩ := hi; exact hsim.turn.1)
    (fun s t m hi he _ => inv_step k₁ k₂ h₁ h₂ s t m hi he) s hs
  exact ⟨n, hsim.turn.1⟩

/-- the side condition of the single-relay theorems holds of the fused kind -/
theorem fuse_side (k₁ : Relay.Kind σ₁ α β) (k₂ : Relay.Kind σ₂ β γ)
    (h₁ : k₁.slotted = false → ∀ s a, (k₁.xfer s a).2 ≠ none) (h₂ : k₂.slotted = false → ∀ s b, (k₂.xfer s b).2 ≠ none) :
    (fuse k₁ k₂).slotted = false → ∀ s a, ((fuse k₁ k₂).xfer s a).2 ≠ none := by
  intro hf s a
  simp only [fuse, Bool.or_eq_false_iff] at hf
  simp only [fuse]
  cases hx : (k₁.xfer s.1 a).2 with
  | none => exact absurd hx (h₁ hf.1 _ _)
  | some b => exact h₂ hf.2 _ _

/-- transfer, worked once: phase-level safety (C01–C04 protocol part, C17) of the two-stage pipeline, at EVERY small-step reachable
configuration, from `relay_basicSafe` of the fused relay -/
theorem compose_relay_basicSafe (k₁ : Relay.Kind σ₁ α β) (k₂ : Relay.Kind σ₂ β γ)
    (h₁ : k₁.slotted = false → ∀ s a, (k₁.xfer s a).2 ≠ none) (h₂ : k₂.slotted = false → ∀ s b, (k₂.xfer s b).2 ≠ none) :
    ∀ s, SReach (comp k₁ k₂) s → BasicSafe s :=
  basicSafe_of_macro_inv (comp k₁ k₂) (Inv k₁ k₂) (inv_init k₁ k₂)
    (fun s hi => by
      obtain ⟨s', hr, hsim⟩ := hi
      have hb := relay_basicSafe (fuse k₁ k₂) (fuse_side k₁ k₂ h₁ h₂) s' hr
      exact ⟨hsim.turn.1, by rw [← hsim.g]; exact hb.1, hsim.p⟩)
    (fun s t m hi he => inv_step k₁ k₂ h₁ h₂ s t m hi he)

end Cb.Fuse

#print axioms Cb.Fuse.compose_relay_refines
#print axioms Cb.Fuse.compose_relay_basicSafe
