import CallbagModel.Inv.PlugCost
/-!
# `concat!` under a demand: members that end only when pulled

`concat`'s `got_pull` is sticky: when a member ends, the next one is subscribed and pulled at once.  That is justified exactly when the
member ended in answer to a `Pull` — then the sink's `Pull` is still unserved.  `EndOnPull M` (`EOk (sinkEvs s.tr)`: before
`down 0 term`, `lastPull 0` of the trace so far is true) is that property; `take` does not have it (it ends after its last item).

* Part 1–2: `EOk`/`EOkSrc`, their transport along `dualEvs`/`dualJ`/`srcEq`; the scheme `eOk_reach`; `FromIter.endOnPull`;
  `Relay.stageEnd` (`map`, `filter`, `scan`, `skip` end only when pulled if their upstream delivers and ends only when pulled);
  `EndOnPull.compose`.
* Part 3–4: the invariant of `Concat.machine α n` under the assumption `CndJ n dem tr` (every member `j < n` delivers and ends only when
  pulled and sends no `Error`; the sink obeys the demand `dem`; closed under tails): `KJ_reach`.  Its trace-level part `KT`: the sink
  receives data and the terminal only in answer to a `Pull` (`pok`, `eok`); a member with an unserved `Pull` is the current one and then
  the sink's `Pull` is unserved (`bp`, `lp`); the members after the current one have never been pulled (`np`); and
  `dm : DemOkSrcJ j (dsub dem (offS sr j)) sr` — member `j` is pulled only while the sink wants more than the members before `j` have
  delivered.  The state part: between two members the sink's `Pull` is unserved (`q`), and the assertions `Fl` on the running handler.
* Part 5: `PartD n js cs yss M nx`, the n-ary `concat` with the slots `js` plugged (any order) by heads that deliver and end only when
  pulled, summarised by what `concat` sees of them (`MemD`; `done_all`: a head that has delivered its terminal has delivered its list,
  at every reachable configuration); `PartD.plug`; `PartD.head`: with every slot plugged the network is `PullOnly`, `EndOnPull`, and
  `HeadUp`/`HeadLow` hold with `costJ cs yss js dem = Σ_j cs j (dsub dem (offY yss j))`.
* Part 6: `JoinHead A ys c`; `concat2_join`, `concatM_join` for the terms of the driver.
-/
namespace Cb
namespace JoinDemand
open ComposeSafe ComposeFun ComposeComplete PlugSafe PlugConcat FlatPlugFun ComposeCost

/-! ## Part 1: `EndOnPull` -/
section Defs
variable {St Loc α β : Type}

def isEnd0 {β : Type} : SinkEv β → Bool
  | .down k .term => k == 0
  | _ => false

def isEndJ {α : Type} (j : Nat) : SrcEv α → Bool
  | .down i .term => i == j
  | _ => false

/-- the terminal is delivered to sink 0 only in answer to an unserved `Pull` (events newest first) -/
def EOk {β : Type} : List (SinkEv β) → Prop
  | [] => True
  | e :: t => (isEnd0 e = true → lastPull 0 t = true) ∧ EOk t

/-- upstream `j` ends only in answer to an unserved `Pull` -/
def EOkSrc {α : Type} (j : Nat) : List (SrcEv α) → Prop
  | [] => True
  | e :: t => (isEndJ j e = true → lastPullSrc j t = true) ∧ EOkSrc j t

/-- `M` ends only when pulled -/
def EndOnPull (M : Machine St Loc α β) : Prop := ∀ s, SReach M s → EOk (sinkEvs s.tr)

/-- a stage ends only when pulled, provided its upstream delivers and ends only when pulled -/
def StageEnd (M : Machine St Loc α β) : Prop :=
  ∀ s, SReach M s → POkSrc 0 (srcEvs s.tr) → EOkSrc 0 (srcEvs s.tr) → EOk (sinkEvs s.tr)

theorem eOkSrc_dualEvs {β : Type} (l : List (SinkEv β)) (h : EOk l) : EOkSrc 0 (dualEvs l) := by
  induction l with
  | nil => trivial
  | cons e t ih =>
    obtain ⟨h1, h2⟩ := h
    cases e with
    | down k d =>
      simp only [dualEvs, dual, consOpt_some]
      refine ⟨fun hd => ?_, ih h2⟩
      rw [← lastPull_dual]
      cases d <;> simp [isEndJ] at hd
      subst hd
      exact h1 (by simp [isEnd0])
    | subscribe k => simp only [dualEvs, dual, consOpt_some]; exact ⟨fun hd => by simp [isEndJ] at hd, ih h2⟩
    | up k u => simp only [dualEvs, dual, consOpt_some]; exact ⟨fun hd => by simp [isEndJ] at hd, ih h2⟩
    | greet k => simp only [dualEvs, dual, consOpt_some]; exact ⟨fun hd => by simp [isEndJ] at hd, ih h2⟩
    | app b => simp only [dualEvs, dual, consOpt_none]; exact ih h2

theorem eOkSrc_dualJ {β : Type} (j : Nat) (l : List (SinkEv β)) (h : EOk l) : EOkSrc j (dualJ j l) := by
  induction l with
  | nil => trivial
  | cons e t ih =>
    obtain ⟨h1, h2⟩ := h
    simp only [dualJ]
    cases hd : dual1 j e with
    | none => simpa using ih h2
    | some x =>
      simp only [consOpt_some]
      refine ⟨fun hx => ?_, ih h2⟩
      rw [← lastPull_dualJ]
      apply h1
      cases e with
      | down k d =>
        simp only [dual1] at hd
        split at hd
        · rename_i hk; subst hk
          cases hd
          cases d <;> simp [isEndJ] at hx
          simp [isEnd0]
        · cases hd
      | subscribe k => simp only [dual1] at hd; split at hd <;> cases hd; simp [isEndJ] at hx
      | up k u => simp only [dual1] at hd; split at hd <;> cases hd; simp [isEndJ] at hx
      | greet k => simp only [dual1] at hd; split at hd <;> cases hd; simp [isEndJ] at hx
      | app b => cases hd

theorem eOkSrc_of_srcEq {α : Type} (j : Nat) (l : List (SrcEv α)) (h : EOkSrc j (srcEq j l)) : EOkSrc j l := by
  induction l with
  | nil => trivial
  | cons e t ih =>
    by_cases hi : srcIdx e = j
    · have he : srcEq j (e :: t) = e :: srcEq j t := by simp [srcEq, hi]
      rw [he] at h
      exact ⟨fun hd => by rw [← lastPullSrc_srcEq]; exact h.1 hd, ih h.2⟩
    · have he : srcEq j (e :: t) = srcEq j t := by simp [srcEq, hi]
      rw [he] at h
      refine ⟨fun hd => ?_, ih h⟩
      exfalso
      cases e with
      | down i d => cases d <;> simp [isEndJ] at hd; exact hi (by simpa [srcIdx] using hd)
      | greet i => simp [isEndJ] at hd
      | sub i => simp [isEndJ] at hd
      | up i u => simp [isEndJ] at hd

theorem EOkSrc.tail {α : Type} {j : Nat} {e : SrcEv α} {t : List (SrcEv α)} (h : EOkSrc j (e :: t)) : EOkSrc j t := h.2

theorem eOkSrc_tail_ev {α β : Type} {j : Nat} {e : Ev α β} {tr : List (Ev α β)} (h : EOkSrc j (srcEvs (e :: tr))) :
    EOkSrc j (srcEvs tr) := by
  simp only [srcEvs] at h
  cases hs : srcEv e with
  | none => simpa [hs] using h
  | some x => rw [hs] at h; exact h.2

theorem pOkSrc_tail_evJ {α β : Type} {j : Nat} {e : Ev α β} {tr : List (Ev α β)} (h : POkSrc j (srcEvs (e :: tr))) :
    POkSrc j (srcEvs tr) := by
  simp only [srcEvs] at h
  cases hs : srcEv e with
  | none => simpa [hs] using h
  | some x => rw [hs] at h; exact h.2

/-- a head that delivers and ends only when pulled, followed by a stage that preserves this -/
theorem EndOnPull.compose {S1 L1 S2 L2 α β γ : Type} {M1 : Machine S1 L1 α β} {M2 : Machine S2 L2 β γ}
    (h1 : EndOnPull M1) (hp : PullOnly M1) (h2 : StageEnd M2) (H : Hyp M1 M2) : EndOnPull (Cb.compose M1 M2) := by
  intro s hs
  obtain ⟨s1, s2, hr1, hr2, _, htr⟩ := compose_inv_tr H s hs
  rw [htr.sink]
  apply h2 s2 hr2
  · rw [← htr.ifc]; exact pOkSrc_dualEvs _ (hp s1 hr1)
  · rw [← htr.ifc]; exact eOkSrc_dualEvs _ (h1 s1 hr1)

/-- small-step scheme: the terminal is sent to sink 0 only from configurations with an unserved `Pull` -/
theorem eOk_reach (M : Machine St Loc α β) (A : List (Ev α β) → Prop) (hA : ∀ e tr, A (e :: tr) → A tr)
    (h : ∀ st l stk g tr s' l', SReach M ⟨st, .run l :: stk, g, tr, none⟩ → M.step st l = .call (.down 0 .term) s' l' →
      A tr → aP tr = true) :
    ∀ s, SReach M s → A s.tr → EOk (sinkEvs s.tr) := by
  apply reach_ind
  · intro _; trivial
  · intro a b ha ih hstep
    cases hstep with
    | tau _ => exact ih
    | @call st l stk g tr o s' l' hst =>
      intro hC
      have hC' := hA _ _ hC
      have ih' : EOk (sinkEvs tr) := ih hC'
      show EOk (sinkEvs (Ev.out o :: tr))
      simp only [sinkEvs]
      cases o with
      | down k d =>
        simp only [sinkEv, consOpt_some]
        refine ⟨fun he => ?_, ih'⟩
        cases d with
        | term =>
          have hk : k = 0 := by simpa [isEnd0] using he
          subst hk
          exact h st l stk g tr s' l' ha hst hC'
        | data x => simp [isEnd0] at he
        | err e => simp [isEnd0] at he
      | greet k => simp only [sinkEv, consOpt_some]; exact ⟨fun he => by simp [isEnd0] at he, ih'⟩
      | app x => simp only [sinkEv, consOpt_some]; exact ⟨fun he => by simp [isEnd0] at he, ih'⟩
      | subSrc i => simpa [sinkEv] using ih'
      | srcUp i u => simpa [sinkEv] using ih'
    | ret _ => intro hC; have := ih (hA _ _ hC); simpa [sinkEvs, sinkEv] using this
    | panic _ => intro hC; have := ih (hA _ _ hC); simpa [sinkEvs, sinkEv] using this
  · intro a b m ha ih hstep
    cases hstep with
    | @call st stk g tr c i hc hl =>
      intro hC
      have ih' := ih (hA _ _ hC)
      show EOk (sinkEvs (Ev.inp i :: tr))
      simp only [sinkEvs]
      cases i with
      | subscribe k => simp only [sinkEv, consOpt_some]; exact ⟨fun he => by simp [isEnd0] at he, ih'⟩
      | sinkUp k u => simp only [sinkEv, consOpt_some]; exact ⟨fun he => by simp [isEnd0] at he, ih'⟩
      | srcGreet k => simpa [sinkEv] using ih'
      | srcDown k d => simpa [sinkEv] using ih'
    | ret hl => intro hC; have := ih (hA _ _ hC); simpa [sinkEvs, sinkEv] using this

end Defs

/-! ## Part 2: `from_iter` and the relays end only when pulled -/

theorem FromIter.endOnPull {ι α α' : Type} (next : ι → Option (α × ι)) (it0 : ι) : EndOnPull (FromIter.machine α' next it0) := by
  intro s hs
  refine eOk_reach (FromIter.machine α' next it0) (fun _ => True) (fun _ _ _ => trivial) ?_ s hs trivial
  intro st l stk g tr s' l' ha hst _
  have hk := (FromIterP.K_reach next it0 _ ha rfl).fl
  cases l with
  | w4 => exact hk.1
  | sub0 => simp [FromIter.machine, FromIter.step] at hst
  | done => fstp hst
  | t0 u => fstp hst
  | t1 u => cases u <;> fstp hst
  | pl1 => fstp hst
  | pl2 => fstp hst
  | l0 => fstp hst
  | w0 => fstp hst
  | w1 => fstp hst
  | w2 => fstp hst
  | w3 => fstp hst
  | lend => fstp hst

namespace RelayE
variable {σ α β : Type}

/-- the assumption about the upstream, closed under tails -/
def A (tr : List (Ev α β)) : Prop := POkSrc 0 (srcEvs tr) ∧ EOkSrc 0 (srcEvs tr)

theorem A.tail {e : Ev α β} {tr : List (Ev α β)} (h : A (e :: tr)) : A tr := ⟨pOkSrc_tail_evJ h.1, eOkSrc_tail_ev h.2⟩

/-- the handler that forwards the terminal runs under an unserved `Pull` -/
theorem K_reach (k : Relay.Kind σ α β) (hk : k.slotted = false → ∀ s a, (k.xfer s a).2 ≠ none) :
    ∀ s, SReach (Relay.machine k) s → s.panicked = none → A s.tr →
      ∀ r, s.stack = Frame.run (Relay.Loc.fwd .term) :: r → aP s.tr = true := by
  apply reach_ind
  · intro _ _ r h; simp [Sys.init] at h
  · intro a b ha ih h
    cases h with
    | @tau st l stk g tr s' l' hst =>
      intro _ hC r heq
      simp only [List.cons.injEq, Frame.run.injEq] at heq
      obtain ⟨rfl, rfl⟩ := heq
      cases l <;> simp [Relay.machine, Relay.step] at hst <;> (try (split at hst <;> simp at hst))
    | call hst => intro _ _ r heq; cases heq
    | @ret st l stk g tr hst =>
      intro _ _ r heq
      simp only at heq
      obtain ⟨o, l', hf⟩ := pop_turn _ ha (Frame.run (Relay.Loc.fwd .term)) (heq ▸ List.mem_cons_self)
      cases hf
    | panic hst => intro hp; cases hp
  · intro a b m ha ih h
    cases h with
    | @call st stk g tr c i hc hl =>
      intro _ hC r heq
      obtain ⟨_, _, hsrc, hsnk, hm⟩ := inv_at_turn (Relay.machine k) (Relay.Inv k) (Relay.inv_init k)
        (fun s hi => (Relay.inv_turn k s hi).1) (Relay.inv_step k hk) ha ⟨rfl, by simp [hc]⟩
      simp only at hsrc
      simp only [List.cons.injEq, Frame.run.injEq] at heq
      cases i with
      | subscribe j => simp [Relay.machine, Relay.enter] at heq
      | sinkUp j u => simp [Relay.machine, Relay.enter] at heq
      | srcGreet j => simp [Relay.machine, Relay.enter] at heq
      | srcDown j d =>
        have hj : j = 0 := by
          have := legal_srcDown hl
          by_cases hj : j = 0
          · exact hj
          · rw [hsrc j hj] at this; cases this
        subst hj
        cases d with
        | data x => simp [Relay.machine, Relay.enter] at heq
        | err e => simp [Relay.machine, Relay.enter] at heq
        | term =>
          have hb : bP tr = true := by
            have := hC.2
            simp only [srcEvs, srcEv, consOpt_some] at this
            exact this.1 (by simp [isEndJ])
          have hk' := RelayP.K_reach k hk _ ha rfl (by have := hC.1; simp only [srcEvs, srcEv, consOpt_some] at this; exact this.2)
          have := hk'.2.1 hb
          simpa [aP, sinkEvs, sinkEv] using this
    | @ret st stk g tr o l hl =>
      intro _ _ r heq
      have hfr := (RelayK.K_reach k _ ha rfl).1
      have : l = .done := hfr _ List.mem_cons_self o l rfl
      subst this
      simp at heq

end RelayE

theorem Relay.stageEnd {σ α β : Type} (k : Relay.Kind σ α β) (hk : k.slotted = false → ∀ s a, (k.xfer s a).2 ≠ none) :
    StageEnd (Relay.machine k) := by
  intro s hs hP hE
  refine eOk_reach (Relay.machine k) RelayE.A (fun _ _ h => h.tail) ?_ s hs ⟨hP, hE⟩
  intro st l stk g tr s' l' ha hst hC
  cases l with
  | fwd d =>
    simp [Relay.machine, Relay.step] at hst
    obtain ⟨rfl, _, _⟩ := hst
    exact RelayE.K_reach k hk _ ha rfl hC _ rfl
  | sub0 => simp [Relay.machine, Relay.step] at hst
  | done => simp [Relay.machine, Relay.step] at hst
  | g0 => simp [Relay.machine, Relay.step] at hst; split at hst <;> simp at hst
  | g1 => simp [Relay.machine, Relay.step] at hst
  | d0 a => simp [Relay.machine, Relay.step] at hst; split at hst <;> simp at hst
  | emit b => simp [Relay.machine, Relay.step] at hst
  | repull => simp [Relay.machine, Relay.step] at hst; split at hst <;> simp at hst
  | u0 u => simp [Relay.machine, Relay.step] at hst; split at hst <;> simp at hst

/-! ## Part 3: the n-ary `concat` under a demand — the trace-level invariant -/
section TraceInv
open ConcatN
variable {α : Type}

/-- the operator pulls upstream `j` only while it wants more of it -/
def DemOkSrcJ (j : Nat) (dem : Demand) : List (SrcEv α) → Prop
  | [] => True
  | e :: t => (e = .up j .pull → wants dem (sentS j t).length) ∧ DemOkSrcJ j dem t

def NoPull (j : Nat) (l : List (SrcEv α)) : Prop := SrcEv.up j .pull ∉ l

/-- what is left of a demand after `k` items -/
def dsub : Demand → Nat → Demand
  | none, _ => none
  | some d, k => some (d - k)

/-- the number of items received from the members before `j` -/
def offS (l : List (SrcEv α)) (j : Nat) : Nat := (catN (fun i => sentS i l) j).length

theorem demOkSrcJ_of_noPull {j : Nat} {l : List (SrcEv α)} (h : NoPull j l) (D : Demand) : DemOkSrcJ j D l := by
  induction l with
  | nil => trivial
  | cons e t ih =>
    refine ⟨fun he => ?_, ih (fun hm => h (List.mem_cons_of_mem _ hm))⟩
    exact absurd (he ▸ List.mem_cons_self) h

theorem lastPullSrc_of_noPull {j : Nat} {l : List (SrcEv α)} (h : NoPull j l) : lastPullSrc j l = false := by
  induction l with
  | nil => rfl
  | cons e t ih =>
    have ht := ih (fun hm => h (List.mem_cons_of_mem _ hm))
    cases e with
    | up i u =>
      by_cases hc : u = .pull ∧ i = j
      · obtain ⟨rfl, rfl⟩ := hc; exact absurd List.mem_cons_self h
      · simp [lastPullSrc, relSrc, hc, ht]
    | down i d => by_cases hc : i = j <;> simp [lastPullSrc, relSrc, hc, ht]
    | sub i => simp [lastPullSrc, relSrc, ht]
    | greet i => simp [lastPullSrc, relSrc, ht]

theorem demOkSrcJ_of_dualJ {β : Type} {j : Nat} {dem : Demand} {l : List (SinkEv β)} (h : DemOkSrcJ j dem (dualJ j l)) : DemOk dem l := by
  induction l with
  | nil => trivial
  | cons e t ih =>
    simp only [dualJ] at h
    cases hd : dual1 j e with
    | none =>
      rw [hd] at h
      refine ⟨fun he => ?_, ih h⟩
      subst he; simp [dual1] at hd
    | some x =>
      rw [hd] at h
      simp only [consOpt_some] at h
      refine ⟨fun he => ?_, ih h.2⟩
      subst he
      simp only [dual1, if_true] at hd
      cases hd
      rw [recvS_dualJ j]; exact h.1 rfl

theorem offS_congr {l l' : List (SrcEv α)} {j : Nat} (h : ∀ i, i < j → sentS i l' = sentS i l) : offS l' j = offS l j := by
  unfold offS; rw [catN_congr h]

/-- the trace-level part of the invariant: `sk` the sink-side events, `sr` the source-side events, `i` the current member -/
structure KT (n : Nat) (dem : Demand) (i : Nat) (sk : List (SinkEv α)) (sr : List (SrcEv α)) : Prop where
  pok : POk sk
  eok : EOk sk
  bp : i < n → lastPullSrc i sr = true → lastPull 0 sk = true
  lp : ∀ j, j ≠ i → lastPullSrc j sr = false
  np : ∀ j, i < j → NoPull j sr
  dm : ∀ j, j < n → DemOkSrcJ j (dsub dem (offS sr j)) sr

variable {n : Nat} {dem : Demand} {i : Nat} {sk : List (SinkEv α)} {sr : List (SrcEv α)}

theorem KT.init : KT n dem 0 ([] : List (SinkEv α)) ([] : List (SrcEv α)) :=
  ⟨trivial, trivial, fun _ h => (by simp [lastPullSrc] at h), fun _ _ => rfl, fun _ _ h => (by cases h), fun _ _ => trivial⟩

/-- a sink-side event that is neither a `Pull` nor a delivery -/
theorem KT.sinkNeutral (h : KT n dem i sk sr) (e : SinkEv α) (h1 : relS 0 e = none) (h2 : isData0 e = false) (h3 : isEnd0 e = false) :
    KT n dem i (e :: sk) sr :=
  ⟨⟨fun hd => (by rw [h2] at hd; cases hd), h.pok⟩, ⟨fun hd => (by rw [h3] at hd; cases hd), h.eok⟩,
    fun hi hb => (by simp only [lastPull, h1, Option.getD_none]; exact h.bp hi hb), h.lp, h.np, h.dm⟩

theorem KT.pull0 (h : KT n dem i sk sr) : KT n dem i (.up 0 .pull :: sk) sr :=
  ⟨⟨fun hd => (by simp [isData0] at hd), h.pok⟩, ⟨fun hd => (by simp [isEnd0] at hd), h.eok⟩,
    fun _ _ => (by simp [lastPull, relS]), h.lp, h.np, h.dm⟩

/-- a source-side event that is neither a `Pull` nor a delivery -/
theorem KT.srcNeutral (h : KT n dem i sk sr) (e : SrcEv α) (h1 : ∀ j, relSrc j e = none) (h2 : ∀ j, sentS j (e :: sr) = sentS j sr)
    (h3 : ∀ j, e ≠ .up j .pull) : KT n dem i sk (e :: sr) := by
  refine ⟨h.pok, h.eok, fun hi hb => h.bp hi (by simpa [lastPullSrc, h1] using hb), fun j hj => ?_, fun j hj => ?_, fun j hj => ?_⟩
  · simp only [lastPullSrc, h1, Option.getD_none]; exact h.lp j hj
  · intro hm
    rcases List.mem_cons.1 hm with he | hm
    · exact h3 j he.symm
    · exact h.np j hj hm
  · refine ⟨fun he => absurd he (h3 j), ?_⟩
    rw [offS_congr (l' := e :: sr) (l := sr) (fun i _ => h2 i)]
    exact h.dm j hj

/-- a datum from the current member -/
theorem KT.data (h : KT n dem i sk sr) (x : α) : KT n dem i sk (.down i (.data x) :: sr) := by
  refine ⟨h.pok, h.eok, fun _ hb => (by simp [lastPullSrc, relSrc] at hb), fun j hj => ?_, fun j hj => ?_, fun j hj => ?_⟩
  · simp only [lastPullSrc, relSrc, if_neg (Ne.symm hj), Option.getD_none]; exact h.lp j hj
  · intro hm
    rcases List.mem_cons.1 hm with he | hm
    · cases he
    · exact h.np j hj hm
  · refine ⟨fun he => (by cases he), ?_⟩
    by_cases hji : j ≤ i
    · rw [offS_congr (l' := SrcEv.down i (Down.data x) :: sr) (l := sr) (fun k hk => by
        have : i ≠ k := by omega
        simp [sentS, this])]
      exact h.dm j hj
    · exact demOkSrcJ_of_noPull (h.np j (by omega)) _

/-- the terminal (or anything else that answers) from member `k` -/
theorem KT.down (h : KT n dem i sk sr) (k : Nat) (d : Down α) (hd : ∀ x, d ≠ .data x) : KT n dem i sk (.down k d :: sr) := by
  have hs : ∀ j, sentS j (SrcEv.down k d :: sr) = sentS j sr := by
    intro j; cases d with
    | data x => exact absurd rfl (hd x)
    | term => rfl
    | err e => rfl
  refine ⟨h.pok, h.eok, fun hi hb => ?_, fun j hj => ?_, fun j hj => ?_, fun j hj => ?_⟩
  · by_cases hk : k = i
    · subst hk; simp [lastPullSrc, relSrc] at hb
    · apply h.bp hi; simpa [lastPullSrc, relSrc, hk] using hb
  · by_cases hk : k = j
    · subst hk; simp [lastPullSrc, relSrc]
    · simp only [lastPullSrc, relSrc, if_neg hk, Option.getD_none]; exact h.lp j hj
  · intro hm
    rcases List.mem_cons.1 hm with he | hm
    · cases he
    · exact h.np j hj hm
  · refine ⟨fun he => (by cases he), ?_⟩
    rw [offS_congr (l' := SrcEv.down k d :: sr) (l := sr) (fun i _ => hs i)]
    exact h.dm j hj

/-- a `Pull` to the current member, sent under an unserved `Pull` of the sink while more is wanted -/
theorem KT.pullSrc (h : KT n dem i sk sr) (ha : lastPull 0 sk = true) (hw : i < n → wants (dsub dem (offS sr i)) (sentS i sr).length) :
    KT n dem i sk (.up i .pull :: sr) := by
  have hs : ∀ j, sentS j (SrcEv.up i Up.pull :: sr) = sentS j sr := fun j => rfl
  refine ⟨h.pok, h.eok, fun _ _ => ha, fun j hj => ?_, fun j hj => ?_, fun j hj => ?_⟩
  · have : ¬ (i = j) := fun hc => hj hc.symm
    simp only [lastPullSrc, relSrc, this, and_false, if_false, Option.getD_none]; exact h.lp j hj
  · intro hm
    rcases List.mem_cons.1 hm with he | hm
    · cases he; omega
    · exact h.np j hj hm
  · rw [DemOkSrcJ, offS_congr (l' := SrcEv.up i Up.pull :: sr) (l := sr) (fun k _ => hs k)]
    refine ⟨fun he => ?_, h.dm j hj⟩
    cases he
    exact hw hj

/-- `Terminate`/`Error` to a member -/
theorem KT.upSrc (h : KT n dem i sk sr) (k : Nat) (u : Up) (hu : u ≠ .pull) : KT n dem i sk (.up k u :: sr) :=
  h.srcNeutral _ (fun j => by simp [relSrc, hu]) (fun j => rfl) (fun j he => by cases he; exact hu rfl)

/-- a datum delivered to the sink -/
theorem KT.outData (h : KT n dem i sk sr) (x : α) (ha : lastPull 0 sk = true) (hb : lastPullSrc i sr = false) :
    KT n dem i (.down 0 (.data x) :: sk) sr :=
  ⟨⟨fun _ => ha, h.pok⟩, ⟨fun hd => (by simp [isEnd0] at hd), h.eok⟩, fun _ hb' => (by rw [hb] at hb'; cases hb'), h.lp, h.np, h.dm⟩

/-- the terminal delivered to the sink, after the last member -/
theorem KT.outTerm (h : KT n dem i sk sr) (ha : lastPull 0 sk = true) (hi : n ≤ i) : KT n dem i (.down 0 .term :: sk) sr :=
  ⟨⟨fun hd => (by simp [isData0] at hd), h.pok⟩, ⟨fun _ => ha, h.eok⟩, fun hlt _ => (by omega), h.lp, h.np, h.dm⟩

/-- the next member becomes the current one -/
theorem KT.next (h : KT n dem i sk sr) (hb : lastPullSrc i sr = false) : KT n dem (i + 1) sk sr := by
  refine ⟨h.pok, h.eok, fun _ hb' => ?_, fun j hj => ?_, fun j hj => h.np j (by omega), h.dm⟩
  · rw [lastPullSrc_of_noPull (h.np (i + 1) (by omega))] at hb'; cases hb'
  · by_cases hji : j = i
    · subst hji; exact hb
    · exact h.lp j hji

end TraceInv

/-! ## Part 4: the n-ary `concat` under a demand — the small-step invariant -/
section ConcatInv
open ConcatN PlugConcat.CK
variable {α : Type}

theorem onOut_sinkPh_srcUp {β : Type} (g : Ph) (i : Nat) (u : Up) (k : Nat) : (g.onOut (.srcUp i u : Out β)).sinkPh k = g.sinkPh k := by
  cases u <;> simp only [Ph.onOut] <;> split <;> rfl

theorem onOut_srcPh_down {β : Type} (g : Ph) (k : Nat) (d : Down β) (j : Nat) : (g.onOut (.down k d : Out β)).srcPh j = g.srcPh j := by
  simp only [Ph.onOut]; split <;> (try split) <;> rfl

theorem onOut_down_final {β : Type} (g : Ph) (d : Down β) (hd : isFinal d = true) : (g.onOut (.down 0 d : Out β)).sinkPh 0 ≠ .live := by
  simp only [Ph.onOut]
  split
  · simp [hd]
  all_goals (rename_i h; show g.sinkPh 0 ≠ _; rw [h]; simp)

theorem catN_split {X : Type} {f : Nat → List X} {n i : Nat} (hi : i < n) (hz : ∀ j, i < j → j < n → f j = []) :
    catN f n = catN f i ++ f i := by
  induction n with
  | zero => omega
  | succ n ih =>
    simp only [catN]
    by_cases hin : i = n
    · subst hin; rfl
    · rw [ih (by omega) (fun j h1 h2 => hz j h1 (by omega)), hz n (by omega) (by omega), List.append_nil]

theorem wants_dsub {dem : Demand} {off k : Nat} (h : wants dem (off + k)) : wants (dsub dem off) k := by
  cases dem with
  | none => trivial
  | some d => simp only [wants, dsub] at h ⊢; omega

/-- the assumption about the members and the sink, closed under tails -/
structure CndJ (n : Nat) (dem : Demand) (tr : List (Ev α α)) : Prop where
  pok : ∀ j, j < n → POkSrc j (srcEvs tr)
  eok : ∀ j, j < n → EOkSrc j (srcEvs tr)
  ne : ∀ j, j < n → ∀ e, SrcEv.down j (Down.err e) ∉ srcEvs tr
  dm : DemOk dem (sinkEvs tr)

theorem mem_srcEvs_cons {β : Type} {x : SrcEv α} {e : Ev α β} {tr : List (Ev α β)} (h : x ∈ srcEvs tr) : x ∈ srcEvs (e :: tr) := by
  simp only [srcEvs]
  cases srcEv e with
  | none => exact h
  | some y => exact List.mem_cons_of_mem _ h

theorem CndJ.tail {n : Nat} {dem : Demand} {e : Ev α α} {tr : List (Ev α α)} (h : CndJ n dem (e :: tr)) : CndJ n dem tr :=
  ⟨fun j hj => pOkSrc_tail_evJ (h.pok j hj), fun j hj => eOkSrc_tail_ev (h.eok j hj),
    fun j hj e' hm => h.ne j hj e' (mem_srcEvs_cons hm), h.dm.tail⟩

/-- the assertion on the running handler -/
def Fl (n : Nat) (st : Concat.St) (ph : Ph) (tr : List (Ev α α)) : List (Fm α) → Prop
  | .run .t0 :: _ => aP tr = true ∧ lastPullSrc st.i (srcEvs tr) = false
  | .run .next :: _ => 0 < st.i → aP tr = true
  | .run (.g0 _) :: _ => (0 < st.i → aP tr = true) ∧ st.i < n
  | .run .g1 :: _ => (0 < st.i → aP tr = true) ∧ st.i < n
  | .run .g2 :: _ => aP tr = true ∧ st.i < n
  | .run .g3 :: _ => aP tr = true ∧ st.i < n
  | .run (.fwd (.data _)) :: _ => aP tr = true ∧ ph.srcPh st.i = .live ∧ lastPullSrc st.i (srcEvs tr) = false
  | .run .p0 :: _ => aP tr = true ∧ st.i < n
  | .run (.u1 .pull) :: _ => aP tr = true ∧ st.i < n
  | .run (.u1 .term) :: _ => ph.sinkPh 0 ≠ .live
  | .run (.u1 (.err _)) :: _ => ph.sinkPh 0 ≠ .live
  | _ => True

theorem fl_turn {n : Nat} {st : Concat.St} {ph : Ph} {tr : List (Ev α α)} {stk : List (Fm α)}
    (h : ∀ f ∈ stk, ∃ o l, f = Frame.wait o l) : Fl n st ph tr stk := by
  cases stk with
  | nil => trivial
  | cons f r => obtain ⟨o, l, rfl⟩ := h f List.mem_cons_self; trivial

structure KJ (n : Nat) (dem : Demand) (s : Sys Concat.St (Concat.Loc α) α α) : Prop where
  kt : KT n dem s.st.i (sinkEvs s.tr) (srcEvs s.tr)
  /-- between two members the sink's `Pull` is unserved -/
  q : 0 < s.st.i → s.g.ph.sinkPh 0 = .live → s.g.ph.srcPh s.st.i ≠ .live → aP s.tr = true
  fl : Fl n s.st s.g.ph s.tr s.stack

/-- while the current member is pulled, what the sink has received is what the members up to it have sent -/
theorem pull_wants {n : Nat} (hn : 0 < n) {dem : Demand} {st : Concat.St} {stk : List (Fm α)} {g : G} {tr : List (Ev α α)} {l : Concat.Loc α}
    (ha : SReach (Concat.machine α n) ⟨st, .run l :: stk, g, tr, none⟩) (hl : ∀ d, l ≠ .fwd d)
    (hC : DemOk dem (sinkEvs tr)) (hap : aP tr = true) (hi : st.i < n) :
    wants (dsub dem (offS (srcEvs tr) st.i)) (sentS st.i (srcEvs tr)).length := by
  have hkd := KD_reach n hn _ ha rfl
  have hk1 := K1_reach n hn _ ha rfl
  have hw := wants_of_lastPull hC hap
  have hd := hkd.d
  have hp : pend (Frame.run l :: stk) = ([] : List α) := by
    cases l with
    | fwd d => exact absurd rfl (hl d)
    | _ => rfl
  simp only at hd
  rw [hp, List.append_nil, catN_split hi (fun j h1 _ => hkd.z j (hk1.s2 j h1))] at hd
  rw [← recvData_eq, hd, List.length_append] at hw
  have e1 : (catN (fun j => sentData j tr) st.i).length = offS (srcEvs tr) st.i := by
    unfold offS; rw [catN_congr (fun j _ => sentData_eq j tr)]
  rw [e1, sentData_eq] at hw
  exact wants_dsub hw

theorem KJ_reach (n : Nat) (hn : 0 < n) (dem : Demand) :
    ∀ s, SReach (Concat.machine α n) s → s.panicked = none → CndJ n dem s.tr → KJ n dem s := by
  apply reach_ind
  · intro _ _
    exact ⟨KT.init, fun h => by simp [Sys.init, Concat.machine] at h, trivial⟩
  · intro a b ha ih hstep
    cases hstep with
    | @tau st l stk g tr s' l' hst =>
      intro _ hC
      have hk := ih rfl hC
      obtain ⟨hkt, hq, hfl⟩ := hk
      simp only at hkt hq hfl
      cases l with
      | t0 =>
        simp [Concat.machine, Concat.step] at hst; obtain ⟨rfl, rfl⟩ := hst
        simp only [Fl] at hfl
        exact ⟨hkt.next hfl.2, fun _ _ _ => hfl.1, fun _ => hfl.1⟩
      | g0 j' =>
        simp [Concat.machine, Concat.step] at hst; obtain ⟨rfl, rfl⟩ := hst
        exact ⟨hkt, hq, hfl⟩
      | g1 =>
        by_cases hi0 : st.i = 0
        · simp [Concat.machine, Concat.step, hi0] at hst
        · simp [Concat.machine, Concat.step, hi0] at hst; obtain ⟨rfl, rfl⟩ := hst
          simp only [Fl] at hfl
          exact ⟨hkt, hq, ⟨hfl.1 (by omega), hfl.2⟩⟩
      | g2 =>
        simp [Concat.machine, Concat.step] at hst; split at hst <;> simp at hst; obtain ⟨rfl, rfl⟩ := hst
        exact ⟨hkt, hq, hfl⟩
      | p0 =>
        simp [Concat.machine, Concat.step] at hst; obtain ⟨rfl, rfl⟩ := hst
        exact ⟨hkt, hq, hfl⟩
      | done => cstp hst
      | next => cstp hst
      | g3 => cstp hst
      | fwd d => cstp hst
      | u1 u => cstp hst
    | @call st l stk g tr o s' l' hst =>
      intro hp hC
      have hC' := hC.tail
      obtain ⟨hkt, hq, hfl⟩ := ih rfl hC'
      simp only at hkt hq hfl
      have hk1 := K1_reach n hn _ ha rfl
      have hk2 := K2_reach n hn _ ha rfl
      cases l with
      | next =>
        simp only [Fl] at hfl
        by_cases hin : st.i = n
        · simp [Concat.machine, Concat.step, hin] at hst
          obtain ⟨rfl, rfl, rfl⟩ := hst
          have hap := hfl (by omega)
          refine ⟨?_, fun _ hl _ => ?_, trivial⟩
          · simp only [sinkEvs, sinkEv, srcEvs, srcEv, consOpt_some, consOpt_none]
            exact hkt.outTerm hap (by omega)
          · exfalso
            simp only [onOut_ph] at hl
            exact onOut_down_final g.ph Down.term rfl hl
        · simp [Concat.machine, Concat.step, hin] at hst
          obtain ⟨rfl, rfl, rfl⟩ := hst
          refine ⟨?_, fun h0 _ _ => ?_, trivial⟩
          · simp only [sinkEvs, sinkEv, srcEvs, srcEv, consOpt_some, consOpt_none]
            exact hkt.srcNeutral _ (fun j => rfl) (fun j => rfl) (fun j he => by cases he)
          · have := hfl h0
            simpa [aP, sinkEvs, sinkEv] using this
      | g1 =>
        by_cases hi0 : st.i = 0
        · simp [Concat.machine, Concat.step, hi0] at hst
          obtain ⟨rfl, rfl, rfl⟩ := hst
          refine ⟨?_, fun h0 _ _ => absurd hi0 (by simp only at h0; omega), trivial⟩
          simp only [sinkEvs, sinkEv, srcEvs, srcEv, consOpt_some, consOpt_none]
          exact hkt.sinkNeutral _ rfl rfl rfl
        · simp [Concat.machine, Concat.step, hi0] at hst
      | g3 =>
        simp only [Fl] at hfl
        have htop := hk1.top
        simp only [TopB] at htop
        simp [Concat.machine, Concat.step, htop] at hst
        obtain ⟨rfl, rfl, rfl⟩ := hst
        refine ⟨?_, fun _ _ _ => ?_, trivial⟩
        · simp only [sinkEvs, sinkEv, srcEvs, srcEv, consOpt_some, consOpt_none]
          exact hkt.pullSrc hfl.1 (fun hi => pull_wants hn ha (fun d h => by cases h) hC'.dm hfl.1 hi)
        · have := hfl.1; simpa [aP, sinkEvs, sinkEv] using this
      | u1 u =>
        have htop := hk1.top
        simp only [TopB] at htop
        cases hsl : st.slot with
        | none => simp [Concat.machine, Concat.step, hsl] at hst
        | some s =>
        simp [Concat.machine, Concat.step, hsl] at hst
        obtain ⟨rfl, rfl, rfl⟩ := hst
        cases u with
        | pull =>
          simp only [Fl] at hfl
          have hs : s = st.i := by rw [htop rfl] at hsl; exact (Option.some.inj hsl).symm
          subst hs
          refine ⟨?_, fun _ _ _ => ?_, trivial⟩
          · simp only [sinkEvs, sinkEv, srcEvs, srcEv, consOpt_some, consOpt_none]
            exact hkt.pullSrc hfl.1 (fun hi => pull_wants hn ha (fun d h => by cases h) hC'.dm hfl.1 hi)
          · have := hfl.1; simpa [aP, sinkEvs, sinkEv] using this
        | term =>
          simp only [Fl] at hfl
          refine ⟨?_, fun _ hl _ => ?_, trivial⟩
          · simp only [sinkEvs, sinkEv, srcEvs, srcEv, consOpt_some, consOpt_none]
            exact hkt.upSrc s _ (by simp)
          · exfalso; simp only [onOut_ph, onOut_sinkPh_srcUp] at hl; exact hfl hl
        | err e =>
          simp only [Fl] at hfl
          refine ⟨?_, fun _ hl _ => ?_, trivial⟩
          · simp only [sinkEvs, sinkEv, srcEvs, srcEv, consOpt_some, consOpt_none]
            exact hkt.upSrc s _ (by simp)
          · exfalso; simp only [onOut_ph, onOut_sinkPh_srcUp] at hl; exact hfl hl
      | fwd d =>
        simp [Concat.machine, Concat.step] at hst
        obtain ⟨rfl, rfl, rfl⟩ := hst
        cases d with
        | data x =>
          simp only [Fl] at hfl
          refine ⟨?_, fun _ _ hnl => ?_, trivial⟩
          · simp only [sinkEvs, sinkEv, srcEvs, srcEv, consOpt_some, consOpt_none]
            exact hkt.outData x hfl.1 hfl.2.2
          · exfalso; simp only [onOut_ph, onOut_srcPh_down] at hnl; exact hnl hfl.2.1
        | term => exact absurd rfl (hk2.nft stk)
        | err e =>
          exfalso
          obtain ⟨i, e', hlt, hm⟩ := hk2.fe e stk rfl
          exact hC'.ne i hlt e' hm
      | done => cstp hst
      | g0 j' => cstp hst
      | g2 => cstp hst
      | t0 => cstp hst
      | p0 => cstp hst
    | @ret st l stk g tr hst =>
      intro _ hC
      obtain ⟨hkt, hq, hfl⟩ := ih rfl hC.tail
      simp only at hkt hq hfl
      refine ⟨?_, ?_, fl_turn (pop_turn _ ha)⟩
      · simpa [sinkEvs, sinkEv, srcEvs, srcEv] using hkt
      · simp only [onRetO_ph]
        intro h1 h2 h3
        have := hq h1 h2 h3
        simpa [aP, sinkEvs, sinkEv] using this
    | panic hst => intro hp; cases hp
  · intro a b m ha ih hstep
    cases hstep with
    | @call st stk g tr c i hc hl =>
      intro _ hC
      have hC' := hC.tail
      obtain ⟨hkt, hq, hfl⟩ := ih rfl hC'
      simp only at hkt hq hfl
      obtain ⟨hoths, hm⟩ := cinv n hn ha hc
      cases i with
      | subscribe k =>
        have hk0 : g.ph.sinkPh k = .idle := by
          simp only [legalIn, Bool.and_eq_true, beq_iff_eq] at hl; exact hl.1.2
        have hkz : k = 0 := by
          simp only [legalIn, Bool.and_eq_true, Bool.or_eq_true, beq_iff_eq] at hl
          rcases hl.2 with h | h
          · exact h
          · simp [Concat.machine] at h
        subst hkz
        have hi0 : st.i = 0 := by
          cases hm with
          | idle _ _ h _ => exact h
          | waiting _ _ _ _ h5 h6 _ =>
            by_cases h0 : st.i = 0
            · exact h0
            · rw [h6 h0] at hk0; cases hk0
          | live _ _ h _ _ _ _ => rw [h] at hk0; cases hk0
          | over h _ _ => rcases h with h | h <;> rw [h] at hk0 <;> cases hk0
        refine ⟨?_, fun h0 _ _ => absurd hi0 (by simp only at h0; omega), ?_⟩
        · simp only [sinkEvs, sinkEv, srcEvs, srcEv, consOpt_some, consOpt_none]
          exact hkt.sinkNeutral _ rfl rfl rfl
        · simp only [Concat.machine, Concat.enter, Fl]; intro h0; omega
      | sinkUp k u =>
        have hlive := legal_sinkUp hl
        have hkz : k = 0 := by
          by_cases hk : k = 0
          · exact hk
          · rw [hoths k hk] at hlive; cases hlive
        subst hkz
        cases u with
        | pull =>
          have hnw : ∀ j l r, stk ≠ Frame.wait (.subSrc j) l :: r := by
            intro j l r he
            subst he
            simp only [ctxOf, Option.some.injEq] at hc
            subst hc
            simp [legalIn, isTop, inGreet, inData] at hl
          obtain ⟨_, _, hlt⟩ := sinkLive_cur hm hlive hnw
          have hap : aP (Ev.inp (In.sinkUp 0 Up.pull) :: tr) = true := by simp [aP, sinkEvs, sinkEv, lastPull, relS]
          refine ⟨?_, fun _ _ _ => hap, ?_⟩
          · simp only [sinkEvs, sinkEv, srcEvs, srcEv, consOpt_some, consOpt_none]
            exact hkt.pull0
          · simp only [Concat.machine, Concat.enter, Fl]; exact ⟨hap, hlt⟩
        | term =>
          refine ⟨?_, fun _ hl' _ => ?_, ?_⟩
          · simp only [sinkEvs, sinkEv, srcEvs, srcEv, consOpt_some, consOpt_none]
            exact hkt.sinkNeutral _ rfl rfl rfl
          · simp [Ph.onIn] at hl'
          · simp [Concat.machine, Concat.enter, Fl, Ph.onIn]
        | err e =>
          refine ⟨?_, fun _ hl' _ => ?_, ?_⟩
          · simp only [sinkEvs, sinkEv, srcEvs, srcEv, consOpt_some, consOpt_none]
            exact hkt.sinkNeutral _ rfl rfl rfl
          · simp [Ph.onIn] at hl'
          · simp [Concat.machine, Concat.enter, Fl, Ph.onIn]
      | srcGreet k =>
        have hsub := legal_srcGreet hl
        have hki := sub_cur hm hsub
        subst hki
        have ⟨hlt, hsl⟩ : st.i < n ∧ (st.i ≠ 0 → g.ph.sinkPh 0 = .live) := by
          cases hm with
          | idle _ h _ _ => rw [h] at hsub; cases hsub
          | waiting h1 _ _ _ _ h6 _ => exact ⟨h1, h6⟩
          | live _ _ _ h _ _ _ => rw [h] at hsub; cases hsub
          | over _ h _ => exact absurd hsub (h _).2
        refine ⟨?_, fun _ _ hnl => ?_, ?_⟩
        · simp only [sinkEvs, sinkEv, srcEvs, srcEv, consOpt_some, consOpt_none]
          exact hkt.srcNeutral _ (fun j => rfl) (fun j => rfl) (fun j he => by cases he)
        · exfalso; simp [Ph.onIn] at hnl
        · simp only [Concat.machine, Concat.enter, Fl]
          refine ⟨fun h0 => ?_, hlt⟩
          have := hq h0 (hsl (by omega)) (by rw [hsub]; simp)
          simpa [aP, sinkEvs, sinkEv] using this
      | srcDown k d =>
        obtain ⟨hki, _, hsl, hlt⟩ := live_cur hm (legal_srcDown hl)
        subst hki
        cases d with
        | data x =>
          have hb : lastPullSrc st.i (srcEvs tr) = true := by
            have := hC.pok st.i hlt
            simp only [srcEvs, srcEv, consOpt_some] at this
            exact this.1 (by simp [isDataJ])
          have hap := hkt.bp hlt hb
          refine ⟨?_, fun _ _ hnl => ?_, ?_⟩
          · simp only [sinkEvs, sinkEv, srcEvs, srcEv, consOpt_some, consOpt_none]
            exact hkt.data x
          · exfalso; simp only [onIn_ph, Ph.onIn] at hnl; exact hnl (legal_srcDown hl)
          · simp only [Concat.machine, Concat.enter, Fl, onIn_ph, Ph.onIn]
            refine ⟨?_, legal_srcDown hl, by simp [srcEvs, srcEv, lastPullSrc, relSrc]⟩
            simpa [aP, sinkEvs, sinkEv] using hap
        | term =>
          have hb : lastPullSrc st.i (srcEvs tr) = true := by
            have := hC.eok st.i hlt
            simp only [srcEvs, srcEv, consOpt_some] at this
            exact this.1 (by simp [isEndJ])
          have hap := hkt.bp hlt hb
          have hap' : aP (Ev.inp (In.srcDown st.i Down.term) :: tr) = true := by simpa [aP, sinkEvs, sinkEv] using hap
          refine ⟨?_, fun _ _ _ => hap', ?_⟩
          · simp only [sinkEvs, sinkEv, srcEvs, srcEv, consOpt_some, consOpt_none]
            exact hkt.down _ _ (fun x h => by cases h)
          · simp only [Concat.machine, Concat.enter, Fl]
            exact ⟨hap', by simp [srcEvs, srcEv, lastPullSrc, relSrc]⟩
        | err e =>
          exfalso
          exact hC.ne st.i hlt e (by simp [srcEvs, srcEv])
    | @ret st stk g tr o l hl =>
      intro _ hC
      obtain ⟨hkt, hq, hfl⟩ := ih rfl hC.tail
      simp only at hkt hq hfl
      have hfr := (PlugSafe.ConcatK.K_reach n hn _ ha rfl).2.1
      have : l = .done := hfr _ List.mem_cons_self o l rfl
      subst this
      refine ⟨?_, ?_, trivial⟩
      · simpa [sinkEvs, sinkEv, srcEvs, srcEv] using hkt
      · intro h1 h2 h3
        have := hq h1 h2 h3
        simpa [aP, sinkEvs, sinkEv] using this

end ConcatInv

/-! ## Part 5: the members summarised; plugging; closing -/
section Assembly
open ConcatN PlugConcat.CK PlugCost ComposeFull

/-- a head that has delivered its terminal has delivered its whole list — at EVERY reachable configuration -/
theorem done_all {St Loc α β : Type} {M : Machine St Loc α β} {ys : List β} (h : DoneTurn M ys) :
    ∀ s, SReach M s → s.g.ph.sinkPh 0 = .doneBySrc → recvData 0 s.tr = ys := by
  apply reach_ind
  · intro hd; simp [Sys.init] at hd
  · intro a b ha ih hstep
    cases hstep with
    | tau _ => exact ih
    | @call st l stk g tr o s' l' hst =>
      exact h _ (reach_op ha (.call hst)) ⟨rfl, by simp [ctxOf]⟩
    | ret _ => intro hd; simp only [onRetO_ph] at hd; simpa [recvData] using ih hd
    | panic _ => intro hd; simpa [recvData] using ih hd
  · intro a b m ha ih hstep
    cases hstep with
    | @call st stk g tr c i hc hl =>
      intro hd
      simp only [onIn_ph] at hd
      have hpre : g.ph.sinkPh 0 = .doneBySrc := by
        cases i with
        | subscribe k => simp only [Ph.onIn, Ph.sinkPh_setSink] at hd; split at hd; cases hd; exact hd
        | sinkUp k u => cases u <;> simp only [Ph.onIn, Ph.sinkPh_setSink] at hd <;> first | exact hd | (split at hd; cases hd; exact hd)
        | srcGreet k => simpa [Ph.onIn] using hd
        | srcDown k d => cases d <;> simpa [Ph.onIn] using hd
      simpa [recvData] using ih hpre
    | ret hl => intro hd; simpa [recvData] using ih hd

theorem demOkSrcJ_srcEq {α : Type} {j : Nat} {D : Demand} {l : List (SrcEv α)} (h : DemOkSrcJ j D l) : DemOkSrcJ j D (srcEq j l) := by
  induction l with
  | nil => trivial
  | cons e t ih =>
    by_cases hi : srcIdx e = j
    · have he : srcEq j (e :: t) = e :: srcEq j t := by simp [srcEq, hi]
      rw [he]
      exact ⟨fun hp => by rw [sentS_srcEq]; exact h.1 hp, ih h.2⟩
    · have he : srcEq j (e :: t) = srcEq j t := by simp [srcEq, hi]
      rw [he]; exact ih h.2

theorem catN_tail_nil {X : Type} {f : Nat → List X} {n j : Nat} (hj : j ≤ n) (hz : ∀ i, j ≤ i → i < n → f i = []) :
    catN f n = catN f j := by
  induction n with
  | zero => have : j = 0 := by omega
            subst this; rfl
  | succ n ih =>
    by_cases hjn : j = n + 1
    · subst hjn; rfl
    · simp only [catN]
      rw [ih (by omega) (fun i h1 h2 => hz i h1 (by omega)), hz n (by omega) (by omega), List.append_nil]

theorem catN_length_le {X : Type} {f g : Nat → List X} {j : Nat} (h : ∀ i, i < j → (f i).length ≤ (g i).length) :
    (catN f j).length ≤ (catN g j).length := by
  induction j with
  | zero => exact Nat.le_refl _
  | succ j ih =>
    simp only [catN, List.length_append]
    have := ih (fun i hi => h i (by omega))
    have := h j (by omega)
    omega

/-- the number of items of the members before `j` -/
def offY (yss : Nat → List Int) (j : Nat) : Nat := (catN yss j).length

/-- a configuration of a partially plugged machine and the configuration of the `concat` machine inside it -/
structure ViewD {St Loc : Type} (js : List Nat) (s : Sys St Loc Int Int) (sC : CSys) : Prop where
  sink : sinkEvs s.tr = sinkEvs sC.tr
  src : srcEvs s.tr = srcOut js (srcEvs sC.tr)
  sinkPh : ∀ j, s.g.ph.sinkPh j = sC.g.ph.sinkPh j
  srcPh : ∀ i, i ∉ js → s.g.ph.srcPh i = sC.g.ph.srcPh i
  top : s.stack = [] → sC.stack = []

/-- what `concat` sees of the plugged member `i`, whose counter stands at `x` -/
structure MemD (c : Demand → Nat) (ys : List Int) (i : Nat) (sC : CSys) (x : Nat) (top : Prop) : Prop where
  po : POkSrc i (srcEvs sC.tr)
  eo : EOkSrc i (srcEvs sC.tr)
  ne : ∀ e, SrcEv.down i (Down.err e) ∉ srcEvs sC.tr
  pre : sentData i sC.tr <+: ys
  full : sC.g.ph.srcPh i = .ended → sentData i sC.tr = ys
  up : ∀ dm, DemOkSrcJ i dm (srcEvs sC.tr) → x ≤ c dm
  low : top → c (some (sentData i sC.tr).length) ≤ x ∧ (sC.g.ph.srcPh i = .ended → c none ≤ x)

/-- the n-ary `concat` machine with the slots in `js` plugged by closed heads of `yss i`, of cost `cs i`, that deliver and end only
when pulled -/
structure PartD {St Loc : Type} (n : Nat) (js : List Nat) (cs : Nat → Demand → Nat) (yss : Nat → List Int)
    (M : Machine St Loc Int Int) (nx : St → Nat) : Prop where
  up : UpSide M
  proj : ∀ s, SReach M s → ∃ (sC : CSys) (xs : Nat → Nat), SReach (Concat.machine Int n) sC ∧ sC.panicked = none ∧ ViewD js s sC ∧
    nx s.st = (js.map xs).sum ∧ ∀ i ∈ js, MemD (cs i) (yss i) i sC (xs i) (s.stack = [])

theorem PartD.base (n : Nat) (hn : 0 < n) (cs : Nat → Demand → Nat) (yss : Nat → List Int) :
    PartD n [] cs yss (Concat.machine Int n) (fun _ => 0) := by
  refine ⟨Concat.upSide n hn, fun s hs => ?_⟩
  exact ⟨s, fun _ => 0, hs, (Concat.concat_basicSafe n hn s hs).2, ⟨rfl, (srcOut_nil _).symm, fun _ => rfl, fun _ _ => rfl, id⟩,
    rfl, (fun i hi => by cases hi)⟩

/-- **plugging one more slot** -/
theorem PartD.plug {SA LA αA St Loc : Type} {A : Machine SA LA αA Int} {M : Machine St Loc Int Int} {n k : Nat} {js : List Nat}
    {cs : Nat → Demand → Nat} {yss : Nat → List Int} {nx : St → Nat} {nxA : SA → Nat}
    (hM : PartD n js cs yss M nx) (hk : k ∉ js) (hA : HeadOkT A (yss k)) (NA : NoUpstream A) (PA : PullOnly A) (EA : EndOnPull A)
    (uA : HeadUp A nxA (cs k)) (lA : HeadLow A nxA (cs k)) :
    PartD n (k :: js) cs yss (Cb.plug k A M) (fun st => nxA st.1 + nx st.2) := by
  have H : HypP A M := hypP_of hA.head.up NA hM.up.safe
  refine ⟨UpSide.plug H k hM.up, ?_⟩
  intro s hs
  obtain ⟨sA, sM, hrA, hrM, hm, ht⟩ := plug_inv_tr H k s hs
  obtain ⟨sC, xs, hrC, hpC, hv, hsum, hmem⟩ := hM.proj sM hrM
  have hifc : srcEq k (srcEvs sC.tr) = dualJ k (sinkEvs sA.tr) := by
    rw [← srcEq_srcOut hk, ← hv.src, ht.ifc]
  have hsent : sentData k sC.tr = recvData 0 sA.tr := by
    rw [sentData_eq, ← sentS_srcEq, hifc, recvData_eq, recvS_dualJ k]
  have hph : sC.g.ph.srcPh k = toSrc (sA.g.ph.sinkPh 0) := (hv.srcPh k hk).symm.trans hm.gh.ifc
  have hst : s.st = (sA.st, sM.st) := hm.st
  refine ⟨sC, fun i => if i = k then nxA sA.st else xs i, hrC, hpC,
    ⟨ht.sink.trans hv.sink, ?_, fun j => (hm.gh.sink j).trans (hv.sinkPh j), ?_, fun h => hv.top (matchP_top hm h).2⟩, ?_, ?_⟩
  · rw [ht.src, hv.src, srcNe_srcOut]
  · intro i hi
    have h1 : i ≠ k := fun h => hi (h ▸ List.mem_cons_self)
    have h2 : i ∉ js := fun h => hi (List.mem_cons_of_mem _ h)
    exact (hm.gh.src i h1).trans (hv.srcPh i h2)
  · rw [hst]
    simp only [List.map_cons, List.sum_cons, if_true]
    rw [List.map_congr_left (f := fun i => if i = k then nxA sA.st else xs i) (g := xs) (fun i hi => by
      have : i ≠ k := fun h => hk (h ▸ hi)
      simp [this])]
    show nxA sA.st + nx sM.st = _
    rw [hsum]
  · intro i hi
    rcases List.mem_cons.1 hi with rfl | hi
    · simp only [if_true]
      refine ⟨?_, ?_, ?_, ?_, ?_, ?_, ?_⟩
      · apply pOkSrc_of_srcEq; rw [hifc]; exact pOkSrc_dualJ i _ (PA sA hrA)
      · apply eOkSrc_of_srcEq; rw [hifc]; exact eOkSrc_dualJ i _ (EA sA hrA)
      · intro e he
        have : SrcEv.down i (Down.err e) ∈ srcEq i (srcEvs sC.tr) := by simp [srcEq, srcIdx, he]
        rw [hifc] at this
        exact hA.noErr sA hrA ⟨0, e, mem_dualJ_down this⟩
      · rw [hsent]; exact recv_prefix_all hA.head.spec sA hrA
      · intro he
        rw [hsent]
        exact done_all hA.doneT sA hrA (toSrc_ended.1 (hph ▸ he))
      · intro dm hd
        apply uA dm sA hrA
        apply demOkSrcJ_of_dualJ (j := i)
        rw [← hifc]
        exact demOkSrcJ_srcEq hd
      · intro htop
        obtain ⟨hkA, _⟩ := matchP_top hm htop
        obtain ⟨l1, l2⟩ := lA sA hrA hkA
        rw [hsent]
        exact ⟨l1, fun he => l2 (toSrc_ended.1 (hph ▸ he))⟩
    · have hik : i ≠ k := fun h => hk (h ▸ hi)
      simp only [if_neg hik]
      obtain ⟨a1, a2, a3, a4, a5, a6, a7⟩ := hmem i hi
      exact ⟨a1, a2, a3, a4, a5, a6, fun htop => a7 (matchP_top hm htop).2⟩

theorem sum_map_le {X : Type} {f g : X → Nat} {l : List X} (h : ∀ x ∈ l, f x ≤ g x) : (l.map f).sum ≤ (l.map g).sum := by
  induction l with
  | nil => exact Nat.le_refl _
  | cons x t ih =>
    simp only [List.map_cons, List.sum_cons]
    have := h x List.mem_cons_self
    have := ih (fun y hy => h y (List.mem_cons_of_mem _ hy))
    omega

/-- the cost of the plugged network under a demand: member `j` is asked for what is left after the members before it -/
def costJ (cs : Nat → Demand → Nat) (yss : Nat → List Int) (js : List Nat) (dem : Demand) : Nat :=
  (js.map (fun j => cs j (dsub dem (offY yss j)))).sum

/-- **every slot plugged**: the network delivers and ends only when pulled, and its cost under every demand is the sum -/
theorem PartD.head {St Loc : Type} {M : Machine St Loc Int Int} {n : Nat} (hn : 0 < n) {js : List Nat} {cs : Nat → Demand → Nat}
    {yss : Nat → List Int} {nx : St → Nat} (hM : PartD n js cs yss M nx) (hall : ∀ i, i < n → i ∈ js) (hlt : ∀ i ∈ js, i < n)
    (hmono : ∀ i ∈ js, ∀ d1 d2, Dle d1 d2 → cs i d1 ≤ cs i d2) :
    PullOnly M ∧ EndOnPull M ∧ HeadUp M nx (costJ cs yss js) ∧ HeadLow M nx (costJ cs yss js) := by
  have hC : ∀ (s : Sys St Loc Int Int) (sC : CSys) (xs : Nat → Nat) (dem : Demand), ViewD js s sC →
      (∀ i ∈ js, MemD (cs i) (yss i) i sC (xs i) (s.stack = [])) → DemOk dem (sinkEvs s.tr) → CndJ n dem sC.tr :=
    fun s sC xs dem hv hmem hd => ⟨fun j hj => (hmem j (hall j hj)).po, fun j hj => (hmem j (hall j hj)).eo,
      fun j hj => (hmem j (hall j hj)).ne, hv.sink ▸ hd⟩
  refine ⟨fun s hs => ?_, fun s hs => ?_, fun dem s hs hd => ?_, fun s hs hstk => ?_⟩
  · obtain ⟨sC, xs, hrC, hpC, hv, _, hmem⟩ := hM.proj s hs
    rw [hv.sink]
    exact (KJ_reach n hn none sC hrC hpC (hC s sC xs none hv hmem (demOk_none _))).kt.pok
  · obtain ⟨sC, xs, hrC, hpC, hv, _, hmem⟩ := hM.proj s hs
    rw [hv.sink]
    exact (KJ_reach n hn none sC hrC hpC (hC s sC xs none hv hmem (demOk_none _))).kt.eok
  · obtain ⟨sC, xs, hrC, hpC, hv, hsum, hmem⟩ := hM.proj s hs
    have hkj := KJ_reach n hn dem sC hrC hpC (hC s sC xs dem hv hmem hd)
    have hk1 := K1_reach n hn sC hrC hpC
    rw [hsum]
    apply sum_map_le
    intro j hj
    have hjn := hlt j hj
    apply (hmem j hj).up
    by_cases he : ∀ i, i < j → sC.g.ph.srcPh i = .ended
    · have : offS (srcEvs sC.tr) j = offY yss j := by
        unfold offS offY
        rw [catN_congr (f' := yss) (fun i hi => by rw [← sentData_eq]; exact (hmem i (hall i (by omega))).full (he i hi))]
      rw [← this]
      exact hkj.kt.dm j hjn
    · apply demOkSrcJ_of_noPull
      apply hkj.kt.np
      apply Classical.byContradiction
      intro hnlt
      exact he (fun i hi => hk1.s1 i (by omega))
  · obtain ⟨sC, xs, hrC, hpC, hv, hsum, hmem⟩ := hM.proj s hs
    have hkC := hv.top hstk
    have hk1 := K1_reach n hn sC hrC hpC
    have hk2 := K2_reach n hn sC hrC hpC
    have hkd := KD_reach n hn sC hrC hpC
    have hrecv : recvData 0 s.tr = catN (fun j => sentData j sC.tr) n := by
      have := hkd.d
      rw [hkC] at this
      simp only [pend, List.append_nil] at this
      rw [recvData_eq, hv.sink, ← recvData_eq]; exact this
    rw [hsum]
    refine ⟨?_, fun hdone => ?_⟩
    · apply sum_map_le
      intro j hj
      have hjn := hlt j hj
      obtain ⟨l1, l2⟩ := (hmem j hj).low hstk
      by_cases hej : sC.g.ph.srcPh j = .ended
      · exact Nat.le_trans (hmono j hj _ _ (Dle.to_none _)) (l2 hej)
      · -- `j` has not ended: the members after it have sent nothing
        have hji : sC.st.i ≤ j := by
          apply Classical.byContradiction; intro hnl; exact hej (hk1.s1 j (by omega))
        have hz : ∀ i, j < i → i < n → sentData i sC.tr = [] := fun i h1 _ => hkd.z i (hk1.s2 i (by omega))
        by_cases he : ∀ i, i < j → sC.g.ph.srcPh i = .ended
        · have hk : (recvData 0 s.tr).length = offY yss j + (sentData j sC.tr).length := by
            rw [hrecv, catN_split hjn hz, List.length_append]
            unfold offY
            rw [catN_congr (f' := yss) (fun i hi => (hmem i (hall i (by omega))).full (he i hi))]
          have : dsub (some (recvData 0 s.tr).length) (offY yss j) = some (sentData j sC.tr).length := by
            simp only [dsub, hk]; congr 1; omega
          rw [this]; exact l1
        · have hij : sC.st.i < j := by
            apply Classical.byContradiction; intro hnl
            exact he (fun i hi => hk1.s1 i (by omega))
          have hzj : sentData j sC.tr = [] := hkd.z j (hk1.s2 j hij)
          have hk : (recvData 0 s.tr).length ≤ offY yss j := by
            rw [hrecv, catN_tail_nil (Nat.le_of_lt hjn) (fun i h1 h2 => by
              rcases Nat.eq_or_lt_of_le h1 with rfl | h1
              · exact hzj
              · exact hz i h1 h2)]
            exact catN_length_le (fun i hi => (hmem i (hall i (by omega))).pre.length_le)
          have : dsub (some (recvData 0 s.tr).length) (offY yss j) = some (sentData j sC.tr).length := by
            simp only [dsub, hzj, List.length_nil]; congr 1; omega
          rw [this]; exact l1
    · have hdC : sC.g.ph.sinkPh 0 = .doneBySrc := by rw [← hv.sinkPh 0]; exact hdone
      have hi : sC.st.i = n := by
        rcases hk2.tout hdC with h | ⟨i, e, hlt', he⟩
        · exact h
        · exact absurd he ((hmem i (hall i hlt')).ne e)
      apply sum_map_le
      intro j hj
      exact ((hmem j hj).low hstk).2 (hk1.s1 j (by have := hlt j hj; omega))

end Assembly

/-! ## Part 6: the terms the driver builds -/
section Driver
open Closed ComposeFull ConcatN PlugCost

/-- everything known of a closed head that delivers and ends only when pulled: its list `ys` and its cost `c` under every demand -/
structure JoinHead (A : AnyM) (ys : List Int) (c : Demand → Nat) : Prop where
  ok : HeadOkT A.M ys
  nu : NoUpstream A.M
  pull : PullOnly A.M
  eop : EndOnPull A.M
  up : HeadUp A.M A.nexts c
  low : HeadLow A.M A.nexts c
  mono : ∀ d1 d2, Dle d1 d2 → c d1 ≤ c d2

theorem dsub_zero (dem : Demand) : dsub dem 0 = dem := by cases dem <;> rfl

theorem dsub_dsub (dem : Demand) (a b : Nat) : dsub (dsub dem a) b = dsub dem (a + b) := by
  cases dem with
  | none => rfl
  | some d => simp only [dsub]; congr 1; omega

theorem dle_dsub {d1 d2 : Demand} (h : Dle d1 d2) (k : Nat) : Dle (dsub d1 k) (dsub d2 k) := by
  cases d2 with
  | none => cases d1 <;> trivial
  | some b =>
    cases d1 with
    | none => exact h.elim
    | some a => simp only [Dle, JoinDemand.dsub] at h ⊢; omega

/-- **binary `concat!` of heads that end only when pulled**, the term of the driver -/
theorem concat2_join {A B : AnyM} {ysA ysB : List Int} {cA cB : Demand → Nat} (hA : JoinHead A ysA cA) (hB : JoinHead B ysB cB) :
    JoinHead (plugM 0 A (plugM 1 B concat2M)) (ysA ++ ysB) (fun dem => cA dem + cB (dsub dem ysA.length)) := by
  have h2 : (0 : Nat) < 2 := by decide
  let cs : Nat → Demand → Nat := fun i => if i = 0 then cA else cB
  let yss : Nat → List Int := fun i => if i = 0 then ysA else ysB
  have h0 := PartD.base 2 h2 cs yss
  have h1 := h0.plug (k := 1) (nxA := B.nexts) (by simp) (by simpa [yss] using hB.ok) hB.nu hB.pull hB.eop
    (by simpa [cs] using hB.up) (by simpa [cs] using hB.low)
  have h3 := h1.plug (k := 0) (nxA := A.nexts) (by simp) (by simpa [yss] using hA.ok) hA.nu hA.pull hA.eop
    (by simpa [cs] using hA.up) (by simpa [cs] using hA.low)
  obtain ⟨p1, p2, p3, p4⟩ := h3.head h2 (fun i hi => by simp; omega) (fun i hi => by simp at hi; omega)
    (fun i _ d1 d2 hd => by by_cases hi : i = 0 <;> simp only [cs, hi, if_true, if_false] <;> first | exact hA.mono _ _ hd | exact hB.mono _ _ hd)
  obtain ⟨q1, q2⟩ := concat2_headOkT hA.ok hA.nu hB.ok hB.nu
  have hc : costJ cs yss [0, 1] = fun dem => cA dem + cB (dsub dem ysA.length) := by
    funext dem
    simp only [costJ, List.map_cons, List.map_nil, List.sum_cons, List.sum_nil, Nat.add_zero, cs, yss, offY, catN, if_true,
      List.nil_append, List.length_nil, dsub_zero]
    simp
  rw [hc] at p3 p4
  exact ⟨q1, q2, p1, p2, p3, p4, fun d1 d2 hd => Nat.add_le_add (hA.mono _ _ hd) (hB.mono _ _ (dle_dsub hd _))⟩

theorem fold_partD (n : Nat) (cs : Nat → Demand → Nat) (yss : Nat → List Int) :
    ∀ (l : List AnyM) (k : Nat) (acc : AnyM), PartD n (downFrom k) cs yss acc.M acc.nexts →
      (∀ i (h : i < l.length), JoinHead l[i] (yss (k + i)) (cs (k + i))) →
      PartD n (downFrom (k + l.length)) cs yss ((l.zipIdx k).foldl (fun acc (p : AnyM × Nat) => plugM p.2 p.1 acc) acc).M
        ((l.zipIdx k).foldl (fun acc (p : AnyM × Nat) => plugM p.2 p.1 acc) acc).nexts := by
  intro l
  induction l with
  | nil => intro k acc h _; exact h
  | cons A t ih =>
    intro k acc h hl
    simp only [List.zipIdx_cons, List.foldl_cons, List.length_cons]
    have hA := hl 0 (by simp)
    simp only [List.getElem_cons_zero, Nat.add_zero] at hA
    have hk : k ∉ downFrom k := fun hm => Nat.lt_irrefl _ (mem_downFrom.1 hm)
    have := ih (k + 1) (plugM k A acc) (h.plug hk hA.ok hA.nu hA.pull hA.eop hA.up hA.low) (fun i hi => by
      have := hl (i + 1) (by simp; omega)
      simpa [Nat.add_assoc, Nat.add_comm 1 i] using this)
    rw [show k + (t.length + 1) = k + 1 + t.length by omega]
    exact this

/-- **n-ary `concat!` of heads that end only when pulled**, the term of the driver -/
theorem concatM_join (As : List AnyM) (hne : 0 < As.length) (cs : Nat → Demand → Nat) (yss : List (List Int)) (hlen : yss.length = As.length)
    (h : ∀ i (hi : i < As.length), JoinHead As[i] (yss.getD i []) (cs i)) :
    JoinHead (concatM As) yss.flatten (costJ cs (fun i => yss.getD i []) (downFrom As.length)) := by
  have hb := PartD.base As.length hne cs (fun i => yss.getD i [])
  have := fold_partD As.length cs (fun i => yss.getD i []) As 0
    { St := Concat.St, Loc := Concat.Loc Int, M := Concat.machine Int As.length, nexts := fun _ => 0 } hb
    (fun i hi => by simpa using h i hi)
  simp only [Nat.zero_add] at this
  obtain ⟨p1, p2, p3, p4⟩ := this.head hne (fun i hi => mem_downFrom.2 hi) (fun i hi => mem_downFrom.1 hi)
    (fun i hi d1 d2 hd => (h i (mem_downFrom.1 hi)).mono _ _ hd)
  obtain ⟨q1, q2⟩ := concatN_headOkT' As hne yss hlen (fun i hi => ⟨(h i hi).ok, (h i hi).nu⟩)
  refine ⟨q1, q2, p1, p2, p3, p4, fun d1 d2 hd => ?_⟩
  apply sum_map_le
  intro j hj
  exact (h j (mem_downFrom.1 hj)).mono _ _ (dle_dsub hd _)

end Driver

end JoinDemand
end Cb

#print axioms Cb.JoinDemand.FromIter.endOnPull
#print axioms Cb.JoinDemand.Relay.stageEnd
#print axioms Cb.JoinDemand.KJ_reach
#print axioms Cb.JoinDemand.PartD.plug
#print axioms Cb.JoinDemand.PartD.head
#print axioms Cb.JoinDemand.concat2_join
#print axioms Cb.JoinDemand.concatM_join
