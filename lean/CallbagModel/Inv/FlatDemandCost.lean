import CallbagModel.Inv.FlatDemand
/-!
# The cost of `flatten(map(g)(outer))` under a demand

Continues `Inv/FlatDemand.lean` (same namespace).  With `lens` the lengths of the inner lists, in the order of the outer list:

* `needO dem lens`: how many outer items are needed — as many as inner sources must be started to meet the demand (`flatCost`'s
  `started`), all of them if the inner sources together do not meet it; `pre lens j`: the items of the first `j` inner sources.
* `EndFullSink`/`EndLenSrc`, `endFull_reach`: a closed head sends its terminal only after its whole list — as a property of the trace
  (closed under tails), so that it can be assumed of the inner sources inside `Flatten.machine`.
* `KG_reach`: under `CndG dem lens tr` (`CndF`, every inner source `j + 1` ends after exactly `lens[j]` items, the outer source has
  delivered at most `lens.length` items) the invariant `KG` of `Flatten.machine Int`: inner source `j + 1` is pulled only while the sink
  wants more than `pre lens j` items (`dmI`), the outer source only while it wants more outer items than delivered so far, in the
  sense of `needO` (`dmO`); the terminal reaches the sink only in answer to a `Pull` if the outer source ends only when pulled (`eok`);
  an inner source that has ended has sent its whole list (`full`).
* the network `flatPlug Mo Mi initOf` (`FlatHyp`: the outer head `PullOnly`, the inner heads `PullOnly` and `EndOnPull`):
  `flat_headUp`, `flat_headLow` with the cost `flatC oc ci g ys dem = oc (needO dem lens) + Σ_j ci ys[j] (dsub dem (pre lens j))`
  (`nexts` of the network is the outer counter plus the SUM over the inner sources created so far: `sum_le_keysB`, `le_sum_keysB`);
  `flat_endOnPull`.
* `flatC_eq_flatCost`: the closed form is `flatCost` of `Inv/Pipeline.lean`, hence the cost `sem` assigns to `flatMap`.
-/
namespace Cb
namespace FlatDemand
open ComposeSafe ComposeFun ComposeComplete PlugSafe PlugConcat FlatPlugSafe FlatPlugFun ComposeCost JoinDemand FK

/-! ## lists of lengths -/

/-- the items of the first `n` inner sources -/
def pre (lens : List Nat) (n : Nat) : Nat := (lens.take n).sum

theorem pre_zero (lens : List Nat) : pre lens 0 = 0 := by simp [pre]

theorem pre_succ (lens : List Nat) (n : Nat) : pre lens (n + 1) = pre lens n + lens.getD n 0 := by
  unfold pre
  rw [List.take_add_one, List.sum_append]
  cases h : lens[n]? <;> simp [List.getD_eq_getElem?_getD, h]

theorem pre_cons (l : Nat) (ls : List Nat) (n : Nat) : pre (l :: ls) (n + 1) = l + pre ls n := by simp [pre]

theorem pre_mono (lens : List Nat) {a b : Nat} (h : a ≤ b) : pre lens a ≤ pre lens b := by
  induction h with
  | refl => exact Nat.le_refl _
  | step _ ih => rw [pre_succ]; omega

/-- how many outer items are needed: as many as inner sources must be started to meet the demand; all of them (`none`) if the inner
sources together do not meet it -/
def needO : Demand → List Nat → Demand
  | none, _ => none
  | some 0, _ => some 0
  | some (_ + 1), [] => none
  | some (d + 1), l :: ls => if d + 1 ≤ l then some 1 else (needO (some (d + 1 - l)) ls).map (· + 1)

theorem needO_none (lens : List Nat) : needO none lens = none := by cases lens <;> simp [needO]
theorem needO_zero (lens : List Nat) : needO (some 0) lens = some 0 := by cases lens <;> simp [needO]

/-- the outer source is still wanted after `m` items if the first `m` inner sources have not met the demand -/
theorem needO_wants : ∀ (dem : Demand) (lens : List Nat) (m : Nat), m ≤ lens.length → wants dem (pre lens m) → wants (needO dem lens) m
  | none, lens, _, _, _ => by rw [needO_none]; trivial
  | some 0, _, _, _, h => by simp [wants] at h
  | some (d + 1), [], m, hm, _ => trivial
  | some (d + 1), l :: ls, 0, _, _ => by
    simp only [needO]; split
    · simp [wants]
    · cases h : needO (some (d + 1 - l)) ls <;> simp [wants]
  | some (d + 1), l :: ls, m + 1, hm, h => by
    simp only [wants, pre_cons] at h
    simp only [needO]
    have hl : ¬ (d + 1 ≤ l) := by omega
    rw [if_neg hl]
    have ih := needO_wants (some (d + 1 - l)) ls m (by simpa using hm) (by simp only [wants]; omega)
    cases hn : needO (some (d + 1 - l)) ls with
    | none => trivial
    | some x => rw [hn] at ih; simp only [wants, Option.map_some] at ih ⊢; omega

/-- once the first `m` inner sources cover `k` items, at most `m` outer items are needed for `k` -/
theorem needO_le : ∀ (k : Nat) (lens : List Nat) (m : Nat), k ≤ pre lens m → Dle (needO (some k) lens) (some m)
  | 0, lens, _, _ => by rw [needO_zero]; exact Nat.zero_le _
  | k + 1, [], m, h => by simp [pre] at h
  | k + 1, l :: ls, 0, h => by simp [pre] at h
  | k + 1, l :: ls, m + 1, h => by
    rw [pre_cons] at h
    simp only [needO]
    split
    · show 1 ≤ m + 1; omega
    · have ih := needO_le (k + 1 - l) ls m (by omega)
      cases hn : needO (some (k + 1 - l)) ls with
      | none => rw [hn] at ih; exact ih.elim
      | some x => rw [hn] at ih; simp only [Option.map_some]; show x + 1 ≤ m + 1; have : x ≤ m := ih; omega


/-! ## "whoever has sent the terminal has sent its whole list", on traces -/

def EndFullSink (ys : List Int) : List (SinkEv Int) → Prop
  | [] => True
  | e :: t => (e = .down 0 .term → recvS 0 t = ys) ∧ EndFullSink ys t

/-- upstream `j` sends its terminal after exactly `n` items -/
def EndLenSrc (j n : Nat) : List (SrcEv Int) → Prop
  | [] => True
  | e :: t => (e = .down j .term → (sentS j t).length = n) ∧ EndLenSrc j n t

theorem endLenSrc_tail_ev {α' : Type} {j n : Nat} {e : Ev Int α'} {tr : List (Ev Int α')} (h : EndLenSrc j n (srcEvs (e :: tr))) :
    EndLenSrc j n (srcEvs tr) := by
  simp only [srcEvs] at h
  cases hs : srcEv e with
  | none => simpa [hs] using h
  | some x => rw [hs] at h; exact h.2

theorem endLenSrc_dualJ (j : Nat) {ys : List Int} {l : List (SinkEv Int)} (h : EndFullSink ys l) : EndLenSrc j ys.length (dualJ j l) := by
  induction l with
  | nil => trivial
  | cons e t ih =>
    obtain ⟨h1, h2⟩ := h
    simp only [dualJ]
    cases hd : dual1 j e with
    | none => simpa using ih h2
    | some x =>
      simp only [consOpt_some]
      refine ⟨fun hx => ?_, ih h2⟩
      subst hx
      rw [← recvS_dualJ j]
      cases e with
      | down k d =>
        simp only [dual1] at hd
        split at hd
        · rename_i hk; subst hk; cases hd; rw [h1 rfl]
        · cases hd
      | subscribe k => simp only [dual1] at hd; split at hd <;> cases hd
      | up k u => simp only [dual1] at hd; split at hd <;> cases hd
      | greet k => simp only [dual1] at hd; split at hd <;> cases hd
      | app b => cases hd

theorem endLenSrc_of_srcEq (j n : Nat) (l : List (SrcEv Int)) (h : EndLenSrc j n (srcEq j l)) : EndLenSrc j n l := by
  induction l with
  | nil => trivial
  | cons e t ih =>
    by_cases hi : srcIdx e = j
    · have he : srcEq j (e :: t) = e :: srcEq j t := by simp [srcEq, hi]
      rw [he] at h
      exact ⟨fun hd => by rw [← sentS_srcEq]; exact h.1 hd, ih h.2⟩
    · have he : srcEq j (e :: t) = srcEq j t := by simp [srcEq, hi]
      rw [he] at h
      exact ⟨fun hd => by subst hd; exact absurd rfl hi, ih h⟩

/-- a closed head sends its terminal only after its whole list -/
theorem endFull_reach {St Loc α : Type} {M : Machine St Loc α Int} {ys : List Int} (h : HeadOkT M ys) :
    ∀ s, SReach M s → EndFullSink ys (sinkEvs s.tr) := by
  apply reach_ind
  · trivial
  · intro a b ha ih hstep
    cases hstep with
    | tau _ => exact ih
    | @call st l stk g tr o s' l' hst =>
      have hb := reach_op ha (.call hst)
      show EndFullSink ys (sinkEvs (Ev.out o :: tr))
      simp only [sinkEvs]
      cases o with
      | down k d =>
        simp only [sinkEv, consOpt_some]
        refine ⟨fun he => ?_, ih⟩
        cases he
        have hsafe := (h.head.up.safe _ hb).1
        simp only [onOut_ph] at hsafe
        have hd : (g.ph.onOut (Out.down 0 Down.term : Out Int)).sinkPh 0 = .doneBySrc := by
          simp only [Ph.onOut] at hsafe ⊢
          split at hsafe
          · simp [isFinal]
          all_goals simp at hsafe
        have := h.doneT _ hb ⟨rfl, by simp [ctxOf]⟩ (by show (G.onOut _ g _).ph.sinkPh 0 = _; rw [onOut_ph]; exact hd)
        rw [← recvData_eq]
        simpa [recvData] using this
      | greet k => simp only [sinkEv, consOpt_some]; exact ⟨fun he => (by cases he), ih⟩
      | app x => simp only [sinkEv, consOpt_some]; exact ⟨fun he => (by cases he), ih⟩
      | subSrc i => simpa [sinkEv] using ih
      | srcUp i u => simpa [sinkEv] using ih
    | ret _ => simpa [sinkEvs, sinkEv] using ih
    | panic _ => simpa [sinkEvs, sinkEv] using ih
  · intro a b m ha ih hstep
    cases hstep with
    | @call st stk g tr c i hc hl =>
      show EndFullSink ys (sinkEvs (Ev.inp i :: tr))
      simp only [sinkEvs]
      cases i with
      | subscribe k => simp only [sinkEv, consOpt_some]; exact ⟨fun he => (by cases he), ih⟩
      | sinkUp k u => simp only [sinkEv, consOpt_some]; exact ⟨fun he => (by cases he), ih⟩
      | srcGreet k => simpa [sinkEv] using ih
      | srcDown k d => simpa [sinkEv] using ih
    | ret hl => simpa [sinkEvs, sinkEv] using ih

/-! ## the demand each upstream of `flatten` sees -/

theorem onOut_ended_back {β : Type} (ph : Ph) (o : Out β) (j : Nat) (h : (ph.onOut o).srcPh j = .ended) : ph.srcPh j = .ended := by
  cases o with
  | greet k => simp only [Ph.onOut] at h; split at h <;> simpa using h
  | down k d =>
    simp only [Ph.onOut] at h
    split at h
    · split at h <;> simpa using h
    all_goals simpa using h
  | subSrc i =>
    simp only [Ph.onOut] at h
    split at h
    · simpa using h
    · split at h
      · simpa using h
      · simp only [Ph.srcPh_setSrc] at h
        split at h
        · cases h
        · exact h
  | srcUp i u =>
    cases u <;> simp only [Ph.onOut] at h <;> split at h
    all_goals first
      | exact h
      | (simp only [Ph.srcPh_setSrc] at h; split at h; cases h; exact h)
      | simpa using h
  | app b => exact h

theorem sentS_out (j : Nat) (o : Out Int) (tr : List (Ev Int Int)) : sentS j (srcEvs (Ev.out o :: tr)) = sentS j (srcEvs tr) := by
  cases o <;> simp [srcEvs, srcEv, sentS]

theorem catTo_len {f : Nat → List Int} {lens : List Nat} : ∀ (j : Nat), (∀ i, 1 ≤ i → i ≤ j → (f i).length = lens.getD (i - 1) 0) →
    (catTo f j).length = pre lens j
  | 0, _ => by simp [catTo, pre]
  | j + 1, h => by
    rw [catTo, List.length_append, catTo_len j (fun i h1 h2 => h i h1 (by omega)), pre_succ, h (j + 1) (by omega) (Nat.le_refl _)]
    simp

/-- the assumption, closed under tails: `CndF`, every inner source `j + 1` ends after exactly `lens[j]` items, and the outer source
has delivered at most `lens.length` items -/
structure CndG (dem : Demand) (lens : List Nat) (tr : List (Ev Int Int)) : Prop where
  f : CndF dem tr
  el : ∀ j, EndLenSrc (j + 1) (lens.getD j 0) (srcEvs tr)
  ol : (sentS 0 (srcEvs tr)).length ≤ lens.length

theorem CndG.tail {dem : Demand} {lens : List Nat} {e : Ev Int Int} {tr : List (Ev Int Int)} (h : CndG dem lens (e :: tr)) :
    CndG dem lens tr := by
  refine ⟨h.f.tail, fun j => endLenSrc_tail_ev (h.el j), ?_⟩
  have := (sentData_cons_prefix e tr).length_le
  rw [sentData_eq, sentData_eq] at this
  exact Nat.le_trans this h.ol

/-- the trace-level part: inner source `j + 1` is pulled only while the sink wants more than the `j` inner sources before it deliver;
the outer source only while the inner sources created so far have not met the demand; and the terminal reaches the sink only in
answer to a `Pull`, if the outer source ends only when pulled -/
structure TG (dem : Demand) (lens : List Nat) (sk : List (SinkEv Int)) (sr : List (SrcEv Int)) : Prop where
  dmI : ∀ j, DemOkSrcJ (j + 1) (dsub dem (pre lens j)) sr
  dmO : DemOkSrcJ 0 (needO dem lens) sr
  eok : EOkSrc 0 sr → EOk sk

variable {dem : Demand} {lens : List Nat} {sk : List (SinkEv Int)} {sr : List (SrcEv Int)}

theorem TG.srcEv (h : TG dem lens sk sr) (e : SrcEv Int) (hne : ∀ j, e ≠ .up j .pull) : TG dem lens sk (e :: sr) :=
  ⟨fun j => ⟨fun he => absurd he (hne _), h.dmI j⟩, ⟨fun he => absurd he (hne _), h.dmO⟩, fun he => h.eok he.2⟩

theorem TG.sinkEv (h : TG dem lens sk sr) (e : SinkEv Int) (he : isEnd0 e = false) : TG dem lens (e :: sk) sr :=
  ⟨h.dmI, h.dmO, fun hs => ⟨fun hd => (by rw [he] at hd; cases hd), h.eok hs⟩⟩

theorem TG.pullI (h : TG dem lens sk sr) (j : Nat) (hw : wants (dsub dem (pre lens j)) (sentS (j + 1) sr).length) :
    TG dem lens sk (.up (j + 1) .pull :: sr) := by
  refine ⟨fun j' => ⟨fun he => ?_, h.dmI j'⟩, ⟨fun he => (by cases he), h.dmO⟩, fun he => h.eok he.2⟩
  have : j = j' := by injection he with h1 _; omega
  subst this; exact hw

theorem TG.pullO (h : TG dem lens sk sr) (hw : wants (needO dem lens) (sentS 0 sr).length) : TG dem lens sk (.up 0 .pull :: sr) :=
  ⟨fun j => ⟨fun he => (by cases he), h.dmI j⟩, ⟨fun _ => hw, h.dmO⟩, fun he => h.eok he.2⟩

theorem TG.outTerm (h : TG dem lens sk sr) (ha : EOkSrc 0 sr → lastPull 0 sk = true) : TG dem lens (.down 0 .term :: sk) sr :=
  ⟨h.dmI, h.dmO, fun hs => ⟨fun _ => ha hs, h.eok hs⟩⟩

/-- the assertions on the running handler -/
def FlG (st : Flatten.St) (tr : List (Ev Int Int)) : List Fm → Prop
  | .run .p0 :: _ => ∀ k, st.inner = some k → k + 1 = st.nextId
  | .run .ig1 :: _ => ∀ k, st.inner = some k → k + 1 = st.nextId
  | .run .ot0 :: _ => EOkSrc 0 (srcEvs tr) → aP tr = true
  | _ => True

theorem flG_wait {st : Flatten.St} {tr : List (Ev Int Int)} {stk : List Fm} (h : ∀ f ∈ stk, ∃ o l, f = Frame.wait o l) : FlG st tr stk := by
  cases stk with
  | nil => trivial
  | cons f r => obtain ⟨o, l, rfl⟩ := h f List.mem_cons_self; trivial

structure KG (dem : Demand) (lens : List Nat) (s : FSys) : Prop where
  tg : TG dem lens (sinkEvs s.tr) (srcEvs s.tr)
  full : ∀ j, s.g.ph.srcPh (j + 1) = .ended → (sentS (j + 1) (srcEvs s.tr)).length = lens.getD j 0
  fl : FlG s.st s.tr s.stack

/-- a sink that may pull: the current inner source is live -/
theorem mode_sinkUp_inner {st : Flatten.St} {g : Ph} {stk : List Fm} {c : Ctx Int} {k : Nat} {u : Up} (hm : Flatten.Mode st g stk)
    (hc : ctxOf stk = some c) (hl : legalIn (Flatten.machine Int).shape g c (.sinkUp k u : In Int) = true) (hk : k = 0) :
    ∀ i, st.inner = some i → g.srcPh i = .live := by
  subst hk
  simp only [legalIn, Bool.and_eq_true, beq_iff_eq, Bool.or_eq_true] at hl
  obtain ⟨hlive, hctx⟩ := hl
  cases hm with
  | live h1 h2 h3 h4 h5 => exact fun i hi => (h3 i hi).2.2
  | wgreet j _ _ _ _ _ _ h => noctx' h hc hctx
  | od1 k _ _ _ h => noctx' h hc hctx
  | oe1 k e _ _ h => noctx' h hc hctx
  | ie1 e _ _ h => noctx' h hc hctx
  | init h1 => rw [h1] at hlive; cases hlive
  | sub h1 => rw [h1] at hlive; cases hlive
  | x1 k h1 => rw [h1] at hlive; cases hlive
  | fin h1 => rcases h1 with h1 | h1 <;> rw [h1] at hlive <;> cases hlive

/-- the inner sources before the last one created have ended, with their whole lists -/
theorem sent_before {lens : List Nat} {s : FSys} (hk1 : Core1 s.st.inner s.st.nextId s.g.ph s.tr)
    (hfull : ∀ j, s.g.ph.srcPh (j + 1) = .ended → (sentS (j + 1) (srcEvs s.tr)).length = lens.getD j 0) (j : Nat) (hj : j + 2 ≤ s.st.nextId) :
    (catTo (fun i => sentData i s.tr) j).length = pre lens j := by
  apply catTo_len
  intro i h1 h2
  obtain ⟨i', rfl⟩ : ∃ i', i = i' + 1 := ⟨i - 1, by omega⟩
  rw [sentData_eq]
  simpa using hfull i' (hk1.ended (i' + 1) (by omega) (by omega))

/-- a `Pull` to the current inner source -/
theorem pullI_wants {dem : Demand} {lens : List Nat} {st : Flatten.St} {stk : List Fm} {g : G} {tr : List (Ev Int Int)} {l : FL}
    (ha : SReach (Flatten.machine Int) ⟨st, .run l :: stk, g, tr, none⟩) (hl : ∀ x, l ≠ .fwd x) (hC : CndG dem lens tr)
    (hfull : ∀ j, g.ph.srcPh (j + 1) = .ended → (sentS (j + 1) (srcEvs tr)).length = lens.getD j 0)
    (hap : aP tr = true) {k : Nat} (hk : k + 1 = st.nextId) (hpos : 1 ≤ k) :
    wants (dsub dem (pre lens (k - 1))) (sentS k (srcEvs tr)).length := by
  obtain ⟨hk1, _, _⟩ := E1_reach _ ha hC.f.c
  obtain ⟨m, hm, hd⟩ := (E2_reach _ ha hC.f.c).data
  simp only at hk1 hm hd
  have hp : pendD (Frame.run l :: stk) = [] := by
    cases l with
    | fwd x => exact absurd rfl (hl x)
    | _ => rfl
  obtain ⟨j, rfl⟩ : ∃ j, k = j + 1 := ⟨k - 1, by omega⟩
  have hmk : m = j + 1 := by omega
  subst hmk
  rw [hp, List.append_nil, catTo] at hd
  have hw := wants_of_lastPull hC.f.dm hap
  rw [← recvData_eq, hd, List.length_append,
    sent_before (s := ⟨st, .run l :: stk, g, tr, none⟩) hk1 hfull j (by simp only; omega), sentData_eq] at hw
  simpa using wants_dsub hw

/-- a `Pull` to the outer source -/
theorem pullO_wants {dem : Demand} {lens : List Nat} {st : Flatten.St} {stk : List Fm} {g : G} {tr : List (Ev Int Int)} {l : FL}
    (ha : SReach (Flatten.machine Int) ⟨st, .run l :: stk, g, tr, none⟩) (hl : ∀ x, l ≠ .fwd x) (hod : isOdB l = false)
    (hC : CndG dem lens tr)
    (hfull : ∀ j, g.ph.srcPh (j + 1) = .ended → (sentS (j + 1) (srcEvs tr)).length = lens.getD j 0)
    (hap : aP tr = true) (hall : AllEnded st.nextId g.ph) :
    wants (needO dem lens) (sentS 0 (srcEvs tr)).length := by
  obtain ⟨hk1, _, hnw⟩ := E1_reach _ ha hC.f.c
  have h2 := E2_reach _ ha hC.f.c
  obtain ⟨m, hm, hd⟩ := h2.data
  have hcnt := h2.cnt
  simp only at hk1 hm hd hcnt hnw
  have hp : pendD (Frame.run l :: stk) = [] := by
    cases l with
    | fwd x => exact absurd rfl (hl x)
    | _ => rfl
  have hodc : odc (Frame.run l :: stk) = 0 := by
    simp only [odc, locOf, hod, Bool.false_eq_true, if_false, Nat.zero_add]
    exact odc_zero (pop_turn _ ha) hnw.tail
  rw [hp, List.append_nil] at hd
  have hlen : (catTo (fun i => sentData i tr) m).length = pre lens m := by
    apply catTo_len
    intro i h1 h2
    obtain ⟨i', rfl⟩ : ∃ i', i = i' + 1 := ⟨i - 1, by omega⟩
    rw [sentData_eq]
    simpa using hfull i' (hall (i' + 1) (by omega) (by omega))
  have hw := wants_of_lastPull hC.f.dm hap
  rw [← recvData_eq, hd, hlen] at hw
  have hm0 : m = (sentS 0 (srcEvs tr)).length := by rw [← sentData_eq]; omega
  rw [← hm0]
  exact needO_wants dem lens m (by rw [hm0]; exact hC.ol) hw

theorem KG_reach (dem : Demand) (lens : List Nat) :
    ∀ s, SReach (Flatten.machine Int) s → CndG dem lens s.tr → KG dem lens s := by
  apply reach_ind
  · intro _
    exact ⟨⟨fun _ => trivial, trivial, fun _ => trivial⟩, fun j h => by simp [Sys.init] at h, trivial⟩
  · intro a b ha ih hstep
    cases hstep with
    | @tau st l stk g tr s' l' hst =>
      intro hC
      obtain ⟨htg, hfull, hfl⟩ := ih hC
      obtain ⟨hk1, hf1, _⟩ := E1_reach _ ha hC.f.c
      simp only at htg hfull hfl hk1 hf1
      cases ftau_of hst with
      | og0 => exact ⟨htg, hfull, trivial⟩
      | od0 h => exact ⟨htg, hfull, trivial⟩
      | oe0 h => exact hf1.elim
      | ot0 h => exact ⟨htg, hfull, trivial⟩
      | ig0 =>
        simp only [Fl1] at hf1
        exact ⟨htg, hfull, fun k hk => by cases hk; exact hf1.1⟩
      | ie0 h => exact hf1.elim
      | it0 h => exact ⟨htg, hfull, trivial⟩
      | it1 => exact ⟨htg, hfull, trivial⟩
      | p0 h => exact ⟨htg, hfull, trivial⟩
      | x0 h => exact ⟨htg, hfull, trivial⟩
    | @call st l stk g tr o s' l' hst =>
      intro hC
      have hC' := hC.tail
      obtain ⟨htg, hfull, hfl⟩ := ih hC'
      obtain ⟨hk1, hf1, _⟩ := E1_reach _ ha hC'.f.c
      have hkf := KF_reach dem _ ha hC'.f
      simp only at htg hfull hfl hk1 hf1
      have hfull' : ∀ j, (G.onOut (Flatten.machine Int).shape g o).ph.srcPh (j + 1) = .ended →
          (sentS (j + 1) (srcEvs (Ev.out o :: tr))).length = lens.getD j 0 := by
        intro j hj
        rw [sentS_out]
        simp only [onOut_ph] at hj
        exact hfull j (onOut_ended_back _ _ _ hj)
      cases fcall_of hst with
      | sub0 =>
        refine ⟨?_, hfull', trivial⟩
        simp only [sinkEvs, sinkEv, srcEvs, srcEv, consOpt_some, consOpt_none]
        exact htg.srcEv _ (fun j h => by cases h)
      | og1 =>
        refine ⟨?_, hfull', trivial⟩
        simp only [sinkEvs, sinkEv, srcEvs, srcEv, consOpt_some, consOpt_none]
        exact htg.sinkEv _ rfl
      | od0 h => simp only [Fl1] at hf1; rw [hf1.1] at h; cases h
      | od1 =>
        refine ⟨?_, hfull', trivial⟩
        simp only [sinkEvs, sinkEv, srcEvs, srcEv, consOpt_some, consOpt_none]
        exact htg.srcEv _ (fun j h => by cases h)
      | oe0 h => exact hf1.elim
      | oe1 => exact hf1.elim
      | ot0 h =>
        simp only [FlG] at hfl
        refine ⟨?_, hfull', trivial⟩
        simp only [sinkEvs, sinkEv, srcEvs, srcEv, consOpt_some, consOpt_none]
        exact htg.outTerm hfl
      | @ig1 k h =>
        simp only [FlG] at hfl
        have hfk := hkf.fl
        simp only [Fl] at hfk
        have hkn := hfl _ h
        have hpos := hk1.ipos _ h
        obtain ⟨j, rfl⟩ : ∃ j, k = j + 1 := ⟨k - 1, by omega⟩
        refine ⟨?_, hfull', trivial⟩
        simp only [sinkEvs, sinkEv, srcEvs, srcEv, consOpt_some, consOpt_none]
        exact htg.pullI j (by simpa using pullI_wants ha (fun x h => by cases h) hC' hfull hfk.1 hkn hpos)
      | fwd =>
        refine ⟨?_, hfull', trivial⟩
        simp only [sinkEvs, sinkEv, srcEvs, srcEv, consOpt_some, consOpt_none]
        exact htg.sinkEv _ rfl
      | ie0 h => exact hf1.elim
      | ie1 => exact hf1.elim
      | it0 h =>
        have hfk := hkf.fl
        simp only [Fl] at hfk
        refine ⟨?_, hfull', trivial⟩
        simp only [sinkEvs, sinkEv, srcEvs, srcEv, consOpt_some, consOpt_none]
        exact htg.outTerm (fun _ => hfk.1)
      | it2 h =>
        have hfk := hkf.fl
        simp only [Fl] at hfk
        simp only [Fl1] at hf1
        refine ⟨?_, hfull', trivial⟩
        simp only [sinkEvs, sinkEv, srcEvs, srcEv, consOpt_some, consOpt_none]
        exact htg.pullO (pullO_wants ha (fun x h => by cases h) rfl hC' hfull hfk.1 hf1.1)
      | @p0 k h =>
        simp only [FlG] at hfl
        have hfk := hkf.fl
        simp only [Fl] at hfk
        have hkn := hfl _ h
        have hpos := hk1.ipos _ h
        obtain ⟨j, rfl⟩ : ∃ j, k = j + 1 := ⟨k - 1, by omega⟩
        refine ⟨?_, hfull', trivial⟩
        simp only [sinkEvs, sinkEv, srcEvs, srcEv, consOpt_some, consOpt_none]
        exact htg.pullI j (by simpa using pullI_wants ha (fun x h => by cases h) hC' hfull hfk.1 hkn hpos)
      | p1 h =>
        have hfk := hkf.fl
        simp only [Fl] at hfk
        simp only [Fl1] at hf1
        refine ⟨?_, hfull', trivial⟩
        simp only [sinkEvs, sinkEv, srcEvs, srcEv, consOpt_some, consOpt_none]
        exact htg.pullO (pullO_wants ha (fun x h => by cases h) rfl hC' hfull hfk.1 hf1.2)
      | x0 h =>
        refine ⟨?_, hfull', trivial⟩
        simp only [sinkEvs, sinkEv, srcEvs, srcEv, consOpt_some, consOpt_none]
        exact htg.srcEv _ (fun j h => by cases h)
      | x1 h =>
        refine ⟨?_, hfull', trivial⟩
        simp only [sinkEvs, sinkEv, srcEvs, srcEv, consOpt_some, consOpt_none]
        exact htg.srcEv _ (fun j h => by cases h)
    | @ret st l stk g tr hst =>
      intro hC
      obtain ⟨htg, hfull, hfl⟩ := ih hC.tail
      simp only at htg hfull hfl
      refine ⟨by simpa [sinkEvs, sinkEv, srcEvs, srcEv] using htg, ?_, flG_wait (pop_turn _ ha)⟩
      intro j hj
      simp only [onRetO_ph] at hj
      simpa [srcEvs, srcEv] using hfull j hj
    | panic hst =>
      intro hC
      obtain ⟨htg, hfull, hfl⟩ := ih hC.tail
      simp only at htg hfull hfl
      refine ⟨by simpa [sinkEvs, sinkEv, srcEvs, srcEv] using htg, ?_, flG_wait (pop_turn _ ha)⟩
      intro j hj
      simpa [srcEvs, srcEv] using hfull j hj
  · intro a b m ha ih hstep
    cases hstep with
    | @call st stk g tr c i hc hl =>
      intro hC
      have hC' := hC.tail
      obtain ⟨htg, hfull, hfl⟩ := ih hC'
      simp only at htg hfull hfl
      obtain ⟨_, _, hpos, hidle, hoths, hm⟩ := inv_turn' ha ⟨rfl, by simp [hc]⟩
      simp only at hpos hidle hoths hm
      obtain ⟨hk1, _, _⟩ := E1_reach _ ha hC'.f.c
      have hkf := KF_reach dem _ ha hC'.f
      simp only at hk1
      cases i with
      | subscribe k =>
        refine ⟨?_, fun j hj => ?_, trivial⟩
        · simp only [sinkEvs, sinkEv, srcEvs, srcEv, consOpt_some, consOpt_none]
          exact htg.sinkEv _ rfl
        · simp only [onIn_ph, Ph.onIn, Ph.srcPh_setSink] at hj
          simpa [srcEvs, srcEv] using hfull j hj
      | sinkUp k u =>
        have hlive := legal_sinkUp hl
        have hkz : k = 0 := by
          by_cases hk : k = 0
          · exact hk
          · rw [hoths k hk] at hlive; cases hlive
        have hin := mode_sinkUp_inner hm hc hl hkz
        subst hkz
        have hfu : ∀ j, (g.onIn stk.length (In.sinkUp 0 u : In Int)).ph.srcPh (j + 1) = .ended →
            (sentS (j + 1) (srcEvs (Ev.inp (In.sinkUp 0 u) :: tr))).length = lens.getD j 0 := by
          intro j hj
          have : g.ph.srcPh (j + 1) = .ended := by
            cases u <;> simp only [onIn_ph, Ph.onIn, Ph.srcPh_setSink] at hj <;> exact hj
          simpa [srcEvs, srcEv] using hfull j this
        refine ⟨?_, hfu, ?_⟩
        · simp only [sinkEvs, sinkEv, srcEvs, srcEv, consOpt_some, consOpt_none]
          exact htg.sinkEv _ (by cases u <;> rfl)
        · cases u with
          | pull =>
            simp only [Flatten.machine, Flatten.enter, FlG]
            exact fun k hk => hk1.last k hk (hin k hk)
          | term => trivial
          | err e => trivial
      | srcGreet i =>
        have hsub := legal_srcGreet hl
        refine ⟨?_, fun j hj => ?_, by cases i <;> trivial⟩
        · simp only [sinkEvs, sinkEv, srcEvs, srcEv, consOpt_some, consOpt_none]
          exact htg.srcEv _ (fun j h => by cases h)
        · simp only [onIn_ph, Ph.onIn, Ph.srcPh_setSrc] at hj
          split at hj
          · cases hj
          · simpa [srcEvs, srcEv, sentS] using hfull j hj
      | srcDown i d =>
        have hlive := legal_srcDown hl
        have htg' : TG dem lens (sinkEvs (Ev.inp (In.srcDown i d) :: tr)) (srcEvs (Ev.inp (In.srcDown i d) :: tr)) := by
          simp only [sinkEvs, sinkEv, srcEvs, srcEv, consOpt_some, consOpt_none]
          exact htg.srcEv _ (fun j h => by cases h)
        cases d with
        | err e => exact absurd ⟨i, e, by simp [srcEvs, srcEv]⟩ hC.f.c.2
        | data x =>
          refine ⟨htg', fun j hj => ?_, by cases i <;> trivial⟩
          simp only [onIn_ph, Ph.onIn] at hj
          have hne : i ≠ j + 1 := by
            rintro rfl; rw [hlive] at hj; cases hj
          simpa [srcEvs, srcEv, sentS, hne] using hfull j hj
        | term =>
          have hfu : ∀ j, (g.onIn stk.length (In.srcDown i Down.term : In Int)).ph.srcPh (j + 1) = .ended →
              (sentS (j + 1) (srcEvs (Ev.inp (In.srcDown i Down.term) :: tr))).length = lens.getD j 0 := by
            intro j hj
            simp only [srcEvs, srcEv, consOpt_some, sentS]
            by_cases hij : j + 1 = i
            · subst hij
              have := hC.el j
              simp only [srcEvs, srcEv, consOpt_some] at this
              exact this.1 rfl
            · simp only [onIn_ph, Ph.onIn, Ph.srcPh_setSrc, if_neg hij] at hj
              exact hfull j hj
          cases i with
          | zero =>
            refine ⟨htg', hfu, ?_⟩
            simp only [Flatten.machine, Flatten.enter, FlG]
            intro he
            simp only [srcEvs, srcEv, consOpt_some] at he
            have hb := he.1 (by simp [isEndJ])
            have := (hkf.tf.lp 0 hb).2
            simpa [aP, sinkEvs, sinkEv] using this
          | succ i' => exact ⟨htg', hfu, trivial⟩
    | @ret st stk g tr o l hl =>
      intro hC
      obtain ⟨htg, hfull, hfl⟩ := ih hC.tail
      simp only at htg hfull hfl
      obtain ⟨_, _, hnw⟩ := E1_reach _ ha hC.tail.f.c
      refine ⟨by simpa [sinkEvs, sinkEv, srcEvs, srcEv] using htg, fun j hj => by simpa [srcEvs, srcEv] using hfull j hj, ?_⟩
      rcases hnw o l List.mem_cons_self with rfl | rfl <;> trivial

/-! ## sums over the inner sources, with a bound per inner source -/
section Sums
open PlugCost
variable {S : Type}

theorem sum_le_keysB (f : S → Nat) (Bs : List Nat) : ∀ (m : Nat) (l : List (Nat × S)), (l.map (·.1)).Nodup →
    (∀ p ∈ l, 1 ≤ p.1 ∧ p.1 ≤ m) → (∀ p ∈ l, f p.2 ≤ Bs.getD (p.1 - 1) 0) → (l.map (fun p => f p.2)).sum ≤ pre Bs m
  | 0, l, _, hk, _ => by
    cases l with
    | nil => simp
    | cons p t => have := hk p List.mem_cons_self; omega
  | m + 1, l, hn, hk, hb => by
    rw [sum_filter_split (fun p => f p.2) (fun p => p.1 == m + 1) l, pre_succ]
    have h1 : ((l.filter (fun p => p.1 == m + 1)).map (fun p => f p.2)).sum ≤ Bs.getD m 0 := by
      have hn' : ((l.filter (fun p => p.1 == m + 1)).map (·.1)).Nodup :=
        List.Pairwise.sublist (List.Sublist.map _ List.filter_sublist) hn
      cases hl : l.filter (fun p => p.1 == m + 1) with
      | nil => simp
      | cons p t =>
        have e1 : p.1 = m + 1 := by
          have := (List.mem_filter.1 (hl ▸ List.mem_cons_self : p ∈ l.filter _)).2; simpa using this
        cases t with
        | nil =>
          have hp : p ∈ l := (List.mem_filter.1 (hl ▸ List.mem_cons_self)).1
          have := hb p hp
          rw [e1] at this
          simpa using this
        | cons p' t' =>
          exfalso
          rw [hl] at hn'
          have e2 : p'.1 = m + 1 := by
            have := (List.mem_filter.1 (hl ▸ List.mem_cons_of_mem _ List.mem_cons_self : p' ∈ l.filter _)).2; simpa using this
          simp only [List.map_cons, List.nodup_cons, List.mem_cons] at hn'
          exact hn'.1 (.inl (e1.trans e2.symm))
    have h2 := sum_le_keysB f Bs m (l.filter (fun p => !(p.1 == m + 1)))
      (List.Pairwise.sublist (List.Sublist.map _ List.filter_sublist) hn)
      (fun p hp => by
        obtain ⟨hp1, hp2⟩ := List.mem_filter.1 hp
        have := hk p hp1
        have hne : p.1 ≠ m + 1 := by simpa using hp2
        omega)
      (fun p hp => hb p (List.mem_filter.1 hp).1)
    omega

theorem le_sum_keysB (f : S → Nat) (Bs : List Nat) : ∀ (m : Nat) (l : List (Nat × S)),
    (∀ j, 1 ≤ j → j ≤ m → Bs.getD (j - 1) 0 = 0 ∨ ∃ p ∈ l, p.1 = j ∧ Bs.getD (j - 1) 0 ≤ f p.2) → pre Bs m ≤ (l.map (fun p => f p.2)).sum
  | 0, _, _ => by simp [pre]
  | m + 1, l, h => by
    rw [sum_filter_split (fun p => f p.2) (fun p => p.1 == m + 1) l, pre_succ]
    have h1 : Bs.getD m 0 ≤ ((l.filter (fun p => p.1 == m + 1)).map (fun p => f p.2)).sum := by
      rcases h (m + 1) (by omega) (Nat.le_refl _) with h0 | ⟨p, hp, hp1, hp2⟩
      · rw [Nat.add_sub_cancel] at h0; omega
      · exact Nat.le_trans (by rw [Nat.add_sub_cancel] at hp2; exact hp2) (mem_le_sum (fun p => f p.2) (List.mem_filter.2 ⟨hp, by simp [hp1]⟩))
    have h2 := le_sum_keysB f Bs m (l.filter (fun p => !(p.1 == m + 1))) (fun j h1 h2 => by
      rcases h j h1 (by omega) with h0 | ⟨q, hq, hq1, hq2⟩
      · exact .inl h0
      · exact .inr ⟨q, List.mem_filter.2 ⟨hq, by simp [hq1]; omega⟩, hq1, hq2⟩)
    omega

end Sums

/-! ## the cost of `flatten(map(g)(outer))` under a demand, in closed form -/

/-- the costs of the inner sources, each under what is left of the demand after the inner sources before it -/
def innerTerms (ci : Int → Demand → Nat) (g : Int → List Int) : List Int → Demand → List Nat
  | [], _ => []
  | a :: rest, dem => ci a dem :: innerTerms ci g rest (dsub dem (g a).length)

theorem innerTerms_length (ci : Int → Demand → Nat) (g : Int → List Int) : ∀ (ys : List Int) (dem : Demand),
    (innerTerms ci g ys dem).length = ys.length
  | [], _ => rfl
  | a :: rest, dem => by simp [innerTerms, innerTerms_length ci g rest]

theorem innerTerms_getD (ci : Int → Demand → Nat) (g : Int → List Int) : ∀ (ys : List Int) (dem : Demand) (j : Nat) (a : Int),
    ys[j]? = some a → (innerTerms ci g ys dem).getD j 0 = ci a (dsub dem (pre (ys.map (fun a => (g a).length)) j))
  | [], _, _, _, h => by simp at h
  | a0 :: rest, dem, 0, a, h => by
    simp only [List.getElem?_cons_zero, Option.some.injEq] at h
    subst h
    simp [innerTerms, pre, dsub_zero]
  | a0 :: rest, dem, j + 1, a, h => by
    simp only [List.getElem?_cons_succ] at h
    have ih := innerTerms_getD ci g rest (dsub dem (g a0).length) j a h
    simp only [innerTerms, List.getD_cons_succ, ih, dsub_dsub, List.map_cons, pre_cons]

/-- the cost: the outer source under "as many items as inner sources are needed", plus the inner sources -/
def flatC (oc : Demand → Nat) (ci : Int → Demand → Nat) (g : Int → List Int) (ys : List Int) (dem : Demand) : Nat :=
  oc (needO dem (ys.map (fun a => (g a).length))) + (innerTerms ci g ys dem).sum

theorem prefix_getElem? {X : Type} {l ys : List X} {j : Nat} {a : X} (hp : l <+: ys) (h : l[j]? = some a) : ys[j]? = some a := by
  obtain ⟨t, rfl⟩ := hp
  have hj : j < l.length := by
    rcases Nat.lt_or_ge j l.length with h' | h'
    · exact h'
    · rw [List.getElem?_eq_none h'] at h; cases h
  rw [List.getElem?_append_left hj]; exact h

theorem catTo_len_le {f : Nat → List Int} {lens : List Nat} : ∀ (j : Nat), (∀ i, 1 ≤ i → i ≤ j → (f i).length ≤ lens.getD (i - 1) 0) →
    (catTo f j).length ≤ pre lens j
  | 0, _ => by simp [catTo, pre]
  | j + 1, h => by
    rw [catTo, List.length_append, pre_succ]
    have := catTo_len_le j (fun i h1 h2 => h i h1 (by omega))
    have := h (j + 1) (by omega) (Nat.le_refl _)
    rw [Nat.add_sub_cancel] at this
    omega

/-! ## the network -/
section Network
open ComposeFull PlugCost
variable {So Lo Si Li αo αi : Type} {Mo : Machine So Lo αo Int} {Mi : Machine Si Li αi Int} {initOf : Int → Si}

/-- the hypotheses about the components, bundled -/
structure FlatHyp (Mo : Machine So Lo αo Int) (Mi : Machine Si Li αi Int) (initOf : Int → Si) (ys : List Int) (g : Int → List Int) : Prop where
  hO : HeadOkT Mo ys
  NO : NoUpstream Mo
  PO : PullOnly Mo
  hI : ∀ a, HeadOkT (atInit Mi (initOf a)) (g a)
  NI : ∀ a, NoUpstream (atInit Mi (initOf a))
  PI : ∀ a, PullOnly (atInit Mi (initOf a))
  EI : ∀ a, EndOnPull (atInit Mi (initOf a))

variable {ys : List Int} {g : Int → List Int}

theorem FlatHyp.proj (F : FlatHyp Mo Mi initOf ys g) : ∀ s, SReach (flatPlug Mo Mi initOf) s → ∃ sO sF fam, ProjF Mo Mi initOf s sO sF fam :=
  projF ⟨F.hO.head.up, F.NO, fun a => (F.hI a).head.up, F.NI⟩ F.PO F.hO.noErr (fun a => (F.hI a).noErr)

/-- the inner source number `j + 1` was created for the `j`-th item of the outer list -/
theorem born_ys (F : FlatHyp Mo Mi initOf ys g) {s : NSys So Lo Si Li} {sO : Sys So Lo αo Int} {sF : FSys} {fam : Fam Si Li αi}
    (hp : ProjF Mo Mi initOf s sO sF fam) {j : Nat} {a : Int} {sI : Sys Si Li αi Int} (hf : fam (j + 1) = some (a, sI)) :
    ys[j]? = some a := by
  have hb := hp.t.born j a sI hf
  rw [hp.outerData] at hb
  exact prefix_getElem? (recv_prefix_all F.hO.head.spec sO hp.rO) hb

theorem lens_getD {j : Nat} {a : Int} (h : ys[j]? = some a) : (ys.map (fun a => (g a).length)).getD j 0 = (g a).length := by
  simp [List.getD_eq_getElem?_getD, List.getElem?_map, h]

theorem cndG_of_proj (F : FlatHyp Mo Mi initOf ys g) {s : NSys So Lo Si Li} {sO : Sys So Lo αo Int} {sF : FSys} {fam : Fam Si Li αi}
    (hp : ProjF Mo Mi initOf s sO sF fam) {dem : Demand} (hd : DemOk dem (sinkEvs s.tr)) :
    CndG dem (ys.map (fun a => (g a).length)) sF.tr := by
  refine ⟨cndF_of_proj hp F.PI F.EI hd, fun j => ?_, ?_⟩
  · apply endLenSrc_of_srcEq
    rw [hp.t.ifcI j]
    cases hf : fam (j + 1) with
    | none => trivial
    | some p =>
      obtain ⟨a, sI⟩ := p
      simp only
      rw [lens_getD (born_ys F hp hf)]
      exact endLenSrc_dualJ (j + 1) (endFull_reach (F.hI a) sI (hp.m.inner.rI _ _ _ hf))
  · rw [hp.outerData, List.length_map]
    exact (recv_prefix_all F.hO.head.spec sO hp.rO).length_le

/-- what the demand invariant says of the outer source -/
theorem outer_demOk {s : NSys So Lo Si Li} {sO : Sys So Lo αo Int} {sF : FSys} {fam : Fam Si Li αi}
    (hp : ProjF Mo Mi initOf s sO sF fam) {D : Demand} (h : DemOkSrcJ 0 D (srcEvs sF.tr)) : DemOk D (sinkEvs sO.tr) := by
  apply demOkSrcJ_of_dualJ (j := 0)
  rw [hp.t.ifcO]
  exact demOkSrcJ_srcEq h

/-- … and of an inner source -/
theorem inner_demOk {s : NSys So Lo Si Li} {sO : Sys So Lo αo Int} {sF : FSys} {fam : Fam Si Li αi}
    (hp : ProjF Mo Mi initOf s sO sF fam) {j : Nat} {a : Int} {sI : Sys Si Li αi Int} (hf : fam (j + 1) = some (a, sI))
    {D : Demand} (h : DemOkSrcJ (j + 1) D (srcEvs sF.tr)) : DemOk D (sinkEvs sI.tr) := by
  apply demOkSrcJ_of_dualJ (j := j + 1)
  have := hp.t.ifcI j
  rw [hf] at this
  simp only at this
  rw [← this]
  exact demOkSrcJ_srcEq h

/-- an entry of the list of inner states is the state of an inner source of the family -/
theorem inner_entry {s : NSys So Lo Si Li} {sO : Sys So Lo αo Int} {sF : FSys} {fam : Fam Si Li αi}
    (hp : ProjF Mo Mi initOf s sO sF fam) (hkeys : keysOk s.st) {p : Nat × Si} (hp' : p ∈ s.st.inners) :
    ∃ j a sI, p.1 = j + 1 ∧ fam (j + 1) = some (a, sI) ∧ p.2 = sI.st := by
  have hfind : s.st.innerSt p.1 = some p.2 := by
    unfold FPSt.innerSt; rw [find_of_nodup _ p hkeys hp']; rfl
  have hst := hp.m.inner.stI p.1
  rw [hfind] at hst
  cases hf : fam p.1 with
  | none => rw [hf] at hst; cases hst
  | some x =>
    obtain ⟨a, sI⟩ := x
    rw [hf] at hst
    have hsI : p.2 = sI.st := by simpa using hst
    have hpos : p.1 ≠ 0 := fun h0 => by rw [h0, hp.m.inner.fam0] at hf; cases hf
    obtain ⟨j, hj⟩ : ∃ j, p.1 = j + 1 := ⟨p.1 - 1, by omega⟩
    exact ⟨j, a, sI, hj, hj ▸ hf, hsI⟩

/-- **the upper bound** -/
theorem flat_headUp (F : FlatHyp Mo Mi initOf ys g) {nxO : So → Nat} {nxI : Si → Nat} {oc : Demand → Nat} {ci : Int → Demand → Nat}
    (uO : HeadUp Mo nxO oc) (uI : ∀ a, HeadUp (atInit Mi (initOf a)) nxI (ci a)) :
    HeadUp (flatPlug Mo Mi initOf) (fun st => nxO st.outer + (st.inners.map (fun p => nxI p.2)).sum) (flatC oc ci g ys) := by
  intro dem s hs hd
  obtain ⟨sO, sF, fam, hp⟩ := F.proj s hs
  have hkg := KG_reach dem _ sF hp.rF (cndG_of_proj F hp hd)
  have h1 : nxO s.st.outer ≤ oc (needO dem (ys.map (fun a => (g a).length))) := by
    rw [hp.m.outer.stO]
    exact uO _ sO hp.rO (outer_demOk hp hkg.tg.dmO)
  have hkeys := flatPlug_keysOk Mo Mi initOf s hs
  have hent : ∀ p ∈ s.st.inners, (1 ≤ p.1 ∧ p.1 ≤ ys.length) ∧ nxI p.2 ≤ (innerTerms ci g ys dem).getD (p.1 - 1) 0 := by
    intro p hp'
    obtain ⟨j, a, sI, hj, hf, hsI⟩ := inner_entry hp hkeys hp'
    have hy := born_ys F hp hf
    have hjl : j < ys.length := by
      rcases Nat.lt_or_ge j ys.length with h | h
      · exact h
      · rw [List.getElem?_eq_none h] at hy; cases hy
    refine ⟨by omega, ?_⟩
    rw [hj, Nat.add_sub_cancel, innerTerms_getD ci g ys dem j a hy, hsI]
    exact uI a _ sI (hp.m.inner.rI _ _ _ hf) (inner_demOk hp hf (hkg.tg.dmI j))
  have h2 := sum_le_keysB nxI (innerTerms ci g ys dem) ys.length s.st.inners hkeys (fun p hp' => (hent p hp').1) (fun p hp' => (hent p hp').2)
  have h3 : pre (innerTerms ci g ys dem) ys.length = (innerTerms ci g ys dem).sum := by
    unfold pre; rw [← innerTerms_length ci g ys dem, List.take_length]
  show nxO s.st.outer + _ ≤ oc _ + _
  omega

/-- **`flatten(map(g)(outer))` ends only when pulled**, if the outer source does -/
theorem flat_endOnPull (F : FlatHyp Mo Mi initOf ys g) (EO : EndOnPull Mo) : EndOnPull (flatPlug Mo Mi initOf) := by
  intro s hs
  obtain ⟨sO, sF, fam, hp⟩ := F.proj s hs
  have hkg := KG_reach none _ sF hp.rF (cndG_of_proj F hp (demOk_none _))
  rw [hp.t.sink]
  apply hkg.tg.eok
  apply eOkSrc_of_srcEq
  rw [← hp.t.ifcO]
  exact eOkSrc_dualJ 0 _ (EO sO hp.rO)

/-- an inner source of the family has an entry in the list of inner states -/
theorem entry_of_fam {s : NSys So Lo Si Li} {sO : Sys So Lo αo Int} {sF : FSys} {fam : Fam Si Li αi}
    (hp : ProjF Mo Mi initOf s sO sF fam) {j : Nat} {a : Int} {sI : Sys Si Li αi Int} (hf : fam (j + 1) = some (a, sI)) :
    ∃ p ∈ s.st.inners, p.1 = j + 1 ∧ p.2 = sI.st := by
  have hst := hp.m.inner.stI (j + 1)
  rw [hf] at hst
  simp only [Option.map_some, FPSt.innerSt, Option.map_eq_some_iff] at hst
  obtain ⟨q, hq, hq2⟩ := hst
  exact ⟨q, List.mem_of_find?_eq_some hq, by simpa using List.find?_some hq, hq2⟩

/-- **the lower bound**, at top level -/
theorem flat_headLow (F : FlatHyp Mo Mi initOf ys g) {nxO : So → Nat} {nxI : Si → Nat} {oc : Demand → Nat} {ci : Int → Demand → Nat}
    (lO : HeadLow Mo nxO oc) (lI : ∀ a, HeadLow (atInit Mi (initOf a)) nxI (ci a))
    (monoO : ∀ d1 d2, Dle d1 d2 → oc d1 ≤ oc d2) (monoI : ∀ a d1 d2, Dle d1 d2 → ci a d1 ≤ ci a d2) (zeroI : ∀ a, ci a (some 0) = 0) :
    HeadLow (flatPlug Mo Mi initOf) (fun st => nxO st.outer + (st.inners.map (fun p => nxI p.2)).sum) (flatC oc ci g ys) := by
  intro s hs hstk
  obtain ⟨sO, sF, fam, hp⟩ := F.proj s hs
  obtain ⟨hkO, hkF, hkI⟩ := hp.top hstk
  have htF : EnvTurn sF := ⟨hp.m.core.pF, by simp [hkF, ctxOf]⟩
  obtain ⟨_, _, _, hidle, _, _⟩ := inv_turn' hp.rF htF
  have hkg := KG_reach none _ sF hp.rF (cndG_of_proj F hp (demOk_none _))
  obtain ⟨hk, _, _⟩ := E1_reach sF hp.rF hp.c
  have h2 := E2_reach sF hp.rF hp.c
  obtain ⟨m, hm, hd⟩ := h2.data
  have hcnt := h2.cnt
  rw [hkF] at hd hcnt
  simp only [pendD, List.append_nil] at hd
  simp only [odc, Nat.add_zero] at hcnt
  have hmO : m = (recvData 0 sO.tr).length := by rw [← hp.outerData, ← sentData_eq]; omega
  -- the inner source `j + 1`, if it exists, is at an environment turn and has delivered a prefix of its list
  have hturnI : ∀ j a sI, fam (j + 1) = some (a, sI) → EnvTurn sI :=
    fun j a sI hf => ⟨hp.m.inner.pI _ _ _ hf, by simp [hkI _ _ _ hf, ctxOf]⟩
  have hle : ∀ i, 1 ≤ i → i ≤ m → (sentData i sF.tr).length ≤ (ys.map (fun a => (g a).length)).getD (i - 1) 0 := by
    intro i h1 _
    obtain ⟨j, rfl⟩ : ∃ j, i = j + 1 := ⟨i - 1, by omega⟩
    rw [hp.innerData j, Nat.add_sub_cancel]
    cases hf : fam (j + 1) with
    | none => simp
    | some p =>
      obtain ⟨a, sI⟩ := p
      simp only
      rw [lens_getD (born_ys F hp hf)]
      exact ((F.hI a).head.spec sI (hp.m.inner.rI _ _ _ hf) (hturnI j a sI hf)).length_le
  have hkle : (recvData 0 s.tr).length ≤ pre (ys.map (fun a => (g a).length)) m := by
    rw [hp.recv, hd]; exact catTo_len_le m hle
  have hfull := hkg.full
  have hbefore : ∀ j, j + 2 ≤ sF.st.nextId → (catTo (fun i => sentData i sF.tr) j).length = pre (ys.map (fun a => (g a).length)) j :=
    fun j hj => sent_before hk hfull j hj
  rw [show (fun st : FPSt So Si => nxO st.outer + (st.inners.map (fun p => nxI p.2)).sum) s.st =
    nxO s.st.outer + (s.st.inners.map (fun p => nxI p.2)).sum from rfl]
  refine ⟨?_, fun hdone => ?_⟩
  · -- part 1
    have h1 : oc (needO (some (recvData 0 s.tr).length) (ys.map (fun a => (g a).length))) ≤ nxO s.st.outer := by
      rw [hp.m.outer.stO]
      refine Nat.le_trans (monoO _ _ (needO_le _ _ m hkle)) ?_
      rw [hmO]; exact (lO sO hp.rO hkO).1
    have h3 := le_sum_keysB nxI (innerTerms ci g ys (some (recvData 0 s.tr).length)) ys.length s.st.inners (fun j' hj1 hj2 => by
      obtain ⟨j, rfl⟩ : ∃ j, j' = j + 1 := ⟨j' - 1, by omega⟩
      rw [Nat.add_sub_cancel]
      have hjl : j < ys.length := by omega
      have hy : ys[j]? = some ys[j] := List.getElem?_eq_getElem hjl
      rw [innerTerms_getD ci g ys _ j _ hy]
      cases hf : fam (j + 1) with
      | none =>
        left
        have hjm : m ≤ j + 1 := by
          apply Classical.byContradiction; intro hn
          obtain ⟨a, sI, hf', _⟩ := hp.innerEnded j (hk.ended (j + 1) (by omega) (by omega))
          rw [hf] at hf'; cases hf'
        have hkj : (recvData 0 s.tr).length ≤ pre (ys.map (fun a => (g a).length)) j := by
          rcases Nat.eq_or_lt_of_le hjm with he | hlt
          · have hz : sentData (j + 1) sF.tr = [] := by rw [hp.innerData j, hf]
            rw [hp.recv, hd, he, catTo, hz, List.append_nil, hbefore j (by omega)]
            exact Nat.le_refl _
          · exact Nat.le_trans hkle (pre_mono _ (by omega))
        have : dsub (some (recvData 0 s.tr).length) (pre (ys.map (fun a => (g a).length)) j) = some 0 := by
          simp only [dsub]; congr 1; omega
        rw [this]; exact zeroI _
      | some x =>
        obtain ⟨a, sI⟩ := x
        right
        have hya := born_ys F hp hf
        have hae : ys[j] = a := by rw [hy] at hya; exact Option.some.inj hya
        rw [hae]
        obtain ⟨p, hpm, hp1, hp2⟩ := entry_of_fam hp hf
        refine ⟨p, hpm, hp1, ?_⟩
        rw [hp2]
        obtain ⟨l1, l2⟩ := lI a sI (hp.m.inner.rI _ _ _ hf) (hkI _ _ _ hf)
        have hifc := hp.m.inner.ifcI j
        rw [hf] at hifc
        simp only at hifc
        by_cases he : sF.g.ph.srcPh (j + 1) = .ended
        · exact Nat.le_trans (monoI a _ _ (Dle.to_none _)) (l2 (toSrc_ended.1 (hifc ▸ he)))
        · have hjm : m ≤ j + 1 := by
            apply Classical.byContradiction; intro hn
            exact he (hk.ended (j + 1) (by omega) (by omega))
          have hjn : j + 1 < sF.st.nextId := by
            apply Classical.byContradiction; intro hn
            have := hidle (j + 1) (by omega)
            rw [hifc] at this
            exact hp.m.inner.alive _ _ _ hf (toSrc_idle.1 this)
          have hjm' : j + 1 = m := by omega
          have hsent : sentData (j + 1) sF.tr = recvData 0 sI.tr := by rw [hp.innerData j, hf]
          have hk' : (recvData 0 s.tr).length = pre (ys.map (fun a => (g a).length)) j + (recvData 0 sI.tr).length := by
            rw [hp.recv, hd, ← hjm', catTo, List.length_append, hbefore j (by omega), hsent]
          have : dsub (some (recvData 0 s.tr).length) (pre (ys.map (fun a => (g a).length)) j) = some (recvData 0 sI.tr).length := by
            simp only [dsub, hk']; congr 1; omega
          rw [this]; exact l1)
    have h4 : pre (innerTerms ci g ys (some (recvData 0 s.tr).length)) ys.length = (innerTerms ci g ys (some (recvData 0 s.tr).length)).sum := by
      unfold pre; rw [← innerTerms_length ci g ys (some (recvData 0 s.tr).length), List.take_length]
    show oc _ + _ ≤ _
    omega
  · -- part 2: everything has ended
    have hdF : sF.g.ph.sinkPh 0 = .doneBySrc := by rw [← hp.m.core.sink 0]; exact hdone
    obtain ⟨h0, hall⟩ := hk.tc hdF
    have hdO : sO.g.ph.sinkPh 0 = .doneBySrc := toSrc_ended.1 (by rw [← hp.m.outer.ifcO]; exact h0)
    have htO : EnvTurn sO := ⟨hp.m.outer.pO, by simp [hkO, ctxOf]⟩
    have hmy : m = ys.length := by rw [hmO, F.hO.doneT sO hp.rO htO hdO]
    have h1 : oc (needO none (ys.map (fun a => (g a).length))) ≤ nxO s.st.outer := by
      rw [needO_none, hp.m.outer.stO]; exact (lO sO hp.rO hkO).2 hdO
    have h3 := le_sum_keysB nxI (innerTerms ci g ys none) ys.length s.st.inners (fun j' hj1 hj2 => by
      obtain ⟨j, rfl⟩ : ∃ j, j' = j + 1 := ⟨j' - 1, by omega⟩
      rw [Nat.add_sub_cancel]
      right
      obtain ⟨a, sI, hf, hdI⟩ := hp.innerEnded j (hall (j + 1) (by omega) (by omega))
      obtain ⟨p, hpm, hp1, hp2⟩ := entry_of_fam hp hf
      refine ⟨p, hpm, hp1, ?_⟩
      rw [innerTerms_getD ci g ys none j a (born_ys F hp hf), hp2]
      exact (lI a sI (hp.m.inner.rI _ _ _ hf) (hkI _ _ _ hf)).2 hdI)
    have h4 : pre (innerTerms ci g ys none) ys.length = (innerTerms ci g ys none).sum := by
      unfold pre; rw [← innerTerms_length ci g ys none, List.take_length]
    show oc _ + _ ≤ _
    omega

end Network

/-! ## the closed form is `flatCost` of `Inv/Pipeline.lean` -/

def shiftD (s : Nat) : Demand → Demand
  | none => none
  | some x => some (x + s)

theorem innerTerms_zero (ci : Int → Demand → Nat) (g : Int → List Int) (hz : ∀ a, ci a (some 0) = 0) :
    ∀ ys : List Int, (innerTerms ci g ys (some 0)).sum = 0
  | [] => rfl
  | a :: rest => by
    have : dsub (some 0) (g a).length = some 0 := by simp [dsub]
    simp [innerTerms, hz, this, innerTerms_zero ci g hz rest]

theorem flatCost_eq (semG : Int → Demand → List Int × Nat) (oc : Demand → Nat) (g : Int → List Int)
    (hlen : ∀ a d, (semG a (some d)).1.length = min d (g a).length) (hz : ∀ a, (semG a (some 0)).2 = 0) :
    ∀ (rest : List Int) (dem : Demand) (s : Nat),
      flatCost semG oc rest dem s =
        oc (shiftD s (needO dem (rest.map (fun a => (g a).length)))) + (innerTerms (fun a d => (semG a d).2) g rest dem).sum
  | rest, some 0, s => by
    rw [needO_zero, innerTerms_zero _ g hz]
    cases rest <;> simp [flatCost, shiftD]
  | [], none, s => by simp [flatCost, needO, shiftD, innerTerms]
  | [], some (d + 1), s => by simp [flatCost, needO, shiftD, innerTerms]
  | a :: rest, none, s => by
    have ih := flatCost_eq semG oc g hlen hz rest none (s + 1)
    simp only [flatCost, ih, needO_none, shiftD, innerTerms, dsub, List.sum_cons]
    omega
  | a :: rest, some (d + 1), s => by
    simp only [flatCost, hlen, List.map_cons, needO, innerTerms, List.sum_cons]
    by_cases hc : d + 1 ≤ (g a).length
    · have h1 : d + 1 ≤ min (d + 1) (g a).length := by omega
      have h2 : dsub (some (d + 1)) (g a).length = some 0 := by simp only [dsub]; congr 1; omega
      rw [if_pos h1, if_pos hc, h2, innerTerms_zero _ g hz]
      simp only [shiftD]
      have : 1 + s = s + 1 := by omega
      rw [this]; omega
    · have h1 : ¬ (d + 1 ≤ min (d + 1) (g a).length) := by omega
      have h2 : min (d + 1) (g a).length = (g a).length := by omega
      rw [if_neg h1, if_neg hc, h2, flatCost_eq semG oc g hlen hz rest (some (d + 1 - (g a).length)) (s + 1)]
      have h3 : dsub (some (d + 1)) (g a).length = some (d + 1 - (g a).length) := rfl
      rw [h3]
      cases hn : needO (some (d + 1 - (g a).length)) (rest.map (fun a => (g a).length)) with
      | none => simp [shiftD]; omega
      | some x =>
        simp only [Option.map_some, shiftD]
        have : x + 1 + s = x + (s + 1) := by omega
        rw [this]; omega

theorem flatC_eq_flatCost (semG : Int → Demand → List Int × Nat) (oc : Demand → Nat) (g : Int → List Int)
    (hlen : ∀ a d, (semG a (some d)).1.length = min d (g a).length) (hz : ∀ a, (semG a (some 0)).2 = 0) (ys : List Int) (dem : Demand) :
    flatC oc (fun a d => (semG a d).2) g ys dem = flatCost semG oc ys dem 0 := by
  rw [flatCost_eq semG oc g hlen hz ys dem 0]
  unfold flatC
  cases needO dem (ys.map (fun a => (g a).length)) <;> simp [shiftD]

end FlatDemand
end Cb

#print axioms Cb.FlatDemand.KG_reach
#print axioms Cb.FlatDemand.flat_headUp
#print axioms Cb.FlatDemand.flat_headLow
#print axioms Cb.FlatDemand.flat_endOnPull
#print axioms Cb.FlatDemand.flatC_eq_flatCost
