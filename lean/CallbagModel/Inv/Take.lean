import CallbagModel.Inv.Ghost
import CallbagModel.Ops.Take
/-!
# take: the phase-level safety invariant

Stated at environment turns only.  The one continuation that carries an assumption is `d3 max` ("the n-th item has
just been delivered; now complete"): while it waits only the sink has control, its Pulls are not forwarded because
`taken = max`, so the source cannot end underneath it — which is why the sink is never terminated twice.
-/
namespace Cb.Take
open Cb

variable {α : Type}

/-- continuations that may sit below the top of the stack -/
def Benign (taken : Nat) : Frame (Loc α) α → Prop
  | .wait _ .done => True
  | .wait _ (.d3 t) => 0 < t ∧ t ≤ taken
  | _ => False

inductive Mode (max : Nat) (st : St) (g : Ph) (stk : List (Frame (Loc α) α)) : Prop where
  | m1 : g.sinkPh 0 = .idle → g.srcPh 0 = .idle → stk = [] → st.tb = false → st.taken = 0 → st.fin = false → Mode max st g stk
  | m2 : g.sinkPh 0 = .subscribed → g.srcPh 0 = .subscribed → st.tb = false → st.taken = 0 → st.fin = false →
         stk = [.wait (.subSrc 0) .done] → Mode max st g stk
  | m3 : g.sinkPh 0 = .live → g.srcPh 0 = .live → st.tb = true → st.fin = false →
         (0 < st.taken → st.taken = max → ∃ a rest, stk = .wait (.down 0 (.data a)) (.d3 max) :: rest) →
         (∀ f ∈ stk, Benign st.taken f) → Mode max st g stk
  | m4 : g.sinkPh 0 = .doneBySelf → g.srcPh 0 = .disposed → st.fin = true →
         (∀ f ∈ stk, Benign st.taken f) → Mode max st g stk
  | m5 : g.sinkPh 0 = .doneBySrc → g.srcPh 0 = .ended → ¬ (0 < st.taken ∧ st.taken = max) →
         (∀ f ∈ stk, Benign st.taken f) → Mode max st g stk
  | m6 : g.sinkPh 0 = .live → g.srcPh 0 = .disposed → st.fin = true → st.tb = true →
         (∃ rest, stk = .wait (.srcUp 0 .term) .d6 :: rest ∧ ∀ f ∈ rest, Benign st.taken f) → Mode max st g stk
  | m7 : g.sinkPh 0 = .doneBySrc → g.srcPh 0 = .disposed → st.fin = true →
         (∀ f ∈ stk, Benign st.taken f) → Mode max st g stk

def Inv (max : Nat) (s : Sys St (Loc α) α α) : Prop :=
  s.panicked = none ∧ s.g.ph.viols = [] ∧ s.st.taken ≤ max ∧
  (∀ i, i ≠ 0 → s.g.ph.srcPh i = .idle) ∧ (∀ k, k ≠ 0 → s.g.ph.sinkPh k = .idle) ∧
  Mode max s.st s.g.ph s.stack

theorem ctx_isSome_of_benign {taken : Nat} {stk : List (Frame (Loc α) α)}
    (h : ∀ f ∈ stk, Benign taken f) : (ctxOf stk).isSome := by
  cases stk with
  | nil => simp [ctxOf]
  | cons f r =>
    have := h f (by simp)
    cases f with
    | run l => simp [Benign] at this
    | wait o l => simp [ctxOf]

theorem inv_turn (max : Nat) (s : Sys St (Loc α) α α) (h : Inv max s) : EnvTurn s ∧ BasicSafe s := by
  obtain ⟨hp, hb, _, _, _, hm⟩ := h
  refine ⟨⟨hp, ?_⟩, hb, hp⟩
  cases hm with
  | m1 _ _ h => simp [h, ctxOf]
  | m2 _ _ _ _ _ h => simp [h, ctxOf]
  | m3 _ _ _ _ _ h => exact ctx_isSome_of_benign h
  | m4 _ _ _ h => exact ctx_isSome_of_benign h
  | m5 _ _ _ h => exact ctx_isSome_of_benign h
  | m6 _ _ _ _ h => obtain ⟨r, h, _⟩ := h; simp [h, ctxOf]
  | m7 _ _ _ h => exact ctx_isSome_of_benign h

theorem benign_mono {t t' : Nat} {f : Frame (Loc α) α} (h : Benign t f) (hle : t ≤ t') : Benign t' f := by
  cases f with
  | run l => exact h
  | wait o l => cases l <;> simp_all [Benign] <;> omega

macro "exec" n:num : tactic =>
  `(tactic| (refine ⟨$n, ?_⟩; simp [advance, opStep, machine, enter, step, Ph.onIn, Ph.onOut, Inv, isFinal, *]))

theorem inv_step (max : Nat) (s s' : Sys St (Loc α) α α) (m : Move α) (h : Inv max s) (hs : EnvStep (machine α max) m s s') :
    ∃ n, Inv max (advance (machine α max) n s') := by
  obtain ⟨hp, hb, hle, hoth, hoths, hm⟩ := h
  cases hs with
  | @call st stk g tr c i hc hl =>
    simp only at hp hb hle hoth hoths hm
    cases i with
    | subscribe k =>
      simp only [legalIn, Bool.and_eq_true, beq_iff_eq, machine, Bool.or_false] at hl
      obtain ⟨⟨hc', hidle⟩, rfl⟩ := hl
      cases hm <;> simp_all
      have hopen : (g.ph.setSink 0 .subscribed).anySinkOpen = true := (Ph.anySinkOpen_iff _).2 ⟨0, by simp⟩
      exec 2
      refine ⟨fun i hi => by simp [hi, hoth i hi], fun k hk => by simp [hk, hoths k hk], Mode.m2 (by simp) (by simp) ‹_› ‹_› ‹_› rfl⟩
    | sinkUp k u =>
      simp only [legalIn, Bool.and_eq_true, beq_iff_eq, Bool.or_eq_true] at hl
      obtain ⟨hlive, hctx⟩ := hl
      have hk : k = 0 := by
        by_cases hk : k = 0
        · exact hk
        · rw [hoths k hk] at hlive; cases hlive
      subst hk
      cases hm with
      | m3 h1 h2 h3 h4 h5 h6 =>
        cases u with
        | pull =>
          by_cases hlt : st.taken < max
          · exec 3
            refine ⟨hoth, hoths, Mode.m3 h1 h2 h3 h4 (by omega) ?_⟩
            exact List.forall_mem_cons.2 ⟨by simp [Benign], h6⟩
          · exec 1
            exact ⟨hoth, hoths, Mode.m3 h1 h2 h3 h4 h5 h6⟩
        | term =>
          exec 3
          refine ⟨fun i hi => by simp [hi, hoth i hi], fun k hk => by simp [hk, hoths k hk], Mode.m4 (by simp) (by simp) rfl ?_⟩
          exact List.forall_mem_cons.2 ⟨by simp [Benign], h6⟩
        | err e =>
          exec 3
          refine ⟨fun i hi => by simp [hi, hoth i hi], fun k hk => by simp [hk, hoths k hk], Mode.m4 (by simp) (by simp) rfl ?_⟩
          exact List.forall_mem_cons.2 ⟨by simp [Benign], h6⟩
      | m6 h1 h2 h3 h4 h5 =>
        obtain ⟨rest, rfl, _⟩ := h5
        simp [ctxOf] at hc; subst hc; simp [isTop, inGreet, inData] at hctx
      | _ => simp_all
    | srcGreet i =>
      simp only [legalIn, Bool.and_eq_true, beq_iff_eq, Bool.or_eq_true, machine, Bool.false_and, Bool.or_false] at hl
      obtain ⟨hsub, hin⟩ := hl
      by_cases hi : i = 0
      · subst hi
        cases hm with
        | m2 h1 h2 h3 h4 h4' h5 =>
          subst h5
          exec 2
          refine ⟨fun i hi => by simp [hi, hoth i hi], fun k hk => by simp [hk, hoths k hk],
            Mode.m3 (by simp) (by simp) rfl (by simp [h4']) (by simp [h4]) ?_⟩
          simp [Benign]
        | _ => simp_all
      · simp [hoth i hi] at hsub
    | srcDown i d =>
      simp only [legalIn, Bool.and_eq_true, beq_iff_eq, Bool.or_eq_true] at hl
      obtain ⟨hlive, hctx⟩ := hl
      by_cases hi : i = 0
      · subst hi
        cases hm with
        | m3 h1 h2 h3 h4 h5 h6 =>
          have hnotF : ¬ (0 < st.taken ∧ st.taken = max) := by
            rintro ⟨ha, hb⟩
            obtain ⟨a, rest, rfl⟩ := h5 ha hb
            simp [ctxOf] at hc; subst hc; simp [isTop, inSub, inPull] at hctx
          cases d with
          | data a =>
            by_cases hlt : st.taken < max
            · exec 2
              refine ⟨by omega, hoth, hoths, Mode.m3 h1 h2 rfl rfl ?_ ?_⟩
              · intro _ he; exact ⟨a, stk, by rw [← he]⟩
              · exact List.forall_mem_cons.2 ⟨by simp [Benign], fun f hf => benign_mono (h6 f hf) (by simp)⟩
            · exec 1
              exact ⟨hoth, hoths, Mode.m3 h1 h2 h3 h4 h5 h6⟩
          | term =>
            exec 1
            refine ⟨fun i hi => by simp [hi, hoth i hi], fun k hk => by simp [hk, hoths k hk], Mode.m5 (by simp) (by simp) hnotF ?_⟩
            exact List.forall_mem_cons.2 ⟨by simp [Benign], h6⟩
          | err e =>
            exec 1
            refine ⟨fun i hi => by simp [hi, hoth i hi], fun k hk => by simp [hk, hoths k hk], Mode.m5 (by simp) (by simp) hnotF ?_⟩
            exact List.forall_mem_cons.2 ⟨by simp [Benign], h6⟩
        | _ => simp_all
      · simp [hoth i hi] at hlive
  | @ret st stk g tr o l hl =>
    simp only at hp hb hle hoth hoths hm
    -- generic: resuming a benign continuation in a mode where `fin` holds or `d3 max` is impossible
    have resume_quiet : ∀ (_ : Benign st.taken (Frame.wait o l : Frame (Loc α) α))
        (_ : st.fin = true ∨ ¬ (0 < st.taken ∧ st.taken = max)),
        ∃ n g' tr', (advance (machine α max) n ⟨st, .run l :: stk, g, .retE :: tr, none⟩) = ⟨st, stk, g', tr', none⟩ ∧ g'.ph = g.ph := by
      intro hben hq
      cases l with
      | done => exact ⟨1, g.onRetO stk.length, .retO :: .retE :: tr, by simp [advance, opStep, machine, step], by simp⟩
      | d3 t =>
        simp [Benign] at hben
        by_cases ht : t = max
        · rcases hq with hq | hq
          · exact ⟨2, g.onRetO stk.length, .retO :: .retE :: tr, by simp [advance, opStep, machine, step, ht, hq], by simp⟩
          · exact absurd ⟨by omega, by omega⟩ hq
        · exact ⟨1, g.onRetO stk.length, .retO :: .retE :: tr, by simp [advance, opStep, machine, step, ht], by simp⟩
      | _ => simp [Benign] at hben
    cases hm with
    | m1 _ _ h => simp at h
    | m2 h1 h2 h3 h4 h4' h5 =>
      simp at h5; obtain ⟨⟨rfl, rfl⟩, rfl⟩ := h5
      simp [legalRet, h2, machine] at hl
    | m3 h1 h2 h3 h4 h5 h6 =>
      have hben := h6 _ (List.mem_cons_self)
      have hrest := (List.forall_mem_cons.1 h6).2
      cases l with
      | done =>
        exec 1
        refine ⟨hoth, hoths, Mode.m3 h1 h2 h3 h4 ?_ hrest⟩
        intro ha hb; obtain ⟨a, rest, he⟩ := h5 ha hb; simp at he
      | d3 t =>
        simp [Benign] at hben
        by_cases ht : t = max
        · subst ht
          exec 5
          exact ⟨fun i hi => by simp [hi, hoth i hi], hoths, Mode.m6 (by simp [h1]) (by simp) rfl rfl ⟨stk, rfl, hrest⟩⟩
        · exec 1
          refine ⟨hoth, hoths, Mode.m3 h1 h2 h3 h4 ?_ hrest⟩
          intro ha hb; obtain ⟨a, rest, he⟩ := h5 ha hb; simp at he; exact absurd he.1.2 ht
      | _ => simp [Benign] at hben
    | m4 h1 h2 h3 h6 =>
      obtain ⟨n, g', tr', hn, hg⟩ := resume_quiet (h6 _ (List.mem_cons_self)) (Or.inl h3)
      exact ⟨n, by rw [hn]; exact ⟨rfl, by simp [hg, hb], hle, by simpa [hg] using hoth, by simpa [hg] using hoths,
        by simp only [hg]; exact Mode.m4 h1 h2 h3 (List.forall_mem_cons.1 h6).2⟩⟩
    | m5 h1 h2 h3 h6 =>
      obtain ⟨n, g', tr', hn, hg⟩ := resume_quiet (h6 _ (List.mem_cons_self)) (Or.inr h3)
      exact ⟨n, by rw [hn]; exact ⟨rfl, by simp [hg, hb], hle, by simpa [hg] using hoth, by simpa [hg] using hoths,
        by simp only [hg]; exact Mode.m5 h1 h2 h3 (List.forall_mem_cons.1 h6).2⟩⟩
    | m6 h1 h2 h3 h4 h5 =>
      obtain ⟨rest, he, hrest⟩ := h5
      simp at he; obtain ⟨⟨rfl, rfl⟩, rfl⟩ := he
      exec 1
      exact ⟨hoth, fun k hk => by simp [hk, hoths k hk], Mode.m7 (by simp) h2 h3 (List.forall_mem_cons.2 ⟨by simp [Benign], hrest⟩)⟩
    | m7 h1 h2 h3 h6 =>
      obtain ⟨n, g', tr', hn, hg⟩ := resume_quiet (h6 _ (List.mem_cons_self)) (Or.inl h3)
      exact ⟨n, by rw [hn]; exact ⟨rfl, by simp [hg, hb], hle, by simpa [hg] using hoth, by simpa [hg] using hoths,
        by simp only [hg]; exact Mode.m7 h1 h2 h3 (List.forall_mem_cons.1 h6).2⟩⟩

theorem inv_init (max : Nat) : Inv max (Sys.init (machine α max)) :=
  ⟨rfl, rfl, Nat.zero_le _, fun _ _ => by simp [Sys.init], fun _ _ => by simp [Sys.init],
    Mode.m1 (by simp [Sys.init]) (by simp [Sys.init]) rfl rfl rfl rfl⟩

/-- take: under every conformant environment (re-entrant sink, synchronous or deferred source), the operator never
violates the sink- or source-side protocol and never panics. -/
theorem take_basicSafe (max : Nat) : ∀ s, SReach (machine α max) s → BasicSafe s :=
  basicSafe_of_macro_inv (machine α max) (Inv max) (inv_init max) (inv_turn max) (inv_step max)

end Cb.Take
