import CallbagModel.Inv.Ghost2
import CallbagModel.Inv.Merge
/-!
# merge: the FULL safety invariant (both ghost layers: C01–C05, C17)

`Mode`, `Stable`, `Stk`, `Base`, `Facts` and the loop lemmas are those of `Inv/Merge.lean`; the case analysis and the step
counts are exactly those of `Merge.inv_step`.  New: a clause `Ext s.g s.stack` about the second ghost layer, selected by the
shape of the top frame of the stack:

* stable modes (`init`, `opn`, `compl`, `closed`, including open Pull-broadcast frames): `XS g` = `XOk g ∧ g.sinkErr = none`;
* `uloop j u` with `u = Terminate/Error` (the sink's own end is being broadcast): the sink has disposed and the members
  after `j` are still live, so `NoOrphan` is false — the mode carries `XU`: nothing recorded, nothing pending, and
  `sinkErr` is exactly what the `sinkUp` call recorded (`some (e, height)` for `Error e`, `none` for `Terminate`); `XOk` is
  re-established by the handler's final return (which also clears `sinkErr`: the recorded height is the height after the
  return);
* `eloop i j e` (member `i` failed, its siblings are being disposed): the pending check of C05 is not satisfiable yet — the
  mode carries `XE`: nothing recorded, `pend = some (e, _, ks)` with `∅ ≠ ks ⊆ {0}`, `sinkErr = none`; `XOk` is re-established
  by the macro-step that ends with `down 0 (err e)`.
-/
namespace Cb.MergeFull
open Cb Cb.Merge

variable {α : Type}

/-! ### the second layer, per kind of mode -/

structure XS (g : G) : Prop where
  xok : XOk g
  se : g.sinkErr = none

structure XU (g : G) (se : Option (Nat × Nat)) : Prop where
  clean : g.xviols = []
  pend : g.pend = none
  se : g.sinkErr = se

structure XE (g : G) (e : Nat) : Prop where
  clean : g.xviols = []
  pend : ∃ h ks, g.pend = some (e, h, ks) ∧ ks ≠ [] ∧ ∀ k ∈ ks, k = 0
  se : g.sinkErr = none

/-- the second layer is untouched -/
structure Same2 (g g' : G) : Prop where
  fin : g'.fin = g.fin
  se : g'.sinkErr = g.sinkErr
  pend : g'.pend = g.pend
  xv : g'.xviols = g.xviols

theorem Same2.refl (g : G) : Same2 g g := ⟨rfl, rfl, rfl, rfl⟩

theorem Same2.trans {a b c : G} (h1 : Same2 a b) (h2 : Same2 b c) : Same2 a c :=
  ⟨h2.fin.trans h1.fin, h2.se.trans h1.se, h2.pend.trans h1.pend, h2.xv.trans h1.xv⟩

theorem same2_of_eq {g g' : G} {p : Ph} (h : g' = { g with ph := p }) : Same2 g g' := by
  subst h; exact ⟨rfl, rfl, rfl, rfl⟩

theorem same2_onIn_subscribe (g : G) (h k : Nat) : Same2 g (g.onIn h (.subscribe k : In α)) := ⟨rfl, rfl, rfl, rfl⟩
theorem same2_onIn_srcGreet (g : G) (h i : Nat) : Same2 g (g.onIn h (.srcGreet i : In α)) := ⟨rfl, rfl, rfl, rfl⟩
theorem same2_onIn_pull (g : G) (h k : Nat) : Same2 g (g.onIn h (.sinkUp k .pull : In α)) := ⟨rfl, rfl, rfl, rfl⟩
theorem same2_onIn_data (g : G) (h i : Nat) (a : α) : Same2 g (g.onIn h (.srcDown i (.data a) : In α)) := ⟨rfl, rfl, rfl, rfl⟩
theorem same2_onIn_srcTerm (g : G) (h i : Nat) : Same2 g (g.onIn h (.srcDown i .term : In α)) := ⟨rfl, rfl, rfl, rfl⟩

theorem same2_onOut_greet (sh : Shape) (g : G) (k : Nat) : Same2 g (g.onOut sh (.greet k : Out α)) := ⟨rfl, rfl, rfl, rfl⟩
theorem same2_onOut_subSrc (sh : Shape) (g : G) (i : Nat) : Same2 g (g.onOut sh (.subSrc i : Out α)) := ⟨rfl, rfl, rfl, rfl⟩
theorem same2_onOut_pull (sh : Shape) (g : G) (i : Nat) : Same2 g (g.onOut sh (.srcUp i .pull : Out α)) := ⟨rfl, rfl, rfl, rfl⟩
theorem same2_onOut_data (sh : Shape) (g : G) (k : Nat) (a : α) : Same2 g (g.onOut sh (.down k (.data a) : Out α)) :=
  same2_of_eq (onOut_data sh g k a)
theorem same2_onOut_term (sh : Shape) (g : G) (i : Nat) (h : g.sinkErr = none) : Same2 g (g.onOut sh (.srcUp i .term : Out α)) :=
  same2_of_eq (onOut_term_quiet sh g i (Or.inl h))

def seOf : Up → Nat → Option (Nat × Nat)
  | .err e, h => some (e, h)
  | _, _ => none

/-- the broadcast of the sink's own end: `Terminate` while no sink error is recorded, `Error e` while exactly `e` is -/
theorem same2_onOut_end (sh : Shape) (g : G) (i : Nat) (u : Up) (hu : isEnd u = true) (h : Nat) (hs : g.sinkErr = seOf u h) :
    Same2 g (g.onOut sh (.srcUp i u : Out α)) := by
  cases u with
  | pull => cases hu
  | term => exact same2_onOut_term sh g i hs
  | err e => exact same2_of_eq (onOut_err_relayed sh g i e h hs)

theorem XS.onRetO {g : G} (hx : XS g) (h : Nat) : XS (g.onRetO h) :=
  ⟨hx.xok.onRetO h, onRetO_sinkErr_none hx.xok hx.se h⟩

theorem XS.transfer_noDone {g g' : G} (hx : XS g) (hs : Same2 g g') (hnd : ∀ k, g.ph.sinkPh k ≠ .doneBySrc)
    (ho : NoOrphan g'.ph) : XS g' :=
  ⟨hx.xok.of_noPend (hx.xok.pend_none_of_noDone hnd) (Or.inl hs.pend) hs.xv ho, hs.se.trans hx.se⟩

theorem XS.transfer_noLive {g g' : G} (hx : XS g) (hs : Same2 g g') (hnl : ∀ i, g'.ph.srcPh i ≠ .live)
    (hd : ∀ k, g.ph.sinkPh k = .doneBySrc → g'.ph.sinkPh k = .doneBySrc) : XS g' :=
  ⟨hx.xok.of_fields hs.fin (Or.inl hs.pend) hs.xv (Or.inr ⟨hnl, hd⟩) (noOrphan_of_noLive hnl), hs.se.trans hx.se⟩

theorem XU.same2 {g g' : G} {se : Option (Nat × Nat)} (hx : XU g se) (hs : Same2 g g') : XU g' se :=
  ⟨hs.xv.trans hx.clean, hs.pend.trans hx.pend, hs.se.trans hx.se⟩

theorem XE.same2 {g g' : G} {e : Nat} (hx : XE g e) (hs : Same2 g g') : XE g' e := by
  obtain ⟨h, ks, hp, hne, hk⟩ := hx.pend
  exact ⟨hs.xv.trans hx.clean, ⟨h, ks, hs.pend.trans hp, hne, hk⟩, hs.se.trans hx.se⟩

theorem onRetO_sinkErr_eq {g : G} (hx : XOk g) (h : Nat) : (g.onRetO h).sinkErr = (g.clearSinkErr h).sinkErr := by
  unfold G.onRetO
  have h1 := hx.clearSinkErr h
  have h2 := h1.checkPend h
  rw [h2.1.checkOrphans h, h2.2.2.1]

/-- the handler of the sink's `Error` returns to exactly the height recorded when it was called -/
theorem clearSinkErr_seOf {g : G} {u : Up} {h : Nat} (hs : g.sinkErr = seOf u h) : (g.clearSinkErr h).sinkErr = none := by
  unfold G.clearSinkErr
  cases u <;> simp [seOf] at hs <;> simp [hs]

/-- the end of the `Terminate`/`Error` broadcast: no member is live any more, the handler returns -/
theorem XU.ret {g : G} {u : Up} {h : Nat} (hx : XU g (seOf u h)) (hnl : ∀ i, g.ph.srcPh i ≠ .live) : XS (g.onRetO h) := by
  have hxok : XOk g := ⟨hx.clean, (by intro e h' ks hp; rw [hx.pend] at hp; cases hp), noOrphan_of_noLive hnl⟩
  exact ⟨hxok.onRetO h, by rw [onRetO_sinkErr_eq hxok, clearSinkErr_seOf hx.se]⟩

/-- the end of the sibling disposal: the error is delivered to the sink -/
theorem XE.out (sh : Shape) {g : G} {e : Nat} (hx : XE g e) (hsink : g.ph.sinkPh 0 = .live) (hnl : ∀ i, g.ph.srcPh i ≠ .live) :
    XS (g.onOut sh (Out.down 0 (.err e) : Out α)) := by
  rw [onOut_downErr, if_pos hsink]
  obtain ⟨h, ks, hp, hne, hk0⟩ := hx.pend
  refine ⟨⟨hx.clean, ?_, noOrphan_of_noLive ?_⟩, hx.se⟩
  · intro e' h' ks' hp'
    have hp'' : g.pend = some (e', h', ks') := hp'
    rw [hp] at hp''
    simp only [Option.some.injEq, Prod.mk.injEq] at hp''
    obtain ⟨rfl, rfl, rfl⟩ := hp''
    refine ⟨hne, ?_, ?_⟩
    · intro k hk
      rw [hk0 k hk]
      simp [Ph.onOut, hsink, isFinal, G.finOf, phAt_setAt]
    · intro i; simpa [Ph.onOut, hsink, isFinal] using hnl i
  · intro i; simpa [Ph.onOut, hsink, isFinal] using hnl i

theorem base_noDone {n : Nat} {g : Ph} (hb : Base n g) (h : g.sinkPh 0 ≠ .doneBySrc) : ∀ k, g.sinkPh k ≠ .doneBySrc := by
  intro k
  by_cases hk : k = 0
  · subst hk; exact h
  · rw [hb.sinks k hk]; decide

theorem openSink_noDone {n : Nat} {st : St} {g : Ph} (ho : OpenSink st g) (hb : Base n g) : ∀ k, g.sinkPh k ≠ .doneBySrc := by
  apply base_noDone hb
  rcases ho with ⟨h, _⟩ | ⟨h, _⟩ <;> (rw [h]; decide)

theorem openSink_noOrphan {st : St} {g : Ph} (ho : OpenSink st g) : NoOrphan g := by
  rcases ho with ⟨h, _⟩ | ⟨h, _⟩
  · exact noOrphan_of_open 0 (Or.inl h)
  · exact noOrphan_of_open 0 (Or.inr h)

theorem stable_noOrphan {n : Nat} {st : St} {g : Ph} (hb : Base n g) (hs : Stable n st g) : NoOrphan g := by
  cases hs with
  | opn _ ho _ _ => exact openSink_noOrphan ho
  | compl _ _ h _ =>
    apply noOrphan_of_noLive
    intro i
    by_cases hi : i < n
    · rw [h i hi]; decide
    · rw [hb.srcs i (by omega)]; decide
  | closed _ _ h => exact noOrphan_of_noLive h

/-- the sink's own `Terminate`/`Error` arrives -/
theorem XS.enter_up {n : Nat} {g : G} (hx : XS g) (hb : Base n g.ph) (hsink : g.ph.sinkPh 0 = .live) (u : Up)
    (hu : isEnd u = true) (h : Nat) : XU (g.onIn h (.sinkUp 0 u : In α)) (seOf u h) := by
  have hpn : g.pend = none := hx.xok.pend_none_of_noDone (base_noDone hb (by rw [hsink]; decide))
  cases u with
  | pull => cases hu
  | term => exact ⟨hx.xok.clean, hpn, hx.se⟩
  | err e => exact ⟨hx.xok.clean, hpn, rfl⟩

/-- a member's `Error` arrives while the sink is live -/
theorem XS.enter_err {n : Nat} {g : G} (hx : XS g) (hb : Base n g.ph) (hsink : g.ph.sinkPh 0 = .live) (i e h : Nat) :
    XE (g.onIn h (.srcDown i (.err e) : In α)) e := by
  have hpn : g.pend = none := hx.xok.pend_none_of_noDone (base_noDone hb (by rw [hsink]; decide))
  have hlv : (livesOf g.ph).isEmpty = false := by
    cases hl : livesOf g.ph with
    | nil => exact absurd hl (livesOf_ne_nil 0 hsink)
    | cons _ _ => rfl
  rw [onIn_srcErr]
  simp only [hlv, hpn, Option.isSome_none, Bool.or_self, Bool.false_eq_true, ↓reduceIte]
  refine ⟨hx.xok.clean, ⟨h, livesOf g.ph, rfl, livesOf_ne_nil 0 hsink, ?_⟩, hx.se⟩
  intro k hk
  by_cases hk0 : k = 0
  · exact hk0
  · have := (mem_livesOf g.ph k).1 hk
    rw [hb.sinks k hk0] at this; cases this

/-! ### the second-layer clause of the invariant, selected by the top frame -/

def Ext (g : G) : List (Frame (Loc α) α) → Prop
  | .wait _ (.uLoop _ u) :: rest => if isEnd u = true then XU g (seOf u rest.length) else XS g
  | .wait _ (.eLoop _ _ e) :: _ => XE g e
  | _ => XS g

theorem Ext.clean {g : G} {stk : List (Frame (Loc α) α)} (h : Ext g stk) : g.xviols = [] := by
  unfold Ext at h
  split at h
  · split at h
    · exact h.clean
    · exact h.xok.clean
  · exact h.clean
  · exact h.xok.clean

theorem ext_iff_of_stk {p : Ph} {g : G} {stk : List (Frame (Loc α) α)} (hstk : Stk p stk) : Ext g stk ↔ XS g := by
  cases stk with
  | nil => exact Iff.rfl
  | cons f r =>
    cases f with
    | run l => exact hstk.1.elim
    | wait o l =>
      cases l with
      | uLoop j u =>
        cases u with
        | pull => simp [Ext, isEnd]
        | _ => exact hstk.1.elim
      | eLoop i j e => exact hstk.1.elim
      | _ => exact Iff.rfl

theorem ext_nil {g : G} : Ext g ([] : List (Frame (Loc α) α)) ↔ XS g := Iff.rfl
theorem ext_done {g : G} {o : Out α} {rest : List (Frame (Loc α) α)} : Ext g (.wait o .done :: rest) ↔ XS g := Iff.rfl
theorem ext_sub {g : G} {o : Out α} {i : Nat} {rest : List (Frame (Loc α) α)} : Ext g (.wait o (.subLoop i) :: rest) ↔ XS g := Iff.rfl
theorem ext_pull {g : G} {o : Out α} {j : Nat} {rest : List (Frame (Loc α) α)} :
    Ext g (.wait o (.uLoop j .pull) :: rest) ↔ XS g := by simp [Ext, isEnd]
theorem ext_end {g : G} {o : Out α} {j : Nat} {u : Up} {rest : List (Frame (Loc α) α)} (hu : isEnd u = true) :
    Ext g (.wait o (.uLoop j u) :: rest) ↔ XU g (seOf u rest.length) := by simp [Ext, hu]
theorem ext_eloop {g : G} {o : Out α} {i j e : Nat} {rest : List (Frame (Loc α) α)} :
    Ext g (.wait o (.eLoop i j e) :: rest) ↔ XE g e := Iff.rfl

/-! ### the invariant -/

def FInv (n : Nat) (s : Cfg α) : Prop := s.panicked = none ∧ Facts n s.st s.g.ph s.stack ∧ Ext s.g s.stack

/-- the operator runs into an invariant configuration -/
def FGood (n : Nat) (s : Cfg α) : Prop := ∃ k, FInv n (advance (machine α n) k s)

theorem fgood_mk {n : Nat} {st : St} {stk : List (Frame (Loc α) α)} {g : G} {tr : List (Ev α α)}
    (h : Facts n st g.ph stk) (hx : Ext g stk) : FGood n (⟨st, stk, g, tr, none⟩ : Cfg α) := ⟨0, rfl, h, hx⟩

theorem fgood_of_advance {n : Nat} {s s' : Cfg α} (k : Nat) (h : advance (machine α n) k s = s') (hg : FGood n s') : FGood n s := by
  obtain ⟨k', hk'⟩ := hg
  exact ⟨k + k', by rw [advance_add, h]; exact hk'⟩

theorem fgood_of_step {n : Nat} {s s' : Cfg α} (h : opStep (machine α n) s = some s') (hg : FGood n s') : FGood n s :=
  fgood_of_advance 1 (by rw [advance_succ 0 h]; rfl) hg

/-- the Pull broadcast, (re)started at member `j` in any stable mode -/
theorem fgood_pull {n : Nat} {st : St} {g : G} {tr : List (Ev α α)} {stk : List (Frame (Loc α) α)} (j : Nat)
    (hb : Base n g.ph) (hs : Stable n st g.ph) (hstk : Stk g.ph stk) (hx : XS g) :
    FGood n (⟨st, .run (.uLoop j .pull) :: stk, g, tr, none⟩ : Cfg α) := by
  cases hs with
  | opn he ho hsl hec =>
    rcases uLoop_scan n st .pull (Or.inr he) stk g tr _ j rfl with ⟨k, hk, _⟩ | ⟨k, j'', _, _, hs, _, hk⟩
    · refine fgood_of_advance k hk (fgood_mk ?_ ((ext_iff_of_stk hstk).2 (hx.onRetO _)))
      rw [onRetO_ph]
      exact ⟨hb, .stable (.opn he ho hsl hec) hstk⟩
    · have e : (g.onOut (machine α n).shape (Out.srcUp j'' .pull : Out α)).ph = g.ph := by
        simp [Ph.onOut, (hsl j'').1 hs]
      refine fgood_of_advance k hk (fgood_mk ?_ ?_)
      · rw [e]
        exact ⟨hb, .stable (.opn he ho hsl hec) ⟨trivial, hstk⟩⟩
      · exact ext_pull.2 (hx.transfer_noDone (same2_onOut_pull _ _ _) (openSink_noDone ho hb) (by rw [e]; exact openSink_noOrphan ho))
  | compl he h1 h2 h3 =>
    rcases uLoop_scan n st .pull (Or.inr he) stk g tr _ j rfl with ⟨k, hk, _⟩ | ⟨k, j'', _, _, hs, _, hk⟩
    · refine fgood_of_advance k hk (fgood_mk ?_ ((ext_iff_of_stk hstk).2 (hx.onRetO _)))
      rw [onRetO_ph]
      exact ⟨hb, .stable (.compl he h1 h2 h3) hstk⟩
    · rw [h3 j''] at hs; cases hs
  | closed he h1 h2 =>
    have : opStep (machine α n) (⟨st, .run (.uLoop j .pull) :: stk, g, tr, none⟩ : Cfg α) =
        some ⟨st, stk, g.onRetO stk.length, .retO :: tr, none⟩ := by
      by_cases hjn : j < n <;> simp [opStep, machine, step, hjn, he, isEnd]
    refine fgood_of_step this (fgood_mk ?_ ((ext_iff_of_stk hstk).2 (hx.onRetO _)))
    rw [onRetO_ph]
    exact ⟨hb, .stable (.closed he h1 h2) hstk⟩

/-- the `Terminate`/`Error` broadcast, (re)started at member `j` -/
theorem fgood_uLoop_end {n : Nat} {st : St} {g : G} {tr : List (Ev α α)} {stk : List (Frame (Loc α) α)} (u : Up) (j : Nat)
    (hb : Base n g.ph) (hu : isEnd u = true) (he : st.ended = true) (hsink : g.ph.sinkPh 0 = .doneBySelf)
    (hstk : Stk g.ph stk) (hl : ∀ j', g.ph.srcPh j' = .live ↔ (j ≤ j' ∧ phAt st.slots j' = true))
    (hx : XU g (seOf u stk.length)) :
    FGood n (⟨st, .run (.uLoop j u) :: stk, g, tr, none⟩ : Cfg α) := by
  rcases uLoop_scan n st u (Or.inl hu) stk g tr _ j rfl with ⟨k, hk, hall⟩ | ⟨k, j'', h1, h2, hs, h4, hk⟩
  · have hnl : ∀ j', g.ph.srcPh j' ≠ .live := by
      intro j' hj'
      have hlt : j' < n := hb.lt (by rw [hj']; simp)
      have := (hl j').1 hj'
      rw [hall j' this.1 hlt] at this
      exact absurd this.2 (by simp)
    refine fgood_of_advance k hk (fgood_mk ?_ ((ext_iff_of_stk hstk).2 (hx.ret hnl)))
    rw [onRetO_ph]
    exact ⟨hb, .stable (.closed he (Or.inl hsink) hnl) hstk⟩
  · refine fgood_of_advance k hk (fgood_mk ?_ ?_)
    · have hlive : g.ph.srcPh j'' = .live := (hl j'').2 ⟨h1, hs⟩
      have e : (g.onOut (machine α n).shape (Out.srcUp j'' u : Out α)).ph = g.ph.setSrc j'' .disposed := by
        cases u with
        | pull => cases hu
        | term => simp [Ph.onOut, hlive]
        | err x => simp [Ph.onOut, hlive]
      rw [e]
      refine ⟨hb.setSrc h2 _, .uloop j'' u stk hu he (by simpa using hsink) rfl
        (hstk.mono (idle_setSrc _ (by rw [hlive]; simp))) ?_⟩
      intro j'
      by_cases hjj : j' = j''
      · subst hjj; simp
      · simp only [Ph.srcPh_setSrc, hjj, if_false, hl j']
        constructor
        · rintro ⟨ha, hb'⟩
          refine ⟨?_, hb'⟩
          by_cases hlt : j' < j''
          · rw [h4 j' ha hlt] at hb'; cases hb'
          · omega
        · rintro ⟨ha, hb'⟩; exact ⟨by omega, hb'⟩
    · exact (ext_end hu).2 (hx.same2 (same2_onOut_end _ g j'' u hu _ hx.se))

/-- the sibling disposal after member `i` failed, (re)started at member `j` -/
theorem fgood_eLoop {n : Nat} {st : St} {g : G} {tr : List (Ev α α)} {stk : List (Frame (Loc α) α)} (i e : Nat) (j : Nat)
    (hb : Base n g.ph) (he : st.ended = true) (hsink : g.ph.sinkPh 0 = .live)
    (hstk : Stk g.ph stk) (hl : ∀ j', g.ph.srcPh j' = .live ↔ (j ≤ j' ∧ j' ≠ i ∧ phAt st.slots j' = true))
    (hx : XE g e) :
    FGood n (⟨st, .run (.eLoop i j e) :: stk, g, tr, none⟩ : Cfg α) := by
  rcases eLoop_scan n st i e stk g tr _ j rfl with ⟨k, hk, hall⟩ | ⟨k, j'', h1, h2, h2', hs, h4, hk⟩
  · have hnl : ∀ j', g.ph.srcPh j' ≠ .live := by
      intro j' hj''
      have hlt : j' < n := hb.lt (by rw [hj'']; simp)
      have := (hl j').1 hj''
      rw [hall j' this.1 hlt this.2.1] at this
      exact absurd this.2.2 (by simp)
    refine fgood_of_advance k hk (fgood_mk ?_ (ext_done.2 (hx.out _ hsink hnl)))
    have e' : (g.onOut (machine α n).shape (Out.down 0 (.err e) : Out α)).ph = g.ph.setSink 0 .doneBySrc := by
      simp [Ph.onOut, hsink, isFinal]
    rw [e']
    refine ⟨hb.setSink _, .stable (.closed he (Or.inr (by simp)) ?_) ⟨trivial, Stk.mono (g := g.ph) (g' := g.ph.setSink 0 .doneBySrc) (fun _ h => h) hstk⟩⟩
    intro j'; simpa using hnl j'
  · refine fgood_of_advance k hk (fgood_mk ?_ (ext_eloop.2 (hx.same2 (same2_onOut_term _ g j'' hx.se))))
    have hlive : g.ph.srcPh j'' = .live := (hl j'').2 ⟨h1, h2', hs⟩
    have e' : (g.onOut (machine α n).shape (Out.srcUp j'' .term : Out α)).ph = g.ph.setSrc j'' .disposed := by
      simp [Ph.onOut, hlive]
    rw [e']
    refine ⟨hb.setSrc h2 _, .eloop i j'' e stk he (by simpa using hsink) rfl
      (hstk.mono (idle_setSrc _ (by rw [hlive]; simp))) ?_⟩
    intro j'
    by_cases hjj : j' = j''
    · subst hjj; simp
    · simp only [Ph.srcPh_setSrc, hjj, if_false, hl j']
      constructor
      · rintro ⟨ha, hb', hc⟩
        refine ⟨?_, hb', hc⟩
        by_cases hlt : j' < j''
        · rw [h4 j' ha hlt hb'] at hc; cases hc
        · omega
      · rintro ⟨ha, hb', hc⟩; exact ⟨by omega, hb', hc⟩

theorem finv_turn (n : Nat) (s : Cfg α) (h : FInv n s) : EnvTurn s ∧ Safe s := by
  obtain ⟨hp, hf, hx⟩ := h
  have h1 := Merge.inv_turn n s ⟨hp, hf⟩
  exact ⟨h1.1, by simp [G.viols, h1.2.1, hx.clean], hp⟩

theorem finv_init (n : Nat) : FInv n (Sys.init (machine α n) : Cfg α) := by
  obtain ⟨h1, h2⟩ := Merge.inv_init (α := α) n
  refine ⟨h1, h2, ext_nil.2 ⟨⟨rfl, (by intro e h ks hp; cases hp), noOrphan_of_noLive (by intro i; simp [Sys.init])⟩, rfl⟩⟩

/-- the final `Terminate` to the sink (every member completed) -/
theorem XS.out_term (sh : Shape) {g : G} (hx : XS g) (hnd : ∀ k, g.ph.sinkPh k ≠ .doneBySrc)
    (ho : NoOrphan (g.ph.onOut (Out.down 0 .term : Out α))) : XS (g.onOut sh (Out.down 0 .term : Out α)) := by
  have hpn := hx.xok.pend_none_of_noDone hnd
  rw [onOut_downTerm]
  split
  · exact ⟨hx.xok.of_noPend hpn (Or.inl rfl) rfl ho, hx.se⟩
  · exact ⟨hx.xok.of_noPend hpn (Or.inl rfl) rfl ho, hx.se⟩

/-- returning into a continuation in a stable mode -/
theorem fgood_ret_stable {n : Nat} {st : St} {g : G} {tr : List (Ev α α)} {stk : List (Frame (Loc α) α)} {o : Out α} {l : Loc α}
    (hb : Base n g.ph) (hs : Stable n st g.ph) (hf : FrameOk g.ph (.wait o l) stk) (hrest : Stk g.ph stk) (hx : XS g) :
    FGood n (⟨st, .run l :: stk, g, tr, none⟩ : Cfg α) := by
  cases l with
  | done =>
    exact fgood_of_step step_done (fgood_mk (by rw [onRetO_ph]; exact ⟨hb, .stable hs hrest⟩) ((ext_iff_of_stk hrest).2 (hx.onRetO _)))
  | uLoop j u =>
    cases u with
    | pull => exact fgood_pull j hb hs hrest hx
    | _ => exact hf.elim
  | subLoop i =>
    obtain ⟨rfl, hidle⟩ := hf
    have hret : (¬ i < n ∨ st.ended = true) → FGood n (⟨st, .run (.subLoop i) :: [], g, tr, none⟩ : Cfg α) := by
      intro h
      have : opStep (machine α n) (⟨st, .run (.subLoop i) :: [], g, tr, none⟩ : Cfg α) =
          some ⟨st, [], g.onRetO 0, .retO :: tr, none⟩ := by
        rcases h with h | h
        · simp [opStep, machine, step, h]
        · by_cases hin : i < n <;> simp [opStep, machine, step, h, hin]
      exact fgood_of_step this (fgood_mk (by rw [onRetO_ph]; exact ⟨hb, .stable hs trivial⟩) (ext_nil.2 (hx.onRetO _)))
    by_cases hin : i < n
    · cases hs with
      | opn he ho hsl hec =>
        have hopen : g.ph.anySinkOpen = true := by
          rw [Ph.anySinkOpen_iff]
          rcases ho with ⟨h, _⟩ | ⟨h, _⟩
          · exact ⟨0, Or.inl h⟩
          · exact ⟨0, Or.inr h⟩
        have hi : g.ph.srcPh i = .idle := hidle i (Nat.le_refl _)
        have e : (g.onOut (machine α n).shape (Out.subSrc i : Out α)).ph = g.ph.setSrc i .subscribed := by
          simp [Ph.onOut, hi, hopen]
        have ho' : OpenSink st (g.ph.setSrc i .subscribed) := by
          rcases ho with ⟨h1, h2, h3⟩ | ⟨h1, h2⟩
          · refine Or.inl ⟨by simpa using h1, h2, fun j => ?_⟩
            by_cases hj : j = i
            · subst hj; simp
            · simpa [hj] using h3 j
          · exact Or.inr ⟨by simpa using h1, h2⟩
        refine fgood_of_advance 2 (s' := ⟨st, [.wait (.subSrc i) (.subLoop (i+1))],
            g.onOut (machine α n).shape (Out.subSrc i : Out α), .out (.subSrc i) :: tr, none⟩)
          (by simp [advance, opStep, machine, step, hin, he]) (fgood_mk ?_ ?_)
        · rw [e]
          refine ⟨hb.setSrc hin _, .stable (.opn he ho' ?_ ?_) ⟨⟨rfl, ?_⟩, trivial⟩⟩
          · intro j
            by_cases hj : j = i
            · subst hj; simp [hsl j, hi]
            · simp [hj, hsl j]
          · rw [endedCnt_setSrc_ne n (by rw [hi]; simp) (by simp)]; exact hec
          · intro j hj
            simp [show j ≠ i by omega, hidle j (by omega)]
        · exact ext_sub.2 (hx.transfer_noDone (same2_onOut_subSrc _ _ _) (openSink_noDone ho hb) (by rw [e]; exact openSink_noOrphan ho'))
      | compl he h1 h2 h3 =>
        have := h2 i hin
        rw [hidle i (Nat.le_refl _)] at this; cases this
      | closed he h1 h2 => exact hret (Or.inr he)
    · exact hret (Or.inl hin)
  | _ => exact hf.elim

theorem fgood_subscribe {n : Nat} {st : St} {g : G} {tr : List (Ev α α)} {stk : List (Frame (Loc α) α)} {c : Ctx α} (k : Nat)
    (hb : Base n g.ph) (hm : Mode n st g.ph stk) (hext : Ext g stk) (hc : ctxOf stk = some c)
    (hl : legalIn (machine α n).shape g.ph c (.subscribe k : In α) = true) :
    FGood n (⟨st, .run (enter (.subscribe k)) :: stk, g.onIn stk.length (.subscribe k : In α), .inp (.subscribe k) :: tr, none⟩ : Cfg α) := by
  simp only [legalIn, Bool.and_eq_true, beq_iff_eq, machine, Bool.or_false] at hl
  obtain ⟨⟨hc', hidle⟩, rfl⟩ := hl
  cases hm with
  | init h1 h2 h3 h4 h5 h6 h7 =>
    subst h2
    have hx : XS g := ext_nil.1 hext
    have hnd : ∀ k, g.ph.sinkPh k ≠ .doneBySrc := base_noDone hb (by rw [h1]; decide)
    have hb' : Base n (g.ph.setSink 0 .subscribed) := hb.setSink _
    have hopen : (g.ph.setSink 0 .subscribed).anySinkOpen = true := (Ph.anySinkOpen_iff _).2 ⟨0, by simp⟩
    have hos : OpenSink st (g.ph.setSink 0 .subscribed) := Or.inl ⟨by simp, h4, fun j => by simp [h7 j]⟩
    by_cases hn : 0 < n
    · have e : ((g.onIn 0 (.subscribe 0 : In α)).onOut (machine α n).shape (Out.subSrc 0 : Out α)).ph =
          (g.ph.setSink 0 .subscribed).setSrc 0 .subscribed := by
        simp [Ph.onIn, Ph.onOut, h7, hopen]
      refine fgood_of_advance 2 (s' := ⟨st, [.wait (.subSrc 0) (.subLoop 1)],
          (g.onIn 0 (.subscribe 0 : In α)).onOut (machine α n).shape (Out.subSrc 0 : Out α),
          .out (.subSrc 0) :: .inp (.subscribe 0) :: tr, none⟩)
        (by simp [advance, opStep, machine, enter, step, hn, h3]) (fgood_mk ?_ ?_)
      · rw [e]
        refine ⟨hb'.setSrc hn _, .stable (.opn h3 ?_ ?_ ?_) ⟨⟨rfl, ?_⟩, trivial⟩⟩
        · refine Or.inl ⟨by simp, h4, fun j => ?_⟩
          by_cases hj : j = 0
          · subst hj; simp
          · simp [hj, h7 j]
        · intro j
          by_cases hj : j = 0
          · subst hj; simp [h6]
          · simp [hj, h6, h7]
        · rw [h5]; symm; apply cnt_zero
          intro j _
          by_cases hj : j = 0
          · subst hj; simp
          · simp [hj, h7 j]
        · intro j hj
          simp [show j ≠ 0 by omega, h7 j]
      · exact ext_sub.2 (hx.transfer_noDone ((same2_onIn_subscribe g 0 0).trans (same2_onOut_subSrc _ _ _)) hnd
          (by rw [e]; exact noOrphan_of_open 0 (Or.inl (by simp))))
    · have e : ((g.onIn 0 (.subscribe 0 : In α)).onRetO 0).ph = g.ph.setSink 0 .subscribed := by
        simp [Ph.onIn]
      refine fgood_of_advance 1 (s' := ⟨st, [], (g.onIn 0 (.subscribe 0 : In α)).onRetO 0, .retO :: .inp (.subscribe 0) :: tr, none⟩)
        (by simp [advance, opStep, machine, enter, step, hn]) (fgood_mk ?_ ?_)
      · rw [e]
        refine ⟨hb', .stable (.opn h3 hos ?_ ?_) trivial⟩
        · intro j; simp [h6, h7]
        · rw [h5]; symm; apply cnt_zero
          intro j _; simp [h7 j]
      · exact ext_nil.2 ((hx.transfer_noDone (same2_onIn_subscribe g 0 0) hnd
          (noOrphan_of_open 0 (Or.inl (by simp [Ph.onIn])))).onRetO _)
  | stable hs hstk =>
    cases hs with
    | opn he ho _ _ => rcases ho with ⟨h, _⟩ | ⟨h, _⟩ <;> (rw [h] at hidle; cases hidle)
    | compl he h _ _ => rw [h] at hidle; cases hidle
    | closed he h _ => rcases h with h | h <;> (rw [h] at hidle; cases hidle)
  | uloop j u rest _ _ h => rw [h] at hidle; cases hidle
  | eloop i j e rest _ h => rw [h] at hidle; cases hidle

theorem fgood_sinkUp {n : Nat} {st : St} {g : G} {tr : List (Ev α α)} {stk : List (Frame (Loc α) α)} {c : Ctx α} (k : Nat) (u : Up)
    (hb : Base n g.ph) (hm : Mode n st g.ph stk) (hext : Ext g stk) (hc : ctxOf stk = some c)
    (hl : legalIn (machine α n).shape g.ph c (.sinkUp k u : In α) = true) :
    FGood n (⟨st, .run (enter (.sinkUp k u)) :: stk, g.onIn stk.length (.sinkUp k u : In α), .inp (.sinkUp k u) :: tr, none⟩ : Cfg α) := by
  simp only [legalIn, Bool.and_eq_true, beq_iff_eq, Bool.or_eq_true] at hl
  obtain ⟨hlive, hctx⟩ := hl
  have hk : k = 0 := by
    by_cases hk : k = 0
    · exact hk
    · rw [hb.sinks k hk] at hlive; cases hlive
  subst hk
  cases hm with
  | init h => rw [h] at hlive; cases hlive
  | stable hs hstk =>
    have hx : XS g := (ext_iff_of_stk hstk).1 hext
    cases hs with
    | opn he ho hsl hec =>
      rcases ho with ⟨h, _⟩ | ⟨_, hsc⟩
      · rw [h] at hlive; cases hlive
      · have ho : OpenSink st g.ph := Or.inr ⟨hlive, hsc⟩
        cases u with
        | pull =>
          refine fgood_of_step (s' := ⟨st, .run (.uLoop 0 .pull) :: stk, g.onIn stk.length (.sinkUp 0 .pull : In α),
            .inp (.sinkUp 0 .pull) :: tr, none⟩) (by simp [opStep, machine, enter, step, isEnd]) ?_
          have e : (g.onIn stk.length (.sinkUp 0 .pull : In α)).ph = g.ph := by simp [Ph.onIn]
          exact fgood_pull 0 (by rw [e]; exact hb) (by rw [e]; exact .opn he ho hsl hec) (by rw [e]; exact hstk)
            (hx.transfer_noDone (same2_onIn_pull _ _ _) (openSink_noDone ho hb) (by rw [e]; exact openSink_noOrphan ho))
        | term =>
          refine fgood_of_step (s' := ⟨{ st with ended := true }, .run (.uLoop 0 .term) :: stk, g.onIn stk.length (.sinkUp 0 .term : In α),
            .inp (.sinkUp 0 .term) :: tr, none⟩) (by simp [opStep, machine, enter, step, isEnd]) ?_
          have e : (g.onIn stk.length (.sinkUp 0 .term : In α)).ph = g.ph.setSink 0 .doneBySelf := by simp [Ph.onIn]
          refine fgood_uLoop_end .term 0 (by rw [e]; exact hb.setSink _) rfl rfl (by rw [e]; simp) (by rw [e]; exact hstk.setSink _ _) ?_
            (hx.enter_up hb hlive .term rfl _)
          intro j'
          rw [e]
          exact ⟨fun h => ⟨Nat.zero_le _, (hsl j').2 h⟩, fun h => (hsl j').1 h.2⟩
        | err x =>
          refine fgood_of_step (s' := ⟨{ st with ended := true }, .run (.uLoop 0 (.err x)) :: stk, g.onIn stk.length (.sinkUp 0 (.err x) : In α),
            .inp (.sinkUp 0 (.err x)) :: tr, none⟩) (by simp [opStep, machine, enter, step, isEnd]) ?_
          have e : (g.onIn stk.length (.sinkUp 0 (.err x) : In α)).ph = g.ph.setSink 0 .doneBySelf := by simp [Ph.onIn]
          refine fgood_uLoop_end (.err x) 0 (by rw [e]; exact hb.setSink _) rfl rfl (by rw [e]; simp) (by rw [e]; exact hstk.setSink _ _) ?_
            (hx.enter_up hb hlive (.err x) rfl _)
          intro j'
          rw [e]
          exact ⟨fun h => ⟨Nat.zero_le _, (hsl j').2 h⟩, fun h => (hsl j').1 h.2⟩
    | compl he h _ _ => rw [h] at hlive; cases hlive
    | closed he h _ => rcases h with h | h <;> (rw [h] at hlive; cases hlive)
  | uloop j u rest _ _ h => rw [h] at hlive; cases hlive
  | eloop i j e rest _ _ h =>
    subst h
    simp [ctxOf] at hc; subst hc; simp [isTop, inGreet, inData] at hctx

theorem fgood_srcGreet {n : Nat} {st : St} {g : G} {tr : List (Ev α α)} {stk : List (Frame (Loc α) α)} {c : Ctx α} (i : Nat)
    (hb : Base n g.ph) (hm : Mode n st g.ph stk) (hext : Ext g stk) (hc : ctxOf stk = some c)
    (hl : legalIn (machine α n).shape g.ph c (.srcGreet i : In α) = true) :
    FGood n (⟨st, .run (enter (.srcGreet i)) :: stk, g.onIn stk.length (.srcGreet i : In α), .inp (.srcGreet i) :: tr, none⟩ : Cfg α) := by
  simp only [legalIn, Bool.and_eq_true, beq_iff_eq, Bool.or_eq_true, machine, Bool.true_and] at hl
  obtain ⟨hsub, hctx⟩ := hl
  have hin : i < n := hb.lt (by rw [hsub]; simp)
  have hidle := idle_setSrc (g := g.ph) (i := i) .live (by rw [hsub]; simp)
  have e0 : (g.onIn stk.length (.srcGreet i : In α)).ph = g.ph.setSrc i .live := by simp [Ph.onIn]
  cases hm with
  | init _ _ _ _ _ _ h => rw [h] at hsub; cases hsub
  | stable hs hstk =>
    have hx : XS g := (ext_iff_of_stk hstk).1 hext
    cases hs with
    | opn he ho hsl hec =>
      have hnd := openSink_noDone ho hb
      have hsl' : ∀ j, phAt (setAt st.slots i true) j = true ↔ (g.ph.setSrc i .live).srcPh j = .live := by
        intro j
        by_cases hj : j = i
        · subst hj; simp [phAt_setAt]
        · simp [phAt_setAt, hj, hsl j]
      have hec' : st.endCount = endedCnt (g.ph.setSrc i .live) n := by
        rw [endedCnt_setSrc_ne n (by rw [hsub]; simp) (by simp)]; exact hec
      rcases ho with ⟨hsk, hsc, hnl⟩ | ⟨hsk, hsc⟩
      · have e : ((g.onIn stk.length (.srcGreet i : In α)).onOut (machine α n).shape (Out.greet 0 : Out α)).ph =
            (g.ph.setSrc i .live).setSink 0 .live := by
          simp [Ph.onIn, Ph.onOut, hsk]
        refine fgood_of_advance 3 (s' := ⟨⟨setAt st.slots i true, st.startCount + 1, st.endCount, st.ended⟩,
            .wait (.greet 0) .done :: stk,
            (g.onIn stk.length (.srcGreet i : In α)).onOut (machine α n).shape (Out.greet 0 : Out α),
            .out (.greet 0) :: .inp (.srcGreet i) :: tr, none⟩)
          (by simp [advance, opStep, machine, enter, step, he, hsc]) (fgood_mk ?_ ?_)
        · rw [e]
          refine ⟨(hb.setSrc hin _).setSink _, .stable (.opn he (Or.inr ⟨by simp, by simp⟩) hsl' hec')
            ⟨trivial, (hstk.mono hidle).setSink _ _⟩⟩
        · exact ext_done.2 (hx.transfer_noDone ((same2_onIn_srcGreet g _ i).trans (same2_onOut_greet _ _ _)) hnd
            (by rw [e]; exact noOrphan_of_open 0 (Or.inr (by simp))))
      · refine fgood_of_advance 3 (s' := ⟨⟨setAt st.slots i true, st.startCount + 1, st.endCount, st.ended⟩, stk,
            (g.onIn stk.length (.srcGreet i : In α)).onRetO stk.length,
            .retO :: .inp (.srcGreet i) :: tr, none⟩)
          (by simp [advance, opStep, machine, enter, step, he, hsc]) (fgood_mk ?_ ?_)
        · rw [onRetO_ph, e0]
          exact ⟨hb.setSrc hin _, .stable (.opn he (Or.inr ⟨by simpa using hsk, by simp⟩) hsl' hec') (hstk.mono hidle)⟩
        · exact (ext_iff_of_stk hstk).2 ((hx.transfer_noDone (same2_onIn_srcGreet g _ i) hnd
            (by rw [e0]; exact noOrphan_of_open 0 (Or.inr (by simpa using hsk)))).onRetO _)
    | compl he _ h _ => rw [h i hin] at hsub; cases hsub
    | closed he hsk hnl =>
      have e : ((g.onIn stk.length (.srcGreet i : In α)).onOut (machine α n).shape (Out.srcUp i .term : Out α)).ph =
          (g.ph.setSrc i .live).setSrc i .disposed := by
        simp [Ph.onIn, Ph.onOut]
      have hnl' : ∀ j, ((g.ph.setSrc i .live).setSrc i .disposed).srcPh j ≠ .live := by
        intro j
        by_cases hj : j = i
        · subst hj; simp
        · simpa [hj] using hnl j
      refine fgood_of_advance 1 (s' := ⟨st, .wait (.srcUp i .term) .done :: stk,
          (g.onIn stk.length (.srcGreet i : In α)).onOut (machine α n).shape (Out.srcUp i .term : Out α),
          .out (.srcUp i .term) :: .inp (.srcGreet i) :: tr, none⟩)
        (by simp [advance, opStep, machine, enter, step, he]) (fgood_mk ?_ ?_)
      · rw [e]
        exact ⟨(hb.setSrc hin _).setSrc hin _, .stable (.closed he hsk hnl') ⟨trivial, (hstk.mono hidle).mono (idle_setSrc _ (by simp))⟩⟩
      · refine ext_done.2 (hx.transfer_noLive ((same2_onIn_srcGreet g _ i).trans (same2_onOut_term _ _ _ hx.se)) ?_ ?_)
        · rw [e]; exact hnl'
        · rw [e]; intro k hk; simpa using hk
  | uloop j u rest _ _ _ h =>
    subst h
    simp [ctxOf] at hc; subst hc; simp [isTop, inSub] at hctx
  | eloop j' j e rest _ _ h =>
    subst h
    simp [ctxOf] at hc; subst hc; simp [isTop, inSub] at hctx

theorem fgood_srcDown {n : Nat} {st : St} {g : G} {tr : List (Ev α α)} {stk : List (Frame (Loc α) α)} {c : Ctx α} (i : Nat) (d : Down α)
    (hb : Base n g.ph) (hm : Mode n st g.ph stk) (hext : Ext g stk) (hc : ctxOf stk = some c)
    (hl : legalIn (machine α n).shape g.ph c (.srcDown i d : In α) = true) :
    FGood n (⟨st, .run (enter (.srcDown i d)) :: stk, g.onIn stk.length (.srcDown i d : In α), .inp (.srcDown i d) :: tr, none⟩ : Cfg α) := by
  simp only [legalIn, Bool.and_eq_true, beq_iff_eq, Bool.or_eq_true] at hl
  obtain ⟨hlive, hctx⟩ := hl
  have hin : i < n := hb.lt (by rw [hlive]; simp)
  cases hm with
  | init _ _ _ _ _ _ h => rw [h] at hlive; cases hlive
  | stable hs hstk =>
    have hx : XS g := (ext_iff_of_stk hstk).1 hext
    cases hs with
    | opn he ho hsl hec =>
      rcases ho with ⟨_, _, hnl⟩ | ⟨hsk, hsc⟩
      · exact absurd hlive (hnl i)
      · have ho : OpenSink st g.ph := Or.inr ⟨hsk, hsc⟩
        have hnd := openSink_noDone ho hb
        cases d with
        | data a =>
          have e : ((g.onIn stk.length (.srcDown i (.data a) : In α)).onOut (machine α n).shape (Out.down 0 (.data a) : Out α)).ph = g.ph := by
            simp [Ph.onIn, Ph.onOut, hsk, isFinal]
          refine fgood_of_advance 1 (s' := ⟨st, .wait (.down 0 (.data a)) .done :: stk,
              (g.onIn stk.length (.srcDown i (.data a) : In α)).onOut (machine α n).shape (Out.down 0 (.data a) : Out α),
              .out (.down 0 (.data a)) :: .inp (.srcDown i (.data a)) :: tr, none⟩)
            (by simp [advance, opStep, machine, enter, step]) (fgood_mk ?_ ?_)
          · rw [e]
            exact ⟨hb, .stable (.opn he ho hsl hec) ⟨trivial, hstk⟩⟩
          · exact ext_done.2 (hx.transfer_noDone ((same2_onIn_data g _ i a).trans (same2_onOut_data _ _ _ _)) hnd
              (by rw [e]; exact openSink_noOrphan ho))
        | term =>
          have hidle := idle_setSrc (g := g.ph) (i := i) .ended (by rw [hlive]; simp)
          have e0 : (g.onIn stk.length (.srcDown i .term : In α)).ph = g.ph.setSrc i .ended := by simp [Ph.onIn]
          have hcnt : endedCnt (g.ph.setSrc i .ended) n = st.endCount + 1 := by
            rw [endedCnt_setSrc_ended n hin (by rw [hlive]; simp), hec]
          have hx0 : XS (g.onIn stk.length (.srcDown i .term : In α)) :=
            hx.transfer_noDone (same2_onIn_srcTerm g _ i) hnd (by rw [e0]; exact noOrphan_of_open 0 (Or.inr (by simpa using hsk)))
          by_cases hlast : st.endCount + 1 = n
          · have e : ((g.onIn stk.length (.srcDown i .term : In α)).onOut (machine α n).shape (Out.down 0 .term : Out α)).ph =
                (g.ph.setSrc i .ended).setSink 0 .doneBySrc := by
              simp [Ph.onIn, Ph.onOut, hsk, isFinal]
            have hall := endedCnt_all (g := g.ph.setSrc i .ended) (n := n) (by rw [hcnt, hlast])
            have hst : Stable n ⟨setAt st.slots i false, st.startCount, st.endCount + 1, st.ended⟩
                ((g.ph.setSrc i .ended).setSink 0 .doneBySrc) := by
              refine .compl he (by simp) (fun j hj => by simpa using hall j hj) ?_
              intro j
              by_cases hj : j = i
              · subst hj; simp [phAt_setAt]
              · simp only [phAt_setAt, hj, if_false]
                cases hsj : phAt st.slots j with
                | false => rfl
                | true =>
                  have h1 := (hsl j).1 hsj
                  have h2 := hall j (hb.lt (by rw [h1]; simp))
                  simp [hj, h1] at h2
            refine fgood_of_advance 3 (s' := ⟨⟨setAt st.slots i false, st.startCount, st.endCount + 1, st.ended⟩,
                  .wait (.down 0 .term) .done :: stk,
                  (g.onIn stk.length (.srcDown i .term : In α)).onOut (machine α n).shape (Out.down 0 .term : Out α),
                  .out (.down 0 .term) :: .inp (.srcDown i .term) :: tr, none⟩)
                (by simp [advance, opStep, machine, enter, step, hlast]) (fgood_mk ?_ ?_)
            · rw [e]
              exact ⟨(hb.setSrc hin _).setSink _, .stable hst ⟨trivial, (hstk.mono hidle).setSink _ _⟩⟩
            · refine ext_done.2 (hx0.out_term _ ?_ ?_)
              · rw [e0]; exact base_noDone (hb.setSrc hin _) (by simp [hsk])
              · have e' : (g.onIn stk.length (.srcDown i .term : In α)).ph.onOut (Out.down 0 .term : Out α) =
                    (g.ph.setSrc i .ended).setSink 0 .doneBySrc := by
                  rw [e0]; simp [Ph.onOut, hsk, isFinal]
                rw [e']
                exact stable_noOrphan ((hb.setSrc hin _).setSink _) hst
          · refine fgood_of_advance 3 (s' := ⟨⟨setAt st.slots i false, st.startCount, st.endCount + 1, st.ended⟩, stk,
                (g.onIn stk.length (.srcDown i .term : In α)).onRetO stk.length,
                .retO :: .inp (.srcDown i .term) :: tr, none⟩)
              (by simp [advance, opStep, machine, enter, step, hlast]) (fgood_mk ?_ ((ext_iff_of_stk hstk).2 (hx0.onRetO _)))
            rw [onRetO_ph, e0]
            refine ⟨hb.setSrc hin _, .stable (.opn he (Or.inr ⟨by simpa using hsk, hsc⟩) ?_ hcnt.symm) (hstk.mono hidle)⟩
            intro j
            by_cases hj : j = i
            · subst hj; simp [phAt_setAt]
            · simp [phAt_setAt, hj, hsl j]
        | err x =>
          have hidle := idle_setSrc (g := g.ph) (i := i) .ended (by rw [hlive]; simp)
          have e0 : (g.onIn stk.length (.srcDown i (.err x) : In α)).ph = g.ph.setSrc i .ended := by simp [Ph.onIn]
          refine fgood_of_step (s' := ⟨{ st with ended := true }, .run (.eLoop i 0 x) :: stk,
            g.onIn stk.length (.srcDown i (.err x) : In α), .inp (.srcDown i (.err x)) :: tr, none⟩)
            (by simp [opStep, machine, enter, step]) ?_
          refine fgood_eLoop i x 0 (by rw [e0]; exact hb.setSrc hin _) rfl (by rw [e0]; simpa using hsk)
            (by rw [e0]; exact hstk.mono hidle) ?_ (hx.enter_err hb hsk i x _)
          intro j
          rw [e0]
          by_cases hj : j = i
          · subst hj; simp
          · simp [hj, hsl j]
    | compl he _ h _ => rw [h i hin] at hlive; cases hlive
    | closed he hsk hnl => exact absurd hlive (hnl i)
  | uloop j u rest hu _ _ h =>
    subst h
    simp [ctxOf] at hc; subst hc
    cases u with
    | pull => cases hu
    | _ => simp [isTop, inSub, inPull] at hctx
  | eloop j' j e rest _ _ h =>
    subst h
    simp [ctxOf] at hc; subst hc; simp [isTop, inSub, inPull] at hctx

theorem finv_step (n : Nat) (s s' : Cfg α) (m : Move α) (h : FInv n s) (hs : EnvStep (machine α n) m s s') : FGood n s' := by
  obtain ⟨hp, ⟨hb, hm⟩, hext⟩ := h
  cases hs with
  | @call st stk g tr c i hc hl =>
    simp only at hp hb hm hext
    cases i with
    | subscribe k => exact fgood_subscribe k hb hm hext hc hl
    | sinkUp k u => exact fgood_sinkUp k u hb hm hext hc hl
    | srcGreet i => exact fgood_srcGreet i hb hm hext hc hl
    | srcDown i d => exact fgood_srcDown i d hb hm hext hc hl
  | @ret st stk g tr o l hl =>
    simp only at hp hb hm hext
    cases hm with
    | init _ h => cases h
    | stable hs hstk => exact fgood_ret_stable hb hs hstk.1 hstk.2 ((ext_iff_of_stk hstk).1 hext)
    | uloop j u rest hu he hsink hstk hrest hlv =>
      simp at hstk; obtain ⟨⟨rfl, rfl⟩, rfl⟩ := hstk
      exact fgood_uLoop_end u (j+1) hb hu he hsink hrest hlv ((ext_end hu).1 hext)
    | eloop i j e rest he hsink hstk hrest hlv =>
      simp at hstk; obtain ⟨⟨rfl, rfl⟩, rfl⟩ := hstk
      exact fgood_eLoop i e (j+1) hb he hsink hrest hlv (ext_eloop.1 hext)

/-- merge, every member count, late greeters allowed: under every conformant environment the operator never violates any
clause of C01–C05 (both ghost layers: the sink's `Error(e)` is relayed to every live member as `Error(e)`; no member is left
live once the output is over and control is back at top level; a member's `Error(e)` reaches the sink exactly once,
unchanged, with every other member disposed, before the handler of that error returns) and never panics. -/
theorem merge_safe {α : Type} (n : Nat) : ∀ s, SReach (machine α n true true) s → Safe s :=
  safe_of_macro_inv (machine α n) (FInv n) (finv_init n) (finv_turn n) (finv_step n)

end Cb.MergeFull

#print axioms Cb.MergeFull.merge_safe
