import CallbagModel.Inv.ComposeInst
import CallbagModel.Props
import CallbagModel.Fun.Relay
import CallbagModel.Fun.Take
/-!
# What a pipeline computes: the boundary traces of `compose M₁ M₂` and of its components

`ComposeSafe.compose_inv` projects every reachable configuration `s` of the pipeline onto reachable configurations `s₁`, `s₂` of the
components, but says nothing about the traces.  Here the projection is strengthened by `TrRel s.tr s₁.tr s₂.tr`:

* the SINK-SIDE events of the pipeline (`subscribe k`, `sinkUp k u`, `greet k`, `down k d`, `app b`) are exactly those of `M₂`;
* the SOURCE-SIDE events of the pipeline (`srcGreet i`, `srcDown i d`, `subSrc i`, `srcUp i u`) are exactly those of `M₁`;
* on the internal interface, the sink-side events of `M₁`, read from the other end (`greet 0 ↦ srcGreet 0`, `down 0 d ↦ srcDown 0 d`,
  `subscribe 0 ↦ subSrc 0`, `sinkUp 0 u ↦ srcUp 0 u`), are exactly the source-side events of `M₂`.

Every trace projection of `Props.lean` that looks at one side only factors through these event lists (`recvData_eq`, `sentData_eq`,
`finalsTo_eq`, `applied_eq`, …), which gives (T1)–(T3) and their analogues for terminals, Pulls and closure applications.
`compose_io`: the list function of a pipeline is the composition of the list functions of its stages.
-/
namespace Cb
namespace ComposeFun
open ComposeSafe

/-! ## Part 1: one-sided views of a boundary trace -/
section Views
variable {α β γ : Type}

/-- events at the sink side of an operator -/
inductive SinkEv (γ : Type) where
  | subscribe (k : Nat) | up (k : Nat) (u : Up) | greet (k : Nat) | down (k : Nat) (d : Down γ) | app (b : γ)

/-- events at the source side of an operator -/
inductive SrcEv (α : Type) where
  | greet (i : Nat) | down (i : Nat) (d : Down α) | sub (i : Nat) | up (i : Nat) (u : Up)

def sinkEv : Ev α γ → Option (SinkEv γ)
  | .inp (.subscribe k) => some (.subscribe k)
  | .inp (.sinkUp k u) => some (.up k u)
  | .inp (.srcGreet _) => none
  | .inp (.srcDown _ _) => none
  | .out (.greet k) => some (.greet k)
  | .out (.down k d) => some (.down k d)
  | .out (.app b) => some (.app b)
  | .out (.subSrc _) => none
  | .out (.srcUp _ _) => none
  | .retE => none
  | .retO => none
  | .panic => none

def srcEv : Ev α γ → Option (SrcEv α)
  | .inp (.subscribe _) => none
  | .inp (.sinkUp _ _) => none
  | .inp (.srcGreet i) => some (.greet i)
  | .inp (.srcDown i d) => some (.down i d)
  | .out (.greet _) => none
  | .out (.down _ _) => none
  | .out (.app _) => none
  | .out (.subSrc i) => some (.sub i)
  | .out (.srcUp i u) => some (.up i u)
  | .retE => none
  | .retO => none
  | .panic => none

/-- a sink-side event of the upstream-side component, seen from the downstream-side component -/
def dual : SinkEv β → Option (SrcEv β)
  | .subscribe k => some (.sub k)
  | .up k u => some (.up k u)
  | .greet k => some (.greet k)
  | .down k d => some (.down k d)
  | .app _ => none

def consOpt {X : Type} : Option X → List X → List X
  | some x, l => x :: l
  | none, l => l

@[simp] theorem consOpt_some {X : Type} (x : X) (l : List X) : consOpt (some x) l = x :: l := rfl
@[simp] theorem consOpt_none {X : Type} (l : List X) : consOpt none l = l := rfl

/-- the sink-side events of a trace (newest first, like the trace) -/
def sinkEvs : List (Ev α γ) → List (SinkEv γ)
  | [] => []
  | e :: t => consOpt (sinkEv e) (sinkEvs t)

/-- the source-side events of a trace -/
def srcEvs : List (Ev α γ) → List (SrcEv α)
  | [] => []
  | e :: t => consOpt (srcEv e) (srcEvs t)

def dualEvs : List (SinkEv β) → List (SrcEv β)
  | [] => []
  | e :: t => consOpt (dual e) (dualEvs t)

/-! ### the projections of `Props.lean`, on one-sided views -/

def recvS (k : Nat) : List (SinkEv γ) → List γ
  | [] => []
  | .down k' (.data b) :: t => if k' = k then recvS k t ++ [b] else recvS k t
  | _ :: t => recvS k t

def sentS (i : Nat) : List (SrcEv α) → List α
  | [] => []
  | .down i' (.data a) :: t => if i' = i then sentS i t ++ [a] else sentS i t
  | _ :: t => sentS i t

def finS (k : Nat) : List (SinkEv γ) → Nat
  | [] => 0
  | .down k' .term :: t => (if k' = k then 1 else 0) + finS k t
  | .down k' (.err _) :: t => (if k' = k then 1 else 0) + finS k t
  | _ :: t => finS k t

def appS : List (SinkEv γ) → List γ
  | [] => []
  | .app b :: t => appS t ++ [b]
  | _ :: t => appS t

def pullsInS (k : Nat) : List (SinkEv γ) → Nat
  | [] => 0
  | .up k' .pull :: t => (if k' = k then 1 else 0) + pullsInS k t
  | _ :: t => pullsInS k t

def pullsOutS (i : Nat) : List (SrcEv α) → Nat
  | [] => 0
  | .up i' .pull :: t => (if i' = i then 1 else 0) + pullsOutS i t
  | _ :: t => pullsOutS i t

def upFinS (i : Nat) : List (SrcEv α) → Nat
  | [] => 0
  | .up i' .term :: t => (if i' = i then 1 else 0) + upFinS i t
  | .up i' (.err _) :: t => (if i' = i then 1 else 0) + upFinS i t
  | _ :: t => upFinS i t

def srcFinS (i : Nat) : List (SrcEv α) → Nat
  | [] => 0
  | .down i' .term :: t => (if i' = i then 1 else 0) + srcFinS i t
  | .down i' (.err _) :: t => (if i' = i then 1 else 0) + srcFinS i t
  | _ :: t => srcFinS i t

theorem recvData_eq (k : Nat) (tr : List (Ev α γ)) : recvData k tr = recvS k (sinkEvs tr) := by
  induction tr with
  | nil => rfl
  | cons e t ih =>
    cases e with
    | inp i => cases i <;> simp [recvData, sinkEvs, sinkEv, recvS, ih]
    | out o =>
      cases o with
      | down k' d => cases d <;> simp [recvData, sinkEvs, sinkEv, recvS, ih]
      | _ => simp [recvData, sinkEvs, sinkEv, recvS, ih]
    | _ => simp [recvData, sinkEvs, sinkEv, ih]

theorem sentData_eq (i : Nat) (tr : List (Ev α γ)) : sentData i tr = sentS i (srcEvs tr) := by
  induction tr with
  | nil => rfl
  | cons e t ih =>
    cases e with
    | inp m =>
      cases m with
      | srcDown i' d => cases d <;> simp [sentData, srcEvs, srcEv, sentS, ih]
      | _ => simp [sentData, srcEvs, srcEv, sentS, ih]
    | out o => cases o <;> simp [sentData, srcEvs, srcEv, sentS, ih]
    | _ => simp [sentData, srcEvs, srcEv, ih]

theorem finalsTo_eq (k : Nat) (tr : List (Ev α γ)) : finalsTo k tr = finS k (sinkEvs tr) := by
  induction tr with
  | nil => rfl
  | cons e t ih =>
    cases e with
    | inp i => cases i <;> simp [finalsTo, sinkEvs, sinkEv, finS, ih]
    | out o =>
      cases o with
      | down k' d => cases d <;> simp [finalsTo, sinkEvs, sinkEv, finS, ih]
      | _ => simp [finalsTo, sinkEvs, sinkEv, finS, ih]
    | _ => simp [finalsTo, sinkEvs, sinkEv, ih]

theorem applied_eq (tr : List (Ev α γ)) : applied tr = appS (sinkEvs tr) := by
  induction tr with
  | nil => rfl
  | cons e t ih =>
    cases e with
    | inp i => cases i <;> simp [applied, sinkEvs, sinkEv, appS, ih]
    | out o => cases o <;> simp [applied, sinkEvs, sinkEv, appS, ih]
    | _ => simp [applied, sinkEvs, sinkEv, ih]

theorem pullsIn_eq (k : Nat) (tr : List (Ev α γ)) : pullsIn k tr = pullsInS k (sinkEvs tr) := by
  induction tr with
  | nil => rfl
  | cons e t ih =>
    cases e with
    | inp m =>
      cases m with
      | sinkUp k' u => cases u <;> simp [pullsIn, sinkEvs, sinkEv, pullsInS, ih]
      | _ => simp [pullsIn, sinkEvs, sinkEv, pullsInS, ih]
    | out o => cases o <;> simp [pullsIn, sinkEvs, sinkEv, pullsInS, ih]
    | _ => simp [pullsIn, sinkEvs, sinkEv, ih]

theorem pullsOut_eq (i : Nat) (tr : List (Ev α γ)) : pullsOut i tr = pullsOutS i (srcEvs tr) := by
  induction tr with
  | nil => rfl
  | cons e t ih =>
    cases e with
    | inp m => cases m <;> simp [pullsOut, srcEvs, srcEv, pullsOutS, ih]
    | out o =>
      cases o with
      | srcUp i' u => cases u <;> simp [pullsOut, srcEvs, srcEv, pullsOutS, ih]
      | _ => simp [pullsOut, srcEvs, srcEv, pullsOutS, ih]
    | _ => simp [pullsOut, srcEvs, srcEv, ih]

theorem upFinals_eq (i : Nat) (tr : List (Ev α γ)) : upFinals i tr = upFinS i (srcEvs tr) := by
  induction tr with
  | nil => rfl
  | cons e t ih =>
    cases e with
    | inp m => cases m <;> simp [upFinals, srcEvs, srcEv, upFinS, ih]
    | out o =>
      cases o with
      | srcUp i' u => cases u <;> simp [upFinals, srcEvs, srcEv, upFinS, ih]
      | _ => simp [upFinals, srcEvs, srcEv, upFinS, ih]
    | _ => simp [upFinals, srcEvs, srcEv, ih]

/-! ### the internal interface, read from both ends -/

theorem recvS_dual (k : Nat) (l : List (SinkEv β)) : recvS k l = sentS k (dualEvs l) := by
  induction l with
  | nil => rfl
  | cons e t ih =>
    cases e with
    | down k' d => cases d <;> simp [recvS, dualEvs, dual, sentS, ih]
    | _ => simp [recvS, dualEvs, dual, sentS, ih]

theorem finS_dual (k : Nat) (l : List (SinkEv β)) : finS k l = srcFinS k (dualEvs l) := by
  induction l with
  | nil => rfl
  | cons e t ih =>
    cases e with
    | down k' d => cases d <;> simp [finS, dualEvs, dual, srcFinS, ih]
    | _ => simp [finS, dualEvs, dual, srcFinS, ih]

theorem pullsInS_dual (k : Nat) (l : List (SinkEv β)) : pullsInS k l = pullsOutS k (dualEvs l) := by
  induction l with
  | nil => rfl
  | cons e t ih =>
    cases e with
    | up k' u => cases u <;> simp [pullsInS, dualEvs, dual, pullsOutS, ih]
    | _ => simp [pullsInS, dualEvs, dual, pullsOutS, ih]

/-- the three traces: `tr` of the pipeline, `tr1` of `M₁`, `tr2` of `M₂` -/
structure TrRel (tr : List (Ev α γ)) (tr1 : List (Ev α β)) (tr2 : List (Ev β γ)) : Prop where
  sink : sinkEvs tr = sinkEvs tr2
  src : srcEvs tr = srcEvs tr1
  ifc : dualEvs (sinkEvs tr1) = srcEvs tr2

end Views

/-! ## Part 2: the projection invariant with traces (strengthened copy of `ComposeSafe.step_lo` / `step_hi` / `step_env`) -/
section Steps
variable {S1 L1 S2 L2 α β γ : Type} {M1 : Machine S1 L1 α β} {M2 : Machine S2 L2 β γ}

/-- re-establish `TrRel` after a matched step: every event added to one of the three traces is visible -/
macro "trr" h:ident : tactic =>
  `(tactic| (have h0 := $h
             exact ⟨by simpa [sinkEvs, sinkEv] using h0.sink, by simpa [srcEvs, srcEv] using h0.src,
                    by simpa [sinkEvs, sinkEv, srcEvs, srcEv, dualEvs, dual] using h0.ifc⟩))

theorem step_lo (H : Hyp M1 M2) {st1 : S1} {st2 : S2} {l : L1} {rest : List (CFr L1 L2)}
    {stk : List (Frame (List (CFr L1 L2)) γ)} {g : G} {tr : List (Ev α γ)}
    {k1 : List (Frame L1 β)} {k2 : List (Frame L2 γ)} {g1 g2 : G} {tr1 : List (Ev α β)} {tr2 : List (Ev β γ)}
    {b : Sys (S1 × S2) (List (CFr L1 L2)) α γ}
    (hr1 : SReach M1 ⟨st1, .run l :: k1, g1, tr1, none⟩) (hr2 : SReach M2 ⟨st2, k2, g2, tr2, none⟩)
    (hrel : Rel .lo rest stk k1 k2) (hgh : GhostRel g.ph g1.ph g2.ph) (htr : TrRel tr tr1 tr2)
    (hop : opStep (compose M1 M2) ⟨(st1, st2), .run (.lo l :: rest) :: stk, g, tr, none⟩ = some b) :
    ∃ s1 s2, SReach M1 s1 ∧ SReach M2 s2 ∧ Match b s1 s2 ∧ TrRel b.tr s1.tr s2.tr := by
  have hturn2 : EnvTurn (⟨st2, k2, g2, tr2, none⟩ : Sys S2 L2 β γ) := ⟨rfl, hrel.turns.2⟩
  cases hst : M1.step st1 l with
  | tau s1' l' =>
    simp [opStep, compose, hst] at hop
    subst hop
    exact ⟨_, _, reach_op hr1 (.tau hst), hr2, ⟨rfl, rfl, rfl, rfl, hgh, .runLo hrel⟩, by trr htr⟩
  | panic m =>
    have := (H.safe1 _ (reach_op hr1 (.panic hst))).2
    cases this
  | ret =>
    have hr1' := reach_op hr1 (.ret hst)
    cases rest with
    | nil =>
      simp [opStep, compose, hst] at hop
      subst hop
      exact ⟨_, _, hr1', hr2, ⟨rfl, rfl, rfl, rfl, by simpa using hgh, .turn hrel⟩, by trr htr⟩
    | cons c rest' =>
      simp [opStep, compose, hst] at hop
      subst hop
      cases hrel with
      | @intSub l2 _ _ k2' h =>
        have h1 : g1.ph.sinkPh 0 ≠ .subscribed := by simpa using H.sync _ hr1' rfl
        have h2 : g2.ph.srcPh 0 ≠ .subscribed := by rw [hgh.ifc]; exact fun h => h1 (toSrc_subscribed.1 h)
        have he := EnvStep.ret (M := M2) (st := st2) (stk := k2') (g := g2) (tr := tr2) (o := .subSrc 0) (l := l2)
          (by simp [legalRet, h2])
        exact ⟨_, _, hr1', reach_env hr2 he, ⟨rfl, rfl, rfl, rfl, by simpa using hgh, .runHi h⟩, by trr htr⟩
      | @intUp u l2 _ _ _ k2' h =>
        have he := EnvStep.ret (M := M2) (st := st2) (stk := k2') (g := g2) (tr := tr2) (o := .srcUp 0 u) (l := l2)
          (by simp [legalRet])
        exact ⟨_, _, hr1', reach_env hr2 he, ⟨rfl, rfl, rfl, rfl, by simpa using hgh, .runHi h⟩, by trr htr⟩
  | call o s1' l' =>
    have hr1' := reach_op hr1 (.call hst)
    have hv := (H.safe1 _ hr1').1
    simp only [onOut_ph] at hv
    cases o with
    | greet k =>
      obtain ⟨hsub, heq⟩ := onOut_greet_ok _ _ hv
      cases k with
      | succ k => rw [hgh.sink1 k] at hsub; cases hsub
      | zero =>
        simp [opStep, compose, hst] at hop
        subst hop
        have hsub2 : g2.ph.srcPh 0 = .subscribed := by rw [hgh.ifc, hsub]; rfl
        obtain ⟨l2, r, hk2⟩ := subscribed_top M2 H.lg2 hr2 0 hsub2
        simp only at hk2
        subst hk2
        have he := EnvStep.call (M := M2) (st := st2) (stk := .wait (.subSrc 0) l2 :: r) (g := g2) (tr := tr2)
          (.srcGreet 0) rfl (by simp [legalIn, hsub2, inSub])
        refine ⟨_, _, hr1', reach_env hr2 he, ⟨rfl, rfl, rfl, rfl, ?_, .runHi (.intLo (by simp [Internal1]) hrel)⟩, by trr htr⟩
        simp only [onOut_ph, onIn_ph, heq]
        exact hgh.setIfc .live
    | down k d =>
      obtain ⟨hlive, heq⟩ := onOut_down_ok _ _ _ hv
      cases k with
      | succ k => rw [hgh.sink1 k] at hlive; cases hlive
      | zero =>
        simp [opStep, compose, hst] at hop
        subst hop
        have hlive2 : g2.ph.srcPh 0 = .live := by rw [hgh.ifc, hlive]; rfl
        have hctx : ∃ c, ctxOf k2 = some c ∧ legalIn M2.shape g2.ph c (.srcDown 0 d) = true := by
          rcases hrel.lo_k2 rfl with h | ⟨l2, r, h⟩ | ⟨u, l2, r, h⟩
          · subst h; exact ⟨_, rfl, by simp [legalIn, hlive2, isTop]⟩
          · subst h; exact ⟨_, rfl, by simp [legalIn, hlive2, inSub]⟩
          · subst h
            cases u with
            | pull => exact ⟨_, rfl, by simp [legalIn, hlive2, inPull]⟩
            | term =>
              have := wait_srcUp_disposed M2 hr2 (H.safe2 _ hr2).1 0 .term l2 (by simp) (by simp)
              simp only at this; rw [hlive2] at this; cases this
            | err e =>
              have := wait_srcUp_disposed M2 hr2 (H.safe2 _ hr2).1 0 (.err e) l2 (by simp) (by simp)
              simp only at this; rw [hlive2] at this; cases this
        obtain ⟨c, hc, hl⟩ := hctx
        have he := EnvStep.call (M := M2) (st := st2) (stk := k2) (g := g2) (tr := tr2) (.srcDown 0 d) hc hl
        refine ⟨_, _, hr1', reach_env hr2 he, ⟨rfl, rfl, rfl, rfl, ?_, .runHi (.intLo (by simp [Internal1]) hrel)⟩, by trr htr⟩
        simp only [onOut_ph, onIn_ph, heq]
        cases d with
        | data x => simpa [isFinal, Ph.onIn] using hgh
        | term => simpa [isFinal, Ph.onIn, toSrc] using hgh.setIfc .doneBySrc
        | err e => simpa [isFinal, Ph.onIn, toSrc] using hgh.setIfc .doneBySrc
    | subSrc i =>
      obtain ⟨hidle, hopen, heq⟩ := onOut_subSrc_ok _ _ hv
      simp [opStep, compose, hst] at hop
      subst hop
      have hopenC : g.ph.anySinkOpen = true := by
        obtain ⟨k, hk⟩ := (Ph.anySinkOpen_iff _).1 hopen
        have h2 : g2.ph.srcPh 0 = .subscribed ∨ g2.ph.srcPh 0 = .live := by
          cases k with
          | succ k => rw [hgh.sink1 k] at hk; rcases hk with hk | hk <;> cases hk
          | zero => rw [hgh.ifc]; rcases hk with hk | hk <;> rw [hk] <;> simp [toSrc]
        obtain ⟨k', hk'⟩ := (Ph.anySinkOpen_iff _).1 (H.open2 _ hr2 hturn2 h2)
        exact (Ph.anySinkOpen_iff _).2 ⟨k', by rw [hgh.sink k']; exact hk'⟩
      refine ⟨_, _, hr1', hr2, ⟨rfl, rfl, rfl, rfl, ?_, .turn (.extSub hrel)⟩, by trr htr⟩
      simp only [onOut_ph, heq, onOut_subSrc_eq ((hgh.src i).trans hidle) hopenC]
      exact hgh.setSrcExt i .subscribed
    | srcUp i u =>
      obtain ⟨hlive, heq⟩ := onOut_srcUp_ok _ _ _ hv
      simp [opStep, compose, hst] at hop
      subst hop
      refine ⟨_, _, hr1', hr2, ⟨rfl, rfl, rfl, rfl, ?_, .turn (.extUp hrel)⟩, by trr htr⟩
      simp only [onOut_ph, heq, onOut_srcUp_eq u ((hgh.src i).trans hlive)]
      cases u with
      | pull => exact hgh
      | term => exact hgh.setSrcExt i .disposed
      | err e => exact hgh.setSrcExt i .disposed
    | app b' => exact absurd hst (H.app1 _ _ _ _ _)


theorem step_hi (H : Hyp M1 M2) {st1 : S1} {st2 : S2} {l : L2} {rest : List (CFr L1 L2)}
    {stk : List (Frame (List (CFr L1 L2)) γ)} {g : G} {tr : List (Ev α γ)}
    {k1 : List (Frame L1 β)} {k2 : List (Frame L2 γ)} {g1 g2 : G} {tr1 : List (Ev α β)} {tr2 : List (Ev β γ)}
    {b : Sys (S1 × S2) (List (CFr L1 L2)) α γ}
    (hr1 : SReach M1 ⟨st1, k1, g1, tr1, none⟩) (hr2 : SReach M2 ⟨st2, .run l :: k2, g2, tr2, none⟩)
    (hrel : Rel .hi rest stk k1 k2) (hgh : GhostRel g.ph g1.ph g2.ph) (htr : TrRel tr tr1 tr2)
    (hop : opStep (compose M1 M2) ⟨(st1, st2), .run (.hi l :: rest) :: stk, g, tr, none⟩ = some b) :
    ∃ s1 s2, SReach M1 s1 ∧ SReach M2 s2 ∧ Match b s1 s2 ∧ TrRel b.tr s1.tr s2.tr := by
  cases hst : M2.step st2 l with
  | tau s2' l' =>
    simp [opStep, compose, hst] at hop
    subst hop
    exact ⟨_, _, hr1, reach_op hr2 (.tau hst), ⟨rfl, rfl, rfl, rfl, hgh, .runHi hrel⟩, by trr htr⟩
  | panic m =>
    have := (H.safe2 _ (reach_op hr2 (.panic hst))).2
    cases this
  | ret =>
    have hr2' := reach_op hr2 (.ret hst)
    cases rest with
    | nil =>
      simp [opStep, compose, hst] at hop
      subst hop
      exact ⟨_, _, hr1, hr2', ⟨rfl, rfl, rfl, rfl, by simpa using hgh, .turn hrel⟩, by trr htr⟩
    | cons c rest' =>
      simp [opStep, compose, hst] at hop
      subst hop
      cases hrel with
      | @intLo o l1 _ _ k1' _ ho h =>
        have he := EnvStep.ret (M := M1) (st := st1) (stk := k1') (g := g1) (tr := tr1) (o := o) (l := l1)
          (legalRet_internal1 _ _ ho)
        exact ⟨_, _, reach_env hr1 he, hr2', ⟨rfl, rfl, rfl, rfl, by simpa using hgh, .runLo h⟩, by trr htr⟩
  | call o s2' l' =>
    have hr2' := reach_op hr2 (.call hst)
    have hv := (H.safe2 _ hr2').1
    simp only [onOut_ph] at hv
    cases o with
    | subSrc i =>
      obtain ⟨hidle2, hopen2, heq⟩ := onOut_subSrc_ok _ _ hv
      cases i with
      | succ i => exact absurd hst (H.sub2 _ _ _ _ _)
      | zero =>
        simp [opStep, compose, hst] at hop
        subst hop
        have hidle1 : g1.ph.sinkPh 0 = .idle := toSrc_idle.1 (hgh.ifc ▸ hidle2)
        have hall : ∀ k, g1.ph.sinkPh k = .idle := by
          intro k; cases k with
          | zero => exact hidle1
          | succ k => exact hgh.sink1 k
        have hk1 := (idle_empty M1 hr1 hall).1
        simp only at hk1
        subst hk1
        have he := EnvStep.call (M := M1) (st := st1) (stk := []) (g := g1) (tr := tr1)
          (.subscribe 0) rfl (by simp [legalIn, isTop, hidle1])
        refine ⟨_, _, reach_env hr1 he, hr2', ⟨rfl, rfl, rfl, rfl, ?_, .runLo (.intSub hrel)⟩, by trr htr⟩
        simp only [onOut_ph, onIn_ph, heq]
        exact hgh.setIfc .subscribed
    | srcUp i u =>
      obtain ⟨hlive2, heq⟩ := onOut_srcUp_ok _ _ _ hv
      cases i with
      | succ i => rw [hgh.src2 i] at hlive2; cases hlive2
      | zero =>
        simp [opStep, compose, hst] at hop
        subst hop
        have hlive1 : g1.ph.sinkPh 0 = .live := toSrc_live.1 (hgh.ifc ▸ hlive2)
        have hctx : ∃ c, ctxOf k1 = some c ∧ legalIn M1.shape g1.ph c (.sinkUp 0 u : In α) = true := by
          rcases hrel.hi_k1 rfl with h | ⟨o, l1, r, h, ho⟩
          · subst h; exact ⟨_, rfl, by simp [legalIn, hlive1, isTop]⟩
          · subst h
            cases o with
            | greet k =>
              cases k with
              | zero => exact ⟨_, rfl, by simp [legalIn, hlive1, inGreet]⟩
              | succ k => simp [Internal1] at ho
            | down k d =>
              cases k with
              | succ k => simp [Internal1] at ho
              | zero =>
                cases d with
                | data x => exact ⟨_, rfl, by simp [legalIn, hlive1, inData]⟩
                | term =>
                  have := wait_down_done M1 hr1 (H.safe1 _ hr1).1 0 .term l1 (by simp) rfl
                  simp only at this; rw [hlive1] at this; cases this
                | err e =>
                  have := wait_down_done M1 hr1 (H.safe1 _ hr1).1 0 (.err e) l1 (by simp) rfl
                  simp only at this; rw [hlive1] at this; cases this
            | subSrc i => simp [Internal1] at ho
            | srcUp i u => simp [Internal1] at ho
            | app b => simp [Internal1] at ho
        obtain ⟨c, hc, hl⟩ := hctx
        have he := EnvStep.call (M := M1) (st := st1) (stk := k1) (g := g1) (tr := tr1) (.sinkUp 0 u) hc hl
        refine ⟨_, _, reach_env hr1 he, hr2', ⟨rfl, rfl, rfl, rfl, ?_, .runLo (.intUp hrel)⟩, by trr htr⟩
        simp only [onOut_ph, onIn_ph, heq]
        cases u with
        | pull => simpa [Ph.onIn, afterUp] using hgh
        | term => simpa [Ph.onIn, toSrc, afterUp] using hgh.setIfc .doneBySelf
        | err e => simpa [Ph.onIn, toSrc, afterUp] using hgh.setIfc .doneBySelf
    | greet k =>
      obtain ⟨hsub, heq⟩ := onOut_greet_ok _ _ hv
      simp [opStep, compose, hst] at hop
      subst hop
      refine ⟨_, _, hr1, hr2', ⟨rfl, rfl, rfl, rfl, ?_, .turn (.extHi (by simp [SinkSide]) hrel)⟩, by trr htr⟩
      simp only [onOut_ph, heq, onOut_greet_eq ((hgh.sink k).trans hsub)]
      exact hgh.setSinkExt k .live
    | down k d =>
      obtain ⟨hlive, heq⟩ := onOut_down_ok _ _ _ hv
      simp [opStep, compose, hst] at hop
      subst hop
      refine ⟨_, _, hr1, hr2', ⟨rfl, rfl, rfl, rfl, ?_, .turn (.extHi (by simp [SinkSide]) hrel)⟩, by trr htr⟩
      simp only [onOut_ph, heq, onOut_down_eq d ((hgh.sink k).trans hlive)]
      cases hf : isFinal d with
      | true => simpa using hgh.setSinkExt k .doneBySrc
      | false => simpa using hgh
    | app b' =>
      simp [opStep, compose, hst] at hop
      subst hop
      refine ⟨_, _, hr1, hr2', ⟨rfl, rfl, rfl, rfl, ?_, .turn (.extHi (by simp [SinkSide]) hrel)⟩, by trr htr⟩
      simpa [Ph.onOut] using hgh


theorem step_env {a b : Sys (S1 × S2) (List (CFr L1 L2)) α γ} {s1 : Sys S1 L1 α β} {s2 : Sys S2 L2 β γ}
    {m : Move α} (hr1 : SReach M1 s1) (hr2 : SReach M2 s2) (hm : Match a s1 s2) (htr : TrRel a.tr s1.tr s2.tr) (he : EnvStep (compose M1 M2) m a b) :
    ∃ s1' s2', SReach M1 s1' ∧ SReach M2 s2' ∧ Match b s1' s2' ∧ TrRel b.tr s1'.tr s2'.tr := by
  obtain ⟨st1, k1, g1, tr1, p1⟩ := s1
  obtain ⟨st2, k2, g2, tr2, p2⟩ := s2
  obtain ⟨hst, _, hp1, hp2, hgh, hsm⟩ := hm
  simp only at hp1 hp2
  subst hp1 hp2
  cases he with
  | @call st stk g tr c i hc hl =>
    simp only at hst hgh hsm htr
    subst hst
    cases hsm with
    | runLo h => simp [ctxOf] at hc
    | runHi h => simp [ctxOf] at hc
    | turn hrel =>
      cases i with
      | subscribe k =>
        simp only [legalIn, Bool.and_eq_true, beq_iff_eq, Bool.or_eq_true, compose] at hl
        obtain ⟨⟨hc', hidle⟩, hk⟩ := hl
        cases hrel with
        | extSub h => simp [ctxOf] at hc; subst hc; simp [isTop] at hc'
        | extUp h => simp [ctxOf] at hc; subst hc; simp [isTop] at hc'
        | extHi ho h => simp [ctxOf] at hc; subst hc; simp [isTop] at hc'
        | nil =>
          have he2 := EnvStep.call (M := M2) (st := st2) (stk := []) (g := g2) (tr := tr2) (.subscribe k) rfl
            (by simp only [legalIn, Bool.and_eq_true, beq_iff_eq, Bool.or_eq_true]
                exact ⟨⟨rfl, (hgh.sink k).symm.trans hidle⟩, hk⟩)
          refine ⟨_, _, hr1, reach_env hr2 he2, ⟨rfl, rfl, rfl, rfl, ?_, .runHi .nil⟩, by trr htr⟩
          simp only [onIn_ph, Ph.onIn]
          exact hgh.setSinkExt k .subscribed
      | sinkUp k u =>
        simp only [legalIn, Bool.and_eq_true, beq_iff_eq, Bool.or_eq_true] at hl
        obtain ⟨hlive, hctx⟩ := hl
        have hlive2 : g2.ph.sinkPh k = .live := (hgh.sink k).symm.trans hlive
        have hgh' : GhostRel (g.ph.onIn (.sinkUp k u : In α)) g1.ph (g2.ph.onIn (.sinkUp k u : In β)) := by
          cases u with
          | pull => exact hgh
          | term => exact hgh.setSinkExt k .doneBySelf
          | err e => exact hgh.setSinkExt k .doneBySelf
        cases hrel with
        | extSub h => simp [ctxOf] at hc; subst hc; simp [isTop, inGreet, inData] at hctx
        | extUp h => simp [ctxOf] at hc; subst hc; simp [isTop, inGreet, inData] at hctx
        | nil =>
          have he2 := EnvStep.call (M := M2) (st := st2) (stk := []) (g := g2) (tr := tr2) (.sinkUp k u) rfl
            (by simp [legalIn, hlive2, isTop])
          refine ⟨_, _, hr1, reach_env hr2 he2, ⟨rfl, rfl, rfl, rfl, ?_, .runHi .nil⟩, by trr htr⟩
          simpa only [onIn_ph] using hgh'
        | @extHi o l2 cfs stk' _ k2' ho h =>
          simp [ctxOf] at hc; subst hc
          have he2 := EnvStep.call (M := M2) (st := st2) (stk := .wait o l2 :: k2') (g := g2) (tr := tr2) (.sinkUp k u) rfl
            (by simp only [legalIn, Bool.and_eq_true, beq_iff_eq, Bool.or_eq_true]; exact ⟨hlive2, hctx⟩)
          refine ⟨_, _, hr1, reach_env hr2 he2, ⟨rfl, rfl, rfl, rfl, ?_, .runHi (.extHi ho h)⟩, by trr htr⟩
          simpa only [onIn_ph] using hgh'
      | srcGreet i =>
        simp only [legalIn, Bool.and_eq_true, beq_iff_eq, Bool.or_eq_true, compose] at hl
        obtain ⟨hsub, hctx⟩ := hl
        have hsub1 : g1.ph.srcPh i = .subscribed := (hgh.src i).symm.trans hsub
        have hgh' : GhostRel (g.ph.onIn (.srcGreet i : In α)) (g1.ph.onIn (.srcGreet i : In α)) g2.ph :=
          hgh.setSrcExt i .live
        cases hrel with
        | @extHi o _ _ _ _ _ ho h =>
          simp [ctxOf] at hc; subst hc
          cases o <;> simp [isTop, inSub, SinkSide] at hctx ho
        | @extUp j u l1 cfs stk' k1' _ h => simp [ctxOf] at hc; subst hc; simp [isTop, inSub] at hctx
        | nil =>
          simp [ctxOf] at hc; subst hc
          have he1 := EnvStep.call (M := M1) (st := st1) (stk := []) (g := g1) (tr := tr1) (.srcGreet i) rfl
            (by simp only [legalIn, Bool.and_eq_true, beq_iff_eq, Bool.or_eq_true]; exact ⟨hsub1, by simpa [isTop, inSub, inPull] using hctx⟩)
          refine ⟨_, _, reach_env hr1 he1, hr2, ⟨rfl, rfl, rfl, rfl, ?_, .runLo .nil⟩, by trr htr⟩
          simpa only [onIn_ph] using hgh'
        | @extSub j l1 cfs stk' k1' _ h =>
          simp [ctxOf] at hc; subst hc
          have he1 := EnvStep.call (M := M1) (st := st1) (stk := .wait (.subSrc j) l1 :: k1') (g := g1) (tr := tr1)
            (.srcGreet i) rfl
            (by simp only [legalIn, Bool.and_eq_true, beq_iff_eq, Bool.or_eq_true]; exact ⟨hsub1, by simpa [isTop, inSub, inPull] using hctx⟩)
          refine ⟨_, _, reach_env hr1 he1, hr2, ⟨rfl, rfl, rfl, rfl, ?_, .runLo (.extSub h)⟩, by trr htr⟩
          simpa only [onIn_ph] using hgh'
      | srcDown i d =>
        simp only [legalIn, Bool.and_eq_true, beq_iff_eq, Bool.or_eq_true] at hl
        obtain ⟨hlive, hctx⟩ := hl
        have hlive1 : g1.ph.srcPh i = .live := (hgh.src i).symm.trans hlive
        have hgh' : GhostRel (g.ph.onIn (.srcDown i d)) (g1.ph.onIn (.srcDown i d)) g2.ph := by
          cases d with
          | data x => exact hgh
          | term => exact hgh.setSrcExt i .ended
          | err e => exact hgh.setSrcExt i .ended
        cases hrel with
        | @extHi o _ _ _ _ _ ho h =>
          simp [ctxOf] at hc; subst hc
          cases o <;> simp [isTop, inSub, inPull, SinkSide] at hctx ho
        | nil =>
          have he1 := EnvStep.call (M := M1) (st := st1) (stk := []) (g := g1) (tr := tr1) (.srcDown i d) rfl
            (by simp [legalIn, hlive1, isTop])
          refine ⟨_, _, reach_env hr1 he1, hr2, ⟨rfl, rfl, rfl, rfl, ?_, .runLo .nil⟩, by trr htr⟩
          simpa only [onIn_ph] using hgh'
        | @extSub j l1 cfs stk' k1' _ h =>
          simp [ctxOf] at hc; subst hc
          have he1 := EnvStep.call (M := M1) (st := st1) (stk := .wait (.subSrc j) l1 :: k1') (g := g1) (tr := tr1)
            (.srcDown i d) rfl
            (by simp only [legalIn, Bool.and_eq_true, beq_iff_eq, Bool.or_eq_true]; exact ⟨hlive1, by simpa [isTop, inSub, inPull] using hctx⟩)
          refine ⟨_, _, reach_env hr1 he1, hr2, ⟨rfl, rfl, rfl, rfl, ?_, .runLo (.extSub h)⟩, by trr htr⟩
          simpa only [onIn_ph] using hgh'
        | @extUp j u l1 cfs stk' k1' _ h =>
          simp [ctxOf] at hc; subst hc
          have he1 := EnvStep.call (M := M1) (st := st1) (stk := .wait (.srcUp j u) l1 :: k1') (g := g1) (tr := tr1)
            (.srcDown i d) rfl
            (by simp only [legalIn, Bool.and_eq_true, beq_iff_eq, Bool.or_eq_true]
                refine ⟨hlive1, ?_⟩
                cases u <;> simp [isTop, inSub, inPull] at hctx ⊢ <;> exact hctx)
          refine ⟨_, _, reach_env hr1 he1, hr2, ⟨rfl, rfl, rfl, rfl, ?_, .runLo (.extUp h)⟩, by trr htr⟩
          simpa only [onIn_ph] using hgh'
  | @ret st stk g tr o l hl =>
    simp only at hst hgh hsm htr
    subst hst
    cases hsm with
    | turn hrel =>
      cases hrel with
      | @extSub j l1 cfs _ k1' _ h =>
        have he1 := EnvStep.ret (M := M1) (st := st1) (stk := k1') (g := g1) (tr := tr1) (o := .subSrc j) (l := l1)
          (by simpa [legalRet, compose, hgh.src j] using hl)
        exact ⟨_, _, reach_env hr1 he1, hr2, ⟨rfl, rfl, rfl, rfl, hgh, .runLo h⟩, by trr htr⟩
      | @extUp j u l1 cfs _ k1' _ h =>
        have he1 := EnvStep.ret (M := M1) (st := st1) (stk := k1') (g := g1) (tr := tr1) (o := .srcUp j u) (l := l1)
          (by simp [legalRet])
        exact ⟨_, _, reach_env hr1 he1, hr2, ⟨rfl, rfl, rfl, rfl, hgh, .runLo h⟩, by trr htr⟩
      | @extHi _ l2 cfs _ _ k2' ho h =>
        have he2 := EnvStep.ret (M := M2) (st := st2) (stk := k2') (g := g2) (tr := tr2) (o := o) (l := l2)
          (legalRet_sinkSide _ _ ho)
        exact ⟨_, _, hr1, reach_env hr2 he2, ⟨rfl, rfl, rfl, rfl, hgh, .runHi h⟩, by trr htr⟩


/-- THE INVARIANT, with traces -/
theorem compose_inv_tr (H : Hyp M1 M2) :
    ∀ s, SReach (compose M1 M2) s →
      ∃ s1 s2, SReach M1 s1 ∧ SReach M2 s2 ∧ Match s s1 s2 ∧ TrRel s.tr s1.tr s2.tr := by
  intro s hs
  induction hs with
  | init =>
    refine ⟨Sys.init M1, Sys.init M2, .init, .init, ⟨rfl, rfl, rfl, rfl, ?_, .turn (sd := .lo) .nil⟩, ⟨rfl, rfl, rfl⟩⟩
    exact ⟨rfl, fun k => by simp [Sys.init], fun i => by simp [Sys.init], by simp [Sys.init, toSrc],
      fun k => by simp [Sys.init], fun i => by simp [Sys.init]⟩
  | @step a b ha hab ih =>
    obtain ⟨s1, s2, hr1, hr2, hm, htr⟩ := ih
    cases hab with
    | env he _ => exact step_env hr1 hr2 hm htr he
    | op hop =>
      obtain ⟨st, stk, g, tr, p⟩ := a
      obtain ⟨st1, k1, g1, tr1, p1⟩ := s1
      obtain ⟨st2, k2, g2, tr2, p2⟩ := s2
      obtain ⟨hst, hp, hp1, hp2, hgh, hsm⟩ := hm
      simp only at hst hp hp1 hp2 hgh hsm htr
      subst hst hp hp1 hp2
      cases hsm with
      | turn hrel =>
        have := opStep_none_of_envTurn (M := compose M1 M2)
          (s := ⟨(st1, st2), stk, g, tr, none⟩) ⟨rfl, hrel.turn_stk⟩
        rw [this] at hop; cases hop
      | runLo hrel => exact step_lo H hr1 hr2 hrel hgh htr hop
      | runHi hrel => exact step_hi H hr1 hr2 hrel hgh htr hop

end Steps

/-! ## Part 3: (T1)–(T4) and the list function of a pipeline -/
section Io
variable {S1 L1 S2 L2 α β γ : Type} {M1 : Machine S1 L1 α β} {M2 : Machine S2 L2 β γ}

/-- (T4), no side condition: at an environment turn of the pipeline both components are at environment turns of their own — a
component waiting on an internal call is, from its own point of view, waiting on its environment -/
theorem match_turns {s : Sys (S1 × S2) (List (CFr L1 L2)) α γ} {s1 : Sys S1 L1 α β} {s2 : Sys S2 L2 β γ}
    (hm : Match s s1 s2) (ht : EnvTurn s) : EnvTurn s1 ∧ EnvTurn s2 := by
  obtain ⟨st, stk, g, tr, p⟩ := s
  obtain ⟨st1, k1, g1, tr1, p1⟩ := s1
  obtain ⟨st2, k2, g2, tr2, p2⟩ := s2
  obtain ⟨_, _, hp1, hp2, _, hsm⟩ := hm
  simp only at hp1 hp2 hsm
  cases hsm with
  | turn hrel => exact ⟨⟨hp1, hrel.turns.1⟩, ⟨hp2, hrel.turns.2⟩⟩
  | runLo hrel => have := ht.2; simp [ctxOf] at this
  | runHi hrel => have := ht.2; simp [ctxOf] at this

/-- a pipeline configuration `s` and its projections `s₁`, `s₂`, with everything the projection preserves -/
structure Proj (s : Sys (S1 × S2) (List (CFr L1 L2)) α γ) (s1 : Sys S1 L1 α β) (s2 : Sys S2 L2 β γ) : Prop where
  /-- states, stacks, phases (ComposeSafe) -/
  m : Match s s1 s2
  /-- (T1) what the pipeline delivers to its sinks is what `M₂` delivers -/
  recv : ∀ k, recvData k s.tr = recvData k s2.tr
  /-- (T2) what the pipeline receives from its upstreams is what `M₁` receives -/
  sent : ∀ i, sentData i s.tr = sentData i s1.tr
  /-- (T3) the internal interface: what `M₁` delivered to its sink is what `M₂` received from its upstream -/
  ifc : ∀ k, recvData k s1.tr = sentData k s2.tr
  /-- (T4) -/
  turn : EnvTurn s → EnvTurn s1 ∧ EnvTurn s2
  /-- terminals delivered to the sinks -/
  fin : ∀ k, finalsTo k s.tr = finalsTo k s2.tr
  /-- closure applications (`for_each` as the last stage) -/
  app : applied s.tr = applied s2.tr
  /-- Pulls received from the sinks / sent to the upstreams / passed across the interface -/
  pullsIn : ∀ k, pullsIn k s.tr = pullsIn k s2.tr
  pullsOut : ∀ i, pullsOut i s.tr = pullsOut i s1.tr
  ifcPulls : ∀ k, Cb.pullsIn k s1.tr = Cb.pullsOut k s2.tr
  /-- Terminate / Error sent to the upstreams -/
  upFin : ∀ i, upFinals i s.tr = upFinals i s1.tr

theorem Proj.of {s : Sys (S1 × S2) (List (CFr L1 L2)) α γ} {s1 : Sys S1 L1 α β} {s2 : Sys S2 L2 β γ}
    (hm : Match s s1 s2) (ht : TrRel s.tr s1.tr s2.tr) : Proj s s1 s2 where
  m := hm
  recv k := by rw [recvData_eq, recvData_eq, ht.sink]
  sent i := by rw [sentData_eq, sentData_eq, ht.src]
  ifc k := by rw [recvData_eq, sentData_eq, recvS_dual, ht.ifc]
  turn := match_turns hm
  fin k := by rw [finalsTo_eq, finalsTo_eq, ht.sink]
  app := by rw [applied_eq, applied_eq, ht.sink]
  pullsIn k := by rw [pullsIn_eq, pullsIn_eq, ht.sink]
  pullsOut i := by rw [pullsOut_eq, pullsOut_eq, ht.src]
  ifcPulls k := by rw [pullsIn_eq, pullsOut_eq, pullsInS_dual, ht.ifc]
  upFin i := by rw [upFinals_eq, upFinals_eq, ht.src]

/-- every reachable configuration of the pipeline projects onto reachable configurations of its components, traces included -/
theorem compose_proj (H : Hyp M1 M2) :
    ∀ s, SReach (compose M1 M2) s → ∃ s1 s2, SReach M1 s1 ∧ SReach M2 s2 ∧ Proj s s1 s2 := by
  intro s hs
  obtain ⟨s1, s2, hr1, hr2, hm, ht⟩ := compose_inv_tr H s hs
  exact ⟨s1, s2, hr1, hr2, .of hm ht⟩

/-- **The list function of a pipeline is the composition of the list functions of its stages**, at every point where the
environment has control -/
theorem compose_io {F1 : List α → List β} {F2 : List β → List γ} (H : Hyp M1 M2)
    (h1 : ∀ s1, SReach M1 s1 → EnvTurn s1 → recvData 0 s1.tr = F1 (sentData 0 s1.tr))
    (h2 : ∀ s2, SReach M2 s2 → EnvTurn s2 → recvData 0 s2.tr = F2 (sentData 0 s2.tr)) :
    ∀ s, SReach (compose M1 M2) s → EnvTurn s → recvData 0 s.tr = F2 (F1 (sentData 0 s.tr)) := by
  intro s hs ht
  obtain ⟨s1, s2, hr1, hr2, hp⟩ := compose_proj H s hs
  obtain ⟨ht1, ht2⟩ := hp.turn ht
  rw [hp.recv 0, h2 s2 hr2 ht2, ← hp.ifc 0, h1 s1 hr1 ht1, ← hp.sent 0]

/-- the same for a pipeline that ends in a consumer (`for_each`): what the closure is applied to -/
theorem compose_io_applied {F1 : List α → List β} {F2 : List β → List γ} (H : Hyp M1 M2)
    (h1 : ∀ s1, SReach M1 s1 → EnvTurn s1 → recvData 0 s1.tr = F1 (sentData 0 s1.tr))
    (h2 : ∀ s2, SReach M2 s2 → EnvTurn s2 → applied s2.tr = F2 (sentData 0 s2.tr)) :
    ∀ s, SReach (compose M1 M2) s → EnvTurn s → applied s.tr = F2 (F1 (sentData 0 s.tr)) := by
  intro s hs ht
  obtain ⟨s1, s2, hr1, hr2, hp⟩ := compose_proj H s hs
  obtain ⟨ht1, ht2⟩ := hp.turn ht
  rw [hp.app, h2 s2 hr2 ht2, ← hp.ifc 0, h1 s1 hr1 ht1, ← hp.sent 0]

end Io
end ComposeFun

/-! ## Part 4: `IoSpec`, closed under `compose`; instances; worked examples -/

/-- `M` computes the list function `F`: whenever the environment has control, what sink 0 has received is `F` of what upstream 0
has sent -/
def IoSpec {St Loc α β : Type} (M : Machine St Loc α β) (F : List α → List β) : Prop :=
  ∀ s, SReach M s → EnvTurn s → recvData 0 s.tr = F (sentData 0 s.tr)

theorem IoSpec.congr {St Loc α β : Type} {M : Machine St Loc α β} {F G : List α → List β} (h : IoSpec M F)
    (hFG : ∀ l, F l = G l) : IoSpec M G := fun s hs ht => (h s hs ht).trans (hFG _)

open ComposeSafe ComposeFun in
/-- by role: a head-capable `M₁` computing `F₁` followed by a tail-capable `M₂` computing `F₂` computes `F₂ ∘ F₁` -/
theorem IoSpec.compose {S1 L1 S2 L2 α β γ : Type} {M1 : Machine S1 L1 α β} {M2 : Machine S2 L2 β γ}
    {F1 : List α → List β} {F2 : List β → List γ} (U1 : UpSide M1) (D2 : DownSide M2)
    (h1 : IoSpec M1 F1) (h2 : IoSpec M2 F2) : IoSpec (Cb.compose M1 M2) (F2 ∘ F1) :=
  compose_io (hyp_of_roles U1 D2) h1 h2

/-- a pipeline stage: usable in either role, and computing `F` -/
structure Stage {St Loc α β : Type} (M : Machine St Loc α β) (F : List α → List β) : Prop where
  pipe : Pipeable M
  io : IoSpec M F

/-- chains of any length, by iteration -/
theorem Stage.compose {S1 L1 S2 L2 α β γ : Type} {M1 : Machine S1 L1 α β} {M2 : Machine S2 L2 β γ}
    {F1 : List α → List β} {F2 : List β → List γ} (h1 : Stage M1 F1) (h2 : Stage M2 F2) :
    Stage (Cb.compose M1 M2) (F2 ∘ F1) :=
  ⟨h1.pipe.compose h2.pipe, IoSpec.compose h1.pipe.upSide h2.pipe.downSide h1.io h2.io⟩

theorem Stage.congr {St Loc α β : Type} {M : Machine St Loc α β} {F G : List α → List β} (h : Stage M F)
    (hFG : ∀ l, F l = G l) : Stage M G := ⟨h.pipe, h.io.congr hFG⟩

/-- pipelines are safe and compute the composed function, in one statement -/
theorem Stage.spec {St Loc α β : Type} {M : Machine St Loc α β} {F : List α → List β} (h : Stage M F) :
    (∀ s, SReach M s → BasicSafe s) ∧ (∀ s, SReach M s → EnvTurn s → recvData 0 s.tr = F (sentData 0 s.tr)) :=
  ⟨h.pipe.safe, h.io⟩

/-! ### instances -/

theorem Relay.stage {σ α β : Type} (k : Relay.Kind σ α β) (hk : k.slotted = false → ∀ s a, (k.xfer s a).2 ≠ none) :
    Stage (Relay.machine k) (xferOut k.xfer k.seed) :=
  ⟨Relay.pipeable k hk, RelayFun.relay_io k hk⟩

theorem Relay.map_stage {α β : Type} (f : α → β) : Stage (Relay.machine (Relay.map f)) (List.map f) :=
  (Relay.stage (Relay.map f) (fun _ _ _ => by simp [Relay.map])).congr (fun l => RelayFun.xferOut_map f _ l)

theorem Relay.filter_stage {α : Type} (p : α → Bool) : Stage (Relay.machine (Relay.filter p)) (List.filter p) :=
  (Relay.stage (Relay.filter p) (fun h => by simp [Relay.filter] at h)).congr (fun l => RelayFun.xferOut_filter p _ l)

theorem Relay.scan_stage {α β : Type} (r : β → α → β) (seed : β) :
    Stage (Relay.machine (Relay.scan r seed)) (scanF r seed) :=
  (Relay.stage (Relay.scan r seed) (fun _ _ _ => by simp [Relay.scan])).congr (fun l => RelayFun.xferOut_scan r seed _ l)

theorem Relay.skip_stage {α : Type} (n : Nat) : Stage (Relay.machine (Relay.skip (α := α) n)) (List.drop n) :=
  (Relay.stage (Relay.skip n) (fun h => by simp [Relay.skip] at h)).congr
    (fun l => by have := RelayFun.xferOut_skip (α := α) n 0 l; simpa [Relay.skip] using this)

theorem Take.stage {α : Type} (max : Nat) : Stage (Take.machine α max) (List.take max) :=
  ⟨Take.pipeable max, fun s hs ht => (TakeFun.finv_of_reach max s hs ht).2.io⟩

/-! ### worked examples -/

/-- `pipe!(source, map(f), filter(p), take(n))` is phase-level safe, never panics, and at every environment turn has delivered
`((xs.map f).filter p).take n`, where `xs` is what the source has sent so far -/
theorem map_filter_take {α β : Type} (f : α → β) (p : β → Bool) (n : Nat) :
    (∀ s, SReach (compose (compose (Relay.machine (Relay.map f)) (Relay.machine (Relay.filter p))) (Take.machine β n)) s →
      BasicSafe s) ∧
    (∀ s, SReach (compose (compose (Relay.machine (Relay.map f)) (Relay.machine (Relay.filter p))) (Take.machine β n)) s →
      EnvTurn s → recvData 0 s.tr = (((sentData 0 s.tr).map f).filter p).take n) :=
  (((Relay.map_stage f).compose (Relay.filter_stage p)).compose (Take.stage n)).spec

/-- five stages, bracketed to the right: `skip(k) | scan(r, seed) | map(f) | filter(p) | take(n)` -/
example {α β γ : Type} (k : Nat) (r : β → α → β) (seed : β) (f : β → γ) (p : γ → Bool) (n : Nat) :
    ∀ s, SReach (compose (Relay.machine (Relay.skip (α := α) k)) (compose (Relay.machine (Relay.scan r seed))
        (compose (Relay.machine (Relay.map f)) (compose (Relay.machine (Relay.filter p)) (Take.machine γ n))))) s →
      EnvTurn s → recvData 0 s.tr = ((((scanF r seed ((sentData 0 s.tr).drop k)).map f).filter p).take n) :=
  ((Relay.skip_stage k).compose ((Relay.scan_stage r seed).compose ((Relay.map_stage f).compose
    ((Relay.filter_stage p).compose (Take.stage n))))).io

/-- a head that is not a stage: `pipe!(concat!(a, b), <stage>)` delivers `F` of whatever `concat!` has delivered to the stage;
stated with the projection, since `concat!`'s output depends on two upstreams -/
example {S L α β : Type} {M : Machine S L α β} {F : List α → List β} (hM : Stage M F) :
    ∀ s, SReach (compose (Concat.machine α 2) M) s → EnvTurn s →
      ∃ s1, SReach (Concat.machine α 2) s1 ∧ EnvTurn s1 ∧ (∀ i, sentData i s.tr = sentData i s1.tr) ∧
        recvData 0 s.tr = F (recvData 0 s1.tr) := by
  intro s hs ht
  obtain ⟨s1, s2, hr1, hr2, hp⟩ :=
    ComposeFun.compose_proj (hyp_of_roles (Concat.upSide 2 (by decide)) hM.pipe.downSide) s hs
  obtain ⟨ht1, ht2⟩ := hp.turn ht
  exact ⟨s1, hr1, ht1, hp.sent, by rw [hp.recv 0, hM.io s2 hr2 ht2, hp.ifc 0]⟩

end Cb

#print axioms Cb.ComposeFun.compose_inv_tr
#print axioms Cb.ComposeFun.compose_proj
#print axioms Cb.ComposeFun.compose_io
#print axioms Cb.IoSpec.compose
#print axioms Cb.Stage.compose
#print axioms Cb.map_filter_take
