import CallbagModel.Inv.ConcatN
import CallbagModel.Inv.FlatPlugFun
import CallbagModel.Closed.Prog2Def
import CallbagModel.Inv.ComposeCost
/-!
# The cost of joins that are run to their end: `concat!` (binary, n-ary) and `flatten`, member by member

`CostN M nx c`: at every reachable configuration of the closed head `M` the counter `nx` (iterator advances) is at most `c`, and at top
level, once `M` has delivered its terminal, it is at least `c` — the cost under the demand "everything" (`none` of `Ops/Pipeline.lean`).

* `PartK n js c M nx`: the n-ary `concat` machine with the slots in `js` plugged (in any order) by closed heads whose costs are `c i`;
  `PartK.plug` adds a slot, `PartK.cost` closes: `CostN M nx (Σ_{i ∈ js} c i)` once every slot is plugged.  `nx` of a plugged network is
  the SUM over the members, so the bounds add up; the lower bound uses "delivered the terminal ⇒ every member has ended"
  (`K1`, `K2` of `Inv/PlugConcat.lean`, no member sends `Error`).
* `CostN.concat2`, `CostN.concatM`: the two terms the driver builds.
* `CostN.flat`: `flatPlug Mo Mi initOf` with every inner source of cost `ci`: `co + |ys| * ci` (`ys` the outer list).

This is the demand `none` only: a join under a `take` is asked for less, and the rule for that is NOT here (see the header of `Closed/Prog3Cost.lean`
for why the obvious rule is false for members that end on their own).
-/
namespace Cb
namespace PlugCost
open ComposeSafe ComposeFun ComposeComplete PlugSafe PlugConcat PlugConcat.CK ConcatN

/-- the cost of a closed head under the demand "everything" -/
structure CostN {St Loc α β : Type} (M : Machine St Loc α β) (nx : St → Nat) (c : Nat) : Prop where
  ub : ∀ s, SReach M s → nx s.st ≤ c
  lb : ∀ s, SReach M s → s.stack = [] → s.g.ph.sinkPh 0 = .doneBySrc → c ≤ nx s.st

/-! ## source-side events outside a set of slots -/
section Filter
variable {α : Type}

def srcOut (js : List Nat) (l : List (SrcEv α)) : List (SrcEv α) := l.filter (fun e => !(js.contains (srcIdx e)))

theorem srcOut_nil (l : List (SrcEv α)) : srcOut [] l = l := by simp [srcOut]

theorem srcNe_srcOut (k : Nat) (js : List Nat) (l : List (SrcEv α)) : srcNe k (srcOut js l) = srcOut (k :: js) l := by
  simp only [srcNe, srcOut, List.filter_filter]
  congr 1
  funext e
  simp only [List.contains_cons]
  cases h1 : (srcIdx e == k) <;> cases h2 : js.contains (srcIdx e) <;> simp [bne, h1]

theorem srcEq_srcOut {k : Nat} {js : List Nat} (hk : k ∉ js) (l : List (SrcEv α)) : srcEq k (srcOut js l) = srcEq k l := by
  simp only [srcEq, srcOut, List.filter_filter]
  congr 1
  funext e
  by_cases h : srcIdx e = k
  · simp [h, hk]
  · simp [h]

end Filter

/-! ## the n-ary `concat` with some slots plugged -/
section Partial

/-- the cost of member `i` counts once it has ended -/
def endC (ph : Ph) (c : Nat → Nat) (i : Nat) : Nat :=
  match ph.srcPh i with
  | .ended => c i
  | _ => 0

theorem endC_ended {ph : Ph} {c : Nat → Nat} {i : Nat} (h : ph.srcPh i = .ended) : endC ph c i = c i := by simp [endC, h]

structure ViewK {St Loc : Type} (js : List Nat) (s : Sys St Loc Int Int) (sC : CSys) : Prop where
  src : srcEvs s.tr = srcOut js (srcEvs sC.tr)
  sinkPh : ∀ j, s.g.ph.sinkPh j = sC.g.ph.sinkPh j
  srcPh : ∀ i, i ∉ js → s.g.ph.srcPh i = sC.g.ph.srcPh i
  top : s.stack = [] → sC.stack = []

/-- the n-ary `concat` machine with the slots in `js` plugged by closed heads of cost `c i` -/
structure PartK {St Loc : Type} (n : Nat) (js : List Nat) (c : Nat → Nat) (M : Machine St Loc Int Int) (nx : St → Nat) : Prop where
  up : UpSide M
  proj : ∀ s, SReach M s → ∃ sC : CSys, SReach (Concat.machine Int n) sC ∧ sC.panicked = none ∧ ViewK js s sC ∧
    (∀ i ∈ js, ∀ e, SrcEv.down i (Down.err e) ∉ srcEvs sC.tr) ∧
    nx s.st ≤ (js.map c).sum ∧
    (s.stack = [] → (js.map (endC sC.g.ph c)).sum ≤ nx s.st)

theorem PartK.base (n : Nat) (hn : 0 < n) (c : Nat → Nat) : PartK n [] c (Concat.machine Int n) (fun _ => 0) := by
  refine ⟨Concat.upSide n hn, fun s hs => ?_⟩
  exact ⟨s, hs, (Concat.concat_basicSafe n hn s hs).2, ⟨(srcOut_nil _).symm, fun _ => rfl, fun _ _ => rfl, id⟩,
    (fun i hi => by cases hi), Nat.le_refl _, fun _ => Nat.le_refl _⟩

/-- **plugging one more slot** -/
theorem PartK.plug {SA LA αA St Loc : Type} {A : Machine SA LA αA Int} {M : Machine St Loc Int Int} {n k : Nat} {js : List Nat}
    {c : Nat → Nat} {nx : St → Nat} {nxA : SA → Nat} {ys : List Int}
    (hM : PartK n js c M nx) (hk : k ∉ js) (hA : HeadOkT A ys) (NA : ComposeFull.NoUpstream A) (cA : CostN A nxA (c k)) :
    PartK n (k :: js) c (Cb.plug k A M) (fun st => nxA st.1 + nx st.2) := by
  have H : HypP A M := hypP_of hA.head.up NA hM.up.safe
  refine ⟨UpSide.plug H k hM.up, ?_⟩
  intro s hs
  obtain ⟨sA, sM, hrA, hrM, hm, ht⟩ := plug_inv_tr H k s hs
  obtain ⟨sC, hrC, hpC, hv, hne, hub, hlb⟩ := hM.proj sM hrM
  have hifc : srcEq k (srcEvs sC.tr) = dualJ k (sinkEvs sA.tr) := by
    rw [← srcEq_srcOut hk, ← hv.src, ht.ifc]
  have hph : sC.g.ph.srcPh k = toSrc (sA.g.ph.sinkPh 0) := (hv.srcPh k hk).symm.trans hm.gh.ifc
  have hst : s.st = (sA.st, sM.st) := hm.st
  refine ⟨sC, hrC, hpC, ⟨?_, fun j => (hm.gh.sink j).trans (hv.sinkPh j), ?_, fun h => hv.top (matchP_top hm h).2⟩, ?_, ?_, ?_⟩
  · rw [ht.src, hv.src, srcNe_srcOut]
  · intro i hi
    have h1 : i ≠ k := fun h => hi (h ▸ List.mem_cons_self)
    have h2 : i ∉ js := fun h => hi (List.mem_cons_of_mem _ h)
    exact (hm.gh.src i h1).trans (hv.srcPh i h2)
  · intro i hi e he
    rcases List.mem_cons.1 hi with rfl | hi
    · have : SrcEv.down i (Down.err e) ∈ srcEq i (srcEvs sC.tr) := by simp [srcEq, srcIdx, he]
      rw [hifc] at this
      exact hA.noErr sA hrA ⟨0, e, mem_dualJ_down this⟩
    · exact hne i hi e he
  · rw [hst]
    simp only [List.map_cons, List.sum_cons]
    have := cA.ub sA hrA
    omega
  · intro hstk
    obtain ⟨hkA, hkM⟩ := matchP_top hm hstk
    rw [hst]
    simp only [List.map_cons, List.sum_cons]
    have h2 := hlb hkM
    have h1 : endC sC.g.ph c k ≤ nxA sA.st := by
      by_cases hp : sC.g.ph.srcPh k = .ended
      · rw [endC_ended hp]
        exact cA.lb sA hrA hkA (toSrc_ended.1 (hph ▸ hp))
      · have : endC sC.g.ph c k = 0 := by
          unfold endC
          split
          · rename_i h; exact absurd h hp
          · rfl
        omega
    omega

/-- **every slot plugged**: the costs of the members add up -/
theorem PartK.cost {St Loc : Type} {M : Machine St Loc Int Int} {n : Nat} (hn : 0 < n) {js : List Nat} {c : Nat → Nat} {nx : St → Nat}
    (hM : PartK n js c M nx) (hall : ∀ i, i < n → i ∈ js) (hlt : ∀ i ∈ js, i < n) : CostN M nx (js.map c).sum := by
  refine ⟨fun s hs => ?_, fun s hs hstk hd => ?_⟩
  · obtain ⟨sC, _, _, _, _, hub, _⟩ := hM.proj s hs
    exact hub
  · obtain ⟨sC, hrC, hpC, hv, hne, _, hlb⟩ := hM.proj s hs
    have hdC : sC.g.ph.sinkPh 0 = .doneBySrc := by rw [← hv.sinkPh 0]; exact hd
    have hk1 := K1_reach n hn sC hrC hpC
    have hk2 := K2_reach n hn sC hrC hpC
    have hi : sC.st.i = n := by
      rcases hk2.tout hdC with h | ⟨i, e, hlt, he⟩
      · exact h
      · exact absurd he (hne i (hall i hlt) e)
    have hend : ∀ i, i < n → sC.g.ph.srcPh i = .ended := fun i hlt => hk1.s1 i (by omega)
    have := hlb hstk
    rw [List.map_congr_left (f := endC sC.g.ph c) (g := c) (fun i hi => endC_ended (hend i (hlt i hi)))] at this
    exact this

end Partial

/-! ## the terms the driver builds -/
section Driver
open Closed ComposeFull

/-- `[k-1, …, 0]`: the slots plugged after `k` steps of `concatM` -/
def downFrom : Nat → List Nat
  | 0 => []
  | k + 1 => k :: downFrom k

theorem mem_downFrom {i : Nat} : ∀ {k : Nat}, i ∈ downFrom k ↔ i < k
  | 0 => by simp [downFrom]
  | k + 1 => by simp only [downFrom, List.mem_cons, mem_downFrom (k := k)]; omega

theorem sum_downFrom_getD (cs : List Nat) : ((downFrom cs.length).map (fun i => cs.getD i 0)).sum = cs.sum := by
  have key : ∀ m, m ≤ cs.length → ((downFrom m).map (fun i => cs.getD i 0)).sum = (cs.take m).sum := by
    intro m
    induction m with
    | zero => intro _; simp [downFrom]
    | succ m ih =>
      intro hm
      have hlt : m < cs.length := by omega
      simp only [downFrom, List.map_cons, List.sum_cons]
      rw [ih (by omega), List.take_add_one, List.getElem?_eq_getElem hlt, List.sum_append]
      simp [List.getD_eq_getElem?_getD, List.getElem?_eq_getElem hlt, Nat.add_comm]
  rw [key _ (Nat.le_refl _), List.take_length]

/-- **binary `concat!`**, the term of the driver: the costs add up -/
theorem concat2_cost {A B : AnyM} {ysA ysB : List Int} {cA cB : Nat}
    (hA : HeadOkT A.M ysA) (NA : NoUpstream A.M) (kA : CostN A.M A.nexts cA)
    (hB : HeadOkT B.M ysB) (NB : NoUpstream B.M) (kB : CostN B.M B.nexts cB) :
    CostN (plugM 0 A (plugM 1 B concat2M)).M (plugM 0 A (plugM 1 B concat2M)).nexts (cA + cB) := by
  have h2 : (0 : Nat) < 2 := by decide
  let c : Nat → Nat := fun i => if i = 0 then cA else cB
  have h0 := PartK.base 2 h2 c
  have h1 := h0.plug (k := 1) (nxA := B.nexts) (by simp) hB NB (by simpa [c] using kB)
  have h3 := h1.plug (k := 0) (nxA := A.nexts) (by simp) hA NA (by simpa [c] using kA)
  have := h3.cost h2 (fun i hi => by simp; omega) (fun i hi => by simp at hi; omega)
  have h4 : (([0, 1] : List Nat).map c).sum = cA + cB := by simp [c]
  rw [h4] at this
  exact this

theorem fold_partK (n : Nat) (c : Nat → Nat) :
    ∀ (l : List AnyM) (k : Nat) (acc : AnyM), PartK n (downFrom k) c acc.M acc.nexts →
      (∀ i (h : i < l.length), ∃ ys, HeadOkT l[i].M ys ∧ NoUpstream l[i].M ∧ CostN l[i].M l[i].nexts (c (k + i))) →
      PartK n (downFrom (k + l.length)) c ((l.zipIdx k).foldl (fun acc (p : AnyM × Nat) => plugM p.2 p.1 acc) acc).M
        ((l.zipIdx k).foldl (fun acc (p : AnyM × Nat) => plugM p.2 p.1 acc) acc).nexts := by
  intro l
  induction l with
  | nil => intro k acc h _; exact h
  | cons A t ih =>
    intro k acc h hl
    simp only [List.zipIdx_cons, List.foldl_cons, List.length_cons]
    obtain ⟨ys, hA1, hA2, hA3⟩ := hl 0 (by simp)
    simp only [List.getElem_cons_zero, Nat.add_zero] at hA1 hA2 hA3
    have hk : k ∉ downFrom k := fun hm => Nat.lt_irrefl _ (mem_downFrom.1 hm)
    have := ih (k + 1) (plugM k A acc) (h.plug hk hA1 hA2 hA3) (fun i hi => by
      have := hl (i + 1) (by simp; omega)
      simpa [Nat.add_assoc, Nat.add_comm 1 i] using this)
    rw [show k + (t.length + 1) = k + 1 + t.length by omega]
    exact this

/-- **n-ary `concat!`**, the term of the driver: the costs add up -/
theorem concatM_cost (As : List AnyM) (hne : 0 < As.length) (cs : List Nat)
    (h : ∀ i (hi : i < As.length), ∃ ys, HeadOkT As[i].M ys ∧ NoUpstream As[i].M ∧ CostN As[i].M As[i].nexts (cs.getD i 0))
    (hlen : cs.length = As.length) :
    CostN (concatM As).M (concatM As).nexts cs.sum := by
  have hb := PartK.base As.length hne (fun i => cs.getD i 0)
  have := fold_partK As.length (fun i => cs.getD i 0) As 0
    { St := Concat.St, Loc := Concat.Loc Int, M := Concat.machine Int As.length, nexts := fun _ => 0 } hb
    (fun i hi => by simpa using h i hi)
  simp only [Nat.zero_add] at this
  have hc := this.cost hne (fun i hi => mem_downFrom.2 hi) (fun i hi => mem_downFrom.1 hi)
  have hs : ((downFrom As.length).map (fun i => cs.getD i 0)).sum = cs.sum := by rw [← hlen]; exact sum_downFrom_getD cs
  rw [hs] at hc
  exact hc

end Driver

/-! ## `flatten`: the outer source and one inner source per outer datum -/
section Lists
variable {X S : Type}

theorem sum_filter_split (f : X → Nat) (q : X → Bool) (l : List X) :
    (l.map f).sum = ((l.filter q).map f).sum + ((l.filter (fun x => !q x)).map f).sum := by
  induction l with
  | nil => rfl
  | cons x t ih =>
    cases hq : q x <;> simp [hq, ih] <;> omega

theorem mem_le_sum (f : X → Nat) {l : List X} {x : X} (h : x ∈ l) : f x ≤ (l.map f).sum := by
  induction l with
  | nil => cases h
  | cons y t ih =>
    rcases List.mem_cons.1 h with rfl | h
    · simp
    · have := ih h; simp; omega

/-- entries with distinct keys in `1 … m`, each at most `B` -/
theorem sum_le_of_keys (f : S → Nat) (B : Nat) : ∀ (m : Nat) (l : List (Nat × S)), (l.map (·.1)).Nodup →
    (∀ p ∈ l, 1 ≤ p.1 ∧ p.1 ≤ m) → (∀ p ∈ l, f p.2 ≤ B) → (l.map (fun p => f p.2)).sum ≤ m * B
  | 0, l, _, hk, _ => by
    cases l with
    | nil => simp
    | cons p t => have := hk p List.mem_cons_self; omega
  | m + 1, l, hn, hk, hb => by
    rw [sum_filter_split (fun p => f p.2) (fun p => p.1 == m + 1) l]
    have h1 : ((l.filter (fun p => p.1 == m + 1)).map (fun p => f p.2)).sum ≤ B := by
      have hn' : ((l.filter (fun p => p.1 == m + 1)).map (·.1)).Nodup :=
        List.Pairwise.sublist (List.Sublist.map _ List.filter_sublist) hn
      cases hl : l.filter (fun p => p.1 == m + 1) with
      | nil => simp
      | cons p t =>
        cases t with
        | nil =>
          have : p ∈ l := (List.mem_filter.1 (hl ▸ List.mem_cons_self)).1
          simpa using hb p this
        | cons p' t' =>
          exfalso
          rw [hl] at hn'
          have e1 : p.1 = m + 1 := by
            have := (List.mem_filter.1 (hl ▸ List.mem_cons_self : p ∈ l.filter _)).2; simpa using this
          have e2 : p'.1 = m + 1 := by
            have := (List.mem_filter.1 (hl ▸ List.mem_cons_of_mem _ List.mem_cons_self : p' ∈ l.filter _)).2; simpa using this
          simp only [List.map_cons, List.nodup_cons, List.mem_cons] at hn'
          exact hn'.1 (.inl (e1.trans e2.symm))
    have h2 := sum_le_of_keys f B m (l.filter (fun p => !(p.1 == m + 1)))
      (List.Pairwise.sublist (List.Sublist.map _ List.filter_sublist) hn)
      (fun p hp => by
        obtain ⟨hp1, hp2⟩ := List.mem_filter.1 hp
        have := hk p hp1
        have hne : p.1 ≠ m + 1 := by simpa using hp2
        omega)
      (fun p hp => hb p (List.mem_filter.1 hp).1)
    rw [Nat.succ_mul]; omega

/-- every key in `1 … m` present with an entry of at least `B` -/
theorem le_sum_of_keys (f : S → Nat) (B : Nat) : ∀ (m : Nat) (l : List (Nat × S)),
    (∀ j, 1 ≤ j → j ≤ m → ∃ p ∈ l, p.1 = j ∧ B ≤ f p.2) → m * B ≤ (l.map (fun p => f p.2)).sum
  | 0, _, _ => by simp
  | m + 1, l, h => by
    rw [sum_filter_split (fun p => f p.2) (fun p => p.1 == m + 1) l]
    obtain ⟨p, hp, hp1, hp2⟩ := h (m + 1) (by omega) (Nat.le_refl _)
    have h1 : B ≤ ((l.filter (fun p => p.1 == m + 1)).map (fun p => f p.2)).sum :=
      Nat.le_trans hp2 (mem_le_sum (fun p => f p.2) (List.mem_filter.2 ⟨hp, by simp [hp1]⟩))
    have h2 := le_sum_of_keys f B m (l.filter (fun p => !(p.1 == m + 1))) (fun j h1 h2 => by
      obtain ⟨q, hq, hq1, hq2⟩ := h j h1 (by omega)
      exact ⟨q, List.mem_filter.2 ⟨hq, by simp [hq1]; omega⟩, hq1, hq2⟩)
    rw [Nat.succ_mul]; omega

theorem find_of_nodup : ∀ (l : List (Nat × S)) (p : Nat × S), (l.map (·.1)).Nodup → p ∈ l → l.find? (·.1 == p.1) = some p
  | [], _, _, h => by cases h
  | q :: t, p, hn, hp => by
    simp only [List.map_cons, List.nodup_cons] at hn
    by_cases hq : q.1 = p.1
    · rcases List.mem_cons.1 hp with rfl | hp'
      · simp
      · exact absurd (List.mem_map.2 ⟨p, hp', hq.symm⟩) hn.1
    · rcases List.mem_cons.1 hp with rfl | hp'
      · exact absurd rfl hq
      · rw [List.find?_cons_of_neg (by simpa using hq)]
        exact find_of_nodup t p hn.2 hp'

end Lists

section Flat
open ComposeFull FlatPlugSafe FlatPlugFun
variable {So Lo Si Li αo αi : Type}

/-- small-step induction for a property of the state alone -/
theorem st_inv {St Loc α β : Type} (M : Machine St Loc α β) (P : St → Prop) (h0 : P M.init)
    (htau : ∀ st l s l', M.step st l = .tau s l' → P st → P s)
    (hcall : ∀ st l o s l', M.step st l = .call o s l' → P st → P s) : ∀ s, SReach M s → P s.st := by
  apply reach_ind
  · exact h0
  · intro a b _ ih h
    cases h with
    | @tau st l stk g tr s' l' hst => exact htau st l s' l' hst ih
    | @call st l stk g tr o s' l' hst => exact hcall st l o s' l' hst ih
    | ret _ => exact ih
    | panic _ => exact ih
  · intro a b m _ ih h
    cases h with
    | call i hc hl => exact ih
    | ret hl => exact ih

/-- the inner sources created so far have distinct numbers -/
def keysOk (st : FPSt So Si) : Prop := (st.inners.map (·.1)).Nodup

theorem keysOk_setInner {st : FPSt So Si} (h : keysOk st) (j : Nat) (si : Si) : keysOk (st.setInner j si) := by
  unfold keysOk FPSt.setInner
  simp only [List.map_cons, List.nodup_cons]
  refine ⟨?_, ?_⟩
  · simp [List.mem_map, List.mem_filter]
  · exact List.Pairwise.sublist (List.Sublist.map _ List.filter_sublist) h

macro "fpk" hst:ident h:ident : tactic =>
  `(tactic| (
      simp only [flatPlug] at $hst:ident
      repeat (any_goals (split at $hst:ident))
      all_goals first
        | (cases $hst:ident; first | exact $h | exact keysOk_setInner $h _ _)
        | (simp at $hst:ident; done)))

theorem flatPlug_keysOk (Mo : Machine So Lo αo Int) (Mi : Machine Si Li αi Int) (initOf : Int → Si) :
    ∀ s, SReach (flatPlug Mo Mi initOf) s → keysOk s.st := by
  apply st_inv
  · simp [keysOk, flatPlug]
  · intro st l s l' hst h
    cases l with
    | nil => simp [flatPlug] at hst
    | cons f rest =>
      cases f with
      | outer lo => fpk hst h
      | inner j li => fpk hst h
      | flat lf => fpk hst h
  · intro st l o s l' hst h
    cases l with
    | nil => simp [flatPlug] at hst
    | cons f rest =>
      cases f with
      | outer lo => fpk hst h
      | inner j li => fpk hst h
      | flat lf => fpk hst h

/-- **`flatten(map(g)(outer))` run to its end**: the cost of the outer source plus the cost of one inner source per outer datum -/
theorem flat_cost {Mo : Machine So Lo αo Int} {Mi : Machine Si Li αi Int} {initOf : Int → Si} {ys : List Int} {g : Int → List Int}
    {nxO : So → Nat} {nxI : Si → Nat} {co ci : Nat}
    (hO : HeadOkT Mo ys) (NO : NoUpstream Mo) (PO : PullOnly Mo)
    (hI : ∀ a, HeadOkT (atInit Mi (initOf a)) (g a)) (NI : ∀ a, NoUpstream (atInit Mi (initOf a)))
    (kO : CostN Mo nxO co) (kI : ∀ a, CostN (atInit Mi (initOf a)) nxI ci) :
    CostN (flatPlug Mo Mi initOf) (fun st => nxO st.outer + (st.inners.map (fun p => nxI p.2)).sum) (co + ys.length * ci) := by
  have H : HypF Mo Mi initOf := ⟨hO.head.up, NO, fun a => (hI a).head.up, NI⟩
  have hproj := projF H PO hO.noErr (fun a => (hI a).noErr)
  refine ⟨fun s hs => ?_, fun s hs hstk hd => ?_⟩
  · obtain ⟨sO, sF, fam, hp⟩ := hproj s hs
    have h1 : nxO s.st.outer ≤ co := by rw [hp.m.outer.stO]; exact kO.ub sO hp.rO
    have hlen : (sentS 0 (srcEvs sF.tr)).length ≤ ys.length := by
      rw [hp.outerData]; exact (ComposeCost.recv_prefix_all hO.head.spec sO hp.rO).length_le
    have hkeys := flatPlug_keysOk Mo Mi initOf s hs
    have hent : ∀ p ∈ s.st.inners, (1 ≤ p.1 ∧ p.1 ≤ ys.length) ∧ nxI p.2 ≤ ci := by
      intro p hp'
      have hfind : s.st.innerSt p.1 = some p.2 := by
        unfold FPSt.innerSt; rw [find_of_nodup _ p hkeys hp']; rfl
      have hst := hp.m.inner.stI p.1
      rw [hfind] at hst
      cases hf : fam p.1 with
      | none => rw [hf] at hst; cases hst
      | some x =>
        obtain ⟨a, sI⟩ := x
        rw [hf] at hst
        have hsI : p.2 = sI.st := by simpa using hst
        have hpos : p.1 ≠ 0 := fun h0 => by rw [h0, hp.m.inner.fam0] at hf; cases hf
        obtain ⟨j, hj⟩ : ∃ j, p.1 = j + 1 := ⟨p.1 - 1, by omega⟩
        rw [hj] at hf
        have hb := hp.t.born j a sI hf
        have hjl : j < (sentS 0 (srcEvs sF.tr)).length := by
          rcases Nat.lt_or_ge j (sentS 0 (srcEvs sF.tr)).length with h | h
          · exact h
          · rw [List.getElem?_eq_none h] at hb; cases hb
        refine ⟨by omega, ?_⟩
        rw [hsI]
        exact (kI a).ub sI (hp.m.inner.rI _ _ _ hf)
    have h2 := sum_le_of_keys nxI ci ys.length s.st.inners hkeys (fun p hp' => (hent p hp').1) (fun p hp' => (hent p hp').2)
    show nxO s.st.outer + _ ≤ _
    omega
  · obtain ⟨sO, sF, fam, hp⟩ := hproj s hs
    obtain ⟨hkO, hkF, hkI⟩ := hp.top hstk
    have hdF : sF.g.ph.sinkPh 0 = .doneBySrc := by rw [← hp.m.core.sink 0]; exact hd
    obtain ⟨hk, _, _⟩ := FK.E1_reach sF hp.rF hp.c
    have h2 := FK.E2_reach sF hp.rF hp.c
    obtain ⟨h0, hall⟩ := hk.tc hdF
    have hdO : sO.g.ph.sinkPh 0 = .doneBySrc := toSrc_ended.1 (by rw [← hp.m.outer.ifcO]; exact h0)
    have htO : EnvTurn sO := ⟨hp.m.outer.pO, by simp [hkO, ctxOf]⟩
    have h1 : co ≤ nxO s.st.outer := by rw [hp.m.outer.stO]; exact kO.lb sO hp.rO hkO hdO
    have hcnt := h2.cnt
    rw [hkF] at hcnt
    have has : sentData 0 sF.tr = ys := by
      rw [sentData_eq, hp.outerData]; exact hO.doneT sO hp.rO htO hdO
    rw [has] at hcnt
    simp only [FK.odc, Nat.add_zero] at hcnt
    have h3 := le_sum_of_keys nxI ci ys.length s.st.inners (fun j hj1 hj2 => by
      obtain ⟨j', rfl⟩ : ∃ j', j = j' + 1 := ⟨j - 1, by omega⟩
      obtain ⟨a, sI, hf, hdI⟩ := hp.innerEnded j' (hall (j' + 1) hj1 (by omega))
      have hst := hp.m.inner.stI (j' + 1)
      rw [hf] at hst
      simp only [Option.map_some, FPSt.innerSt, Option.map_eq_some_iff] at hst
      obtain ⟨q, hq, hq2⟩ := hst
      have hqm := List.mem_of_find?_eq_some hq
      have hq1 := List.find?_some hq
      refine ⟨q, hqm, by simpa using hq1, ?_⟩
      rw [hq2]
      exact (kI a).lb sI (hp.m.inner.rI _ _ _ hf) (hkI _ _ _ hf) hdI)
    show _ ≤ nxO s.st.outer + _
    omega

end Flat

end PlugCost
end Cb

#print axioms Cb.PlugCost.PartK.plug
#print axioms Cb.PlugCost.PartK.cost
#print axioms Cb.PlugCost.concat2_cost
#print axioms Cb.PlugCost.concatM_cost
#print axioms Cb.PlugCost.flat_cost
