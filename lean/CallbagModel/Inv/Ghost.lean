import CallbagModel.Sem
/-! # Lemmas about the ghost state (simp normal form: `sinkPh`/`srcPh` of an updated `Ph` as an `if`) -/
namespace Cb

@[simp] theorem phAt_nil {α} [Inhabited α] (j : Nat) : phAt ([] : List α) j = default := by simp [phAt]

theorem phAt_setAt {α} [Inhabited α] (l : List α) (i j : Nat) (a : α) :
    phAt (setAt l i a) j = if j = i then a else phAt l j := by
  induction l generalizing i j with
  | nil =>
    induction i generalizing j with
    | zero => cases j <;> simp [setAt, phAt]
    | succ i ih =>
      cases j with
      | zero => simp [setAt, phAt]
      | succ j => have := ih j; simp [phAt] at this; simp [setAt, phAt, this]
  | cons x xs ih =>
    cases i with
    | zero => cases j <;> simp [setAt, phAt]
    | succ i =>
      cases j with
      | zero => simp [setAt, phAt]
      | succ j => have := ih i j; simp [phAt] at this; simp [setAt, phAt, this]

@[simp] theorem Ph.sinkPh_setSink (g : Ph) (k k' : Nat) (p : SinkPh) :
    (g.setSink k p).sinkPh k' = if k' = k then p else g.sinkPh k' := by simp [Ph.setSink, Ph.sinkPh, phAt_setAt]
@[simp] theorem Ph.srcPh_setSrc (g : Ph) (i i' : Nat) (p : SrcPh) :
    (g.setSrc i p).srcPh i' = if i' = i then p else g.srcPh i' := by simp [Ph.setSrc, Ph.srcPh, phAt_setAt]
@[simp] theorem Ph.srcPh_setSink (g : Ph) (k i : Nat) (p : SinkPh) : (g.setSink k p).srcPh i = g.srcPh i := rfl
@[simp] theorem Ph.sinkPh_setSrc (g : Ph) (k i : Nat) (p : SrcPh) : (g.setSrc i p).sinkPh k = g.sinkPh k := rfl
@[simp] theorem Ph.viols_setSink (g : Ph) (k : Nat) (p : SinkPh) : (g.setSink k p).viols = g.viols := rfl
@[simp] theorem Ph.viols_setSrc (g : Ph) (i : Nat) (p : SrcPh) : (g.setSrc i p).viols = g.viols := rfl
@[simp] theorem Ph.viols_flag (g : Ph) (v : Viol) : (g.flag v).viols = v :: g.viols := rfl
@[simp] theorem Ph.sinkPh_empty (k : Nat) : ({} : Ph).sinkPh k = .idle := by simp [Ph.sinkPh]; rfl
@[simp] theorem Ph.srcPh_empty (i : Nat) : ({} : Ph).srcPh i = .idle := by simp [Ph.srcPh]; rfl

theorem phAt_mem_or_default {α} [Inhabited α] (l : List α) (i : Nat) : phAt l i ∈ l ∨ phAt l i = default := by
  unfold phAt
  by_cases h : i < l.length
  · left; simp [List.getD, h]
  · right; simp [List.getD, h]

theorem Ph.anySinkOpen_iff (g : Ph) :
    g.anySinkOpen = true ↔ ∃ k, g.sinkPh k = .subscribed ∨ g.sinkPh k = .live := by
  unfold Ph.anySinkOpen Ph.sinkPh
  constructor
  · intro h
    obtain ⟨p, hp, hq⟩ := List.any_eq_true.1 h
    obtain ⟨k, hk, rfl⟩ := List.getElem_of_mem hp
    refine ⟨k, ?_⟩
    have : phAt g.sink k = g.sink[k] := by simp [phAt, List.getD, hk]
    rw [this]; simpa using hq
  · rintro ⟨k, hk⟩
    apply List.any_eq_true.2
    rcases phAt_mem_or_default g.sink k with hm | hd
    · exact ⟨_, hm, by rcases hk with hk | hk <;> simp [hk]⟩
    · rw [hd] at hk; rcases hk with hk | hk <;> cases hk

theorem Ph.anySinkOpen_false_iff (g : Ph) :
    g.anySinkOpen = false ↔ ∀ k, g.sinkPh k ≠ .subscribed ∧ g.sinkPh k ≠ .live := by
  rw [← Bool.not_eq_true, Ph.anySinkOpen_iff]
  simp [not_or]

theorem mem_liveSrcs (g : Ph) (i : Nat) : i ∈ liveSrcs g ↔ g.srcPh i = .live := by
  unfold liveSrcs
  simp only [List.mem_filter, List.mem_range, beq_iff_eq]
  constructor
  · exact fun h => h.2
  · intro h
    refine ⟨?_, h⟩
    by_cases hl : i < g.src.length
    · exact hl
    · simp [Ph.srcPh, phAt, List.getD, hl] at h; cases h

theorem mem_livesOf (g : Ph) (k : Nat) : k ∈ livesOf g ↔ g.sinkPh k = .live := by
  unfold livesOf
  simp only [List.mem_filter, List.mem_range, beq_iff_eq]
  constructor
  · exact fun h => h.2
  · intro h
    refine ⟨?_, h⟩
    by_cases hl : k < g.sink.length
    · exact hl
    · simp [Ph.sinkPh, phAt, List.getD, hl] at h; cases h

end Cb

namespace Cb
attribute [simp] onOut_ph onRetO_ph

@[simp] theorem onIn_ph {α} (g : G) (h : Nat) (i : In α) : (g.onIn h i).ph = g.ph.onIn i := by
  unfold G.onIn
  cases i with
  | sinkUp k u => cases u <;> rfl
  | srcDown j d =>
    cases d with
    | err e => simp only; split <;> rfl
    | _ => rfl
  | _ => rfl

end Cb
