import CallbagModel.Inv.Ghost
import CallbagModel.Ops.Merge
/-!
# merge: the phase-level safety invariant (every member count, late greeters allowed)

Stated at environment turns only.  The three loops are handled by "scan" lemmas (induction on `n - j`): from a loop head
the operator either reaches the first member `≥ j` whose slot is set (and calls it) or leaves the loop.

* Pull broadcast (`uLoop j pull`): its waiting frame carries **no** assumption — when it resumes it re-reads `ended` and the
  slots, and in every stable mode "slot set ⇒ member live" (while not ended) holds.
* `Terminate`/`Error` broadcast (`uLoop j u`) and the sibling disposal of an erroring member (`eLoop i j e`): the callee of
  their waiting frames can only return, so "exactly the members after `j` with a slot set (other than `i`) are live" is
  stable; it is part of the modes `uloop`/`eloop`.
* The subscription loop frame sits at the bottom of the stack; it assumes the members not yet subscribed are idle.
-/
namespace Cb.Merge
open Cb

variable {α : Type}

/-! ### generalities -/

theorem advance_none {St Loc α β : Type} (M : Machine St Loc α β) (s : Sys St Loc α β) (h : opStep M s = none) :
    ∀ b, advance M b s = s
  | 0 => rfl
  | b+1 => by simp [advance, h]

theorem advance_add {St Loc α β : Type} (M : Machine St Loc α β) :
    ∀ a b (s : Sys St Loc α β), advance M (a + b) s = advance M b (advance M a s) := by
  intro a
  induction a with
  | zero => intro b s; simp [advance]
  | succ a ih =>
    intro b s
    have e : a + 1 + b = (a + b) + 1 := by omega
    rw [e]
    simp only [advance]
    cases h : opStep M s with
    | none => simp [advance_none M s h]
    | some s' => simp [ih]

theorem advance_succ {St Loc α β : Type} {M : Machine St Loc α β} {s s' : Sys St Loc α β} (k : Nat)
    (h : opStep M s = some s') : advance M (k + 1) s = advance M k s' := by
  simp [advance, h]

/-- number of `j < n` with `f j` -/
def cnt (f : Nat → Bool) : Nat → Nat
  | 0 => 0
  | n+1 => cnt f n + (if f n then 1 else 0)

theorem cnt_congr {f g : Nat → Bool} : ∀ n, (∀ j, j < n → f j = g j) → cnt f n = cnt g n
  | 0, _ => rfl
  | n+1, h => by
    simp only [cnt]
    rw [cnt_congr n (fun j hj => h j (by omega)), h n (by omega)]

theorem cnt_le (f : Nat → Bool) : ∀ n, cnt f n ≤ n
  | 0 => Nat.le_refl _
  | n+1 => by
    have := cnt_le f n
    simp only [cnt]; split <;> omega

theorem cnt_all {f : Nat → Bool} : ∀ n, cnt f n = n → ∀ j, j < n → f j = true
  | 0, _, j, hj => by omega
  | n+1, h, j, hj => by
    simp only [cnt] at h
    have hle := cnt_le f n
    by_cases hf : f n = true
    · simp [hf] at h
      by_cases hjn : j = n
      · subst hjn; exact hf
      · exact cnt_all n h j (by omega)
    · simp [hf] at h; omega

theorem cnt_zero {f : Nat → Bool} : ∀ n, (∀ j, j < n → f j = false) → cnt f n = 0
  | 0, _ => rfl
  | n+1, h => by
    simp only [cnt]
    rw [cnt_zero n (fun j hj => h j (by omega)), h n (by omega)]; simp

theorem cnt_update {f g : Nat → Bool} {i : Nat} :
    ∀ n, i < n → f i = false → g i = true → (∀ j, j ≠ i → g j = f j) → cnt g n = cnt f n + 1
  | 0, hi, _, _, _ => by omega
  | n+1, hi, hf, hg, hne => by
    simp only [cnt]
    by_cases hin : i = n
    · subst hin
      rw [cnt_congr (f := g) (g := f) i (fun j hj => hne j (by omega)), hf, hg]; simp
    · rw [cnt_update n (by omega) hf hg hne, hne n (fun h => hin h.symm)]; omega

theorem phAt_replicate_false (n j : Nat) : phAt (List.replicate n false) j = false := by
  unfold phAt
  by_cases h : j < n
  · simp [List.getD, h]
  · simp [List.getD, h]

/-! ### the three loops -/

abbrev Cfg (α : Type) := Sys St (Loc α) α α

theorem step_uLoop_skip {n : Nat} {st : St} {u : Up} {j : Nat} {stk : List (Frame (Loc α) α)} {g : G} {tr : List (Ev α α)}
    (hjn : j < n) (hc : isEnd u = true ∨ st.ended = false) (hs : phAt st.slots j = false) :
    opStep (machine α n) (⟨st, .run (.uLoop j u) :: stk, g, tr, none⟩ : Cfg α) =
      some ⟨st, .run (.uLoop (j+1) u) :: stk, g, tr, none⟩ := by
  rcases hc with hc | hc <;> simp [opStep, machine, step, hjn, hc, hs]

theorem step_uLoop_call {n : Nat} {st : St} {u : Up} {j : Nat} {stk : List (Frame (Loc α) α)} {g : G} {tr : List (Ev α α)}
    (hjn : j < n) (hc : isEnd u = true ∨ st.ended = false) (hs : phAt st.slots j = true) :
    opStep (machine α n) (⟨st, .run (.uLoop j u) :: stk, g, tr, none⟩ : Cfg α) =
      some ⟨st, .wait (.srcUp j u) (.uLoop (j+1) u) :: stk, g.onOut (machine α n).shape (Out.srcUp j u : Out α), .out (.srcUp j u) :: tr, none⟩ := by
  rcases hc with hc | hc <;> simp [opStep, machine, step, hjn, hc, hs]

theorem step_uLoop_exit {n : Nat} {st : St} {u : Up} {j : Nat} {stk : List (Frame (Loc α) α)} {g : G} {tr : List (Ev α α)}
    (hjn : ¬ j < n) :
    opStep (machine α n) (⟨st, .run (.uLoop j u) :: stk, g, tr, none⟩ : Cfg α) =
      some ⟨st, stk, g.onRetO stk.length, .retO :: tr, none⟩ := by
  simp [opStep, machine, step, hjn]

/-- the broadcast loop of the sink talkback, when the early exit does not apply: either it runs to its end (all remaining
slots empty) or it calls the first remaining member whose slot is set -/
theorem uLoop_scan (n : Nat) (st : St) (u : Up) (hc : isEnd u = true ∨ st.ended = false)
    (stk : List (Frame (Loc α) α)) (g : G) (tr : List (Ev α α)) :
    ∀ d j, n - j = d →
      (∃ k, advance (machine α n) k (⟨st, .run (.uLoop j u) :: stk, g, tr, none⟩ : Cfg α) =
            ⟨st, stk, g.onRetO stk.length, .retO :: tr, none⟩ ∧
          ∀ j', j ≤ j' → j' < n → phAt st.slots j' = false) ∨
      (∃ k j'', j ≤ j'' ∧ j'' < n ∧ phAt st.slots j'' = true ∧ (∀ j', j ≤ j' → j' < j'' → phAt st.slots j' = false) ∧
        advance (machine α n) k (⟨st, .run (.uLoop j u) :: stk, g, tr, none⟩ : Cfg α) =
          ⟨st, .wait (.srcUp j'' u) (.uLoop (j''+1) u) :: stk, g.onOut (machine α n).shape (Out.srcUp j'' u : Out α),
            .out (.srcUp j'' u) :: tr, none⟩) := by
  intro d
  induction d with
  | zero =>
    intro j hj
    left
    refine ⟨1, ?_, fun j' h1 h2 => by omega⟩
    rw [advance_succ 0 (step_uLoop_exit (by omega))]; rfl
  | succ d ih =>
    intro j hj
    have hjn : j < n := by omega
    by_cases hs : phAt st.slots j = true
    · right
      refine ⟨1, j, Nat.le_refl _, hjn, hs, fun j' h1 h2 => by omega, ?_⟩
      rw [advance_succ 0 (step_uLoop_call hjn hc hs)]; rfl
    · have hs' : phAt st.slots j = false := by simpa using hs
      rcases ih (j+1) (by omega) with ⟨k, hk, hall⟩ | ⟨k, j'', h1, h2, h3, h4, hk⟩
      · left
        refine ⟨k+1, ?_, ?_⟩
        · rw [advance_succ k (step_uLoop_skip hjn hc hs')]; exact hk
        · intro j' h1 h2
          by_cases hjj : j' = j
          · subst hjj; exact hs'
          · exact hall j' (by omega) h2
      · right
        refine ⟨k+1, j'', by omega, h2, h3, ?_, ?_⟩
        · intro j' h5 h6
          by_cases hjj : j' = j
          · subst hjj; exact hs'
          · exact h4 j' (by omega) h6
        · rw [advance_succ k (step_uLoop_skip hjn hc hs')]; exact hk

theorem step_eLoop_skip {n : Nat} {st : St} {i j e : Nat} {stk : List (Frame (Loc α) α)} {g : G} {tr : List (Ev α α)}
    (hjn : j < n) (hs : j = i ∨ phAt st.slots j = false) :
    opStep (machine α n) (⟨st, .run (.eLoop i j e) :: stk, g, tr, none⟩ : Cfg α) =
      some ⟨st, .run (.eLoop i (j+1) e) :: stk, g, tr, none⟩ := by
  rcases hs with hs | hs
  · subst hs; simp [opStep, machine, step, hjn]
  · simp [opStep, machine, step, hjn, hs]

theorem step_eLoop_call {n : Nat} {st : St} {i j e : Nat} {stk : List (Frame (Loc α) α)} {g : G} {tr : List (Ev α α)}
    (hjn : j < n) (hji : j ≠ i) (hs : phAt st.slots j = true) :
    opStep (machine α n) (⟨st, .run (.eLoop i j e) :: stk, g, tr, none⟩ : Cfg α) =
      some ⟨st, .wait (.srcUp j .term) (.eLoop i (j+1) e) :: stk, g.onOut (machine α n).shape (Out.srcUp j .term : Out α),
        .out (.srcUp j .term) :: tr, none⟩ := by
  simp [opStep, machine, step, hjn, hs, hji]

theorem step_eLoop_exit {n : Nat} {st : St} {i j e : Nat} {stk : List (Frame (Loc α) α)} {g : G} {tr : List (Ev α α)}
    (hjn : ¬ j < n) :
    advance (machine α n) 2 (⟨st, .run (.eLoop i j e) :: stk, g, tr, none⟩ : Cfg α) =
      ⟨st, .wait (.down 0 (.err e)) .done :: stk, g.onOut (machine α n).shape (Out.down 0 (.err e) : Out α),
        .out (.down 0 (.err e)) :: tr, none⟩ := by
  simp [advance, opStep, machine, step, hjn]

/-- the sibling-disposal loop of an erroring member `i` -/
theorem eLoop_scan (n : Nat) (st : St) (i e : Nat) (stk : List (Frame (Loc α) α)) (g : G) (tr : List (Ev α α)) :
    ∀ d j, n - j = d →
      (∃ k, advance (machine α n) k (⟨st, .run (.eLoop i j e) :: stk, g, tr, none⟩ : Cfg α) =
            ⟨st, .wait (.down 0 (.err e)) .done :: stk, g.onOut (machine α n).shape (Out.down 0 (.err e) : Out α),
              .out (.down 0 (.err e)) :: tr, none⟩ ∧
          ∀ j', j ≤ j' → j' < n → j' ≠ i → phAt st.slots j' = false) ∨
      (∃ k j'', j ≤ j'' ∧ j'' < n ∧ j'' ≠ i ∧ phAt st.slots j'' = true ∧
        (∀ j', j ≤ j' → j' < j'' → j' ≠ i → phAt st.slots j' = false) ∧
        advance (machine α n) k (⟨st, .run (.eLoop i j e) :: stk, g, tr, none⟩ : Cfg α) =
          ⟨st, .wait (.srcUp j'' .term) (.eLoop i (j''+1) e) :: stk, g.onOut (machine α n).shape (Out.srcUp j'' .term : Out α),
            .out (.srcUp j'' .term) :: tr, none⟩) := by
  intro d
  induction d with
  | zero =>
    intro j hj
    left
    exact ⟨2, step_eLoop_exit (by omega), fun j' h1 h2 => by omega⟩
  | succ d ih =>
    intro j hj
    have hjn : j < n := by omega
    by_cases hs : j ≠ i ∧ phAt st.slots j = true
    · right
      refine ⟨1, j, Nat.le_refl _, hjn, hs.1, hs.2, fun j' h1 h2 => by omega, ?_⟩
      rw [advance_succ 0 (step_eLoop_call hjn hs.1 hs.2)]; rfl
    · have hs' : j = i ∨ phAt st.slots j = false := by
        by_cases hji : j = i
        · exact Or.inl hji
        · right; simpa [hji] using hs
      rcases ih (j+1) (by omega) with ⟨k, hk, hall⟩ | ⟨k, j'', h1, h2, h2', h3, h4, hk⟩
      · left
        refine ⟨k+1, ?_, ?_⟩
        · rw [advance_succ k (step_eLoop_skip hjn hs')]; exact hk
        · intro j' h1 h2 h3
          by_cases hjj : j' = j
          · subst hjj; rcases hs' with h | h
            · exact absurd h h3
            · exact h
          · exact hall j' (by omega) h2 h3
      · right
        refine ⟨k+1, j'', by omega, h2, h2', h3, ?_, ?_⟩
        · intro j' h5 h6 h7
          by_cases hjj : j' = j
          · subst hjj; rcases hs' with h | h
            · exact absurd h h7
            · exact h
          · exact h4 j' (by omega) h6 h7
        · rw [advance_succ k (step_eLoop_skip hjn hs')]; exact hk

theorem step_done {n : Nat} {st : St} {stk : List (Frame (Loc α) α)} {g : G} {tr : List (Ev α α)} :
    opStep (machine α n) (⟨st, .run .done :: stk, g, tr, none⟩ : Cfg α) =
      some ⟨st, stk, g.onRetO stk.length, .retO :: tr, none⟩ := by
  simp [opStep, machine, step]

/-! ### the invariant -/

/-- continuations that may sit below the top of the stack in a stable mode; only the subscription loop assumes something,
and it is the bottom frame -/
def FrameOk (g : Ph) (f : Frame (Loc α) α) (rest : List (Frame (Loc α) α)) : Prop :=
  match f with
  | .wait _ .done => True
  | .wait _ (.uLoop _ .pull) => True
  | .wait _ (.subLoop i) => rest = [] ∧ ∀ j, i ≤ j → g.srcPh j = .idle
  | _ => False

def Stk (g : Ph) : List (Frame (Loc α) α) → Prop
  | [] => True
  | f :: rest => FrameOk g f rest ∧ Stk g rest

theorem FrameOk.mono {g g' : Ph} (h : ∀ j, g.srcPh j = .idle → g'.srcPh j = .idle)
    {f : Frame (Loc α) α} {rest : List (Frame (Loc α) α)} (h1 : FrameOk g f rest) : FrameOk g' f rest := by
  cases f with
  | run l => exact h1
  | wait o l =>
    cases l with
    | subLoop i => exact ⟨h1.1, fun j hj => h _ (h1.2 j hj)⟩
    | uLoop j u => cases u <;> exact h1
    | _ => exact h1

theorem Stk.mono {g g' : Ph} (h : ∀ j, g.srcPh j = .idle → g'.srcPh j = .idle) :
    ∀ {stk : List (Frame (Loc α) α)}, Stk g stk → Stk g' stk
  | [], _ => trivial
  | _ :: _, ⟨h1, h2⟩ => ⟨h1.mono h, Stk.mono h h2⟩

theorem Stk.ctx {g : Ph} {stk : List (Frame (Loc α) α)} (h : Stk g stk) : (ctxOf stk).isSome := by
  cases stk with
  | nil => simp [ctxOf]
  | cons f r =>
    cases f with
    | run l => exact h.1.elim
    | wait o l => simp [ctxOf]

def endedCnt (g : Ph) (n : Nat) : Nat := cnt (fun j => decide (g.srcPh j = .ended)) n

theorem endedCnt_setSink (g : Ph) (k : Nat) (p : SinkPh) (n : Nat) : endedCnt (g.setSink k p) n = endedCnt g n := rfl

theorem endedCnt_setSrc_ne {g : Ph} {i : Nat} {p : SrcPh} (n : Nat) (h1 : g.srcPh i ≠ .ended) (h2 : p ≠ .ended) :
    endedCnt (g.setSrc i p) n = endedCnt g n := by
  apply cnt_congr
  intro j _
  by_cases hj : j = i
  · subst hj; simp [h1, h2]
  · simp [hj]

theorem endedCnt_setSrc_ended {g : Ph} {i : Nat} (n : Nat) (hi : i < n) (h1 : g.srcPh i ≠ .ended) :
    endedCnt (g.setSrc i .ended) n = endedCnt g n + 1 := by
  apply cnt_update n hi
  · simp [h1]
  · simp
  · intro j hj; simp [hj]

theorem endedCnt_all {g : Ph} {n : Nat} (h : endedCnt g n = n) : ∀ j, j < n → g.srcPh j = .ended := by
  intro j hj
  simpa using cnt_all n h j hj

/-- the sink is greeted exactly by the first stored greeting -/
def OpenSink (st : St) (g : Ph) : Prop :=
  (g.sinkPh 0 = .subscribed ∧ st.startCount = 0 ∧ ∀ j, g.srcPh j ≠ .live) ∨ (g.sinkPh 0 = .live ∧ st.startCount ≠ 0)

/-- the modes in which any peer may have control -/
inductive Stable (n : Nat) (st : St) (g : Ph) : Prop where
  /-- output open: a slot is set exactly for the live members, `endCount` counts the members that completed -/
  | opn : st.ended = false → OpenSink st g → (∀ j, phAt st.slots j = true ↔ g.srcPh j = .live) →
      st.endCount = endedCnt g n → Stable n st g
  /-- every member completed, the sink was sent `Terminate` -/
  | compl : st.ended = false → g.sinkPh 0 = .doneBySrc → (∀ j, j < n → g.srcPh j = .ended) →
      (∀ j, phAt st.slots j = false) → Stable n st g
  /-- the sink disposed or a member failed: nobody is live any more -/
  | closed : st.ended = true → (g.sinkPh 0 = .doneBySelf ∨ g.sinkPh 0 = .doneBySrc) → (∀ j, g.srcPh j ≠ .live) → Stable n st g

inductive Mode (n : Nat) (st : St) (g : Ph) (stk : List (Frame (Loc α) α)) : Prop where
  | init : g.sinkPh 0 = .idle → stk = [] → st.ended = false → st.startCount = 0 → st.endCount = 0 →
      (∀ j, phAt st.slots j = false) → (∀ j, g.srcPh j = .idle) → Mode n st g stk
  | stable : Stable n st g → Stk g stk → Mode n st g stk
  /-- the sink's `Terminate`/`Error` is being broadcast; member `j` has just been told -/
  | uloop (j : Nat) (u : Up) (rest : List (Frame (Loc α) α)) : isEnd u = true → st.ended = true → g.sinkPh 0 = .doneBySelf →
      stk = .wait (.srcUp j u) (.uLoop (j+1) u) :: rest → Stk g rest →
      (∀ j', g.srcPh j' = .live ↔ (j < j' ∧ phAt st.slots j' = true)) → Mode n st g stk
  /-- member `i` failed, its siblings are being disposed; member `j` has just been told -/
  | eloop (i j e : Nat) (rest : List (Frame (Loc α) α)) : st.ended = true → g.sinkPh 0 = .live →
      stk = .wait (.srcUp j .term) (.eLoop i (j+1) e) :: rest → Stk g rest →
      (∀ j', g.srcPh j' = .live ↔ (j < j' ∧ j' ≠ i ∧ phAt st.slots j' = true)) → Mode n st g stk

structure Base (n : Nat) (g : Ph) : Prop where
  viols : g.viols = []
  srcs : ∀ j, n ≤ j → g.srcPh j = .idle
  sinks : ∀ k, k ≠ 0 → g.sinkPh k = .idle

theorem Base.lt {n : Nat} {g : Ph} (h : Base n g) {i : Nat} (hi : g.srcPh i ≠ .idle) : i < n := by
  by_cases hlt : i < n
  · exact hlt
  · exact absurd (h.srcs i (by omega)) hi

theorem Base.setSrc {n : Nat} {g : Ph} (h : Base n g) {i : Nat} (hi : i < n) (p : SrcPh) : Base n (g.setSrc i p) :=
  ⟨h.viols, fun j hj => by simp [show j ≠ i by omega, h.srcs j hj], h.sinks⟩

theorem Base.setSink {n : Nat} {g : Ph} (h : Base n g) (p : SinkPh) : Base n (g.setSink 0 p) :=
  ⟨h.viols, h.srcs, fun k hk => by simp [hk, h.sinks k hk]⟩

structure Facts (n : Nat) (st : St) (g : Ph) (stk : List (Frame (Loc α) α)) : Prop where
  base : Base n g
  mode : Mode n st g stk

def Inv (n : Nat) (s : Cfg α) : Prop := s.panicked = none ∧ Facts n s.st s.g.ph s.stack

/-- the operator runs into an invariant configuration -/
def Good (n : Nat) (s : Cfg α) : Prop := ∃ k, Inv n (advance (machine α n) k s)

theorem good_mk {n : Nat} {st : St} {stk : List (Frame (Loc α) α)} {g : G} {tr : List (Ev α α)}
    (h : Facts n st g.ph stk) : Good n (⟨st, stk, g, tr, none⟩ : Cfg α) := ⟨0, rfl, h⟩

theorem good_of_advance {n : Nat} {s s' : Cfg α} (k : Nat) (h : advance (machine α n) k s = s') (hg : Good n s') : Good n s := by
  obtain ⟨k', hk'⟩ := hg
  exact ⟨k + k', by rw [advance_add, h]; exact hk'⟩

theorem good_of_step {n : Nat} {s s' : Cfg α} (h : opStep (machine α n) s = some s') (hg : Good n s') : Good n s :=
  good_of_advance 1 (by rw [advance_succ 0 h]; rfl) hg

theorem idle_setSrc {g : Ph} {i : Nat} (p : SrcPh) (hi : g.srcPh i ≠ .idle) :
    ∀ j, g.srcPh j = .idle → (g.setSrc i p).srcPh j = .idle := by
  intro j hj
  by_cases hji : j = i
  · subst hji; exact absurd hj hi
  · simp [hji, hj]

/-- the Pull broadcast, (re)started at member `j` in any stable mode -/
theorem good_pull {n : Nat} {st : St} {g : G} {tr : List (Ev α α)} {stk : List (Frame (Loc α) α)} (j : Nat)
    (hb : Base n g.ph) (hs : Stable n st g.ph) (hstk : Stk g.ph stk) :
    Good n (⟨st, .run (.uLoop j .pull) :: stk, g, tr, none⟩ : Cfg α) := by
  cases hs with
  | opn he ho hsl hec =>
    rcases uLoop_scan n st .pull (Or.inr he) stk g tr _ j rfl with ⟨k, hk, _⟩ | ⟨k, j'', _, _, hs, _, hk⟩
    · refine good_of_advance k hk (good_mk ?_)
      rw [onRetO_ph]
      exact ⟨hb, .stable (.opn he ho hsl hec) hstk⟩
    · refine good_of_advance k hk (good_mk ?_)
      have e : (g.onOut (machine α n).shape (Out.srcUp j'' .pull : Out α)).ph = g.ph := by
        simp [Ph.onOut, (hsl j'').1 hs]
      rw [e]
      exact ⟨hb, .stable (.opn he ho hsl hec) ⟨trivial, hstk⟩⟩
  | compl he h1 h2 h3 =>
    rcases uLoop_scan n st .pull (Or.inr he) stk g tr _ j rfl with ⟨k, hk, _⟩ | ⟨k, j'', _, _, hs, _, hk⟩
    · refine good_of_advance k hk (good_mk ?_)
      rw [onRetO_ph]
      exact ⟨hb, .stable (.compl he h1 h2 h3) hstk⟩
    · rw [h3 j''] at hs; cases hs
  | closed he h1 h2 =>
    have : opStep (machine α n) (⟨st, .run (.uLoop j .pull) :: stk, g, tr, none⟩ : Cfg α) =
        some ⟨st, stk, g.onRetO stk.length, .retO :: tr, none⟩ := by
      by_cases hjn : j < n <;> simp [opStep, machine, step, hjn, he, isEnd]
    refine good_of_step this (good_mk ?_)
    rw [onRetO_ph]
    exact ⟨hb, .stable (.closed he h1 h2) hstk⟩

/-- the `Terminate`/`Error` broadcast, (re)started at member `j` -/
theorem good_uLoop_end {n : Nat} {st : St} {g : G} {tr : List (Ev α α)} {stk : List (Frame (Loc α) α)} (u : Up) (j : Nat)
    (hb : Base n g.ph) (hu : isEnd u = true) (he : st.ended = true) (hsink : g.ph.sinkPh 0 = .doneBySelf)
    (hstk : Stk g.ph stk) (hl : ∀ j', g.ph.srcPh j' = .live ↔ (j ≤ j' ∧ phAt st.slots j' = true)) :
    Good n (⟨st, .run (.uLoop j u) :: stk, g, tr, none⟩ : Cfg α) := by
  rcases uLoop_scan n st u (Or.inl hu) stk g tr _ j rfl with ⟨k, hk, hall⟩ | ⟨k, j'', h1, h2, hs, h4, hk⟩
  · refine good_of_advance k hk (good_mk ?_)
    rw [onRetO_ph]
    refine ⟨hb, .stable (.closed he (Or.inl hsink) ?_) hstk⟩
    intro j' hj'
    have hlt : j' < n := hb.lt (by rw [hj']; simp)
    have := (hl j').1 hj'
    rw [hall j' this.1 hlt] at this
    exact absurd this.2 (by simp)
  · refine good_of_advance k hk (good_mk ?_)
    have hlive : g.ph.srcPh j'' = .live := (hl j'').2 ⟨h1, hs⟩
    have e : (g.onOut (machine α n).shape (Out.srcUp j'' u : Out α)).ph = g.ph.setSrc j'' .disposed := by
      cases u with
      | pull => cases hu
      | term => simp [Ph.onOut, hlive]
      | err x => simp [Ph.onOut, hlive]
    rw [e]
    refine ⟨hb.setSrc h2 _, .uloop j'' u stk hu he (by simpa using hsink) rfl
      (hstk.mono (idle_setSrc _ (by rw [hlive]; simp))) ?_⟩
    intro j'
    by_cases hjj : j' = j''
    · subst hjj; simp
    · simp only [Ph.srcPh_setSrc, hjj, if_false, hl j']
      constructor
      · rintro ⟨ha, hb'⟩
        refine ⟨?_, hb'⟩
        by_cases hlt : j' < j''
        · rw [h4 j' ha hlt] at hb'; cases hb'
        · omega
      · rintro ⟨ha, hb'⟩; exact ⟨by omega, hb'⟩

/-- the sibling disposal after member `i` failed, (re)started at member `j` -/
theorem good_eLoop {n : Nat} {st : St} {g : G} {tr : List (Ev α α)} {stk : List (Frame (Loc α) α)} (i e : Nat) (j : Nat)
    (hb : Base n g.ph) (he : st.ended = true) (hsink : g.ph.sinkPh 0 = .live)
    (hstk : Stk g.ph stk) (hl : ∀ j', g.ph.srcPh j' = .live ↔ (j ≤ j' ∧ j' ≠ i ∧ phAt st.slots j' = true)) :
    Good n (⟨st, .run (.eLoop i j e) :: stk, g, tr, none⟩ : Cfg α) := by
  rcases eLoop_scan n st i e stk g tr _ j rfl with ⟨k, hk, hall⟩ | ⟨k, j'', h1, h2, h2', hs, h4, hk⟩
  · refine good_of_advance k hk (good_mk ?_)
    have e' : (g.onOut (machine α n).shape (Out.down 0 (.err e) : Out α)).ph = g.ph.setSink 0 .doneBySrc := by
      simp [Ph.onOut, hsink, isFinal]
    rw [e']
    refine ⟨hb.setSink _, .stable (.closed he (Or.inr (by simp)) ?_) ⟨trivial, Stk.mono (g := g.ph) (g' := g.ph.setSink 0 .doneBySrc) (fun _ h => h) hstk⟩⟩
    intro j' hj'
    have hj'' : g.ph.srcPh j' = .live := by simpa using hj'
    have hlt : j' < n := hb.lt (by rw [hj'']; simp)
    have := (hl j').1 hj''
    rw [hall j' this.1 hlt this.2.1] at this
    exact absurd this.2.2 (by simp)
  · refine good_of_advance k hk (good_mk ?_)
    have hlive : g.ph.srcPh j'' = .live := (hl j'').2 ⟨h1, h2', hs⟩
    have e' : (g.onOut (machine α n).shape (Out.srcUp j'' .term : Out α)).ph = g.ph.setSrc j'' .disposed := by
      simp [Ph.onOut, hlive]
    rw [e']
    refine ⟨hb.setSrc h2 _, .eloop i j'' e stk he (by simpa using hsink) rfl
      (hstk.mono (idle_setSrc _ (by rw [hlive]; simp))) ?_⟩
    intro j'
    by_cases hjj : j' = j''
    · subst hjj; simp
    · simp only [Ph.srcPh_setSrc, hjj, if_false, hl j']
      constructor
      · rintro ⟨ha, hb', hc⟩
        refine ⟨?_, hb', hc⟩
        by_cases hlt : j' < j''
        · rw [h4 j' ha hlt hb'] at hc; cases hc
        · omega
      · rintro ⟨ha, hb', hc⟩; exact ⟨by omega, hb', hc⟩

theorem Stk.setSink {g : Ph} {stk : List (Frame (Loc α) α)} (h : Stk g stk) (k : Nat) (p : SinkPh) :
    Stk (g.setSink k p) stk := Stk.mono (g := g) (g' := g.setSink k p) (fun _ h => h) h

theorem inv_turn (n : Nat) (s : Cfg α) (h : Inv n s) : EnvTurn s ∧ BasicSafe s := by
  obtain ⟨hp, hb, hm⟩ := h
  refine ⟨⟨hp, ?_⟩, hb.viols, hp⟩
  cases hm with
  | init _ h => simp [h, ctxOf]
  | stable _ h => exact h.ctx
  | uloop j u rest _ _ _ h => simp [h, ctxOf]
  | eloop i j e rest _ _ h => simp [h, ctxOf]

theorem inv_init (n : Nat) : Inv n (Sys.init (machine α n) : Cfg α) :=
  ⟨rfl, ⟨rfl, fun _ _ => by simp [Sys.init], fun _ _ => by simp [Sys.init]⟩,
    .init (by simp [Sys.init]) rfl rfl rfl rfl (fun j => phAt_replicate_false n j) (fun _ => by simp [Sys.init])⟩

/-- returning into a continuation in a stable mode -/
theorem good_ret_stable {n : Nat} {st : St} {g : G} {tr : List (Ev α α)} {stk : List (Frame (Loc α) α)} {o : Out α} {l : Loc α}
    (hb : Base n g.ph) (hs : Stable n st g.ph) (hf : FrameOk g.ph (.wait o l) stk) (hrest : Stk g.ph stk) :
    Good n (⟨st, .run l :: stk, g, tr, none⟩ : Cfg α) := by
  cases l with
  | done => exact good_of_step step_done (good_mk (by rw [onRetO_ph]; exact ⟨hb, .stable hs hrest⟩))
  | uLoop j u =>
    cases u with
    | pull => exact good_pull j hb hs hrest
    | _ => exact hf.elim
  | subLoop i =>
    obtain ⟨rfl, hidle⟩ := hf
    have hret : (¬ i < n ∨ st.ended = true) → Good n (⟨st, .run (.subLoop i) :: [], g, tr, none⟩ : Cfg α) := by
      intro h
      have : opStep (machine α n) (⟨st, .run (.subLoop i) :: [], g, tr, none⟩ : Cfg α) =
          some ⟨st, [], g.onRetO 0, .retO :: tr, none⟩ := by
        rcases h with h | h
        · simp [opStep, machine, step, h]
        · by_cases hin : i < n <;> simp [opStep, machine, step, h, hin]
      exact good_of_step this (good_mk (by rw [onRetO_ph]; exact ⟨hb, .stable hs trivial⟩))
    by_cases hin : i < n
    · cases hs with
      | opn he ho hsl hec =>
        have hopen : g.ph.anySinkOpen = true := by
          rw [Ph.anySinkOpen_iff]
          rcases ho with ⟨h, _⟩ | ⟨h, _⟩
          · exact ⟨0, Or.inl h⟩
          · exact ⟨0, Or.inr h⟩
        have hi : g.ph.srcPh i = .idle := hidle i (Nat.le_refl _)
        refine good_of_advance 2 (s' := ⟨st, [.wait (.subSrc i) (.subLoop (i+1))],
            g.onOut (machine α n).shape (Out.subSrc i : Out α), .out (.subSrc i) :: tr, none⟩)
          (by simp [advance, opStep, machine, step, hin, he]) (good_mk ?_)
        have e : (g.onOut (machine α n).shape (Out.subSrc i : Out α)).ph = g.ph.setSrc i .subscribed := by
          simp [Ph.onOut, hi, hopen]
        rw [e]
        refine ⟨hb.setSrc hin _, .stable (.opn he ?_ ?_ ?_) ⟨⟨rfl, ?_⟩, trivial⟩⟩
        · rcases ho with ⟨h1, h2, h3⟩ | ⟨h1, h2⟩
          · refine Or.inl ⟨by simpa using h1, h2, fun j => ?_⟩
            by_cases hj : j = i
            · subst hj; simp
            · simpa [hj] using h3 j
          · exact Or.inr ⟨by simpa using h1, h2⟩
        · intro j
          by_cases hj : j = i
          · subst hj; simp [hsl j, hi]
          · simp [hj, hsl j]
        · rw [endedCnt_setSrc_ne n (by rw [hi]; simp) (by simp)]; exact hec
        · intro j hj
          simp [show j ≠ i by omega, hidle j (by omega)]
      | compl he h1 h2 h3 =>
        have := h2 i hin
        rw [hidle i (Nat.le_refl _)] at this; cases this
      | closed he h1 h2 => exact hret (Or.inr he)
    · exact hret (Or.inl hin)
  | _ => exact hf.elim

theorem good_subscribe {n : Nat} {st : St} {g : G} {tr : List (Ev α α)} {stk : List (Frame (Loc α) α)} {c : Ctx α} (k : Nat)
    (hb : Base n g.ph) (hm : Mode n st g.ph stk) (hc : ctxOf stk = some c)
    (hl : legalIn (machine α n).shape g.ph c (.subscribe k : In α) = true) :
    Good n (⟨st, .run (enter (.subscribe k)) :: stk, g.onIn stk.length (.subscribe k : In α), .inp (.subscribe k) :: tr, none⟩ : Cfg α) := by
  simp only [legalIn, Bool.and_eq_true, beq_iff_eq, machine, Bool.or_false] at hl
  obtain ⟨⟨hc', hidle⟩, rfl⟩ := hl
  cases hm with
  | init h1 h2 h3 h4 h5 h6 h7 =>
    subst h2
    have hb' : Base n (g.ph.setSink 0 .subscribed) := hb.setSink _
    have hopen : (g.ph.setSink 0 .subscribed).anySinkOpen = true := (Ph.anySinkOpen_iff _).2 ⟨0, by simp⟩
    have hos : OpenSink st (g.ph.setSink 0 .subscribed) := Or.inl ⟨by simp, h4, fun j => by simp [h7 j]⟩
    by_cases hn : 0 < n
    · refine good_of_advance 2 (s' := ⟨st, [.wait (.subSrc 0) (.subLoop 1)],
          (g.onIn 0 (.subscribe 0 : In α)).onOut (machine α n).shape (Out.subSrc 0 : Out α),
          .out (.subSrc 0) :: .inp (.subscribe 0) :: tr, none⟩)
        (by simp [advance, opStep, machine, enter, step, hn, h3]) (good_mk ?_)
      have e : ((g.onIn 0 (.subscribe 0 : In α)).onOut (machine α n).shape (Out.subSrc 0 : Out α)).ph =
          (g.ph.setSink 0 .subscribed).setSrc 0 .subscribed := by
        simp [Ph.onIn, Ph.onOut, h7, hopen]
      rw [e]
      refine ⟨hb'.setSrc hn _, .stable (.opn h3 ?_ ?_ ?_) ⟨⟨rfl, ?_⟩, trivial⟩⟩
      · refine Or.inl ⟨by simp, h4, fun j => ?_⟩
        by_cases hj : j = 0
        · subst hj; simp
        · simp [hj, h7 j]
      · intro j
        by_cases hj : j = 0
        · subst hj; simp [h6]
        · simp [hj, h6, h7]
      · rw [h5]; symm; apply cnt_zero
        intro j _
        by_cases hj : j = 0
        · subst hj; simp
        · simp [hj, h7 j]
      · intro j hj
        simp [show j ≠ 0 by omega, h7 j]
    · refine good_of_advance 1 (s' := ⟨st, [], (g.onIn 0 (.subscribe 0 : In α)).onRetO 0, .retO :: .inp (.subscribe 0) :: tr, none⟩)
        (by simp [advance, opStep, machine, enter, step, hn]) (good_mk ?_)
      have e : ((g.onIn 0 (.subscribe 0 : In α)).onRetO 0).ph = g.ph.setSink 0 .subscribed := by
        simp [Ph.onIn]
      rw [e]
      refine ⟨hb', .stable (.opn h3 hos ?_ ?_) trivial⟩
      · intro j; simp [h6, h7]
      · rw [h5]; symm; apply cnt_zero
        intro j _; simp [h7 j]
  | stable hs hstk =>
    cases hs with
    | opn he ho _ _ => rcases ho with ⟨h, _⟩ | ⟨h, _⟩ <;> (rw [h] at hidle; cases hidle)
    | compl he h _ _ => rw [h] at hidle; cases hidle
    | closed he h _ => rcases h with h | h <;> (rw [h] at hidle; cases hidle)
  | uloop j u rest _ _ h => rw [h] at hidle; cases hidle
  | eloop i j e rest _ h => rw [h] at hidle; cases hidle

theorem good_sinkUp {n : Nat} {st : St} {g : G} {tr : List (Ev α α)} {stk : List (Frame (Loc α) α)} {c : Ctx α} (k : Nat) (u : Up)
    (hb : Base n g.ph) (hm : Mode n st g.ph stk) (hc : ctxOf stk = some c)
    (hl : legalIn (machine α n).shape g.ph c (.sinkUp k u : In α) = true) :
    Good n (⟨st, .run (enter (.sinkUp k u)) :: stk, g.onIn stk.length (.sinkUp k u : In α), .inp (.sinkUp k u) :: tr, none⟩ : Cfg α) := by
  simp only [legalIn, Bool.and_eq_true, beq_iff_eq, Bool.or_eq_true] at hl
  obtain ⟨hlive, hctx⟩ := hl
  have hk : k = 0 := by
    by_cases hk : k = 0
    · exact hk
    · rw [hb.sinks k hk] at hlive; cases hlive
  subst hk
  cases hm with
  | init h => rw [h] at hlive; cases hlive
  | stable hs hstk =>
    cases hs with
    | opn he ho hsl hec =>
      rcases ho with ⟨h, _⟩ | ⟨_, hsc⟩
      · rw [h] at hlive; cases hlive
      · cases u with
        | pull =>
          refine good_of_step (s' := ⟨st, .run (.uLoop 0 .pull) :: stk, g.onIn stk.length (.sinkUp 0 .pull : In α),
            .inp (.sinkUp 0 .pull) :: tr, none⟩) (by simp [opStep, machine, enter, step, isEnd]) ?_
          have e : (g.onIn stk.length (.sinkUp 0 .pull : In α)).ph = g.ph := by simp [Ph.onIn]
          exact good_pull 0 (by rw [e]; exact hb) (by rw [e]; exact .opn he (Or.inr ⟨hlive, hsc⟩) hsl hec) (by rw [e]; exact hstk)
        | term =>
          refine good_of_step (s' := ⟨{ st with ended := true }, .run (.uLoop 0 .term) :: stk, g.onIn stk.length (.sinkUp 0 .term : In α),
            .inp (.sinkUp 0 .term) :: tr, none⟩) (by simp [opStep, machine, enter, step, isEnd]) ?_
          have e : (g.onIn stk.length (.sinkUp 0 .term : In α)).ph = g.ph.setSink 0 .doneBySelf := by simp [Ph.onIn]
          refine good_uLoop_end .term 0 (by rw [e]; exact hb.setSink _) rfl rfl (by rw [e]; simp) (by rw [e]; exact hstk.setSink _ _) ?_
          intro j'
          rw [e]
          exact ⟨fun h => ⟨Nat.zero_le _, (hsl j').2 h⟩, fun h => (hsl j').1 h.2⟩
        | err x =>
          refine good_of_step (s' := ⟨{ st with ended := true }, .run (.uLoop 0 (.err x)) :: stk, g.onIn stk.length (.sinkUp 0 (.err x) : In α),
            .inp (.sinkUp 0 (.err x)) :: tr, none⟩) (by simp [opStep, machine, enter, step, isEnd]) ?_
          have e : (g.onIn stk.length (.sinkUp 0 (.err x) : In α)).ph = g.ph.setSink 0 .doneBySelf := by simp [Ph.onIn]
          refine good_uLoop_end (.err x) 0 (by rw [e]; exact hb.setSink _) rfl rfl (by rw [e]; simp) (by rw [e]; exact hstk.setSink _ _) ?_
          intro j'
          rw [e]
          exact ⟨fun h => ⟨Nat.zero_le _, (hsl j').2 h⟩, fun h => (hsl j').1 h.2⟩
    | compl he h _ _ => rw [h] at hlive; cases hlive
    | closed he h _ => rcases h with h | h <;> (rw [h] at hlive; cases hlive)
  | uloop j u rest _ _ h => rw [h] at hlive; cases hlive
  | eloop i j e rest _ _ h =>
    subst h
    simp [ctxOf] at hc; subst hc; simp [isTop, inGreet, inData] at hctx

theorem good_srcGreet {n : Nat} {st : St} {g : G} {tr : List (Ev α α)} {stk : List (Frame (Loc α) α)} {c : Ctx α} (i : Nat)
    (hb : Base n g.ph) (hm : Mode n st g.ph stk) (hc : ctxOf stk = some c)
    (hl : legalIn (machine α n).shape g.ph c (.srcGreet i : In α) = true) :
    Good n (⟨st, .run (enter (.srcGreet i)) :: stk, g.onIn stk.length (.srcGreet i : In α), .inp (.srcGreet i) :: tr, none⟩ : Cfg α) := by
  simp only [legalIn, Bool.and_eq_true, beq_iff_eq, Bool.or_eq_true, machine, Bool.true_and] at hl
  obtain ⟨hsub, hctx⟩ := hl
  have hin : i < n := hb.lt (by rw [hsub]; simp)
  have hidle := idle_setSrc (g := g.ph) (i := i) .live (by rw [hsub]; simp)
  have e0 : (g.onIn stk.length (.srcGreet i : In α)).ph = g.ph.setSrc i .live := by simp [Ph.onIn]
  cases hm with
  | init _ _ _ _ _ _ h => rw [h] at hsub; cases hsub
  | stable hs hstk =>
    cases hs with
    | opn he ho hsl hec =>
      have hsl' : ∀ j, phAt (setAt st.slots i true) j = true ↔ (g.ph.setSrc i .live).srcPh j = .live := by
        intro j
        by_cases hj : j = i
        · subst hj; simp [phAt_setAt]
        · simp [phAt_setAt, hj, hsl j]
      have hec' : st.endCount = endedCnt (g.ph.setSrc i .live) n := by
        rw [endedCnt_setSrc_ne n (by rw [hsub]; simp) (by simp)]; exact hec
      rcases ho with ⟨hsk, hsc, hnl⟩ | ⟨hsk, hsc⟩
      · refine good_of_advance 3 (s' := ⟨⟨setAt st.slots i true, st.startCount + 1, st.endCount, st.ended⟩,
            .wait (.greet 0) .done :: stk,
            (g.onIn stk.length (.srcGreet i : In α)).onOut (machine α n).shape (Out.greet 0 : Out α),
            .out (.greet 0) :: .inp (.srcGreet i) :: tr, none⟩)
          (by simp [advance, opStep, machine, enter, step, he, hsc]) (good_mk ?_)
        have e : ((g.onIn stk.length (.srcGreet i : In α)).onOut (machine α n).shape (Out.greet 0 : Out α)).ph =
            (g.ph.setSrc i .live).setSink 0 .live := by
          simp [Ph.onIn, Ph.onOut, hsk]
        rw [e]
        refine ⟨(hb.setSrc hin _).setSink _, .stable (.opn he (Or.inr ⟨by simp, by simp⟩) hsl' hec')
          ⟨trivial, (hstk.mono hidle).setSink _ _⟩⟩
      · refine good_of_advance 3 (s' := ⟨⟨setAt st.slots i true, st.startCount + 1, st.endCount, st.ended⟩, stk,
            (g.onIn stk.length (.srcGreet i : In α)).onRetO stk.length,
            .retO :: .inp (.srcGreet i) :: tr, none⟩)
          (by simp [advance, opStep, machine, enter, step, he, hsc]) (good_mk ?_)
        rw [onRetO_ph, e0]
        exact ⟨hb.setSrc hin _, .stable (.opn he (Or.inr ⟨by simpa using hsk, by simp⟩) hsl' hec') (hstk.mono hidle)⟩
    | compl he _ h _ => rw [h i hin] at hsub; cases hsub
    | closed he hsk hnl =>
      refine good_of_advance 1 (s' := ⟨st, .wait (.srcUp i .term) .done :: stk,
          (g.onIn stk.length (.srcGreet i : In α)).onOut (machine α n).shape (Out.srcUp i .term : Out α),
          .out (.srcUp i .term) :: .inp (.srcGreet i) :: tr, none⟩)
        (by simp [advance, opStep, machine, enter, step, he]) (good_mk ?_)
      have e : ((g.onIn stk.length (.srcGreet i : In α)).onOut (machine α n).shape (Out.srcUp i .term : Out α)).ph =
          (g.ph.setSrc i .live).setSrc i .disposed := by
        simp [Ph.onIn, Ph.onOut]
      rw [e]
      refine ⟨(hb.setSrc hin _).setSrc hin _, .stable (.closed he hsk ?_) ⟨trivial, (hstk.mono hidle).mono (idle_setSrc _ (by simp))⟩⟩
      intro j
      by_cases hj : j = i
      · subst hj; simp
      · simpa [hj] using hnl j
  | uloop j u rest _ _ _ h =>
    subst h
    simp [ctxOf] at hc; subst hc; simp [isTop, inSub] at hctx
  | eloop j' j e rest _ _ h =>
    subst h
    simp [ctxOf] at hc; subst hc; simp [isTop, inSub] at hctx

theorem good_srcDown {n : Nat} {st : St} {g : G} {tr : List (Ev α α)} {stk : List (Frame (Loc α) α)} {c : Ctx α} (i : Nat) (d : Down α)
    (hb : Base n g.ph) (hm : Mode n st g.ph stk) (hc : ctxOf stk = some c)
    (hl : legalIn (machine α n).shape g.ph c (.srcDown i d : In α) = true) :
    Good n (⟨st, .run (enter (.srcDown i d)) :: stk, g.onIn stk.length (.srcDown i d : In α), .inp (.srcDown i d) :: tr, none⟩ : Cfg α) := by
  simp only [legalIn, Bool.and_eq_true, beq_iff_eq, Bool.or_eq_true] at hl
  obtain ⟨hlive, hctx⟩ := hl
  have hin : i < n := hb.lt (by rw [hlive]; simp)
  cases hm with
  | init _ _ _ _ _ _ h => rw [h] at hlive; cases hlive
  | stable hs hstk =>
    cases hs with
    | opn he ho hsl hec =>
      rcases ho with ⟨_, _, hnl⟩ | ⟨hsk, hsc⟩
      · exact absurd hlive (hnl i)
      · cases d with
        | data a =>
          refine good_of_advance 1 (s' := ⟨st, .wait (.down 0 (.data a)) .done :: stk,
              (g.onIn stk.length (.srcDown i (.data a) : In α)).onOut (machine α n).shape (Out.down 0 (.data a) : Out α),
              .out (.down 0 (.data a)) :: .inp (.srcDown i (.data a)) :: tr, none⟩)
            (by simp [advance, opStep, machine, enter, step]) (good_mk ?_)
          have e : ((g.onIn stk.length (.srcDown i (.data a) : In α)).onOut (machine α n).shape (Out.down 0 (.data a) : Out α)).ph = g.ph := by
            simp [Ph.onIn, Ph.onOut, hsk, isFinal]
          rw [e]
          exact ⟨hb, .stable (.opn he (Or.inr ⟨hsk, hsc⟩) hsl hec) ⟨trivial, hstk⟩⟩
        | term =>
          have hidle := idle_setSrc (g := g.ph) (i := i) .ended (by rw [hlive]; simp)
          have e0 : (g.onIn stk.length (.srcDown i .term : In α)).ph = g.ph.setSrc i .ended := by simp [Ph.onIn]
          have hcnt : endedCnt (g.ph.setSrc i .ended) n = st.endCount + 1 := by
            rw [endedCnt_setSrc_ended n hin (by rw [hlive]; simp), hec]
          by_cases hlast : st.endCount + 1 = n
          · refine good_of_advance 3 (s' := ⟨⟨setAt st.slots i false, st.startCount, st.endCount + 1, st.ended⟩,
                .wait (.down 0 .term) .done :: stk,
                (g.onIn stk.length (.srcDown i .term : In α)).onOut (machine α n).shape (Out.down 0 .term : Out α),
                .out (.down 0 .term) :: .inp (.srcDown i .term) :: tr, none⟩)
              (by simp [advance, opStep, machine, enter, step, hlast]) (good_mk ?_)
            have e : ((g.onIn stk.length (.srcDown i .term : In α)).onOut (machine α n).shape (Out.down 0 .term : Out α)).ph =
                (g.ph.setSrc i .ended).setSink 0 .doneBySrc := by
              simp [Ph.onIn, Ph.onOut, hsk, isFinal]
            rw [e]
            have hall := endedCnt_all (g := g.ph.setSrc i .ended) (n := n) (by rw [hcnt, hlast])
            refine ⟨(hb.setSrc hin _).setSink _, .stable (.compl he (by simp) (fun j hj => by simpa using hall j hj) ?_)
              ⟨trivial, (hstk.mono hidle).setSink _ _⟩⟩
            intro j
            by_cases hj : j = i
            · subst hj; simp [phAt_setAt]
            · simp only [phAt_setAt, hj, if_false]
              cases hsj : phAt st.slots j with
              | false => rfl
              | true =>
                have h1 := (hsl j).1 hsj
                have h2 := hall j (hb.lt (by rw [h1]; simp))
                simp [hj, h1] at h2
          · refine good_of_advance 3 (s' := ⟨⟨setAt st.slots i false, st.startCount, st.endCount + 1, st.ended⟩, stk,
                (g.onIn stk.length (.srcDown i .term : In α)).onRetO stk.length,
                .retO :: .inp (.srcDown i .term) :: tr, none⟩)
              (by simp [advance, opStep, machine, enter, step, hlast]) (good_mk ?_)
            rw [onRetO_ph, e0]
            refine ⟨hb.setSrc hin _, .stable (.opn he (Or.inr ⟨by simpa using hsk, hsc⟩) ?_ hcnt.symm) (hstk.mono hidle)⟩
            intro j
            by_cases hj : j = i
            · subst hj; simp [phAt_setAt]
            · simp [phAt_setAt, hj, hsl j]
        | err x =>
          have hidle := idle_setSrc (g := g.ph) (i := i) .ended (by rw [hlive]; simp)
          have e0 : (g.onIn stk.length (.srcDown i (.err x) : In α)).ph = g.ph.setSrc i .ended := by simp [Ph.onIn]
          refine good_of_step (s' := ⟨{ st with ended := true }, .run (.eLoop i 0 x) :: stk,
            g.onIn stk.length (.srcDown i (.err x) : In α), .inp (.srcDown i (.err x)) :: tr, none⟩)
            (by simp [opStep, machine, enter, step]) ?_
          refine good_eLoop i x 0 (by rw [e0]; exact hb.setSrc hin _) rfl (by rw [e0]; simpa using hsk)
            (by rw [e0]; exact hstk.mono hidle) ?_
          intro j
          rw [e0]
          by_cases hj : j = i
          · subst hj; simp
          · simp [hj, hsl j]
    | compl he _ h _ => rw [h i hin] at hlive; cases hlive
    | closed he hsk hnl => exact absurd hlive (hnl i)
  | uloop j u rest hu _ _ h =>
    subst h
    simp [ctxOf] at hc; subst hc
    cases u with
    | pull => cases hu
    | _ => simp [isTop, inSub, inPull] at hctx
  | eloop j' j e rest _ _ h =>
    subst h
    simp [ctxOf] at hc; subst hc; simp [isTop, inSub, inPull] at hctx

theorem inv_step (n : Nat) (s s' : Cfg α) (m : Move α) (h : Inv n s) (hs : EnvStep (machine α n) m s s') : Good n s' := by
  obtain ⟨hp, hb, hm⟩ := h
  cases hs with
  | @call st stk g tr c i hc hl =>
    simp only at hp hb hm
    cases i with
    | subscribe k => exact good_subscribe k hb hm hc hl
    | sinkUp k u => exact good_sinkUp k u hb hm hc hl
    | srcGreet i => exact good_srcGreet i hb hm hc hl
    | srcDown i d => exact good_srcDown i d hb hm hc hl
  | @ret st stk g tr o l hl =>
    simp only at hp hb hm
    cases hm with
    | init _ h => cases h
    | stable hs hstk => exact good_ret_stable hb hs hstk.1 hstk.2
    | uloop j u rest hu he hsink hstk hrest hlv =>
      simp at hstk; obtain ⟨⟨rfl, rfl⟩, rfl⟩ := hstk
      exact good_uLoop_end u (j+1) hb hu he hsink hrest hlv
    | eloop i j e rest he hsink hstk hrest hlv =>
      simp at hstk; obtain ⟨⟨rfl, rfl⟩, rfl⟩ := hstk
      exact good_eLoop i e (j+1) hb he hsink hrest hlv

/-- merge, every member count, late greeters allowed: under every conformant environment (re-entrant sink, members that
greet inside the subscribing call, later, or never, and that answer a Pull synchronously), the operator never violates the
sink- or source-side protocol and never panics. -/
theorem merge_basicSafe {α : Type} (n : Nat) : ∀ s, SReach (machine α n true true) s → BasicSafe s :=
  basicSafe_of_macro_inv (machine α n) (Inv n) (inv_init n) (inv_turn n) (inv_step n)

end Cb.Merge

#print axioms Cb.Merge.merge_basicSafe
